"""mouette/geometry/{aabb,geometry,rotations,vector}.py + mouette/utils/maths.py -> coq/theories/C12/Gen.v

Two passes over the CURRENT source, both fail-closed (TranslationError on anything not recognised):

1. algebra: a small typed compiler for the numpy-vector subset these files are written in.  Every function
   listed in SPECS becomes one Gallina definition over the bare operations record `ops T` (Model.v): scalar
   and per-coordinate vector arithmetic, np.maximum/minimum/abs/sum/max/min/dot/sqrt/full, comparisons
   (strict / non-strict kept as written), `.all()` / np.any / np.all, indexing, early returns, `raise`
   (as `Raise <exn>`), calls between the translated functions, math.atan2 (as the pair of its arguments),
   math.cos/sin of a parameter (as extra parameters cos_<p>, sin_<p>).
2. effects: EVERY function of the five files is summarised as a list of side-effect events (in-place
   writes with the argument arrays they may reach, np.seterr calls, `with np.errstate` blocks, stores of
   arrays into self's fields, calls of other functions of the table) -> Gen.fx_table.
"""
import ast
from fractions import Fraction

from . import common as T
from ..core import TranslationError

F_AABB = "mouette/geometry/aabb.py"
F_GEO = "mouette/geometry/geometry.py"
F_ROT = "mouette/geometry/rotations.py"
F_VEC = "mouette/geometry/vector.py"
F_MATH = "mouette/utils/maths.py"


def R(t):
    return ("R", t)


def O(t):
    return ("O", t)


def TUP(*ts):
    return ("T", tuple(ts))


def coq_ty(t):
    if t == "S":
        return "T"
    if t == "V":
        return "vec T"
    if t == "B":
        return "bool"
    if t == "N":
        return "nat"
    if t == "K":
        return "nkind"
    if t == "BOX":
        return "box T"
    if t == "A":
        return "ang T"
    if t == "PTS" or t == "MESH":
        return "list (vec T)"
    if t == "P2":
        return "arg2 T"
    if isinstance(t, tuple) and t[0] == "R":
        return "res (%s)" % coq_ty(t[1])
    if isinstance(t, tuple) and t[0] == "O":
        return "option (%s)" % coq_ty(t[1])
    if isinstance(t, tuple) and t[0] == "T":
        return "(" + " * ".join(coq_ty(x) for x in t[1]) + ")"
    raise TranslationError("no Coq type for %r" % (t,))


class Val:
    def __init__(self, coq, ty, extra=None):
        self.coq, self.ty, self.extra = coq, ty, extra


# (file, python qualified name, Coq name, [(param, type)], return type, options)
#   options: variants -> the same source compiled with other parameter types (isinstance resolved statically)
#            self_box  -> `self` is an AABB (fields _p1/_p2 <-> blo/bhi); mutator -> returns the updated self
#            fall      -> value when control falls off the end (Python returns None there)
SPECS = [
    (F_VEC, "Vec.norm", "vec_norm", [("self", "V"), ("which", "K")], "S", {"fall": "zero"}),
    (F_VEC, "Vec.dot", "vec_dot", [("self", "V"), ("other", "V")], "S", {}),
    (F_VEC, "Vec.normalized", "vec_normalized", [("vec", "V"), ("which", "K")], R("V"), {}),
    (F_GEO, "sign0", "g_sign0", [("x", "S")], "S", {}),
    (F_GEO, "sign", "g_sign", [("x", "S")], "S", {}),
    (F_GEO, "norm", "g_norm", [("x", "V"), ("which", "K")], R("S"), {"fall": "Ret zero"}),
    (F_GEO, "dot", "g_dot", [("A", "V"), ("B", "V")], "S", {}),
    (F_GEO, "distance", "g_distance", [("A", "V"), ("B", "V"), ("which", "K")], R("S"), {}),
    (F_GEO, "cross", "g_cross", [("A", "V"), ("B", "V")], "V", {}),
    (F_GEO, "cotan", "g_cotan", [("A", "V"), ("B", "V"), ("C", "V")], R("S"), {}),
    (F_GEO, "angle_3pts", "g_angle_3pts", [("A", "V"), ("B", "V"), ("C", "V")], "A", {}),
    (F_GEO, "signed_angle_2vec3D", "g_signed_angle_2vec3D", [("V1", "V"), ("V2", "V"), ("N", "V")], "A", {}),
    (F_GEO, "signed_angle_3pts", "g_signed_angle_3pts", [("A", "V"), ("B", "V"), ("C", "V"), ("N", "V")], "A", {}),
    (F_GEO, "angle_2vec2D", "g_angle_2vec2D", [("V1", "V"), ("V2", "V")], "A", {}),
    (F_GEO, "angle_2vec3D", "g_angle_2vec3D", [("V1", "V"), ("V2", "V")], "A", {}),
    (F_GEO, "face_basis", "g_face_basis", [("pA", "V"), ("pB", "V"), ("pC", "V")], R(TUP("V", "V", "V")),
     {"varargs3": True}),
    (F_GEO, "triangle_area", "g_triangle_area", [("A", "V"), ("B", "V"), ("C", "V")], "S", {}),
    (F_GEO, "det_2x2", "g_det_2x2", [("A", "V"), ("B", "V")], "S", {}),
    (F_GEO, "det_2x2", "g_det_2x2_any", [("A", "P2"), ("B", "P2")], R("S"), {}),
    (F_GEO, "triangle_area_2D", "g_triangle_area_2D", [("A", "V"), ("B", "V"), ("C", "V")], "S", {}),
    (F_GEO, "det_3x3", "g_det_3x3", [("A", "V"), ("B", "V"), ("C", "V")], "S", {"det3": True}),
    (F_GEO, "intersect_2lines2D", "g_intersect_2lines2D", [("p1", "V"), ("d1", "V"), ("p2", "V"), ("d2", "V")],
     O("V"), {}),
    (F_GEO, "circumcenter", "g_circumcenter", [("v1", "V"), ("v2", "V"), ("v3", "V")], R("V"), {}),
    (F_GEO, "project_to_plane", "g_project_to_plane", [("P", "V"), ("N", "V"), ("orig", "V")], "V", {}),
    (F_GEO, "quad_area", "g_quad_area", [("A", "V"), ("B", "V"), ("C", "V"), ("D", "V")], "S", {}),
    (F_GEO, "aspect_ratio", "g_aspect_ratio", [("A", "V"), ("B", "V"), ("C", "V")], R("S"), {}),
    (F_GEO, "distance_to_segment2D", "g_distance_to_segment2D", [("P", "V"), ("A", "V"), ("B", "V")], R("S"), {}),
    (F_VEC, "Vec.x", "vec_x", [("self", "V")], "S", {"pick": "getter"}),
    (F_VEC, "Vec.y", "vec_y", [("self", "V")], "S", {"pick": "getter"}),
    (F_VEC, "Vec.z", "vec_z", [("self", "V")], "S", {"pick": "getter"}),
    (F_VEC, "Vec.xy", "vec_xy", [("self", "V")], "V", {"pick": "getter"}),
    (F_VEC, "Vec.x", "vec_set_x", [("self", "V"), ("value", "S")], "V", {"pick": "setter", "fall_self": True}),
    (F_VEC, "Vec.y", "vec_set_y", [("self", "V"), ("value", "S")], "V", {"pick": "setter", "fall_self": True}),
    (F_VEC, "Vec.z", "vec_set_z", [("self", "V"), ("value", "S")], "V", {"pick": "setter", "fall_self": True}),
    (F_VEC, "Vec.zeros", "vec_zeros", [("n", "N")], "V", {"skip_self": True}),
    (F_VEC, "Vec.X", "vec_X", [], "V", {"skip_self": True}),
    (F_VEC, "Vec.Y", "vec_Y", [], "V", {"skip_self": True}),
    (F_VEC, "Vec.Z", "vec_Z", [], "V", {"skip_self": True}),
    (F_VEC, "Vec.normalize", "vec_normalize", [("self", "V"), ("which", "K")], "V", {"fall_self": True}),
    (F_VEC, "Vec.outer", "vec_outer", [("self", "V"), ("other", "V")], "PTS", {}),
    (F_MATH, "solve_quadratic", "m_solve_quadratic", [("A", "S"), ("B", "S"), ("C", "S")], "V", {}),
    (F_ROT, "rotate_2d", "rot_rotate_2d", [("v", "V"), ("angle", "S")], "V", {}),
    (F_ROT, "rotate_around_axis", "rot_rotate_around_axis", [("inp", "V"), ("_axis", "V"), ("angle", "S")], R("V"), {}),
    (F_MATH, "angle_diff", "m_angle_diff", [("a", "S"), ("b", "S")], "S", {}),
    (F_MATH, "principal_angle", "m_principal_angle", [("a", "S")], "S", {}),
    (F_AABB, "AABB.__init__", "aabb_init", [("p_min", "V"), ("p_max", "V")], R("BOX"), {"ctor": True}),
    (F_AABB, "AABB.span", "aabb_span", [("self", "BOX")], "V", {}),
    (F_AABB, "AABB.center", "aabb_center", [("self", "BOX")], "V", {}),
    (F_AABB, "AABB.intersection", "aabb_intersection", [("b1", "BOX"), ("b2", "BOX")], R("BOX"), {}),
    (F_AABB, "AABB.do_intersect", "aabb_do_intersect", [("b1", "BOX"), ("b2", "BOX")], R("B"), {}),
    (F_AABB, "AABB.union", "aabb_union", [("b1", "BOX"), ("b2", "BOX")], R("BOX"), {}),
    (F_AABB, "AABB.pad", "aabb_pad_scalar", [("self", "BOX"), ("pad", "S")], R("BOX"), {"mutator": True}),
    (F_AABB, "AABB.pad", "aabb_pad_vec", [("self", "BOX"), ("pad", "V")], R("BOX"), {"mutator": True}),
    (F_AABB, "AABB.contains_point", "aabb_contains_point", [("self", "BOX"), ("pt", "V")], R("B"), {}),
    (F_AABB, "AABB.project", "aabb_project", [("self", "BOX"), ("pt", "V")], R("V"), {}),
    (F_AABB, "AABB.distance", "aabb_distance", [("self", "BOX"), ("pt", "V"), ("which", "K")], R("S"), {}),
    (F_AABB, "AABB.is_empty", "aabb_is_empty", [("self", "BOX")], "B", {}),
    (F_AABB, "AABB.dim", "aabb_dim", [("self", "BOX")], "N", {"pick": "getter"}),
    (F_AABB, "AABB.mini", "aabb_mini", [("self", "BOX")], "V", {"pick": "getter"}),
    (F_AABB, "AABB.maxi", "aabb_maxi", [("self", "BOX")], "V", {"pick": "getter"}),
    (F_AABB, "AABB.__and__", "aabb_and", [("self", "BOX"), ("other", "BOX")], R("BOX"), {}),
    (F_AABB, "AABB.__or__", "aabb_or", [("self", "BOX"), ("other", "BOX")], R("BOX"), {}),
    (F_AABB, "AABB.unit_cube", "aabb_unit_cube", [("dim", "N"), ("centered", "B")], R("BOX"), {"skip_self": True}),
    (F_AABB, "AABB.of_mesh", "aabb_of_mesh", [("mesh", "MESH"), ("padding", "S")], R("BOX"), {"skip_self": True}),
    (F_AABB, "AABB.of_points", "aabb_of_points", [("points", "PTS"), ("padding", "S")], R("BOX"), {"skip_self": True}),
]

# how a callee written in the source resolves to a translated function (per file)
CALLEES = {
    F_GEO: {"norm": "g_norm", "dot": "g_dot", "cross": "g_cross", "distance": "g_distance", "sign0": "g_sign0",
            "sign": "g_sign", "det_2x2": "g_det_2x2", "face_basis": "g_face_basis",
            "intersect_2lines2D": "g_intersect_2lines2D", "signed_angle_2vec3D": "g_signed_angle_2vec3D",
            "triangle_area": "g_triangle_area", "Vec.normalized": "vec_normalized", "Vec.norm": "vec_norm"},
    F_AABB: {"norm": "g_norm", "AABB": "aabb_init", "Vec.normalized": "vec_normalized",
             "AABB.intersection": "aabb_intersection", "AABB.union": "aabb_union"},
    F_ROT: {"Vec.normalized": "vec_normalized", "Vec.norm": "vec_norm"},
    F_VEC: {"Vec.norm": "vec_norm"},
    F_MATH: {},
}
KINDS = {"l2": "L2", "l1": "L1", "linf": "Linf"}
EXN = {"AABB.IncompatibleDimensionError": "IncompatibleDimension", "Exception": "PlainException"}


class FnCompiler:
    def __init__(self, rel, src, fn, spec, registry):
        self.rel, self.src, self.fn = rel, src, fn
        _, self.qual, self.coqname, self.params, self.ret, self.opt = spec
        self.reg = registry
        self.extra_params = []      # cos_x / sin_x
        self.tmp = 0
        self.raise_mode = False     # inside np.errstate(all='raise') (or after np.seterr(all='raise'))

    # ---------------------------------------------------------------- helpers
    def fail(self, node, msg):
        T.fail(self.rel, node, "%s: %s" % (self.qual, msg))

    def fresh(self, base):
        self.tmp += 1
        return "%s_%d" % (base, self.tmp)

    def is_res(self):
        return isinstance(self.ret, tuple) and self.ret[0] == "R"

    def is_opt(self):
        return isinstance(self.ret, tuple) and self.ret[0] == "O"

    def number(self, node, v):
        if isinstance(v, bool):
            self.fail(node, "boolean constant in arithmetic")
        if isinstance(v, int):
            return Val("(oZ o (%d)%%Z)" % v, "S", extra=("int", v))
        if isinstance(v, float):
            fr = Fraction(repr(v))
            if fr.denominator == 1:
                return Val("(oZ o (%d)%%Z)" % fr.numerator, "S")
            return Val("(oQ o (%d)%%Z %d%%positive)" % (fr.numerator, fr.denominator), "S")
        self.fail(node, "unsupported constant %r" % (v,))

    # ---------------------------------------------------------------- expressions
    def ex(self, e, env):
        if isinstance(e, ast.Constant):
            if isinstance(e.value, str):
                if e.value in KINDS:
                    return Val(KINDS[e.value], "K")
                self.fail(e, "string constant that is not a norm kind")
            return self.number(e, e.value)
        if isinstance(e, ast.Name):
            if e.id in env:
                return env[e.id]
            if e.id == "pi" and self.rel == F_MATH:
                return Val("(opi o)", "S")
            self.fail(e, "unknown name %s" % e.id)
        if isinstance(e, ast.UnaryOp):
            if isinstance(e.op, ast.USub):
                if isinstance(e.operand, ast.Constant) and isinstance(e.operand.value, (int, float)) \
                        and not isinstance(e.operand.value, bool):
                    return self.number(e, -e.operand.value)
                a = self.ex(e.operand, env)
                if a.ty == "S":
                    return Val("(neg o %s)" % a.coq, "S")
                if a.ty == "V":
                    return Val("(vneg o %s)" % a.coq, "V")
                self.fail(e, "unary minus on %r" % (a.ty,))
            if isinstance(e.op, ast.Not):
                a = self.boolean(e.operand, env)
                return Val("(negb %s)" % a.coq, "B")
            self.fail(e, "unsupported unary operator")
        if isinstance(e, ast.BinOp):
            return self.binop(e, env)
        if isinstance(e, ast.Compare):
            return self.compare(e, env)
        if isinstance(e, ast.BoolOp):
            vals = [self.boolean(v, env) for v in e.values]
            op = " && " if isinstance(e.op, ast.And) else " || "
            return Val("(" + op.join(v.coq for v in vals) + ")", "B")
        if isinstance(e, ast.Attribute):
            return self.attribute(e, env)
        if isinstance(e, ast.Subscript):
            return self.subscript(e, env)
        if isinstance(e, ast.Call):
            return self.call(e, env)
        if isinstance(e, ast.Tuple):
            vals = [self.ex(x, env) for x in e.elts]
            if all(v.ty == "V" for v in vals):
                return Val("[" + "; ".join(v.coq for v in vals) + "]", "PTS")
            self.fail(e, "tuple of non-vectors")
        if isinstance(e, ast.ListComp):
            return self.listcomp(e, env)
        if isinstance(e, ast.List):
            vals = [self.ex(x, env) for x in e.elts]
            if all(v.ty == "S" for v in vals):
                return Val("[" + "; ".join(v.coq for v in vals) + "]", "V")
            self.fail(e, "list of non-scalars")
        self.fail(e, "unsupported expression")

    def boolean(self, e, env):
        v = self.ex(e, env)
        if v.ty != "B":
            self.fail(e, "expected a boolean, got %r" % (v.ty,))
        return v

    def binop(self, e, env):
        a, b = self.ex(e.left, env), self.ex(e.right, env)
        op = type(e.op)
        names = {ast.Add: "add", ast.Sub: "sub", ast.Mult: "mul", ast.Div: "div"}
        if op is ast.Mod and a.ty == "S" and b.ty == "S":
            return Val("(ofmod o %s %s)" % (a.coq, b.coq), "S")
        if op is ast.Pow and a.ty == "S" and b.ty == "S":
            return Val("(opow o %s %s)" % (a.coq, b.coq), "S")
        if op not in names:
            self.fail(e, "unsupported binary operator")
        n = names[op]
        if a.ty == "S" and b.ty == "S":
            return Val("(o%s o %s %s)" % (n, a.coq, b.coq), "S")
        if a.ty == "V" and b.ty == "V":
            return Val("(v%s o %s %s)" % (n, a.coq, b.coq), "V")
        if a.ty == "V" and b.ty == "S":
            if n == "div" and self.raise_mode:
                return Val("(vdivs_raise o %s %s)" % (a.coq, b.coq), R("V"))
            f = {"add": "vadds", "sub": "vsubs", "mul": "vscaler", "div": "vdivs"}[n]
            return Val("(%s o %s %s)" % (f, a.coq, b.coq), "V")
        if a.ty == "S" and b.ty == "V" and n == "mul":
            return Val("(vscale o %s %s)" % (a.coq, b.coq), "V")
        if a.ty == "A" and b.ty == "A" and n == "sub":
            return Val("(ang_sub o %s %s)" % (a.coq, b.coq), "A")
        if a.ty == "S" and b.ty == "A" and n == "mul":
            return Val("(ang_sgn o %s %s)" % (a.coq, b.coq), "A")
        self.fail(e, "operator %s on %r, %r" % (n, a.ty, b.ty))

    def compare(self, e, env):
        parts = []
        left = self.ex(e.left, env)
        for op, rn in zip(e.ops, e.comparators):
            right = self.ex(rn, env)
            parts.append(self.cmp1(e, op, left, right))
            left = right
        if len(parts) == 1:
            return parts[0]
        if any(p.ty != "B" for p in parts):
            self.fail(e, "chained vector comparison")
        return Val("(" + " && ".join(p.coq for p in parts) + ")", "B")

    def cmp1(self, e, op, a, b):
        t = type(op)
        if a.ty == "S" and b.ty == "S":
            f = {ast.Lt: "oltb o", ast.LtE: "oleb o", ast.Gt: "ogtb o", ast.GtE: "ogeb o", ast.Eq: "oeqb o"}.get(t)
            if f:
                return Val("(%s %s %s)" % (f, a.coq, b.coq), "B")
            if t is ast.NotEq:
                return Val("(negb (oeqb o %s %s))" % (a.coq, b.coq), "B")
        if a.ty == "N" and b.ty == "N":
            if t is ast.NotEq:
                return Val("(negb (Nat.eqb %s %s))" % (a.coq, b.coq), "B")
            if t is ast.Eq:
                return Val("(Nat.eqb %s %s)" % (a.coq, b.coq), "B")
        if a.ty == "K" and b.ty == "K" and t is ast.Eq:
            return Val("(nkind_eqb %s %s)" % (a.coq, b.coq), "B")
        if a.ty == "V" and b.ty == "V" and t in (ast.Lt, ast.LtE, ast.Gt, ast.GtE):
            return Val(None, "VCMP", extra=(t, a.coq, b.coq))
        self.fail(e, "comparison %s on %r, %r" % (t.__name__, a.ty, b.ty))

    def vcmp_all(self, node, v):
        t, a, b = v.extra
        if t is ast.LtE:
            return Val("(vle o %s %s)" % (a, b), "B")
        if t is ast.Lt:
            return Val("(vlt o %s %s)" % (a, b), "B")
        if t is ast.GtE:
            return Val("(vle o %s %s)" % (b, a), "B")
        return Val("(vlt o %s %s)" % (b, a), "B")

    def vcmp_any(self, node, v):
        # any(a R b) = not all(a (not R) b)
        t, a, b = v.extra
        if t is ast.GtE:
            return Val("(negb (vlt o %s %s))" % (a, b), "B")
        if t is ast.Gt:
            return Val("(negb (vle o %s %s))" % (a, b), "B")
        if t is ast.LtE:
            return Val("(negb (vlt o %s %s))" % (b, a), "B")
        return Val("(negb (vle o %s %s))" % (b, a), "B")

    def attribute(self, e, env):
        d = T.dotted(e)
        if d in env:                      # self._p1 after an assignment
            return env[d]
        if d in ("math.pi", "np.pi"):
            return Val("(opi o)", "S")
        if d is not None and d.endswith(".vertices._data") and d.count(".") == 2 and d.split(".")[0] in env \
                and env[d.split(".")[0]].ty == "MESH":
            return Val(env[d.split(".")[0]].coq, "PTS")      # the mesh is read through its vertex container only
        base = self.ex(e.value, env)
        if base.ty == "P2" and e.attr in ("real", "imag"):
            return Val("(a2_%s %s)" % ("re" if e.attr == "real" else "im", base.coq), R("S"))
        if base.ty == "V":
            if e.attr in ("x", "y", "z"):
                return Val("(vnth o %s %d)" % (base.coq, "xyz".index(e.attr)), "S")
            if e.attr == "size":
                return Val("(List.length %s)" % base.coq, "N")
        if base.ty == "BOX":
            if e.attr in ("_p1", "mini"):
                return Val("(blo %s)" % base.coq, "V")
            if e.attr in ("_p2", "maxi"):
                return Val("(bhi %s)" % base.coq, "V")
            if e.attr == "dim":
                return Val("(bdim %s)" % base.coq, "N")
        self.fail(e, "attribute .%s on %r" % (e.attr, base.ty))

    def subscript(self, e, env):
        # points.shape[1]
        if isinstance(e.value, ast.Attribute) and e.value.attr == "shape":
            b = self.ex(e.value.value, env)
            if b.ty == "PTS" and isinstance(e.slice, ast.Constant) and e.slice.value == 1:
                return Val("(pts_dim %s)" % b.coq, "N")
            self.fail(e, "unsupported .shape[...]")
        base = self.ex(e.value, env)
        sl = e.slice
        if base.ty == "P2" and isinstance(sl, ast.Constant) and isinstance(sl.value, int) and sl.value >= 0:
            return Val("(a2_nth o %s %d)" % (base.coq, sl.value), R("S"))
        if base.ty == "V":
            if isinstance(sl, ast.Constant) and isinstance(sl.value, int) and sl.value >= 0:
                return Val("(vnth o %s %d)" % (base.coq, sl.value), "S")
            if isinstance(sl, ast.Name) and sl.id in env and env[sl.id].ty == "N":
                return Val("(vnth o %s %s)" % (base.coq, env[sl.id].coq), "S")
            if isinstance(sl, ast.Slice) and sl.lower is None and sl.step is None \
                    and isinstance(sl.upper, ast.Constant) and sl.upper.value == 2:
                return Val("(vhead2 %s)" % base.coq, "V")
        if base.ty == "MAT" and isinstance(sl, ast.Tuple) and len(sl.elts) == 2 \
                and all(isinstance(x, ast.Constant) and isinstance(x.value, int) and 0 <= x.value < 3 for x in sl.elts):
            i, j = sl.elts[0].value, sl.elts[1].value
            return Val("(vnth o %s %d)" % (base.extra[i], j), "S")
        self.fail(e, "unsupported subscript on %r" % (base.ty,))

    def listcomp(self, e, env):
        # [cond for i in range(<nat>)]
        if len(e.generators) != 1 or e.generators[0].ifs or not isinstance(e.generators[0].target, ast.Name):
            self.fail(e, "unsupported comprehension")
        g = e.generators[0]
        it = g.iter
        if not (isinstance(it, ast.Call) and T.dotted(it.func) == "range" and len(it.args) == 1):
            self.fail(e, "comprehension not over range(n)")
        n = self.ex(it.args[0], env)
        if n.ty != "N":
            self.fail(e, "range() of a non-size")
        i = g.target.id
        env2 = dict(env)
        env2[i] = Val(i + "_", "N")
        body = self.boolean(e.elt, env2)
        return Val("(map (fun %s_ : nat => %s) (seq 0 %s))" % (i, body.coq, n.coq), "BL")

    # ---------------------------------------------------------------- calls
    def call(self, e, env):
        d = T.dotted(e.func)
        args = e.args
        kw = {k.arg: k.value for k in e.keywords}

        def A(i):
            return self.ex(args[i], env)

        def need(n, kws=()):
            if len(args) != n or set(kw) - set(kws):
                self.fail(e, "unexpected arguments of %s" % d)

        if d in ("np.maximum", "np.minimum"):
            need(2)
            a, b = A(0), A(1)
            base = "vmax" if d == "np.maximum" else "vmin"
            if a.ty == "V" and b.ty == "V":
                return Val("(%s o %s %s)" % (base, a.coq, b.coq), "V")
            if a.ty == "V" and b.ty == "S":
                return Val("(%ss o %s %s)" % (base, a.coq, b.coq), "V")
            self.fail(e, "%s on %r, %r" % (d, a.ty, b.ty))
        if d in ("np.abs", "abs"):
            need(1)
            a = A(0)
            if a.ty == "S":
                return Val("(oabs o %s)" % a.coq, "S")
            if a.ty == "V" and d == "np.abs":
                return Val("(vabs o %s)" % a.coq, "V")
            self.fail(e, "abs of %r" % (a.ty,))
        if d in ("max", "min"):
            need(2)
            a, b = A(0), A(1)
            if a.ty == "S" and b.ty == "S":
                return Val("(%s o %s %s)" % ("omax" if d == "max" else "omin", a.coq, b.coq), "S")
            self.fail(e, "%s of %r, %r" % (d, a.ty, b.ty))
        if d == "np.sum":
            need(1)
            a = A(0)
            if a.ty == "V":
                return Val("(vsum o %s)" % a.coq, "S")
            self.fail(e, "np.sum of %r" % (a.ty,))
        if d in ("np.max", "np.min"):
            a = A(0)
            if len(args) == 1 and not kw and a.ty == "V" and d == "np.max":
                return Val("(vmaxl o %s)" % a.coq, "S")
            if len(args) == 1 and set(kw) == {"axis"} and isinstance(kw["axis"], ast.Constant) \
                    and kw["axis"].value == 0 and a.ty == "PTS":
                return Val("(%s o %s)" % ("vmax_axis0" if d == "np.max" else "vmin_axis0", a.coq), "V")
            self.fail(e, "unsupported %s" % d)
        if d == "np.dot":
            need(2)
            a, b = A(0), A(1)
            if a.ty == "V" and b.ty == "V":
                return Val("(vdot o %s %s)" % (a.coq, b.coq), "S")
            self.fail(e, "np.dot of %r, %r" % (a.ty, b.ty))
        if d == "np.sqrt":
            need(1)
            a = A(0)
            if a.ty == "S":
                return Val("(osqrt o %s)" % a.coq, "S")
            self.fail(e, "np.sqrt of a non-scalar")
        if d == "np.full":
            need(2)
            a, b = A(0), A(1)
            if a.ty == "N" and b.ty == "S":
                return Val("(vfull %s %s)" % (a.coq, b.coq), "V")
            self.fail(e, "np.full of %r, %r" % (a.ty, b.ty))
        if d in ("np.zeros", "np.ones"):
            if len(args) == 1 and set(kw) <= {"dtype"} and ("dtype" not in kw or T.dotted(kw["dtype"]) == "float"):
                a = A(0)
                if a.ty == "N":
                    return Val("(vfull %s (oZ o (%d)%%Z))" % (a.coq, 0 if d == "np.zeros" else 1), "V")
            self.fail(e, "unsupported %s" % d)
        if d == "np.outer":
            need(2)
            a, b = A(0), A(1)
            if a.ty == "V" and b.ty == "V":
                return Val("(vouter o %s %s)" % (a.coq, b.coq), "PTS")
            self.fail(e, "np.outer of %r, %r" % (a.ty, b.ty))
        if d in ("sqrt", "math.sqrt"):
            need(1)
            a = A(0)
            if a.ty == "S":
                return Val("(osqrt o %s)" % a.coq, "S")
            self.fail(e, "sqrt of a non-scalar")
        if d == "np.array":
            # np.array(x) / np.array(x, dtype=float): a copy with the same values
            if len(args) == 1 and set(kw) <= {"dtype"}:
                if "dtype" in kw and T.dotted(kw["dtype"]) != "float":
                    self.fail(e, "np.array with a dtype other than float")
                a = A(0)
                if a.ty in ("V", "PTS"):
                    return a
            self.fail(e, "unsupported np.array(...)")
        if d in ("np.all", "np.any"):
            need(1)
            a = A(0)
            if a.ty == "BL" and d == "np.all":
                return Val("(forallb (fun b_ : bool => b_) %s)" % a.coq, "B")
            if a.ty == "VCMP":
                return self.vcmp_all(e, a) if d == "np.all" else self.vcmp_any(e, a)
            self.fail(e, "%s of %r" % (d, a.ty))
        if d == "len":
            need(1)
            if isinstance(args[0], ast.Attribute) and args[0].attr == "shape":
                b = self.ex(args[0].value, env)
                if b.ty == "PTS":
                    return Val(None, "RANK", extra=b.coq)
            self.fail(e, "unsupported len(...)")
        if d == "isinstance":
            need(2)
            if isinstance(args[0], ast.Name) and args[0].id in env and T.dotted(args[1]) in ("float", "complex"):
                ty = env[args[0].id].ty
                if ty == "P2" and T.dotted(args[1]) == "complex":
                    return Val("(is_cplx %s)" % env[args[0].id].coq, "B")
                if T.dotted(args[1]) == "float":
                    return Val("true" if ty == "S" else "false", "B", extra=("static", ty == "S"))
                return Val("false", "B", extra=("static", False))     # complex arguments are outside the model
            self.fail(e, "unsupported isinstance")
        if d == "Vec" or (d == "cls" and self.rel == F_VEC):
            if len(args) == 1 and not kw:
                a = A(0)
                if a.ty in ("V", R("V")):
                    return a                                            # a view: same values
                self.fail(e, "Vec(<%r>)" % (a.ty,))
            vals = [A(i) for i in range(len(args))]
            if kw or any(v.ty != "S" for v in vals):
                self.fail(e, "Vec(...) of non-scalars")
            return Val("[" + "; ".join(v.coq for v in vals) + "]", "V")
        if d == "math.atan2":
            need(2)
            a, b = A(0), A(1)
            if a.ty == "S" and b.ty == "S":
                return Val("(mk_atan2 %s %s)" % (a.coq, b.coq), "A")
            self.fail(e, "atan2 of non-scalars")
        if d in ("math.cos", "math.sin"):
            need(1)
            if isinstance(args[0], ast.Name) and args[0].id in [p for p, _ in self.params]:
                nm = "%s_%s" % (d[5:], args[0].id)
                if nm not in self.extra_params:
                    self.extra_params.append(nm)
                return Val(nm, "S")
            self.fail(e, "cos/sin of something that is not a parameter")
        # method calls on values
        if isinstance(e.func, ast.Attribute):
            meth = e.func.attr
            if meth == "all" and not args and not kw:
                b = self.ex(e.func.value, env)
                if b.ty == "VCMP":
                    return self.vcmp_all(e, b)
                self.fail(e, ".all() of %r" % (b.ty,))
            if meth == "flatten" and not args and not kw:
                b = self.ex(e.func.value, env)
                if b.ty == "V":
                    return b
            dv = T.dotted(e.func.value)
            if meth in ("norm", "dot", "contains_point") and dv not in ("Vec", "np", "math", "geom", "AABB"):
                b = self.ex(e.func.value, env)
                if b.ty == "V" and meth == "norm":
                    return self.apply(e, "vec_norm", [b] + [A(i) for i in range(len(args))], kw, env)
                if b.ty == "V" and meth == "dot":
                    return self.apply(e, "vec_dot", [b] + [A(i) for i in range(len(args))], kw, env)
                if b.ty == "BOX" and meth == "contains_point":
                    return self.apply(e, "aabb_contains_point", [b] + [A(i) for i in range(len(args))], kw, env)
                self.fail(e, "method .%s on %r" % (meth, b.ty))
        tgt = CALLEES[self.rel].get(d)
        if tgt is not None:
            return self.apply(e, tgt, [A(i) for i in range(len(args))], kw, env)
        self.fail(e, "call of %s is outside the translated subset" % d)

    def apply(self, e, coqname, vals, kw, env):
        if coqname not in self.reg:
            self.fail(e, "callee %s not translated (yet)" % coqname)
        params, ret, extra, dflts = self.reg[coqname]
        if extra:
            self.fail(e, "callee %s takes cos/sin parameters" % coqname)
        vals = list(vals)
        for (pn, pt) in params[len(vals):]:
            if pn in kw:
                vals.append(self.ex(kw[pn], env))
            elif pn in dflts:
                vals.append(dflts[pn])          # the callee's own default, as written in its def
            else:
                self.fail(e, "missing argument %s of %s" % (pn, coqname))
        if len(vals) != len(params):
            self.fail(e, "arity of %s" % coqname)
        for v, (pn, pt) in zip(vals, params):
            if v.ty != pt:
                self.fail(e, "argument %s of %s has type %r, expected %r" % (pn, coqname, v.ty, pt))
        return Val("(%s %s)" % (coqname, " ".join(v.coq for v in vals)), ret)

    # ---------------------------------------------------------------- statements
    def ret_wrap(self, node, v):
        """value of a `return <v>` in a function of declared type self.ret"""
        if self.is_res():
            inner = self.ret[1]
            if v.ty == self.ret:
                return v.coq
            if v.ty == inner:
                return "Ret %s" % v.coq
        elif self.is_opt():
            if v.ty == self.ret[1]:
                return "Some %s" % v.coq
            if v.ty == "NONE":
                return "None"
        elif v.ty == self.ret:
            return v.coq
        self.fail(node, "returns %r where %r is declared" % (v.ty, self.ret))

    def bindv(self, node, name, v, rest_fn, env):
        """let name := v in rest  (monadic when v is res / option)"""
        env2 = dict(env)
        cv = self.coqvar(name)
        if isinstance(v.ty, tuple) and v.ty[0] == "R":
            if not self.is_res():
                self.fail(node, "a call that can raise in a function declared total")
            env2[name] = Val(cv, v.ty[1])
            return "bind %s (fun %s =>\n  %s)" % (v.coq, cv, rest_fn(env2))
        if isinstance(v.ty, tuple) and v.ty[0] == "O":
            if not self.is_res():
                self.fail(node, "an optional value dereferenced in a function declared total")
            env2[name] = Val(cv, v.ty[1], extra="deref-only")
            return "bind_opt %s (fun %s =>\n  %s)" % (v.coq, cv, rest_fn(env2))
        if v.ty in ("S", "V", "B", "N", "BOX", "A", "PTS", "BL", "K", "P2"):
            env2[name] = Val(cv, v.ty)
            return "let %s := %s in\n  %s" % (cv, v.coq, rest_fn(env2))
        if v.ty == "MAT":
            env2[name] = v
            return rest_fn(env2)
        self.fail(node, "cannot bind a value of type %r" % (v.ty,))

    def coqvar(self, name):
        name = name.replace(".", "_")
        if name in ("_",):
            return "_"
        self.tmp += 1
        return "%s_%d" % (name.lstrip("_") or "u", self.tmp)

    def block(self, stmts, env):
        if not stmts:
            if "fall" in self.opt:
                return self.opt["fall"]
            if self.opt.get("fall_self"):
                return env["self"].coq
            if self.opt.get("mutator"):
                return "Ret (%s, %s)" % (env["self._p1"].coq, env["self._p2"].coq)
            if self.opt.get("ctor"):
                return "Ret (%s, %s)" % (env["self._p1"].coq, env["self._p2"].coq)
            self.fail(self.fn, "control falls off the end of the function")
        s, rest = stmts[0], stmts[1:]

        def K(env2):
            return self.block(rest, env2)

        if isinstance(s, ast.Expr) and isinstance(s.value, ast.Constant) and isinstance(s.value.value, str):
            return K(env)
        if isinstance(s, ast.Return):
            if rest:
                self.fail(s, "statements after return")
            if s.value is None or (isinstance(s.value, ast.Constant) and s.value.value is None):
                return self.ret_wrap(s, Val(None, "NONE"))
            if isinstance(s.value, ast.Tuple) and self.is_res() and isinstance(self.ret[1], tuple) \
                    and self.ret[1][0] == "T" and len(self.ret[1][1]) == len(s.value.elts):
                vals = [self.ex(x, env) for x in s.value.elts]
                if [v.ty for v in vals] != list(self.ret[1][1]):
                    self.fail(s, "returned tuple has the wrong component types")
                return "Ret (" + ", ".join(v.coq for v in vals) + ")"
            v = self.ex(s.value, env)
            if v.extra == "deref-only":
                self.fail(s, "optional value returned undereferenced")
            return self.ret_wrap(s, v)
        if isinstance(s, ast.Raise):
            return self.raise_term(s)
        if isinstance(s, ast.Assign):
            if len(s.targets) != 1:
                self.fail(s, "multiple assignment targets")
            return self.assign(s, s.targets[0], s.value, env, K)
        if isinstance(s, ast.AugAssign):
            op = ast.BinOp(left=self.target_as_expr(s.target), op=s.op, right=s.value)
            ast.copy_location(op, s)
            ast.fix_missing_locations(op)
            return self.assign(s, s.target, op, env, K)
        if isinstance(s, ast.If):
            return self.if_stmt(s, rest, env)
        if isinstance(s, ast.With):
            if len(s.items) == 1 and s.items[0].optional_vars is None and self.is_errstate_raise(s.items[0].context_expr):
                old = self.raise_mode
                self.raise_mode = True
                # the block's statements run in raise mode; names they bind stay visible afterwards
                marker = ast.Pass()
                marker._end_raise = old
                return self.block(list(s.body) + [marker] + rest, env)
            self.fail(s, "unsupported with-statement")
        if isinstance(s, ast.Pass):
            if hasattr(s, "_end_raise"):
                self.raise_mode = s._end_raise
            return K(env)
        if isinstance(s, ast.Expr) and isinstance(s.value, ast.Call):
            d = T.dotted(s.value.func)
            if d == "check_argument":
                return self.check_argument(s, env, K)
            if d == "np.seterr":
                kw = {k.arg: k.value for k in s.value.keywords}
                if not s.value.args and set(kw) == {"all"} and isinstance(kw["all"], ast.Constant):
                    self.raise_mode = kw["all"].value == "raise"
                    return K(env)
            self.fail(s, "unsupported expression statement")
        self.fail(s, "unsupported statement")

    def is_errstate_raise(self, e):
        if isinstance(e, ast.Call) and T.dotted(e.func) == "np.errstate" and not e.args:
            kw = {k.arg: k.value for k in e.keywords}
            return set(kw) == {"all"} and isinstance(kw["all"], ast.Constant) and kw["all"].value == "raise"
        return False

    def target_as_expr(self, t):
        if isinstance(t, ast.Name):
            return ast.Name(id=t.id, ctx=ast.Load())
        if isinstance(t, ast.Attribute):
            return ast.Attribute(value=t.value, attr=t.attr, ctx=ast.Load())
        self.fail(t, "unsupported augmented-assignment target")

    def raise_term(self, s):
        if not self.is_res():
            self.fail(s, "raise in a function declared total")
        exc = s.exc
        d = T.dotted(exc.func) if isinstance(exc, ast.Call) else T.dotted(exc)
        if d not in EXN:
            self.fail(s, "unknown exception %s" % d)
        return "Raise %s" % EXN[d]

    def check_argument(self, s, env, K):
        c = s.value
        if not (len(c.args) == 4 and isinstance(c.args[0], ast.Constant) and isinstance(c.args[1], ast.Name)
                and c.args[0].value == c.args[1].id and T.dotted(c.args[2]) == "str"
                and isinstance(c.args[3], ast.List)):
            self.fail(s, "unsupported check_argument(...)")
        v = self.ex(c.args[1], env)
        if v.ty != "K":
            self.fail(s, "check_argument on something that is not the norm kind")
        ks = []
        for el in c.args[3].elts:
            if not (isinstance(el, ast.Constant) and el.value in KINDS):
                self.fail(s, "unknown allowed value in check_argument")
            ks.append(KINDS[el.value])
        if not self.is_res():
            self.fail(s, "check_argument in a function declared total")
        return "if negb (existsb (nkind_eqb %s) [%s]) then Raise BadArgument else\n  %s" % (v.coq, "; ".join(ks), K(env))

    def assign(self, s, target, value, env, K):
        # ---- tuple targets
        if isinstance(target, ast.Tuple):
            names = []
            for t in target.elts:
                if not isinstance(t, ast.Name):
                    self.fail(s, "unsupported tuple target")
                names.append(t.id)
            if isinstance(value, ast.Tuple) and len(value.elts) == len(names):
                exprs = list(value.elts)
            elif isinstance(value, ast.GeneratorExp):
                g = value.generators
                if not (len(g) == 1 and not g[0].ifs and isinstance(g[0].target, ast.Name)
                        and isinstance(g[0].iter, ast.Tuple) and len(g[0].iter.elts) == len(names)
                        and all(isinstance(x, ast.Name) for x in g[0].iter.elts)):
                    self.fail(s, "unsupported generator on the right of a tuple assignment")
                exprs = [SubstName(g[0].target.id, x.id).visit(copy_ast(value.elt)) for x in g[0].iter.elts]
            else:
                v = self.ex(value, env)
                return self.unpack(s, names, v, env, K)
            # simultaneous assignment: right-hand side i must not read a target assigned before it
            for i, ex_i in enumerate(exprs):
                used = {n.id for n in ast.walk(ex_i) if isinstance(n, ast.Name)}
                if used & set(names[:i]):
                    self.fail(s, "tuple assignment whose right-hand sides read earlier targets")

            def go(i, env_i):
                if i == len(names):
                    return K(env_i)
                v = self.ex(exprs[i], env_i)
                return self.bindv(s, names[i], v, lambda e2: go(i + 1, e2), env_i)
            return go(0, env)
        # ---- self._p1 = ...
        if isinstance(target, ast.Attribute):
            d = T.dotted(target)
            if d in ("self._p1", "self._p2") and (self.opt.get("ctor") or self.opt.get("mutator")):
                v = self.ex(value, env)
                if v.ty != "V":
                    self.fail(s, "box corner assigned a non-vector")
                return self.bindv(s, d, v, K, env)
            # v2.x = e   on a local vector
            if isinstance(target.value, ast.Name) and target.attr in ("x", "y", "z") and target.value.id in env \
                    and env[target.value.id].ty == "V" and env[target.value.id].extra == "local":
                v = self.ex(value, env)
                if v.ty != "S":
                    self.fail(s, "coordinate assigned a non-scalar")
                nm = target.value.id
                nv = Val("(vset %s %d %s)" % (env[nm].coq, "xyz".index(target.attr), v.coq), "V")
                env2 = dict(env)
                cv = self.coqvar(nm)
                env2[nm] = Val(cv, "V", extra="local")
                return "let %s := %s in\n  %s" % (cv, nv.coq, K(env2))
            self.fail(s, "unsupported attribute assignment")
        if isinstance(target, ast.Subscript) and isinstance(target.value, ast.Name) and target.value.id in env \
                and env[target.value.id].ty == "V" and isinstance(target.slice, ast.Constant) \
                and isinstance(target.slice.value, int) and target.slice.value >= 0:
            # v[i] = e : functional update of the vector
            v = self.ex(value, env)
            if v.ty != "S":
                self.fail(s, "component assigned a non-scalar")
            nm = target.value.id
            cv = self.coqvar(nm)
            env2 = dict(env)
            env2[nm] = Val(cv, "V", extra=env[nm].extra)
            return "let %s := (vset %s %d %s) in\n  %s" % (cv, env[nm].coq, target.slice.value, v.coq, K(env2))
        if not isinstance(target, ast.Name):
            self.fail(s, "unsupported assignment target")
        # det_3x3: mat = np.array([A,B,C])
        if isinstance(value, ast.Call) and T.dotted(value.func) == "np.array" and len(value.args) == 1 \
                and isinstance(value.args[0], ast.List) and len(value.args[0].elts) == 3 and not value.keywords:
            rows = [self.ex(x, env) for x in value.args[0].elts]
            if any(r.ty != "V" for r in rows):
                self.fail(s, "matrix rows are not vectors")
            env2 = dict(env)
            env2[target.id] = Val(None, "MAT", extra=[r.coq for r in rows])
            return K(env2)
        v = self.ex(value, env)
        if v.ty == "VCMP":
            self.fail(s, "vector comparison stored in a variable")
        # a vector built from scalar literals is a fresh local: coordinate stores on it are allowed
        local = isinstance(value, ast.Call) and T.dotted(value.func) == "Vec" and len(value.args) > 1
        env2 = dict(env)
        if isinstance(v.ty, tuple) and v.ty[0] in ("R", "O"):
            return self.bindv(s, target.id, v, K, env)
        cv = self.coqvar(target.id)
        env2[target.id] = Val(cv, v.ty, extra="local" if local else None)
        return "let %s := %s in\n  %s" % (cv, v.coq, K(env2))

    def unpack(self, s, names, v, env, K):
        ty = v.ty
        if isinstance(ty, tuple) and ty[0] == "R" and isinstance(ty[1], tuple) and ty[1][0] == "T" \
                and len(ty[1][1]) == len(names):
            if not self.is_res():
                self.fail(s, "a call that can raise in a function declared total")
            env2 = dict(env)
            cvs = []
            for n, t in zip(names, ty[1][1]):
                cv = self.coqvar(n)
                cvs.append(cv)
                if n != "_":
                    env2[n] = Val(cv, t)
            pat = "'(" + ", ".join(cvs) + ")"
            return "bind %s (fun %s =>\n  %s)" % (v.coq, pat, K(env2))
        if ty == "V":
            def go(i, env_i):
                if i == len(names):
                    return K(env_i)
                return self.bindv(s, names[i], Val("(vnth o %s %d)" % (v.coq, i), "S"), lambda e2: go(i + 1, e2), env_i)
            return go(0, env)
        self.fail(s, "cannot unpack a value of type %r" % (ty,))

    def if_stmt(self, s, rest, env):
        # len(points.shape) != 2
        test = s.test
        if isinstance(test, ast.Compare) and len(test.ops) == 1 and isinstance(test.left, ast.Call) \
                and T.dotted(test.left.func) == "len":
            l = self.ex(test.left, env)
            c = test.comparators[0]
            if l.ty == "RANK" and isinstance(c, ast.Constant) and c.value == 2 and isinstance(test.ops[0], (ast.NotEq, ast.Eq)):
                cond = Val("(pts_rank2 %s)" % l.extra, "B")
                if isinstance(test.ops[0], ast.NotEq):
                    cond = Val("(negb %s)" % cond.coq, "B")
            else:
                self.fail(s, "unsupported len(...) test")
        else:
            cond = self.ex(test, env)
        if isinstance(cond.ty, tuple) and cond.ty == R("B"):
            if not self.is_res():
                self.fail(s, "a test that can raise in a function declared total")
            cv = self.coqvar("c")
            inner = self.if_core(s, rest, env, Val(cv, "B"))
            return "bind %s (fun %s =>\n  %s)" % (cond.coq, cv, inner)
        if cond.ty != "B":
            self.fail(s, "if on %r" % (cond.ty,))
        return self.if_core(s, rest, env, cond)

    def if_core(self, s, rest, env, cond):
        # statically decided (isinstance on a parameter whose model type is fixed)
        if isinstance(cond.extra, tuple) and cond.extra[0] == "static":
            chosen = s.body if cond.extra[1] else s.orelse
            return self.block(list(chosen) + rest, env)
        body_term = self.terminates(s.body)
        else_term = self.terminates(s.orelse) if s.orelse else False
        if body_term:
            if else_term and rest:
                self.fail(s, "statements after an if/else that always returns")
            a = self.block(list(s.body), env)
            b = self.block(list(s.orelse) + rest, env)
            return "if %s then %s else\n  %s" % (cond.coq, a, b)
        # `if c: x <op>= e` / `if c: x = e`  (no else): conditional update of one scalar/vector local
        if not s.orelse and len(s.body) == 1 and isinstance(s.body[0], (ast.AugAssign, ast.Assign)):
            st = s.body[0]
            tgt = st.target if isinstance(st, ast.AugAssign) else (st.targets[0] if len(st.targets) == 1 else None)
            if isinstance(tgt, ast.Name) and tgt.id in env:
                if isinstance(st, ast.AugAssign):
                    val = ast.BinOp(left=ast.Name(id=tgt.id, ctx=ast.Load()), op=st.op, right=st.value)
                    ast.copy_location(val, st)
                    ast.fix_missing_locations(val)
                else:
                    val = st.value
                v = self.ex(val, env)
                old = env[tgt.id]
                if v.ty != old.ty or v.ty not in ("S", "V"):
                    self.fail(s, "conditional update changes the type of %s" % tgt.id)
                cv = self.coqvar(tgt.id)
                env2 = dict(env)
                env2[tgt.id] = Val(cv, v.ty)
                return "let %s := (if %s then %s else %s) in\n  %s" % (cv, cond.coq, v.coq, old.coq, self.block(rest, env2))
        # general case: neither branch is known to return -> the continuation is compiled once per branch
        a = self.block(list(s.body) + rest, env)
        b = self.block(list(s.orelse) + rest, env)
        return "if %s then %s else\n  %s" % (cond.coq, a, b)

    def terminates(self, stmts):
        if not stmts:
            return False
        last = stmts[-1]
        if isinstance(last, (ast.Return, ast.Raise)):
            return True
        if isinstance(last, ast.If) and last.orelse:
            return self.terminates(last.body) and self.terminates(last.orelse)
        return False

    # ---------------------------------------------------------------- whole function
    def compile(self):
        fn = self.fn
        body = T.body_nodoc(fn)
        env = {}
        pnames = [a.arg for a in fn.args.args]
        if self.opt.get("varargs3"):
            # def face_basis(*f): if len(f)==1: f = f[0] ; pA,pB,pC = (x for x in f)
            if not (fn.args.vararg and fn.args.vararg.arg == "f" and not pnames and len(body) >= 2
                    and isinstance(body[0], ast.If) and T.seg(self.src, body[0].test).replace(" ", "") == "len(f)==1"
                    and isinstance(body[1], ast.Assign)
                    and T.seg(self.src, body[1]).replace(" ", "") == "pA,pB,pC=(xforxinf)"):
                self.fail(fn, "face_basis no longer starts by unpacking its three points")
            body = body[2:]
        elif self.opt.get("det3"):
            # def det_3x3(*args): if len(args)==1: ... elif len(args)==3: A,B,C = args[0], args[1], args[2]; mat = np.array([A,B,C])
            if not (fn.args.vararg and fn.args.vararg.arg == "args" and isinstance(body[0], ast.If)
                    and T.seg(self.src, body[0].test).replace(" ", "") == "len(args)==1"
                    and len(body[0].orelse) == 1 and isinstance(body[0].orelse[0], ast.If)
                    and T.seg(self.src, body[0].orelse[0].test).replace(" ", "") == "len(args)==3"):
                self.fail(fn, "det_3x3 no longer dispatches on len(args)")
            br = body[0].orelse[0].body
            if not (len(br) == 2 and T.seg(self.src, br[0]).replace(" ", "") == "A,B,C=args[0],args[1],args[2]"):
                self.fail(fn, "det_3x3: three-argument branch changed")
            body = [br[1]] + body[1:]
        else:
            want = [p for p, _ in self.params]
            have = pnames
            if self.opt.get("skip_self") and have and have[0] in ("cls",):
                have = have[1:]
            if have[:len(want)] != want and not self.opt.get("ctor"):
                self.fail(fn, "parameters are %s, the model expects %s" % (have, want))
            if self.opt.get("ctor") and have != ["self"] + want:
                self.fail(fn, "constructor parameters are %s" % have)
            # parameters beyond the modelled ones must have defaults (they keep them)
            if len(have) > len(want) and not self.opt.get("ctor"):
                self.fail(fn, "unmodelled extra parameters %s" % have[len(want):])
        def pn(p):
            return (p.strip("_") or "u") + "0"        # never clashes with a Coq type or a local (locals end in _<n>)
        self.defaults = {}
        dflt = param_defaults(fn)
        for p, t in self.params:
            if p in dflt:
                d = dflt[p]
                if t == "B" and isinstance(d, ast.Constant) and isinstance(d.value, bool):
                    self.defaults[p] = Val("true" if d.value else "false", "B")
                else:
                    v = self.ex(d, {})
                    if v.ty != t:
                        self.fail(d, "default of %s has type %r, the model expects %r" % (p, v.ty, t))
                    self.defaults[p] = v
        for p, t in self.params:
            env[p] = Val(pn(p), t)
            if t == "BOX" and p == "self":
                env["self._p1"] = Val("(blo %s)" % pn(p), "V")
                env["self._p2"] = Val("(bhi %s)" % pn(p), "V")
        term = self.block(body, env)
        params = " ".join("(%s : %s)" % (pn(p), coq_ty(t)) for p, t in self.params)
        params += "".join(" (%s : T)" % x for x in self.extra_params)
        # `let _ := o` : every generated definition takes (T, o) whether or not its body uses an operation
        text = "Definition %s %s : %s :=\n  let _ := o in\n  %s." % (self.coqname, params, coq_ty(self.ret), term)
        for p, t in self.params:
            if p in self.defaults:
                text += "\n(* default of the parameter `%s` *)\nDefinition dflt_%s_%s : %s :=\n  let _ := o in\n  %s." % (
                    p, self.coqname, p.strip("_"), coq_ty(t), self.defaults[p].coq)
        return text


def copy_ast(n):
    import copy
    return copy.deepcopy(n)


class SubstName(ast.NodeTransformer):
    def __init__(self, a, b):
        self.a, self.b = a, b

    def visit_Name(self, n):
        if n.id == self.a:
            return ast.copy_location(ast.Name(id=self.b, ctx=n.ctx), n)
        return n


# ====================================================================== maths.roots (pattern)
def roots_def(src, tree):
    """roots(c, pow, normalize=True):  r,t = cmath.polar(c); r = 1 if normalize else r**(1/pow);
       return [cmath.rect(r, (t + 2*k*pi)/pow) for k in range(pow)]
    -> the radius and the k-th angle as functions of (r, t) = polar(c)."""
    fn = T.find_def(tree, "roots", F_MATH)
    b = T.body_nodoc(fn)
    if [a.arg for a in fn.args.args] != ["c", "pow", "normalize"]:
        T.fail(F_MATH, fn, "roots: parameters changed")
    ok = (len(b) == 3 and T.seg(src, b[0]).replace(" ", "") == "r,t=cmath.polar(c)"
          and isinstance(b[1], ast.Assign) and len(b[1].targets) == 1 and T.dotted(b[1].targets[0]) == "r"
          and isinstance(b[2], ast.Return) and isinstance(b[2].value, ast.ListComp))
    if not ok:
        T.fail(F_MATH, fn, "roots: body shape changed")
    lc = b[2].value
    g = lc.generators[0]
    if not (len(lc.generators) == 1 and isinstance(g.target, ast.Name) and not g.ifs
            and T.seg(src, g.iter).replace(" ", "") == "range(pow)"
            and isinstance(lc.elt, ast.Call) and T.dotted(lc.elt.func) == "cmath.rect" and len(lc.elt.args) == 2
            and isinstance(lc.elt.args[0], ast.Name) and lc.elt.args[0].id == "r"):
        T.fail(F_MATH, fn, "roots: comprehension changed")
    spec = (F_MATH, "roots", "m_root_angle", [("t", "S"), ("k", "S"), ("pow", "S")], "S", {})
    comp = FnCompiler(F_MATH, src, fn, spec, {})
    env = {"t": Val("t", "S"), g.target.id: Val("k", "S"), "pow": Val("pow", "S")}
    v = comp.ex(lc.elt.args[1], env)
    if v.ty != "S":
        T.fail(F_MATH, fn, "roots: angle is not a scalar")
    # radius when normalize is true: the `body` of  r = <body> if normalize else <orelse>
    ife = b[1].value
    if not (isinstance(ife, ast.IfExp) and isinstance(ife.test, ast.Name) and ife.test.id == "normalize"):
        T.fail(F_MATH, fn, "roots: radius is not `<e> if normalize else <e>`")
    renv = {"r": Val("r", "S"), "pow": Val("pow", "S")}
    rad = comp.ex(ife.body, renv)
    rad2 = comp.ex(ife.orelse, renv)
    if rad.ty != "S" or rad2.ty != "S":
        T.fail(F_MATH, fn, "roots: radius is not a scalar")
    dfl = param_defaults(fn).get("normalize")
    if not (isinstance(dfl, ast.Constant) and isinstance(dfl.value, bool)):
        T.fail(F_MATH, fn, "roots: normalize has no boolean default")
    envl = {"t": Val("t", "S"), g.target.id: Val("(oZ o (Z.of_nat k_))", "S"), "pow": Val("(oZ o (Z.of_nat pow))", "S")}
    vl = comp.ex(lc.elt.args[1], envl)
    return ("(* roots(c, pow): with (r, t) = cmath.polar(c), the k-th returned root is cmath.rect(r', m_root_angle t k pow) *)\n"
            "Definition m_root_angle (t k pow : T) : T :=\n  %s.\n"
            "(* r' = <e1> if normalize else <e2>  with r = |c|; both branches as written *)\n"
            "Definition m_root_radius (normalize : bool) (r pow : T) : T :=\n  if normalize then %s else %s.\n"
            "Definition dflt_m_roots_normalize : bool :=\n  let _ := o in %s.\n"
            "(* the whole comprehension [cmath.rect(r', <angle>) for k in range(pow)]: the list of the angles *)\n"
            "Definition m_roots_angles (t : T) (pow : nat) : list T :=\n  map (fun k_ : nat => %s) (seq 0 pow)."
            % (v.coq, rad.coq, rad2.coq, "true" if dfl.value else "false", vl.coq)), T.sha(src, fn)


# ====================================================================== effects
ARRAY_VIEWS = {"Vec", "cls", "np.asarray", "np.asanyarray", "np.ravel", "np.atleast_1d"}
# EXPLICIT whitelist of callables that neither write into an argument nor touch numpy's error register.
# A call of anything else that is not a function of the table is a TranslationError (the analysis is fail-closed).
PURE_CALLS = {"np.array", "np.full", "np.zeros", "np.ones", "np.copy", "np.maximum", "np.minimum", "np.min", "np.max",
              "np.abs", "np.sum", "np.dot", "np.sqrt", "np.all", "np.any", "np.outer", "np.random.random", "abs",
              "max", "min", "len", "range", "isinstance", "float", "int", "complex", "bool", "tuple", "list", "str",
              "math.cos", "math.sin", "math.atan2", "math.sqrt", "cmath.polar", "cmath.rect", "cmath.phase", "sqrt",
              "Exception", "AABB.IncompatibleDimensionError", "check_argument", "Rotation.create_group", "super",
              "np.errstate", "np.geterr", "Vec", "cls", "np.asarray", "np.asanyarray", "np.ravel", "np.atleast_1d"}
FRESH_CALLS = PURE_CALLS - ARRAY_VIEWS
# methods of VALUES (arrays, Vec, scipy Rotation, str) that are pure
PURE_METHODS = {"view", "reshape", "ravel", "squeeze", "transpose", "copy", "flatten", "all", "any", "tolist", "astype",
                "magnitude", "inv", "lower", "upper", "format", "item", "conjugate", "__init__"}
VIEW_METHODS = {"view", "reshape", "ravel", "squeeze", "transpose"}
# methods that write into their receiver (arrays and Python containers)
MUTATING_METHODS = {"sort", "fill", "resize", "put", "itemset", "partition", "setfield", "setflags", "byteswap",
                    "__iadd__", "__isub__", "__imul__", "__itruediv__", "__ifloordiv__", "__imod__", "__ipow__",
                    "__iand__", "__ior__", "__ixor__", "__imatmul__", "__setitem__", "__delitem__", "__setattr__",
                    "append", "extend", "insert", "pop", "remove", "clear", "update", "add", "discard", "reverse",
                    "setdefault", "popitem", "shuffle"}
SETERR = {"np.seterr", "np.seterrcall", "np.seterrobj", "numpy.seterr", "numpy.seterrcall", "numpy.seterrobj",
          "seterr", "seterrcall", "seterrobj"}
CLASS_BASES = {"np.ndarray", "numpy.ndarray", "Vec", "np.matrix", "list", "dict", "set"}
# names that may be read without being a parameter or a local: modules, classes and constants of the five files
GLOBAL_NAMES = {"np", "numpy", "math", "cmath", "geom", "Vec", "AABB", "Rotation", "pi", "sqrt", "float", "int", "complex",
                "str", "bool", "list", "tuple", "dict", "set", "Exception", "True", "False", "None", "check_argument",
                "Union", "hq"}


GLOBAL_ROOT = 99      # pseudo-argument index standing for "module-level / global object" (never writable)


class Effects:
    """Event summary of one function.  roots: set of parameter indices a name may be a view of."""

    def __init__(self, rel, src, fn, qual, table_names, cls):
        self.rel, self.src, self.fn, self.qual = rel, src, fn, qual
        self.names = table_names        # python-level callee name -> table key
        self.plain_names = {k for k in table_names if "." not in k}
        self.cls = cls
        a = fn.args
        self.params = [x.arg for x in a.posonlyargs + a.args]
        self.env = {p: {i} for i, p in enumerate(self.params)}
        if a.vararg:
            self.env[a.vararg.arg] = {len(self.params)}
            self.params.append(a.vararg.arg)
        for k in a.kwonlyargs:
            self.env[k.arg] = {len(self.params)}
            self.params.append(k.arg)

    def fail(self, node, msg):
        T.fail(self.rel, node, "%s (effects): %s" % (self.qual, msg))

    def root(self, e):
        """set of parameter indices the value of e may alias (empty = fresh / scalar)"""
        if isinstance(e, ast.Name):
            if e.id in self.env:
                return set(self.env[e.id])
            if e.id in GLOBAL_NAMES or e.id in self.plain_names:
                return {GLOBAL_ROOT}        # a module / class / function object: shared state, never fresh
            self.fail(e, "name %s is neither a parameter, a local, nor a known module/class/function" % e.id)
        if isinstance(e, (ast.Constant, ast.BinOp, ast.UnaryOp, ast.Compare, ast.BoolOp, ast.JoinedStr, ast.Lambda)):
            return set()
        if isinstance(e, ast.Attribute):
            return self.root(e.value)               # self._p1, v.T, b1.mini ... : a view of / held by the base
        if isinstance(e, ast.Subscript):
            return self.root(e.value)
        if isinstance(e, (ast.Tuple, ast.List)):
            r = set()
            for x in e.elts:
                r |= self.root(x)
            return r
        if isinstance(e, ast.IfExp):
            return self.root(e.body) | self.root(e.orelse)
        if isinstance(e, ast.Starred):
            return self.root(e.value)
        if isinstance(e, (ast.GeneratorExp, ast.ListComp)):
            saved = dict(self.env)
            for g in e.generators:
                self.bind(g.target, self.root(g.iter))
            r = self.root(e.elt)
            self.env = saved
            return r
        if isinstance(e, ast.Call):
            d = T.dotted(e.func)
            allr = set()
            for x in list(e.args) + [k.value for k in e.keywords]:
                allr |= self.root(x)
            if d in ARRAY_VIEWS and len(e.args) == 1:
                return allr
            if d == "np.array":
                # np.array(x) copies; np.array(x, copy=False) (or any non-literal copy=) may return x itself
                cp = [k.value for k in e.keywords if k.arg == "copy"]
                if cp and not (isinstance(cp[0], ast.Constant) and cp[0].value is True):
                    return allr
                return set()
            if d in FRESH_CALLS or d in ("Vec", "cls"):
                return set()
            if isinstance(e.func, ast.Attribute) and d not in self.names and e.func.attr in VIEW_METHODS:
                return self.root(e.func.value)
            if isinstance(e.func, ast.Attribute) and d not in self.names and e.func.attr in PURE_METHODS:
                return set()
            if d in self.names and self.names[d].endswith(".__init__"):
                return set()        # a new object; that its fields are fresh copies is the constructor's own obligation (EStore [])
            # a function of the table (or an unknown one): its result may alias any of its arguments
            if isinstance(e.func, ast.Attribute) and d not in self.names:
                allr |= self.root(e.func.value)
            return allr
        self.fail(e, "expression shape not covered by the alias analysis")

    def bind(self, target, r):
        if isinstance(target, ast.Name):
            self.env[target.id] = set(r)
        elif isinstance(target, (ast.Tuple, ast.List)):
            for t in target.elts:
                self.bind(t, r)
        elif isinstance(target, ast.Starred):
            self.bind(target.value, r)
        else:
            self.fail(target, "unsupported binding target")

    def calls_in(self, e, out):
        """events of the calls inside expression e, innermost first.  FAIL-CLOSED: every Call must be (a) an error-register
        setter, (b) a function of the table, (c) in the explicit whitelist of pure callables / pure methods, or
        (d) a recognised in-place method (-> EMut rooted at its receiver); anything else is a TranslationError."""
        if isinstance(e, (ast.GeneratorExp, ast.ListComp, ast.SetComp)):
            saved = dict(self.env)
            for g in e.generators:
                self.calls_in(g.iter, out)
                self.bind(g.target, self.root(g.iter))
                for c in g.ifs:
                    self.calls_in(c, out)
            self.calls_in(e.elt, out)
            self.env = saved
            return
        if isinstance(e, (ast.DictComp, ast.Lambda, ast.NamedExpr, ast.Await, ast.Yield, ast.YieldFrom)):
            self.fail(e, "expression kind outside the recognised subset")
        for ch in ast.iter_child_nodes(e):
            if isinstance(ch, (ast.expr, ast.keyword)):
                self.calls_in(ch, out)
        if not isinstance(e, ast.Call):
            return
        d = T.dotted(e.func)
        kws = {k.arg for k in e.keywords}
        if "out" in kws or d in ("np.copyto", "np.put", "np.place", "np.putmask", "setattr", "exec", "eval"):
            self.fail(e, "in-place numpy call form (%s) is outside the recognised subset" % d)
        if d in SETERR:
            out.append("ESetErr")
            return
        # ---- (b) a function of the table, written by name
        key = None
        recv = None
        if d in self.names:
            key = self.names[d]
        elif d in PURE_CALLS:
            return
        elif isinstance(e.func, ast.Attribute):
            m = e.func.attr
            base = T.dotted(e.func.value)
            # class-qualified in-place method: np.ndarray.sort(b), list.append(l, x): writes into its FIRST argument
            if base in CLASS_BASES and m in MUTATING_METHODS:
                if not e.args:
                    self.fail(e, "class-qualified mutator without a receiver")
                out.append(("EMut", self.root(e.args[0])))
                return
            lib = (base or "").split(".")[0] in ("np", "numpy", "math", "cmath", "geom", "hq", "Rotation", "scipy")
            is_super = isinstance(e.func.value, ast.Call) and T.dotted(e.func.value.func) == "super"
            if not lib and not is_super:
                # ---- method call on a value
                if m in MUTATING_METHODS:
                    out.append(("EMut", self.root(e.func.value)))
                    return
                cands = [k for k in set(self.names.values()) if k.split(".")[-1] == m and "." in k]
                if cands:
                    if len(cands) > 1:
                        own = [k for k in cands if self.cls and k.startswith(self.cls + ".")]
                        cands = own or cands
                    key = sorted(cands)[0]
                    recv = self.root(e.func.value)
                elif m in PURE_METHODS:
                    return
                else:
                    self.fail(e, "method .%s() is neither a method of the table nor in the whitelist of pure methods" % m)
            elif is_super and m in PURE_METHODS:
                return
        if key is not None:
            argr = [self.root(x) for x in e.args]
            if recv is not None:
                argr = [recv] + argr
            elif key.endswith(".__init__"):
                argr = [set()] + argr          # the object under construction is fresh
            out.append(("ECall", key, argr))
            return
        # ---- (c) explicit whitelist
        if d in PURE_CALLS:
            return
        self.fail(e, "call of %s: not a function of the five files and not in the whitelist of pure callables"
                  % (d or ast.dump(e.func)[:60]))

    def stmts(self, body):
        evs = []
        for s in body:
            evs += self.stmt(s)
        return evs

    def stmt(self, s):
        evs = []
        if isinstance(s, (ast.Expr, ast.Return)):
            if s.value is not None:
                self.calls_in(s.value, evs)
                if isinstance(s, ast.Return) and not isinstance(s.value, ast.Constant):
                    evs.append(("ERet", self.root(s.value)))
            return evs
        if isinstance(s, ast.Assign):
            self.calls_in(s.value, evs)
            r = self.root(s.value)
            for t in s.targets:
                evs += self.store(t, r, s.value)
            return evs
        if isinstance(s, ast.AnnAssign):
            if s.value is not None:
                self.calls_in(s.value, evs)
                evs += self.store(s.target, self.root(s.value), s.value)
            return evs
        if isinstance(s, ast.AugAssign):
            self.calls_in(s.value, evs)
            t = s.target
            if isinstance(t, ast.Name):
                r = self.root(t)
                # x op= e on a NAME mutates the array x refers to when x is an array; a scalar local is rebound.
                if r:
                    evs.append(("EMut", r))
                return evs
            evs.append(("EMut", self.root(t.value)))
            return evs
        if isinstance(s, ast.If):
            self.calls_in(s.test, evs)
            saved = dict(self.env)
            a = self.stmts(s.body)
            env_a = self.env
            self.env = dict(saved)
            b = self.stmts(s.orelse)
            for k in set(env_a) | set(self.env):
                self.env[k] = set(env_a.get(k, set())) | set(self.env.get(k, set()))
            return evs + a + b
        if isinstance(s, (ast.For, ast.While)):
            if isinstance(s, ast.For):
                self.calls_in(s.iter, evs)
                self.bind(s.target, self.root(s.iter))
            else:
                self.calls_in(s.test, evs)
            b1 = self.stmts(s.body)
            b2 = self.stmts(s.body)          # second pass: aliases created by the first iteration
            return evs + b1 + b2 + self.stmts(s.orelse)
        if isinstance(s, ast.With):
            inner_with = False
            for it in s.items:
                if isinstance(it.context_expr, ast.Call) and T.dotted(it.context_expr.func) == "np.errstate":
                    inner_with = True
                else:
                    self.calls_in(it.context_expr, evs)
                if it.optional_vars is not None:
                    self.bind(it.optional_vars, self.root(it.context_expr))
            body = self.stmts(s.body)
            return evs + ([("EWith", body)] if inner_with else body)
        if isinstance(s, ast.Try):
            out = self.stmts(s.body)
            for h in s.handlers:
                out += self.stmts(h.body)
            return evs + out + self.stmts(s.orelse) + self.stmts(s.finalbody)
        if isinstance(s, ast.Raise):
            if s.exc is not None:
                self.calls_in(s.exc, evs)
            return evs
        if isinstance(s, ast.Assert):
            self.calls_in(s.test, evs)
            return evs
        if isinstance(s, (ast.Pass, ast.Break, ast.Continue, ast.Import, ast.ImportFrom)):
            return evs
        if isinstance(s, (ast.Global, ast.Nonlocal, ast.Delete, ast.FunctionDef, ast.ClassDef)):
            self.fail(s, "statement kind outside the recognised subset")
        self.fail(s, "statement kind outside the recognised subset")

    def store(self, t, r, value):
        if isinstance(t, ast.Name):
            self.env[t.id] = set(r)
            return []
        if isinstance(t, (ast.Tuple, ast.List)):
            out = []
            if isinstance(value, (ast.Tuple, ast.List)) and len(value.elts) == len(t.elts):
                for tt, vv in zip(t.elts, value.elts):
                    out += self.store(tt, self.root(vv), vv)
            else:
                for tt in t.elts:
                    out += self.store(tt, r, value)
            return out
        if isinstance(t, ast.Attribute):
            base = t.value
            # self.<field> = array : object construction / rebinding of a field (not a write into an array)
            if isinstance(base, ast.Name) and base.id == "self" and self.params and self.params[0] == "self" \
                    and t.attr not in ("x", "y", "z"):
                return [("EStore", r)]
            return [("EMut", self.root(base))]       # v.x = e : writes into the array v
        if isinstance(t, ast.Subscript):
            return [("EMut", self.root(t.value))]
        self.fail(t, "unsupported store target")


def ev_term(ev):
    if ev == "ESetErr":
        return "ESetErr"
    k = ev[0]
    if k == "EMut":
        return "EMut [%s]" % "; ".join(str(i) for i in sorted(ev[1]))
    if k == "ERet":
        return "ERet [%s]" % "; ".join(str(i) for i in sorted(ev[1]))
    if k == "EStore":
        return "EStore [%s]" % "; ".join(str(i) for i in sorted(ev[1]))
    if k == "EWith":
        return "EWith [%s]" % "; ".join(ev_term(x) for x in ev[1])
    if k == "ECall":
        return 'ECall "%s" [%s]' % (ev[1], "; ".join("[%s]" % "; ".join(str(i) for i in sorted(a)) for a in ev[2]))
    raise TranslationError("bad event %r" % (ev,))


ALLOWED_DECORATORS = {"classmethod", "staticmethod", "property"}


def check_decorators(rel, fn):
    """fail closed on every decorator that could change what a call does or returns (memoisation, wrappers, ...)"""
    for dco in fn.decorator_list:
        dd = T.dotted(dco)
        if dd in ALLOWED_DECORATORS or (dd is not None and dd.endswith(".setter") and dd.count(".") == 1):
            continue
        T.fail(rel, dco, "decorator %s on %s is outside the recognised subset (only classmethod / staticmethod / property / "
                         "<name>.setter are understood)" % (dd or ast.dump(dco)[:40], fn.name))


WHITELISTED_DEFAULTS = {'Rotation.create_group("O")'}     # an immutable scipy object that is only iterated / multiplied


def immutable_default(src, e):
    """None / bool / number / string, -number, arithmetic on numbers and math.pi / np.pi"""
    if isinstance(e, ast.Constant):
        return e.value is None or isinstance(e.value, (bool, int, float, str))
    if isinstance(e, ast.UnaryOp) and isinstance(e.op, (ast.USub, ast.UAdd)):
        return immutable_default(src, e.operand)
    if isinstance(e, ast.BinOp) and isinstance(e.op, (ast.Add, ast.Sub, ast.Mult, ast.Div)):
        return immutable_default(src, e.left) and immutable_default(src, e.right)
    if T.dotted(e) in ("math.pi", "np.pi", "pi"):
        return True
    return (ast.get_source_segment(src, e) or "").replace(" ", "") in {w.replace(" ", "") for w in WHITELISTED_DEFAULTS}


def check_defaults(rel, src, fn):
    """a default value is evaluated once and shared by every call: it must be immutable (fail closed otherwise)"""
    a = fn.args
    for e in list(a.defaults) + [d for d in a.kw_defaults if d is not None]:
        if not immutable_default(src, e):
            T.fail(rel, e, "default value `%s` of a parameter of %s is not an immutable constant (a mutable default is shared "
                           "by all calls)" % ((ast.get_source_segment(src, e) or "?")[:40], fn.name))


def param_defaults(fn):
    """{parameter name: default expression}"""
    a = fn.args
    pos = a.posonlyargs + a.args
    out = {}
    for p_, d in zip(pos[len(pos) - len(a.defaults):], a.defaults):
        out[p_.arg] = d
    for p_, d in zip(a.kwonlyargs, a.kw_defaults):
        if d is not None:
            out[p_.arg] = d
    return out


def collect_functions(rel, tree, src=""):
    """[(qualname, FunctionDef, classname|None)] for every def in the file (methods, property setters)"""
    for n in ast.walk(tree):
        if isinstance(n, ast.FunctionDef):
            check_decorators(rel, n)
            check_defaults(rel, src, n)
        elif isinstance(n, ast.ClassDef) and n.decorator_list:
            T.fail(rel, n, "class decorator on %s is outside the recognised subset" % n.name)
        elif isinstance(n, (ast.AsyncFunctionDef, ast.Global, ast.Nonlocal)):
            T.fail(rel, n, "statement kind outside the recognised subset")
    out = []
    for n in tree.body:
        if isinstance(n, ast.FunctionDef):
            out.append((n.name, n, None))
        elif isinstance(n, ast.ClassDef):
            for m in n.body:
                if isinstance(m, ast.FunctionDef):
                    q = "%s.%s" % (n.name, m.name)
                    for dco in m.decorator_list:
                        dd = T.dotted(dco)
                        if dd and dd.endswith(".setter"):
                            q = "%s.%s.setter" % (n.name, m.name)
                    out.append((q, m, n.name))
                elif isinstance(m, ast.ClassDef):
                    for mm in m.body:
                        if isinstance(mm, ast.FunctionDef):
                            out.append(("%s.%s.%s" % (n.name, m.name, mm.name), mm, m.name))
    return out


def effects_table(sources):
    funs = []
    for rel in (F_VEC, F_GEO, F_ROT, F_MATH, F_AABB):
        src, tree = sources[rel]
        for q, fn, cls in collect_functions(rel, tree, src):
            funs.append((rel, src, q, fn, cls))
    keys = [q for _, _, q, _, _ in funs]
    if len(set(keys)) != len(keys):
        raise TranslationError("duplicate function names in the anchored files: %s" % sorted(k for k in keys if keys.count(k) > 1))
    # python-level names under which a callee may be written
    names = {}
    for k in keys:
        names[k] = k
        names["geom." + k] = k
        if k.startswith("AABB.") or k.startswith("Vec."):
            names["cls." + k.split(".", 1)[1]] = k
    names["AABB"] = "AABB.__init__"
    names["Vec"] = None
    names = {a: b for a, b in names.items() if b}
    rows = []
    for rel, src, q, fn, cls in funs:
        ef = Effects(rel, src, fn, q, names, cls)
        evs = ef.stmts(T.body_nodoc(fn))
        rows.append('  ("%s"%%string, [%s])' % (q, "; ".join(ev_term(e) for e in evs)))
    return "Definition fx_table : list (string * list ev) := [\n" + ";\n".join(rows) + "\n]."


# ====================================================================== driver
def gen():
    sources = {}
    parts = []
    for rel in (F_VEC, F_GEO, F_ROT, F_MATH, F_AABB):
        src, tree = T.load(rel)
        sources[rel] = (src, tree)
    registry = {}
    defs = []
    for spec in SPECS:
        rel, qual, coqname, params, ret, opt = spec
        src, tree = sources[rel]
        fn = T.find_def(tree, qual, rel)
        if opt.get("pick"):
            cls_node = T.find_def(tree, qual.rsplit(".", 1)[0], rel)
            want_setter = opt["pick"] == "setter"
            cands = []
            for m_ in cls_node.body:
                if isinstance(m_, ast.FunctionDef) and m_.name == qual.rsplit(".", 1)[1]:
                    decs = [T.dotted(d_) for d_ in m_.decorator_list]
                    is_setter = any(d_ and d_.endswith(".setter") for d_ in decs)
                    if is_setter == want_setter and (want_setter or "property" in decs):
                        cands.append(m_)
            if len(cands) != 1:
                raise TranslationError("%s: %s of property %s not found" % (rel, opt["pick"], qual))
            fn = cands[0]
        # properties / classmethods / staticmethods are compiled from their bodies all the same
        comp = FnCompiler(rel, src, fn, spec, registry)
        text = comp.compile()
        registry[coqname] = (params, ret, list(comp.extra_params), dict(comp.defaults))
        defs.append("(* %s:%d  %s *)\n%s" % (rel, fn.lineno, qual, text))
        parts.append(("%s %s" % (rel.split("/")[-1], qual), T.sha(src, fn)))
    rtext, rsha = roots_def(*sources[F_MATH])
    defs.append(rtext)
    parts.append(("maths.py roots", rsha))
    fx = effects_table(sources)
    for rel in (F_VEC, F_GEO, F_ROT, F_MATH, F_AABB):
        import hashlib
        parts.append((rel + " (whole file, effects)", hashlib.sha256(sources[rel][0].encode()).hexdigest()[:16]))
    out = T.header("C12: geometric primitives, boxes (algebra over `ops T`) and the side-effect event table", parts)
    out += """From Coq Require Import ZArith List Bool Arith String.
Import ListNotations.
Require Import MV.C12.Model.

Section Gen.
Variable T : Type.
Variable o : ops T.
Local Notation zero := (@zero T o).

""" + "\n\n".join(defs) + """

End Gen.

""" + fx + "\n"
    return {"C12/Gen.v": out}
