"""surface.py / linear.py -> second part of coq/theories/C01/Gen.v: the BODIES of the accessors and of the compute methods.

For every accessor / compute method the semantically relevant expressions are translated into small pure Gallina
functions (keys looked up, entries stored, index formulas, call argument orders, return expressions, branch tests);
the surrounding plumbing (which statement forms occur, in which order) is checked strictly and fails closed.
A changed key, index, comparison, returned variable, branch polarity, argument order or stored value therefore changes
Gen.v (and a proof breaks); a changed statement structure raises TranslationError (the tie is broken).
"""
import ast

from . import common as T

Z, OZ, B, ZZ, LZ, LOZ = "Z", "option Z", "bool", "Z * Z", "list Z", "list (option Z)"


def self_attr(node):
    if isinstance(node, ast.Attribute) and isinstance(node.value, ast.Name) and node.value.id == "self":
        return node.attr
    return None


def is_none(node):
    return isinstance(node, ast.Constant) and node.value is None


def sub_index(node):
    return node.slice


# ---------------------------------------------------------------------- typed pure expressions
class Env:
    """names -> (coq term, type); atoms: callback for special sub-expressions (calls, table reads)"""

    def __init__(self, rel, names, atoms=None):
        self.rel, self.names, self.atoms = rel, dict(names), atoms

    def with_names(self, more):
        e = Env(self.rel, self.names, self.atoms)
        e.names.update(more)
        return e


def coerce(rel, node, coq, ty, want):
    if ty == want or want is None:
        return coq
    if ty == Z and want == OZ:
        return "(Some %s)" % coq
    if ty == ZZ and want == LOZ:
        return "(let k := %s in [Some (fst k); Some (snd k)])" % coq
    T.fail(rel, node, "expression of type %s where %s is expected" % (ty, want))


def pexpr(e, env, want=None):
    coq, ty = _pexpr(e, env, want)
    return coerce(env.rel, e, coq, ty, want), (want or ty)


def _pexpr(e, env, want=None):
    rel = env.rel
    if env.atoms is not None:
        r = env.atoms(e)
        if r is not None:
            return r
    if isinstance(e, ast.Name) and e.id in env.names:
        return env.names[e.id]
    if isinstance(e, ast.Constant):
        if e.value is None:
            return "None", OZ
        if isinstance(e.value, bool):
            return ("true" if e.value else "false"), B
        if isinstance(e.value, int):
            return (str(e.value) if e.value >= 0 else "(%d)" % e.value), Z
    if isinstance(e, ast.Tuple):
        if want == LOZ or want is None and len(e.elts) != 2:
            return "[" + "; ".join(pexpr(x, env, OZ)[0] for x in e.elts) + "]", LOZ
        if len(e.elts) == 2:
            return "(%s, %s)" % (pexpr(e.elts[0], env, Z)[0], pexpr(e.elts[1], env, Z)[0]), ZZ
    if isinstance(e, ast.BinOp):
        ops = {ast.Add: "+", ast.Sub: "-", ast.Mult: "*", ast.Mod: "mod", ast.FloorDiv: "/"}
        if type(e.op) in ops:
            return "(%s %s %s)" % (pexpr(e.left, env, Z)[0], ops[type(e.op)], pexpr(e.right, env, Z)[0]), Z
    if isinstance(e, ast.UnaryOp) and isinstance(e.op, ast.USub):
        return "(- %s)" % pexpr(e.operand, env, Z)[0], Z
    if isinstance(e, ast.UnaryOp) and isinstance(e.op, ast.Not):
        return "(negb %s)" % pexpr(e.operand, env, B)[0], B
    if isinstance(e, ast.BoolOp):
        op = " && " if isinstance(e.op, ast.And) else " || "
        return "(" + op.join(pexpr(v, env, B)[0] for v in e.values) + ")", B
    if isinstance(e, ast.Compare) and len(e.ops) == 1:
        op, l, r = e.ops[0], e.left, e.comparators[0]
        if isinstance(op, (ast.Is, ast.IsNot)) and is_none(r):
            c = "(onone %s)" % pexpr(l, env, OZ)[0]
            return (c if isinstance(op, ast.Is) else "(negb %s)" % c), B
        if isinstance(op, (ast.Eq, ast.NotEq)):
            lc, lt = _pexpr(l, env)
            rc, rt = _pexpr(r, env)
            if lt == Z and rt == Z:
                c = "(%s =? %s)" % (lc, rc)
            elif lt == OZ and rt == Z:
                c = "(oz_eqb %s %s)" % (lc, rc)
            elif lt == Z and rt == OZ:
                c = "(oz_eqb %s %s)" % (rc, lc)
            else:
                T.fail(rel, e, "comparison between %s and %s" % (lt, rt))
            return (c if isinstance(op, ast.Eq) else "(negb %s)" % c), B
        cmp = {ast.Lt: "<?", ast.LtE: "<=?"}
        if type(op) in cmp:
            return "(%s %s %s)" % (pexpr(l, env, Z)[0], cmp[type(op)], pexpr(r, env, Z)[0]), B
    if isinstance(e, ast.Call) and T.dotted(e.func) == "utils.keyify" and not e.keywords:
        a = e.args
        if len(a) == 2:
            return "(keyify2 %s %s)" % (pexpr(a[0], env, Z)[0], pexpr(a[1], env, Z)[0]), ZZ
        if len(a) == 1:
            x = a[0].value if isinstance(a[0], ast.Starred) else a[0]
            c, t = _pexpr(x, env)
            if t == ZZ and not isinstance(a[0], ast.Starred):
                return "(keyify2 (fst %s) (snd %s))" % (c, c), ZZ
            if t == LZ:
                return "(zsort %s)" % c, LZ
    T.fail(rel, e, "expression outside the translated subset")


def ret_chain(stmts, env, want):
    """[if c: return e]* return e  ->  nested if"""
    rel = env.rel
    out = None
    for st in reversed(stmts):
        if isinstance(st, ast.Return) and out is None:
            out = pexpr(st.value if st.value is not None else ast.Constant(value=None), env, want)[0]
        elif isinstance(st, ast.If) and not st.orelse and len(st.body) == 1 and isinstance(st.body[0], ast.Return) and out is not None:
            v = st.body[0].value if st.body[0].value is not None else ast.Constant(value=None)
            out = "(if %s then %s else %s)" % (pexpr(st.test, env, B)[0], pexpr(v, env, want)[0], out)
        else:
            T.fail(rel, st, "statement outside `if c: return e` / `return e`")
    if out is None:
        T.fail(rel, stmts[0] if stmts else None, "no return")
    return out


# ---------------------------------------------------------------------- strict structure: same code up to local names
def canon(fn_src_or_node):
    """dump of signature + body (docstring dropped) with every locally bound name replaced by its binding rank"""
    import copy
    node = ast.parse(fn_src_or_node).body[0] if isinstance(fn_src_or_node, str) else fn_src_or_node
    node = copy.deepcopy(node)
    body = T.body_nodoc(node)
    bound = []
    for a in node.args.args + ([node.args.vararg] if node.args.vararg else []):
        a.annotation = None
        if a.arg not in bound:
            bound.append(a.arg)
    for st in body:
        for n in ast.walk(st):
            if isinstance(n, ast.Name) and isinstance(n.ctx, ast.Store) and n.id not in bound:
                bound.append(n.id)
    ren = {nm: "v%d" % k for k, nm in enumerate(bound)}
    for a in node.args.args + ([node.args.vararg] if node.args.vararg else []):
        a.arg = ren[a.arg]
    for st in body:
        for n in ast.walk(st):
            if isinstance(n, ast.Name) and n.id in ren:
                n.id = ren[n.id]
    return ast.dump(node.args) + " | " + " ; ".join(ast.dump(st) for st in body)


def strict(rel, fn, expected_src, stmts=None):
    """fn (or fn's signature with the given statements as body) is the expected code up to the names of locals"""
    import textwrap
    node = fn
    if stmts is not None:
        node = ast.FunctionDef(name="f", args=fn.args, body=list(stmts), decorator_list=[], returns=None, lineno=0, col_offset=0)
    if canon(node) != canon(textwrap.dedent(expected_src)):
        T.fail(rel, fn, "%s no longer has the statement structure the model assumes" % fn.name)


def call_args(rel, call, method, env, n):
    """self.<method>(a1..an) -> coq terms of the arguments"""
    if not (isinstance(call, ast.Call) and self_attr(call.func) == method and len(call.args) == n and not call.keywords):
        T.fail(rel, call, "expected a call self.%s with %d positional arguments" % (method, n))
    return [pexpr(a, env, Z)[0] for a in call.args]


def params(fn):
    return [a.arg for a in fn.args.args][1:]


# ---------------------------------------------------------------------- linear.py
def gen_linear(rel, tree, rests):
    L = ["", "(* ---- linear.py: keys, entries, argument orders, return expressions *)"]
    # _compute_connectivity
    fn = T.find_def(tree, "PolyLine._Connectivity._compute_connectivity", rel)
    b = T.body_nodoc(fn)
    if len(b) != 3 or not isinstance(b[1], ast.For) or not isinstance(b[1].target, ast.Tuple) or len(b[1].target.elts) != 2 \
            or T.dotted(b[1].iter) != "self.mesh.edges":
        T.fail(rel, fn, "PolyLine._compute_connectivity: expected init / loop over (A,B) in self.mesh.edges / set->list loop")
    strict(rel, fn, """
        def f(self):
            self._adjV2V = dict([(i,set()) for i in self.mesh.id_vertices ])
            for U in self.mesh.id_vertices:
                self._adjV2V[U] = list(self._adjV2V[U])
    """, stmts=[b[0], b[2]])
    A, Bn = [e.id for e in b[1].target.elts]
    env = Env(rel, {A: ("A", Z), Bn: ("B", Z)})
    asserts, adds = [], []
    for st in b[1].body:
        if isinstance(st, ast.Assert):
            asserts.append(pexpr(st.test, env, B)[0])
        elif isinstance(st, ast.Expr) and isinstance(st.value, ast.Call) and isinstance(st.value.func, ast.Attribute) \
                and st.value.func.attr == "add" and isinstance(st.value.func.value, ast.Subscript) \
                and self_attr(st.value.func.value.value) == "_adjV2V" and len(st.value.args) == 1:
            adds.append("(%s, %s)" % (pexpr(sub_index(st.value.func.value), env, Z)[0], pexpr(st.value.args[0], env, Z)[0]))
        else:
            T.fail(rel, st, "PolyLine._compute_connectivity: unexpected statement in the edge loop")
    if len(asserts) != 1:
        T.fail(rel, fn, "PolyLine._compute_connectivity: expected exactly one assert")
    L.append("Definition g_v2v_assert (A B : Z) : bool := %s." % asserts[0])
    L.append("Definition g_v2v_adds (A B : Z) : list (Z * Z) := [%s].   (* (key, value) of each _adjV2V[key].add(value) *)" % "; ".join(adds))
    # _compute_edge_id
    fn = T.find_def(tree, "PolyLine._Connectivity._compute_edge_id", rel)
    b = T.body_nodoc(fn)
    if not (len(b) == 2 and isinstance(b[1], ast.For) and isinstance(b[1].iter, ast.Call) and T.dotted(b[1].iter.func) == "enumerate"
            and T.dotted(b[1].iter.args[0]) == "self.mesh.edges" and isinstance(b[1].target, ast.Tuple)):
        T.fail(rel, fn, "_compute_edge_id: expected `self._edge_id = dict(); for iE,E in enumerate(self.mesh.edges): ...`")
    iE, E = [e.id for e in b[1].target.elts]
    env = Env(rel, {iE: ("iE", Z), E: ("E", ZZ)})
    L.append("Definition g_edge_id_entry (iE : Z) (E : Z * Z) : (Z * Z) * Z := %s." % dict_store(rel, b[1].body, "_edge_id", env, ZZ, Z))
    # edge_id
    rel_, fn, rest = rests["edge_id"]
    p = params(fn)
    env = Env(rel, {p[0]: ("V1", Z), p[1]: ("V2", Z)})
    L.append("Definition g_edge_id_key (V1 V2 : Z) : Z * Z := %s." % dict_get(rel, rest, "_edge_id", env, ZZ))
    # other_edge_end
    rel_, fn, rest = rests["other_edge_end"]
    p = params(fn)
    st = rest[0]
    if not (isinstance(st, ast.Assign) and isinstance(st.targets[0], ast.Tuple) and len(st.targets[0].elts) == 2
            and isinstance(st.value, ast.Subscript) and T.dotted(st.value.value) == "self.mesh.edges"
            and T.dotted(sub_index(st.value)) == p[0]):
        T.fail(rel, fn, "other_edge_end does not start with `A,B = self.mesh.edges[E]`")
    a, bb = [e.id for e in st.targets[0].elts]
    env = Env(rel, {p[1]: ("V", Z), a: ("e0", Z), bb: ("e1", Z)})
    L.append("Definition g_other_edge_end (V e0 e1 : Z) : option Z :=   (* (e0, e1) = mesh.edges[E] *)\n  %s." % ret_chain(rest[1:], env, OZ))
    # vertex_to_vertices / edge_to_vertices / vertex_to_edges
    strict(rel, rests["vertex_to_vertices"][1], """
        def f(self, V):
            return self._adjV2V[V]
    """, stmts=rests["vertex_to_vertices"][2])
    strict(rel, rests["edge_to_vertices"][1], """
        def f(self, E):
            return self.mesh.edges[E]
    """, stmts=rests["edge_to_vertices"][2])
    rel_, fn, rest = rests["vertex_to_edges"]
    p = params(fn)
    ok = len(rest) == 1 and isinstance(rest[0], ast.Return) and isinstance(rest[0].value, ast.ListComp) \
        and len(rest[0].value.generators) == 1 and not rest[0].value.generators[0].ifs \
        and isinstance(rest[0].value.generators[0].target, ast.Name)
    if ok:
        g = rest[0].value.generators[0]
        ok = isinstance(g.iter, ast.Call) and self_attr(g.iter.func) == "vertex_to_vertices" and len(g.iter.args) == 1 \
            and T.dotted(g.iter.args[0]) == p[0]
    if not ok:
        T.fail(rel, fn, "vertex_to_edges is not [self.edge_id(..) for u in self.vertex_to_vertices(V)]")
    env = Env(rel, {p[0]: ("V", Z), g.target.id: ("u", Z)})
    a = call_args(rel, rest[0].value.elt, "edge_id", env, 2)
    L.append("Definition g_vertex_to_edges_call (V u : Z) : Z * Z := (%s, %s).   (* arguments of edge_id *)" % tuple(a))
    return L


def lazy_first(fn):
    b = T.body_nodoc(fn)
    return bool(b) and isinstance(b[0], ast.If) and isinstance(b[0].test, ast.Compare) and isinstance(b[0].test.ops[0], ast.Is)


def inline_locals(rel, stmts, env):
    """leading `name = <pure expr>` statements are inlined into the environment"""
    env = env.with_names({})
    i = 0
    while i < len(stmts) and isinstance(stmts[i], ast.Assign) and len(stmts[i].targets) == 1 \
            and isinstance(stmts[i].targets[0], ast.Name):
        c, t = _pexpr(stmts[i].value, env)
        env.names[stmts[i].targets[0].id] = (c, t)
        i += 1
    return stmts[i:], env


def dict_store(rel, stmts, table, env, kty, vty):
    """[name = e]* ; self.<table>[k] = v   ->  (k, v)"""
    rest, env = inline_locals(rel, stmts, env)
    if not (len(rest) == 1 and isinstance(rest[0], ast.Assign) and isinstance(rest[0].targets[0], ast.Subscript)
            and self_attr(rest[0].targets[0].value) == table):
        T.fail(rel, rest[0] if rest else stmts[0], "expected a single store self.%s[key] = value" % table)
    return "(%s, %s)" % (pexpr(sub_index(rest[0].targets[0]), env, kty)[0], pexpr(rest[0].value, env, vty)[0])


def dict_get(rel, stmts, table, env, kty):
    """[name = e]* ; return self.<table>.get(k, None)  ->  k"""
    rest, env = inline_locals(rel, stmts, env)
    ok = len(rest) == 1 and isinstance(rest[0], ast.Return) and isinstance(rest[0].value, ast.Call) \
        and isinstance(rest[0].value.func, ast.Attribute) and rest[0].value.func.attr == "get" \
        and self_attr(rest[0].value.func.value) == table and not rest[0].value.keywords \
        and (len(rest[0].value.args) == 1 or (len(rest[0].value.args) == 2 and is_none(rest[0].value.args[1])))
    if not ok:
        T.fail(rel, rest[0] if rest else stmts[0], "expected `return self.%s.get(key, None)`" % table)
    return pexpr(rest[0].value.args[0], env, kty)[0]


# ---------------------------------------------------------------------- surface.py
def gen_surface(rel, tree, rests):
    L = ["", "(* ---- surface.py: keys, entries, argument orders, index formulas, return expressions *)"]
    # _compute_face_ids / face_id
    fn = T.find_def(tree, "SurfaceMesh._Connectivity._compute_face_ids", rel)
    b = T.body_nodoc(fn)
    if not (len(b) == 2 and isinstance(b[1], ast.For) and isinstance(b[1].iter, ast.Call) and T.dotted(b[1].iter.func) == "enumerate"
            and T.dotted(b[1].iter.args[0]) == "self.mesh.faces" and isinstance(b[1].target, ast.Tuple)):
        T.fail(rel, fn, "_compute_face_ids: expected `self._face_id = dict(); for iF,F in enumerate(self.mesh.faces): ...`")
    iF, F = [e.id for e in b[1].target.elts]
    env = Env(rel, {iF: ("iF", Z), F: ("F", LZ)})
    L.append("Definition g_face_id_entry (iF : Z) (F : list Z) : list Z * Z := %s." % dict_store(rel, b[1].body, "_face_id", env, LZ, Z))
    rel_, fn, rest = rests["face_id"]
    if fn.args.vararg is None or len(fn.args.args) != 1:
        T.fail(rel, fn, "face_id signature is not (self, *args)")
    env = Env(rel, {fn.args.vararg.arg: ("args", LZ)})
    L.append("Definition g_face_id_key (args : list Z) : list Z := %s." % dict_get(rel, rest, "_face_id", env, LZ))
    # corner dictionaries of _compute_connectivity
    fn = T.find_def(tree, "SurfaceMesh._Connectivity._compute_connectivity", rel)
    loop = [st for st in T.body_nodoc(fn) if isinstance(st, ast.For) and T.dotted(st.iter) == "self.mesh.id_corners"]
    if len(loop) != 1 or not isinstance(loop[0].target, ast.Name):
        T.fail(rel, fn, "_compute_connectivity: loop over self.mesh.id_corners not found")
    iC = loop[0].target.id
    lb = loop[0].body
    st = lb[0]
    ok = isinstance(st, ast.Assign) and isinstance(st.targets[0], ast.Tuple) and len(st.targets[0].elts) == 2 \
        and isinstance(st.value, ast.Tuple) and len(st.value.elts) == 2
    names = {iC: ("iC", Z)}
    if ok:
        for tg, val in zip(st.targets[0].elts, st.value.elts):
            d = T.dotted(val.func) if isinstance(val, ast.Call) else None
            if d == "self.mesh.face_corners.element" and T.dotted(val.args[0]) == iC:
                names[tg.id] = ("elem", Z)
            elif d == "self.mesh.face_corners.adj" and T.dotted(val.args[0]) == iC:
                names[tg.id] = ("adj", Z)
            else:
                ok = False
    if not ok or len(names) != 3:
        T.fail(rel, st, "corner loop does not start with `v,f = face_corners.element(iC), face_corners.adj(iC)`")
    env = Env(rel, names)
    got = {}
    for st in lb[1:]:
        if isinstance(st, ast.Expr) and isinstance(st.value, ast.Call) and isinstance(st.value.func, ast.Attribute) \
                and st.value.func.attr == "add" and isinstance(st.value.func.value, ast.Subscript) \
                and self_attr(st.value.func.value.value) == "_adjV2Cn" and len(st.value.args) == 1 and "v2c" not in got:
            got["v2c"] = "(%s, %s)" % (pexpr(sub_index(st.value.func.value), env, Z)[0], pexpr(st.value.args[0], env, Z)[0])
        elif isinstance(st, ast.Assign) and isinstance(st.targets[0], ast.Subscript) and self_attr(st.targets[0].value) == "_adjVF2Cn" \
                and "vf" not in got:
            got["vf"] = "(%s, %s)" % (pexpr(sub_index(st.targets[0]), env, ZZ)[0], pexpr(st.value, env, Z)[0])
        elif isinstance(st, ast.If) and not st.orelse and len(st.body) == 1 and isinstance(st.test, ast.Compare) \
                and isinstance(st.test.ops[0], (ast.In, ast.NotIn)) and self_attr(st.test.comparators[0]) == "_adjF2Cn" \
                and "f2c" not in got:
            got["f2c_absent"] = "true" if isinstance(st.test.ops[0], ast.NotIn) else "false"
            got["f2c_test"] = pexpr(st.test.left, env, Z)[0]
            got["f2c"] = dict_store(rel, st.body, "_adjF2Cn", env, Z, Z)
        else:
            T.fail(rel, st, "unexpected statement in the corner loop")
    if set(got) != {"v2c", "vf", "f2c", "f2c_absent", "f2c_test"}:
        T.fail(rel, loop[0], "corner loop does not fill _adjV2Cn, _adjVF2Cn and _adjF2Cn once each")
    L.append("Definition g_v2c_add (elem adj iC : Z) : Z * Z := %s.   (* _adjV2Cn[key].add(value) *)" % got["v2c"])
    L.append("Definition g_vf_entry (elem adj iC : Z) : (Z * Z) * Z := %s." % got["vf"])
    L.append("Definition g_f2c_test (elem adj iC : Z) : Z := %s." % got["f2c_test"])
    L.append("Definition g_f2c_store_when_absent : bool := %s." % got["f2c_absent"])
    L.append("Definition g_f2c_entry (elem adj iC : Z) : Z * Z := %s." % got["f2c"])
    # table reads
    rel_, fn, rest = rests["vertex_to_corners"]
    env = Env(rel, {params(fn)[0]: ("V", Z)})
    L.append("Definition g_vertex_to_corners_key (V : Z) : Z := %s." % dict_get(rel, rest, "_adjV2Cn", env, Z))
    rel_, fn, rest = rests["vertex_to_corner_in_face"]
    p = params(fn)
    env = Env(rel, {p[0]: ("V", Z), p[1]: ("F", Z)})
    L.append("Definition g_vcif_key (V F : Z) : Z * Z := %s." % dict_get(rel, rest, "_adjVF2Cn", env, ZZ))
    rel_, fn, rest = rests["corner_to_half_edge"]
    env = Env(rel, {params(fn)[0]: ("C", Z)})
    L.append("Definition g_c2he_key (C : Z) : Z := %s." % dict_get(rel, rest, "_Cn2he", env, Z))

    def table_atom(table, nm, keys):
        def atoms(e):
            if isinstance(e, ast.Subscript) and self_attr(e.value) == table:
                keys.append(e)
                return nm, Z
            return None
        return atoms
    rel_, fn, rest = rests["face_to_first_corner"]
    keys = []
    env = Env(rel, {params(fn)[0]: ("F", Z)}, table_atom("_adjF2Cn", "c0", keys))
    if len(rest) != 1 or not isinstance(rest[0], ast.Return):
        T.fail(rel, fn, "face_to_first_corner is not a single return")
    r = pexpr(rest[0].value, env, Z)[0]
    if len(keys) != 1:
        T.fail(rel, fn, "face_to_first_corner does not read self._adjF2Cn exactly once")
    L.append("Definition g_ftfc_key (F : Z) : Z := %s." % pexpr(sub_index(keys[0]), Env(rel, env.names), Z)[0])
    L.append("Definition g_ftfc_ret (F c0 : Z) : Z := %s.   (* c0 = self._adjF2Cn[key] *)" % r)
    rel_, fn, rest = rests["face_to_corners"]
    Fp = params(fn)[0]
    ok = len(rest) == 1 and isinstance(rest[0], ast.Return) and isinstance(rest[0].value, ast.ListComp) \
        and len(rest[0].value.generators) == 1 and not rest[0].value.generators[0].ifs
    if ok:
        g = rest[0].value.generators[0]
        ok = isinstance(g.target, ast.Name) and ast.dump(g.iter) == ast.dump(ast.parse("range(len(self.mesh.faces[%s]))" % Fp).body[0].value)
    if not ok:
        T.fail(rel, fn, "face_to_corners is not [<expr> for _i in range(len(self.mesh.faces[F]))]")
    keys = []
    env = Env(rel, {Fp: ("F", Z), g.target.id: ("i", Z)}, table_atom("_adjF2Cn", "c0", keys))
    r = pexpr(rest[0].value.elt, env, Z)[0]
    if len(keys) != 1:
        T.fail(rel, fn, "face_to_corners does not read self._adjF2Cn exactly once per element")
    L.append("Definition g_ftc_key (F i : Z) : Z := %s." % pexpr(sub_index(keys[0]), Env(rel, env.names), Z)[0])
    L.append("Definition g_ftc_elem (F c0 i : Z) : Z := %s.   (* c0 = self._adjF2Cn[key] *)" % r)
    # pure plumbing, checked strictly
    strict(rel, rests["vertex_to_faces"][1], """
        def f(self, V):
            return [self.corner_to_face(iC) for iC in self.vertex_to_corners(V)]
    """, stmts=rests["vertex_to_faces"][2])
    strict(rel, rests["corner_to_face"][1], """
        def f(self, C):
            return self.mesh.face_corners.adj(C)
    """, stmts=rests["corner_to_face"][2])
    strict(rel, rests["face_to_vertices"][1], """
        def f(self, F):
            return list(self.mesh.faces[F])
    """, stmts=rests["face_to_vertices"][2])
    strict(rel, rests["face_to_faces"][1], """
        def f(self, F):
            opposites = [self.opposite_corner(C) for C in self.face_to_corners(F)]
            return [self.corner_to_face(Op) for Op in opposites if Op is not None]
    """, stmts=rests["face_to_faces"][2])
    # edge_to_faces
    rel_, fn, rest = rests["edge_to_faces"]
    p = params(fn)
    env = Env(rel, {p[0]: ("u", Z), p[1]: ("v", Z)})
    if not (len(rest) == 1 and isinstance(rest[0], ast.Return) and isinstance(rest[0].value, ast.Tuple) and len(rest[0].value.elts) == 2):
        T.fail(rel, fn, "edge_to_faces is not `return self.direct_face(..), self.direct_face(..)`")
    c = [call_args(rel, x, "direct_face", env, 2) for x in rest[0].value.elts]
    L.append("Definition g_edge_to_faces_calls (u v : Z) : (Z * Z) * (Z * Z) := ((%s, %s), (%s, %s))." % (c[0][0], c[0][1], c[1][0], c[1][1]))
    # opposite_face
    rel_, fn, rest = rests["opposite_face"]
    a = fn.args.args
    if len(a) != 5 or len(fn.args.defaults) != 1 or not (isinstance(fn.args.defaults[0], ast.Constant) and fn.args.defaults[0].value is False):
        T.fail(rel, fn, "opposite_face signature is not (self, u, v, F, return_inds=False)")
    u, v, Fn, flag = a[1].arg, a[2].arg, a[3].arg, a[4].arg
    if not (len(rest) == 1 and isinstance(rest[0], ast.If) and T.dotted(rest[0].test) == flag and rest[0].orelse):
        T.fail(rel, fn, "opposite_face is not `if return_inds: ... else: ...`")
    base = {u: ("u", Z), v: ("v", Z), Fn: ("F", Z)}

    def df_call(x, with_true):
        if not (isinstance(x, ast.Call) and self_attr(x.func) == "direct_face" and not x.keywords
                and len(x.args) == (3 if with_true else 2)):
            T.fail(rel, x, "expected self.direct_face(a, b%s)" % (", True" if with_true else ""))
        if with_true and not (isinstance(x.args[2], ast.Constant) and x.args[2].value is True):
            T.fail(rel, x, "third argument of direct_face is not True")
        return [pexpr(t, Env(rel, base), Z)[0] for t in x.args[:2]]
    ib = rest[0].body
    ok = len(ib) >= 3 and all(isinstance(s, ast.Assign) and isinstance(s.targets[0], ast.Tuple) and len(s.targets[0].elts) == 3 for s in ib[:2])
    if not ok:
        T.fail(rel, rest[0], "opposite_face(return_inds) does not start with two 3-way unpackings of direct_face(.., True)")
    c1, c2 = df_call(ib[0].value, True), df_call(ib[1].value, True)
    names = dict(base)
    for k, tg in enumerate(ib[0].targets[0].elts):
        names[tg.id] = ("a%d" % k, OZ)
    for k, tg in enumerate(ib[1].targets[0].elts):
        names[tg.id] = ("b%d" % k, OZ)
    L.append("Definition g_opposite_face_inds_calls (u v : Z) : (Z * Z) * (Z * Z) := ((%s, %s), (%s, %s))." % (c1[0], c1[1], c2[0], c2[1]))
    L.append("Definition g_opposite_face_inds_ret (F : Z) (a0 a1 a2 b0 b1 b2 : option Z) : list (option Z) :=\n"
             "  (* (a0,a1,a2) / (b0,b1,b2) = the first / second direct_face(.., True) answer *)\n  %s." % ret_chain(ib[2:], Env(rel, names), LOZ))
    eb = rest[0].orelse
    st = eb[0]
    ok = isinstance(st, ast.Assign) and isinstance(st.targets[0], ast.Tuple) and len(st.targets[0].elts) == 2 \
        and isinstance(st.value, ast.Tuple) and len(st.value.elts) == 2
    if not ok:
        T.fail(rel, st, "opposite_face does not start with `F1, F2 = self.direct_face(..), self.direct_face(..)`")
    c1, c2 = df_call(st.value.elts[0], False), df_call(st.value.elts[1], False)
    names = dict(base)
    names[st.targets[0].elts[0].id] = ("r0", OZ)
    names[st.targets[0].elts[1].id] = ("r1", OZ)
    L.append("Definition g_opposite_face_calls (u v : Z) : (Z * Z) * (Z * Z) := ((%s, %s), (%s, %s))." % (c1[0], c1[1], c2[0], c2[1]))
    L.append("Definition g_opposite_face_ret (F : Z) (r0 r1 : option Z) : option Z :=\n  %s." % ret_chain(eb[1:], Env(rel, names), OZ))
    # common_edge
    rel_, fn, rest = rests["common_edge"]
    p = params(fn)
    ok = len(rest) == 4 and isinstance(rest[0], ast.Assign) and isinstance(rest[0].value, ast.Subscript) \
        and T.dotted(rest[0].value.value) == "self.mesh.faces" and T.dotted(sub_index(rest[0].value)) == p[0] \
        and isinstance(rest[1], ast.Assign) and isinstance(rest[1].value, ast.Call) and T.dotted(rest[1].value.func) == "len" \
        and T.dotted(rest[1].value.args[0]) == rest[0].targets[0].id \
        and isinstance(rest[2], ast.For) and isinstance(rest[2].iter, ast.Call) and T.dotted(rest[2].iter.func) == "range" \
        and len(rest[2].iter.args) == 1 and T.dotted(rest[2].iter.args[0]) == rest[1].targets[0].id \
        and isinstance(rest[3], ast.Return) and len(rest[2].body) == 2
    if not ok:
        T.fail(rel, fn, "common_edge is not `F1 = faces[iF1]; n = len(F1); for i in range(n): A,B = ..; if ..: return ..` + default return")
    F1n, nn, ii = rest[0].targets[0].id, rest[1].targets[0].id, rest[2].target.id
    s1, s2 = rest[2].body
    ok = isinstance(s1, ast.Assign) and isinstance(s1.targets[0], ast.Tuple) and len(s1.targets[0].elts) == 2 \
        and isinstance(s1.value, ast.Tuple) and len(s1.value.elts) == 2 \
        and all(isinstance(x, ast.Subscript) and T.dotted(x.value) == F1n for x in s1.value.elts) \
        and isinstance(s2, ast.If) and not s2.orelse and len(s2.body) == 1 and isinstance(s2.body[0], ast.Return)
    if not ok:
        T.fail(rel, rest[2], "common_edge loop body")
    ienv = Env(rel, {ii: ("i", Z), nn: ("n", Z)})
    L.append("Definition g_common_edge_idx (i n : Z) : Z * Z := (%s, %s).   (* A, B = F1[fst], F1[snd] *)"
             % (pexpr(sub_index(s1.value.elts[0]), ienv, Z)[0], pexpr(sub_index(s1.value.elts[1]), ienv, Z)[0]))
    An, Bn = [e.id for e in s1.targets[0].elts]
    names = {An: ("A", Z), Bn: ("B", Z), p[0]: ("iF1", Z), p[1]: ("iF2", Z)}
    calls = []

    def of_atom(e):
        if isinstance(e, ast.Call) and self_attr(e.func) == "opposite_face":
            calls.append(e)
            return "o", OZ
        return None
    test = pexpr(s2.test, Env(rel, names, of_atom), B)[0]
    if len(calls) != 1:
        T.fail(rel, s2, "common_edge test does not call opposite_face exactly once")
    ca = call_args(rel, calls[0], "opposite_face", Env(rel, names), 3)
    L.append("Definition g_common_edge_call (A B iF1 iF2 : Z) : Z * Z * Z := (%s, %s, %s).   (* arguments of opposite_face *)" % tuple(ca))
    L.append("Definition g_common_edge_test (o : option Z) (A B iF1 iF2 : Z) : bool := %s." % test)
    L.append("Definition g_common_edge_ret (A B iF1 iF2 : Z) : list (option Z) := %s." % pexpr(s2.body[0].value, Env(rel, names), LOZ)[0])
    L.append("Definition g_common_edge_default : list (option Z) := %s." % pexpr(rest[3].value, Env(rel, {}), LOZ)[0])
    # in_face_index
    rel_, fn, rest = rests["in_face_index"]
    p = params(fn)
    ok = len(rest) == 2 and isinstance(rest[0], ast.For) and isinstance(rest[0].target, ast.Tuple) and len(rest[0].target.elts) == 2 \
        and ast.dump(rest[0].iter) == ast.dump(ast.parse("enumerate(self.mesh.faces[%s])" % p[0]).body[0].value) \
        and len(rest[0].body) == 1 and isinstance(rest[0].body[0], ast.If) and not rest[0].body[0].orelse \
        and len(rest[0].body[0].body) == 1 and isinstance(rest[0].body[0].body[0], ast.Return) and isinstance(rest[1], ast.Return)
    if not ok:
        T.fail(rel, fn, "in_face_index is not `for (i,v) in enumerate(faces[F]): if ..: return ..` + default return")
    i_, v_ = [e.id for e in rest[0].target.elts]
    env = Env(rel, {i_: ("i", Z), v_: ("x", Z), p[0]: ("F", Z), p[1]: ("V", Z)})
    L.append("Definition g_in_face_index_test (i x F V : Z) : bool := %s.   (* x = faces[F][i] *)" % pexpr(rest[0].body[0].test, env, B)[0])
    L.append("Definition g_in_face_index_ret (i x F V : Z) : option Z := %s." % pexpr(rest[0].body[0].body[0].value, env, OZ)[0])
    L.append("Definition g_in_face_index_default : option Z := %s."
             % pexpr(rest[1].value if rest[1].value is not None else ast.Constant(value=None), Env(rel, {}), OZ)[0])
    # face_to_edges
    rel_, fn, rest = rests["face_to_edges"]
    p = params(fn)
    ok = len(rest) == 3 and isinstance(rest[0], ast.Assign) and isinstance(rest[0].value, ast.Subscript) \
        and T.dotted(rest[0].value.value) == "self.mesh.faces" and T.dotted(sub_index(rest[0].value)) == p[0] \
        and isinstance(rest[1], ast.Assign) and isinstance(rest[1].value, ast.Call) and T.dotted(rest[1].value.func) == "len" \
        and T.dotted(rest[1].value.args[0]) == rest[0].targets[0].id \
        and isinstance(rest[2], ast.Return) and isinstance(rest[2].value, ast.ListComp) and len(rest[2].value.generators) == 1
    if ok:
        g = rest[2].value.generators[0]
        ok = not g.ifs and isinstance(g.target, ast.Name) and isinstance(g.iter, ast.Call) and T.dotted(g.iter.func) == "range" \
            and len(g.iter.args) == 1 and T.dotted(g.iter.args[0]) == rest[1].targets[0].id
    if not ok:
        T.fail(rel, fn, "face_to_edges is not `lF = faces[F]; n = len(lF); return [self.edge_id(lF[..],lF[..]) for i in range(n)]`")
    lFn = rest[0].targets[0].id
    call = rest[2].value.elt
    if not (isinstance(call, ast.Call) and self_attr(call.func) == "edge_id" and len(call.args) == 2 and not call.keywords
            and all(isinstance(x, ast.Subscript) and T.dotted(x.value) == lFn for x in call.args)):
        T.fail(rel, call, "face_to_edges element is not self.edge_id(lF[..], lF[..])")
    ienv = Env(rel, {g.target.id: ("i", Z), rest[1].targets[0].id: ("n", Z)})
    L.append("Definition g_face_to_edges_idx (i n : Z) : Z * Z := (%s, %s).   (* edge_id(lF[fst], lF[snd]) *)"
             % (pexpr(sub_index(call.args[0]), ienv, Z)[0], pexpr(sub_index(call.args[1]), ienv, Z)[0]))
    return L


# ---------------------------------------------------------------------- SurfaceMesh border computations
def gen_border(rel, tree):
    L = ["", "(* ---- SurfaceMesh: the two border computations and what the border properties return *)"]
    fn = T.find_def(tree, "SurfaceMesh._compute_interior_boundary_edges", rel)
    b = T.body_nodoc(fn)
    inits = [self_attr(st.targets[0]) for st in b[:-1] if isinstance(st, ast.Assign) and isinstance(st.value, ast.List) and not st.value.elts]
    loop = b[-1]
    ok = len(b) == 3 and sorted(inits) == ["_boundary_edges", "_interior_edges"] and isinstance(loop, ast.For) \
        and ast.dump(loop.iter) == ast.dump(ast.parse("enumerate(self.edges)").body[0].value) \
        and isinstance(loop.target, ast.Tuple) and len(loop.target.elts) == 2 and isinstance(loop.target.elts[1], ast.Tuple) \
        and len(loop.target.elts[1].elts) == 2 and len(loop.body) == 1 and isinstance(loop.body[0], ast.If) \
        and len(loop.body[0].body) == 1 and len(loop.body[0].orelse) == 1
    if not ok:
        T.fail(rel, fn, "_compute_interior_boundary_edges: expected two empty lists and `for e,(u,v) in enumerate(self.edges): if ..: X.append(..) else: Y.append(..)`")
    e_, (u_, v_) = loop.target.elts[0].id, [x.id for x in loop.target.elts[1].elts]
    names = {e_: ("e", Z), u_: ("u", Z), v_: ("v", Z)}
    calls = []

    def atom(x):
        if isinstance(x, ast.Call) and self_attr(x.func) == "is_edge_on_border":
            calls.append(x)
            return "b", B
        return None
    test = pexpr(loop.body[0].test, Env(rel, names, atom), B)[0]
    if len(calls) != 1:
        T.fail(rel, loop.body[0], "border edge test does not call is_edge_on_border exactly once")
    ca = call_args(rel, calls[0], "is_edge_on_border", Env(rel, names), 2)

    def app(st):
        if not (isinstance(st, ast.Expr) and isinstance(st.value, ast.Call) and isinstance(st.value.func, ast.Attribute)
                and st.value.func.attr == "append" and self_attr(st.value.func.value) in ("_boundary_edges", "_interior_edges")
                and len(st.value.args) == 1):
            T.fail(rel, st, "expected self._boundary_edges.append(..) / self._interior_edges.append(..)")
        return {"_boundary_edges": "A_boundary_edges", "_interior_edges": "A_interior_edges"}[self_attr(st.value.func.value)], \
            pexpr(st.value.args[0], Env(rel, names), Z)[0]
    ta, tv = app(loop.body[0].body[0])
    ea, evv = app(loop.body[0].orelse[0])
    L.append("Definition g_ibe_call (e u v : Z) : Z * Z := (%s, %s).   (* arguments of is_edge_on_border *)" % tuple(ca))
    L.append("Definition g_ibe_test (b : bool) (e u v : Z) : bool := %s.   (* b = is_edge_on_border(..) *)" % test)
    L.append("Definition g_ibe_then (e u v : Z) : attr * Z := (%s, %s).   (* list appended to, value appended *)" % (ta, tv))
    L.append("Definition g_ibe_else (e u v : Z) : attr * Z := (%s, %s)." % (ea, evv))
    # vertices
    fn = T.find_def(tree, "SurfaceMesh._compute_interior_boundary_vertices", rel)
    b = T.body_nodoc(fn)
    ok = len(b) == 7 and isinstance(b[3], ast.For) and isinstance(b[6], ast.For)
    if ok:
        strict(rel, fn, """
            def f(self):
                self._boundary_vertices = set()
                self.vertices.delete_attribute("border")
                self._is_vertex_on_border = self.vertices.create_attribute("border", bool)
                self._boundary_vertices = list(self.boundary_vertices)
                self._interior_vertices = []
        """, stmts=[b[0], b[1], b[2], b[4], b[5]])
        l1, l2 = b[3], b[6]
        ok = isinstance(l1.target, ast.Name) and T.dotted(l1.iter) == "self.boundary_edges" and len(l1.body) >= 1 \
            and isinstance(l2.target, ast.Name) and T.dotted(l2.iter) == "self.id_vertices" and len(l2.body) == 1
    if not ok:
        T.fail(rel, fn, "_compute_interior_boundary_vertices: statement structure changed")
    st = l1.body[0]
    if not (isinstance(st, ast.Assign) and isinstance(st.targets[0], ast.Tuple) and len(st.targets[0].elts) == 2
            and isinstance(st.value, ast.Subscript) and T.dotted(st.value.value) == "self.edges" and T.dotted(sub_index(st.value)) == l1.target.id):
        T.fail(rel, st, "border vertex loop does not start with `a,b = self.edges[e]`")
    a_, b_ = [x.id for x in st.targets[0].elts]
    env = Env(rel, {a_: ("e0", Z), b_: ("e1", Z)})
    marks, adds = [], []
    for st in l1.body[1:]:
        if isinstance(st, ast.Assign) and isinstance(st.targets[0], ast.Subscript) and self_attr(st.targets[0].value) == "_is_vertex_on_border":
            marks.append("(%s, %s)" % (pexpr(sub_index(st.targets[0]), env, Z)[0], pexpr(st.value, env, B)[0]))
        elif isinstance(st, ast.Expr) and isinstance(st.value, ast.Call) and isinstance(st.value.func, ast.Attribute) \
                and st.value.func.attr == "add" and self_attr(st.value.func.value) == "_boundary_vertices" and len(st.value.args) == 1:
            adds.append(pexpr(st.value.args[0], env, Z)[0])
        else:
            T.fail(rel, st, "unexpected statement in the border vertex loop")
    L.append("Definition g_ibv_marks (e0 e1 : Z) : list (Z * bool) := [%s].   (* (e0,e1) = edges[e]; _is_vertex_on_border[key] = value *)" % "; ".join(marks))
    L.append("Definition g_ibv_adds (e0 e1 : Z) : list Z := [%s].   (* _boundary_vertices.add(..) *)" % "; ".join(adds))
    st = l2.body[0]
    x_ = l2.target.id
    reads = []

    def atom2(e):
        if isinstance(e, ast.Subscript) and self_attr(e.value) == "_is_vertex_on_border":
            reads.append(e)
            return "b", B
        return None
    ok = isinstance(st, ast.If) and not st.orelse and len(st.body) == 1 and isinstance(st.body[0], ast.Expr) \
        and isinstance(st.body[0].value, ast.Call) and isinstance(st.body[0].value.func, ast.Attribute) \
        and st.body[0].value.func.attr == "append" and self_attr(st.body[0].value.func.value) == "_interior_vertices"
    if not ok:
        T.fail(rel, st, "interior vertex loop is not `if ..: self._interior_vertices.append(..)`")
    test = pexpr(st.test, Env(rel, {x_: ("x", Z)}, atom2), B)[0]
    if len(reads) != 1 or T.dotted(sub_index(reads[0])) != x_:
        T.fail(rel, st, "interior vertex test does not read self._is_vertex_on_border[x] exactly once")
    L.append("Definition g_ibv_interior_test (b : bool) (x : Z) : bool := %s.   (* b = _is_vertex_on_border[x] *)" % test)
    L.append("Definition g_ibv_interior_val (x : Z) : Z := %s." % pexpr(st.body[0].value.args[0], Env(rel, {x_: ("x", Z)}), Z)[0])
    # what the properties return
    attr = {"_boundary_edges": "A_boundary_edges", "_interior_edges": "A_interior_edges",
            "_boundary_vertices": "A_boundary_vertices", "_interior_vertices": "A_interior_vertices"}
    for name in ("interior_edges", "boundary_edges", "boundary_vertices", "interior_vertices"):
        fn = T.find_def(tree, "SurfaceMesh." + name, rel)
        last = T.body_nodoc(fn)[-1]
        if not (isinstance(last, ast.Return) and self_attr(last.value) in attr):
            T.fail(rel, fn, "%s does not return one of the border list attributes" % name)
        L.append("Definition gret_%s : attr := %s." % (name, attr[self_attr(last.value)]))
    fn = T.find_def(tree, "SurfaceMesh.is_vertex_on_border", rel)
    last = T.body_nodoc(fn)[-1]
    if not (isinstance(last, ast.Return) and isinstance(last.value, ast.Subscript) and self_attr(last.value.value) == "_is_vertex_on_border"):
        T.fail(rel, fn, "is_vertex_on_border does not return self._is_vertex_on_border[..]")
    L.append("Definition g_is_vertex_on_border_key (u : Z) : Z := %s."
             % pexpr(sub_index(last.value), Env(rel, {params(fn)[0]: ("u", Z)}), Z)[0])
    return L
