"""mouette/processing/border.py (surface part) and features.py -> coq/theories/C15/Gen.v

Fail-closed.  Each anchored function is alpha-normalised (parameters and locals renamed v0, v1, ... in order of first
binding; comments, blank lines and docstrings dropped; formatting normalised by ast.unparse) and matched line by line
against a template of the control skeleton.  The HOLES of the template - decision expressions, thresholds, indices,
argument order, the symbolic effect of the bookkeeping statements - are translated to Gallina by a tiny expression
translator (integers, exact rationals from float literals, comparisons, and/or/not, abs, round, x if c else y).
Anything else raises TranslationError: the tie to the source is then broken.
"""
import ast
import copy
import re
from fractions import Fraction

from . import common as T
from ..core import TranslationError

BORDER = "mouette/processing/border.py"
FEAT = "mouette/processing/features.py"


# ---------------------------------------------------------------------- canonical form
def check_decorators(fn, rel, expected):
    """fail closed on any decorator that is not the expected one (memoisation, wrappers changing the call protocol...)"""
    got = [ast.unparse(d) for d in fn.decorator_list]
    if got != expected:
        raise TranslationError("%s: %s is decorated with %s, recognised: %s" % (rel, fn.name, got, expected))


def canon_fn(fn, rel, drop=None):
    names = []

    class V(ast.NodeVisitor):
        def visit_arg(self, a):
            names.append((a.lineno, a.col_offset, a.arg))

        def visit_Name(self, n):
            if isinstance(n.ctx, ast.Store):
                names.append((n.lineno, n.col_offset, n.id))

        def visit_FunctionDef(self, n):
            if n is not fn:
                T.fail(rel, n, "nested function definition")
            self.generic_visit(n)

        def visit_Lambda(self, n):
            T.fail(rel, n, "lambda")

    V().visit(fn)
    order = {}
    for _, _, nm in sorted(names):
        if nm not in order:
            order[nm] = "v%d" % len(order)

    class R(ast.NodeTransformer):
        def visit_Name(self, n):
            if n.id in order:
                return ast.copy_location(ast.Name(id=order[n.id], ctx=n.ctx), n)
            return n

        def visit_arg(self, a):
            a.arg = order.get(a.arg, a.arg)
            a.annotation = None
            return a

    f2 = R().visit(copy.deepcopy(fn))
    body = T.body_nodoc(f2)
    if drop:
        body = [s for s in body if not drop(s)]
    return "\n".join(ast.unparse(s) for s in body).split("\n")


HOLE = re.compile(r"\{\{(\w+)\}\}")


def match_lines(rel, what, lines, template):
    """template lines with {{name}} holes -> dict name -> text. Fails closed on any other difference."""
    tl = [l for l in template.strip("\n").split("\n")]
    if len(tl) != len(lines):
        raise TranslationError("%s: %s has %d canonical lines, the recognised shape has %d:\n%s"
                               % (rel, what, len(lines), len(tl), "\n".join(lines)))
    out = {}
    for k, (t, l) in enumerate(zip(tl, lines)):
        pos = 0
        rx = ""
        for m in HOLE.finditer(t):
            rx += re.escape(t[pos:m.start()]) + "(?P<%s>.+)" % m.group(1)
            pos = m.end()
        rx += re.escape(t[pos:])
        mm = re.fullmatch(rx, l)
        if not mm:
            raise TranslationError("%s: %s line %d is `%s`, recognised shape is `%s`" % (rel, what, k + 1, l.strip(), t.strip()))
        for a, b in mm.groupdict().items():
            if a in out:
                raise TranslationError("duplicate hole " + a)
            out[a] = b
    return out


# ---------------------------------------------------------------------- expressions
class Ex:
    """env: canonical python text of a sub-expression -> (kind, coq term), kind in Z | B | Q"""

    def __init__(self, rel, what, env):
        self.rel, self.what, self.env = rel, what, env

    def bad(self, node, msg="unsupported expression"):
        raise TranslationError("%s: %s: %s `%s`" % (self.rel, self.what, msg, ast.unparse(node) if isinstance(node, ast.AST) else node))

    def parse(self, text):
        try:
            return ast.parse(text.strip(), mode="eval").body
        except SyntaxError:
            self.bad(text, "cannot parse")

    def look(self, node, kind):
        k = ast.unparse(node)
        if k in self.env:
            kk, term = self.env[k]
            if kk != kind:
                self.bad(node, "expected a %s expression, got %s" % (kind, kk))
            return term
        return None

    def z(self, n):
        r = self.look(n, "Z")
        if r is not None:
            return r
        if isinstance(n, ast.Constant) and isinstance(n.value, int) and not isinstance(n.value, bool):
            return "(%d)" % n.value if n.value < 0 else "%d" % n.value
        if isinstance(n, ast.UnaryOp) and isinstance(n.op, ast.USub):
            return "(- %s)" % self.z(n.operand)
        if isinstance(n, ast.BinOp) and type(n.op) in (ast.Add, ast.Sub, ast.Mult):
            op = {ast.Add: "+", ast.Sub: "-", ast.Mult: "*"}[type(n.op)]
            return "(%s %s %s)" % (self.z(n.left), op, self.z(n.right))
        if isinstance(n, ast.IfExp):
            return "(if %s then %s else %s)" % (self.b(n.test, "Q" if self.isq(n.test) else "Z"), self.z(n.body), self.z(n.orelse))
        if isinstance(n, ast.Call) and T.dotted(n.func) == "round" and len(n.args) == 1 and not n.keywords:
            return "(round_half_even %s)" % self.q(n.args[0])
        self.bad(n)

    def isq(self, n):
        for s in ast.walk(n):
            k = ast.unparse(s)
            if k in self.env and self.env[k][0] == "Q":
                return True
            if isinstance(s, ast.Constant) and isinstance(s.value, float):
                return True
        return False

    def q(self, n):
        r = self.look(n, "Q")
        if r is not None:
            return r
        if isinstance(n, ast.Constant) and isinstance(n.value, (int, float)) and not isinstance(n.value, bool):
            f = Fraction(repr(n.value))
            return "(%d # %d)" % (f.numerator, f.denominator) if f >= 0 else "((%d) # %d)" % (f.numerator, f.denominator)
        if isinstance(n, ast.UnaryOp) and isinstance(n.op, ast.USub):
            return "(- %s)" % self.q(n.operand)
        if isinstance(n, ast.BinOp) and type(n.op) in (ast.Add, ast.Sub, ast.Mult, ast.Div):
            op = {ast.Add: "+", ast.Sub: "-", ast.Mult: "*", ast.Div: "/"}[type(n.op)]
            return "(%s %s %s)" % (self.q(n.left), op, self.q(n.right))
        if isinstance(n, ast.Call) and T.dotted(n.func) == "abs" and len(n.args) == 1 and not n.keywords:
            return "(Qabs %s)" % self.q(n.args[0])
        self.bad(n)

    def b(self, n, num="Z"):
        r = self.look(n, "B")
        if r is not None:
            return r
        if isinstance(n, ast.BoolOp):
            op = " && " if isinstance(n.op, ast.And) else " || "
            return "(" + op.join(self.b(v, num) for v in n.values) + ")"
        if isinstance(n, ast.UnaryOp) and isinstance(n.op, ast.Not):
            return "(negb %s)" % self.b(n.operand, num)
        if isinstance(n, ast.Compare):
            parts = []
            left = n.left
            for op, right in zip(n.ops, n.comparators):
                parts.append(self.cmp(left, op, right, num, n))
                left = right
            return parts[0] if len(parts) == 1 else "(" + " && ".join(parts) + ")"
        self.bad(n)

    def cmp(self, a, op, b, num, whole):
        if num == "Z":
            x, y = self.z(a), self.z(b)
            t = {ast.Eq: "(%s =? %s)", ast.NotEq: "(negb (%s =? %s))", ast.Lt: "(%s <? %s)", ast.LtE: "(%s <=? %s)"}
            if type(op) in t:
                return t[type(op)] % (x, y)
            if isinstance(op, ast.Gt):
                return "(%s <? %s)" % (y, x)
            if isinstance(op, ast.GtE):
                return "(%s <=? %s)" % (y, x)
        else:
            x, y = self.q(a), self.q(b)
            t = {ast.Lt: "(Qltb %s %s)", ast.LtE: "(Qle_bool %s %s)", ast.Eq: "(Qeq_bool %s %s)",
                 ast.NotEq: "(negb (Qeq_bool %s %s))"}
            if type(op) in t:
                return t[type(op)] % (x, y)
            if isinstance(op, ast.Gt):
                return "(Qltb %s %s)" % (y, x)
            if isinstance(op, ast.GtE):
                return "(Qle_bool %s %s)" % (y, x)
        self.bad(whole, "unsupported comparison")

    def pair(self, text, kind="Z"):
        n = self.parse("(" + text + ")")
        if not (isinstance(n, ast.Tuple) and len(n.elts) == 2):
            self.bad(n, "expected two expressions")
        f = self.z if kind == "Z" else self.q
        return f(n.elts[0]), f(n.elts[1])


def aug(rel, what, text, var):
    """`v6 += 1` / `v6 -= 1` / `v6 = v6 + 1`  -> python expression text for the new value"""
    m = re.fullmatch(r"\s*%s (\+|-)= (.+)" % re.escape(var), text)
    if m:
        return "%s %s (%s)" % (var, m.group(1), m.group(2))
    m = re.fullmatch(r"\s*%s = (.+)" % re.escape(var), text)
    if m:
        return m.group(1)
    raise TranslationError("%s: %s: `%s` is not an update of %s" % (rel, what, text.strip(), var))


# ---------------------------------------------------------------------- border.py
CYCLE_T = """
if {{no_border}}:
    return []
if v1 is None:
    v1 = v0.boundary_vertices[{{default_index}}]
if {{reject}}:
    raise Exception({{msg}})
v2, v3 = ([v1], [])
v4, v5 = (v1, v0.connectivity.vertex_to_vertices(v1)[{{first_index}}])
@NV@ = {{nvisited0}}
@MX@ = {{max_visited}}
while {{cont}}:
    v2.append({{emit_v}})
    v3.append(v0.connectivity.edge_id({{emit_e}}))
    for v8 in v0.connectivity.vertex_to_vertices({{scan}}):
        if {{accept}}:
            v4, v5 = ({{move}})
            break
    {{step}}
v3.append(v0.connectivity.edge_id({{last_e}}))
return (v2, v3)
"""

ALL_T = """
v1 = dict([(v2, False) for v2 in v0.boundary_vertices])
v3 = []
for v4 in v0.boundary_vertices:
    if {{enter}}:
        {{unpack}} = extract_border_cycle(v0, v4)
        for v7 in {{cyc1}}:
            v1[v7] = True
        v3.append({{cyc2}})
return v3
"""

BS_HEAD_T = """
v1 = PolyLine()
v2 = Attribute(bool)
v3 = v1.vertices.create_attribute('component', int)
v4 = dict()
v5 = {{ic0}}
v6 = {{iv0}}
for v7 in v0.boundary_vertices:
    if {{enter}}:
        v8, v9 = extract_border_cycle(v0, v7)
        v1.edges += [v0.edges[v10] for v10 in v9]
        for v11 in v8:
"""
BS_TAIL_T = """
        {{ic_step}}
for v10, (v12, v13) in enumerate(v1.edges):
    v1.edges[v10] = keyify({{edge_key}})
return (v1, v4)
"""


def cycle_defs(h, NV, MX):
    W = "extract_border_cycle"
    out = []
    e = Ex(BORDER, W, {"len(v0.boundary_vertices)": ("Z", "nb")})
    out.append("Definition cyc_no_border (nb : Z) : bool := %s." % e.b(e.parse(h["no_border"])))
    e = Ex(BORDER, W, {})
    out.append("Definition cyc_default_index : Z := %s." % e.z(e.parse(h["default_index"])))
    e = Ex(BORDER, W, {"v0.is_vertex_on_border(v1)": ("B", "onb")})
    out.append("Definition cyc_reject (onb : bool) : bool := %s." % e.b(e.parse(h["reject"])))
    e = Ex(BORDER, W, {})
    out.append("Definition cyc_first_index : Z := %s." % e.z(e.parse(h["first_index"])))
    out.append("Definition cyc_nvisited0 : Z := %s." % e.z(e.parse(h["nvisited0"])))
    e = Ex(BORDER, W, {"len(v0.vertices)": ("Z", "nV")})
    out.append("Definition cyc_max_visited (nV : Z) : Z := %s." % e.z(e.parse(h["max_visited"])))
    loopenv = {"v1": ("Z", "start"), "v4": ("Z", "p1"), "v5": ("Z", "p2"), NV: ("Z", "nvisited"), MX: ("Z", "maxv")}
    e = Ex(BORDER, W, loopenv)
    out.append("Definition cyc_continue (p2 start nvisited maxv : Z) : bool := %s." % e.b(e.parse(h["cont"])))
    penv = {"v4": ("Z", "p1"), "v5": ("Z", "p2")}
    e = Ex(BORDER, W, penv)
    out.append("Definition cyc_emit_v (p1 p2 : Z) : Z := %s." % e.z(e.parse(h["emit_v"])))
    out.append("Definition cyc_emit_e (p1 p2 : Z) : Z * Z := (%s, %s)." % e.pair(h["emit_e"]))
    out.append("Definition cyc_scan (p1 p2 : Z) : Z := %s." % e.z(e.parse(h["scan"])))
    e = Ex(BORDER, W, dict(penv, **{"v8": ("Z", "v"), "v0.is_vertex_on_border(v8)": ("B", "onb")}))
    out.append("Definition cyc_accept (onb : bool) (v p1 p2 : Z) : bool := %s." % e.b(e.parse(h["accept"])))
    e = Ex(BORDER, W, dict(penv, **{"v8": ("Z", "v")}))
    out.append("Definition cyc_move (p1 p2 v : Z) : Z * Z := (%s, %s)." % e.pair(h["move"]))
    e = Ex(BORDER, W, {NV: ("Z", "n")})
    out.append("Definition cyc_nvisited_step (n : Z) : Z := %s." % e.z(e.parse(aug(BORDER, W, h["step"], NV))))
    e = Ex(BORDER, W, penv)
    out.append("Definition cyc_last_e (p1 p2 : Z) : Z * Z := (%s, %s)." % e.pair(h["last_e"]))

    return out


def gen_border(parts):
    src, tree = T.load(BORDER)
    out = []
    # ---------------- extract_border_cycle
    fn = T.find_def(tree, "extract_border_cycle", BORDER)
    check_decorators(fn, BORDER, ["allowed_mesh_types(SurfaceMesh)"])
    parts.append(("border.extract_border_cycle", T.sha(src, fn)))
    if [a.arg for a in fn.args.args] != ["mesh", "starting_point"] or len(fn.args.defaults) != 1 \
            or not (isinstance(fn.args.defaults[0], ast.Constant) and fn.args.defaults[0].value is None):
        T.fail(BORDER, fn, "signature is not (mesh, starting_point=None)")
    W = "extract_border_cycle"
    lines = canon_fn(fn, BORDER)
    # the two independent initialisations `nvisited = 0` / `MAX_VISITED = len(...)` may come in either order
    first_err = None
    for NV, MX in (("v6", "v7"), ("v7", "v6")):
        t = CYCLE_T.replace("@NV@ = {{nvisited0}}\n@MX@ = {{max_visited}}",
                            "\n".join(sorted(["%s = {{nvisited0}}" % NV, "%s = {{max_visited}}" % MX])))
        try:
            out += cycle_defs(match_lines(BORDER, W, lines, t), NV, MX)
            break
        except TranslationError as ex:
            first_err = first_err or ex
    else:
        raise first_err

    # ---------------- extract_border_cycle_all
    fn = T.find_def(tree, "extract_border_cycle_all", BORDER)
    check_decorators(fn, BORDER, ["allowed_mesh_types(SurfaceMesh)"])
    if [a.arg for a in fn.args.args] != ["mesh"] or fn.args.defaults or fn.args.kwonlyargs or fn.args.vararg or fn.args.kwarg:
        T.fail(BORDER, fn, "signature is not (mesh)")
    parts.append(("border.extract_border_cycle_all", T.sha(src, fn)))
    W = "extract_border_cycle_all"
    h = match_lines(BORDER, W, canon_fn(fn, BORDER), ALL_T)
    e = Ex(BORDER, W, {"v1[v4]": ("B", "vis")})
    out.append("Definition all_enter (vis : bool) : bool := %s." % e.b(e.parse(h["enter"])))
    names = [x.strip() for x in h["unpack"].split(",")]
    if len(names) != 2 or h["cyc1"] != h["cyc2"] or h["cyc1"] not in names or names[0] == names[1]:
        raise TranslationError("%s: %s: unpacking `%s` / use of `%s`,`%s` not recognised" % (BORDER, W, h["unpack"], h["cyc1"], h["cyc2"]))
    out.append("Definition all_pick : Z := %d." % names.index(h["cyc1"]))

    # ---------------- extract_boundary_of_surface
    fn = T.find_def(tree, "extract_boundary_of_surface", BORDER)
    check_decorators(fn, BORDER, ["allowed_mesh_types(SurfaceMesh)"])
    if [a.arg for a in fn.args.args] != ["mesh"] or fn.args.defaults or fn.args.kwonlyargs or fn.args.vararg or fn.args.kwarg:
        T.fail(BORDER, fn, "signature is not (mesh)")
    parts.append(("border.extract_boundary_of_surface", T.sha(src, fn)))
    W = "extract_boundary_of_surface"
    lines = canon_fn(fn, BORDER)
    nh = len(BS_HEAD_T.strip("\n").split("\n"))
    nt = len(BS_TAIL_T.strip("\n").split("\n"))
    if len(lines) < nh + nt + 1:
        raise TranslationError("%s: %s too short:\n%s" % (BORDER, W, "\n".join(lines)))
    h = match_lines(BORDER, W, lines[:nh], BS_HEAD_T)
    h.update(match_lines(BORDER, W, lines[-nt:], BS_TAIL_T))
    inner = lines[nh:-nt]
    e = Ex(BORDER, W, {})
    out.append("Definition bs_ind_component0 : Z := %s." % e.z(e.parse(h["ic0"])))
    out.append("Definition bs_ind_vertex0 : Z := %s." % e.z(e.parse(h["iv0"])))
    e = Ex(BORDER, W, {"v2[v7]": ("B", "vis")})
    out.append("Definition bs_enter (vis : bool) : bool := %s." % e.b(e.parse(h["enter"])))
    # symbolic execution of the body of `for v11 in v8`
    iv = "iv"
    got = {}
    ind = " " * 12
    for l in inner:
        if not l.startswith(ind) or l[len(ind):].startswith(" "):
            raise TranslationError("%s: %s: unexpected nesting in the vertex loop: `%s`" % (BORDER, W, l))
        s = l[len(ind):]
        env = {"v11": ("Z", "v2"), "v6": ("Z", iv), "v5": ("Z", "ic")}
        e = Ex(BORDER, W, env)
        m = re.fullmatch(r"v2\[v11\] = True", s)
        if m:
            key = "visited"
            val = True
        elif re.fullmatch(r"v4\[(.+)\] = (.+)", s):
            m = re.fullmatch(r"v4\[(.+)\] = (.+)", s)
            key, val = "map", (e.z(e.parse(m.group(1))), e.z(e.parse(m.group(2))))
        elif re.fullmatch(r"v3\[(.+)\] = (.+)", s):
            m = re.fullmatch(r"v3\[(.+)\] = (.+)", s)
            key, val = "comp", (e.z(e.parse(m.group(1))), e.z(e.parse(m.group(2))))
        elif re.fullmatch(r"v1\.vertices\.append\(v0\.vertices\[([^\]]+)\]\.copy\(\)\)", s):
            # the polyline owns a COPY of the coordinates of surface vertex <index> (value semantics: C06)
            m = re.fullmatch(r"v1\.vertices\.append\(v0\.vertices\[([^\]]+)\]\.copy\(\)\)", s)
            key, val = "src", e.z(e.parse(m.group(1)))
        elif s.startswith("v6 "):
            key, val = "step", None
            iv = e.z(e.parse(aug(BORDER, W, s, "v6")))
        else:
            raise TranslationError("%s: %s: statement of the vertex loop not recognised: `%s`" % (BORDER, W, s))
        if key in got:
            raise TranslationError("%s: %s: repeated %s statement in the vertex loop" % (BORDER, W, key))
        got[key] = val
    if set(got) != {"visited", "map", "comp", "src", "step"}:
        raise TranslationError("%s: %s: the vertex loop lacks %s" % (BORDER, W, sorted({"visited", "map", "comp", "src", "step"} - set(got))))
    out.append("Definition bs_map_entry (v2 iv ic : Z) : Z * Z := (%s, %s)." % got["map"])
    out.append("Definition bs_comp_entry (v2 iv ic : Z) : Z * Z := (%s, %s)." % got["comp"])
    out.append("Definition bs_vertex_src (v2 iv ic : Z) : Z := %s." % got["src"])
    out.append("Definition bs_next_iv (v2 iv ic : Z) : Z := %s." % iv)
    e = Ex(BORDER, W, {"v5": ("Z", "ic")})
    out.append("Definition bs_next_ic (ic : Z) : Z := %s." % e.z(e.parse(aug(BORDER, W, h["ic_step"], "v5"))))
    e = Ex(BORDER, W, {"v4[v12]": ("Z", "ma"), "v4[v13]": ("Z", "mb")})
    out.append("Definition bs_edge_key (ma mb : Z) : Z * Z := keyify2 %s %s." % e.pair(h["edge_key"]))
    return out


# ---------------------------------------------------------------------- features.py
BORDER_PASS_T = """
if len(v1.boundary_edges) == 0:
    return v2
for v3 in v1.boundary_edges:
    v2[v3] = True
return v2
"""

HARD_T = """
if {{skip}}:
    return v2
v3 = {{thr}}
if v1.edges.has_attribute('hard_edges'):
    for v4 in v1.edges.get_attribute('hard_edges'):
        v5, v6 = v1.edges[v4]
        v7, v8 = v1.connectivity.edge_to_faces(v5, v6)
        if {{missing}}:
            continue
        v9, v10 = (v0.fnormals[v7], v0.fnormals[v8])
        if {{test}}:
            v2[v4] = True
return v2
"""

SHARP_T = """
if {{skip}}:
    return v2
v3 = {{thr}}
for v4, (v5, v6) in enumerate(v1.edges):
    v7, v8 = v1.connectivity.edge_to_faces(v5, v6)
    if {{missing}}:
        continue
    v9, v10 = (v0.fnormals[v7], v0.fnormals[v8])
    if {{test}}:
        v2[v4] = True
return v2
"""

CORNERS_T = """
if v1.vertices.has_attribute('corners'):
    v0.corners = v1.vertices.get_attribute('corners')
    v0.corners.clear()
else:
    v0.corners = v1.vertices.create_attribute('corners', int)
v2 = corner_angles(v1, persistent=False)
for v3 in v0.feature_vertices:
    v4 = 0.0
    for v5 in v1.connectivity.vertex_to_faces(v3):
        v6 = v1.connectivity.vertex_to_corner_in_face(v3, v5)
        v4 += v2[v6]
    if {{small}}:
        v0.corners[v3] = {{small_value}}
    else:
        v0.corners[v3] = {{value}}
"""

CLEAR_T = """
v0.feature_vertices = set()
v0.feature_edges = set()
v0.feature_degrees = Attribute(int)
v0.local_feat_edges = dict()
"""

RUN_HEAD_T = """
v0.clear()
if v1.faces.has_attribute('normals'):
    v0.fnormals = v1.faces.get_attribute('normals')
else:
    v0.fnormals = face_normals(v1, persistent=False)
if v1.vertices.has_attribute('feature'):
    v2 = v1.vertices.get_attribute('feature')
    v2.clear()
else:
    v2 = v1.vertices.create_attribute('feature', bool)
if v1.edges.has_attribute('feature'):
    v3 = v1.edges.get_attribute('feature')
    v3.clear()
else:
    v3 = v1.edges.create_attribute('feature', bool)
"""

RUN_TAIL_T = """
for v4 in v3:
    v5, v6 = v1.edges[v4]
    v0.feature_edges.add(v4)
    v0.feature_vertices.add(v5)
    v0.feature_vertices.add(v6)
for v7 in v0.feature_vertices:
    v0.local_feat_edges[v7] = []
    for v8, v9 in enumerate(v1.connectivity.vertex_to_edges(v7)):
        if v3[v9]:
            v0.local_feat_edges[v7].append(v8)
for v4 in v0.feature_edges:
    v5, v6 = v1.edges[v4]
    v0.feature_degrees[v5] += 1
    v0.feature_degrees[v6] += 1
if v0.flag_corners:
    v0._flag_corners(v1)
else:
    v0.corners = None
if v0.compute_feature_graph:
    v0._compute_feature_graph(v1)
    if v0.flag_corners:
        v0._compute_corner_point_cloud(v1)
for v7 in v0.feature_vertices:
    v2[v7] = True
"""

PASSES = {"_add_hard_edges_to_features": "PassHard", "_add_sharp_angles_to_features": "PassSharp",
          "_add_border_to_features": "PassBorder"}


def is_log(s):
    return (isinstance(s, ast.Expr) and isinstance(s.value, ast.Call)
            and T.dotted(s.value.func) in ("v0.log", "self.log", "v0.warn", "self.warn"))


def drop_logs(fn):
    """remove self.log(...) statements anywhere in the function (on a copy)"""
    f2 = copy.deepcopy(fn)

    class D(ast.NodeTransformer):
        def generic_visit(self, node):
            super().generic_visit(node)
            for fld in ("body", "orelse"):
                b = getattr(node, fld, None)
                if isinstance(b, list):
                    nb = [s for s in b if not is_log(s)]
                    if b and not nb:
                        nb = [ast.Pass()]
                    setattr(node, fld, nb)
            return node
    return D().visit(f2)


def dot_bound(ex, test_text, what):
    """the test must contain exactly one strict comparison `dot < B` (or `B > dot`): returns the Gallina term of B"""
    node = ex.parse(test_text)
    found = []
    for n in ast.walk(node):
        if isinstance(n, ast.Compare) and len(n.ops) == 1:
            l, r = ast.unparse(n.left), ast.unparse(n.comparators[0])
            ld = l in ex.env and ex.env[l][1] == "d"
            rd = r in ex.env and ex.env[r][1] == "d"
            if ld and isinstance(n.ops[0], ast.Lt):
                found.append(ex.q(n.comparators[0]))
            elif rd and isinstance(n.ops[0], ast.Gt):
                found.append(ex.q(n.left))
            elif ld or rd:
                raise TranslationError("%s: %s: the dot product is not compared by a strict upper bound: `%s`"
                                       % (FEAT, what, ast.unparse(n)))
    if len(found) != 1:
        raise TranslationError("%s: %s: expected exactly one comparison of the dot product, found %d" % (FEAT, what, len(found)))
    return found[0]


def gen_features(parts):
    src, tree = T.load(FEAT)
    out = []
    cls = "FeatureEdgeDetector"

    def fn_of(name, args):
        fn = T.find_def(tree, cls + "." + name, FEAT)
        parts.append(("features." + name, T.sha(src, fn)))
        if [a.arg for a in fn.args.args] != args or fn.args.defaults or fn.args.kwonlyargs or fn.args.vararg or fn.args.kwarg:
            T.fail(FEAT, fn, "signature of %s is not %s (no defaults)" % (name, args))
        check_decorators(fn, FEAT, ["allowed_mesh_types(SurfaceMesh)"] if name == "run" else [])
        return fn

    # constructor: the options and their defaults (immutable constants only), stored under their own names
    init = T.find_def(tree, cls + ".__init__", FEAT)
    parts.append(("features.__init__", T.sha(src, init)))
    check_decorators(init, FEAT, [])
    ia = [a.arg for a in init.args.args]
    if ia != ["self", "only_border", "flag_corners", "corner_order", "compute_feature_graph", "verbose"] \
            or len(init.args.defaults) != 5 or init.args.kwonlyargs or init.args.vararg or init.args.kwarg:
        T.fail(FEAT, init, "constructor is not (self, only_border=, flag_corners=, corner_order=, compute_feature_graph=, verbose=)")
    dv = []
    for dnode in init.args.defaults:
        if not (isinstance(dnode, ast.Constant) and isinstance(dnode.value, (bool, int)) ):
            T.fail(FEAT, dnode, "default of a constructor option is not an immutable bool/int constant")
        dv.append(dnode.value)
    stored = {}
    for st in ast.walk(init):
        if isinstance(st, (ast.Assign, ast.AnnAssign)):
            tg = st.targets[0] if isinstance(st, ast.Assign) else st.target
            d = T.dotted(tg)
            if d in ("self.only_border", "self.flag_corners", "self.corner_order", "self.compute_feature_graph"):
                stored[d[5:]] = ast.unparse(st.value) if st.value is not None else None
    for k in ("only_border", "flag_corners", "corner_order", "compute_feature_graph"):
        if stored.get(k) != k:
            raise TranslationError("%s: __init__ does not store option %s under its own name (found %r)" % (FEAT, k, stored.get(k)))
    if not isinstance(dv[0], bool) or not isinstance(dv[1], bool) or isinstance(dv[2], bool) or not isinstance(dv[3], bool):
        T.fail(FEAT, init, "types of the option defaults changed: %r" % (dv,))
    out.append("Definition det_default_only_border : bool := %s." % ("true" if dv[0] else "false"))
    out.append("Definition det_default_flag_corners : bool := %s." % ("true" if dv[1] else "false"))
    out.append("Definition det_default_corner_order : Z := %d." % dv[2])
    out.append("Definition det_default_graph : bool := %s." % ("true" if dv[3] else "false"))
    # detect(mesh) is run(mesh)
    det = T.find_def(tree, cls + ".detect", FEAT)
    check_decorators(det, FEAT, [])
    if [a.arg for a in det.args.args] != ["self", "mesh"] or det.args.defaults:
        T.fail(FEAT, det, "detect is not (self, mesh)")
    match_lines(FEAT, "detect", canon_fn(det, FEAT), "v0.run(v1)")

    # clear
    match_lines(FEAT, "clear", canon_fn(fn_of("clear", ["self"]), FEAT), CLEAR_T)
    # border pass (no only_border short-cut: the border is always a feature)
    match_lines(FEAT, "_add_border_to_features",
                canon_fn(fn_of("_add_border_to_features", ["self", "mesh", "feature_attr"]), FEAT), BORDER_PASS_T)
    out.append("Definition border_skip (only_border : bool) : bool := false.")
    # hard pass
    W = "_add_hard_edges_to_features"
    h = match_lines(FEAT, W, canon_fn(fn_of(W, ["self", "mesh", "feature_attr"]), FEAT), HARD_T)
    e = Ex(FEAT, W, {"v0.only_border": ("B", "only_border")})
    out.append("Definition hard_skip (only_border : bool) : bool := %s." % e.b(e.parse(h["skip"])))
    e = Ex(FEAT, W, {"v7 is None": ("B", "t1none"), "v8 is None": ("B", "t2none")})
    out.append("Definition hard_missing (t1none t2none : bool) : bool := %s." % e.b(e.parse(h["missing"])))
    thr = Ex(FEAT, W, {}).q(Ex(FEAT, W, {}).parse(h["thr"]))
    e = Ex(FEAT, W, {"geometry.dot(v9, v10)": ("Q", "d"), "geometry.dot(v10, v9)": ("Q", "d"), "v3": ("Q", thr),
                     "v1.is_edge_on_border(*v1.edges[v4])": ("B", "onb"), "v1.is_edge_on_border(v5, v6)": ("B", "onb"),
                     "v1.is_edge_on_border(v6, v5)": ("B", "onb")})
    out.append("Definition hard_test (d : Q) (onb : bool) : bool := %s." % e.b(e.parse(h["test"]), "Q"))
    out.append("Definition hard_bound : Q := %s." % dot_bound(e, h["test"], W))
    # sharp pass
    W = "_add_sharp_angles_to_features"
    h = match_lines(FEAT, W, canon_fn(fn_of(W, ["self", "mesh", "feature_attr"]), FEAT), SHARP_T)
    e = Ex(FEAT, W, {"v0.only_border": ("B", "only_border")})
    out.append("Definition sharp_skip (only_border : bool) : bool := %s." % e.b(e.parse(h["skip"])))
    e = Ex(FEAT, W, {"v7 is None": ("B", "t1none"), "v8 is None": ("B", "t2none")})
    out.append("Definition sharp_missing (t1none t2none : bool) : bool := %s." % e.b(e.parse(h["missing"])))
    thr = Ex(FEAT, W, {}).q(Ex(FEAT, W, {}).parse(h["thr"]))
    e = Ex(FEAT, W, {"geometry.dot(v9, v10)": ("Q", "d"), "geometry.dot(v10, v9)": ("Q", "d"), "v3": ("Q", thr)})
    out.append("Definition sharp_test (d : Q) : bool := %s." % e.b(e.parse(h["test"]), "Q"))
    out.append("Definition sharp_bound : Q := %s." % dot_bound(e, h["test"], W))
    # run: order of the passes, containers
    W = "run"
    fn = fn_of("run", ["self", "mesh"])
    lines = canon_fn(drop_logs(fn), FEAT)
    nh = len(RUN_HEAD_T.strip("\n").split("\n"))
    nt = len(RUN_TAIL_T.strip("\n").split("\n"))
    match_lines(FEAT, W, lines[:nh], RUN_HEAD_T)
    match_lines(FEAT, W, lines[-nt:], RUN_TAIL_T)
    order = []
    for l in lines[nh:-nt]:
        m = re.fullmatch(r"v3 = v0\.(\w+)\(v1, v3\)", l)
        if not m or m.group(1) not in PASSES:
            raise TranslationError("%s: run: `%s` is not one of the three feature passes" % (FEAT, l))
        order.append(PASSES[m.group(1)])
    out.append("Definition pass_order : list pass := [%s]." % "; ".join(order))
    # corners
    W = "_flag_corners"
    h = match_lines(FEAT, W, canon_fn(fn_of(W, ["self", "mesh"]), FEAT), CORNERS_T)
    pi_ok = False
    for n in tree.body:
        if isinstance(n, ast.ImportFrom) and n.module == "math" and any(a.name == "pi" and a.asname is None for a in n.names):
            pi_ok = True
    if not pi_ok:
        raise TranslationError(FEAT + ": `from math import pi` not found")
    # angles are measured in units of pi: the symbol pi is the rational 1, the angle sum v4 is h*pi
    env = {"v4": ("Q", "h"), "pi": ("Q", "(1 # 1)"), "v0.corner_order": ("Q", "(inject_Z order)")}
    e = Ex(FEAT, W, env)
    out.append("Definition corner_small (h : Q) (order : Z) : bool := %s." % e.b(e.parse(h["small"]), "Q"))
    out.append("Definition corner_small_value (h : Q) : Z := %s." % e.z(e.parse(h["small_value"])))
    out.append("Definition corner_value (h : Q) (order : Z) : Z := %s." % e.z(e.parse(h["value"])))
    return out


def gen():
    parts = []
    b = gen_border(parts)
    f = gen_features(parts)
    text = T.header("C15: walk step, loop bookkeeping and index plumbing of border.py; thresholds, comparisons, "
                    "short-cuts and pass order of features.py", parts)
    text += """From Coq Require Import ZArith List Bool QArith Qabs.
Import ListNotations.
Require Import MV.C15.Prelude.
Local Open Scope Z_scope.

(* ---- border.py *)
""" + "\n".join(b) + "\n\n(* ---- features.py *)\n" + "\n".join(f) + "\n"
    return {"C15/Gen.v": text}
