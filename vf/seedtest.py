"""Validate a seeded mutation and run the property's check against it.

usage: python -m vf.seedtest <PID> <dir with patch.diff demo.py [note.md]> <name> [--tier quick] [--keep]

Steps (all in a scratch worktree of /repo's HEAD, never in /repo itself):
  1. demo.py on the pristine tree must exit 0;   2. `git apply patch.diff`;   3. demo.py must now exit != 0;
  4. the test-suite must fail exactly where the pristine tree fails (baseline cached per HEAD);
  5. VERIF_REPO=<worktree> ./check PID  -> detected iff exit 1 and a VIOLATION line.
On success of 1-4 the change is stored as /verif/seeded/<PID>-<name>/ {patch.diff, demo.py, note.md, meta.json}.
"""
import json
import os
import re
import shutil
import subprocess
import sys
import time

from . import core

PY = core.PY
SCR = "/tmp/seedtest"


def sh(cmd, cwd=None, env=None, timeout=3600):
    e = dict(os.environ)
    if env:
        e.update(env)
    p = subprocess.run(cmd, shell=True, cwd=cwd, env=e, stdout=subprocess.PIPE, stderr=subprocess.STDOUT, text=True, timeout=timeout)
    return p.returncode, p.stdout


def suite_failures(wt):
    rc, out = sh("PYTHONPATH=%s %s -m pytest -q -p no:cacheprovider --timeout=900 -rfE tests 2>&1 | tail -60" % (wt, PY), cwd=wt)
    fails = sorted(set(re.findall(r"^(?:FAILED|ERROR) (\S+)", out, re.M)))
    summary = [l for l in out.splitlines() if re.search(r"\d+ (passed|failed)", l)]
    return fails, (summary[-1] if summary else out[-300:])


def main():
    pid, src, name = sys.argv[1], sys.argv[2], sys.argv[3]
    tier = "quick"
    if "--tier" in sys.argv:
        tier = sys.argv[sys.argv.index("--tier") + 1]
    skip_suite = "--skip-suite" in sys.argv
    os.makedirs(SCR, exist_ok=True)
    head = sh("git -C /repo rev-parse --short HEAD")[1].strip()
    wt = os.path.join(SCR, "wt-%s-%s" % (pid, name))
    sh("git -C /repo worktree remove --force %s" % wt)
    shutil.rmtree(wt, ignore_errors=True)
    rc, out = sh("git -C /repo worktree add --detach %s HEAD" % wt)
    if rc != 0:
        print(out)
        sys.exit(2)
    meta = {"property": pid, "name": name, "repo_head": head, "ran": []}
    try:
        demo = os.path.join(src, "demo.py")
        env = {"PYTHONPATH": wt, "PYTHONHASHSEED": "0"}
        rc0, out0 = sh("timeout 300 %s %s" % (PY, demo), cwd=wt, env=env)
        meta["demo_pristine_exit"] = rc0
        meta["ran"].append("PYTHONPATH=<worktree> python demo.py   (pristine) -> exit %d" % rc0)
        rc, out = sh("git apply %s" % os.path.join(src, "patch.diff"), cwd=wt)
        if rc != 0:
            print("patch does not apply:", out)
            meta["applies"] = False
            print(json.dumps(meta, indent=1))
            sys.exit(2)
        meta["applies"] = True
        rc1, out1 = sh("timeout 300 %s %s" % (PY, demo), cwd=wt, env=env)
        meta["demo_patched_exit"] = rc1
        meta["demo_patched_output"] = out1[-600:]
        meta["ran"].append("git apply patch.diff; python demo.py -> exit %d" % rc1)
        if not skip_suite:
            bfile = os.path.join(SCR, "baseline-%s.json" % head)
            base = None
            if os.path.exists(bfile):
                base = json.load(open(bfile))
                if "passed" not in base.get("summary", ""):
                    base = None
            if base is None:
                wt0 = os.path.join(SCR, "wt-baseline-%d" % os.getpid())
                sh("git -C /repo worktree remove --force %s" % wt0)
                sh("git -C /repo worktree add --detach %s HEAD" % wt0)
                f0, s0 = suite_failures(wt0)
                base = {"failures": f0, "summary": s0}
                if "passed" in s0:
                    json.dump(base, open(bfile, "w"))
                sh("git -C /repo worktree remove --force %s" % wt0)
            f1, s1 = suite_failures(wt)
            meta["suite_pristine"] = base["summary"]
            meta["suite_patched"] = s1
            meta["suite_new_failures"] = sorted(set(f1) - set(base["failures"]))
            meta["ran"].append("pytest tests (patched): %s ; new failures: %s" % (s1, meta["suite_new_failures"]))
        t0 = time.time()
        rc2, out2 = sh("./check %s --tier %s" % (pid, tier), cwd=core.ROOT, env={"VERIF_REPO": wt}, timeout=3600)
        viol = [l for l in out2.splitlines() if l.startswith("VIOLATION")]
        meta["check_exit"] = rc2
        meta["check_violation_lines"] = viol[:5]
        meta["check_detail"] = [l for l in out2.splitlines() if l.strip().startswith("->")][:5]
        meta["check_wall_s"] = round(time.time() - t0, 1)
        meta["detected"] = bool(rc2 == 1 and viol)
        meta["concrete_replay"] = bool(viol) and not all("no-failing-input-found" in v for v in viol)
        meta["ran"].append("VERIF_REPO=<worktree with patch> ./check %s --tier %s -> exit %d, %d VIOLATION line(s)" % (pid, tier, rc2, len(viol)))
        for v in viol[:3]:
            m = re.search(r"replay=(\S+)", v)
            if m and os.path.exists(m.group(1)):
                meta.setdefault("replays", []).append(json.load(open(m.group(1))).get("what", "")[:300])
        valid = rc0 == 0 and rc1 != 0 and (skip_suite or not meta.get("suite_new_failures"))
        meta["valid_seed"] = valid
        print(out2[-1500:])
        print(json.dumps({k: v for k, v in meta.items() if k not in ("demo_patched_output",)}, indent=1))
        if valid:
            dst = os.path.join(core.ROOT, "seeded", "%s-%s" % (pid, name))
            os.makedirs(dst, exist_ok=True)
            for f in ("patch.diff", "demo.py", "note.md"):
                if os.path.exists(os.path.join(src, f)) and os.path.realpath(src) != os.path.realpath(dst):
                    shutil.copy(os.path.join(src, f), os.path.join(dst, f))
            oldp = os.path.join(dst, "meta.json")
            if skip_suite and os.path.exists(oldp):  # a re-test keeps the suite result (and cross-checks) of the validation run
                old = json.load(open(oldp))
                for k in ("suite_pristine", "suite_patched", "suite_new_failures", "cross_check"):
                    if k in old and k not in meta:
                        meta[k] = old[k]
                meta["first_pass_detected"] = old.get("first_pass_detected", old.get("detected"))
            note = os.path.join(src, "note.md")
            meta["breaks"] = pid
            meta["needs_to_manifest"] = open(note).read()[:1500] if os.path.exists(note) else ""
            json.dump(meta, open(os.path.join(dst, "meta.json"), "w"), indent=1)
    finally:
        if "--keep" not in sys.argv:
            sh("git -C /repo worktree remove --force %s" % wt)
            shutil.rmtree(wt, ignore_errors=True)
        # put the generated model back in line with /repo itself
        try:
            import importlib
            mod = importlib.import_module("vf.props." + pid)
            if hasattr(mod, "gen"):
                os.environ["VERIF_REPO"] = "/repo"
                core.REPO = "/repo"
                ctx = core.Ctx(pid)
                ctx.regen(mod)
                # rebuild the cone from /repo's model so that no .vo compiled against the mutant's Gen.v stays behind
                ctx.make(["theories/%s/Props.vo" % pid])
                shutil.rmtree(ctx.casedir, ignore_errors=True)
        except Exception as ex:  # noqa
            print("could not restore generated model:", ex)


if __name__ == "__main__":
    main()
