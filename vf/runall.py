"""Run every registered check (MANIFEST.json) and summarise: python -m vf.runall [--tier quick] [--jobs 3] [ids...]"""
import concurrent.futures as cf
import json
import os
import subprocess
import sys
import time

from . import core


def one(pid, tier):
    t0 = time.time()
    p = subprocess.run(["./check", pid, "--tier", tier], cwd=core.ROOT, stdout=subprocess.PIPE, stderr=subprocess.STDOUT, text=True)
    out = p.stdout
    open(os.path.join(core.ROOT, "runall-%s.log" % pid), "w").write(out)
    viol = [l for l in out.splitlines() if l.startswith("VIOLATION")]
    known = [l for l in out.splitlines() if l.startswith("KNOWN-FINDING")]
    last = [l for l in out.splitlines() if "obligations" in l and "discharged" in l]
    return pid, p.returncode, time.time() - t0, viol, known, (last[-1] if last else out[-200:])


def main():
    args = sys.argv[1:]
    tier = "quick"
    jobs = 3
    if "--tier" in args:
        i = args.index("--tier"); tier = args[i + 1]; del args[i:i + 2]
    if "--jobs" in args:
        i = args.index("--jobs"); jobs = int(args[i + 1]); del args[i:i + 2]
    man = json.load(open(os.path.join(core.ROOT, "MANIFEST.json")))
    ids = args or [c["property_id"] for c in man["checks"]]
    bad = 0
    with cf.ThreadPoolExecutor(max_workers=jobs) as ex:
        for pid, rc, dt, viol, known, last in ex.map(lambda p: one(p, tier), ids):
            print("%s rc=%d %.0fs viol=%d known=%d | %s" % (pid, rc, dt, len(viol), len(known), last.strip()[-150:]), flush=True)
            for v in viol[:3]:
                print("    " + v)
            bad += rc != 0
    sys.exit(1 if bad else 0)


if __name__ == "__main__":
    main()
