"""Regenerate every Gen*.v from /repo, regenerate _CoqProject/Makefile, build everything."""
import importlib
import os
import pkgutil
import sys

from . import core
from . import props as P


def main():
    ok = True
    with core.CoqLock():
        for m in sorted(x.name for x in pkgutil.iter_modules(P.__path__)):
            mod = importlib.import_module("vf.props." + m)
            if hasattr(mod, "gen"):
                ctx = core.Ctx(m)
                try:
                    for p, t in mod.gen(ctx).items():
                        core.write_if_changed(os.path.join(core.TH, p), t)
                except Exception as ex:
                    print("setup: cannot regenerate model for %s: %r" % (m, ex))
                    ok = False
        core.mkproject()
        rc, out = core.sh("timeout 3000 make -j%d -k" % core.NCPU, cwd=core.COQ, timeout=3100)
    print(core.tail(out, 40))
    if rc != 0 or not ok:
        print("setup: some files did not build (each check rebuilds and reports its own targets)")
    sys.exit(0)


if __name__ == "__main__":
    main()
