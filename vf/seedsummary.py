"""Table of validated seeded mutations and whether the check caught each: python -m vf.seedsummary [--md]"""
import json
import os
import sys

from . import core


def main():
    d = os.path.join(core.ROOT, "seeded")
    rows = []
    for n in sorted(os.listdir(d)):
        p = os.path.join(d, n, "meta.json")
        if not os.path.exists(p):
            continue
        m = json.load(open(p))
        first = ""
        try:
            note = open(os.path.join(d, n, "note.md")).read().strip().splitlines()
            first = next((l for l in note if l.strip() and not l.startswith("#")), "")[:110]
        except OSError:
            pass
        rows.append((n, "valid" if m.get("valid_seed") else "INVALID",
                     "DETECTED" if m.get("detected") else "MISSED",
                     "concrete replay" if m.get("concrete_replay") else ("no-failing-input-found" if m.get("detected") else "-"),
                     m.get("check_wall_s"), (m.get("replays") or [first])[0][:120].replace("|", "/")))
    md = "--md" in sys.argv
    for r in rows:
        print(("| %s | %s | %s | %s | %s | %s |" if md else "%-8s %-7s %-8s %-24s %6s  %s") % r)
    det = sum(1 for r in rows if r[2] == "DETECTED")
    print("%d seeds, %d detected, %d missed" % (len(rows), det, len(rows) - det))


if __name__ == "__main__":
    main()
