import subprocess, sys, os, json, time
WT = "/tmp/wt-C10"
T = "mouette/processing/trees/"
MUTS = [
 ("M1 edge BFS popleft->pop", T+"edge_sp.py", "            v,nv = queue.popleft()", "            v,nv = queue.pop()"),
 ("M2 _avoid_edge: or->and", T+"edge_sp.py", "if not self._avoidbound or isinstance(self.mesh, PolyLine):\n            return False", "if not self._avoidbound and isinstance(self.mesh, PolyLine):\n            return False"),
 ("M3 face: 'not in forbidden' -> 'in forbidden'", T+"face_sp.py", "if e not in self.forbidden_edges:", "if e in self.forbidden_edges:"),
 ("M4 cell: forbidden-face guard dropped", T+"cell_sp.py", "                if F in self.forbidden_faces: continue\n", ""),
 ("M5 kruskal: sort reverse=True", T+"edge_sp.py", "edges.sort(key = lambda e : edge_length(e))", "edges.sort(key = lambda e : edge_length(e), reverse=True)"),
 ("M6 kruskal: accept iff connected", T+"edge_sp.py", "if not uf.connected(a,b):", "if uf.connected(a,b):"),
 ("M7 face forest does not forward forbidden_edges", T+"face_sp.py", "FaceSpanningTree(self.mesh, f, self.forbidden_edges)()", "FaceSpanningTree(self.mesh, f)()"),
 ("M8 traverse: BFS/DFS pop sides swapped", "mouette/processing/trees/base.py", "if isBFS: return queue.popleft()\n            return queue.pop()", "if isBFS: return queue.pop()\n            return queue.popleft()"),
 ("M9 edge: children[v].append(p) (swapped)", T+"edge_sp.py", "self.children[p].append(v)", "self.children[v].append(p)"),
 ("M10 kruskal weights: 'one' gives custom weights branch swapped", T+"edge_sp.py", "edge_length = lambda e : _edge_length[e]", "edge_length = lambda e : -_edge_length[e]"),
 ("M11 cell BFS: parent[nc] = nc (wrong index)", T+"cell_sp.py", "self.parent[nc] = c", "self.parent[c] = nc"),
 ("H1 harmless: rename local nv->w in edge BFS", T+"edge_sp.py", None, None),
 ("H2 harmless: reorder root initialisation", T+"edge_sp.py", "        dist_to_root[self.root] = 0\n        seen[self.root] = True\n\n        while len(queue)>0:\n            v,nv", "        seen[self.root] = True\n        dist_to_root[self.root] = 0\n\n        while len(queue)>0:\n            v,nv"),
 ("H3 harmless: while len(queue) in edge BFS", T+"edge_sp.py", "        while len(queue)>0:\n            v,nv = queue.popleft()", "        while len(queue):\n            v,nv = queue.popleft()"),
]
sel = sys.argv[1:]
out = open("/verif/vf/dev/c10_mutation_results.txt", "a")
for name, rel, a, b in MUTS:
    if sel and not any(name.startswith(s) for s in sel):
        continue
    path = os.path.join(WT, rel)
    orig = open(path).read()
    if name.startswith("H1"):
        seg_a = orig.index("    def compute(self):")
        seg_b = orig.index("    def build_tree_as_polyline")
        body = orig[seg_a:seg_b]
        import re
        body2 = re.sub(r"\bnv\b", "w", body)
        new = orig[:seg_a] + body2 + orig[seg_b:]
    else:
        assert orig.count(a) == 1, (name, orig.count(a))
        new = orig.replace(a, b)
    open(path, "w").write(new)
    t0 = time.time()
    try:
        p = subprocess.run(["/verif/check", "C10"], env=dict(os.environ, VERIF_REPO=WT), stdout=subprocess.PIPE, stderr=subprocess.STDOUT, text=True, timeout=2400)
        lines = [l for l in p.stdout.splitlines() if "WARNING conda" not in l]
        viol = [l for l in lines if l.startswith("VIOLATION")]
        what = [l for l in lines if "  ->" in l]
        broken = [l for l in lines if "FAILED" in l or "TRANSLATION" in l]
        summary = lines[-1] if lines else ""
        rc = p.returncode
    except subprocess.TimeoutExpired:
        viol, what, broken, summary, rc = [], [], [], "TIMEOUT", -1
    finally:
        open(path, "w").write(orig)
    rec = "== %s\n   rc=%s  violations=%d  %.0fs\n   %s\n   %s\n   %s\n" % (name, rc, len(viol), time.time()-t0, " | ".join(broken)[:300], " || ".join(w.split("->",1)[1].strip()[:160] for w in what[:3]), summary)
    print(rec, flush=True)
    out.write(rec); out.flush()
