"""Developer utility (not used at run time): rebuild coq/theories/C14/Props.v from the statements of the bundled
lemmas in ProofsAll.v, so that every property theorem is spelled out in Props.v and closed by `exact <lemma>`."""
import os
HERE = os.path.dirname(os.path.dirname(os.path.dirname(os.path.abspath(__file__))))
TH = os.environ.get("C14_TH") or os.path.join(HERE, "coq", "theories", "C14")
s = open(os.path.join(TH, "ProofsAll.v")).read()


def stmt(name):
    i = s.index("Lemma %s" % name)
    j = s.index("\nProof.", i)
    return s[i + len("Lemma %s" % name):j]


old = open(os.path.join(TH, "Props.v")).read()
hdr = old[:old.index("Theorem C14_")]
items = [("C14_rejects", "all_rejects"), ("C14_well_formed", "all_well_formed"), ("C14_counts", "all_counts"), ("C14_topology", "all_topology"),
         ("C14_vertex_manifold", "all_vertex_manifold"),
         ("C14_tables", "all_tables"), ("C14_table_counts", "all_table_counts"),
         ("C14_params_honoured", "all_switches"), ("C14_ring_apex_defect", "ring_apex"), ("C14_ring_defect_clamped", "ring_clamp_range"),
         ("C14_on_surface", "all_on_surface"),
         ("C14_unit_triangle_counts", "tri_counts_all"), ("C14_flat_ring_apex_defect", "flat_ring_apex"),
         ("C14_ring_triangles_congruent", "ring_congruent"), ("C14_ring_apex_defect_geometric", "ring_apex_geo"), ("C14_sphere_uv_latitudes", "sphere_latitudes"), ("C14_rotation_helpers", "rotation_helpers")]
out = hdr
for thm, lem in items:
    out += "Theorem %s%s\nProof. exact %s. Qed.\nPrint Assumptions %s.\n\n" % (thm, stmt(lem), lem, thm)
i = s.index("Lemma runtime_checker_sound V F :")
j = s.index("\nProof.", i)
body = s[i + len("Lemma runtime_checker_sound V F :"):j]
out += "Theorem C14_runtime_checker_sound : forall V F,%s\nProof. exact runtime_checker_sound. Qed.\nPrint Assumptions C14_runtime_checker_sound.\n" % body
open(os.path.join(TH, "Props.v"), "w").write(out)
print("Props.v rewritten")
