(* C18 - the pipeline-level statements assembled from Proofs_Herm / Proofs_Opt / Proofs_Cstr / Proofs_Index: exactly the
   terms Props.v exports.  Over an arbitrary field with Leibniz equality; the named laws are bundled in `laws`. *)
From Coq Require Import ZArith List Bool Ring Field Lia.
Import ListNotations.
Require Import MV.Lib.Base MV.C18.Ops MV.C18.Gen MV.C18.Model.
Require Import MV.C18.Proofs_Herm MV.C18.Proofs_Opt MV.C18.Proofs_Cstr MV.C18.Proofs_Index MV.C18.Proofs_Range.
Open Scope Z_scope.

(* the laws the theorems need beyond the field axioms (all hold in R: Examples.v) *)
Record laws {T : Type} (O : ops T) : Prop := mklaws {
  l_field : field_theory (o0 O) (o1 O) (oadd O) (omul O) (osub O) (oopp O) (odiv O) (oinv O) eq;
  (* sqrt is a square root on sums of two squares *)
  l_sqrt : forall a b : T, omul O (osqrt O (oadd O (omul O a a) (omul O b b))) (osqrt O (oadd O (omul O a a) (omul O b b)))
                           = oadd O (omul O a a) (omul O b b);
  l_sqrt1 : osqrt O (o1 O) = o1 O;
  (* the two normalisation thresholds are not below zero *)
  l_thr : oltb O (oofQ O norm_thr) (o0 O) = false;
  l_thr_v : oltb O (oofQ O cstrv_norm_thr) (o0 O) = false
}.

Section Main.
Variable T : Type.
Variable O : ops T.
Hypothesis LW : laws O.
Let Fth := l_field O LW.
Let Rth := F_R Fth.
Add Field FieldT : Fth.

Notation cx := (cx T).
Notation cmat := (cmat T).

Lemma cnorm2_c1 : cnorm2 O (c1 O) = o1 O.
Proof. unfold cnorm2, c1. cbn [fst snd]. ring. Qed.

(* ================================================================== hermitian / flat *)
Theorem hermitian_all :
  (forall (order : nat) (D : option (list T)) (tr : Z * edge * Z * Z -> cx * cx) (P : list (Z * edge * Z * Z)),
      herm T O (lap_faces_gen O order D tr P)) /\
  (forall (order : nat) (wf : Z * face -> T * T * T) (tr : Z -> Z -> cx) (F : list face),
      herm T O (lap_vertices_gen O order wf tr F)).
Proof. split; [exact (lap_faces_gen_herm T O Rth) | exact (lap_vertices_gen_herm T O Rth)]. Qed.

(* ================================================================== unit modulus *)
Theorem unit_all :
  (* normalize: every element whose modulus passes the guard ends with modulus 1 *)
  (forall z : cx, norm_guard O (cabs O z) = true -> cnorm2 O (norm_elem O z) = o1 O) /\
  (* the whole bordered pipeline (any solver, any smoothing steps, any number of them): element i of the result has
     modulus 1 as soon as the value it holds before the final normalisation passes the guard *)
  (forall solve smooth er rhs sg n_smooth L var0 free fixed i,
      er && isnil free = false ->
      norm_guard O (cabs O (opt_pre O solve smooth rhs sg n_smooth L var0 free fixed i)) = true ->
      cnorm2 O (opt_bordered O solve smooth er rhs sg n_smooth L var0 free fixed i) = o1 O).
Proof.
  split.
  - exact (norm_elem_unit_modulus T O Fth (l_sqrt O LW) (l_thr O LW)).
  - intros. apply (opt_unit T O Fth (l_sqrt O LW) (l_thr O LW)); assumption.
Qed.

(* ================================================================== constraints *)
Lemma write_implies_fixed order V F E FE t :
  (exists kv, In kv (init_faces_writes O order V F E FE) /\ fst kv = t) -> fixed_face F E FE t = true.
Proof.
  intros [kv [Hin Hk]]. unfold init_faces_writes in Hin. apply in_flat_map in Hin. destruct Hin as [e [HeFE Hw]].
  unfold fixed_face. apply existsb_exists. exists e. split; [exact HeFE |].
  unfold cstrf_writes in Hw. destruct (znth E e (0, 0)) as [e1 e2].
  apply in_flat_map in Hw. destruct Hw as [ot [Hot Hw]].
  destruct ot as [tf |]; [| destruct Hw].
  destruct (bnth O (conn_bases O V F E FE) tf) as [X Y]. destruct Hw as [Hw | []]. subst kv. cbn [fst] in Hk. subst tf.
  unfold optf_fix_direct, optf_fix_indirect. cbn [andb].
  destruct Hot as [Hot | [Hot | []]]; rewrite Hot, Z.eqb_refl; [reflexivity | apply orb_true_r].
Qed.

Section Pipe.
Variable solve : cmat -> list Z -> (Z -> cx) -> (Z -> cx).
Variable smooth : (Z -> cx) -> (Z -> cx).

(* the face-based pipeline as a function of the face index *)
Definition ff_faces_fn (order n_smooth : nat) (D : option (list T)) V F E FE : Z -> cx :=
  let n := zlen F in let fb := fixed_face F E FE in
  opt_bordered O solve smooth true (optf_rhs O) optf_smooth_guard n_smooth (lap_faces O order D V F E FE)
               (init_faces O order V F E FE) (part_free n fb) (part_fixed n fb).
Definition ff_vertices_fn (smooth_normals : bool) (order n_smooth : nat) cots trs Bv (V : list (vec T)) F E FE : Z -> cx :=
  let n := zlen V in let fb := feature_vertex E FE in
  opt_bordered O solve smooth false (optv_rhs O) optv_smooth_guard n_smooth (lap_vertices O order cots trs F)
               (init_vertices O smooth_normals order V E Bv (tr_lookup O trs) FE) (part_free n fb) (part_fixed n fb).
Lemma ff_faces_is_map order n_smooth D V F E FE :
  ff_faces O solve smooth order n_smooth D V F E FE = map (ff_faces_fn order n_smooth D V F E FE) (zrange (zlen F)).
Proof. reflexivity. Qed.
Lemma ff_vertices_is_map sn order n_smooth cots trs Bv V F E FE :
  ff_vertices O solve smooth sn order n_smooth cots trs Bv V F E FE
  = map (ff_vertices_fn sn order n_smooth cots trs Bv V F E FE) (zrange (zlen V)).
Proof. reflexivity. Qed.

(* Face t, rotated by the connection to (A, B, C); every constraint write that lands on t comes from the stored edge
   (A, B) or (B, A) and there is one: t has exactly one feature edge, A-B.  s = |pB - pA| is the non-negative root of
   its square.  Then for EVERY order, smoothing count, solver answer: the frame of t is c1 = X_t ^ order, i.e. its
   branch 0 is the unit vector X_t = (pB - pA)/|pB - pA| along the feature edge. *)
Theorem constraint_faces (order n_smooth : nat) D V F E FE (t A B C : Z) :
  (0 <= t < zlen F)%Z ->
  conn_face E FE (znth F t ((0, 0, 0)%Z : face)) = (A, B, C) ->
  let d := vsub O (vnth O V B) (vnth O V A) in
  let s := vnorm O d in
  omul O s s = vdot O d d -> s <> o0 O -> osqrt O (omul O s s) = s ->
  (forall e, In e FE -> forall kv, In kv (cstrf_writes O order V F E (conn_bases O V F E FE) e) -> fst kv = t ->
             znth E e (0, 0)%Z = (A, B) \/ znth E e (0, 0)%Z = (B, A)) ->
  (exists kv, In kv (init_faces_writes O order V F E FE) /\ fst kv = t) ->
  init_faces O order V F E FE t = c1 O /\
  ff_faces_fn order n_smooth D V F E FE t = c1 O /\
  cpow O (c1 O) order = c1 O /\
  fst (conn_base O V E FE (znth F t ((0, 0, 0)%Z : face))) = vdivs O d s.
Proof.
  intros Ht Hcf d s Hs Hs0 Hss Hone Hex.
  assert (Hinit : init_faces O order V F E FE t = c1 O)
    by (apply (init_faces_one_edge T O Fth order V F E FE t A B C Ht Hcf Hs Hs0 Hss Hone Hex)).
  split; [exact Hinit |]. split; [| split].
  - unfold ff_faces_fn. transitivity (init_faces O order V F E FE t); [| exact Hinit].
    apply (opt_constraint_kept T O Fth (l_sqrt1 O LW)).
    + unfold part_free. rewrite memZ_filter. rewrite (write_implies_fixed order V F E FE t Hex). cbn [negb]. apply andb_false_r.
    + rewrite Hinit. apply cnorm2_c1.
  - apply (cpow_c1 T O Rth).
  - unfold conn_base. rewrite Hcf. reflexivity.
Qed.

(* any pipeline, any element outside the free set: the result is the constraint after k+1 normalisations (k the number
   of smoothing steps performed); a unit constraint is kept exactly *)
Theorem constraint_kept er rhs sg n_smooth L var0 free fixed (i : Z) :
  memZ i free = false ->
  (er && isnil free = false ->
   opt_bordered O solve smooth er rhs sg n_smooth L var0 free fixed i
   = norm_elem O (if sg (Z.of_nat n_smooth) then iter_norm T O n_smooth (var0 i) else var0 i)) /\
  (cnorm2 O (var0 i) = o1 O -> opt_bordered O solve smooth er rhs sg n_smooth L var0 free fixed i = var0 i).
Proof.
  intros Hi. split.
  - intros He. unfold opt_bordered. rewrite He. unfold normalize_fn.
    rewrite (opt_pre_fixed T O solve smooth rhs sg n_smooth L var0 free fixed i Hi). reflexivity.
  - intros Hu. apply (opt_constraint_kept T O Fth (l_sqrt1 O LW)); assumption.
Qed.

(* vertex-based field: a feature vertex whose accumulated constraint passes the 1e-8 guard is initialised with modulus
   1 and keeps that value through optimize *)
Theorem constraint_vertices (sn : bool) (order n_smooth : nat) cots trs Bv (V : list (vec T)) F E FE (v : Z) :
  (0 <= v < zlen V)%Z ->
  feature_vertex E FE v = true ->
  cstrv_norm_guard O (cabs O (init_vertices_acc O sn order V E Bv (tr_lookup O trs) FE v)) = true ->
  cnorm2 O (init_vertices O sn order V E Bv (tr_lookup O trs) FE v) = o1 O /\
  ff_vertices_fn sn order n_smooth cots trs Bv V F E FE v = init_vertices O sn order V E Bv (tr_lookup O trs) FE v.
Proof.
  intros Hv Hf Hg.
  assert (Hu : cnorm2 O (init_vertices O sn order V E Bv (tr_lookup O trs) FE v) = o1 O).
  { unfold init_vertices. rewrite Hf, Hg. cbn [andb].
    set (z := init_vertices_acc O sn order V E Bv (tr_lookup O trs) FE v) in *.
    assert (Hnz : cabs O z <> o0 O).
    { intros E0. unfold cstrv_norm_guard in Hg. rewrite E0, (l_thr_v O LW) in Hg. discriminate. }
    pose proof (cabs_sq T O (l_sqrt O LW) z) as Hq.
    set (s := cabs O z) in *. unfold cdivr, cnorm2 in *. cbn [fst snd].
    transitivity (odiv O (oadd O (omul O (fst z) (fst z)) (omul O (snd z) (snd z))) (omul O s s)); [field; exact Hnz |].
    rewrite <- Hq. field. exact Hnz. }
  split; [exact Hu |].
  unfold ff_vertices_fn. apply (opt_constraint_kept T O Fth (l_sqrt1 O LW)); [| exact Hu].
  unfold part_free. rewrite memZ_filter, Hf. cbn [negb]. apply andb_false_r.
Qed.

(* ================================================================== harmonic extension *)
(* For every operator L, constraint var0, free / fixed sets that partition the columns of L, and every solver whose
   answer satisfies  L_II res = - L_IB var0_B  on the free rows: the raw field z (constraint on the fixed set, answer on
   the free set) extends the constraints and is harmonic at every free element, and without smoothing the pipeline
   returns its element-wise normalisation. *)
Theorem harmonic_extension_all er rhs sg n_smooth (L : cmat) var0 free fixed :
  (forall w, rhs w = cneg O w) ->
  partitioned T L free fixed ->
  solves T O rhs L var0 free fixed (solve L free (opt_rhs_fn O rhs L fixed var0)) ->
  let z := opt_first O solve rhs L var0 free fixed in
  (forall j, memZ j free = false -> z j = var0 j) /\
  (forall i, memZ i free = true -> mrow_dot O L i z = c0 O) /\
  (sg (Z.of_nat n_smooth) = false -> er && isnil free = false ->
   forall i, opt_bordered O solve smooth er rhs sg n_smooth L var0 free fixed i = norm_elem O (z i)).
Proof. intros Hr Hp Hs. exact (harmonic_extension T O Fth solve smooth er rhs sg n_smooth L var0 free fixed Hr Hp Hs). Qed.

(* the two pipelines use exactly this: the generated right-hand sides are -valB, the smoothing guard is off for
   n_smooth = 0, and the code's partition splits the columns of any operator whose column indices are in range *)
Theorem harmonic_extension_instances :
  (forall w, optf_rhs O w = cneg O w) /\ (forall w, optv_rhs O w = cneg O w) /\
  optf_smooth_guard (Z.of_nat 0) = false /\ optv_smooth_guard (Z.of_nat 0) = false /\
  (forall (n : Z) (fb : Z -> bool) (M : cmat),
      (forall a b v, In (a, b, v) M -> (0 <= b < n)%Z) ->
      partitioned T M (part_free n fb) (part_fixed n fb)).
Proof.
  repeat split; try reflexivity.
  intros n fb M Hr a b v Hin. eapply partition_spec; eassumption.
Qed.

(* ---- the two pipelines as they are (n_smooth = 0): for EVERY solver whose answer satisfies the system assembled from the
   model's own operator, constraints and partition, the result is the normalised harmonic extension of the constraints *)
Theorem harmonic_faces (order : nat) D V F E FE :
  let n := zlen F in let fb := fixed_face F E FE in
  let L := lap_faces O order D V F E FE in let var0 := init_faces O order V F E FE in
  let free := part_free n fb in let fixed := part_fixed n fb in
  solves T O (optf_rhs O) L var0 free fixed (solve L free (opt_rhs_fn O (optf_rhs O) L fixed var0)) ->
  let z := opt_first O solve (optf_rhs O) L var0 free fixed in
  (forall j, memZ j free = false -> z j = var0 j) /\
  (forall i, memZ i free = true -> mrow_dot O L i z = c0 O) /\
  (isnil free = false -> forall i, ff_faces_fn order 0 D V F E FE i = norm_elem O (z i)).
Proof.
  intros n fb L var0 free fixed Hs z.
  assert (Hp : partitioned T L free fixed).
  { intros a b v Hin. eapply partition_spec; [| exact Hin]. intros a' b' v' H. exact (lap_faces_cols O order D V F E FE a' b' v' H). }
  destruct (harmonic_extension T O Fth solve smooth true (optf_rhs O) optf_smooth_guard 0 L var0 free fixed
              (fun w => eq_refl) Hp Hs) as [H1 [H2 H3]].
  split; [exact H1 |]. split; [exact H2 |].
  intros Hnil i. apply H3; [reflexivity | rewrite Hnil; reflexivity].
Qed.

Theorem harmonic_vertices (sn : bool) (order : nat) cots trs Bv (V : list (vec T)) F E FE :
  faces_in_range (zlen V) F ->
  let n := zlen V in let fb := feature_vertex E FE in
  let L := lap_vertices O order cots trs F in let var0 := init_vertices O sn order V E Bv (tr_lookup O trs) FE in
  let free := part_free n fb in let fixed := part_fixed n fb in
  solves T O (optv_rhs O) L var0 free fixed (solve L free (opt_rhs_fn O (optv_rhs O) L fixed var0)) ->
  let z := opt_first O solve (optv_rhs O) L var0 free fixed in
  (forall j, memZ j free = false -> z j = var0 j) /\
  (forall i, memZ i free = true -> mrow_dot O L i z = c0 O) /\
  (forall i, ff_vertices_fn sn order 0 cots trs Bv V F E FE i = norm_elem O (z i)).
Proof.
  intros HF n fb L var0 free fixed Hs z.
  assert (Hp : partitioned T L free fixed).
  { intros a b v Hin. eapply partition_spec; [| exact Hin]. intros a' b' v' H. exact (lap_vertices_cols O order cots trs F n a' b' v' HF H). }
  destruct (harmonic_extension T O Fth solve smooth false (optv_rhs O) optv_smooth_guard 0 L var0 free fixed
              (fun w => eq_refl) Hp Hs) as [H1 [H2 H3]].
  split; [exact H1 |]. split; [exact H2 |].
  intros i. apply H3; reflexivity.
Qed.

End Pipe.

(* ================================================================== index sum *)
Theorem index_sum_all (defect rot : Z -> T) (n : Z) (E : list edge) :
  edges_ok n E ->
  (* telescoping, for ANY edge rotations *)
  sumT O (map (vertex_angle O defect E rot) (zrange n)) = sumT O (map defect (zrange n)) /\
  (* stored indices + sub-threshold residue = (sum of defects) * 2 / pi *)
  oadd O (sumT O (map (singul O defect E rot) (zrange n))) (sumT O (map (residue T O defect rot E) (zrange n)))
  = sing_value O (sumT O (map defect (zrange n))) /\
  (* with Gauss-Bonnet: 4 chi *)
  (forall chi : T, opi O <> o0 O -> oofZ O 2 = oadd O (o1 O) (o1 O) ->
     sumT O (map defect (zrange n)) = omul O (omul O (oadd O (o1 O) (o1 O)) (opi O)) chi ->
     oadd O (sumT O (map (singul O defect E rot) (zrange n))) (sumT O (map (residue T O defect rot E) (zrange n)))
     = omul O (omul O (oadd O (o1 O) (o1 O)) (oadd O (o1 O) (o1 O))) chi).
Proof.
  intros Hok. split; [| split].
  - exact (angle_sum T O Fth defect rot n E Hok).
  - exact (index_sum T O Fth defect rot (sing_value_form T O Fth) n E Hok).
  - intros chi Hpi H2 Hgb. exact (index_sum_chi T O Fth defect rot (sing_value_form T O Fth) n E chi Hok Hpi H2 Hgb).
Qed.

End Main.
