(* C18 property theorems only: each closed by `exact <lemma>` with Print Assumptions beneath. *)
From Coq Require Import ZArith List Bool Ring.
Require Import MV.C18.Ops MV.C18.Gen MV.C18.Model MV.C18.Proofs_Herm.

(* The connection Laplacians are Hermitian, L_ij = conj L_ji: on faces (Nabla^* D Nabla, laplacian_triangles) for every
   list of dual edges, every real weights D (or none) and EVERY transport; on vertices (laplacian) for every face list,
   every weights and EVERY transport function.  Any commutative ring. *)
Theorem C18_hermitian :
  forall (T : Type) (O : ops T),
    ring_theory (o0 O) (o1 O) (oadd O) (omul O) (osub O) (oopp O) eq ->
    (forall (order : nat) (D : option (list T)) (tr : Z * edge * Z * Z -> cx T * cx T) (P : list (Z * edge * Z * Z)),
        herm T O (lap_faces_gen O order D tr P)) /\
    (forall (order : nat) (wf : Z * face -> T * T * T) (tr : Z -> Z -> cx T) (F : list face),
        herm T O (lap_vertices_gen O order wf tr F)).
Proof. intros T O R. split; [exact (lap_faces_gen_herm T O R) | exact (lap_vertices_gen_herm T O R)]. Qed.
Print Assumptions C18_hermitian.

(* With a flat connection (trivial transports; on vertices e^{i(a_ij - a_ji - pi)} = 1) the operator is the scalar
   Laplacian the code builds without a connection: the same triplets on faces, the same entries on vertices; its entries
   are real (on faces: d on the diagonal, -d off it, summed over the dual edges). *)
Theorem C18_flat_reduces_to_scalar :
  forall (T : Type) (O : ops T),
    ring_theory (o0 O) (o1 O) (oadd O) (omul O) (osub O) (oopp O) eq ->
    (forall (order : nat) (D : option (list T)) (P : list (Z * edge * Z * Z)),
        lap_faces_gen O order D (fun _ => (c1 O, c1 O)) P = lap_faces_scalar O D P /\
        forall i j, centry O (lap_faces_scalar O D P) i j = cofre O (rentry T O (lap_faces_real T O D P) i j)) /\
    (forall (order : nat) (wf : Z * face -> T * T * T) (tr : Z -> Z -> cx T) (F : list face),
        (forall i j, cmul O (cmul O (tr i j) (cconj O (tr j i))) (cneg O (c1 O)) = c1 O) ->
        forall i j, centry O (lap_vertices_gen O order wf tr F) i j = centry O (lap_vertices_scalar O wf F) i j /\
                    snd (centry O (lap_vertices_scalar O wf F) i j) = o0 O).
Proof.
  intros T O R. split.
  - intros order D P. split; [exact (lap_faces_flat T O R order D P) | exact (lap_faces_scalar_real T O R D P)].
  - intros order wf tr F H i j. split; [exact (lap_vertices_flat T O R order wf tr F H i j) | exact (lap_vertices_scalar_real T O R wf F i j)].
Qed.
Print Assumptions C18_flat_reduces_to_scalar.
