(* C18 property theorems only: each closed by `exact <lemma>` with Print Assumptions beneath.
   T is any type with a bare record of operations O; `ring_theory` / `laws O` (field axioms + three facts about sqrt and
   the thresholds, all true in R: Examples.R_laws) are the only assumptions about the numbers.  Unit complex numbers stand
   for e^{i angle}; nothing transcendental is used.  Solvers are universally quantified functions. *)
From Coq Require Import ZArith List Bool Ring Field QArith Permutation String.
Require Import MV.Lib.Base MV.C18.Ops MV.C18.Gen MV.C18.Model.
Require Import MV.C18.Proofs_Herm MV.C18.Proofs_Opt MV.C18.Proofs_Cstr MV.C18.Proofs_Index MV.C18.Proofs_Main MV.C18.Proofs_Range MV.C18.Proofs_Gauge
  MV.C18.Proofs_Quantum MV.C18.Proofs_GaugeExt MV.C18.Proofs_Stage MV.C18.Proofs_Rot MV.C18.Examples.
Open Scope Z_scope.

(* FULL.  The connection Laplacians are Hermitian, L_ij = conj L_ji: on faces (Nabla^* D Nabla of laplacian_triangles) for
   every list of dual edges, every real weights D (or none) and EVERY transport; on vertices (laplacian) for every face
   list, every weights and EVERY transport function.  Any commutative ring. *)
Theorem C18_hermitian :
  forall (T : Type) (O : ops T),
    ring_theory (o0 O) (o1 O) (oadd O) (omul O) (osub O) (oopp O) eq ->
    (forall (order : nat) (D : option (list T)) (tr : Z * edge * Z * Z -> cx T * cx T) (P : list (Z * edge * Z * Z)),
        herm T O (lap_faces_gen O order D tr P)) /\
    (forall (order : nat) (wf : Z * face -> T * T * T) (tr : Z -> Z -> cx T) (F : list face),
        herm T O (lap_vertices_gen O order wf tr F)).
Proof. exact hermitian_both. Qed.
Print Assumptions C18_hermitian.

(* FULL.  With a flat connection (trivial transports; on vertices e^{i(a_xy - a_yx - pi)} = 1 along every edge) the
   operator is the scalar Laplacian the code builds without a connection: the same triplets on faces, the same entries on
   vertices; its entries are real (on faces: d on the diagonal, -d off it, summed over the dual edges). *)
Theorem C18_flat_reduces_to_scalar :
  forall (T : Type) (O : ops T),
    ring_theory (o0 O) (o1 O) (oadd O) (omul O) (osub O) (oopp O) eq ->
    (forall (order : nat) (D : option (list T)) (P : list (Z * edge * Z * Z)),
        lap_faces_gen O order D (fun _ => (c1 O, c1 O)) P = lap_faces_scalar O D P /\
        forall i j, centry O (lap_faces_scalar O D P) i j = cofre O (rentry T O (lap_faces_real T O D P) i j)) /\
    (forall (order : nat) (wf : Z * face -> T * T * T) (tr : Z -> Z -> cx T) (F : list face),
        flat_tr T O tr -> faces_distinct F ->
        forall i j, centry O (lap_vertices_gen O order wf tr F) i j = centry O (lap_vertices_scalar O wf F) i j /\
                    snd (centry O (lap_vertices_scalar O wf F) i j) = o0 O).
Proof. exact flat_both. Qed.
Print Assumptions C18_flat_reduces_to_scalar.

(* FULL for the clause the property words (a face with exactly one feature edge), every order.
   Face t is rotated by the connection to (A, B, C); every constraint write that lands on t comes from the stored edge
   (A, B) or (B, A), and there is one: A-B is the only feature edge of t.  s = |pB - pA| is the non-negative root of its
   square.  Then, for every order, every number of smoothing steps, every solver and smoothing answers: the constraint
   and the final frame of t are c1 = (X_t)^order where X_t = (pB - pA)/|pB - pA| is the first basis vector of t - branch 0
   of the frame is the unit vector along the feature edge.  (The proof evaluates (+-1)^(cstrf_power order) with the
   exponent generated from `(c/abs(c))**4`: an odd exponent or self.order breaks it.) *)
Theorem C18_constraint :
  forall (T : Type) (O : ops T), laws O ->
  forall (solve : cmat T -> list Z -> (Z -> cx T) -> (Z -> cx T)) (smooth : (Z -> cx T) -> (Z -> cx T))
         (order n_smooth : nat) (D : option (list T)) (V : list (vec T)) (F : list face) (E : list edge) (FE : list Z)
         (t A B C : Z),
    (0 <= t < zlen F)%Z ->
    conn_face E FE (znth F t ((0, 0, 0)%Z : face)) = (A, B, C) ->
    let d := vsub O (vnth O V B) (vnth O V A) in
    let s := vnorm O d in
    omul O s s = vdot O d d -> s <> o0 O -> osqrt O (omul O s s) = s ->
    (forall e, In e FE -> forall kv, In kv (cstrf_writes O order V F E (conn_bases O V F E FE) e) -> fst kv = t ->
               znth E e (0, 0)%Z = (A, B) \/ znth E e (0, 0)%Z = (B, A)) ->
    (exists kv, In kv (init_faces_writes O order V F E FE) /\ fst kv = t) ->
    init_faces O order V F E FE t = c1 O /\
    ff_faces_fn T O solve smooth order n_smooth D V F E FE t = c1 O /\
    cpow O (c1 O) order = c1 O /\
    fst (conn_base O V E FE (znth F t ((0, 0, 0)%Z : face))) = vdivs O d s.
Proof. exact constraint_faces. Qed.
Print Assumptions C18_constraint.

(* FULL.  Constrained elements are left at their constraint, faces or vertices: for any operator, constraint vector, free
   set, solver and smoothing answers, an element outside the free set ends as its constraint normalised (k+1 times after
   k smoothing steps), and exactly as its constraint when that has modulus 1. *)
Theorem C18_constraint_kept :
  forall (T : Type) (O : ops T), laws O ->
  forall (solve : cmat T -> list Z -> (Z -> cx T) -> (Z -> cx T)) (smooth : (Z -> cx T) -> (Z -> cx T))
         (er : bool) (rhs : cx T -> cx T) (sg : Z -> bool) (n_smooth : nat) (L : cmat T) (var0 : Z -> cx T)
         (free fixed : list Z) (i : Z),
    memZ i free = false ->
    (er && isnil free = false ->
     opt_bordered O solve smooth er rhs sg n_smooth L var0 free fixed i
     = norm_elem O (if sg (Z.of_nat n_smooth) then iter_norm T O n_smooth (var0 i) else var0 i)) /\
    (cnorm2 O (var0 i) = o1 O -> opt_bordered O solve smooth er rhs sg n_smooth L var0 free fixed i = var0 i).
Proof. exact constraint_kept. Qed.
Print Assumptions C18_constraint_kept.

(* PARTIAL: under the guard that the accumulated constraint passes the 1e-8 test (it fails when the feature edges at the
   vertex cancel - known finding unit/zero-constraint).  Vertex-based field: such a feature vertex
   is initialised with modulus 1 and keeps exactly that value through optimize. *)
Theorem C18_constraint_vertices_partial :
  forall (T : Type) (O : ops T), laws O ->
  forall (solve : cmat T -> list Z -> (Z -> cx T) -> (Z -> cx T)) (smooth : (Z -> cx T) -> (Z -> cx T))
         (sn : bool) (order n_smooth : nat) (cots : option (list (T * T * T))) (trs : list (Z * Z * cx T))
         (Bv : list (vec T * vec T)) (V : list (vec T)) (F : list face) (E : list edge) (FE : list Z) (v : Z),
    (0 <= v < zlen V)%Z ->
    feature_vertex E FE v = true ->
    cstrv_norm_guard O (cabs O (init_vertices_acc O sn order V E Bv (tr_lookup O trs) FE v)) = true ->
    cnorm2 O (init_vertices O sn order V E Bv (tr_lookup O trs) FE v) = o1 O /\
    ff_vertices_fn T O solve smooth sn order n_smooth cots trs Bv V F E FE v
    = init_vertices O sn order V E Bv (tr_lookup O trs) FE v.
Proof. exact constraint_vertices. Qed.
Print Assumptions C18_constraint_vertices_partial.

(* FULL.  Vertex-based field: the representation power is the field's order (cstrv_power, generated from the four
   `** self.order` of vertex2d._initialize_variables).  With a single feature edge e = (A, B), A <> B, in the plain-sum
   branch, the accumulated constraints of its end points are 0 + e^{i order transport(A,B)} and 0 + e^{i order transport(B,A)}:
   branch 0 of each end point's frame points along the edge in the connection's own angles. *)
Theorem C18_constraint_vertices_power :
  forall (T : Type) (O : ops T) (order : nat) (V : list (vec T)) (E : list edge) (Bv : list (vec T * vec T))
         (tr : Z -> Z -> cx T) (e A B : Z),
    znth E e (0, 0)%Z = (A, B) -> A <> B ->
    cstrv_smooth_branch false (Z.of_nat order) = false /\
    (forall k, cstrv_power k = k) /\
    init_vertices_acc O false order V E Bv tr (e :: nil) A = cadd O (c0 O) (cpow O (tr A B) order) /\
    init_vertices_acc O false order V E Bv tr (e :: nil) B = cadd O (c0 O) (cpow O (tr B A) order).
Proof. exact init_vertices_single_edge. Qed.
Print Assumptions C18_constraint_vertices_power.

(* PARTIAL: under the per-element guard "modulus above the threshold", which is not a condition on the input (it depends on
   the solver's answer; without it the clause is refuted below and fails on symmetric inputs - known findings unit/...).
   normalize gives modulus 1 (re^2 + im^2 = 1) to every
   element whose modulus passes the generated guard abs > 1e-10; so does the whole bordered pipeline, for any solver, any
   smoothing answers and any number of smoothing steps, at every element whose last un-normalised value passes the guard. *)
Theorem C18_unit_partial :
  forall (T : Type) (O : ops T), laws O ->
    (forall z : cx T, norm_guard O (cabs O z) = true -> cnorm2 O (norm_elem O z) = o1 O) /\
    (forall solve smooth er rhs sg n_smooth L var0 free fixed i,
        er && isnil free = false ->
        norm_guard O (cabs O (opt_pre O solve smooth rhs sg n_smooth L var0 free fixed i)) = true ->
        cnorm2 O (opt_bordered O solve smooth er rhs sg n_smooth L var0 free fixed i) = o1 O).
Proof. exact unit_all. Qed.
Print Assumptions C18_unit_partial.

(* REFUTED without the guard (known finding unit/zero-solution): normalize leaves a zero entry at zero. *)
Theorem C18_unit_unguarded_refuted : ~ (forall z : cx Q, cnorm2 Qops (norm_elem Qops z) = 1%Q).
Proof. exact unit_unguarded_refuted. Qed.
Print Assumptions C18_unit_unguarded_refuted.

(* FULL.  For every operator L, constraint var0, free / fixed sets partitioning the columns of L and EVERY solver whose
   answer satisfies  L_II res = - L_IB var0_B  on the free rows: the raw field z (constraints on the fixed set, answer on
   the free set) extends the constraints, is harmonic at every free element ((L z)_i = 0), and without smoothing the
   pipeline returns the element-wise normalisation of z. *)
Theorem C18_harmonic_extension :
  forall (T : Type) (O : ops T), laws O ->
  forall (solve : cmat T -> list Z -> (Z -> cx T) -> (Z -> cx T)) (smooth : (Z -> cx T) -> (Z -> cx T))
         (er : bool) (rhs : cx T -> cx T) (sg : Z -> bool) (n_smooth : nat) (L : cmat T) (var0 : Z -> cx T)
         (free fixed : list Z),
    (forall w, rhs w = cneg O w) ->
    partitioned T L free fixed ->
    solves T O rhs L var0 free fixed (solve L free (opt_rhs_fn O rhs L fixed var0)) ->
    let z := opt_first O solve rhs L var0 free fixed in
    (forall j, memZ j free = false -> z j = var0 j) /\
    (forall i, memZ i free = true -> mrow_dot O L i z = c0 O) /\
    (sg (Z.of_nat n_smooth) = false -> er && isnil free = false ->
     forall i, opt_bordered O solve smooth er rhs sg n_smooth L var0 free fixed i = norm_elem O (z i)).
Proof. exact harmonic_extension_all. Qed.
Print Assumptions C18_harmonic_extension.

(* FULL.  Both pipelines are instances: the generated right-hand sides are -valB, the generated smoothing guard is off for
   n_smooth = 0, and the code's partition (filter over range(n)) splits the columns of any operator with columns in range. *)
Theorem C18_harmonic_extension_instances :
  forall (T : Type) (O : ops T),
    (forall w, optf_rhs O w = cneg O w) /\ (forall w, optv_rhs O w = cneg O w) /\
    optf_smooth_guard (Z.of_nat 0) = false /\ optv_smooth_guard (Z.of_nat 0) = false /\
    (forall (n : Z) (fb : Z -> bool) (M : cmat T),
        (forall a b v, In (a, b, v) M -> (0 <= b < n)%Z) ->
        partitioned T M (part_free n fb) (part_fixed n fb)).
Proof. exact harmonic_extension_instances. Qed.
Print Assumptions C18_harmonic_extension_instances.

(* FULL.  The face-based pipeline as it is (n_smooth = 0): operator, constraints and partition are the model's own (their
   column indices are proved in range, so the partition splits them).  For EVERY solver whose answer satisfies the system:
   the raw field extends the constraints, is harmonic at every free face, and - when some face is free - the result is its
   element-wise normalisation. *)
Theorem C18_harmonic_extension_faces :
  forall (T : Type) (O : ops T), laws O ->
  forall (solve : cmat T -> list Z -> (Z -> cx T) -> (Z -> cx T)) (smooth : (Z -> cx T) -> (Z -> cx T))
         (order : nat) (D : option (list T)) (V : list (vec T)) (F : list face) (E : list edge) (FE : list Z),
    let n := zlen F in let fb := fixed_face F E FE in
    let L := lap_faces O order D V F E FE in let var0 := init_faces O order V F E FE in
    let free := part_free n fb in let fixed := part_fixed n fb in
    solves T O (optf_rhs O) L var0 free fixed (solve L free (opt_rhs_fn O (optf_rhs O) L fixed var0)) ->
    let z := opt_first O solve (optf_rhs O) L var0 free fixed in
    (forall j, memZ j free = false -> z j = var0 j) /\
    (forall i, memZ i free = true -> mrow_dot O L i z = c0 O) /\
    (isnil free = false -> forall i, ff_faces_fn T O solve smooth order 0 D V F E FE i = norm_elem O (z i)).
Proof. exact harmonic_faces. Qed.
Print Assumptions C18_harmonic_extension_faces.

(* FULL.  The vertex-based pipeline as it is (n_smooth = 0), for faces whose corners are vertex indices in range. *)
Theorem C18_harmonic_extension_vertices :
  forall (T : Type) (O : ops T), laws O ->
  forall (solve : cmat T -> list Z -> (Z -> cx T) -> (Z -> cx T)) (smooth : (Z -> cx T) -> (Z -> cx T))
         (sn : bool) (order : nat) (cots : option (list (T * T * T))) (trs : list (Z * Z * cx T))
         (Bv : list (vec T * vec T)) (V : list (vec T)) (F : list face) (E : list edge) (FE : list Z),
    faces_in_range (zlen V) F ->
    let n := zlen V in let fb := feature_vertex E FE in
    let L := lap_vertices O order cots trs F in let var0 := init_vertices O sn order V E Bv (tr_lookup O trs) FE in
    let free := part_free n fb in let fixed := part_fixed n fb in
    solves T O (optv_rhs O) L var0 free fixed (solve L free (opt_rhs_fn O (optv_rhs O) L fixed var0)) ->
    let z := opt_first O solve (optv_rhs O) L var0 free fixed in
    (forall j, memZ j free = false -> z j = var0 j) /\
    (forall i, memZ i free = true -> mrow_dot O L i z = c0 O) /\
    (forall i, ff_vertices_fn T O solve smooth sn order 0 cots trs Bv V F E FE i = norm_elem O (z i)).
Proof. exact harmonic_vertices. Qed.
Print Assumptions C18_harmonic_extension_vertices.

(* FULL (telescoping), last step under the named Gauss-Bonnet hypothesis (C07).  For every edge list with distinct end
   points in range and ANY edge rotations: the vertex angles of flag_singularities add up to the sum of the defects; the
   stored indices plus the sub-threshold residue equal (sum of defects) * 2 / pi; if the defects add up to 2 pi chi the
   total is 4 chi. *)
Theorem C18_index_sum :
  forall (T : Type) (O : ops T), laws O ->
  forall (defect rot : Z -> T) (n : Z) (E : list edge),
    edges_ok n E ->
    sumT O (map (vertex_angle O defect E rot) (zrange n)) = sumT O (map defect (zrange n)) /\
    oadd O (sumT O (map (singul O defect E rot) (zrange n))) (sumT O (map (residue T O defect rot E) (zrange n)))
    = sing_value O (sumT O (map defect (zrange n))) /\
    (forall chi : T, opi O <> o0 O -> oofZ O 2 = oadd O (o1 O) (o1 O) ->
       sumT O (map defect (zrange n)) = omul O (omul O (oadd O (o1 O) (o1 O)) (opi O)) chi ->
       oadd O (sumT O (map (singul O defect E rot) (zrange n))) (sumT O (map (residue T O defect rot E) (zrange n)))
       = omul O (omul O (oadd O (o1 O) (o1 O)) (oadd O (o1 O) (o1 O))) chi).
Proof. exact index_sum_all. Qed.
Print Assumptions C18_index_sum.

(* FULL.  Re-flagging on a mesh that already carries the singularity attribute (a field was computed and flagged before,
   with any order / options) stores exactly the indices of the field asked for - on vertices for the face-based field, on
   faces for the vertex-based one: nothing of the previous content survives (generated from the `.clear()` of both
   flag_singularities), so C18_index_sum speaks about what is stored, whatever the history of the mesh object. *)
Theorem C18_flag_history_independent :
  forall (T : Type) (O : ops T) (defect rot : Z -> T),
    (forall (old : Z -> T) (E : list edge) (v : Z), singul_stored O old defect E rot v = singul O defect E rot v) /\
    (forall (old : T) (flag : bool) (val : T), vsingul_stored O old flag val = if flag then val else o0 O).
Proof. exact flag_history_independent. Qed.
Print Assumptions C18_flag_history_independent.

(* REFUTED (known finding constraint/two-edges-power-4, DESIGN.md defect #35).  The general form of the constraint clause -
   "the stored value is u^order for the unit direction u of the feature edge in the basis of the face" - is false of the
   code for order <> 4: c = (3, 4), order 2 stores u^4 <> u^2 (and neither +-u is a square root of the stored value). *)
Theorem C18_constraint_general_refuted :
  ~ (forall (order : nat) (c : cx Q), cstrf_value Qops order c = cpow Qops (cunit Qops c) order).
Proof. exact cstr_general_refuted. Qed.
Print Assumptions C18_constraint_general_refuted.

(* PARTIAL (missing: H1 and H3 are real-analysis facts about atan2 / phase / modulo, and e^{ix} = 1 -> x in 2 pi Z; the
   quantum is checked numerically on every run).  `cis` is any map turning sums into products and 0 into 1 (e^{ix} in R).
   At a vertex v:  H1 matching rule - the order-th power of e^{i r} for the k-th signed edge rotation r at v is
   fb_k * conj fa_k * rho_k (normalised representation vectors of the face before / after the edge, order-th power of the
   transport between them);  H2 closed fan - the fb's are a permutation of the fa's, all of modulus 1;  H3 holonomy - the
   transports around v compose to the angle defect.  Then e^{i order angle_v} = 1: the stored index angle_v * 2/pi is a whole
   multiple of 4/order. *)
Theorem C18_index_quantum_partial :
  forall (T : Type) (O : ops T),
    ring_theory (o0 O) (o1 O) (oadd O) (omul O) (osub O) (oopp O) eq ->
  forall cis : T -> cx T,
    (forall x y, cis (oadd O x y) = cmul O (cis x) (cis y)) -> cis (o0 O) = c1 O ->
  forall (order : nat) (defect : Z -> T) (E : list edge) (rot : Z -> T) (v : Z) (fan : list (cx T * cx T * cx T)),
    Forall2 (fun r (t : cx T * cx T * cx T) => let '(fa, fb, rho) := t in
               cpow O (cis r) order = cmul O (cmul O fb (cconj O fa)) rho) (angle_terms O E rot v) fan ->
    Permutation (map (fun t : cx T * cx T * cx T => fst (fst t)) fan) (map (fun t : cx T * cx T * cx T => snd (fst t)) fan) ->
    Forall (unitc T O) (map (fun t : cx T * cx T * cx T => fst (fst t)) fan) ->
    cmul O (cpow O (cis (defect v)) order) (cprod T O (map (fun t : cx T * cx T * cx T => snd t) fan)) = c1 O ->
    cpow O (cis (vertex_angle O defect E rot v)) order = c1 O.
Proof. exact quantum_partial. Qed.
Print Assumptions C18_index_quantum_partial.

(* PARTIAL (the OPERATOR assembly is covariant; the end-to-end claim "directions do not depend on numbering" also needs the
   constraint initialisation, which is NOT covariant in two known cases - known findings gauge/... - and is carried by the
   metamorphic run of the implementation, a test).  Rotating the basis of every face t by a unit h t turns the operator
   into G L G^* triplet for triplet (g_t = conj(h t)^order), and (L' (G z))_i = g_i (L z)_i: harmonic extensions correspond;
   reversing the stored orientation of an edge (Nabla row times a unit) leaves its block unchanged; renumbering the
   elements injectively relabels the entries. *)
Theorem C18_gauge_operator_partial :
  forall (T : Type) (O : ops T),
    ring_theory (o0 O) (o1 O) (oadd O) (omul O) (osub O) (oopp O) eq ->
    (forall (order : nat) (D : option (list T)) (tr : Z * edge * Z * Z -> cx T * cx T) (P : list (Z * edge * Z * Z))
            (h : Z -> cx T),
        (forall t, unitc T O (h t)) ->
        lap_faces_gen O order D (rot_tr T O h tr) P = gauge_map T O (gauge_of T O h order) (lap_faces_gen O order D tr P) /\
        forall (z : Z -> cx T) (i : Z),
          mrow_dot O (lap_faces_gen O order D (rot_tr T O h tr) P) i (fun j => cmul O (gauge_of T O h order j) (z j))
          = cmul O (gauge_of T O h order i) (mrow_dot O (lap_faces_gen O order D tr P) i z)) /\
    (forall (d : option T) (a b : cx T) (t1 t2 : Z) (u : cx T),
        unitc T O u -> lapt_block O d (cmul O u a) (cmul O u b) t1 t2 = lapt_block O d a b t1 t2) /\
    (forall (s : Z -> Z) (M : cmat T) (i j : Z),
        (forall x y, s x = s y -> x = y) -> centry O (relabel T s M) (s i) (s j) = centry O M i j).
Proof. exact gauge_all. Qed.
Print Assumptions C18_gauge_operator_partial.

(* PARTIAL, one step further than C18_index_quantum_partial: the closed-fan hypothesis is discharged by the cyclic order of
   the faces around v (l lists, turning around v, the representation vector of each face and the rho of the edge leaving it),
   and the matching rule is reduced to the root property of the branches that were picked: the k-th signed rotation is the
   angle between a branch ub of the face after the edge and a branch ua of the face before it (ua^order = fa, ub^order = fb),
   each measured against the edge (directions wa, wb in the two bases).  Still named: that property of the picked branches
   (phase / roots / angle_diff are real-analysis functions), the holonomy, and e^{ix} = 1 -> x in 2 pi Z. *)
Theorem C18_index_quantum_cyclic_partial :
  forall (T : Type) (O : ops T),
    ring_theory (o0 O) (o1 O) (oadd O) (omul O) (osub O) (oopp O) eq ->
  forall cis : T -> cx T,
    (forall x y, cis (oadd O x y) = cmul O (cis x) (cis y)) -> cis (o0 O) = c1 O ->
  forall (order : nat) (defect : Z -> T) (E : list edge) (rot : Z -> T) (v : Z) (l : list (cx T * cx T)),
    Forall2 (fun r (t : cx T * cx T * cx T) => let '(fa, fb, rho) := t in
               exists ua ub wa wb, cpow O ua order = fa /\ cpow O ub order = fb /\
                 rho = cpow O (cmul O wa (cconj O wb)) order /\
                 cis r = cmul O (cmul O ub (cconj O wb)) (cconj O (cmul O ua (cconj O wa))))
            (angle_terms O E rot v) (cyc_fan T l) ->
    Forall (unitc T O) (map fst l) ->
    cmul O (cpow O (cis (defect v)) order) (cprod T O (map snd l)) = c1 O ->
    cpow O (cis (vertex_angle O defect E rot v)) order = c1 O.
Proof. exact quantum_partial_cyclic. Qed.
Print Assumptions C18_index_quantum_cyclic_partial.

(* FULL for operator + partition + solve (the constraint initialisation is outside: known findings gauge/...).  One level
   above C18_gauge_operator_partial: let L' = G L G^* (what rotating the bases does to the operator, g unit) and z_B' = G z_B.
   Whatever ANY solver answers for the rotated system L'_II x = -L'_IB z_B', the raw field it yields, rotated back
   (conj(g_j) z'_j), extends the original constraints and is harmonic for the original operator; and normalisation commutes
   with the gauge (norm_elem (g z) = g norm_elem z).  The directions of the solved field measured against the mesh's own
   edges therefore do not depend on the choice of bases - what vertex numbering and each face's starting vertex change. *)
Theorem C18_gauge_harmonic_extension :
  forall (T : Type) (O : ops T),
    field_theory (o0 O) (o1 O) (oadd O) (omul O) (osub O) (oopp O) (odiv O) (oinv O) eq ->
    (forall (solve : cmat T -> list Z -> (Z -> cx T) -> (Z -> cx T)) (rhs : cx T -> cx T) (L : cmat T) (var0 : Z -> cx T)
            (free fixed : list Z) (g : Z -> cx T),
        (forall w, rhs w = cneg O w) -> (forall t, unitc T O (g t)) -> partitioned T L free fixed ->
        let L' := gauge_map T O g L in
        let var0' := fun j => cmul O (g j) (var0 j) in
        solves T O rhs L' var0' free fixed (solve L' free (opt_rhs_fn O rhs L' fixed var0')) ->
        let zb := fun j => cmul O (cconj O (g j)) (opt_first O solve rhs L' var0' free fixed j) in
        (forall j, memZ j free = false -> zb j = var0 j) /\
        (forall i, memZ i free = true -> mrow_dot O L i zb = c0 O)) /\
    (forall g z : cx T, unitc T O g -> norm_elem O (cmul O g z) = cmul O g (norm_elem O z)).
Proof. exact gauge_extension_all. Qed.
Print Assumptions C18_gauge_harmonic_extension.

(* FULL.  The stage plumbing of FrameField.run() (generated from base.py; __call__ = run is checked by the translator):
   run() executes initialize exactly when the field is not initialised and optimize exactly when it is not smoothed - two
   independent tests - and sets both flags.  Hence after ANY sequence of calls to initialize / optimize / run on a fresh field
   that contains a run(), whatever flags initialize and optimize set themselves, an optimisation (and an initialisation) has
   been executed: `ff.initialize(); ff.run()` optimises.  Both initialize() set the initialized flag. *)
Theorem C18_stage_protocols :
  (forall (i s : bool) (l : list stage),
      run_step (i, s, l) = (true, true, (l ++ (if i then nil else SInit :: nil) ++ (if s then nil else SOpt :: nil))%list)) /\
  (forall (init_sets opt_sets : bool) (p : list call), In CRun p ->
      In SOpt (st_stages (exec_calls init_sets opt_sets p)) /\ In SInit (st_stages (exec_calls init_sets opt_sets p))) /\
  initf_sets_initialized = true /\ initv_sets_initialized = true.
Proof. exact stage_all. Qed.
Print Assumptions C18_stage_protocols.

(* FULL.  What `_initialize_attributes` leaves cached on the mesh object (generated from the `persistent=` flags of its attribute
   computations): the face-based field NOTHING (its cotangents and angle defects are private), the vertex-based field the corner
   angles, cotangents and vertex normals (the caches of known finding history/stale-geometry-cache).  Each run also snapshots
   the attribute names before / after every field computation (oracle clause leak/attribute). *)
Theorem C18_init_caches :
  initf_cached = nil /\ initv_cached = ("corner_angles" :: "cotangent" :: "vertex_normals" :: nil)%string.
Proof. exact init_caches. Qed.
Print Assumptions C18_init_caches.

(* FULL (clause "the directions do not depend on ... which vertex each face starts from", for the CONSTRAINED faces).  A face
   with exactly one feature edge is rotated by the connection so that it starts at that edge: its three rotations get the
   same rotated triple, hence (for any numeric type and any coordinates) the same tangent basis - X along the feature edge -
   and, by C18_constraint, the same constraint c1. *)
Theorem C18_face_rotation_constraint :
  forall (E : list edge) (FE : list Z) (A B C : Z),
    one_feature_edge E FE (A, B, C) = true ->
    (one_feature_edge E FE (B, C, A) = true /\ one_feature_edge E FE (C, A, B) = true) /\
    (conn_face E FE (B, C, A) = conn_face E FE (A, B, C) /\ conn_face E FE (C, A, B) = conn_face E FE (A, B, C)) /\
    (forall (T : Type) (O : ops T) (V : list (vec T)),
        conn_base O V E FE (B, C, A) = conn_base O V E FE (A, B, C) /\ conn_base O V E FE (C, A, B) = conn_base O V E FE (A, B, C)).
Proof. exact rotation_all. Qed.
Print Assumptions C18_face_rotation_constraint.

(* FULL.  Letting every face of the list start from another of its vertices changes nothing in the combinatorial layer of the
   face-based pipeline: the face left of every directed edge, the dual edges (with their face pairs), the constrained faces and
   the free / fixed partition are the same.  (What does change is the tangent basis of the faces WITHOUT feature edge - a
   gauge: C18_gauge_operator_partial and C18_gauge_harmonic_extension say the operator and every solved field follow it.) *)
Theorem C18_face_rotation_combinatorics :
  forall (F F' : list face) (E : list edge) (FE : list Z),
    Forall2 rot_of F F' ->
    (forall u v, direct_face F' u v = direct_face F u v) /\
    dual_pairs F' E = dual_pairs F E /\
    (forall t, fixed_face F' E FE t = fixed_face F E FE t) /\
    zlen F' = zlen F /\
    part_free (zlen F') (fixed_face F' E FE) = part_free (zlen F) (fixed_face F E FE) /\
    part_fixed (zlen F') (fixed_face F' E FE) = part_fixed (zlen F) (fixed_face F E FE).
Proof. exact face_rotation_combinatorics. Qed.
Print Assumptions C18_face_rotation_combinatorics.
