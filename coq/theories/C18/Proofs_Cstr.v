(* C18 - constraint initialisation of the face-based field (faces2d._initialize_variables over the aligned bases of
   connection.SurfaceConnectionFaces), over an arbitrary field with Leibniz equality (section hypothesis; axiom-free).

   A face whose basis was built with its feature edge A -> B first has X = (pB - pA)/|pB - pA|.  The code writes
       var[T] = (c / abs c) ** cstrf_power order,   c = (edge . X, edge . Y),   edge = +-(pB - pA)
   (the sign is the stored orientation e1 < e2 of the edge).  Then c / abs c = (+-1, 0) and the stored value is
   (1, 0) = X ** order: branch 0 of the frame is the unit vector along the feature edge, for EVERY order.  The proof
   computes (+-1)^(cstrf_power order) with the generated exponent: an odd exponent (or self.order) breaks it.
   The square root enters through s = |pB - pA|:  s*s = <d,d>, s <> 0, sqrt(s*s) = s  (s is the non-negative root). *)
From Coq Require Import ZArith List Bool Ring Field Lia.
Import ListNotations.
Require Import MV.Lib.Base MV.C18.Ops MV.C18.Gen MV.C18.Model MV.C18.Proofs_Herm.
Open Scope Z_scope.

Section Cstr.
Variable T : Type.
Variable O : ops T.
Hypothesis Fth : field_theory (o0 O) (o1 O) (oadd O) (omul O) (osub O) (oopp O) (odiv O) (oinv O) eq.
Add Field FieldT : Fth.
Let Rth := F_R Fth.

Declare Scope F_scope.
Notation "0" := (o0 O) : F_scope.
Notation "1" := (o1 O) : F_scope.
Notation "x + y" := (oadd O x y) : F_scope.
Notation "x * y" := (omul O x y) : F_scope.
Notation "x - y" := (osub O x y) : F_scope.
Notation "x / y" := (odiv O x y) : F_scope.
Notation "- x" := (oopp O x) : F_scope.
Delimit Scope F_scope with F.
Local Open Scope F_scope.

Notation cx := (cx T).
Notation vec := (vec T).

Lemma div_def (a b : T) : a / b = a * oinv O b.
Proof. exact (Fdiv_def Fth a b). Qed.

(* <a, b/t> = <a,b> * (1/t), no side condition *)
Lemma vdot_vdivs_r (a b : vec) (t : T) : vdot O a (vdivs O b t) = vdot O a b * oinv O t.
Proof. destruct a as [[a0 a1] a2], b as [[b0 b1] b2]. cbn. rewrite !div_def. ring. Qed.
Lemma vdot_cross_self (z d : vec) : vdot O d (vcross O z d) = 0.
Proof. destruct z as [[z0 z1] z2], d as [[d0 d1] d2]. cbn. ring. Qed.
Lemma vcross_vdivs_r (z d : vec) (t : T) :
  forall e : vec, vdot O e (vcross O z (vdivs O d t)) = vdot O e (vcross O z d) * oinv O t.
Proof. intros [[e0 e1] e2]. destruct z as [[z0 z1] z2], d as [[d0 d1] d2]. cbn. rewrite !div_def. ring. Qed.

Definition vopp (a : vec) : vec := let '(a0, a1, a2) := a in (- a0, - a1, - a2).
Lemma vsub_swap (p q : vec) : vsub O p q = vopp (vsub O q p).
Proof. destruct p as [[p0 p1] p2], q as [[q0 q1] q2]. cbn. repeat f_equal; ring. Qed.
Lemma vdot_vopp_l (a b : vec) : vdot O (vopp a) b = - vdot O a b.
Proof. destruct a as [[a0 a1] a2], b as [[b0 b1] b2]. cbn. ring. Qed.

Section Aligned.
Variables pA pB pC : vec.
Let d : vec := vsub O pB pA.
Let s : T := vnorm O d.
Hypothesis Hs : s * s = vdot O d d.
Hypothesis Hs0 : s <> 0.
Hypothesis Hss : osqrt O (s * s) = s.

Let X : vec := fst (face_basis O pA pB pC).
Let Y : vec := snd (face_basis O pA pB pC).

Lemma X_def : X = vdivs O d s.
Proof. reflexivity. Qed.

Lemma d_dot_X : vdot O d X = s.
Proof. rewrite X_def, vdot_vdivs_r, <- Hs. field. exact Hs0. Qed.
Lemma d_dot_Y : vdot O d Y = 0.
Proof.
  subst Y. unfold face_basis. cbn [snd]. unfold vnormalized at 1.
  rewrite vdot_vdivs_r. fold d. fold s.
  change (vnormalized O d) with (vdivs O d s).
  rewrite vcross_vdivs_r, vdot_cross_self. ring.
Qed.

(* the local coordinates of the edge, whichever way it is stored *)
Lemma local_pos : cstrf_local O d X Y = (s, 0).
Proof. unfold cstrf_local. rewrite d_dot_X, d_dot_Y. reflexivity. Qed.
Lemma local_neg : cstrf_local O (vopp d) X Y = (- s, 0).
Proof. unfold cstrf_local. rewrite !vdot_vopp_l, d_dot_X, d_dot_Y. f_equal. ring. Qed.

Lemma cabs_pos : cabs O (s, 0) = s.
Proof. unfold cabs, cnorm2. cbn [fst snd]. replace (s * s + 0 * 0) with (s * s) by ring. exact Hss. Qed.
Lemma cabs_neg : cabs O (- s, 0) = s.
Proof. unfold cabs, cnorm2. cbn [fst snd]. replace (- s * - s + 0 * 0) with (s * s) by ring. exact Hss. Qed.

(* the two unit directions (1,0) and (-1,0), raised to the generated power *)
Lemma pow_plus order : cpow O (1, 0) (cstrf_power order) = c1 O.
Proof. unfold cstrf_power. cbn [cpow]. unfold cmul, c1. cbn [fst snd]. f_equal; ring. Qed.
Lemma pow_minus order : cpow O (- (1), 0) (cstrf_power order) = c1 O.
Proof. unfold cstrf_power. cbn [cpow]. unfold cmul, c1. cbn [fst snd]. f_equal; ring. Qed.

Lemma value_along (order : nat) : cstrf_value O order (cstrf_local O (vsub O pB pA) X Y) = c1 O.
Proof.
  unfold cstrf_value. fold d. rewrite local_pos, cabs_pos.
  replace (cdivr O (s, 0) s) with ((1, 0) : cx) by (unfold cdivr; cbn [fst snd]; f_equal; field; exact Hs0).
  apply pow_plus.
Qed.
Lemma value_against (order : nat) : cstrf_value O order (cstrf_local O (vsub O pA pB) X Y) = c1 O.
Proof.
  unfold cstrf_value. rewrite (vsub_swap pA pB). fold d. rewrite local_neg, cabs_neg.
  replace (cdivr O (- s, 0) s) with ((- (1), 0) : cx) by (unfold cdivr; cbn [fst snd]; f_equal; field; exact Hs0).
  apply pow_minus.
Qed.

(* whichever way the code orients the edge vector (cstrf_edge_vec is generated) and whichever way the edge is stored *)
Theorem cstrf_aligned_value (order : nat) (edge : vec) :
  edge = cstrf_edge_vec O pA pB \/ edge = cstrf_edge_vec O pB pA ->
  cstrf_value O order (cstrf_local O edge X Y) = c1 O.
Proof.
  unfold cstrf_edge_vec. intros [E | E]; subst edge; first [apply value_along | apply value_against].
Qed.

(* branch 0 of the stored value is X itself: in the basis of the face X has coordinates (1, 0) = c1, and c1^order = c1 *)
Theorem cstrf_branch_is_X (order : nat) : cpow O (c1 O) order = c1 O /\ conn_dir O X X Y = (vdot O X X, vdot O X Y).
Proof. split; [apply (cpow_c1 T O Rth) | reflexivity]. Qed.

End Aligned.

(* ------------------------------------------------------------------ last write wins *)
Lemma last_write_all {A} (w : list (Z * A)) (k : Z) (d v : A) :
  (forall kv, In kv w -> fst kv = k -> snd kv = v) ->
  (exists kv, In kv w /\ fst kv = k) ->
  last_write w k d = v.
Proof.
  unfold last_write. revert d. induction w as [|[k0 v0] w IH]; intros d Hall [kv [Hin Hk]].
  - destruct Hin.
  - cbn [fold_left fst snd].
    destruct (Z.eq_dec k0 k) as [E | NE].
    + subst k0. rewrite Z.eqb_refl.
      assert (Ev : v0 = v) by (apply (Hall (k, v0)); [left; reflexivity | reflexivity]). subst v0.
      destruct (existsb (fun kv => fst kv =? k) w) eqn:Ex.
      * apply IH; [intros kv' H1 H2; apply Hall; [right; exact H1 | exact H2] |].
        apply existsb_exists in Ex. destruct Ex as [kv' [H1 H2]]. exists kv'. split; [exact H1 | apply Z.eqb_eq; exact H2].
      * clear IH Hall Hin. revert Ex. generalize v. induction w as [|[k1 v1] w IHw]; intros u Ex; cbn [fold_left fst snd]; [reflexivity |].
        cbn [existsb fst] in Ex. apply orb_false_iff in Ex. destruct Ex as [E1 E2]. rewrite E1. apply IHw, E2.
    + assert (Hk0 : (k0 =? k) = false) by (apply Z.eqb_neq; exact NE). rewrite Hk0.
      apply IH; [intros kv' H1 H2; apply Hall; [right; exact H1 | exact H2] |].
      destruct Hin as [Hin | Hin]; [subst kv; cbn in Hk; contradiction | exists kv; split; assumption].
Qed.

(* every write to face t comes from its aligned feature edge: the stored constraint is c1 *)
Theorem init_faces_aligned (order : nat) V F E FE (t : Z) :
  (forall kv, In kv (init_faces_writes O order V F E FE) -> fst kv = t -> snd kv = c1 O) ->
  (exists kv, In kv (init_faces_writes O order V F E FE) /\ fst kv = t) ->
  init_faces O order V F E FE t = c1 O.
Proof. intros H1 H2. unfold init_faces. apply last_write_all; assumption. Qed.

(* ------------------------------------------------------------------ the writes of the constraint loop *)
Lemma znth_map {A B} (f : A -> B) (l : list A) (i : Z) (da : A) (db : B) :
  (0 <= i < Z.of_nat (length l))%Z -> znth (map f l) i db = f (znth l i da).
Proof.
  intros [H0 H1]. unfold znth. destruct (i <? 0)%Z eqn:E; [apply Z.ltb_lt in E; lia |].
  rewrite (nth_indep (map f l) db (f da)) by (rewrite map_length; lia). apply map_nth.
Qed.

Lemma bnth_conn_bases V F E FE (t : Z) :
  (0 <= t < zlen F)%Z -> bnth O (conn_bases O V F E FE) t = conn_base O V E FE (znth F t ((0, 0, 0)%Z : face)).
Proof. intros H. unfold bnth, conn_bases. apply znth_map. exact H. Qed.

(* Face t is in range; its basis was built on the rotated triple (A, B, C) (conn_face puts the first feature edge
   first); every constraint write that lands on t comes from a stored edge (A, B) or (B, A): t has no other feature
   edge.  Then the stored constraint is c1 = X^order, whatever the order and the stored orientation of the edge. *)
Theorem init_faces_one_edge (order : nat) V F E FE (t A B C : Z) :
  (0 <= t < zlen F)%Z ->
  conn_face E FE (znth F t ((0, 0, 0)%Z : face)) = (A, B, C) ->
  let d := vsub O (vnth O V B) (vnth O V A) in
  let s := vnorm O d in
  s * s = vdot O d d -> s <> 0 -> osqrt O (s * s) = s ->
  (forall e, In e FE -> forall kv, In kv (cstrf_writes O order V F E (conn_bases O V F E FE) e) -> fst kv = t ->
             znth E e (0, 0)%Z = (A, B) \/ znth E e (0, 0)%Z = (B, A)) ->
  (exists kv, In kv (init_faces_writes O order V F E FE) /\ fst kv = t) ->
  init_faces O order V F E FE t = c1 O.
Proof.
  intros Ht Hcf d s Hs Hs0 Hss Hone Hex. apply init_faces_aligned; [| exact Hex].
  intros kv Hin Hk. unfold init_faces_writes in Hin. apply in_flat_map in Hin. destruct Hin as [e [HeFE Hw]].
  pose proof (Hone e HeFE kv Hw Hk) as Hedge.
  unfold cstrf_writes in Hw. destruct (znth E e (0, 0)%Z) as [e1 e2] eqn:Ee.
  apply in_flat_map in Hw. destruct Hw as [ot [_ Hw]].
  destruct ot as [tf |]; [| destruct Hw].
  destruct (bnth O (conn_bases O V F E FE) tf) as [X Y] eqn:Eb.
  destruct Hw as [Hw | []]. subst kv. cbn [fst snd] in *. subst tf.
  rewrite bnth_conn_bases in Eb by exact Ht. unfold conn_base in Eb. rewrite Hcf in Eb.
  assert (EX : X = fst (face_basis O (vnth O V A) (vnth O V B) (vnth O V C))) by (rewrite Eb; reflexivity).
  assert (EY : Y = snd (face_basis O (vnth O V A) (vnth O V B) (vnth O V C))) by (rewrite Eb; reflexivity).
  subst X Y.
  apply (cstrf_aligned_value (vnth O V A) (vnth O V B) (vnth O V C) Hs Hs0 Hss order).
  destruct Hedge as [E1 | E1]; inversion E1; subst; [left | right]; reflexivity.
Qed.

(* ------------------------------------------------------------------ vertex-based field: the representation power *)
(* vertex2d._initialize_variables raises the edge directions to the power of the field's ORDER (unlike faces2d): with a
   single feature edge e = (A, B) and the plain-sum branch (odd order or smooth_normals off), the accumulated constraints
   of its end points are  0 + e^{i order transport(A,B)}  and  0 + e^{i order transport(B,A)} *)
Theorem init_vertices_single_edge (order : nat) (V : list vec) (E : list edge) (Bv : list (vec * vec))
    (tr : Z -> Z -> cx) (e A B : Z) :
  znth E e (0, 0)%Z = (A, B) -> A <> B ->
  cstrv_smooth_branch false (Z.of_nat order) = false /\
  (forall k, cstrv_power k = k) /\
  init_vertices_acc O false order V E Bv tr [e] A = cadd O (c0 O) (cpow O (tr A B) order) /\
  init_vertices_acc O false order V E Bv tr [e] B = cadd O (c0 O) (cpow O (tr B A) order).
Proof.
  intros HE HAB. split; [reflexivity |]. split; [intros k; reflexivity |].
  unfold init_vertices_acc. cbn [fold_left]. rewrite HE. cbn [cstrv_smooth_branch andb].
  unfold fupd, cstrv_power. rewrite !Z.eqb_refl.
  assert (E1 : (A =? B)%Z = false) by (apply Z.eqb_neq; exact HAB).
  assert (E2 : (B =? A)%Z = false) by (apply Z.eqb_neq; intro H; apply HAB; symmetry; exact H).
  rewrite E1, ?E2. split; reflexivity.
Qed.

End Cstr.
