(* C18 - the singularity indices of faces2d.flag_singularities add up to the scaled sum of the angle defects (telescoping),
   over an arbitrary field with Leibniz equality (section hypothesis; axiom-free).

   angle_v = defect_v + sum over the edges e = (a, b) at v of  +rot_e / -rot_e  (sign rule sing_sign, generated).
   Every edge with two distinct end points in range contributes +rot_e at one end and -rot_e at the other, for ANY
   edge rotations rot: the sum over all vertices of angle_v is the sum of the defects.  The stored index is
   sing_value angle_v = angle_v * 2 / pi where |angle_v| exceeds the threshold and 0 elsewhere; the theorem keeps the
   sub-threshold residue explicit.  With Gauss-Bonnet (sum of defects = 2 pi chi; C07) the total is 4 chi. *)
From Coq Require Import ZArith List Bool Ring Field Lia.
Import ListNotations.
Require Import MV.Lib.Base MV.C18.Ops MV.C18.Gen MV.C18.Model.
Open Scope Z_scope.

Section Index.
Variable T : Type.
Variable O : ops T.
Hypothesis Fth : field_theory (o0 O) (o1 O) (oadd O) (omul O) (osub O) (oopp O) (odiv O) (oinv O) eq.
Add Field FieldT : Fth.

Declare Scope F_scope.
Notation "0" := (o0 O) : F_scope.
Notation "1" := (o1 O) : F_scope.
Notation "x + y" := (oadd O x y) : F_scope.
Notation "x * y" := (omul O x y) : F_scope.
Notation "x - y" := (osub O x y) : F_scope.
Notation "x / y" := (odiv O x y) : F_scope.
Notation "- x" := (oopp O x) : F_scope.
Delimit Scope F_scope with F.
Local Open Scope F_scope.

Notation sum := (sumT O).

Lemma sum_app l m : sum (l ++ m) = sum l + sum m.
Proof. induction l as [|x l IH]; cbn [app sumT]; [ring | rewrite IH; ring]. Qed.
Lemma sum_flat_map {A} (f : A -> list T) l : sum (flat_map f l) = sum (map (fun x => sum (f x)) l).
Proof. induction l as [|x l IH]; cbn [flat_map map sumT]; [reflexivity | rewrite sum_app, IH; reflexivity]. Qed.
Lemma sum_map_add {A} (f g : A -> T) l : sum (map (fun x => f x + g x) l) = sum (map f l) + sum (map g l).
Proof. induction l as [|x l IH]; cbn [map sumT]; [ring | rewrite IH; ring]. Qed.
Lemma sum_map_ext {A} (f g : A -> T) l : (forall x, In x l -> f x = g x) -> sum (map f l) = sum (map g l).
Proof.
  induction l as [|x l IH]; intros H; cbn [map sumT]; [reflexivity |].
  rewrite (H x (or_introl eq_refl)), IH; [reflexivity | intros y Hy; apply H; right; exact Hy].
Qed.
Lemma sum_map_zero {A} (l : list A) : sum (map (fun _ => 0) l) = 0.
Proof. induction l as [|x l IH]; cbn [map sumT]; [reflexivity | rewrite IH; ring]. Qed.
Lemma sum_swap {A B} (c : A -> B -> T) (es : list A) (vs : list B) :
  sum (map (fun v => sum (map (fun e => c e v) es)) vs) = sum (map (fun e => sum (map (fun v => c e v) vs)) es).
Proof.
  induction es as [|e es IH]; cbn [map sumT].
  - apply sum_map_zero.
  - rewrite sum_map_add, IH. reflexivity.
Qed.
Lemma sum_map_scale {A} (f : A -> T) (k : T) l : sum (map (fun x => f x * k) l) = sum (map f l) * k.
Proof. induction l as [|x l IH]; cbn [map sumT]; [ring | rewrite IH; ring]. Qed.

(* an indicator picks one element of a duplicate-free list *)
Lemma sum_indicator (a : Z) (x : T) (l : list Z) :
  NoDup l -> In a l -> sum (map (fun v => if (a =? v)%Z then x else 0) l) = x.
Proof.
  induction l as [|y l IH]; intros Hnd Hin; [destruct Hin |].
  inversion Hnd as [|? ? Hny Hnd']; subst. cbn [map sumT].
  destruct (Z.eqb_spec a y) as [E | NE].
  - subst y. rewrite (sum_map_ext _ (fun _ => 0)); [rewrite sum_map_zero; ring |].
    intros v Hv. destruct (Z.eqb_spec a v) as [E | _]; [subst; contradiction | reflexivity].
  - destruct Hin as [E | Hin]; [congruence |]. rewrite (IH Hnd' Hin). ring.
Qed.

Variables (defect rot : Z -> T).

(* what the edge number i = (a, b) adds to the angle of vertex v *)
Definition contrib (ie : Z * edge) (v : Z) : T :=
  let '(i, (a, b)) := ie in
  (if (a =? v)%Z then (if sing_sign b v then rot i else - rot i) else 0) +
  (if (b =? v)%Z then (if sing_sign a v then rot i else - rot i) else 0).

Lemma vertex_angle_contrib E v :
  vertex_angle O defect E rot v = defect v + sum (map (fun ie => contrib ie v) (indexed E)).
Proof.
  unfold vertex_angle, angle_terms. f_equal. rewrite sum_flat_map. apply sum_map_ext. intros [i [a b]] _.
  unfold contrib. rewrite sum_app.
  destruct (a =? v)%Z, (b =? v)%Z; cbn [sumT]; ring.
Qed.

Lemma contrib_total (n : Z) (i a b : Z) :
  (0 <= a < n)%Z -> (0 <= b < n)%Z -> a <> b ->
  sum (map (contrib (i, (a, b))) (zrange n)) = 0.
Proof.
  intros Ha Hb Hab. unfold contrib. rewrite sum_map_add.
  rewrite (sum_map_ext (fun v => if (a =? v)%Z then if sing_sign b v then rot i else - rot i else 0)
                       (fun v => if (a =? v)%Z then (if sing_sign b a then rot i else - rot i) else 0)).
  2:{ intros v _. destruct (Z.eqb_spec a v); [subst; reflexivity | reflexivity]. }
  rewrite (sum_map_ext (fun v => if (b =? v)%Z then if sing_sign a v then rot i else - rot i else 0)
                       (fun v => if (b =? v)%Z then (if sing_sign a b then rot i else - rot i) else 0)).
  2:{ intros v _. destruct (Z.eqb_spec b v); [subst; reflexivity | reflexivity]. }
  rewrite !sum_indicator by (try apply NoDup_zrange; apply In_zrange; assumption).
  unfold sing_sign.
  destruct (b <? a)%Z eqn:E1, (a <? b)%Z eqn:E2; try ring;
    [apply Z.ltb_lt in E1; apply Z.ltb_lt in E2; lia | apply Z.ltb_ge in E1; apply Z.ltb_ge in E2; lia].
Qed.

Definition edges_ok (n : Z) (E : list edge) : Prop :=
  forall a b, In (a, b) E -> (0 <= a < n)%Z /\ (0 <= b < n)%Z /\ a <> b.

Lemma In_indexed_from {A} (l : list A) k i x : In (i, x) (indexed_from k l) -> In x l.
Proof.
  revert k. induction l as [|y l IH]; intros k H; [destruct H |].
  cbn [indexed_from] in H. destruct H as [H | H]; [inversion H; left; reflexivity | right; apply (IH _ H)].
Qed.

(* the telescoping sum: for ANY edge rotations *)
Theorem angle_sum (n : Z) (E : list edge) :
  edges_ok n E ->
  sum (map (vertex_angle O defect E rot) (zrange n)) = sum (map defect (zrange n)).
Proof.
  intros Hok.
  rewrite (sum_map_ext _ (fun v => defect v + sum (map (fun ie => contrib ie v) (indexed E))))
    by (intros v _; apply vertex_angle_contrib).
  rewrite sum_map_add, sum_swap.
  rewrite (sum_map_ext (fun e => sum (map (fun v => contrib e v) (zrange n))) (fun _ => 0)); [rewrite sum_map_zero; ring |].
  intros [i [a b]] Hin. apply In_indexed_from in Hin. destruct (Hok a b Hin) as [Ha [Hb Hab]].
  apply contrib_total; assumption.
Qed.

(* ---- the stored indices *)
Hypothesis Hval : forall x, sing_value O x = x * (oofZ O 2 * oinv O (opi O)).

Definition residue (E : list edge) (v : Z) : T :=
  let a := vertex_angle O defect E rot v in if sing_flag O a then 0 else sing_value O a.

Theorem index_sum (n : Z) (E : list edge) :
  edges_ok n E ->
  sum (map (singul O defect E rot) (zrange n)) + sum (map (residue E) (zrange n))
  = sing_value O (sum (map defect (zrange n))).
Proof.
  intros Hok. rewrite <- sum_map_add.
  rewrite (sum_map_ext _ (fun v => vertex_angle O defect E rot v * (oofZ O 2 * oinv O (opi O)))).
  2:{ intros v _. unfold singul, residue. destruct (sing_flag O (vertex_angle O defect E rot v)); rewrite Hval; ring. }
  rewrite sum_map_scale, (angle_sum n E Hok), Hval. reflexivity.
Qed.

(* with Gauss-Bonnet the total is 4 chi *)
Corollary index_sum_chi (n : Z) (E : list edge) (chi : T) :
  edges_ok n E -> opi O <> 0 -> oofZ O 2 = 1 + 1 ->
  sum (map defect (zrange n)) = (1 + 1) * opi O * chi ->
  sum (map (singul O defect E rot) (zrange n)) + sum (map (residue E) (zrange n)) = (1 + 1) * (1 + 1) * chi.
Proof.
  intros Hok Hpi H2 Hgb. rewrite (index_sum n E Hok), Hgb, Hval, H2. field. exact Hpi.
Qed.

(* ---- the attribute after re-flagging does not remember what it held before (both element kinds): the generated
   `resets` flags are true, so the stored indices are the ones of the field that was asked for *)
Theorem flag_history_independent :
  (forall (old : Z -> T) (E : list edge) (v : Z), singul_stored O old defect E rot v = singul O defect E rot v) /\
  (forall (old : T) (flag : bool) (val : T), vsingul_stored O old flag val = if flag then val else 0).
Proof. split; intros; reflexivity. Qed.

End Index.

(* the generated index expression has the form the theorems use: angle * (2 / pi) *)
Lemma sing_value_form (T : Type) (O : ops T) :
  field_theory (o0 O) (o1 O) (oadd O) (omul O) (osub O) (oopp O) (odiv O) (oinv O) eq ->
  forall x, sing_value O x = omul O x (omul O (oofZ O 2) (oinv O (opi O))).
Proof.
  intros Fth x. unfold sing_value. rewrite (Fdiv_def Fth).
  pose proof (F_R Fth) as Rth. apply (Radd_0_l Rth) || idtac.
  generalize (oofZ O 2) (oinv O (opi O)). intros a b.
  rewrite <- (Rmul_assoc Rth). reflexivity.
Qed.
