(* C18 - index quantum (PARTIAL): e^{i order angle_v} = 1 at a vertex whose faces form a closed fan, under three named
   hypotheses.  Over an arbitrary commutative ring with Leibniz equality (section hypothesis; axiom-free).

   `cis` stands for x |-> e^{i x}: a map from the numbers to the complex numbers that turns sums into products and 0
   into 1 (in R: x |-> (cos x, sin x), Examples.v).  angle_v = defect_v + the signed edge rotations at v (Model.angle_terms).
     H1 (matching rule): for the k-th term r of angle_terms,  (cis r)^order = fb_k * conj fa_k * rho_k  where fa_k / fb_k are the
        normalised representation vectors of the face before / after the edge (turning around v) and rho_k the order-th
        power of the transport between their bases: what picking the closest of the `order` roots means;
     H2 (closed fan): every face around v is entered once and left once: the fb's are a permutation of the fa's, all unit;
     H3 (holonomy): the transports around v compose to the angle defect:  (cis defect_v)^order * prod rho_k = 1.
   Conclusion: (cis angle_v)^order = 1, i.e. order * angle_v is a whole multiple of 2 pi, i.e. the stored index
   angle_v * 2/pi is a whole multiple of 4/order.  Missing for the full statement: H1 and H3 are facts about atan2 / phase /
   modulo (real analysis), and the last step e^{ix} = 1 -> x in 2 pi Z; each run checks the quantum numerically. *)
From Coq Require Import ZArith List Bool Ring Lia Permutation.
Import ListNotations.
Require Import MV.Lib.Base MV.C18.Ops MV.C18.Gen MV.C18.Model MV.C18.Proofs_Herm MV.C18.Proofs_Gauge.
Open Scope Z_scope.

Section Quantum.
Variable T : Type.
Variable O : ops T.
Hypothesis Rth : ring_theory (o0 O) (o1 O) (oadd O) (omul O) (osub O) (oopp O) eq.
Add Ring RingT : Rth.

Notation cx := (cx T).
Ltac cxr := unfold cadd, csub, cmul, cconj, cneg, cscale, cofre, cnorm2, c0, c1; cbn [fst snd]; f_equal; ring.

Variable cis : T -> cx.
Hypothesis cis_add : forall x y, cis (oadd O x y) = cmul O (cis x) (cis y).
Hypothesis cis_0 : cis (o0 O) = c1 O.

Fixpoint cprod (l : list cx) : cx := match l with [] => c1 O | x :: r => cmul O x (cprod r) end.

Lemma cis_sum l : cis (sumT O l) = cprod (map cis l).
Proof. induction l as [|x l IH]; cbn [sumT map cprod]; [exact cis_0 | rewrite cis_add, IH; reflexivity]. Qed.
Lemma cprod_app l m : cprod (l ++ m) = cmul O (cprod l) (cprod m).
Proof. induction l as [|x l IH]; cbn [app cprod]; [symmetry; apply (cmul_c1_l T O Rth) | rewrite IH; apply (cmul_assoc T O Rth)]. Qed.
Lemma cprod_perm l m : Permutation l m -> cprod l = cprod m.
Proof.
  induction 1; cbn [cprod]; try congruence.
  rewrite !(cmul_assoc T O Rth), (cmul_comm T O Rth y x). reflexivity.
Qed.
Lemma cprod_pow l n : cpow O (cprod l) n = cprod (map (fun z => cpow O z n) l).
Proof.
  induction l as [|x l IH]; cbn [map cprod]; [apply (cpow_c1 T O Rth) |].
  rewrite (cpow_mul T O Rth), IH. reflexivity.
Qed.
Lemma cprod_mul3 (l : list (cx * cx * cx)) :
  cprod (map (fun t : cx * cx * cx => let '(fa, fb, rho) := t in cmul O (cmul O fb (cconj O fa)) rho) l)
  = cmul O (cmul O (cprod (map (fun t : cx * cx * cx => snd (fst t)) l))
                   (cconj O (cprod (map (fun t : cx * cx * cx => fst (fst t)) l))))
           (cprod (map (fun t : cx * cx * cx => snd t) l)).
Proof.
  induction l as [|[[fa fb] rho] l IH]; cbn [map cprod fst snd].
  - cxr.
  - rewrite IH, (cconj_mul T O Rth). cxr.
Qed.
Lemma cprod_unit l : Forall (unitc T O) l -> unitc T O (cprod l).
Proof. induction 1; cbn [cprod]; [apply (unitc_c1 T O Rth) | apply (unitc_mul T O Rth); assumption]. Qed.

Theorem quantum_partial (order : nat) (defect : Z -> T) (E : list edge) (rot : Z -> T) (v : Z)
    (fan : list (cx * cx * cx)) :
  (* H1 *) Forall2 (fun r (t : cx * cx * cx) => let '(fa, fb, rho) := t in
                      cpow O (cis r) order = cmul O (cmul O fb (cconj O fa)) rho) (angle_terms O E rot v) fan ->
  (* H2 *) Permutation (map (fun t : cx * cx * cx => fst (fst t)) fan) (map (fun t : cx * cx * cx => snd (fst t)) fan) ->
           Forall (unitc T O) (map (fun t : cx * cx * cx => fst (fst t)) fan) ->
  (* H3 *) cmul O (cpow O (cis (defect v)) order) (cprod (map (fun t : cx * cx * cx => snd t) fan)) = c1 O ->
  cpow O (cis (vertex_angle O defect E rot v)) order = c1 O.
Proof.
  intros H1 H2 Hu H3. unfold vertex_angle. rewrite cis_add, (cpow_mul T O Rth), cis_sum, cprod_pow, map_map.
  assert (E1 : map (fun x => cpow O (cis x) order) (angle_terms O E rot v)
               = map (fun t : cx * cx * cx => let '(fa, fb, rho) := t in cmul O (cmul O fb (cconj O fa)) rho) fan).
  { clear H2 Hu H3. induction H1 as [|r [[fa fb] rho] rs fs Hr _ IH]; cbn [map]; [reflexivity | rewrite Hr, IH; reflexivity]. }
  rewrite E1, cprod_mul3, <- (cprod_perm _ _ H2).
  rewrite (unit_conj T O Rth _ (cprod_unit _ Hu)), (cmul_c1_l T O Rth). exact H3.
Qed.

(* ------------------------------------------------------------------ discharging H2 and reducing H1 *)
(* H2 from the cyclic order of the faces around v: the fan built from the list l of (representation vector of the j-th face,
   rho of the edge leaving it towards the next face) enters every face once and leaves it once *)
Definition cyc_fan (l : list (cx * cx)) : list (cx * cx * cx) :=
  let fas := map fst l in
  combine (combine fas (tl fas ++ firstn 1 fas)) (map snd l).

Lemma map_fst_combine {A B} (a : list A) (b : list B) : length a = length b -> map fst (combine a b) = a.
Proof. revert b. induction a as [|x a IH]; intros [|y b] H; cbn in *; try discriminate; [reflexivity | f_equal; apply IH; congruence]. Qed.
Lemma map_snd_combine {A B} (a : list A) (b : list B) : length a = length b -> map snd (combine a b) = b.
Proof. revert b. induction a as [|x a IH]; intros [|y b] H; cbn in *; try discriminate; [reflexivity | f_equal; apply IH; congruence]. Qed.
Lemma rot1_length {A} (a : list A) : length (tl a ++ firstn 1 a) = length a.
Proof. destruct a as [|x a]; cbn; [reflexivity | rewrite app_length; cbn; apply Nat.add_1_r]. Qed.

Lemma cyc_fan_fa l : map (fun t : cx * cx * cx => fst (fst t)) (cyc_fan l) = map fst l.
Proof.
  unfold cyc_fan. rewrite <- (map_map fst fst).
  rewrite map_fst_combine by (rewrite combine_length, rot1_length, Nat.min_id, !map_length; reflexivity).
  apply map_fst_combine. rewrite rot1_length. reflexivity.
Qed.
Lemma cyc_fan_fb l : map (fun t : cx * cx * cx => snd (fst t)) (cyc_fan l) = tl (map fst l) ++ firstn 1 (map fst l).
Proof.
  unfold cyc_fan. rewrite <- (map_map fst snd).
  rewrite map_fst_combine by (rewrite combine_length, rot1_length, Nat.min_id, !map_length; reflexivity).
  apply map_snd_combine. rewrite rot1_length. reflexivity.
Qed.
Lemma cyc_fan_rho l : map (fun t : cx * cx * cx => snd t) (cyc_fan l) = map snd l.
Proof.
  unfold cyc_fan. apply map_snd_combine.
  rewrite combine_length, rot1_length, Nat.min_id, !map_length. reflexivity.
Qed.
Lemma cyc_fan_closed l :
  Permutation (map (fun t : cx * cx * cx => fst (fst t)) (cyc_fan l)) (map (fun t : cx * cx * cx => snd (fst t)) (cyc_fan l)).
Proof.
  rewrite cyc_fan_fa, cyc_fan_fb. destruct (map fst l) as [|x a]; cbn; [constructor | apply Permutation_cons_append].
Qed.

(* H1 from the roots: if the rotation r is the angle between a branch ub of the face after the edge and a branch ua of the
   face before it, each measured against the edge (directions wa, wb of the edge in the two bases), then its order-th
   power forgets which branches were picked:  (e^{ir})^k = fb conj(fa) (wa conj wb)^k  as soon as ua^k = fa, ub^k = fb *)
Lemma matching_from_roots (k : nat) (r : T) (fa fb ua ub wa wb : cx) :
  cpow O ua k = fa -> cpow O ub k = fb ->
  cis r = cmul O (cmul O ub (cconj O wb)) (cconj O (cmul O ua (cconj O wa))) ->
  cpow O (cis r) k = cmul O (cmul O fb (cconj O fa)) (cpow O (cmul O wa (cconj O wb)) k).
Proof.
  intros Ha Hb Hr. rewrite Hr, <- Ha, <- Hb.
  rewrite !(cpow_mul T O Rth), <- !(cconj_pow T O Rth), !(cpow_mul T O Rth), <- !(cconj_pow T O Rth).
  rewrite (cconj_mul T O Rth), (cconj_invol T O Rth). cxr.
Qed.

(* the quantum theorem with H2 discharged (cyclic fan) and H1 reduced to the root property of the picked branches *)
Theorem quantum_partial_cyclic (order : nat) (defect : Z -> T) (E : list edge) (rot : Z -> T) (v : Z) (l : list (cx * cx)) :
  (* the k-th signed rotation at v is the angle between branches of the two faces it separates, measured against the edge *)
  Forall2 (fun r (t : cx * cx * cx) => let '(fa, fb, rho) := t in
             exists ua ub wa wb, cpow O ua order = fa /\ cpow O ub order = fb /\
               rho = cpow O (cmul O wa (cconj O wb)) order /\
               cis r = cmul O (cmul O ub (cconj O wb)) (cconj O (cmul O ua (cconj O wa))))
          (angle_terms O E rot v) (cyc_fan l) ->
  (* the representation vectors around v have modulus 1 *)
  Forall (unitc T O) (map fst l) ->
  (* holonomy: the transports around v compose to the angle defect *)
  cmul O (cpow O (cis (defect v)) order) (cprod (map snd l)) = c1 O ->
  cpow O (cis (vertex_angle O defect E rot v)) order = c1 O.
Proof.
  intros H1 Hu H3. apply (quantum_partial order defect E rot v (cyc_fan l)).
  - clear Hu H3. induction H1 as [|r [[fa fb] rho] rs fs Hr _ IH]; constructor; [| exact IH].
    destruct Hr as [ua [ub [wa [wb [Ea [Eb [Er Ec]]]]]]].
    rewrite Er. apply (matching_from_roots order r fa fb ua ub wa wb Ea Eb Ec).
  - apply cyc_fan_closed.
  - rewrite cyc_fan_fa. exact Hu.
  - rewrite cyc_fan_rho. exact H3.
Qed.

End Quantum.
