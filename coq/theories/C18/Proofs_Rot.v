(* C18 - the constrained frame of a face with exactly one feature edge does not depend on which vertex the face starts from:
   the connection rotates such a face to start at its feature edge, so the three rotations of the face get the same rotated
   triple, hence the same tangent basis (X along the feature edge) and - by C18_constraint - the same constraint c1.
   Pure combinatorics (any numeric type); closed under the global context. *)
From Coq Require Import ZArith List Bool.
Import ListNotations.
Require Import MV.Lib.Base MV.C18.Ops MV.C18.Gen MV.C18.Model.
Open Scope Z_scope.

(* exactly one of the three edges of (A, B, C) is a feature edge *)
Definition one_feature_edge (E : list edge) (FE : list Z) (f : face) : bool :=
  let '(A, B, C) := f in
  let x := memZ (edge_id E A B) FE in let y := memZ (edge_id E B C) FE in let z := memZ (edge_id E C A) FE in
  (x && negb y && negb z) || (negb x && y && negb z) || (negb x && negb y && z).

Theorem conn_face_rotation (E : list edge) (FE : list Z) (A B C : Z) :
  one_feature_edge E FE (A, B, C) = true ->
  conn_face E FE (B, C, A) = conn_face E FE (A, B, C) /\ conn_face E FE (C, A, B) = conn_face E FE (A, B, C).
Proof.
  unfold one_feature_edge, conn_face.
  destruct (memZ (edge_id E A B) FE), (memZ (edge_id E B C) FE), (memZ (edge_id E C A) FE); cbn; intros H;
    try discriminate; split; reflexivity.
Qed.

Lemma one_feature_edge_rot (E : list edge) (FE : list Z) (A B C : Z) :
  one_feature_edge E FE (B, C, A) = one_feature_edge E FE (A, B, C).
Proof.
  unfold one_feature_edge.
  destruct (memZ (edge_id E A B) FE), (memZ (edge_id E B C) FE), (memZ (edge_id E C A) FE); reflexivity.
Qed.

Section Rot.
Context {T : Type} (O : ops T).

(* same rotated triple -> same tangent basis, whatever the coordinates *)
Theorem conn_base_rotation (V : list (vec T)) (E : list edge) (FE : list Z) (A B C : Z) :
  one_feature_edge E FE (A, B, C) = true ->
  conn_base O V E FE (B, C, A) = conn_base O V E FE (A, B, C) /\ conn_base O V E FE (C, A, B) = conn_base O V E FE (A, B, C).
Proof.
  intros H. destruct (conn_face_rotation E FE A B C H) as [H1 H2]. unfold conn_base. rewrite H1, H2. split; reflexivity.
Qed.

(* the first vector of that basis is the unit vector of the feature edge, traversed as the face traverses it *)
Theorem conn_base_along_feature (V : list (vec T)) (E : list edge) (FE : list Z) (f : face) (A B C : Z) :
  conn_face E FE f = (A, B, C) ->
  fst (conn_base O V E FE f) = vnormalized O (vsub O (vnth O V B) (vnth O V A)).
Proof. intros H. unfold conn_base. rewrite H. reflexivity. Qed.
End Rot.

(* ---- rotating the faces of the list (each face may start from any of its vertices) changes nothing in the combinatorial
   layer: the face left of a directed edge, the dual edges, the constrained faces and hence the free / fixed partition *)
Definition rot_of (f f' : face) : Prop :=
  let '(p, q, r) := f in f' = (p, q, r) \/ f' = (q, r, p) \/ f' = (r, p, q).

Lemma he_in_face_rot (f f' : face) (u v : Z) : rot_of f f' -> he_in_face f' u v = he_in_face f u v.
Proof.
  destruct f as [[p q] r]. intros [H | [H | H]]; subst f'; cbn [he_in_face]; [reflexivity | |];
    destruct ((p =? u) && (q =? v)), ((q =? u) && (r =? v)), ((r =? u) && (p =? v)); reflexivity.
Qed.

Lemma direct_face_from_rot (F F' : list face) (k : Z) (u v : Z) (acc : option Z) :
  Forall2 rot_of F F' -> direct_face_from k F' u v acc = direct_face_from k F u v acc.
Proof.
  intros H. revert k acc. induction H as [|f f' F F' Hf _ IH]; intros k acc; cbn [direct_face_from]; [reflexivity |].
  rewrite (he_in_face_rot f f' u v Hf). apply IH.
Qed.

Theorem face_rotation_combinatorics (F F' : list face) (E : list edge) (FE : list Z) :
  Forall2 rot_of F F' ->
  (forall u v, direct_face F' u v = direct_face F u v) /\
  dual_pairs F' E = dual_pairs F E /\
  (forall t, fixed_face F' E FE t = fixed_face F E FE t) /\
  zlen F' = zlen F /\
  part_free (zlen F') (fixed_face F' E FE) = part_free (zlen F) (fixed_face F E FE) /\
  part_fixed (zlen F') (fixed_face F' E FE) = part_fixed (zlen F) (fixed_face F E FE).
Proof.
  intros H.
  assert (D : forall u v, direct_face F' u v = direct_face F u v) by (intros u v; apply direct_face_from_rot, H).
  assert (FX : forall t, fixed_face F' E FE t = fixed_face F E FE t).
  { intros t. unfold fixed_face. induction FE as [|e FE IH]; cbn [existsb]; [reflexivity |].
    rewrite IH. destruct (znth E e (0, 0)) as [u v]. rewrite !D. reflexivity. }
  assert (LN : zlen F' = zlen F).
  { unfold zlen. f_equal. clear D FX. induction H; cbn [length]; [reflexivity | f_equal; assumption]. }
  split; [exact D |]. split; [| split; [exact FX | split; [exact LN | split]]].
  - unfold dual_pairs. apply flat_map_ext. intros [i [u v]]. rewrite !D. reflexivity.
  - unfold part_free. rewrite LN. apply filter_ext. intros t. rewrite FX. reflexivity.
  - unfold part_fixed. rewrite LN. apply filter_ext. exact FX.
Qed.

Example ex_rot_of : Forall2 rot_of [(0, 1, 2); (0, 2, 3)] [(1, 2, 0); (3, 0, 2)].
Proof.
  constructor; [cbn; right; left; reflexivity | constructor; [cbn; right; right; reflexivity | constructor]].
Qed.


(* the statement exported by Props.v *)
Theorem rotation_all :
  forall (E : list edge) (FE : list Z) (A B C : Z),
    one_feature_edge E FE (A, B, C) = true ->
    (one_feature_edge E FE (B, C, A) = true /\ one_feature_edge E FE (C, A, B) = true) /\
    (conn_face E FE (B, C, A) = conn_face E FE (A, B, C) /\ conn_face E FE (C, A, B) = conn_face E FE (A, B, C)) /\
    (forall (T : Type) (O : ops T) (V : list (vec T)),
        conn_base O V E FE (B, C, A) = conn_base O V E FE (A, B, C) /\ conn_base O V E FE (C, A, B) = conn_base O V E FE (A, B, C)).
Proof.
  intros E FE A B C H. split; [| split].
  - split; [rewrite one_feature_edge_rot; exact H | rewrite (one_feature_edge_rot E FE B C A), one_feature_edge_rot; exact H].
  - exact (conn_face_rotation E FE A B C H).
  - intros T O V. exact (conn_base_rotation O V E FE A B C H).
Qed.

(* non-vacuity: a square cut in two, border edge 0-1 only: face (0,1,2) has exactly one feature edge, in whichever rotation *)
Example ex_one_feature_edge :
  one_feature_edge [(0, 1); (1, 2); (0, 2); (2, 3); (0, 3)] [0] (0, 1, 2) = true /\
  conn_face [(0, 1); (1, 2); (0, 2); (2, 3); (0, 3)] [0] (1, 2, 0) = (0, 1, 2).
Proof. split; reflexivity. Qed.
