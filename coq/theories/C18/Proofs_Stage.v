(* C18 - the stage plumbing of FrameField.run() (generated: Gen.run_step) and the protocols a caller may follow.
   run() executes initialize exactly when the field is not initialised and optimize exactly when it is not smoothed - the two
   tests are independent - and leaves both flags set; hence after ANY sequence of calls to initialize / optimize / run (= __call__)
   on a fresh field that contains a run(), an optimisation has been executed (and an initialisation before it was needed).
   No arithmetic; closed under the global context. *)
From Coq Require Import List Bool String.
Import ListNotations.
Require Import MV.C18.Ops MV.C18.Gen MV.C18.Model.

Theorem run_step_spec (i s : bool) (l : list stage) :
  run_step (i, s, l) = (true, true, l ++ (if i then [] else [SInit]) ++ (if s then [] else [SOpt])).
Proof.
  destruct i, s; unfold run_step, st_push, st_seti, st_sets, st_i, st_s, st_stages; cbn [fst snd negb];
    rewrite ?app_nil_r, <- ?app_assoc; reflexivity.
Qed.

Definition inv (st : ffstate) : Prop :=
  (st_s st = true -> In SOpt (st_stages st)) /\ (st_i st = true -> In SInit (st_stages st)).

Lemma exec_call_mono a b st c x : In x (st_stages st) -> In x (st_stages (exec_call a b st c)).
Proof.
  destruct st as [[i s] l]. intros H. destruct c; cbn [exec_call].
  - destruct a; cbn; apply in_or_app; left; exact H.
  - destruct i; cbn [st_i fst]; [destruct b; cbn; apply in_or_app; left; exact H | exact H].
  - rewrite run_step_spec. cbn. apply in_or_app. left. exact H.
Qed.
Lemma exec_call_inv a b st c : inv st -> inv (exec_call a b st c).
Proof.
  destruct st as [[i s] l]. intros [H1 H2]. cbn in H1, H2. destruct c; cbn [exec_call].
  - destruct a; split; cbn; intros E; try (apply in_or_app; right; left; reflexivity);
      try (apply in_or_app; left; auto).
  - destruct i; cbn [st_i fst]; [| split; cbn; assumption].
    destruct b; split; cbn; intros E; try (apply in_or_app; right; left; reflexivity); apply in_or_app; left; auto.
  - rewrite run_step_spec. split; cbn; intros _.
    + destruct s; [apply in_or_app; left; auto |]. apply in_or_app. right. apply in_or_app. right. left. reflexivity.
    + destruct i; [apply in_or_app; left; auto |]. apply in_or_app. right. apply in_or_app. left. left. reflexivity.
Qed.
Lemma run_executes st : inv st -> In SOpt (st_stages (run_step st)) /\ In SInit (st_stages (run_step st)).
Proof.
  intros H. pose proof (exec_call_inv true true st CRun H) as [H1 H2]. cbn [exec_call] in H1, H2.
  destruct st as [[i s] l]. rewrite run_step_spec in *. split; [apply H1 | apply H2]; reflexivity.
Qed.

Lemma fold_mono a b p st x : In x (st_stages st) -> In x (st_stages (fold_left (exec_call a b) p st)).
Proof. revert st. induction p as [|c p IH]; intros st H; cbn [fold_left]; [exact H | apply IH, exec_call_mono, H]. Qed.

Theorem protocol_optimizes (a b : bool) (p : list call) :
  In CRun p ->
  In SOpt (st_stages (exec_calls a b p)) /\ In SInit (st_stages (exec_calls a b p)).
Proof.
  unfold exec_calls. assert (H0 : inv fresh_state) by (split; cbn; discriminate).
  revert H0. generalize fresh_state. induction p as [|c p IH]; intros st Hinv Hin; [destruct Hin |].
  cbn [fold_left]. destruct Hin as [E | Hin].
  - subst c. cbn [exec_call]. destruct (run_executes st Hinv) as [H1 H2]. split; apply fold_mono; assumption.
  - apply IH; [apply exec_call_inv, Hinv | exact Hin].
Qed.

(* the statement exported by Props.v *)
Theorem stage_all :
  (forall (i s : bool) (l : list stage),
      run_step (i, s, l) = (true, true, l ++ (if i then [] else [SInit]) ++ (if s then [] else [SOpt]))) /\
  (forall (init_sets opt_sets : bool) (p : list call), In CRun p ->
      In SOpt (st_stages (exec_calls init_sets opt_sets p)) /\ In SInit (st_stages (exec_calls init_sets opt_sets p))) /\
  initf_sets_initialized = true /\ initv_sets_initialized = true.
Proof. split; [exact run_step_spec | split; [exact protocol_optimizes | split; reflexivity]]. Qed.

(* what _initialize_attributes leaves cached on the mesh (generated from the persistent= flags): the face-based field
   nothing, the vertex-based field corner angles, cotangents and vertex normals - the known caches of finding
   history/stale-geometry-cache; anything else cached there would be read back, stale, by later computations *)
Theorem init_caches :
  initf_cached = nil /\ initv_cached = ("corner_angles" :: "cotangent" :: "vertex_normals" :: nil)%string.
Proof. split; reflexivity. Qed.
