(* C18 - executable model of the surface frame fields of mouette/processing/framefield/{faces2d,vertex2d,base}.py,
   of the face connection of mouette/processing/connection.py and of the connection Laplacians of
   mouette/operators/laplacian_op.py, over a bare record of numeric operations (Ops.v).

   Unit complex numbers are handled algebraically: the model never computes an angle.  Where the code stores an
   angle theta (a transport, a direction) the model carries the unit complex number e^{i theta}:
       atan2(y, x)        ~>  (x, y) / |(x, y)|
       a1 - a2            ~>  z1 * conj z2
       rect(1, k * a)     ~>  z ^ k
       a - pi             ~>  z * (-1)
   Every expression, constant, exponent and sign pattern comes from Gen.v, which the translator regenerates from the
   source on every run.  The linear solvers (scipy spsolve / factorized / eigsh, the inverse power iteration) are NOT
   modelled: they are parameters of the model (section variables); theorems hold for every solver that returns a
   solution of the system it is handed.  No proofs in this file.

   Inputs: vertex coordinates, the face list (triangles), the edge list AS STORED BY THE MESH, the feature edges in the
   order the code iterates over them; for the vertex-based field also the vertex bases and the transport angles of
   SurfaceConnectionVertices (as unit complex numbers) - they rescale corner angles, which no field operation expresses. *)
From Coq Require Import ZArith List Bool.
Import ListNotations.
Require Import MV.Lib.Base MV.C18.Ops MV.C18.Gen.
Open Scope Z_scope.

Definition face := (Z * Z * Z)%type.
Definition edge := (Z * Z)%type.

Fixpoint indexed_from {A} (i : Z) (l : list A) : list (Z * A) :=
  match l with [] => [] | x :: r => (i, x) :: indexed_from (i + 1) r end.
Definition indexed {A} (l : list A) : list (Z * A) := indexed_from 0 l.
Definition zlen {A} (l : list A) : Z := Z.of_nat (length l).
Definition memZ (x : Z) (l : list Z) : bool := existsb (Z.eqb x) l.

(* ------------------------------------------------------------------ connectivity read off the lists *)
(* SurfaceMesh half-edges: is u -> v a directed edge of the face? *)
Definition he_in_face (f : face) (u v : Z) : bool :=
  let '(p, q, r) := f in
  ((p =? u) && (q =? v)) || ((q =? u) && (r =? v)) || ((r =? u) && (p =? v)).

Fixpoint direct_face_from (i : Z) (F : list face) (u v : Z) (acc : option Z) : option Z :=
  match F with
  | [] => acc
  | f :: r => direct_face_from (i + 1) r u v (if he_in_face f u v then Some i else acc)
  end.
(* connectivity.direct_face(u, v): the (last) face holding the half-edge u -> v *)
Definition direct_face (F : list face) (u v : Z) : option Z := direct_face_from 0 F u v None.

Fixpoint edge_id_from (i : Z) (E : list edge) (u v : Z) (acc : Z) : Z :=
  match E with
  | [] => acc
  | (a, b) :: r => edge_id_from (i + 1) r u v
                     (if ((a =? u) && (b =? v)) || ((a =? v) && (b =? u)) then i else acc)
  end.
(* connectivity.edge_id (None is rendered -1: never a valid index) *)
Definition edge_id (E : list edge) (u v : Z) : Z := edge_id_from 0 E u v (-1).

(* every edge with a face on both sides: (edge id, (u, v), direct face T1, indirect face T2) *)
Definition dual_pairs (F : list face) (E : list edge) : list (Z * edge * Z * Z) :=
  flat_map (fun ie : Z * edge => let '(i, (u, v)) := ie in
     match direct_face F u v, direct_face F v u with
     | Some t1, Some t2 => [(i, (u, v), t1, t2)]
     | _, _ => []
     end) (indexed E).

(* "last write wins" on an association list of writes (a Python dict / array filled in a loop) *)
Definition last_write {A} (w : list (Z * A)) (k : Z) (d : A) : A :=
  fold_left (fun acc kv => if fst kv =? k then snd kv else acc) w d.

(* ================================================================== the public stage methods and the order a caller uses them in
   initialize() / optimize() / run() (= __call__): the flags each one reads and sets, the stages it executes.  optimize()
   on a field that was never initialised raises (_check_init): nothing is executed. *)
Inductive call := CInit | COpt | CRun.
Definition exec_call (init_sets opt_sets : bool) (st : ffstate) (c : call) : ffstate :=
  match c with
  | CInit => let st1 := st_push SInit st in if init_sets then st_seti true st1 else st1
  | COpt => if st_i st then (let st1 := st_push SOpt st in if opt_sets then st_sets true st1 else st1) else st
  | CRun => run_step st
  end.
Definition fresh_state : ffstate := (false, false, []).
Definition exec_calls (init_sets opt_sets : bool) (p : list call) : ffstate :=
  fold_left (exec_call init_sets opt_sets) p fresh_state.

Section Model.
Context {T : Type} (O : ops T).
Notation vec := (vec T).
Notation cx := (cx T).
Notation cmat := (cmat T).

Definition vnth (V : list vec) (i : Z) : vec := znth V i (vzero O).
Definition cnth (l : list cx) (i : Z) : cx := znth l i (c0 O).
Definition tnth (l : list T) (i : Z) : T := znth l i (o0 O).

(* geometry.face_basis (X, Y only) *)
Definition face_basis (pA pB pC : vec) : vec * vec :=
  let X := vnormalized O (vsub O pB pA) in
  let Zv := vnormalized O (vcross O X (vsub O pC pA)) in
  let Y := vnormalized O (vcross O Zv X) in
  (X, Y).

(* ================================================================== connection.py: SurfaceConnectionFaces *)
(* rotate the face so that its first feature edge comes first (np.argmax of the three flags, utils.offset) *)
Definition conn_face (E : list edge) (FE : list Z) (f : face) : face :=
  let '(A, B, C) := f in
  if memZ (edge_id E A B) FE then (A, B, C)
  else if memZ (edge_id E B C) FE then (B, C, A)
  else if memZ (edge_id E C A) FE then (C, A, B) else (A, B, C).
Definition conn_base (V : list vec) (E : list edge) (FE : list Z) (f : face) : vec * vec :=
  let '(a, b, c) := conn_face E FE f in face_basis (vnth V a) (vnth V b) (vnth V c).
Definition conn_bases (V : list vec) (F : list face) (E : list edge) (FE : list Z) : list (vec * vec) :=
  map (conn_base V E FE) F.
Definition bnth (B : list (vec * vec)) (i : Z) : vec * vec := znth B i (vzero O, vzero O).

(* e^{i angle} of the edge vector in the basis of a face *)
Definition edge_unit (B : list (vec * vec)) (Ev : vec) (t : Z) : cx :=
  let '(X, Y) := bnth B t in cunit O (conn_dir O Ev X Y).
(* unit complex numbers of _transport[(T1,T2)] and _transport[(T2,T1)] for the interior edge (u, v) *)
Definition face_transport (V : list vec) (B : list (vec * vec)) (uv : edge) (t1 t2 : Z) : cx * cx :=
  let Ev := conn_edge_vec O (vnth V (fst uv)) (vnth V (snd uv)) in
  let w1 := edge_unit B Ev t1 in let w2 := edge_unit B Ev t2 in
  (conn_t12 O w1 w2, conn_t21 O w1 w2).

(* ================================================================== laplacian_op.laplacian_triangles *)
(* Nabla has the two entries (ie, T1) = a and (ie, T2) = b in row ie; Nabla^* D Nabla is the sum over the rows of the
   2 x 2 blocks  star(x) * d * y  (d absent without cotan weights) *)
Definition wmul (d : option T) (z : cx) : cx := match d with Some x => cscale O x z | None => z end.
Definition lapt_block (d : option T) (a b : cx) (t1 t2 : Z) : cmat :=
  [(t1, t1, cmul O (wmul d (lapt_star O a)) a);
   (t1, t2, cmul O (wmul d (lapt_star O a)) b);
   (t2, t1, cmul O (wmul d (lapt_star O b)) a);
   (t2, t2, cmul O (wmul d (lapt_star O b)) b)].
(* tr: the transport (unit complex pair) used for the dual edge;  D: the diagonal of cotan_edge_diagonal, or None *)
Definition lap_faces_gen (order : nat) (D : option (list T)) (tr : Z * edge * Z * Z -> cx * cx)
    (P : list (Z * edge * Z * Z)) : cmat :=
  flat_map (fun p : Z * edge * Z * Z => let '(ie, uv, t1, t2) := p in
     let '(t12, t21) := tr p in
     lapt_block (match D with Some l => Some (tnth l ie) | None => None end)
                (lapt_n1 O) (lapt_n2 O order t12 t21) t1 t2) P.
Definition lap_faces (order : nat) (D : option (list T)) (V : list vec) (F : list face) (E : list edge) (FE : list Z) : cmat :=
  let B := conn_bases V F E FE in
  lap_faces_gen order D (fun p => let '(ie, uv, t1, t2) := p in face_transport V B uv t1 t2) (dual_pairs F E).
(* the scalar operator (connection = None) *)
Definition lap_faces_scalar (D : option (list T)) (P : list (Z * edge * Z * Z)) : cmat :=
  flat_map (fun p : Z * edge * Z * Z => let '(ie, uv, t1, t2) := p in
     lapt_block (match D with Some l => Some (tnth l ie) | None => None end)
                (lapt_n1_flat O) (lapt_n2_flat O) t1 t2) P.

(* ================================================================== laplacian_op.laplacian (vertices) *)
(* wf: the three per-face weights (a, b, c);  tr i j: e^{i transport(i,j)} *)
Definition lap_vertices_gen (order : nat) (wf : Z * face -> T * T * T) (tr : Z -> Z -> cx) (F : list face) : cmat :=
  flat_map (fun itf : Z * face => let '(p, q, r) := snd itf in let '(a, b, c) := wf itf in
     flat_map (fun t : Z * Z * T => let '(i, j, v) := t in lapv_coeffs O order i j v (tr i j) (tr j i))
              (lapv_edges p q r a b c)) (indexed F).
Definition lap_vertices_scalar (wf : Z * face -> T * T * T) (F : list face) : cmat :=
  flat_map (fun itf : Z * face => let '(p, q, r) := snd itf in let '(a, b, c) := wf itf in
     flat_map (fun t : Z * Z * T => let '(i, j, v) := t in lapv_coeffs_flat O i j v)
              (lapv_edges p q r a b c)) (indexed F).
(* cots: the cotangent attribute, one triple per face in corner order; None = uniform weights *)
Definition vertex_weights (cots : option (list (T * T * T))) (itf : Z * face) : T * T * T :=
  match cots with
  | Some l => let '(cp, cq, cr) := znth l (fst itf) (o0 O, o0 O, o0 O) in lapv_w_cotan O cp cq cr
  | None => lapv_w_uniform O
  end.
(* the transport dictionary as a function *)
Definition tr_lookup (trs : list (Z * Z * cx)) (i j : Z) : cx :=
  fold_left (fun acc t => let '(a, b, w) := t in if (a =? i) && (b =? j) then w else acc) trs (c1 O).
Definition lap_vertices (order : nat) (cots : option (list (T * T * T))) (trs : list (Z * Z * cx)) (F : list face) : cmat :=
  lap_vertices_gen order (vertex_weights cots) (tr_lookup trs) F.

(* ================================================================== faces2d._initialize_variables *)
(* the writes var[T] = (c/abs(c))**k performed for feature edge number e, in order *)
Definition cstrf_writes (order : nat) (V : list vec) (F : list face) (E : list edge) (B : list (vec * vec)) (e : Z)
    : list (Z * cx) :=
  let '(e1, e2) := znth E e (0, 0) in
  let ev := cstrf_edge_vec O (vnth V e1) (vnth V e2) in
  flat_map (fun t : option Z => match t with
     | Some tf => let '(X, Y) := bnth B tf in [(tf, cstrf_value O order (cstrf_local O ev X Y))]
     | None => [] end) [direct_face F e1 e2; direct_face F e2 e1].
Definition init_faces_writes (order : nat) V F E FE : list (Z * cx) :=
  flat_map (cstrf_writes order V F E (conn_bases V F E FE)) FE.
Definition init_faces (order : nat) V F E FE : Z -> cx :=
  fun t => last_write (init_faces_writes order V F E FE) t (c0 O).

(* ================================================================== vertex2d._initialize_variables *)
(* Bv: vertex bases (X, Y); trs: transports *)
Definition add_if (cur v : cx) : cx :=
  if cstrv_add_guard O (cabs O (cadd O cur v)) then cadd O cur v else cur.
(* one accumulation step on the association state var (function Z -> cx) *)
Definition fupd (f : Z -> cx) (k : Z) (v : cx) : Z -> cx := fun i => if i =? k then v else f i.
Definition init_vertices_acc (smooth_normals : bool) (order : nat) (V : list vec) (E : list edge)
    (Bv : list (vec * vec)) (tr : Z -> Z -> cx) (FE : list Z) : Z -> cx :=
  fold_left (fun var e =>
    let '(A, B) := znth E e (0, 0) in
    if cstrv_smooth_branch smooth_normals (Z.of_nat order) then
      let ev := cstrv_edge_vec O (vnth V A) (vnth V B) in
      let pw (i : Z) := let '(X, Y) := bnth Bv i in
                        cpow O (cunit O (conn_project O X Y ev)) (cstrv_power order) in
      let var1 := fupd var B (add_if (var B) (pw B)) in
      fupd var1 A (add_if (var1 A) (pw A))
    else
      let var1 := fupd var A (cadd O (var A) (cpow O (tr A B) (cstrv_power order))) in
      fupd var1 B (cadd O (var1 B) (cpow O (tr B A) (cstrv_power order))))
    FE (fun _ => c0 O).
Definition feature_vertex (E : list edge) (FE : list Z) (v : Z) : bool :=
  existsb (fun e => let '(A, B) := znth E e (0, 0) in (A =? v) || (B =? v)) FE.
Definition init_vertices smooth_normals order V E Bv tr FE : Z -> cx :=
  fun v => let z := init_vertices_acc smooth_normals order V E Bv tr FE v in
           if feature_vertex E FE v && cstrv_norm_guard O (cabs O z) then cdivr O z (cabs O z) else z.

(* ================================================================== fixed / free partition *)
(* faces2d.optimize: a face is fixed when it is the direct or the indirect face of a feature edge *)
Definition fixed_face (F : list face) (E : list edge) (FE : list Z) (t : Z) : bool :=
  existsb (fun e => let '(u, v) := znth E e (0, 0) in
     (optf_fix_direct && match direct_face F u v with Some t1 => t1 =? t | None => false end) ||
     (optf_fix_indirect && match direct_face F v u with Some t2 => t2 =? t | None => false end)) FE.
Definition part_free (n : Z) (fixedb : Z -> bool) : list Z := filter (fun i => negb (fixedb i)) (zrange n).
Definition part_fixed (n : Z) (fixedb : Z -> bool) : list Z := filter fixedb (zrange n).

(* ================================================================== base.normalize, optimize (bordered branch) *)
Definition normalize_fn (z : Z -> cx) : Z -> cx := fun i => norm_elem O (z i).
Definition mask (S : list Z) (x : Z -> cx) : Z -> cx := fun j => if memZ j S then x j else c0 O.
(* right-hand side handed to the solver, as a function of the (free) row:  - (L_IB z_B)_i *)
Definition opt_rhs_fn (rhs : cx -> cx) (L : cmat) (fixed : list Z) (var : Z -> cx) : Z -> cx :=
  fun i => rhs (mrow_dot O L i (mask fixed var)).
Definition scatter (var : Z -> cx) (free : list Z) (res : Z -> cx) : Z -> cx :=
  fun i => if memZ i free then res i else var i.

Section Optimize.
(* spsolve(lapI, -valB): receives the operator, the free set and the right-hand side; its answer is read on the free set *)
Variable solve : cmat -> list Z -> (Z -> cx) -> (Z -> cx).
(* one diffusion solve  spsolve(lapI - alpha AI, -valB - alpha AI var_free)  (alpha from eigsh): any function *)
Variable smooth : (Z -> cx) -> (Z -> cx).

Fixpoint smooth_loop (k : nat) (free : list Z) (var : Z -> cx) : Z -> cx :=
  match k with
  | 0%nat => var
  | S k' => smooth_loop k' free (scatter (normalize_fn var) free (smooth (normalize_fn var)))
  end.

(* the raw solution of the first solve, scattered over the constrained field *)
Definition opt_first (rhs : cx -> cx) (L : cmat) (var0 : Z -> cx) (free fixed : list Z) : Z -> cx :=
  scatter var0 free (solve L free (opt_rhs_fn rhs L fixed var0)).
(* the field just before the final normalisation *)
Definition opt_pre (rhs : cx -> cx) (sguard : Z -> bool) (n_smooth : nat) (L : cmat) (var0 : Z -> cx)
    (free fixed : list Z) : Z -> cx :=
  let var1 := opt_first rhs L var0 free fixed in
  if sguard (Z.of_nat n_smooth) then smooth_loop n_smooth free var1 else var1.
Definition isnil {A} (l : list A) : bool := match l with [] => true | _ => false end.
(* empty_returns: faces2d returns early (no normalisation) when every face is fixed *)
Definition opt_bordered (empty_returns : bool) (rhs : cx -> cx) (sguard : Z -> bool)
    (n_smooth : nat) (L : cmat) (var0 : Z -> cx) (free fixed : list Z) : Z -> cx :=
  if empty_returns && isnil free then var0 else normalize_fn (opt_pre rhs sguard n_smooth L var0 free fixed).

(* FrameField2DFaces with at least one feature edge *)
Definition ff_faces (order n_smooth : nat) (D : option (list T)) V F E FE : list cx :=
  let n := zlen F in
  let fb := fixed_face F E FE in
  map (opt_bordered true (optf_rhs O) optf_smooth_guard n_smooth (lap_faces order D V F E FE) (init_faces order V F E FE)
                    (part_free n fb) (part_fixed n fb)) (zrange n).
(* FrameField2DVertices with at least one feature vertex *)
Definition ff_vertices (smooth_normals : bool) (order n_smooth : nat) (cots : option (list (T * T * T)))
    (trs : list (Z * Z * cx)) (Bv : list (vec * vec)) V F E FE : list cx :=
  let n := zlen V in
  let fb := feature_vertex E FE in
  map (opt_bordered false (optv_rhs O) optv_smooth_guard n_smooth (lap_vertices order cots trs F)
                    (init_vertices smooth_normals order V E Bv (tr_lookup trs) FE)
                    (part_free n fb) (part_fixed n fb)) (zrange n).
End Optimize.

(* ================================================================== faces2d.flag_singularities *)
(* defect: the angle defects; rot: the 'angles' attribute on edges (0 where an edge has a single face) *)
(* the signed edge rotations added at vertex v, in edge order *)
Definition angle_terms (E : list edge) (rot : Z -> T) (v : Z) : list T :=
  flat_map (fun ie : Z * edge => let '(i, (a, b)) := ie in
      (if a =? v then [if sing_sign b v then rot i else oopp O (rot i)] else []) ++
      (if b =? v then [if sing_sign a v then rot i else oopp O (rot i)] else [])) (indexed E).
Definition vertex_angle (defect : Z -> T) (E : list edge) (rot : Z -> T) (v : Z) : T :=
  oadd O (defect v) (sumT O (angle_terms E rot v)).
Definition singul (defect : Z -> T) (E : list edge) (rot : Z -> T) (v : Z) : T :=
  let a := vertex_angle defect E rot v in if sing_flag O a then sing_value O a else o0 O.

(* What the (sparse) singularity attribute holds after flag_singularities when it held `old` before: entries are written
   only where a singularity is flagged; everything else is reset or kept, as the generated flags say. *)
Definition stored (resets : bool) (old : T) (flag : bool) (val : T) : T :=
  if flag then val else if resets then o0 O else old.
Definition singul_stored (old : Z -> T) (defect : Z -> T) (E : list edge) (rot : Z -> T) (v : Z) : T :=
  let a := vertex_angle defect E rot v in stored sing_resets_faces (old v) (sing_flag O a) (sing_value O a).
(* vertex-based field (indices live on faces): flag / value by the sign test of the face angle, same storage rule *)
Definition vsingul_stored (old : T) (flag : bool) (val : T) : T := stored sing_resets_vertices old flag val.

End Model.
