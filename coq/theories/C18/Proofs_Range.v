(* C18 - the column indices of the assembled operators are element indices in range, so the code's free / fixed partition
   (filters over range(n)) splits them: the harmonic-extension theorem applies to the two pipelines as they are.
   No arithmetic on T at all (any type). *)
From Coq Require Import ZArith List Bool Lia.
Import ListNotations.
Require Import MV.Lib.Base MV.C18.Ops MV.C18.Gen MV.C18.Model.
Open Scope Z_scope.

Lemma direct_face_from_range k F u v acc t :
  direct_face_from k F u v acc = Some t -> acc = Some t \/ (k <= t < k + zlen F).
Proof.
  revert k acc. induction F as [|f F IH]; intros k acc H; cbn [direct_face_from] in H.
  - left. exact H.
  - apply IH in H. unfold zlen in *. cbn [length]. rewrite Nat2Z.inj_succ.
    destruct H as [H | H]; [| right; lia].
    destruct (he_in_face f u v); [inversion H; subst; right; lia | left; exact H].
Qed.
Lemma direct_face_range F u v t : direct_face F u v = Some t -> 0 <= t < zlen F.
Proof. unfold direct_face. intros H. apply direct_face_from_range in H. destruct H as [H | H]; [discriminate | lia]. Qed.

Lemma In_indexed_from_elem {A} (l : list A) k i x : In (i, x) (indexed_from k l) -> In x l.
Proof.
  revert k. induction l as [|y l IH]; intros k H; [destruct H |].
  cbn [indexed_from] in H. destruct H as [H | H]; [inversion H; left; reflexivity | right; apply (IH _ H)].
Qed.

Lemma dual_pairs_range F E ie uv t1 t2 :
  In (ie, uv, t1, t2) (dual_pairs F E) -> (0 <= t1 < zlen F) /\ (0 <= t2 < zlen F).
Proof.
  unfold dual_pairs. intros H. apply in_flat_map in H. destruct H as [[i [u v]] [_ H]].
  destruct (direct_face F u v) as [a |] eqn:E1; [| destruct H].
  destruct (direct_face F v u) as [b |] eqn:E2; [| destruct H].
  destruct H as [H | []]. inversion H; subst.
  split; [apply (direct_face_range _ _ _ _ E1) | apply (direct_face_range _ _ _ _ E2)].
Qed.

Section Range.
Context {T : Type} (O : ops T).

Theorem lap_faces_cols order D (V : list (vec T)) F E FE a b v :
  In (a, b, v) (lap_faces O order D V F E FE) -> 0 <= b < zlen F.
Proof.
  unfold lap_faces, lap_faces_gen. intros H. apply in_flat_map in H. destruct H as [[[[ie uv] t1] t2] [Hp H]].
  apply dual_pairs_range in Hp. destruct Hp as [H1 H2].
  destruct (face_transport O V (conn_bases O V F E FE) uv t1 t2) as [t12 t21].
  unfold lapt_block in H. destruct H as [H | [H | [H | [H | []]]]]; inversion H; subst; assumption.
Qed.

Definition faces_in_range (n : Z) (F : list face) : Prop :=
  forall p q r, In (p, q, r) F -> (0 <= p < n) /\ (0 <= q < n) /\ (0 <= r < n).

Theorem lap_vertices_cols order cots trs F n a b v :
  faces_in_range n F -> In (a, b, v) (lap_vertices O order cots trs F) -> 0 <= b < n.
Proof.
  unfold lap_vertices, lap_vertices_gen. intros HF H. apply in_flat_map in H. destruct H as [[it [[p q] r]] [Hf H]].
  apply In_indexed_from_elem in Hf. destruct (HF p q r Hf) as [Hp [Hq Hr]]. cbn [snd] in H.
  destruct (vertex_weights O cots _) as [[wa wb] wc].
  apply in_flat_map in H. destruct H as [[[x y] w] [Hin H]].
  unfold lapv_edges in Hin. unfold lapv_coeffs in H.
  destruct Hin as [Hin | [Hin | [Hin | []]]]; inversion Hin; subst;
    destruct H as [H | [H | [H | [H | []]]]]; inversion H; subst; assumption.
Qed.

End Range.
