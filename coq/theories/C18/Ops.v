(* C18 - bare record of numeric operations (no laws) with its executable instances (binary64, exact rationals),
   complex numbers as pairs handled ALGEBRAICALLY (no transcendental function: a unit complex number stands for
   e^{i theta}; e^{i(a1-a2)} = z1 * conj z2; e^{i k theta} = z^k), 3-vectors, sparse complex matrices as unsummed
   triplet lists (what scipy's coo/csc constructors receive).  No proofs here. *)
From Coq Require Import ZArith List Bool QArith Qabs Qreduction.
From Coq Require Import Uint63 PrimFloat.
Require Import MV.Lib.Base MV.Lib.FloatLit.
Import ListNotations.

(* ---- the stage methods of a frame field and the state FrameField.run() reads and writes:
   (initialized flag, smoothed flag, stages executed so far) *)
Inductive stage := SInit | SOpt.
Definition ffstate := (bool * bool * list stage)%type.
Definition st_i (st : ffstate) : bool := fst (fst st).
Definition st_s (st : ffstate) : bool := snd (fst st).
Definition st_stages (st : ffstate) : list stage := snd st.
Definition st_push (x : stage) (st : ffstate) : ffstate := (st_i st, st_s st, st_stages st ++ [x]).
Definition st_seti (b : bool) (st : ffstate) : ffstate := (b, st_s st, st_stages st).
Definition st_sets (b : bool) (st : ffstate) : ffstate := (st_i st, b, st_stages st).

Record ops (T : Type) := mkops {
  o0 : T; o1 : T;
  oadd : T -> T -> T; osub : T -> T -> T; omul : T -> T -> T; odiv : T -> T -> T;
  oopp : T -> T; oinv : T -> T;
  osqrt : T -> T; oabs : T -> T;
  oltb : T -> T -> bool;
  oofZ : Z -> T;
  oofQ : Q -> T;          (* decimal literals of the source (1e-10, 1e-3, 0.5) *)
  opi : T                 (* math.pi *)
}.
Arguments o0 {T}. Arguments o1 {T}. Arguments oadd {T}. Arguments osub {T}. Arguments omul {T}.
Arguments odiv {T}. Arguments oopp {T}. Arguments oinv {T}. Arguments osqrt {T}. Arguments oabs {T}.
Arguments oltb {T}. Arguments oofZ {T}. Arguments oofQ {T}. Arguments opi {T}.

Section Generic.
Context {T : Type} (O : ops T).

Definition two : T := oadd O (o1 O) (o1 O).

(* ------------------------------------------------------------------ 3-vectors *)
Definition vec : Type := (T * T * T)%type.
Definition vsub (a b : vec) : vec :=
  let '(a0, a1, a2) := a in let '(b0, b1, b2) := b in (osub O a0 b0, osub O a1 b1, osub O a2 b2).
Definition vdot (a b : vec) : T :=
  let '(a0, a1, a2) := a in let '(b0, b1, b2) := b in
  oadd O (oadd O (omul O a0 b0) (omul O a1 b1)) (omul O a2 b2).
Definition vcross (a b : vec) : vec :=
  let '(a0, a1, a2) := a in let '(b0, b1, b2) := b in
  (osub O (omul O a1 b2) (omul O a2 b1),
   osub O (omul O b0 a2) (omul O b2 a0),
   osub O (omul O a0 b1) (omul O a1 b0)).
Definition vnorm (a : vec) : T := osqrt O (vdot a a).
Definition vdivs (a : vec) (s : T) : vec := let '(a0, a1, a2) := a in (odiv O a0 s, odiv O a1 s, odiv O a2 s).
Definition vnormalized (a : vec) : vec := vdivs a (vnorm a).
Definition vzero : vec := (o0 O, o0 O, o0 O).

(* ------------------------------------------------------------------ complex numbers (re, im) *)
Definition cx : Type := (T * T)%type.
Definition c0 : cx := (o0 O, o0 O).
Definition c1 : cx := (o1 O, o0 O).
Definition cofre (x : T) : cx := (x, o0 O).
Definition cadd (a b : cx) : cx := (oadd O (fst a) (fst b), oadd O (snd a) (snd b)).
Definition csub (a b : cx) : cx := (osub O (fst a) (fst b), osub O (snd a) (snd b)).
Definition cneg (a : cx) : cx := (oopp O (fst a), oopp O (snd a)).
Definition cconj (a : cx) : cx := (fst a, oopp O (snd a)).
Definition cmul (a b : cx) : cx :=
  (osub O (omul O (fst a) (fst b)) (omul O (snd a) (snd b)),
   oadd O (omul O (fst a) (snd b)) (omul O (snd a) (fst b))).
Definition cscale (s : T) (a : cx) : cx := (omul O s (fst a), omul O s (snd a)).
Definition cdivr (a : cx) (s : T) : cx := (odiv O (fst a) s, odiv O (snd a) s).
Definition cnorm2 (a : cx) : T := oadd O (omul O (fst a) (fst a)) (omul O (snd a) (snd a)).
(* abs(z) *)
Definition cabs (a : cx) : T := osqrt O (cnorm2 a).
(* z ** n for a natural exponent *)
Fixpoint cpow (a : cx) (n : nat) : cx :=
  match n with 0%nat => c1 | S k => cmul a (cpow a k) end.
(* z / abs(z): the unit complex number e^{i arg z}  (= cmath.rect(1, atan2(im, re))) *)
Definition cunit (a : cx) : cx := cdivr a (cabs a).

(* ------------------------------------------------------------------ sparse complex matrices as triplet lists *)
Definition cmat : Type := list (Z * Z * cx).

Fixpoint centry (M : cmat) (i j : Z) : cx :=
  match M with
  | [] => c0
  | (a, b, v) :: r => if (a =? i)%Z && (b =? j)%Z then cadd v (centry r i j) else centry r i j
  end.
(* (M x)_i for a vector given as a function of the index *)
Fixpoint mrow_dot (M : cmat) (i : Z) (x : Z -> cx) : cx :=
  match M with
  | [] => c0
  | (a, b, v) :: r => if (a =? i)%Z then cadd (cmul v (x b)) (mrow_dot r i x) else mrow_dot r i x
  end.

Fixpoint sumT (l : list T) : T := match l with [] => o0 O | x :: r => oadd O x (sumT r) end.

End Generic.

Arguments vec T : clear implicits.
Arguments cx T : clear implicits.
Arguments cmat T : clear implicits.

(* ---------------------------------------------------------------- binary64 *)
Definition f_ofZ (z : Z) : float :=
  let a := of_uint63 (Uint63.of_Z (Z.abs z)) in if (z <? 0)%Z then PrimFloat.opp a else a.
Definition f_ofQ (q : Q) : float := PrimFloat.div (f_ofZ (Qnum q)) (f_ofZ (Zpos (Qden q))).
Definition f_pi : float := mkf 7074237752028440 (-51).   (* 0x1.921fb54442d18p+1 *)
Definition Fops : ops float := {|
  o0 := PrimFloat.zero; o1 := PrimFloat.one;
  oadd := PrimFloat.add; osub := PrimFloat.sub; omul := PrimFloat.mul; odiv := PrimFloat.div;
  oopp := PrimFloat.opp; oinv := fun x => PrimFloat.div PrimFloat.one x;
  osqrt := PrimFloat.sqrt; oabs := PrimFloat.abs; oltb := PrimFloat.ltb; oofZ := f_ofZ; oofQ := f_ofQ; opi := f_pi |}.

(* ---------------------------------------------------------------- exact rationals
   sqrt is exact on squares of rationals and returns the marker -1 otherwise; opi is a rational stand-in (the
   rational instance is used only for sqrt-exact, pi-free witnesses and examples). *)
Definition q_sqrt (q : Q) : Q :=
  let r := Qred q in
  let n := Qnum r in let d := Zpos (Qden r) in
  let sn := Z.sqrt n in let sd := Z.sqrt d in
  if (0 <=? n)%Z && (sn * sn =? n)%Z && (sd * sd =? d)%Z then Qmake sn (Z.to_pos sd) else Qmake (-1) 1.
Definition q_ltb (a b : Q) : bool := negb (Qle_bool b a).
Definition Qops : ops Q := {|
  o0 := 0%Q; o1 := 1%Q;
  oadd := fun a b => Qred (Qplus a b); osub := fun a b => Qred (Qminus a b);
  omul := fun a b => Qred (Qmult a b); odiv := fun a b => Qred (Qdiv a b);
  oopp := fun a => Qred (Qopp a); oinv := fun a => Qred (Qinv a); osqrt := q_sqrt; oabs := Qabs; oltb := q_ltb;
  oofZ := inject_Z; oofQ := Qred; opi := (355 # 113)%Q |}.

(* a binary64 literal (mantissa, exponent) *)
Definition lit := (Z * Z)%type.
Definition lit_f (l : lit) : float := mkf (fst l) (snd l).
