(* C18 - the boolean checkers the correspondence batches evaluate (binary64, tolerance): the model of Model.v over Gen.v
   against what the implementation was observed to compute (bases, transports as (cos, sin), operator entries,
   constraint vector, partition, the system handed to spsolve and its answer, the final field, singularity indices).
   No proofs. *)
From Coq Require Import ZArith List Bool.
From Coq Require Import PrimFloat.
Import ListNotations.
Require Import MV.Lib.Base MV.Lib.FloatLit MV.C18.Ops MV.C18.Gen MV.C18.Model.
Open Scope Z_scope.

Definition lit3 := (lit * lit * lit)%type.
Definition lit2 := (lit * lit)%type.
Definition fvec (p : lit3) : vec float := let '(x, y, z) := p in (lit_f x, lit_f y, lit_f z).
Definition fcx (p : lit2) : cx float := (lit_f (fst p), lit_f (snd p)).

Definition tol : float := tol9.
Definition tol_res : float := mkf 7555786372591432 (-76).   (* 1e-7: residual of the linear solve *)
Definition fcl (a b : float) : bool := fclose tol a b.
(* complex closeness: both parts within t * (1 + |re b| + |im b|) *)
Definition ccl_t (t : float) (a b : cx float) : bool :=
  let s := PrimFloat.mul t (PrimFloat.add PrimFloat.one (PrimFloat.add (PrimFloat.abs (fst b)) (PrimFloat.abs (snd b)))) in
  PrimFloat.leb (PrimFloat.abs (PrimFloat.sub (fst a) (fst b))) s &&
  PrimFloat.leb (PrimFloat.abs (PrimFloat.sub (snd a) (snd b))) s.
Definition ccl (a b : cx float) : bool := ccl_t tol a b.
Definition vcl (a b : vec float) : bool :=
  let '(a0, a1, a2) := a in let '(b0, b1, b2) := b in fcl a0 b0 && fcl a1 b1 && fcl a2 b2.

Fixpoint all2 {A B} (f : A -> B -> bool) (l : list A) (m : list B) : bool :=
  match l, m with
  | [], [] => true
  | x :: l', y :: m' => f x y && all2 f l' m'
  | _, _ => false
  end.

(* model triplets against the implementation's summed entries (one per (i, j)) *)
Definition has_key (I : list (Z * Z * lit2)) (i j : Z) : bool :=
  existsb (fun t : Z * Z * lit2 => let '(a, b, _) := t in (a =? i) && (b =? j)) I.
Definition mat_agree (n : Z) (M : cmat float) (I : list (Z * Z * lit2)) : bool :=
  forallb (fun t : Z * Z * lit2 => let '(i, j, v) := t in ccl (centry Fops M i j) (fcx v)) I &&
  forallb (fun t : Z * Z * cx float => let '(i, j, _) := t in
     (0 <=? i) && (i <? n) && (0 <=? j) && (j <? n) &&
     (has_key I i j || ccl (centry Fops M i j) (c0 Fops))) M.

Fixpoint pos_from (k : Z) (l : list Z) (x : Z) : option Z :=
  match l with [] => None | y :: r => if y =? x then Some k else pos_from (k + 1) r x end.
Definition pos (l : list Z) (x : Z) : option Z := pos_from 0 l x.
(* lap[rows,:][:,cols] *)
Definition submat {T} (M : cmat T) (rows cols : list Z) : cmat T :=
  flat_map (fun t : Z * Z * cx T => let '(i, j, v) := t in
     match pos rows i, pos cols j with Some a, Some b => [(a, b, v)] | _, _ => [] end) M.

Definition list_Zeqb (a b : list Z) : bool := list_eqb Z.eqb a b.

(* size of the terms summed in (M x)_i: sum |v| |x_b| (1-norms); rounding errors of the sum scale with it *)
Definition c1norm (z : cx float) : float := PrimFloat.add (PrimFloat.abs (fst z)) (PrimFloat.abs (snd z)).
Fixpoint mrow_mag (M : cmat float) (i : Z) (x : Z -> cx float) : float :=
  match M with
  | [] => PrimFloat.zero
  | (a, b, v) :: r => if (a =? i) then PrimFloat.add (PrimFloat.mul (c1norm v) (c1norm (x b))) (mrow_mag r i x) else mrow_mag r i x
  end.
(* both parts within t * (1 + |b| + mag) *)
Definition ccl_mag (t mag : float) (a b : cx float) : bool :=
  let s := PrimFloat.mul t (PrimFloat.add (PrimFloat.add PrimFloat.one (c1norm b)) mag) in
  PrimFloat.leb (PrimFloat.abs (PrimFloat.sub (fst a) (fst b))) s &&
  PrimFloat.leb (PrimFloat.abs (PrimFloat.sub (snd a) (snd b))) s.

(* the recorded first solve: matrix, right-hand side, answer *)
Definition solve_rec := (list (Z * Z * lit2) * list lit2 * list lit2)%type.

(* A = lap[free][:,free], b = -(lap[free][:,fixed] var0[fixed]), A x = b (residual), and - without smoothing - the final field
   is the element-wise normalisation of var0 with x scattered on the free set; with smoothing the fixed entries are
   the normalised constraints *)
Definition check_solve (rhs : cx float -> cx float) (sguard : Z -> bool) (n : Z) (n_smooth : nat) (L : cmat float) (var0 : Z -> cx float) (free fixed : list Z)
    (sr : solve_rec) (final : list lit2) : bool :=
  let '(A, b, x) := sr in
  let nf := zlen free in
  let xs := map fcx x in
  let xfun := fun i => match pos free i with Some k => znth xs k (c0 Fops) | None => c0 Fops end in
  mat_agree nf (submat L free free) A &&
  all2 (fun i bi => ccl_mag tol (mrow_mag L i (mask Fops fixed var0)) (opt_rhs_fn Fops rhs L fixed var0 i) (fcx bi)) free b &&
  (Z.of_nat (length x) =? nf) &&
  all2 (fun i bi => ccl_mag tol_res (mrow_mag L i (mask Fops free xfun)) (mrow_dot Fops L i (mask Fops free xfun)) (fcx bi)) free b &&
  (if sguard (Z.of_nat n_smooth)
   then forallb (fun i => ccl (norm_elem Fops (var0 i)) (fcx (znth final i ((0, 0), (0, 0))))) fixed
   else all2 (fun i fi => ccl (norm_elem Fops (scatter var0 free xfun i)) (fcx fi)) (zrange n) final).

(* ================================================================== faces *)
Record fcase := mkfcase {
  fc_order : nat; fc_nsmooth : nat;
  fc_verts : list lit3; fc_faces : list face; fc_edges : list edge; fc_feat : list Z;
  fc_D : option (list lit);
  fc_bases : list (lit3 * lit3);
  fc_transport : list (Z * Z * lit2);
  fc_lap : list (Z * Z * lit2);
  fc_var0 : list lit2;
  fc_free : list Z; fc_fixed : list Z;
  fc_solve : option solve_rec;
  fc_final : list lit2;
  fc_defect : list lit; fc_rot : list lit; fc_singuls : list lit;
  fc_prev : list lit      (* what the singularity attribute held before this flagging (zeros on a fresh mesh) *)
}.

Definition tr_obs (l : list (Z * Z * lit2)) (a b : Z) : option (cx float) :=
  match find (fun t : Z * Z * lit2 => let '(x, y, _) := t in (x =? a) && (y =? b)) l with
  | Some (_, _, w) => Some (fcx w) | None => None end.

(* no two faces share two edges (the transport dictionary is keyed by the pair of faces) *)
Fixpoint pairs_distinct (P : list (Z * edge * Z * Z)) : bool :=
  match P with
  | [] => true
  | (_, _, a, b) :: r =>
      negb (existsb (fun q : Z * edge * Z * Z => let '(_, _, c, d) := q in
              ((a =? c) && (b =? d)) || ((a =? d) && (b =? c))) r) && negb (a =? b) && pairs_distinct r
  end.

(* number of feature edges of a face *)
Definition nfeat (E : list edge) (FE : list Z) (f : face) : Z :=
  let '(A, B, C) := f in
  (if memZ (edge_id E A B) FE then 1 else 0) + (if memZ (edge_id E B C) FE then 1 else 0) + (if memZ (edge_id E C A) FE then 1 else 0).
(* the hypotheses of C18_constraint in boolean form, on every face with exactly one feature edge: all constraint writes
   to the face come from its first (rotated) edge, there is one, and constraint and final frame are c1 *)
Definition one_edge_faces_ok (order : nat) (V : list (vec float)) (F : list face) (E : list edge) (FE : list Z)
    (var0 : Z -> cx float) (final : list lit2) : bool :=
  let B := conn_bases Fops V F E FE in
  forallb (fun t =>
     let f := znth F t (0, 0, 0) in
     if nfeat E FE f =? 1 then
       let '(A, Bv, C) := conn_face E FE f in
       forallb (fun e => let '(e1, e2) := znth E e (0, 0) in
          forallb (fun kv : Z * cx float => negb (fst kv =? t) || ((e1 =? A) && (e2 =? Bv)) || ((e1 =? Bv) && (e2 =? A)))
                  (cstrf_writes Fops order V F E B e)) FE &&
       existsb (fun kv : Z * cx float => fst kv =? t) (init_faces_writes Fops order V F E FE) &&
       ccl (var0 t) (c1 Fops) && ccl (fcx (znth final t ((0, 0), (0, 0)))) (c1 Fops)
     else true) (zrange (zlen F)).

Definition check_faces (c : fcase) : bool :=
  let V := map fvec (fc_verts c) in
  let F := fc_faces c in let E := fc_edges c in let FE := fc_feat c in
  let n := zlen F in
  let order := fc_order c in
  let B := conn_bases Fops V F E FE in
  let P := dual_pairs F E in
  let D := match fc_D c with Some l => Some (map lit_f l) | None => None end in
  let L := lap_faces Fops order D V F E FE in
  let var0 := init_faces Fops order V F E FE in
  let fb := fixed_face F E FE in
  pairs_distinct P &&
  (* bases *)
  all2 (fun (m : vec float * vec float) (o : lit3 * lit3) => vcl (fst m) (fvec (fst o)) && vcl (snd m) (fvec (snd o)))
       B (fc_bases c) &&
  (* transports e^{i t} against (cos t, sin t) of the stored angles *)
  forallb (fun p : Z * edge * Z * Z => let '(ie, uv, t1, t2) := p in
     let '(m12, m21) := face_transport Fops V B uv t1 t2 in
     match tr_obs (fc_transport c) t1 t2, tr_obs (fc_transport c) t2 t1 with
     | Some o12, Some o21 => ccl m12 o12 && ccl m21 o21
     | _, _ => false end) P &&
  (Z.of_nat (length (fc_transport c)) =? 2 * zlen P) &&
  (* operator *)
  mat_agree n L (fc_lap c) &&
  (* constraints *)
  all2 (fun i o => ccl (var0 i) (fcx o)) (zrange n) (fc_var0 c) &&
  (* faces with exactly one feature edge: hypotheses and conclusion of C18_constraint *)
  one_edge_faces_ok order V F E FE var0 (fc_final c) &&
  (* partition *)
  (match FE with
   | [] => true
   | _ => list_Zeqb (part_free n fb) (fc_free c) && list_Zeqb (part_fixed n fb) (fc_fixed c)
   end) &&
  (* solve + final *)
  (match fc_solve c with
   | Some sr => check_solve (optf_rhs Fops) optf_smooth_guard n (fc_nsmooth c) L var0 (fc_free c) (fc_fixed c) sr (fc_final c)
   | None => true
   end) &&
  (* singularities *)
  (let defect := fun v => znth (map lit_f (fc_defect c)) v PrimFloat.zero in
   let rot := fun e => znth (map lit_f (fc_rot c)) e PrimFloat.zero in
   let old := fun v => znth (map lit_f (fc_prev c)) v PrimFloat.zero in
   all2 (fun v o => fcl (singul_stored Fops old defect E rot v) (lit_f o)) (zrange (zlen V)) (fc_singuls c)).

(* ================================================================== vertices *)
Record vcase := mkvcase {
  vc_order : nat; vc_nsmooth : nat; vc_smooth_normals : bool;
  vc_verts : list lit3; vc_faces : list face; vc_edges : list edge; vc_feat : list Z;
  vc_cots : option (list lit3);
  vc_bases : list (lit3 * lit3);            (* input: SurfaceConnectionVertices bases *)
  vc_transport : list (Z * Z * lit2);       (* input: (u, v, (cos, sin)) of conn.transport(u, v) *)
  vc_lap : list (Z * Z * lit2);
  vc_var0 : list lit2;
  vc_free : list Z; vc_fixed : list Z;
  vc_solve : option solve_rec;
  vc_final : list lit2
}.

Definition check_vertices (c : vcase) : bool :=
  let V := map fvec (vc_verts c) in
  let F := vc_faces c in let E := vc_edges c in let FE := vc_feat c in
  let n := zlen V in
  let order := vc_order c in
  let cots := match vc_cots c with
              | Some l => Some (map (fun p : lit3 => let '(x, y, z) := p in (lit_f x, lit_f y, lit_f z)) l)
              | None => None end in
  let trs := map (fun t : Z * Z * lit2 => let '(a, b, w) := t in (a, b, fcx w)) (vc_transport c) in
  let Bv := map (fun o : lit3 * lit3 => (fvec (fst o), fvec (snd o))) (vc_bases c) in
  let L := lap_vertices Fops order cots trs F in
  let var0 := init_vertices Fops (vc_smooth_normals c) order V E Bv (tr_lookup Fops trs) FE in
  let fb := feature_vertex E FE in
  mat_agree n L (vc_lap c) &&
  all2 (fun i o => ccl (var0 i) (fcx o)) (zrange n) (vc_var0 c) &&
  (match FE with
   | [] => true
   | _ => list_Zeqb (part_free n fb) (vc_free c) && list_Zeqb (part_fixed n fb) (vc_fixed c)
   end) &&
  (match vc_solve c with
   | Some sr => check_solve (optv_rhs Fops) optv_smooth_guard n (vc_nsmooth c) L var0 (vc_free c) (vc_fixed c) sr (vc_final c)
   | None => true
   end).

(* ================================================================== the input class of the known crash (eigen path)
   closed surface (every stored edge has a face on both sides), no feature edge, and the model's connection Laplacian has
   the given field of modulus 1 in its kernel: a parallel unit field exists (trivial order-fold holonomy), so the operator
   the code factorises with shift 0 is singular *)
Record pcase := mkpcase {
  pc_order : nat;
  pc_verts : list lit3; pc_faces : list face; pc_edges : list edge; pc_feat : list Z;
  pc_D : option (list lit);
  pc_field : list lit2
}.
Definition tol6 : float := mkf 4722366482869645 (-72).   (* 1e-6 *)
Definition check_parallel (c : pcase) : bool :=
  let V := map fvec (pc_verts c) in
  let F := pc_faces c in let E := pc_edges c in
  let n := zlen F in
  let D := match pc_D c with Some l => Some (map lit_f l) | None => None end in
  let L := lap_faces Fops (pc_order c) D V F E (pc_feat c) in
  let p := fun i => znth (map fcx (pc_field c)) i (c0 Fops) in
  isnil (pc_feat c) &&
  (zlen (dual_pairs F E) =? zlen E) &&
  (Z.of_nat (length (pc_field c)) =? n) &&
  forallb (fun i => fclose tol6 (cnorm2 Fops (p i)) PrimFloat.one) (zrange n) &&
  forallb (fun i => ccl_mag tol (mrow_mag L i p) (mrow_dot Fops L i p) (c0 Fops)) (zrange n).

(* ================================================================== stage protocol: how many times initialize / optimize
   actually ran for the sequence of public calls the driver made (faces? , calls, observed #initialize, observed #optimize) *)
Definition count_stage (x : stage) (l : list stage) : Z :=
  zlen (filter (fun y => match x, y with SInit, SInit => true | SOpt, SOpt => true | _, _ => false end) l).
Definition check_stages (c : bool * list call * Z * Z) : bool :=
  let '(faces, p, ni, no) := c in
  let st := if faces then exec_calls initf_sets_initialized optf_sets_smoothed p
            else exec_calls initv_sets_initialized optv_sets_smoothed p in
  (count_stage SInit (st_stages st) =? ni) && (count_stage SOpt (st_stages st) =? no).
