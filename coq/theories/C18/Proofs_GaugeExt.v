(* C18 - gauge covariance one level above the operator: the harmonic extension computed in rotated bases is the rotated
   harmonic extension, for ANY solver.  Over an arbitrary field with Leibniz equality (section hypothesis; axiom-free).

   L' = G L G^* (Proofs_Gauge: what rotating the face bases does to the assembled operator), constraints z_B' = G z_B.
   Whatever a solver answers for the rotated system  L'_II x = - L'_IB z_B',  the raw field z' it yields, rotated back
   (conj(g_j) z'_j), extends the ORIGINAL constraints and is harmonic for the ORIGINAL operator; and normalisation commutes
   with the gauge.  So the directions of the solved field, measured against the mesh's own edges, do not depend on the choice
   of bases (which is what vertex numbering and the starting vertex of each face change), as far as operator, partition and
   solve go.  The constraint initialisation is outside this statement (known findings gauge/...). *)
From Coq Require Import ZArith List Bool Ring Field Lia.
Import ListNotations.
Require Import MV.Lib.Base MV.C18.Ops MV.C18.Gen MV.C18.Model MV.C18.Proofs_Herm MV.C18.Proofs_Opt MV.C18.Proofs_Gauge.
Open Scope Z_scope.

Section GaugeExt.
Variable T : Type.
Variable O : ops T.
Hypothesis Fth : field_theory (o0 O) (o1 O) (oadd O) (omul O) (osub O) (oopp O) (odiv O) (oinv O) eq.
Add Field FieldT : Fth.
Let Rth := F_R Fth.

Notation cx := (cx T).
Notation cmat := (cmat T).
Ltac cxr := unfold cadd, csub, cmul, cconj, cneg, cscale, cofre, cdivr, cnorm2, c0, c1; cbn [fst snd]; f_equal; ring.

Lemma gauge_map_In g (M : cmat) a b v' :
  In (a, b, v') (gauge_map T O g M) -> exists v, In (a, b, v) M.
Proof.
  unfold gauge_map. intros H. apply in_map_iff in H. destruct H as [[[i j] v] [E H]]. inversion E; subst. exists v. exact H.
Qed.
Lemma partitioned_gauge g (L : cmat) free fixed :
  partitioned T L free fixed -> partitioned T (gauge_map T O g L) free fixed.
Proof. intros Hp a b v' H. apply gauge_map_In in H. destruct H as [v H]. exact (Hp a b v H). Qed.

Lemma unit_back (g z : cx) : unitc T O g -> cmul O g (cmul O (cconj O g) z) = z.
Proof.
  intros Hu. transitivity (cmul O (cmul O g (cconj O g)) z); [cxr |].
  rewrite (unit_conj T O Rth g Hu). apply (cmul_c1_l T O Rth).
Qed.
Lemma unit_back' (g z : cx) : unitc T O g -> cmul O (cconj O g) (cmul O g z) = z.
Proof.
  intros Hu. transitivity (cmul O (cmul O g (cconj O g)) z); [cxr |].
  rewrite (unit_conj T O Rth g Hu). apply (cmul_c1_l T O Rth).
Qed.

Section Ext.
Variable solve : cmat -> list Z -> (Z -> cx) -> (Z -> cx).
Variables (rhs : cx -> cx) (L : cmat) (var0 : Z -> cx) (free fixed : list Z) (g : Z -> cx).
Hypothesis Hrhs : forall w, rhs w = cneg O w.
Hypothesis Hg : forall t, unitc T O (g t).
Hypothesis Hpart : partitioned T L free fixed.

Let L' := gauge_map T O g L.
Let var0' : Z -> cx := fun j => cmul O (g j) (var0 j).
(* the raw field the pipeline builds in the rotated gauge, from whatever the solver answers there *)
Let z' := opt_first O solve rhs L' var0' free fixed.
(* rotated back *)
Let zb : Z -> cx := fun j => cmul O (cconj O (g j)) (z' j).

Theorem gauge_harmonic_extension :
  solves T O rhs L' var0' free fixed (solve L' free (opt_rhs_fn O rhs L' fixed var0')) ->
  (forall j, memZ j free = false -> zb j = var0 j) /\
  (forall i, memZ i free = true -> mrow_dot O L i zb = c0 O).
Proof.
  intros Hs.
  destruct (harmonic_extension T O Fth solve (fun x => x) false rhs (fun _ => false) 0 L' var0' free fixed Hrhs
              (partitioned_gauge g L free fixed Hpart) Hs) as [H1 [H2 _]].
  split.
  - intros j Hj. unfold zb, z'. rewrite (H1 j Hj). unfold var0'. apply unit_back', Hg.
  - intros i Hi. specialize (H2 i Hi). change (mrow_dot O L' i z' = c0 O) in H2.
    assert (E : mrow_dot O L' i z' = cmul O (g i) (mrow_dot O L i zb)).
    { unfold L'. rewrite <- (mrow_dot_gauge T O Rth g L i zb Hg).
      apply (mrow_dot_ext T O). intros a b v _. unfold zb. symmetry. apply unit_back, Hg. }
    rewrite E in H2.
    rewrite <- (unit_back' (g i) (mrow_dot O L i zb) (Hg i)), H2. cxr.
Qed.
End Ext.

(* normalisation commutes with a unit gauge: the normalised fields correspond as well *)
Theorem norm_elem_gauge (g z : cx) : unitc T O g -> norm_elem O (cmul O g z) = cmul O g (norm_elem O z).
Proof.
  intros Hu. unfold norm_elem, cabs.
  assert (E : cnorm2 O (cmul O g z) = cnorm2 O z).
  { unfold unitc in Hu. transitivity (omul O (cnorm2 O g) (cnorm2 O z)); [unfold cnorm2, cmul; cbn [fst snd]; ring |].
    rewrite Hu. ring. }
  rewrite E. destruct (norm_guard O (osqrt O (cnorm2 O z))); [| reflexivity].
  unfold cdivr, cmul. cbn [fst snd]. rewrite !(Fdiv_def Fth). f_equal; ring.
Qed.

(* the face operator: rotating the bases of the faces by unit h, for any solver in the rotated bases *)
Corollary lap_faces_gauge_extension solve rhs order D tr P (var0 : Z -> cx) free fixed (h : Z -> cx) :
  (forall w, rhs w = cneg O w) -> (forall t, unitc T O (h t)) ->
  let L := lap_faces_gen O order D tr P in
  let L' := lap_faces_gen O order D (rot_tr T O h tr) P in
  let g := gauge_of T O h order in
  let var0' := fun j => cmul O (g j) (var0 j) in
  partitioned T L free fixed ->
  solves T O rhs L' var0' free fixed (solve L' free (opt_rhs_fn O rhs L' fixed var0')) ->
  let zb := fun j => cmul O (cconj O (g j)) (opt_first O solve rhs L' var0' free fixed j) in
  (forall j, memZ j free = false -> zb j = var0 j) /\
  (forall i, memZ i free = true -> mrow_dot O L i zb = c0 O).
Proof.
  intros Hr Hu L L' g var0' Hp Hs zb.
  assert (Hg : forall t, unitc T O (g t)) by (intros t; subst g; unfold gauge_of; apply (unitc_pow T O Rth), (unitc_conj T O Rth), Hu).
  assert (EL : L' = gauge_map T O g L) by (subst L' L g; apply (lap_faces_gauge T O Rth); exact Hu).
  subst zb. rewrite EL in *.
  exact (gauge_harmonic_extension solve rhs L var0 free fixed g Hr Hg Hp Hs).
Qed.

(* ------------------------------------------------------------------ the statement exported by Props.v *)
Theorem gauge_extension_all :
  (forall (solve : cmat -> list Z -> (Z -> cx) -> (Z -> cx)) (rhs : cx -> cx) (L : cmat) (var0 : Z -> cx)
          (free fixed : list Z) (g : Z -> cx),
      (forall w, rhs w = cneg O w) -> (forall t, unitc T O (g t)) -> partitioned T L free fixed ->
      let L' := gauge_map T O g L in
      let var0' := fun j => cmul O (g j) (var0 j) in
      solves T O rhs L' var0' free fixed (solve L' free (opt_rhs_fn O rhs L' fixed var0')) ->
      let zb := fun j => cmul O (cconj O (g j)) (opt_first O solve rhs L' var0' free fixed j) in
      (forall j, memZ j free = false -> zb j = var0 j) /\
      (forall i, memZ i free = true -> mrow_dot O L i zb = c0 O)) /\
  (forall g z : cx, unitc T O g -> norm_elem O (cmul O g z) = cmul O g (norm_elem O z)).
Proof.
  split.
  - intros solve rhs L var0 free fixed g Hr Hg Hp L' var0' Hs zb.
    exact (gauge_harmonic_extension solve rhs L var0 free fixed g Hr Hg Hp Hs).
  - exact norm_elem_gauge.
Qed.

End GaugeExt.
