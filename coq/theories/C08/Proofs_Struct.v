(* C08 - structural theorems: the assembled Laplacians are symmetric with zero row sums for EVERY element list and EVERY
   weight function (no geometry).  They are about the generated coefficient patterns of Gen.v: changing one index or
   one sign in the source changes Gen.v and the per-block lemmas below stop closing.
   Over an arbitrary commutative ring with Leibniz equality (section hypothesis), hence axiom-free. *)
From Coq Require Import ZArith List Bool Ring Lia.
Import ListNotations.
Require Import MV.Lib.Base MV.C08.Ops MV.C08.Gen MV.C08.Model.
Open Scope Z_scope.

Section Struct.
Variable T : Type.
Variable O : ops T.
Hypothesis Rth : ring_theory (o0 O) (o1 O) (oadd O) (omul O) (osub O) (oopp O) eq.
Add Ring RingT : Rth.

Declare Scope T_scope.
Notation "0" := (o0 O) : T_scope.
Notation "1" := (o1 O) : T_scope.
Notation "x + y" := (oadd O x y) : T_scope.
Notation "x * y" := (omul O x y) : T_scope.
Notation "x - y" := (osub O x y) : T_scope.
Notation "- x" := (oopp O x) : T_scope.
Delimit Scope T_scope with T.
Local Open Scope T_scope.
Bind Scope T_scope with T.

Definition symm (M : mat T) : Prop := forall i j, entry O M i j = entry O M j i.
Definition rs0 (M : mat T) : Prop := forall i, rowsum O M i = 0.

Lemma entry_app A B i j : entry O (A ++ B) i j = entry O A i j + entry O B i j.
Proof.
  induction A as [|[[a b] v] A IH]; cbn [app entry].
  - ring.
  - destruct ((a =? i)%Z && (b =? j)%Z); rewrite IH; ring.
Qed.
Lemma rowsum_app A B i : rowsum O (A ++ B) i = rowsum O A i + rowsum O B i.
Proof.
  induction A as [|[[a b] v] A IH]; cbn [app rowsum].
  - ring.
  - destruct (a =? i)%Z; rewrite IH; ring.
Qed.
Lemma total_app A B : total O (A ++ B) = total O A + total O B.
Proof.
  induction A as [|[[a b] v] A IH]; cbn [app total]; [ring | rewrite IH; ring].
Qed.

Lemma symm_nil : symm []. Proof. intros i j. reflexivity. Qed.
Lemma rs0_nil : rs0 []. Proof. intros i. reflexivity. Qed.
Lemma symm_app A B : symm A -> symm B -> symm (A ++ B).
Proof. intros HA HB i j. rewrite !entry_app, HA, HB. reflexivity. Qed.
Lemma rs0_app A B : rs0 A -> rs0 B -> rs0 (A ++ B).
Proof. intros HA HB i. rewrite rowsum_app, HA, HB. ring. Qed.
Lemma symm_flat_map {X} (f : X -> mat T) l : (forall x, symm (f x)) -> symm (flat_map f l).
Proof. intros H. induction l; cbn [flat_map]; [apply symm_nil | apply symm_app; auto]. Qed.
Lemma rs0_flat_map {X} (f : X -> mat T) l : (forall x, rs0 (f x)) -> rs0 (flat_map f l).
Proof. intros H. induction l; cbn [flat_map]; [apply rs0_nil | apply rs0_app; auto]. Qed.
Lemma symm_cons_diag k v M : symm M -> symm ((k, k, v) :: M).
Proof.
  intros H i j. cbn [entry]. rewrite (H i j).
  destruct (k =? i)%Z, (k =? j)%Z; reflexivity.
Qed.

(* ------------------------------------------------------------------ the generated 4-coefficient blocks *)
Ltac block4 :=
  let i := fresh "i" in let j := fresh "j" in
  intros; intros i j; cbn [entry rowsum];
  repeat match goal with |- context [(?a =? ?b)%Z] => destruct (a =? b)%Z end; cbn [andb]; ring.
Ltac block4r :=
  let i := fresh "i" in
  intros; intros i; cbn [entry rowsum];
  repeat match goal with |- context [(?a =? ?b)%Z] => destruct (a =? b)%Z end; cbn [andb]; ring.

Lemma lap_coeffs_symm i j v : symm (lap_coeffs O i j v).
Proof. unfold lap_coeffs. block4. Qed.
Lemma lap_coeffs_rs0 i j v : rs0 (lap_coeffs O i j v).
Proof. unfold lap_coeffs. block4r. Qed.
Lemma lape_coeffs_symm e1 e2 c : symm (lape_coeffs O e1 e2 c).
Proof. unfold lape_coeffs. block4. Qed.
Lemma lape_coeffs_rs0 e1 e2 c : rs0 (lape_coeffs O e1 e2 c).
Proof. unfold lape_coeffs. block4r. Qed.
Lemma vl_coeffs_symm a b w : symm (vl_coeffs O a b w).
Proof. unfold vl_coeffs. block4. Qed.
Lemma vl_coeffs_rs0 a b w : rs0 (vl_coeffs O a b w).
Proof. unfold vl_coeffs. block4r. Qed.

(* ------------------------------------------------------------------ vertex Laplacian (cotan, uniform, any weights) *)
Lemma laplacian_tri_symm w f : symm (laplacian_tri O w f).
Proof.
  destruct f as [[p q] r], w as [[a b] c]. unfold laplacian_tri.
  apply symm_flat_map. intros [[i j] v]. apply lap_coeffs_symm.
Qed.
Lemma laplacian_tri_rs0 w f : rs0 (laplacian_tri O w f).
Proof.
  destruct f as [[p q] r], w as [[a b] c]. unfold laplacian_tri.
  apply rs0_flat_map. intros [[i j] v]. apply lap_coeffs_rs0.
Qed.
Theorem laplacian_gen_sym_rowsum (wf : face -> T * T * T) (F : list face) :
  symm (laplacian_gen O wf F) /\ rs0 (laplacian_gen O wf F).
Proof.
  split; [apply symm_flat_map | apply rs0_flat_map]; intros f;
    [apply laplacian_tri_symm | apply laplacian_tri_rs0].
Qed.

(* ------------------------------------------------------------------ edge Laplacian *)
Lemma lape_corner_symm E a b c k : symm (lape_corner O E a b c k).
Proof. unfold lape_corner. destruct (lape_e1e2 _ _ _ _). apply lape_coeffs_symm. Qed.
Lemma lape_corner_rs0 E a b c k : rs0 (lape_corner O E a b c k).
Proof. unfold lape_corner. destruct (lape_e1e2 _ _ _ _). apply lape_coeffs_rs0. Qed.
Theorem lape_gen_sym_rowsum (cf : face -> T * T * T) (E : list edge) (F : list face) :
  symm (lape_gen O cf E F) /\ rs0 (lape_gen O cf E F).
Proof.
  split; [apply symm_flat_map | apply rs0_flat_map]; intros [[p q] r]; destruct (cf (p, q, r)) as [[k0 k1] k2].
  - repeat apply symm_app; apply lape_corner_symm.
  - repeat apply rs0_app; apply lape_corner_rs0.
Qed.

(* ------------------------------------------------------------------ volume Laplacian (any edge weights) *)
Theorem vl_gen_sym_rowsum (W : list (Z * Z * T)) : symm (vl_gen O W) /\ rs0 (vl_gen O W).
Proof.
  split; [apply symm_flat_map | apply rs0_flat_map]; intros [[a b] w];
    [apply vl_coeffs_symm | apply vl_coeffs_rs0].
Qed.

End Struct.
