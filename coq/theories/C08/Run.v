(* C08 - the boolean checkers the correspondence batches evaluate: the model's operator (Model.v over Gen.v) against
   the summed (row, col, value) triplets and the shape the implementation returned.  No proofs. *)
From Coq Require Import ZArith List Bool QArith Qabs.
From Coq Require Import PrimFloat.
Import ListNotations.
Require Import MV.Lib.Base MV.Lib.FloatLit MV.C08.Ops MV.C08.Gen MV.C08.Model.
Open Scope Z_scope.

Inductive opc :=
| OLap (cotan : bool) | OGraphLap | OCed (inverse : bool) | OLapTri (cotan : bool) | OLapEdges (cotan : bool)
| OGradRe (flat : bool) | OGradIm (flat : bool) | OGradReal (flat : bool) | OGag (flat : bool)
| OMassV (inverse sqrt : bool) | OMassF (inverse : bool) | OMassE (inverse : bool)
| OAdjOne | OAdjLen | OAdjCustom (w : list lit) | OV2E (oriented : bool) | OV2F
| OVolLap | OTetLap | OMassVV (inverse sqrt : bool) | OMassVC (inverse sqrt : bool).

Record case := mkcase {
  c_verts : list (Z * Z * Z);       (* integer (lattice) coordinates *)
  c_scale : Z;                      (* the coordinates handed to the implementation are these times 2^c_scale (exact) *)
  c_faces : list face;
  c_cells : list cell;
  c_edges : list edge;               (* mesh.edges as stored *)
  c_outs : list (opc * (Z * Z) * list (Z * Z * lit))   (* operator, returned shape, returned entries (sorted, summed) *)
}.

(* ------------------------------------------------------------------ sorting / summing triplets by (row, col) *)
Section Canon.
Context {T : Type} (OP : ops T).

Fixpoint merge_sum (a : list (Z * T)) : list (Z * T) -> list (Z * T) :=
  fix aux (b : list (Z * T)) : list (Z * T) :=
    match a, b with
    | [], _ => b
    | _, [] => a
    | (k, v) :: a', (l, w) :: b' =>
        if k <? l then (k, v) :: merge_sum a' b
        else if l <? k then (l, w) :: aux b'
        else merge_sum a' ((k, oadd OP v w) :: b')
    end.
Fixpoint merge_pairs (l : list (list (Z * T))) : list (list (Z * T)) :=
  match l with
  | a :: b :: r => merge_sum a b :: merge_pairs r
  | _ => l
  end.
Fixpoint msort_runs (fuel : nat) (l : list (list (Z * T))) : list (Z * T) :=
  match l with
  | [] => []
  | [x] => x
  | _ => match fuel with
         | 0%nat => concat l
         | S f => msort_runs f (merge_pairs l)
         end
  end.
Definition canon (ncols : Z) (M : mat T) : list (Z * T) :=
  msort_runs (length M) (map (fun t : Z * Z * T => let '(i, j, v) := t in [(i * ncols + j, v)]) M).

Variable close : T -> T -> bool.   (* close model implementation *)

(* walk the two key-sorted lists; a key present on one side only must carry (nearly) zero there *)
Fixpoint cmp_sorted (fuel : nat) (model impl : list (Z * T)) : bool :=
  match fuel with
  | 0%nat => false
  | S f =>
      match model, impl with
      | [], [] => true
      | (k, v) :: m', [] => close v (o0 OP) && cmp_sorted f m' []
      | [], (l, w) :: i' => close (o0 OP) w && cmp_sorted f [] i'
      | (k, v) :: m', (l, w) :: i' =>
          if k <? l then close v (o0 OP) && cmp_sorted f m' impl
          else if l <? k then close (o0 OP) w && cmp_sorted f model i'
          else close v w && cmp_sorted f m' i'
      end
  end.

Definition in_shape (sh : Z * Z) (M : mat T) : bool :=
  forallb (fun t : Z * Z * T => let '(i, j, _) := t in
             (0 <=? i) && (i <? fst sh) && (0 <=? j) && (j <? snd sh)) M.

Definition mat_agree (ofl : lit -> T) (sh_model : Z * Z) (M : mat T) (sh_impl : Z * Z) (I : list (Z * Z * lit)) : bool :=
  (fst sh_model =? fst sh_impl) && (snd sh_model =? snd sh_impl) && in_shape sh_model M &&
  let nc := snd sh_model in
  let mi := map (fun t : Z * Z * lit => let '(i, j, l) := t in (i * nc + j, ofl l)) I in
  cmp_sorted (S (length M + length I)) (canon nc M) mi.

(* ------------------------------------------------------------------ one operator of the model *)
Definition eval_op (ofl : lit -> T) (cotf : vec T -> vec T -> vec T -> T)
    (V : list (vec T)) (F : list face) (C : list cell) (E : list edge) (op : opc) : (Z * Z) * mat T :=
  let n := zlen V in let m := zlen E in let nf := zlen F in let nc := zlen C in
  match op with
  | OLap true => (lap_shape n, laplacian_cotan OP cotf V F)
  | OLap false => (lap_shape n, laplacian_uniform OP F)
  | OGraphLap => (gl_shape n m, graph_laplacian OP n E)
  | OCed inv => ((m, m), cotan_edge_diagonal OP cotf inv V F E)
  | OLapTri true => ((nf, nf), lapt_weighted OP (ced_coeffs OP cotf ced_default_inverse V F E) (dual_pairs F E))
  | OLapTri false => ((nf, nf), lapt_plain OP (dual_pairs F E))
  | OLapEdges true => (lape_shape m, laplacian_edges_cotan OP cotf V E F)
  | OLapEdges false => (lape_shape m, laplacian_edges_uniform OP E F)
  | OGradRe fl => (grad_shape nf n, re_part (gradient_complex OP V F (if fl then flat_bases OP V F else conn_bases OP V F)))
  | OGradIm fl => (grad_shape nf n, im_part (gradient_complex OP V F (if fl then flat_bases OP V F else conn_bases OP V F)))
  | OGradReal fl => (grad_shape (grad_real_nrows nf) n, gradient_real OP V F (if fl then flat_bases OP V F else conn_bases OP V F))
  | OGag fl => ((n, n), gag_re OP V F (if fl then flat_bases OP V F else conn_bases OP V F))
  | OMassV inv sq => ((n, n), mass_vertices OP inv sq n V F)
  | OMassF inv => ((nf, nf), mass_faces OP inv V F)
  | OMassE inv => ((m, m), mass_edges OP inv V F E)
  | OAdjOne => (adj_shape n m, adjacency (w_one OP E) E)
  | OAdjLen => (adj_shape n m, adjacency (w_length OP V E) E)
  | OAdjCustom w => (adj_shape n m, adjacency (w_custom (map ofl w)) E)
  | OV2E ori => (v2e_shape n m, vertex_to_edge OP ori E)
  | OV2F => (v2f_shape n nf, vertex_to_face OP F)
  | OVolLap => ((n, n), volume_laplacian OP V C E)
  | OTetLap => ((nc, nc), laplacian_tetrahedra OP C)
  | OMassVV inv sq => ((n, n), mass_vol_vertices OP inv sq n V C)
  | OMassVC inv sq => ((nc, nc), mass_vol_cells OP inv sq V C)
  end.

Definition check_with (ofl : lit -> T) (cotf : vec T -> vec T -> vec T -> T) (c : case) : bool :=
  let k := c_scale c in
  let sc := if 0 <=? k then oofZ OP (2 ^ k) else odiv OP (o1 OP) (oofZ OP (2 ^ (- k))) in
  let V := map (fun p : Z * Z * Z => let '(x, y, z) := p in
                  (omul OP sc (oofZ OP x), omul OP sc (oofZ OP y), omul OP sc (oofZ OP z))) (c_verts c) in
  forallb (fun o : opc * (Z * Z) * list (Z * Z * lit) =>
             let '(op, sh, imp) := o in
             let '(shm, M) := eval_op ofl cotf V (c_faces c) (c_cells c) (c_edges c) op in
             mat_agree ofl shm M sh imp) (c_outs c).
End Canon.

(* well-formedness of the stored edge list w.r.t. the face / cell list (precondition of the model, checked per case) *)
Definition edge_in (E : list edge) (u v : Z) : bool := 0 <=? edge_id E u v.
Definition edges_ok (c : case) : bool :=
  let E := c_edges c in
  forallb (fun e : edge => negb (fst e =? snd e)) E &&
  forallb (fun ie : Z * edge => let '(i, (a, b)) := ie in edge_id E a b =? i) (indexed E) &&
  forallb (fun f : face => let '(p, q, r) := f in
             edge_in E p q && edge_in E q r && edge_in E r p &&
             negb (p =? q) && negb (q =? r) && negb (r =? p)) (c_faces c) &&
  forallb (fun cl : cell => let l := cell_list cl in
             forallb (fun x => forallb (fun y => (x =? y) || edge_in E x y) l) l) (c_cells c) &&
  (* the list-level hypotheses of C08_sym_rowsum_tetra and C08_mass_edges (and the fibre conditions they imply) hold on this mesh *)
  cell_adjacency_ok (c_cells c) && edge_cover_ok (c_faces c) E && surface_manifold_ok (c_faces c) E &&
  cells_conforming (c_cells c).

(* binary64 run: relative/absolute tolerance 1e-9 on finite values *)
(* a = model, b = implementation. An infinite implementation value must be matched exactly (|a - inf| <= tol (1 + inf) would
   hold for every a); NaN on either side is rejected (eqb and leb are false on NaN, is_nan makes it explicit). *)
Definition fclose2 (a b : float) : bool :=
  if PrimFloat.is_nan a || PrimFloat.is_nan b then false
  else if PrimFloat.is_infinity b || PrimFloat.is_infinity a then PrimFloat.eqb a b
  else fclose tol9 a b.
Definition check_float (c : case) : bool := edges_ok c && check_with Fops fclose2 lit_f (cot_code Fops) c.

(* exact run over Q (combinatorial operators: exact equality; planar lattice meshes: textbook cotangent, exact roots;
   the implementation's doubles are compared as the rationals they denote, house tolerance 1e-9 (1 + |x|) for their rounding) *)
Definition q_exact (a b : Q) : bool := Qeq_bool a b.
Definition q_close (a b : Q) : bool :=
  Qle_bool (Qabs (a - b)) ((1 # 1000000000) * (1 + Qabs b)).
Definition check_q_exact (c : case) : bool := edges_ok c && check_with Qops q_exact lit_q (cot_simple Qops) c.
Definition check_q_close (c : case) : bool := edges_ok c && check_with Qops q_close lit_q (cot_simple Qops) c.
