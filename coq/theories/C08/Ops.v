(* C08 - bare record of numeric operations (no laws), its executable instances (binary64, Q), 3-vectors and
   sparse matrices as triplet lists.  No proofs here. *)
From Coq Require Import ZArith List Bool QArith Qabs Qreduction.
From Coq Require Import Uint63 PrimFloat.
Require Import MV.Lib.Base MV.Lib.FloatLit.
Import ListNotations.

Record ops (T : Type) := mkops {
  o0 : T; o1 : T;
  oadd : T -> T -> T; osub : T -> T -> T; omul : T -> T -> T; odiv : T -> T -> T;
  oopp : T -> T; oinv : T -> T;
  osqrt : T -> T; oabs : T -> T;
  oltb : T -> T -> bool;
  oofZ : Z -> T
}.
Arguments o0 {T}. Arguments o1 {T}. Arguments oadd {T}. Arguments osub {T}. Arguments omul {T}.
Arguments odiv {T}. Arguments oopp {T}. Arguments oinv {T}. Arguments osqrt {T}. Arguments oabs {T}.
Arguments oltb {T}. Arguments oofZ {T}.

Section Generic.
Context {T : Type} (O : ops T).

(* the few numeric constants the anchored code uses *)
Definition two : T := oadd O (o1 O) (o1 O).
Definition three : T := oadd O (two) (o1 O).
Definition six : T := omul O two three.
Definition half : T := odiv O (o1 O) two.

Definition vec : Type := (T * T * T)%type.
Definition vsub (a b : vec) : vec :=
  let '(a0, a1, a2) := a in let '(b0, b1, b2) := b in (osub O a0 b0, osub O a1 b1, osub O a2 b2).
Definition vadd (a b : vec) : vec :=
  let '(a0, a1, a2) := a in let '(b0, b1, b2) := b in (oadd O a0 b0, oadd O a1 b1, oadd O a2 b2).
Definition vdot (a b : vec) : T :=
  let '(a0, a1, a2) := a in let '(b0, b1, b2) := b in
  oadd O (oadd O (omul O a0 b0) (omul O a1 b1)) (omul O a2 b2).
(* geometry.cross *)
Definition vcross (a b : vec) : vec :=
  let '(a0, a1, a2) := a in let '(b0, b1, b2) := b in
  (osub O (omul O a1 b2) (omul O a2 b1),
   osub O (omul O b0 a2) (omul O b2 a0),
   osub O (omul O a0 b1) (omul O a1 b0)).
Definition vnorm (a : vec) : T := osqrt O (vdot a a).
Definition vdivs (a : vec) (s : T) : vec := let '(a0, a1, a2) := a in (odiv O a0 s, odiv O a1 s, odiv O a2 s).
Definition vscale (s : T) (a : vec) : vec := let '(a0, a1, a2) := a in (omul O s a0, omul O s a1, omul O s a2).
(* Vec.normalized *)
Definition vnormalized (a : vec) : vec := vdivs a (vnorm a).
Definition vzero : vec := (o0 O, o0 O, o0 O).

(* ---- sparse matrices: unsummed triplet lists, as handed to scipy's coo/csc constructors *)
Definition mat : Type := list (Z * Z * T).

Fixpoint entry (M : mat) (i j : Z) : T :=
  match M with
  | [] => o0 O
  | (a, b, v) :: r => if (a =? i)%Z && (b =? j)%Z then oadd O v (entry r i j) else entry r i j
  end.
Fixpoint rowsum (M : mat) (i : Z) : T :=
  match M with
  | [] => o0 O
  | (a, b, v) :: r => if (a =? i)%Z then oadd O v (rowsum r i) else rowsum r i
  end.
Fixpoint total (M : mat) : T :=
  match M with
  | [] => o0 O
  | (a, b, v) :: r => oadd O v (total r)
  end.
Definition transpose (M : mat) : mat := map (fun t => let '(a, b, v) := t in (b, a, v)) M.
Definition mmul (A B : mat) : mat :=
  flat_map (fun ta => let '(i, k, a) := ta in
    flat_map (fun tb => let '(k', j, b) := tb in if (k =? k')%Z then [(i, j, omul O a b)] else []) B) A.
Definition mscale (s : T) (M : mat) : mat := map (fun t => let '(a, b, v) := t in (a, b, omul O s v)) M.

Fixpoint diag_from (i : Z) (d : list T) : mat :=
  match d with [] => [] | v :: r => (i, i, v) :: diag_from (i + 1) r end.
Definition diag (d : list T) : mat := diag_from 0 d.

Fixpoint sumT (l : list T) : T := match l with [] => o0 O | x :: r => oadd O x (sumT r) end.

End Generic.

Arguments vec T : clear implicits.
Arguments mat T : clear implicits.

(* ---------------------------------------------------------------- binary64 *)
Definition f_ofZ (z : Z) : float :=
  let a := of_uint63 (Uint63.of_Z (Z.abs z)) in if (z <? 0)%Z then PrimFloat.opp a else a.
Definition Fops : ops float := {|
  o0 := PrimFloat.zero; o1 := PrimFloat.one;
  oadd := PrimFloat.add; osub := PrimFloat.sub; omul := PrimFloat.mul; odiv := PrimFloat.div;
  oopp := PrimFloat.opp; oinv := fun x => PrimFloat.div PrimFloat.one x;
  osqrt := PrimFloat.sqrt; oabs := PrimFloat.abs; oltb := PrimFloat.ltb; oofZ := f_ofZ |}.

(* ---------------------------------------------------------------- exact rationals
   sqrt is exact on squares of rationals and returns the marker -1 otherwise (a value no norm can take), so
   an exact run is meaningful only where every radicand is a perfect square (planar lattice meshes); the
   batch checker tests the marker. *)
Definition q_sqrt (q : Q) : Q :=
  let r := Qred q in
  let n := Qnum r in let d := Zpos (Qden r) in
  let sn := Z.sqrt n in let sd := Z.sqrt d in
  if (0 <=? n)%Z && (sn * sn =? n)%Z && (sd * sd =? d)%Z then Qmake sn (Z.to_pos sd) else Qmake (-1) 1.
Definition q_ltb (a b : Q) : bool := negb (Qle_bool b a).
Definition Qops : ops Q := {|
  o0 := 0%Q; o1 := 1%Q;
  oadd := fun a b => Qred (Qplus a b); osub := fun a b => Qred (Qminus a b);
  omul := fun a b => Qred (Qmult a b); odiv := fun a b => Qred (Qdiv a b);
  oopp := Qopp; oinv := Qinv; osqrt := q_sqrt; oabs := Qabs; oltb := q_ltb; oofZ := inject_Z |}.

(* a binary64 literal (mantissa, exponent) as float / as the exact rational it denotes *)
Definition lit := (Z * Z)%type.
Definition lit_f (l : lit) : float := mkf (fst l) (snd l).
Definition lit_q (l : lit) : Q :=
  let '(m, e) := l in
  if (0 <=? e)%Z then inject_Z (m * 2 ^ e) else Qred (Qmake m (Z.to_pos (2 ^ (- e)))).
