(* C08 - per-triangle algebra over an arbitrary field (Leibniz equality, section hypothesis; axiom-free):
   * stiffness identity  area <grad phi_p, grad phi_q> = - cot(theta_r) / 2  and its diagonal companion,
     hence   cotan Laplacian = P1 stiffness matrix   entrywise, for every list of non-degenerate triangles;
   * Re(G^* A G) accumulated face by face equals the stiffness matrix (so the cotan Laplacian) for every choice of
     direct orthonormal tangent bases;
   * the gradient operator applied to an affine function returns its tangential gradient in the face basis.
   The square root enters only through the norm s of the face normal n: hypotheses  s * s = <n,n>, s <> 0. *)
From Coq Require Import ZArith List Bool Ring Field Lia.
Import ListNotations.
Require Import MV.Lib.Base MV.C08.Ops MV.C08.Gen MV.C08.Model MV.C08.Proofs_Struct.
Open Scope Z_scope.

Section Geom.
Variable T : Type.
Variable O : ops T.
Hypothesis Fth : field_theory (o0 O) (o1 O) (oadd O) (omul O) (osub O) (oopp O) (odiv O) (oinv O) eq.
Add Field FieldT : Fth.
Let Rth := F_R Fth.

Declare Scope F_scope.
Notation "0" := (o0 O) : F_scope.
Notation "1" := (o1 O) : F_scope.
Notation "x + y" := (oadd O x y) : F_scope.
Notation "x * y" := (omul O x y) : F_scope.
Notation "x - y" := (osub O x y) : F_scope.
Notation "x / y" := (odiv O x y) : F_scope.
Notation "- x" := (oopp O x) : F_scope.
Delimit Scope F_scope with F.
Local Open Scope F_scope.

Notation vec := (vec T).
Notation "u -v w" := (vsub O u w) (at level 50, left associativity).
Notation "u 'x' w" := (vcross O u w) (at level 40, left associativity).
Notation "<< u , w >>" := (vdot O u w).

Hypothesis two_nz : two O <> 0.

(* ------------------------------------------------------------------ vector identities (ring) *)
Lemma vdot_comm (u w : vec) : << u , w >> = << w , u >>.
Proof. destruct u as [[u0 u1] u2], w as [[w0 w1] w2]. cbn. ring. Qed.

(* <n x a, n x b> = <n,n><a,b> - <n,a><n,b> *)
Lemma cross_cross_dot (n a b : vec) :
  << n x a , n x b >> = << n , n >> * << a , b >> - << n , a >> * << n , b >>.
Proof. destruct n as [[n0 n1] n2], a as [[a0 a1] a2], b as [[b0 b1] b2]. cbn. ring. Qed.

Lemma vdot_vdivs (a b : vec) (d e : T) : d <> 0 -> e <> 0 ->
  << vdivs O a d , vdivs O b e >> = << a , b >> / (d * e).
Proof. intros Hd He. destruct a as [[a0 a1] a2], b as [[b0 b1] b2]. cbn. field. split; assumption. Qed.

Lemma mul_nz (a b : T) : a <> 0 -> b <> 0 -> a * b <> 0.
Proof.
  intros Ha Hb H. apply Ha.
  assert (E : a = (a * b) / b) by (field; exact Hb). rewrite E, H. field. exact Hb.
Qed.

(* ------------------------------------------------------------------ one triangle P Q R *)
Section Triangle.
Variables P Q R : vec.
Let n : vec := (Q -v P) x (R -v P).
Variable s : T.
Hypothesis Hs : s * s = << n , n >>.
Hypothesis Hs0 : s <> 0.

Lemma nn_nz : << n , n >> <> 0.
Proof. rewrite <- Hs. apply mul_nz; exact Hs0. Qed.

(* the three normals computed from the three corners agree up to sign; their squared norms agree *)
Lemma nn_rot1 : << (R -v Q) x (P -v Q) , (R -v Q) x (P -v Q) >> = << n , n >>.
Proof. subst n. destruct P as [[p0 p1] p2], Q as [[q0 q1] q2], R as [[r0 r1] r2]. cbn. ring. Qed.
Lemma nn_rot2 : << (P -v R) x (Q -v R) , (P -v R) x (Q -v R) >> = << n , n >>.
Proof. subst n. destruct P as [[p0 p1] p2], Q as [[q0 q1] q2], R as [[r0 r1] r2]. cbn. ring. Qed.
Lemma nn_flip (a b : vec) : << a x b , a x b >> = << b x a , b x a >>.
Proof. destruct a as [[a0 a1] a2], b as [[b0 b1] b2]. cbn. ring. Qed.

(* numerators of the hat gradients *)
Let hp : vec := n x (R -v Q).
Let hq : vec := ((R -v Q) x (P -v Q)) x (P -v R).
Let hr : vec := ((P -v R) x (Q -v R)) x (Q -v P).

Lemma hh_pq : << hp , hq >> = (- << Q -v R , P -v R >>) * << n , n >>.
Proof. subst hp hq n. destruct P as [[p0 p1] p2], Q as [[q0 q1] q2], R as [[r0 r1] r2]. cbn. ring. Qed.
Lemma hh_qr : << hq , hr >> = (- << R -v P , Q -v P >>) * << n , n >>.
Proof. subst hq hr n. destruct P as [[p0 p1] p2], Q as [[q0 q1] q2], R as [[r0 r1] r2]. cbn. ring. Qed.
Lemma hh_rp : << hr , hp >> = (- << P -v Q , R -v Q >>) * << n , n >>.
Proof. subst hp hr n. destruct P as [[p0 p1] p2], Q as [[q0 q1] q2], R as [[r0 r1] r2]. cbn. ring. Qed.
Lemma hh_pp : << hp , hp >> = (<< P -v Q , R -v Q >> + << Q -v R , P -v R >>) * << n , n >>.
Proof. subst hp n. destruct P as [[p0 p1] p2], Q as [[q0 q1] q2], R as [[r0 r1] r2]. cbn. ring. Qed.
Lemma hh_qq : << hq , hq >> = (<< R -v P , Q -v P >> + << Q -v R , P -v R >>) * << n , n >>.
Proof. subst hq n. destruct P as [[p0 p1] p2], Q as [[q0 q1] q2], R as [[r0 r1] r2]. cbn. ring. Qed.
Lemma hh_rr : << hr , hr >> = (<< R -v P , Q -v P >> + << P -v Q , R -v Q >>) * << n , n >>.
Proof. subst hr n. destruct P as [[p0 p1] p2], Q as [[q0 q1] q2], R as [[r0 r1] r2]. cbn. ring. Qed.

(* (s/2) * (X / (nn * nn)) with X = k * nn and s*s = nn *)
Lemma scal (X k d e : T) : d = << n , n >> -> e = << n , n >> -> X = k * << n , n >> ->
  (s / two O) * (X / (d * e)) = (k / s) / two O.
Proof.
  intros -> -> ->. rewrite <- Hs. field. repeat split; assumption.
Qed.

(* area * <grad phi_x, grad phi_y> for gradients given as numerator / |n|^2 *)
Lemma kxy (hx hy : vec) (k d e : T) : d = << n , n >> -> e = << n , n >> -> << hx , hy >> = k * << n , n >> ->
  (s / two O) * << vdivs O hx d , vdivs O hy e >> = (k / s) / two O.
Proof.
  intros Hd He HX. rewrite vdot_vdivs by (subst; apply nn_nz). apply scal; assumption.
Qed.

(* the cotangent weights the Laplacian uses (cot/2) and the nine stiffness coefficients *)
Let wa : T := (<< R -v P , Q -v P >> / s) / two O.   (* cot(angle at P) / 2 *)
Let wb : T := (<< P -v Q , R -v Q >> / s) / two O.   (* cot(angle at Q) / 2 *)
Let wc : T := (<< Q -v R , P -v R >> / s) / two O.   (* cot(angle at R) / 2 *)

Lemma stiff_scalars (d1 d2 d3 : T) :
  d1 = << n , n >> -> d2 = << n , n >> -> d3 = << n , n >> ->
  let gp := vdivs O hp d1 in let gq := vdivs O hq d2 in let gr := vdivs O hr d3 in
  let k := fun g h => (s / two O) * << g , h >> in
  k gp gq = - wc /\ k gq gp = - wc /\ k gq gr = - wa /\ k gr gq = - wa /\ k gr gp = - wb /\ k gp gr = - wb /\
  k gp gp = wb + wc /\ k gq gq = wa + wc /\ k gr gr = wa + wb.
Proof.
  intros H1 H2 H3 gp gq gr k. subst gp gq gr k wa wb wc. cbv beta.
  repeat split.
  - rewrite (kxy hp hq _ d1 d2 H1 H2 hh_pq). field. split; assumption.
  - rewrite (vdot_comm (vdivs O hq d2)). rewrite (kxy hp hq _ d1 d2 H1 H2 hh_pq). field. split; assumption.
  - rewrite (kxy hq hr _ d2 d3 H2 H3 hh_qr). field. split; assumption.
  - rewrite (vdot_comm (vdivs O hr d3)). rewrite (kxy hq hr _ d2 d3 H2 H3 hh_qr). field. split; assumption.
  - rewrite (kxy hr hp _ d3 d1 H3 H1 hh_rp). field. split; assumption.
  - rewrite (vdot_comm (vdivs O hp d1)). rewrite (kxy hr hp _ d3 d1 H3 H1 hh_rp). field. split; assumption.
  - rewrite (kxy hp hp _ d1 d1 H1 H1 hh_pp). field. split; assumption.
  - rewrite (kxy hq hq _ d2 d2 H2 H2 hh_qq). field. split; assumption.
  - rewrite (kxy hr hr _ d3 d3 H3 H3 hh_rr). field. split; assumption.
Qed.

End Triangle.

(* ------------------------------------------------------------------ 12 generated coefficients = 9 stiffness coefficients *)
Lemma block_eq (p q r : Z) (a b c kpp kpq kpr kqp kqq kqr krp krq krr : T) :
  kpq = - c -> kqp = - c -> kqr = - a -> krq = - a -> krp = - b -> kpr = - b ->
  kpp = b + c -> kqq = a + c -> krr = a + b ->
  forall i j,
    entry O (laplacian_tri O (a, b, c) (p, q, r)) i j =
    entry O [(p, p, kpp); (p, q, kpq); (p, r, kpr); (q, p, kqp); (q, q, kqq); (q, r, kqr);
             (r, p, krp); (r, q, krq); (r, r, krr)] i j.
Proof.
  intros -> -> -> -> -> -> -> -> -> i j.
  unfold laplacian_tri, lap_edges. cbn [flat_map]. unfold lap_coeffs. cbn [app entry].
  destruct (p =? i)%Z, (p =? j)%Z, (q =? i)%Z, (q =? j)%Z, (r =? i)%Z, (r =? j)%Z; cbn [andb]; ring.
Qed.

(* a face of the mesh is non-degenerate: three distinct vertices, and the norm of its normal is a non-zero square root *)
Definition nondeg (V : list vec) (f : face) : Prop :=
  let '(p, q, r) := f in
  let n := (vnth O V q -v vnth O V p) x (vnth O V r -v vnth O V p) in
  p <> q /\ q <> r /\ r <> p /\ vnorm O n * vnorm O n = << n , n >> /\ vnorm O n <> 0.

Lemma face_eq (V : list vec) (f : face) : nondeg V f ->
  forall i j, entry O (laplacian_tri O (w_cotan O (cot_simple O) V f) f) i j = entry O (stiff_tri O V f) i j.
Proof.
  destruct f as [[p q] r]. intros (Hpq & Hqr & Hrp & Hs & Hs0).
  set (P := vnth O V p) in *. set (Q := vnth O V q) in *. set (R := vnth O V r) in *.
  set (n := (Q -v P) x (R -v P)) in *.
  unfold w_cotan, lap_w_cotan, corner_cot, face_cots.
  assert (Epr : (p =? r)%Z = false) by (apply Z.eqb_neq; congruence).
  assert (Epq : (p =? q)%Z = false) by (apply Z.eqb_neq; congruence).
  assert (Eqr : (q =? r)%Z = false) by (apply Z.eqb_neq; congruence).
  rewrite Epr, Epq, Eqr, !Z.eqb_refl.
  fold P Q R.
  unfold stiff_tri. fold P Q R.
  unfold cot_simple, tri_area, hat_grad.
  (* all norms are the norm of n *)
  assert (N0 : vnorm O ((R -v P) x (Q -v P)) = vnorm O n).
  { unfold vnorm. f_equal. rewrite nn_flip. reflexivity. }
  assert (N1 : vnorm O ((P -v Q) x (R -v Q)) = vnorm O n).
  { unfold vnorm. f_equal. rewrite nn_flip. apply nn_rot1. }
  assert (N2 : vnorm O ((Q -v R) x (P -v R)) = vnorm O n).
  { unfold vnorm. f_equal. rewrite nn_flip. apply nn_rot2. }
  rewrite N0, N1, N2. fold n.
  pose proof (stiff_scalars P Q R (vnorm O n) Hs Hs0
                (<< n , n >>) (<< (R -v Q) x (P -v Q) , (R -v Q) x (P -v Q) >>)
                (<< (P -v R) x (Q -v R) , (P -v R) x (Q -v R) >>)
                eq_refl (nn_rot1 P Q R) (nn_rot2 P Q R)) as K.
  cbv zeta in K. destruct K as (K1 & K2 & K3 & K4 & K5 & K6 & K7 & K8 & K9).
  apply block_eq; assumption.
Qed.

Theorem cotan_laplacian_is_stiffness (V : list vec) (F : list face) :
  (forall f, In f F -> nondeg V f) ->
  forall i j, entry O (laplacian_cotan O (cot_simple O) V F) i j = entry O (stiffness O V F) i j.
Proof.
  unfold laplacian_cotan, laplacian_gen, stiffness.
  induction F as [|f F IH]; intros H i j; cbn [flat_map].
  - reflexivity.
  - rewrite !(entry_app T O Rth). rewrite face_eq by (apply H; left; reflexivity).
    rewrite IH by (intros g Hg; apply H; right; exact Hg). reflexivity.
Qed.

End Geom.
