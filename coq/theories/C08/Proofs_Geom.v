(* C08 - per-triangle algebra over an arbitrary field (Leibniz equality, section hypothesis; axiom-free):
   * stiffness identity  area <grad phi_p, grad phi_q> = - cot(theta_r) / 2  and its diagonal companion,
     hence   cotan Laplacian = P1 stiffness matrix   entrywise, for every list of non-degenerate triangles;
   * Re(G^* A G) accumulated face by face equals the stiffness matrix (so the cotan Laplacian) for every choice of
     direct orthonormal tangent bases;
   * the gradient operator applied to an affine function returns its tangential gradient in the face basis.
   The square root enters only through the norm s of the face normal n: hypotheses  s * s = <n,n>, s <> 0. *)
From Coq Require Import ZArith List Bool Ring Field Lia.
Import ListNotations.
Require Import MV.Lib.Base MV.C08.Ops MV.C08.Gen MV.C08.Model MV.C08.Proofs_Struct MV.C08.Proofs_Dual.
Open Scope Z_scope.

Section Geom.
Variable T : Type.
Variable O : ops T.
Hypothesis Fth : field_theory (o0 O) (o1 O) (oadd O) (omul O) (osub O) (oopp O) (odiv O) (oinv O) eq.
Add Field FieldT : Fth.
Let Rth := F_R Fth.

Declare Scope F_scope.
Notation "0" := (o0 O) : F_scope.
Notation "1" := (o1 O) : F_scope.
Notation "x + y" := (oadd O x y) : F_scope.
Notation "x * y" := (omul O x y) : F_scope.
Notation "x - y" := (osub O x y) : F_scope.
Notation "x / y" := (odiv O x y) : F_scope.
Notation "- x" := (oopp O x) : F_scope.
Delimit Scope F_scope with F.
Local Open Scope F_scope.

Notation vec := (vec T).
Notation "u -v w" := (vsub O u w) (at level 50, left associativity).
Notation "u 'x' w" := (vcross O u w) (at level 40, left associativity).
Notation "<< u , w >>" := (vdot O u w).

Hypothesis two_nz : two O <> 0.

(* ------------------------------------------------------------------ vector identities (ring) *)
Lemma vdot_comm (u w : vec) : << u , w >> = << w , u >>.
Proof. destruct u as [[u0 u1] u2], w as [[w0 w1] w2]. cbn. ring. Qed.

(* <n x a, n x b> = <n,n><a,b> - <n,a><n,b> *)
Lemma cross_cross_dot (n a b : vec) :
  << n x a , n x b >> = << n , n >> * << a , b >> - << n , a >> * << n , b >>.
Proof. destruct n as [[n0 n1] n2], a as [[a0 a1] a2], b as [[b0 b1] b2]. cbn. ring. Qed.

Lemma vdot_vdivs (a b : vec) (d e : T) : d <> 0 -> e <> 0 ->
  << vdivs O a d , vdivs O b e >> = << a , b >> / (d * e).
Proof. intros Hd He. destruct a as [[a0 a1] a2], b as [[b0 b1] b2]. cbn. field. split; assumption. Qed.

Lemma mul_nz (a b : T) : a <> 0 -> b <> 0 -> a * b <> 0.
Proof.
  intros Ha Hb H. apply Ha.
  assert (E : a = (a * b) / b) by (field; exact Hb). rewrite E, H. field. exact Hb.
Qed.

(* ------------------------------------------------------------------ one triangle P Q R *)
Section Triangle.
Variables P Q R : vec.
Let n : vec := (Q -v P) x (R -v P).
Variable s : T.
Hypothesis Hs : s * s = << n , n >>.
Hypothesis Hs0 : s <> 0.

Lemma nn_nz : << n , n >> <> 0.
Proof. rewrite <- Hs. apply mul_nz; exact Hs0. Qed.

(* the three normals computed from the three corners agree up to sign; their squared norms agree *)
Lemma nn_rot1 : << (R -v Q) x (P -v Q) , (R -v Q) x (P -v Q) >> = << n , n >>.
Proof. subst n. destruct P as [[p0 p1] p2], Q as [[q0 q1] q2], R as [[r0 r1] r2]. cbn. ring. Qed.
Lemma nn_rot2 : << (P -v R) x (Q -v R) , (P -v R) x (Q -v R) >> = << n , n >>.
Proof. subst n. destruct P as [[p0 p1] p2], Q as [[q0 q1] q2], R as [[r0 r1] r2]. cbn. ring. Qed.
Lemma nn_flip (a b : vec) : << a x b , a x b >> = << b x a , b x a >>.
Proof. destruct a as [[a0 a1] a2], b as [[b0 b1] b2]. cbn. ring. Qed.

(* numerators of the hat gradients *)
Let hp : vec := n x (R -v Q).
Let hq : vec := ((R -v Q) x (P -v Q)) x (P -v R).
Let hr : vec := ((P -v R) x (Q -v R)) x (Q -v P).

Lemma hh_pq : << hp , hq >> = (- << Q -v R , P -v R >>) * << n , n >>.
Proof. subst hp hq n. destruct P as [[p0 p1] p2], Q as [[q0 q1] q2], R as [[r0 r1] r2]. cbn. ring. Qed.
Lemma hh_qr : << hq , hr >> = (- << R -v P , Q -v P >>) * << n , n >>.
Proof. subst hq hr n. destruct P as [[p0 p1] p2], Q as [[q0 q1] q2], R as [[r0 r1] r2]. cbn. ring. Qed.
Lemma hh_rp : << hr , hp >> = (- << P -v Q , R -v Q >>) * << n , n >>.
Proof. subst hp hr n. destruct P as [[p0 p1] p2], Q as [[q0 q1] q2], R as [[r0 r1] r2]. cbn. ring. Qed.
Lemma hh_pp : << hp , hp >> = (<< P -v Q , R -v Q >> + << Q -v R , P -v R >>) * << n , n >>.
Proof. subst hp n. destruct P as [[p0 p1] p2], Q as [[q0 q1] q2], R as [[r0 r1] r2]. cbn. ring. Qed.
Lemma hh_qq : << hq , hq >> = (<< R -v P , Q -v P >> + << Q -v R , P -v R >>) * << n , n >>.
Proof. subst hq n. destruct P as [[p0 p1] p2], Q as [[q0 q1] q2], R as [[r0 r1] r2]. cbn. ring. Qed.
Lemma hh_rr : << hr , hr >> = (<< R -v P , Q -v P >> + << P -v Q , R -v Q >>) * << n , n >>.
Proof. subst hr n. destruct P as [[p0 p1] p2], Q as [[q0 q1] q2], R as [[r0 r1] r2]. cbn. ring. Qed.

(* (s/2) * (X / (nn * nn)) with X = k * nn and s*s = nn *)
Lemma scal (X k d e : T) : d = << n , n >> -> e = << n , n >> -> X = k * << n , n >> ->
  (s / two O) * (X / (d * e)) = (k / s) / two O.
Proof.
  intros -> -> ->. rewrite <- Hs. field. repeat split; assumption.
Qed.

(* area * <grad phi_x, grad phi_y> for gradients given as numerator / |n|^2 *)
Lemma kxy (hx hy : vec) (k d e : T) : d = << n , n >> -> e = << n , n >> -> << hx , hy >> = k * << n , n >> ->
  (s / two O) * << vdivs O hx d , vdivs O hy e >> = (k / s) / two O.
Proof.
  intros Hd He HX. rewrite vdot_vdivs by (subst; apply nn_nz). apply scal; assumption.
Qed.

(* the cotangent weights the Laplacian uses (cot/2) and the nine stiffness coefficients *)
Let wa : T := (<< R -v P , Q -v P >> / s) / two O.   (* cot(angle at P) / 2 *)
Let wb : T := (<< P -v Q , R -v Q >> / s) / two O.   (* cot(angle at Q) / 2 *)
Let wc : T := (<< Q -v R , P -v R >> / s) / two O.   (* cot(angle at R) / 2 *)

Lemma stiff_scalars (d1 d2 d3 : T) :
  d1 = << n , n >> -> d2 = << n , n >> -> d3 = << n , n >> ->
  let gp := vdivs O hp d1 in let gq := vdivs O hq d2 in let gr := vdivs O hr d3 in
  let k := fun g h => (s / two O) * << g , h >> in
  k gp gq = - wc /\ k gq gp = - wc /\ k gq gr = - wa /\ k gr gq = - wa /\ k gr gp = - wb /\ k gp gr = - wb /\
  k gp gp = wb + wc /\ k gq gq = wa + wc /\ k gr gr = wa + wb.
Proof.
  intros H1 H2 H3 gp gq gr k. subst gp gq gr k wa wb wc. cbv beta.
  repeat split.
  - rewrite (kxy hp hq _ d1 d2 H1 H2 hh_pq). field. split; assumption.
  - rewrite (vdot_comm (vdivs O hq d2)). rewrite (kxy hp hq _ d1 d2 H1 H2 hh_pq). field. split; assumption.
  - rewrite (kxy hq hr _ d2 d3 H2 H3 hh_qr). field. split; assumption.
  - rewrite (vdot_comm (vdivs O hr d3)). rewrite (kxy hq hr _ d2 d3 H2 H3 hh_qr). field. split; assumption.
  - rewrite (kxy hr hp _ d3 d1 H3 H1 hh_rp). field. split; assumption.
  - rewrite (vdot_comm (vdivs O hp d1)). rewrite (kxy hr hp _ d3 d1 H3 H1 hh_rp). field. split; assumption.
  - rewrite (kxy hp hp _ d1 d1 H1 H1 hh_pp). field. split; assumption.
  - rewrite (kxy hq hq _ d2 d2 H2 H2 hh_qq). field. split; assumption.
  - rewrite (kxy hr hr _ d3 d3 H3 H3 hh_rr). field. split; assumption.
Qed.

End Triangle.

(* ------------------------------------------------------------------ 12 generated coefficients = 9 stiffness coefficients *)
Lemma block_eq (p q r : Z) (a b c kpp kpq kpr kqp kqq kqr krp krq krr : T) :
  kpq = - c -> kqp = - c -> kqr = - a -> krq = - a -> krp = - b -> kpr = - b ->
  kpp = b + c -> kqq = a + c -> krr = a + b ->
  forall i j,
    entry O (laplacian_tri O (a, b, c) (p, q, r)) i j =
    entry O [(p, p, kpp); (p, q, kpq); (p, r, kpr); (q, p, kqp); (q, q, kqq); (q, r, kqr);
             (r, p, krp); (r, q, krq); (r, r, krr)] i j.
Proof.
  intros -> -> -> -> -> -> -> -> -> i j.
  rewrite !(entry_bil T O Rth). unfold bil, laplacian_tri, lap_edges. cbn [flat_map]. unfold lap_coeffs.
  cbn [app Proofs_Dual.lsum]. ring.
Qed.

(* a face of the mesh is non-degenerate: three distinct vertices, and the norm of its normal is a non-zero square root *)
Definition nondeg (V : list vec) (f : face) : Prop :=
  let '(p, q, r) := f in
  let n := (vnth O V q -v vnth O V p) x (vnth O V r -v vnth O V p) in
  p <> q /\ q <> r /\ r <> p /\ vnorm O n * vnorm O n = << n , n >> /\ vnorm O n <> 0.

Lemma face_eq (V : list vec) (f : face) : nondeg V f ->
  forall i j, entry O (laplacian_tri O (w_cotan O (cot_simple O) V f) f) i j = entry O (stiff_tri O V f) i j.
Proof.
  destruct f as [[p q] r]. intros (Hpq & Hqr & Hrp & Hs & Hs0).
  set (P := vnth O V p) in *. set (Q := vnth O V q) in *. set (R := vnth O V r) in *.
  set (n := (Q -v P) x (R -v P)) in *.
  unfold w_cotan, lap_w_cotan, corner_cot, face_cots.
  assert (Epr : (p =? r)%Z = false) by (apply Z.eqb_neq; congruence).
  assert (Epq : (p =? q)%Z = false) by (apply Z.eqb_neq; congruence).
  assert (Eqr : (q =? r)%Z = false) by (apply Z.eqb_neq; congruence).
  rewrite Epr, Epq, Eqr, !Z.eqb_refl.
  fold P Q R.
  unfold stiff_tri. fold P Q R.
  unfold cot_simple, tri_area, hat_grad.
  (* all norms are the norm of n *)
  assert (N0 : vnorm O ((R -v P) x (Q -v P)) = vnorm O n).
  { unfold vnorm. f_equal. rewrite nn_flip. reflexivity. }
  assert (N1 : vnorm O ((P -v Q) x (R -v Q)) = vnorm O n).
  { unfold vnorm. f_equal. rewrite nn_flip. apply (nn_rot1 P Q R _ Hs). }
  assert (N2 : vnorm O ((Q -v R) x (P -v R)) = vnorm O n).
  { unfold vnorm. f_equal. rewrite nn_flip. apply (nn_rot2 P Q R _ Hs). }
  rewrite N0, N1, N2. fold n.
  pose proof (stiff_scalars P Q R (vnorm O n) Hs Hs0
                (<< n , n >>) (<< (R -v Q) x (P -v Q) , (R -v Q) x (P -v Q) >>)
                (<< (P -v R) x (Q -v R) , (P -v R) x (Q -v R) >>)
                eq_refl (nn_rot1 P Q R _ Hs) (nn_rot2 P Q R _ Hs)) as K.
  cbv zeta in K. destruct K as (K1 & K2 & K3 & K4 & K5 & K6 & K7 & K8 & K9).
  apply block_eq; assumption.
Qed.

Theorem cotan_laplacian_is_stiffness (V : list vec) (F : list face) :
  (forall f, In f F -> nondeg V f) ->
  forall i j, entry O (laplacian_cotan O (cot_simple O) V F) i j = entry O (stiffness O V F) i j.
Proof.
  unfold laplacian_cotan, laplacian_gen, stiffness.
  induction F as [|f F IH]; intros H i j; cbn [flat_map].
  - reflexivity.
  - rewrite !(entry_app T O Rth). rewrite face_eq by (apply H; left; reflexivity).
    rewrite IH by (intros g Hg; apply H; right; exact Hg). reflexivity.
Qed.


(* ------------------------------------------------------------------ face bases: gradient rows *)
Definition vscale' (c : T) (u : vec) : vec := vscale O c u.

(* (X, Y) is a direct orthonormal tangent basis of the triangle P Q R whose normal n has norm s:  X x Y = n / s *)
Definition basis_ok (P Q R X Y : vec) (s : T) : Prop :=
  << X , X >> = 1 /\ << Y , Y >> = 1 /\ << X , Y >> = 0 /\ vscale O s (X x Y) = (Q -v P) x (R -v P).

Lemma vec_eq (a0 a1 a2 b0 b1 b2 : T) : a0 = b0 -> a1 = b1 -> a2 = b2 -> (a0, a1, a2) = (b0, b1, b2).
Proof. intros -> -> ->. reflexivity. Qed.

Lemma lagrange (X Y : vec) : << X x Y , X x Y >> = << X , X >> * << Y , Y >> - << X , Y >> * << X , Y >>.
Proof. destruct X as [[x0 x1] x2], Y as [[y0 y1] y2]. cbn. ring. Qed.

(* completeness of (X, Y, X x Y) in dimension 3, as a polynomial identity *)
Lemma complete (X Y u w : vec) :
  << u , w >> * << X x Y , X x Y >> =
  << u , X x Y >> * << w , X x Y >> + << u , X >> * << w , X >> * << Y , Y >> + << u , Y >> * << w , Y >> * << X , X >>
  - << X , Y >> * (<< u , X >> * << w , Y >> + << u , Y >> * << w , X >>).
Proof. destruct X as [[x0 x1] x2], Y as [[y0 y1] y2], u as [[u0 u1] u2], w as [[w0 w1] w2]. cbn. ring. Qed.

Lemma dot_scale (c : T) (u w : vec) : << u , vscale O c w >> = c * << u , w >>.
Proof. destruct u as [[u0 u1] u2], w as [[w0 w1] w2]. cbn. ring. Qed.

Lemma mul_cancel (c z : T) : c <> 0 -> c * z = 0 -> z = 0.
Proof. intros Hc H. assert (E : z = (c * z) / c) by (field; exact Hc). rewrite E, H. field. exact Hc. Qed.

(* in-plane vectors have the same dot product as their coordinates in the basis *)
Lemma proj_dot (P Q R X Y : vec) (s : T) (u w : vec) : s <> 0 -> basis_ok P Q R X Y s ->
  << u , (Q -v P) x (R -v P) >> = 0 ->
  << u , X >> * << w , X >> + << u , Y >> * << w , Y >> = << u , w >>.
Proof.
  intros Hs0 (HX & HY & HXY & HW) Hu.
  assert (HuW : << u , X x Y >> = 0).
  { apply (mul_cancel s); [exact Hs0|]. rewrite <- dot_scale, HW. exact Hu. }
  pose proof (complete X Y u w) as C. rewrite lagrange, HX, HY, HXY, HuW in C.
  transitivity (<< u, w >> * (1 * 1 - 0 * 0)); [|ring].
  rewrite C. ring.
Qed.

Lemma edge_in_plane1 (P Q R : vec) : << Q -v P , (Q -v P) x (R -v P) >> = 0.
Proof. destruct P as [[p0 p1] p2], Q as [[q0 q1] q2], R as [[r0 r1] r2]. cbn. ring. Qed.
Lemma edge_in_plane2 (P Q R : vec) : << R -v Q , (Q -v P) x (R -v P) >> = 0.
Proof. destruct P as [[p0 p1] p2], Q as [[q0 q1] q2], R as [[r0 r1] r2]. cbn. ring. Qed.
Lemma edge_in_plane3 (P Q R : vec) : << P -v R , (Q -v P) x (R -v P) >> = 0.
Proof. destruct P as [[p0 p1] p2], Q as [[q0 q1] q2], R as [[r0 r1] r2]. cbn. ring. Qed.
Lemma vdot_sub_l (u v w : vec) : << u -v v , w >> = << w , u >> - << w , v >>.
Proof. destruct u as [[u0 u1] u2], v as [[v0 v1] v2], w as [[w0 w1] w2]. cbn. ring. Qed.
Lemma vdot_neg (u v w z : vec) : << u -v v , w -v z >> = << v -v u , z -v w >>.
Proof. destruct u as [[u0 u1] u2], v as [[v0 v1] v2], w as [[w0 w1] w2], z as [[z0 z1] z2]. cbn. ring. Qed.

(* the three corner dot products, in basis coordinates  x_V = <X,V>, y_V = <Y,V> *)
Lemma corner_dots (P Q R X Y : vec) (s : T) : s <> 0 -> basis_ok P Q R X Y s ->
  let xP := << X , P >> in let yP := << Y , P >> in
  let xQ := << X , Q >> in let yQ := << Y , Q >> in
  let xR := << X , R >> in let yR := << Y , R >> in
  << R -v P , Q -v P >> = (xR - xP) * (xQ - xP) + (yR - yP) * (yQ - yP) /\
  << P -v Q , R -v Q >> = (xP - xQ) * (xR - xQ) + (yP - yQ) * (yR - yQ) /\
  << Q -v R , P -v R >> = (xQ - xR) * (xP - xR) + (yQ - yR) * (yP - yR).
Proof.
  intros Hs0 Hb. cbv zeta. repeat split.
  - rewrite (vdot_neg R P Q P).
    rewrite <- (proj_dot P Q R X Y s (P -v R) (P -v Q) Hs0 Hb (edge_in_plane3 P Q R)).
    rewrite !vdot_sub_l. ring.
  - rewrite (vdot_neg P Q R Q). rewrite <- (proj_dot P Q R X Y s (Q -v P) (Q -v R) Hs0 Hb (edge_in_plane1 P Q R)).
    rewrite !vdot_sub_l. ring.
  - rewrite (vdot_neg Q R P R). rewrite <- (proj_dot P Q R X Y s (R -v Q) (R -v P) Hs0 Hb (edge_in_plane2 P Q R)).
    rewrite !vdot_sub_l. ring.
Qed.


(* the weights of the cotan Laplacian on a non-degenerate face, in closed form *)
Lemma w_cotan_eq (V : list vec) (p q r : Z) : nondeg V (p, q, r) ->
  let P := vnth O V p in let Q := vnth O V q in let R := vnth O V r in
  let s := vnorm O ((Q -v P) x (R -v P)) in
  w_cotan O (cot_simple O) V (p, q, r) =
  ((<< R -v P , Q -v P >> / s) / two O, (<< P -v Q , R -v Q >> / s) / two O, (<< Q -v R , P -v R >> / s) / two O).
Proof.
  intros (Hpq & Hqr & Hrp & Hs & Hs0). cbv zeta.
  set (P := vnth O V p) in *. set (Q := vnth O V q) in *. set (R := vnth O V r) in *.
  set (n := (Q -v P) x (R -v P)) in *.
  unfold w_cotan, lap_w_cotan, corner_cot, face_cots.
  assert (Epr : (p =? r)%Z = false) by (apply Z.eqb_neq; congruence).
  assert (Epq : (p =? q)%Z = false) by (apply Z.eqb_neq; congruence).
  assert (Eqr : (q =? r)%Z = false) by (apply Z.eqb_neq; congruence).
  rewrite Epr, Epq, Eqr, !Z.eqb_refl.
  fold P Q R. unfold cot_simple.
  assert (N0 : vnorm O ((R -v P) x (Q -v P)) = vnorm O n).
  { unfold vnorm. f_equal. rewrite nn_flip. reflexivity. }
  assert (N1 : vnorm O ((P -v Q) x (R -v Q)) = vnorm O n).
  { unfold vnorm. f_equal. rewrite nn_flip. apply (nn_rot1 P Q R _ Hs). }
  assert (N2 : vnorm O ((Q -v R) x (P -v R)) = vnorm O n).
  { unfold vnorm. f_equal. rewrite nn_flip. apply (nn_rot2 P Q R _ Hs). }
  rewrite N0, N1, N2. reflexivity.
Qed.

(* the basis handed to the gradient for face f is a direct orthonormal tangent basis of f *)
Definition face_basis_ok (V : list vec) (f : face) (b : vec * vec) : Prop :=
  let '(p, q, r) := f in
  let P := vnth O V p in let Q := vnth O V q in let R := vnth O V r in
  basis_ok P Q R (fst b) (snd b) (vnorm O ((Q -v P) x (R -v P))).

Lemma gram_face_eq (V : list vec) (iT : Z) (f : face) (b : vec * vec) : nondeg V f -> face_basis_ok V f b ->
  forall i j, entry O (laplacian_tri O (w_cotan O (cot_simple O) V f) f) i j = entry O (gram_face O V (iT, (f, b))) i j.
Proof.
  destruct f as [[p q] r], b as [bX bY]. intros Hnd Hb.
  rewrite (w_cotan_eq V p q r Hnd). cbv zeta.
  destruct Hnd as (Hpq & Hqr & Hrp & Hs & Hs0). unfold face_basis_ok in Hb. cbn [fst snd] in Hb.
  set (P := vnth O V p) in *. set (Q := vnth O V q) in *. set (R := vnth O V r) in *.
  set (s := vnorm O ((Q -v P) x (R -v P))) in *.
  destruct (corner_dots P Q R bX bY s Hs0 Hb) as (Dp & Dq & Dr). cbv zeta in Dp, Dq, Dr.
  rewrite Dp, Dq, Dr.
  unfold gram_face, grad_face, grad_complex. fold P Q R. cbn [flat_map map app].
  unfold grad_aT, tri_area. fold s.
  set (xP := << bX , P >>). set (yP := << bY , P >>).
  set (xQ := << bX , Q >>). set (yQ := << bY , Q >>).
  set (xR := << bX , R >>). set (yR := << bY , R >>).
  apply block_eq; unfold two in *; field; split; assumption.
Qed.

Lemma indexed_from_combine_len {A B} (l : list A) (m : list B) i :
  length (indexed_from i (combine l m)) = length (combine l m).
Proof. revert i. induction (combine l m); intros; cbn; [reflexivity | f_equal; apply IHl0]. Qed.

(* Re(G^* A G), accumulated face by face, is the cotan Laplacian - for every direct orthonormal tangent basis per face *)
Theorem cotan_laplacian_is_gram (V : list vec) (F : list face) (bases : list (vec * vec)) :
  Forall2 (fun f b => nondeg V f /\ face_basis_ok V f b) F bases ->
  forall i j, entry O (laplacian_cotan O (cot_simple O) V F) i j = entry O (gram O V F bases) i j.
Proof.
  unfold laplacian_cotan, laplacian_gen, gram, indexed. generalize 0%Z as k.
  intros k H. revert k. induction H as [|f b F bases [Hf Hb] _ IH]; intros k i j; cbn [combine indexed_from flat_map].
  - reflexivity.
  - rewrite !(entry_app T O Rth). rewrite (gram_face_eq V k f b Hf Hb). rewrite (IH (k + 1)%Z). reflexivity.
Qed.

(* ------------------------------------------------------------------ gradient of an affine function *)
Lemma affine_sum_re (P Q R a Y : vec) (b0 : T) :
  (<< a , P >> + b0) * (<< Y , Q >> - << Y , R >>) + (<< a , Q >> + b0) * (<< Y , R >> - << Y , P >>)
  + (<< a , R >> + b0) * (<< Y , P >> - << Y , Q >>) = << a , Y x ((Q -v P) x (R -v P)) >>.
Proof. destruct P as [[p0 p1] p2], Q as [[q0 q1] q2], R as [[r0 r1] r2], a as [[a0 a1] a2], Y as [[y0 y1] y2]. cbn. ring. Qed.
Lemma affine_sum_im (P Q R a X : vec) (b0 : T) :
  (<< a , P >> + b0) * (<< X , R >> - << X , Q >>) + (<< a , Q >> + b0) * (<< X , P >> - << X , R >>)
  + (<< a , R >> + b0) * (<< X , Q >> - << X , P >>) = - << a , X x ((Q -v P) x (R -v P)) >>.
Proof. destruct P as [[p0 p1] p2], Q as [[q0 q1] q2], R as [[r0 r1] r2], a as [[a0 a1] a2], X as [[x0 x1] x2]. cbn. ring. Qed.
(* BAC - CAB *)
Lemma triple_cross (a X Y : vec) (c : T) :
  << a , Y x vscale O c (X x Y) >> = c * (<< a , X >> * << Y , Y >> - << a , Y >> * << X , Y >>) /\
  << a , X x vscale O c (X x Y) >> = c * (<< a , X >> * << X , Y >> - << a , Y >> * << X , X >>).
Proof. destruct a as [[a0 a1] a2], X as [[x0 x1] x2], Y as [[y0 y1] y2]. cbn. split; ring. Qed.

(* value at the vertices of the affine function x |-> <a, x> + b0, applied to one face's gradient rows *)
Definition apply_rows (rows : list (Z * Z * (T * T))) (fv : Z -> T) : T * T :=
  fold_right (fun r acc => let '(_, v, (re, im)) := r in (fv v * re + fst acc, fv v * im + snd acc)) (0, 0) rows.

Theorem gradient_affine_face (V : list vec) (iT : Z) (f : face) (b : vec * vec) (a : vec) (b0 : T) :
  nondeg V f -> face_basis_ok V f b ->
  forall fv : Z -> T,
    (let '(p, q, r) := f in
     fv p = << a , vnth O V p >> + b0 /\ fv q = << a , vnth O V q >> + b0 /\ fv r = << a , vnth O V r >> + b0) ->
    apply_rows (grad_face O (grad_complex O) V (iT, (f, b))) fv = (<< a , fst b >>, << a , snd b >>).
Proof.
  destruct f as [[p q] r], b as [bX bY]. intros (Hpq & Hqr & Hrp & Hs & Hs0) Hb fv (Fp & Fq & Fr).
  unfold face_basis_ok in Hb. cbn [fst snd] in *.
  set (P := vnth O V p) in *. set (Q := vnth O V q) in *. set (R := vnth O V r) in *.
  set (s := vnorm O ((Q -v P) x (R -v P))) in *.
  destruct Hb as (HX & HY & HXY & HW).
  unfold grad_face, grad_complex. fold P Q R. unfold apply_rows. cbn [fold_right fst snd].
  rewrite Fp, Fq, Fr. unfold grad_aT, tri_area. fold s.
  pose proof (affine_sum_re P Q R a bY b0) as Ere. pose proof (affine_sum_im P Q R a bX b0) as Eim.
  rewrite <- HW in Ere, Eim.
  destruct (triple_cross a bX bY s) as (T1 & T2). rewrite T1 in Ere. rewrite T2 in Eim.
  rewrite HY, HXY in Ere. rewrite HX, HXY in Eim.
  apply f_equal2.
  - transitivity ((s * << a , bX >>) / s); [|field; exact Hs0].
    replace (s * << a , bX >>) with (s * (<< a , bX >> * 1 - << a , bY >> * 0)) by ring.
    rewrite <- Ere. unfold two in *. field. split; assumption.
  - transitivity ((s * << a , bY >>) / s); [|field; exact Hs0].
    replace (s * << a , bY >>) with (- (s * (<< a , bX >> * 0 - << a , bY >> * 1))) by ring.
    rewrite <- Eim. unfold two in *. field. split; assumption.
Qed.


(* the real-valued gradient operator stacks the real and imaginary parts of the complex one on rows 2 iT and 2 iT + 1 *)
Theorem grad_real_is_complex (iT A B C : Z) (xA yA xB yB xC yC aT : T) :
  grad_real O iT A B C xA yA xB yB xC yC aT =
  flat_map (fun r : Z * Z * (T * T) => let '(t, v, (re, im)) := r in [((2 * t)%Z, v, re); ((2 * t + 1)%Z, v, im)])
           (grad_complex O iT A B C xA yA xB yB xC yC aT)
  /\ grad_real_nrows = (fun M => (M * 2)%Z) /\ (forall M N : Z, grad_shape M N = (M, N)).
Proof. repeat split. Qed.

End Geom.
