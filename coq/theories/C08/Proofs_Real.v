(* C08 - instantiation over the reals: the hypotheses of the field-generic theorems hold for the quantities the code
   computes (sqrt-bearing): geometry.cotan equals <u,v>/|u x v|, geometry.face_basis (through SurfaceConnectionFaces)
   is a direct orthonormal tangent basis, areas are positive.  Hence the theorems about the model of the code as it is:
   cotan Laplacian = stiffness = Re(G^* A G), gradient of affine functions, positive masses. *)
From Coq Require Import Reals Lra Field ZArith List Bool Psatz.
Import ListNotations.
Require Import MV.Lib.Base MV.C08.Ops MV.C08.Gen MV.C08.Model MV.C08.Proofs_Struct MV.C08.Proofs_Dual
  MV.C08.Proofs_Graph MV.C08.Proofs_Geom MV.C08.Proofs_Mass MV.C08.Proofs_Gram.
Open Scope R_scope.

Definition Rltb (x y : R) : bool := if Rlt_dec x y then true else false.
Definition Rops : ops R := mkops R 0 1 Rplus Rminus Rmult Rdiv Ropp Rinv sqrt Rabs Rltb IZR.

Lemma Rops_field :
  field_theory (o0 Rops) (o1 Rops) (oadd Rops) (omul Rops) (osub Rops) (oopp Rops) (odiv Rops) (oinv Rops) eq.
Proof. exact Rfield. Qed.
Lemma Rops_ring : ring_theory (o0 Rops) (o1 Rops) (oadd Rops) (omul Rops) (osub Rops) (oopp Rops) eq.
Proof. exact RTheory. Qed.
Lemma Rops_two : two Rops <> o0 Rops.
Proof. cbn. lra. Qed.

Notation rvec := (vec R).
Notation dotR := (vdot Rops).
Notation crossR := (vcross Rops).
Notation subR := (vsub Rops).

Lemma dot_self_nonneg (w : rvec) : 0 <= dotR w w.
Proof. destruct w as [[a b] c]. cbn. nra. Qed.
Lemma dot_self_zero (w : rvec) : dotR w w = 0 -> w = (0, 0, 0).
Proof.
  destruct w as [[a b] c]. cbn. intros H.
  assert (a = 0) by nra. assert (b = 0) by nra. assert (c = 0) by nra. subst. reflexivity.
Qed.

(* ------------------------------------------------------------------ non-degeneracy over R: the normal is not zero *)
Lemma nondeg_R (V : list rvec) (p q r : Z) :
  p <> q -> q <> r -> r <> p ->
  crossR (subR (vnth Rops V q) (vnth Rops V p)) (subR (vnth Rops V r) (vnth Rops V p)) <> (0, 0, 0) ->
  nondeg R Rops V (p, q, r).
Proof.
  intros Hpq Hqr Hrp Hn. unfold nondeg.
  set (n := crossR _ _) in *.
  assert (Hpos : 0 < dotR n n).
  { destruct (Rle_lt_or_eq_dec 0 (dotR n n) (dot_self_nonneg n)) as [H|H]; [exact H|].
    exfalso. apply Hn. apply dot_self_zero. symmetry. exact H. }
  repeat split; try assumption.
  - unfold vnorm. cbn [osqrt omul Rops]. apply sqrt_sqrt. lra.
  - unfold vnorm. cbn [osqrt o0 Rops]. pose proof (sqrt_lt_R0 _ Hpos). lra.
Qed.

(* ------------------------------------------------------------------ geometry.cotan = <u,v> / |u x v| *)
Lemma sqrt_scaled (x c : R) : 0 <= x -> 0 < c -> sqrt (x / (c * c)) = sqrt x / c.
Proof.
  intros Hx Hc. apply sqrt_lem_1.
  - apply Rmult_le_pos; [exact Hx|]. left. apply Rinv_0_lt_compat. nra.
  - apply Rmult_le_pos; [apply sqrt_pos|]. left. apply Rinv_0_lt_compat. exact Hc.
  - transitivity ((sqrt x * sqrt x) / (c * c)); [field; lra|]. rewrite sqrt_sqrt by exact Hx. reflexivity.
Qed.

Theorem cot_code_is_cot_simple (A B C : rvec) :
  crossR (subR A B) (subR C B) <> (0, 0, 0) -> cot_code Rops A B C = cot_simple Rops A B C.
Proof.
  intros Hx. unfold cot_code, cot_simple, vnormalized, vnorm.
  set (u := subR A B) in *. set (v := subR C B) in *.
  assert (HX : 0 < dotR (crossR u v) (crossR u v)).
  { destruct (Rle_lt_or_eq_dec 0 _ (dot_self_nonneg (crossR u v))) as [H|H]; [exact H|].
    exfalso. apply Hx. apply dot_self_zero. symmetry. exact H. }
  assert (Hu : 0 < dotR u u).
  { destruct (Rle_lt_or_eq_dec 0 _ (dot_self_nonneg u)) as [H|H]; [exact H|].
    exfalso. symmetry in H. apply dot_self_zero in H. rewrite H in HX. destruct v as [[v0 v1] v2]. cbn in HX. lra. }
  assert (Hv : 0 < dotR v v).
  { destruct (Rle_lt_or_eq_dec 0 _ (dot_self_nonneg v)) as [H|H]; [exact H|].
    exfalso. symmetry in H. apply dot_self_zero in H. rewrite H in HX. destruct u as [[u0 u1] u2]. cbn in HX. lra. }
  cbn [osqrt odiv Rops].
  set (a := sqrt (dotR u u)). set (b := sqrt (dotR v v)).
  assert (Ha : 0 < a) by (apply sqrt_lt_R0; exact Hu).
  assert (Hb : 0 < b) by (apply sqrt_lt_R0; exact Hv).
  assert (E1 : dotR (vdivs Rops u a) (vdivs Rops v b) = dotR u v / (a * b)).
  { destruct u as [[u0 u1] u2], v as [[v0 v1] v2]. cbn. field. lra. }
  assert (E2 : dotR (crossR (vdivs Rops u a) (vdivs Rops v b)) (crossR (vdivs Rops u a) (vdivs Rops v b)) =
               dotR (crossR u v) (crossR u v) / ((a * b) * (a * b))).
  { destruct u as [[u0 u1] u2], v as [[v0 v1] v2]. cbn. field. lra. }
  rewrite E1, E2. rewrite sqrt_scaled by (try lra; nra).
  pose proof (sqrt_lt_R0 _ HX). field. lra.
Qed.

(* ------------------------------------------------------------------ geometry.face_basis is a direct orthonormal tangent basis *)
Lemma face_basis_ok_R (P Q S : rvec) :
  crossR (subR Q P) (subR S P) <> (0, 0, 0) ->
  let '(X, Y, _) := face_basis Rops P Q S in
  basis_ok R Rops P Q S X Y (vnorm Rops (crossR (subR Q P) (subR S P))).
Proof.
  intros Hn. unfold face_basis, vnormalized, vnorm, basis_ok.
  set (u := subR Q P) in *. set (v := subR S P) in *.
  assert (Hnn : 0 < dotR (crossR u v) (crossR u v)).
  { destruct (Rle_lt_or_eq_dec 0 _ (dot_self_nonneg (crossR u v))) as [H|H]; [exact H|].
    exfalso. apply Hn. apply dot_self_zero. symmetry. exact H. }
  assert (Huu : 0 < dotR u u).
  { destruct (Rle_lt_or_eq_dec 0 _ (dot_self_nonneg u)) as [H|H]; [exact H|].
    exfalso. symmetry in H. apply dot_self_zero in H. rewrite H in Hnn. destruct v as [[v0 v1] v2]. cbn in Hnn. lra. }
  cbn [osqrt Rops].
  set (a := sqrt (dotR u u)). set (s := sqrt (dotR (crossR u v) (crossR u v))).
  assert (Ha : 0 < a) by (apply sqrt_lt_R0; exact Huu).
  assert (Hs : 0 < s) by (apply sqrt_lt_R0; exact Hnn).
  assert (Haa : a * a = dotR u u) by (apply sqrt_sqrt; lra).
  assert (Hss : s * s = dotR (crossR u v) (crossR u v)) by (apply sqrt_sqrt; lra).
  set (X := vdivs Rops u a).
  (* |X x v| = s / a *)
  assert (N1 : sqrt (dotR (crossR X v) (crossR X v)) = s / a).
  { replace (dotR (crossR X v) (crossR X v)) with (dotR (crossR u v) (crossR u v) / (a * a)).
    - apply sqrt_scaled; lra.
    - subst X. destruct u as [[u0 u1] u2], v as [[v0 v1] v2]. cbn. field. lra. }
  rewrite N1.
  set (Zv := vdivs Rops (crossR X v) (s / a)).
  (* |Z x X| = 1 *)
  assert (N2 : sqrt (dotR (crossR Zv X) (crossR Zv X)) = 1).
  { apply sqrt_lem_1; [apply dot_self_nonneg | lra |].
    transitivity ((s * s) * (a * a) / ((s * a) * (s * a))); [field; lra|].
    rewrite Hss, Haa. subst Zv X. destruct u as [[u0 u1] u2], v as [[v0 v1] v2]. cbn. field. lra. }
  rewrite N2.
  cbn [o1 o0 Rops].
  repeat split.
  - transitivity (dotR u u / (a * a)).
    + subst X. destruct u as [[u0 u1] u2]. cbn. field. lra.
    + rewrite <- Haa. field. lra.
  - transitivity (dotR (crossR Zv X) (crossR Zv X)).
    + destruct (crossR Zv X) as [[w0 w1] w2]. cbn. field.
    + apply (f_equal (fun t => t * t)) in N2. rewrite sqrt_sqrt in N2 by apply dot_self_nonneg. lra.
  - subst Zv X. destruct u as [[u0 u1] u2], v as [[v0 v1] v2]. cbn. field. lra.
  - subst Zv X. destruct u as [[u0 u1] u2], v as [[v0 v1] v2]. cbn in *.
    apply vec_eq.
    + transitivity ((u1 * v2 - u2 * v1) * ((u0 * u0 + u1 * u1 + u2 * u2) / (a * a))); [field; lra|].
      rewrite <- Haa. field. lra.
    + transitivity ((v0 * u2 - v2 * u0) * ((u0 * u0 + u1 * u1 + u2 * u2) / (a * a))); [field; lra|].
      rewrite <- Haa. field. lra.
    + transitivity ((u0 * v1 - u1 * v0) * ((u0 * u0 + u1 * u1 + u2 * u2) / (a * a))); [field; lra|].
      rewrite <- Haa. field. lra.
Qed.

(* the normal does not depend on which vertex of the face comes first *)
Lemma normal_rot (P Q S : rvec) : crossR (subR S Q) (subR P Q) = crossR (subR Q P) (subR S P).
Proof. destruct P as [[p0 p1] p2], Q as [[q0 q1] q2], S as [[s0 s1] s2]. cbn. apply vec_eq; ring. Qed.

(* SurfaceConnectionFaces hands the gradient a direct orthonormal tangent basis of every non-degenerate face *)
Lemma conn_basis_ok (V : list rvec) (F : list face) (f : face) :
  nondeg R Rops V f ->
  face_basis_ok R Rops V f
    (let '(a, b, c) := conn_face F f in
     let '(X, Y, _) := face_basis Rops (vnth Rops V a) (vnth Rops V b) (vnth Rops V c) in (X, Y)).
Proof.
  destruct f as [[p q] r]. intros (Hpq & Hqr & Hrp & Hs & Hs0).
  set (P := vnth Rops V p) in *. set (Q := vnth Rops V q) in *. set (S := vnth Rops V r) in *.
  assert (Hn : crossR (subR Q P) (subR S P) <> (0, 0, 0)).
  { intros E. apply Hs0. rewrite E. unfold vnorm. cbn. replace (0 * 0 + 0 * 0 + 0 * 0) with 0 by ring. apply sqrt_0. }
  unfold face_basis_ok. fold P Q S.
  assert (C0 : let '(X, Y, _) := face_basis Rops P Q S in
               basis_ok R Rops P Q S X Y (vnorm Rops (crossR (subR Q P) (subR S P)))).
  { apply face_basis_ok_R. exact Hn. }
  assert (C1 : let '(X, Y, _) := face_basis Rops Q S P in
               basis_ok R Rops P Q S X Y (vnorm Rops (crossR (subR Q P) (subR S P)))).
  { pose proof (face_basis_ok_R Q S P) as H. rewrite (normal_rot P Q S) in H. specialize (H Hn).
    destruct (face_basis Rops Q S P) as [[X Y] Z0]. unfold basis_ok in *. rewrite (normal_rot P Q S) in H. exact H. }
  assert (C2 : let '(X, Y, _) := face_basis Rops S P Q in
               basis_ok R Rops P Q S X Y (vnorm Rops (crossR (subR Q P) (subR S P)))).
  { pose proof (face_basis_ok_R S P Q) as H.
    assert (E : crossR (subR P S) (subR Q S) = crossR (subR Q P) (subR S P)).
    { rewrite <- (normal_rot P Q S). apply (normal_rot Q S P). }
    rewrite E in H. specialize (H Hn).
    destruct (face_basis Rops S P Q) as [[X Y] Z0]. unfold basis_ok in *. rewrite E in H. exact H. }
  unfold conn_face.
  destruct (is_border F p q); [|destruct (is_border F q r); [|destruct (is_border F r p)]]; fold P Q S.
  - destruct (face_basis Rops P Q S) as [[X Y] Z0]. exact C0.
  - destruct (face_basis Rops Q S P) as [[X Y] Z0]. exact C1.
  - destruct (face_basis Rops S P Q) as [[X Y] Z0]. exact C2.
  - destruct (face_basis Rops P Q S) as [[X Y] Z0]. exact C0.
Qed.

Lemma conn_bases_ok (V : list rvec) (F : list face) :
  (forall f, In f F -> nondeg R Rops V f) ->
  Forall2 (fun f b => nondeg R Rops V f /\ face_basis_ok R Rops V f b) F (conn_bases Rops V F).
Proof.
  intros H. unfold conn_bases.
  assert (G : forall L : list face, (forall f, In f L -> nondeg R Rops V f) ->
              Forall2 (fun f b => nondeg R Rops V f /\ face_basis_ok R Rops V f b) L
                (map (fun f => let '(a, b, c) := conn_face F f in
                               let '(X, Y, _) := face_basis Rops (vnth Rops V a) (vnth Rops V b) (vnth Rops V c) in (X, Y)) L)).
  { induction L as [|f L IH]; intros HL; cbn [map]; constructor.
    - split; [apply HL; left; reflexivity | apply conn_basis_ok; apply HL; left; reflexivity].
    - apply IH. intros g Hg. apply HL. right. exact Hg. }
  apply G. exact H.
Qed.

(* the code's cotangent and the textbook one give the same Laplacian coefficients on non-degenerate faces *)
Lemma w_cotan_code (V : list rvec) (f : face) : nondeg R Rops V f ->
  w_cotan Rops (cot_code Rops) V f = w_cotan Rops (cot_simple Rops) V f.
Proof.
  destruct f as [[p q] r]. intros (Hpq & Hqr & Hrp & Hs & Hs0).
  set (P := vnth Rops V p) in *. set (Q := vnth Rops V q) in *. set (S := vnth Rops V r) in *.
  assert (Hn : crossR (subR Q P) (subR S P) <> (0, 0, 0)).
  { intros E. apply Hs0. rewrite E. unfold vnorm. cbn. replace (0 * 0 + 0 * 0 + 0 * 0) with 0 by ring. apply sqrt_0. }
  assert (F0 : forall a b : rvec, crossR a b <> (0, 0, 0) -> crossR b a <> (0, 0, 0)).
  { intros [[a0 a1] a2] [[b0 b1] b2]. cbn. intros H E. apply H. inversion E. apply vec_eq; lra. }
  assert (E : crossR (subR P S) (subR Q S) = crossR (subR Q P) (subR S P)).
  { rewrite <- (normal_rot P Q S). apply (normal_rot Q S P). }
  unfold w_cotan, face_cots. fold P Q S.
  rewrite (cot_code_is_cot_simple S P Q), (cot_code_is_cot_simple P Q S), (cot_code_is_cot_simple Q S P);
    [reflexivity | | | ];
    apply F0; first [exact Hn | rewrite (normal_rot P Q S); exact Hn | rewrite E; exact Hn].
Qed.

(* ---- the model of the code as it is, over R ----------------------------------------------------------------------- *)
Theorem real_cotan_laplacian (V : list rvec) (F : list face) :
  (forall f, In f F -> nondeg R Rops V f) ->
  forall i j,
    entry Rops (laplacian_cotan Rops (cot_code Rops) V F) i j = entry Rops (stiffness Rops V F) i j /\
    entry Rops (laplacian_cotan Rops (cot_code Rops) V F) i j = entry Rops (gag_re Rops V F (conn_bases Rops V F)) i j.
Proof.
  intros H i j. rewrite (gag_re_is_gram R Rops Rops_field).
  assert (E : laplacian_cotan Rops (cot_code Rops) V F = laplacian_cotan Rops (cot_simple Rops) V F).
  { unfold laplacian_cotan, laplacian_gen.
    assert (G : forall L : list face, (forall f, In f L -> nondeg R Rops V f) ->
       flat_map (fun f => laplacian_tri Rops (w_cotan Rops (cot_code Rops) V f) f) L =
       flat_map (fun f => laplacian_tri Rops (w_cotan Rops (cot_simple Rops) V f) f) L).
    { induction L as [|f L IH]; intros HL; cbn [flat_map]; [reflexivity|].
      rewrite (w_cotan_code V f) by (apply HL; left; reflexivity).
      rewrite IH by (intros g Hg; apply HL; right; exact Hg). reflexivity. }
    apply G. exact H. }
  rewrite E. split.
  - apply (cotan_laplacian_is_stiffness R Rops Rops_field Rops_two V F H).
  - apply (cotan_laplacian_is_gram R Rops Rops_field Rops_two V F (conn_bases Rops V F)). apply conn_bases_ok. exact H.
Qed.

(* the gradient operator built with SurfaceConnectionFaces maps an affine function to its tangential gradient *)
Theorem real_gradient_affine (V : list rvec) (F : list face) (iT : Z) (f : face) (a : rvec) (b0 : R) :
  nondeg R Rops V f ->
  let b := (let '(pa, pb, pc) := conn_face F f in
            let '(X, Y, _) := face_basis Rops (vnth Rops V pa) (vnth Rops V pb) (vnth Rops V pc) in (X, Y)) in
  forall fv : Z -> R,
    (let '(p, q, r) := f in
     fv p = dotR a (vnth Rops V p) + b0 /\ fv q = dotR a (vnth Rops V q) + b0 /\ fv r = dotR a (vnth Rops V r) + b0) ->
    apply_rows R Rops (grad_face Rops (grad_complex Rops) V (iT, (f, b))) fv = (dotR a (fst b), dotR a (snd b)).
Proof.
  intros Hf b fv Hfv.
  apply (gradient_affine_face R Rops Rops_field Rops_two V iT f b a b0 Hf); [|exact Hfv].
  apply conn_basis_ok. exact Hf.
Qed.

(* mass matrices are positive on non-degenerate meshes: areas are positive, a vertex mass is a non-empty sum of areas *)
Lemma tri_area_pos (P Q S : rvec) : crossR (subR Q P) (subR S P) <> (0, 0, 0) -> 0 < tri_area Rops P Q S.
Proof.
  intros Hn. unfold tri_area, vnorm. cbn [osqrt odiv two oadd o1 Rops].
  assert (Hpos : 0 < dotR (crossR (subR Q P) (subR S P)) (crossR (subR Q P) (subR S P))).
  { destruct (Rle_lt_or_eq_dec 0 _ (dot_self_nonneg (crossR (subR Q P) (subR S P)))) as [H|H]; [exact H|].
    exfalso. apply Hn. apply dot_self_zero. symmetry. exact H. }
  pose proof (sqrt_lt_R0 _ Hpos). lra.
Qed.

Lemma nondeg_normal (V : list rvec) (p q r : Z) : nondeg R Rops V (p, q, r) ->
  crossR (subR (vnth Rops V q) (vnth Rops V p)) (subR (vnth Rops V r) (vnth Rops V p)) <> (0, 0, 0).
Proof.
  intros (_ & _ & _ & _ & Hs0) E. apply Hs0. rewrite E. unfold vnorm. cbn.
  replace (0 * 0 + 0 * 0 + 0 * 0) with 0 by ring. apply sqrt_0.
Qed.

Lemma areas_pos (V : list rvec) (F : list face) :
  (forall f, In f F -> nondeg R Rops V f) -> Forall (fun x => 0 < x) (areas Rops V F).
Proof.
  intros H. unfold areas. apply Forall_forall. intros x Hx. apply in_map_iff in Hx.
  destruct Hx as [[[p q] r] [<- Hf]]. apply tri_area_pos. apply nondeg_normal. apply H. exact Hf.
Qed.

Lemma sumT_pos (l : list R) : l <> [] -> Forall (fun x => 0 < x) l -> 0 < sumT Rops l.
Proof.
  intros Hne H. induction H as [|x l Hx Hl IH]; [contradiction|].
  cbn [sumT oadd Rops]. destruct l as [|y l'].
  - cbn. lra.
  - assert (0 < sumT Rops (y :: l')) by (apply IH; discriminate). lra.
Qed.

(* vertex masses (the diagonal of area_weight_matrix) are positive when every vertex lies in a face *)
Theorem real_mass_positive (V : list rvec) (F : list face) (n : Z) :
  (forall f, In f F -> nondeg R Rops V f) ->
  (forall u, (0 <= u < n)%Z -> exists p q r, In (p, q, r) F /\ (u = p \/ u = q \/ u = r)) ->
  Forall (fun x => 0 < x) (areas Rops V F) /\
  Forall (fun x => 0 < x) (vertex_acc Rops n F (areas Rops V F)).
Proof.
  intros Hnd Hcov. pose proof (areas_pos V F Hnd) as Hpos. split; [exact Hpos|].
  unfold vertex_acc. apply Forall_forall. intros x Hx. apply in_map_iff in Hx. destruct Hx as [u [<- Hu]].
  apply In_zrange in Hu. destruct (Hcov u Hu) as (p & q & r & Hf & Huf).
  set (g := fun fw : face * R => let '(p0, q0, r0, a) := fw in
              let a0 := massv_contrib a in
              (if (p0 =? u)%Z then [a0] else []) ++ (if (q0 =? u)%Z then [a0] else []) ++ (if (r0 =? u)%Z then [a0] else [])).
  assert (Hc : In ((p, q, r), tri_area Rops (vnth Rops V p) (vnth Rops V q) (vnth Rops V r)) (combine F (areas Rops V F))).
  { unfold areas. clear - Hf. induction F as [|f F IH]; [contradiction|]. cbn [map combine].
    destruct Hf as [-> | Hf]; [left; reflexivity | right; apply IH; exact Hf]. }
  apply sumT_pos.
  - intros E.
    assert (Hin : In (massv_contrib (tri_area Rops (vnth Rops V p) (vnth Rops V q) (vnth Rops V r)))
                     (flat_map g (combine F (areas Rops V F)))).
    { apply in_flat_map. eexists. split; [exact Hc|]. unfold g.
      destruct Huf as [-> | [-> | ->]]; rewrite Z.eqb_refl.
      - left. reflexivity.
      - apply in_or_app. right. left. reflexivity.
      - apply in_or_app. right. apply in_or_app. right. left. reflexivity. }
    fold g in E. rewrite E in Hin. destruct Hin.
  - apply Forall_forall. intros y Hy. apply in_flat_map in Hy. destruct Hy as [[[[p0 q0] r0] a] [Hfa Hy]].
    assert (Ha : 0 < a).
    { apply in_combine_r in Hfa. rewrite Forall_forall in Hpos. apply Hpos. exact Hfa. }
    assert (Hm : 0 < massv_contrib a) by (unfold massv_contrib; exact Ha).
    unfold g in Hy. cbv zeta in Hy. destruct (p0 =? u)%Z, (q0 =? u)%Z, (r0 =? u)%Z; cbn [app In] in Hy;
      repeat (destruct Hy as [<- | Hy]; [exact Hm|]); contradiction.
Qed.

(* ------------------------------------------------------------------ non-vacuity: concrete objects meeting the hypotheses *)
Lemma Rops_ofZ0 : oofZ Rops 0%Z = o0 Rops.
Proof. reflexivity. Qed.
Lemma Rops_ofZS (n : nat) : oofZ Rops (Z.of_nat (S n)) = oadd Rops (o1 Rops) (oofZ Rops (Z.of_nat n)).
Proof. cbn [oofZ oadd o1 Rops]. rewrite Nat2Z.inj_succ, succ_IZR. ring. Qed.

(* two triangles in space sharing the edge (1,2), as in the driver's first probe *)
Definition exV : list rvec := [(0, 0, 0); (2, 0, 0); (0, 3, 0); (2, 3, 1)].
Definition exF : list face := [(0, 1, 2); (1, 3, 2)]%Z.
Definition exE : list edge := [(0, 1); (1, 2); (0, 2); (1, 3); (2, 3)]%Z.

Example ex_nondeg : forall f, In f exF -> nondeg R Rops exV f.
Proof.
  intros f [<- | [<- | []]]; apply nondeg_R; try lia; cbn; intros H; inversion H; lra.
Qed.
Example ex_bases : Forall2 (fun f b => nondeg R Rops exV f /\ face_basis_ok R Rops exV f b) exF (conn_bases Rops exV exF).
Proof. apply conn_bases_ok. exact ex_nondeg. Qed.
Example ex_edges_in_range : edges_in_range 4 exE.
Proof.
  intros a b H. cbn in H.
  repeat (destruct H as [H | H]; [inversion H; subst; lia|]). contradiction.
Qed.
Example ex_faces_in_range : faces_in_range 4 exF.
Proof.
  intros p q r H. cbn in H.
  repeat (destruct H as [H | H]; [inversion H; subst; lia|]). contradiction.
Qed.
Example ex_cover : forall u, (0 <= u < 4)%Z -> exists p q r, In (p, q, r) exF /\ (u = p \/ u = q \/ u = r).
Proof.
  intros u Hu. assert (u = 0 \/ u = 1 \/ u = 2 \/ u = 3)%Z as [-> | [-> | [-> | ->]]] by lia.
  - exists 0%Z, 1%Z, 2%Z. split; [left; reflexivity | auto].
  - exists 0%Z, 1%Z, 2%Z. split; [left; reflexivity | auto].
  - exists 0%Z, 1%Z, 2%Z. split; [left; reflexivity | auto].
  - exists 1%Z, 3%Z, 2%Z. split; [right; left; reflexivity | auto].
Qed.
(* the conclusion is not trivial: the (0,1) coefficient of the stiffness matrix of this mesh is -3/4 (cot = 3/2 at vertex 2) *)
Example ex_entry : entry Rops (stiffness Rops exV exF) 0 1 = - (3 / 4).
Proof.
  assert (V0 : vnth Rops exV 0 = (0, 0, 0)) by reflexivity.
  assert (V1 : vnth Rops exV 1 = (2, 0, 0)) by reflexivity.
  assert (V2 : vnth Rops exV 2 = (0, 3, 0)) by reflexivity.
  assert (V3 : vnth Rops exV 3 = (2, 3, 1)) by reflexivity.
  unfold stiffness, exF. cbn [flat_map]. unfold stiff_tri. rewrite !V0, !V1, !V2, !V3.
  cbn [app entry Z.eqb Pos.eqb andb].
  cbv [tri_area hat_grad vnorm vsub vcross vdot vdivs osub omul oadd odiv osqrt o0 o1 two Rops].
  replace (sqrt _) with 6.
  - field.
  - symmetry. apply sqrt_lem_1; lra.
Qed.

(* two tetrahedra sharing a face: the model's cell_to_cell is symmetric and closed, as C08_sym_rowsum_tetra asks *)
Definition exC : list cell := [(0, 1, 2, 3); (1, 2, 3, 4)]%Z.
Example ex_tets : nb_symmetric (cell_nbrs exC) 2 /\ nb_closed (cell_nbrs exC) 2.
Proof.
  assert (N0 : cell_nbrs exC 0 = [1%Z]) by reflexivity.
  assert (N1 : cell_nbrs exC 1 = [0%Z]) by reflexivity.
  split.
  - intros a b Ha Hb. assert (a = 0 \/ a = 1)%Z as [-> | ->] by lia; assert (b = 0 \/ b = 1)%Z as [-> | ->] by lia;
      rewrite ?N0, ?N1; reflexivity.
  - intros a b Ha Hin. assert (a = 0 \/ a = 1)%Z as [-> | ->] by lia; rewrite ?N0, ?N1 in Hin;
      destruct Hin as [<- | []]; lia.
Qed.

(* ------------------------------------------------------------------ edge masses are positive on every edge that bounds a face *)
Definition has_face (F : list face) (e : edge) : Prop :=
  direct_face_id F (fst e) (snd e) <> None \/ direct_face_id F (snd e) (fst e) <> None.

Lemma znth_In_pos (w : list R) (t : Z) : (0 <= t < zlen w)%Z -> Forall (fun x => 0 < x) w -> 0 < znth w t 0.
Proof.
  intros Ht Hw. unfold znth. destruct (t <? 0)%Z eqn:Q; [lia|].
  rewrite Forall_forall in Hw. apply Hw. apply nth_In. unfold zlen in Ht. lia.
Qed.

Theorem real_edge_mass_positive (V : list rvec) (F : list face) (E : list edge) :
  (forall f, In f F -> nondeg R Rops V f) ->
  Forall2 (fun e x => has_face F e -> 0 < x) E (edge_acc Rops F (areas Rops V F) E).
Proof.
  intros Hnd. pose proof (areas_pos V F Hnd) as Hpos.
  set (w := areas Rops V F) in *.
  assert (HL : zlen w = zlen F) by (unfold zlen, w, areas; rewrite map_length; reflexivity).
  assert (S1 : forall u v, Forall (fun x => 0 < x)
            (match direct_face_id F u v with Some t => [mass_edge_share Rops (znth w t 0)] | None => [] end)).
  { intros u v. destruct (direct_face_id F u v) as [t|] eqn:Q; [|constructor].
    constructor; [|constructor]. apply direct_face_id_range in Q. rewrite <- HL in Q.
    pose proof (znth_In_pos w t Q Hpos). unfold mass_edge_share. cbn [odiv three two oadd o1 Rops]. lra. }
  unfold edge_acc. induction E as [|[a b] E IH]; cbn [map]; constructor; [|exact IH].
  intros Hf. unfold has_face in Hf. cbn [fst snd] in Hf.
  apply sumT_pos.
  - destruct (direct_face_id F a b), (direct_face_id F b a); cbn [app]; try discriminate.
    destruct Hf as [Hf | Hf]; contradiction.
  - apply Forall_app. split; apply S1.
Qed.

Example ex_edge_cover : edge_cover_ok exF exE = true.
Proof. reflexivity. Qed.
Example ex_cell_adjacency : cell_adjacency_ok exC = true.
Proof. reflexivity. Qed.
Example ex_three : three Rops <> o0 Rops.
Proof. cbn. lra. Qed.

(* ------------------------------------------------------------------ volumes: cell masses and vertex masses are positive *)
Definition cell_nondeg (V : list rvec) (c : cell) : Prop :=
  let '(a, b, c1, d) := c in
  det3 Rops (subR (vnth Rops V a) (vnth Rops V d)) (subR (vnth Rops V b) (vnth Rops V d)) (subR (vnth Rops V c1) (vnth Rops V d)) <> 0.

Lemma cell_volumes_pos (V : list rvec) (C : list cell) :
  (forall c, In c C -> cell_nondeg V c) -> Forall (fun x => 0 < x) (cell_volumes Rops V C).
Proof.
  intros H. unfold cell_volumes. apply Forall_forall. intros x Hx. apply in_map_iff in Hx.
  destruct Hx as [[[[a b] c1] d] [<- Hc]]. specialize (H _ Hc). unfold cell_nondeg in H.
  unfold cell_volume. set (dd := det3 Rops _ _ _) in *. cbn [oabs odiv six two three omul oadd o1 Rops].
  pose proof (Rabs_pos_lt _ H) as H0. apply Rdiv_lt_0_compat; [exact H0 | cbv [o1 Rops]; nra].
Qed.

Theorem real_volume_mass_positive (V : list rvec) (C : list cell) (n : Z) :
  (forall c, In c C -> cell_nondeg V c) ->
  (forall u, (0 <= u < n)%Z -> exists c, In c C /\ In u (cell_list c)) ->
  Forall (fun x => 0 < x) (cell_volumes Rops V C) /\
  Forall (fun x => 0 < x) (vol_vertex_acc Rops n C (cell_volumes Rops V C)).
Proof.
  intros Hnd Hcov. pose proof (cell_volumes_pos V C Hnd) as Hpos. split; [exact Hpos|].
  unfold vol_vertex_acc. apply Forall_forall. intros x Hx. apply in_map_iff in Hx. destruct Hx as [u [<- Hu]].
  apply In_zrange in Hu. destruct (Hcov u Hu) as (c & Hc & Huc).
  set (g := fun cw : cell * R => let '(c0, a) := cw in
              flat_map (fun x0 : Z => if (x0 =? u)%Z then [massvv_contrib a] else []) (cell_list c0)).
  assert (Hin : In (c, cell_volume Rops (vnth Rops V (let '(a, _, _, _) := c in a)) (vnth Rops V (let '(_, b, _, _) := c in b))
                         (vnth Rops V (let '(_, _, c1, _) := c in c1)) (vnth Rops V (let '(_, _, _, d) := c in d)))
                  (combine C (cell_volumes Rops V C))).
  { unfold cell_volumes. clear - Hc. induction C as [|c0 C IH]; [contradiction|]. cbn [map combine].
    destruct Hc as [-> | Hc]; [left; destruct c as [[[a b] c1] d]; reflexivity | right; apply IH; exact Hc]. }
  apply sumT_pos.
  - intros E.
    assert (Hm : exists y, In y (flat_map g (combine C (cell_volumes Rops V C)))).
    { eexists. apply in_flat_map. eexists. split; [exact Hin|]. unfold g. apply in_flat_map. exists u. split; [exact Huc|].
      rewrite Z.eqb_refl. left. reflexivity. }
    destruct Hm as [y Hy]. fold g in E. rewrite E in Hy. destruct Hy.
  - apply Forall_forall. intros y Hy. apply in_flat_map in Hy. destruct Hy as [[c0 a] [Hca Hy]].
    assert (Ha : 0 < a).
    { apply in_combine_r in Hca. rewrite Forall_forall in Hpos. apply Hpos. exact Hca. }
    apply in_flat_map in Hy. destruct Hy as [x0 [_ Hy]].
    destruct (x0 =? u)%Z; [|destruct Hy]. destruct Hy as [<- | []]. unfold massvv_contrib. exact Ha.
Qed.

(* the inverse / sqrt options keep every mass matrix positive *)
Theorem real_mass_options_positive (x : R) : 0 < x ->
  (forall inv sq, 0 < massv_post Rops inv sq x) /\ (forall inv, 0 < massf_post Rops inv x) /\
  (forall inv, 0 < masse_post Rops inv x) /\ (forall inv sq, 0 < massvv_post Rops inv sq x) /\
  (forall inv sq, 0 < massvc_post Rops inv sq x).
Proof.
  intros Hx. pose proof (sqrt_lt_R0 x Hx) as Hs.
  assert (I1 : 0 < 1 / x) by (unfold Rdiv; rewrite Rmult_1_l; apply Rinv_0_lt_compat; exact Hx).
  assert (I2 : 0 < 1 / sqrt x) by (unfold Rdiv; rewrite Rmult_1_l; apply Rinv_0_lt_compat; exact Hs).
  repeat split; intros; repeat match goal with b : bool |- _ => destruct b end;
    cbv [massv_post massf_post masse_post massvv_post massvc_post osqrt odiv o1 Rops]; assumption.
Qed.

Definition exVc : list rvec := [(0, 0, 0); (1, 0, 0); (0, 1, 0); (0, 0, 1); (1, 1, 1)].
Example ex_cells_nondeg : forall c, In c exC -> cell_nondeg exVc c.
Proof.
  assert (V0 : vnth Rops exVc 0 = (0, 0, 0)) by reflexivity.
  assert (V1 : vnth Rops exVc 1 = (1, 0, 0)) by reflexivity.
  assert (V2 : vnth Rops exVc 2 = (0, 1, 0)) by reflexivity.
  assert (V3 : vnth Rops exVc 3 = (0, 0, 1)) by reflexivity.
  assert (V4 : vnth Rops exVc 4 = (1, 1, 1)) by reflexivity.
  intros c [<- | [<- | []]]; unfold cell_nondeg; rewrite ?V0, ?V1, ?V2, ?V3, ?V4;
    cbv [det3 vsub osub omul oadd Rops]; lra.
Qed.

Example ex_manifold : surface_manifold_ok exF exE = true.
Proof. reflexivity. Qed.
Example ex_conforming : cells_conforming exC = true.
Proof. reflexivity. Qed.
