(* C08 - combinatorial operators: graph Laplacian = degree - adjacency; adjacency / incidence patterns (one entry per incidence,
   documented sign and weight); tetrahedral dual Laplacian; mass matrices are diagonal with the stated totals.
   Commutative ring with Leibniz equality + "oofZ is the canonical map on naturals" (section hypotheses); axiom-free. *)
From Coq Require Import String ZArith List Bool Ring Lia ZifyBool Arith.
Import ListNotations.
Require Import MV.Lib.Base MV.C08.Ops MV.C08.Gen MV.C08.Model MV.C08.Proofs_Struct MV.C08.Proofs_Dual MV.C08.Proofs_Tet.
Open Scope Z_scope.

Section Graph.
Variable T : Type.
Variable O : ops T.
Hypothesis Rth : ring_theory (o0 O) (o1 O) (oadd O) (omul O) (osub O) (oopp O) eq.
Add Ring RingG : Rth.
Hypothesis Hof0 : oofZ O 0%Z = o0 O.
Hypothesis HofS : forall n : nat, oofZ O (Z.of_nat (S n)) = oadd O (o1 O) (oofZ O (Z.of_nat n)).

Declare Scope G_scope.
Notation "0" := (o0 O) : G_scope.
Notation "1" := (o1 O) : G_scope.
Notation "x + y" := (oadd O x y) : G_scope.
Notation "x * y" := (omul O x y) : G_scope.
Notation "x - y" := (osub O x y) : G_scope.
Notation "- x" := (oopp O x) : G_scope.
Delimit Scope G_scope with G.
Local Open Scope G_scope.

Notation lsum := (lsum T O).
Notation entry_app := (entry_app T O Rth).
Notation rowsum_app := (rowsum_app T O Rth).

Lemma ofnat_len {A} (l : list A) : ofnat O (length l) = lsum (fun _ => 1) l.
Proof.
  unfold ofnat. induction l; cbn [length Proofs_Dual.lsum].
  - exact Hof0.
  - rewrite HofS, IHl. reflexivity.
Qed.

Lemma lsum_neg {A} (f : A -> T) l : lsum (fun a => - f a) l = - lsum f l.
Proof. induction l; cbn [Proofs_Dual.lsum]; [ring | rewrite IHl; ring]. Qed.

(* ------------------------------------------------------------------ entries of row-blocked assemblies *)
Definition rows_are (c : Z) (M : mat T) : Prop := Forall (fun t : Z * Z * T => fst (fst t) = c) M.

Lemma entry_no_row M c i j : rows_are c M -> c <> i -> entry O M i j = 0.
Proof.
  intros H Hc. induction H as [|[[a b] v] M Ha _ IH]; cbn [entry]; [reflexivity|].
  cbn in Ha. subst a. destruct (c =? i)%Z eqn:E; [apply Z.eqb_eq in E; contradiction|]. exact IH.
Qed.
Lemma entry_blocks (block : Z -> mat T) (l : list Z) i j :
  (forall c, rows_are c (block c)) -> NoDup l ->
  entry O (flat_map block l) i j = if existsb (Z.eqb i) l then entry O (block i) i j else 0.
Proof.
  intros Hb Hn. induction Hn as [|c l Hc _ IH]; cbn [flat_map existsb]; [reflexivity|].
  rewrite entry_app, IH. destruct (i =? c)%Z eqn:E; cbn [orb].
  - apply Z.eqb_eq in E. subst c.
    destruct (existsb (Z.eqb i) l) eqn:X.
    + apply existsb_exists in X. destruct X as [y [Hy Ey]]. apply Z.eqb_eq in Ey. subst. contradiction.
    + ring.
  - rewrite (entry_no_row (block c) c i j (Hb c)) by (intros ->; rewrite Z.eqb_refl in E; discriminate). ring.
Qed.
Lemma existsb_zrange i n : existsb (Z.eqb i) (zrange n) = ((0 <=? i)%Z && (i <? n)%Z).
Proof.
  destruct (existsb (Z.eqb i) (zrange n)) eqn:X.
  - apply existsb_exists in X. destruct X as [y [Hy Ey]]. apply Z.eqb_eq in Ey. subst. apply In_zrange in Hy. lia.
  - destruct ((0 <=? i)%Z && (i <? n)%Z) eqn:Y; [|reflexivity].
    assert (In i (zrange n)) by (apply In_zrange; lia).
    assert (existsb (Z.eqb i) (zrange n) = true) by (apply existsb_exists; exists i; split; [assumption|apply Z.eqb_refl]).
    congruence.
Qed.

(* ------------------------------------------------------------------ adjacency matrix *)
Lemma adjacency_const_entry (u0 u1 : T) (E : list edge) i j :
  entry O (adjacency (map (fun _ => (u0, u1)) E) E) i j =
  lsum (fun e : edge => let '(a, b) := e in
          (if (a =? i)%Z && (b =? j)%Z then u0 else 0) + (if (b =? i)%Z && (a =? j)%Z then u1 else 0)) E.
Proof.
  unfold adjacency, indexed. generalize 0%Z as k.
  induction E as [|[a b] E IH]; intros k; cbn [map combine indexed_from flat_map Proofs_Dual.lsum]; [reflexivity|].
  rewrite entry_app, IH. unfold adj_entries. cbn [entry].
  destruct ((a =? i)%Z && (b =? j)%Z), ((b =? i)%Z && (a =? j)%Z); ring.
Qed.

Definition edges_in_range (n : Z) (E : list edge) : Prop :=
  forall a b, In (a, b) E -> (0 <= a < n)%Z /\ (0 <= b < n)%Z /\ a <> b.

(* graph_laplacian = degree - adjacency('one') *)
Theorem graph_laplacian_degree_adjacency (n : Z) (E : list edge) : edges_in_range n E ->
  forall i j,
    entry O (graph_laplacian O n E) i j =
    (if (i =? j)%Z then ofnat O (length (nbrs E i)) else 0) - entry O (adjacency (w_one O E) E) i j.
Proof.
  intros HE i j. unfold w_one, adj_vals_one. rewrite adjacency_const_entry.
  unfold graph_laplacian. rewrite entry_blocks.
  2:{ intros c. unfold rows_are, gl_diag, gl_off. constructor; [reflexivity|].
      apply Forall_forall. intros t Ht. apply in_map_iff in Ht. destruct Ht as [b [<- _]]. reflexivity. }
  2:{ apply NoDup_zrange. }
  rewrite existsb_zrange.
  (* the neighbour sum, edge by edge *)
  assert (NB : forall l, lsum (fun b => if (b =? j)%Z then - (1) else 0) (nbrs E l) =
               lsum (fun e : edge => let '(a, b) := e in
                       if (a =? l)%Z then (if (b =? j)%Z then - (1) else 0)
                       else if (b =? l)%Z then (if (a =? j)%Z then - (1) else 0) else 0) E).
  { intros l. unfold nbrs. rewrite lsum_flat_map by exact Rth. apply lsum_ext. intros [a b].
    destruct (a =? l)%Z; [cbn; ring|]. destruct (b =? l)%Z; cbn; ring. }
  assert (BL : entry O (gl_diag i (ofnat O (length (nbrs E i))) :: map (fun b => gl_off O i b) (nbrs E i)) i j =
               (if (i =? j)%Z then ofnat O (length (nbrs E i)) else 0) +
               lsum (fun b => if (b =? j)%Z then - (1) else 0) (nbrs E i)).
  { unfold gl_diag, gl_off. cbn [entry]. rewrite Z.eqb_refl. cbn [andb].
    assert (M : entry O (map (fun b : Z => (i, b, - (1))) (nbrs E i)) i j =
                lsum (fun b => if (b =? j)%Z then - (1) else 0) (nbrs E i)).
    { induction (nbrs E i) as [|b l IH]; cbn [map entry Proofs_Dual.lsum]; [reflexivity|].
      rewrite Z.eqb_refl, IH. cbn [andb]. destruct (b =? j)%Z; ring. }
    rewrite M. destruct (i =? j)%Z; ring. }
  (* pointwise comparison of the two edge sums *)
  assert (PW : lsum (fun e : edge => let '(a, b) := e in
                       if (a =? i)%Z then (if (b =? j)%Z then - (1) else 0)
                       else if (b =? i)%Z then (if (a =? j)%Z then - (1) else 0) else 0) E =
               - lsum (fun e : edge => let '(a, b) := e in
                       (if (a =? i)%Z && (b =? j)%Z then 1 else 0) + (if (b =? i)%Z && (a =? j)%Z then 1 else 0)) E).
  { rewrite <- lsum_neg.
    assert (G : forall l : list edge, (forall a b, In (a, b) l -> a <> b) ->
      lsum (fun e : edge => let '(a, b) := e in
                       if (a =? i)%Z then (if (b =? j)%Z then - (1) else 0)
                       else if (b =? i)%Z then (if (a =? j)%Z then - (1) else 0) else 0) l =
      lsum (fun e : edge => - (let '(a, b) := e in
                       (if (a =? i)%Z && (b =? j)%Z then 1 else 0) + (if (b =? i)%Z && (a =? j)%Z then 1 else 0))) l).
    { induction l as [|[a b] l IH]; intros Hl; cbn [Proofs_Dual.lsum]; [reflexivity|].
      rewrite IH by (intros; apply Hl; right; assumption).
      assert (Hab : a <> b) by (apply Hl; left; reflexivity).
      destruct (a =? i)%Z eqn:Ea, (b =? i)%Z eqn:Eb, (b =? j)%Z, (a =? j)%Z; cbn [andb]; try ring;
        apply Z.eqb_eq in Ea; apply Z.eqb_eq in Eb; congruence. }
    apply G. intros a b Hab. apply (HE a b Hab). }
  destruct ((0 <=? i)%Z && (i <? n)%Z) eqn:R.
  - rewrite BL, NB, PW. ring.
  - (* no edge touches a vertex outside the range *)
    assert (Z1 : forall l : list edge, (forall a b, In (a, b) l -> a <> i /\ b <> i) ->
              nbrs l i = [] /\
              lsum (fun e : edge => let '(a, b) := e in
                       (if (a =? i)%Z && (b =? j)%Z then 1 else 0) + (if (b =? i)%Z && (a =? j)%Z then 1 else 0)) l = 0).
    { induction l as [|[a b] l IH]; intros Hl; cbn [nbrs flat_map Proofs_Dual.lsum]; [split; reflexivity|].
      destruct (Hl a b (or_introl eq_refl)) as [Ha Hb].
      destruct IH as [I1 I2]; [intros; apply Hl; right; assumption|].
      apply Z.eqb_neq in Ha, Hb. rewrite Ha, Hb. cbn [andb app]. unfold nbrs in I1. rewrite I1, I2. split; [reflexivity|ring]. }
    destruct (Z1 E) as [N1 N2].
    { intros a b Hab. destruct (HE a b Hab) as (Ha & Hb & _). split; intros ->; lia. }
    rewrite N1, N2. cbn [length]. unfold ofnat. cbn [Z.of_nat]. rewrite Hof0. destruct (i =? j)%Z; ring.
Qed.

(* ------------------------------------------------------------------ patterns: one coefficient per incidence, documented sign / weight *)
Theorem adjacency_pattern (w : list (T * T)) (E : list edge) :
  adjacency w E =
  flat_map (fun t : Z * (edge * (T * T)) => let '(e, ((a, b), (v0, v1))) := t in [(a, b, v0); (b, a, v1)])
           (indexed (combine E w))
  /\ adj_vals_one O = (1, 1) /\ (forall d : T, adj_vals_length d = (d, d)) /\ (forall x : T, adj_vals_custom x = (x, x)).
Proof. repeat split; reflexivity. Qed.

Theorem vertex_to_edge_pattern (oriented : bool) (E : list edge) :
  vertex_to_edge O oriented E =
  flat_map (fun t : Z * edge => let '(e, (a, b)) := t in
              [(a, e, if oriented then - (1) else 1); (b, e, 1)]) (indexed E).
Proof. reflexivity. Qed.

Theorem vertex_to_face_pattern (F : list face) :
  vertex_to_face O F =
  flat_map (fun t : Z * face => let '(iT, (p, q, r)) := t in
              let w := odiv O 1 (ofnat O 3) in [(iT, p, w); (iT, q, w); (iT, r, w)]) (indexed F).
Proof. reflexivity. Qed.

Theorem incidence_patterns :
  (forall (w : list (T * T)) (E : list edge),
     adjacency w E =
     flat_map (fun t : Z * (edge * (T * T)) => let '(e, ((a, b), (v0, v1))) := t in [(a, b, v0); (b, a, v1)])
              (indexed (combine E w))
     /\ adj_vals_one O = (1, 1) /\ (forall d : T, adj_vals_length d = (d, d)) /\ (forall x : T, adj_vals_custom x = (x, x))) /\
  (forall (oriented : bool) (E : list edge),
     vertex_to_edge O oriented E =
     flat_map (fun t : Z * edge => let '(e, (a, b)) := t in
                 [(a, e, if oriented then - (1) else 1); (b, e, 1)]) (indexed E)) /\
  (forall F : list face,
     vertex_to_face O F =
     flat_map (fun t : Z * face => let '(iT, (p, q, r)) := t in
                 let w := odiv O 1 (ofnat O 3) in [(iT, p, w); (iT, q, w); (iT, r, w)]) (indexed F)).
Proof. split; [exact adjacency_pattern | split; [exact vertex_to_edge_pattern | exact vertex_to_face_pattern]]. Qed.

(* ------------------------------------------------------------------ tetrahedral dual Laplacian *)
Theorem tl_gen_rowsum (nb : Z -> list Z) (nc : Z) : rs0 T O (tl_gen O nb nc).
Proof.
  unfold tl_gen. apply rs0_flat_map; [exact Rth|]. intros c1 i.
  unfold tl_diag, tl_off. cbn [rowsum].
  assert (M : rowsum O (map (fun c2 : Z => (c1, c2, - (1))) (nb c1)) i =
              if (c1 =? i)%Z then - lsum (fun _ => 1) (nb c1) else 0).
  { induction (nb c1) as [|b l IH]; cbn [map rowsum Proofs_Dual.lsum].
    - destruct (c1 =? i)%Z; ring.
    - rewrite IH. destruct (c1 =? i)%Z; ring. }
  rewrite M, ofnat_len. destruct (c1 =? i)%Z; ring.
Qed.

(* symmetry needs the neighbour relation (connectivity.cell_to_cell) to be symmetric and closed on the cell range *)
Definition nb_symmetric (nb : Z -> list Z) (nc : Z) : Prop :=
  forall a b, (0 <= a < nc)%Z -> (0 <= b < nc)%Z -> count_occ Z.eq_dec (nb a) b = count_occ Z.eq_dec (nb b) a.
Definition nb_closed (nb : Z -> list Z) (nc : Z) : Prop :=
  forall a b, (0 <= a < nc)%Z -> In b (nb a) -> (0 <= b < nc)%Z.

Lemma lsum_count (l : list Z) (j : Z) :
  lsum (fun c => if (c =? j)%Z then 1 else 0) l = ofnat O (count_occ Z.eq_dec l j).
Proof.
  unfold ofnat. induction l as [|c l IH]; cbn [Proofs_Dual.lsum count_occ].
  - symmetry. exact Hof0.
  - rewrite IH. destruct (Z.eq_dec c j) as [->|Hn].
    + rewrite Z.eqb_refl, HofS. reflexivity.
    + apply Z.eqb_neq in Hn. rewrite Hn. ring.
Qed.

Theorem tl_gen_symm (nb : Z -> list Z) (nc : Z) : nb_symmetric nb nc -> nb_closed nb nc -> symm T O (tl_gen O nb nc).
Proof.
  intros Hsym Hcl.
  assert (EN : forall i j, entry O (tl_gen O nb nc) i j =
                 if ((0 <=? i)%Z && (i <? nc)%Z)
                 then (if (i =? j)%Z then ofnat O (length (nb i)) else 0) - ofnat O (count_occ Z.eq_dec (nb i) j)
                 else 0).
  { intros i j. unfold tl_gen. rewrite entry_blocks.
    2:{ intros c. unfold rows_are, tl_diag, tl_off. constructor; [reflexivity|].
        apply Forall_forall. intros t Ht. apply in_map_iff in Ht. destruct Ht as [b [<- _]]. reflexivity. }
    2:{ apply NoDup_zrange. }
    rewrite existsb_zrange. destruct ((0 <=? i)%Z && (i <? nc)%Z); [|reflexivity].
    unfold tl_diag, tl_off. cbn [entry]. rewrite Z.eqb_refl. cbn [andb].
    assert (M : entry O (map (fun c2 : Z => (i, c2, - (1))) (nb i)) i j =
                - lsum (fun c => if (c =? j)%Z then 1 else 0) (nb i)).
    { induction (nb i) as [|b l IH]; cbn [map entry Proofs_Dual.lsum]; [ring|].
      rewrite Z.eqb_refl, IH. cbn [andb]. destruct (b =? j)%Z; ring. }
    rewrite M, lsum_count. destruct (i =? j)%Z; ring. }
  intros i j. rewrite !EN.
  destruct (Z.eq_dec i j) as [->|Hij]; [reflexivity|].
  assert (E1 : (i =? j)%Z = false) by (apply Z.eqb_neq; exact Hij).
  assert (E2 : (j =? i)%Z = false) by (apply Z.eqb_neq; congruence).
  rewrite E1, E2.
  destruct ((0 <=? i)%Z && (i <? nc)%Z) eqn:Ri, ((0 <=? j)%Z && (j <? nc)%Z) eqn:Rj.
  - rewrite (Hsym i j) by lia. reflexivity.
  - assert (Z0 : count_occ Z.eq_dec (nb i) j = 0%nat).
    { apply count_occ_not_In. intros Hin. pose proof (Hcl i j ltac:(lia) Hin). lia. }
    rewrite Z0. unfold ofnat. cbn [Z.of_nat]. rewrite Hof0. ring.
  - assert (Z0 : count_occ Z.eq_dec (nb j) i = 0%nat).
    { apply count_occ_not_In. intros Hin. pose proof (Hcl j i ltac:(lia) Hin). lia. }
    rewrite Z0. unfold ofnat. cbn [Z.of_nat]. rewrite Hof0. ring.
  - reflexivity.
Qed.

(* the decidable condition evaluated on every generated tetrahedral mesh implies the two hypotheses *)
Lemma cell_adjacency_ok_spec (C : list cell) : cell_adjacency_ok C = true ->
  nb_symmetric (cell_nbrs C) (zlen C) /\ nb_closed (cell_nbrs C) (zlen C).
Proof.
  unfold cell_adjacency_ok. intros H. rewrite forallb_forall in H. split.
  - intros a b Ha Hb. specialize (H a (proj2 (In_zrange _ _) Ha)). apply andb_true_iff in H. destruct H as [H _].
    rewrite forallb_forall in H. specialize (H b (proj2 (In_zrange _ _) Hb)). apply Nat.eqb_eq in H. exact H.
  - intros a b Ha Hin. specialize (H a (proj2 (In_zrange _ _) Ha)). apply andb_true_iff in H. destruct H as [_ H].
    rewrite forallb_forall in H. specialize (H b Hin). lia.
Qed.

Theorem laplacian_tetrahedra_sym_rowsum (C : list cell) :
  rs0 T O (laplacian_tetrahedra O C) /\ (cell_adjacency_ok C = true -> symm T O (laplacian_tetrahedra O C)).
Proof.
  unfold laplacian_tetrahedra. split; [apply tl_gen_rowsum|].
  intros H. destruct (cell_adjacency_ok_spec C H) as [H1 H2]. apply tl_gen_symm; assumption.
Qed.

(* ... in particular on every conforming tetrahedral mesh (conditions on the cell list alone) *)
Theorem laplacian_tetrahedra_conforming (C : list cell) :
  rs0 T O (laplacian_tetrahedra O C) /\ (cells_conforming C = true -> symm T O (laplacian_tetrahedra O C)).
Proof.
  destruct (laplacian_tetrahedra_sym_rowsum C) as [H1 H2]. split; [exact H1|].
  intros Hc. apply H2. apply conforming_adjacency. exact Hc.
Qed.

(* ------------------------------------------------------------------ mass matrices: diagonal, totals *)
Lemma diag_from_offdiag (d : list T) k i j : i <> j -> entry O (diag_from k d) i j = 0.
Proof.
  intros Hij. revert k. induction d as [|v d IH]; intros k; cbn [diag_from entry]; [reflexivity|].
  destruct (k =? i)%Z eqn:E1, (k =? j)%Z eqn:E2; cbn [andb]; try apply IH.
  apply Z.eqb_eq in E1, E2. congruence.
Qed.
Lemma total_diag_from (d : list T) k : total O (diag_from k d) = sumT O d.
Proof. revert k. induction d as [|v d IH]; intros k; cbn [diag_from total sumT]; [reflexivity | rewrite IH; reflexivity]. Qed.

Lemma sumT_lsum (l : list T) : sumT O l = lsum (fun x => x) l.
Proof. induction l; cbn [sumT Proofs_Dual.lsum]; [reflexivity | rewrite IHl; reflexivity]. Qed.
Lemma sumT_app (l m : list T) : sumT O (l ++ m) = sumT O l + sumT O m.
Proof. induction l; cbn [app sumT]; [ring | rewrite IHl; ring]. Qed.
Lemma sumT_flat_map {A} (g : A -> list T) l : sumT O (flat_map g l) = lsum (fun a => sumT O (g a)) l.
Proof. induction l; cbn [flat_map Proofs_Dual.lsum sumT]; [reflexivity | rewrite sumT_app, IHl; reflexivity]. Qed.
Lemma sumT_map {A} (g : A -> T) l : sumT O (map g l) = lsum g l.
Proof. induction l; cbn [map Proofs_Dual.lsum sumT]; [reflexivity | rewrite IHl; reflexivity]. Qed.

(* sum over u in range(n) of [p = u] a  =  a   for p in range *)
Lemma pick_seq (p : Z) (a : T) (s len : nat) :
  lsum (fun u => if (p =? u)%Z then a else 0) (map Z.of_nat (seq s len)) =
  if ((Z.of_nat s <=? p)%Z && (p <? Z.of_nat (s + len))%Z) then a else 0.
Proof.
  revert s. induction len as [|len IH]; intros s; cbn [seq map Proofs_Dual.lsum].
  - destruct ((Z.of_nat s <=? p)%Z && (p <? Z.of_nat (s + 0))%Z) eqn:E; [lia | reflexivity].
  - rewrite IH. destruct (p =? Z.of_nat s)%Z eqn:E1.
    + apply Z.eqb_eq in E1.
      destruct ((Z.of_nat (S s) <=? p)%Z && (p <? Z.of_nat (S s + len))%Z) eqn:E2; [lia|].
      destruct ((Z.of_nat s <=? p)%Z && (p <? Z.of_nat (s + S len))%Z) eqn:E3; [ring | lia].
    + apply Z.eqb_neq in E1.
      destruct ((Z.of_nat (S s) <=? p)%Z && (p <? Z.of_nat (S s + len))%Z) eqn:E2;
      destruct ((Z.of_nat s <=? p)%Z && (p <? Z.of_nat (s + S len))%Z) eqn:E3; try ring; lia.
Qed.
Lemma pick_zrange (p n : Z) (a : T) : (0 <= p < n)%Z ->
  lsum (fun u => if (p =? u)%Z then a else 0) (zrange n) = a.
Proof.
  intros H. unfold zrange. rewrite pick_seq.
  destruct ((Z.of_nat 0 <=? p)%Z && (p <? Z.of_nat (0 + Z.to_nat n))%Z) eqn:E; [reflexivity | lia].
Qed.

Definition faces_in_range (n : Z) (F : list face) : Prop :=
  forall p q r, In (p, q, r) F -> (0 <= p < n)%Z /\ (0 <= q < n)%Z /\ (0 <= r < n)%Z.

(* A[u] += w[T] for u in T: the accumulated vertex weights sum to 3 x the sum of the face weights *)
Lemma vertex_acc_total (n : Z) (F : list face) (w : list T) : faces_in_range n F -> length w = length F ->
  sumT O (vertex_acc O n F w) = three O * sumT O w.
Proof.
  intros HF HL. unfold vertex_acc. rewrite sumT_map.
  rewrite (lsum_ext T O _ (fun u => lsum (fun fw : face * T => let '((p, q, r), a) := fw in
       (if (p =? u)%Z then a else 0) + (if (q =? u)%Z then a else 0) + (if (r =? u)%Z then a else 0)) (combine F w))).
  2:{ intros u. rewrite sumT_flat_map. apply lsum_ext. intros [[[p q] r] a]. unfold massv_contrib.
      destruct (p =? u)%Z, (q =? u)%Z, (r =? u)%Z; cbn [app sumT]; ring. }
  rewrite lsum_swap by exact Rth.
  revert w HL. induction F as [|[[p q] r] F IH]; intros [|a w] HL; cbn [combine Proofs_Dual.lsum sumT]; try discriminate.
  - unfold three, two. ring.
  - rewrite IH; [| intros p' q' r' H'; apply HF; right; exact H' | cbn in HL; lia].
    destruct (HF p q r (or_introl eq_refl)) as (Hp & Hq & Hr).
    rewrite !(lsum_add T O Rth). rewrite !pick_zrange by assumption. unfold three, two. ring.
Qed.

Theorem mass_matrices_diagonal_totals :
  (* every mass matrix is a diag: off-diagonal entries vanish *)
  (forall (d : list T) i j, i <> j -> entry O (diag d) i j = 0) /\
  (* options act entrywise on the accumulated diagonal, sqrt before inverse *)
  (forall inv sq n V F, mass_vertices O inv sq n V F = diag (map (massv_post O inv sq) (vertex_acc O n F (areas O V F)))) /\
  (forall inv sq x, massv_post O inv sq x =
       let y := if sq then osqrt O x else x in if inv then odiv O 1 y else y) /\
  (forall inv x, massf_post O inv x = if inv then odiv O 1 x else x) /\
  (forall inv x, masse_post O inv x = if inv then odiv O 1 x else x) /\
  (forall inv sq x, massvv_post O inv sq x = let y := if sq then osqrt O x else x in if inv then odiv O 1 y else y) /\
  (forall inv sq x, massvc_post O inv sq x = let y := if sq then osqrt O x else x in if inv then odiv O 1 y else y) /\
  (* vertex masses sum to 3 x total area, face masses to the total area *)
  (forall n V F, faces_in_range n F ->
      total O (mass_vertices O false false n V F) = three O * sumT O (areas O V F)) /\
  (forall V F, total O (mass_faces O false V F) = sumT O (areas O V F)).
Proof.
  split; [intros d i j Hij; apply diag_from_offdiag; exact Hij|].
  split; [reflexivity|].
  split; [intros inv sq x; destruct inv, sq; reflexivity|].
  split; [intros inv x; destruct inv; reflexivity|].
  split; [intros inv x; destruct inv; reflexivity|].
  split; [intros inv sq x; destruct inv, sq; reflexivity|].
  split; [intros inv sq x; destruct inv, sq; reflexivity|].
  split.
  - intros n V F HF. unfold mass_vertices, diag. rewrite total_diag_from.
    rewrite map_ext with (g := fun x => x) by reflexivity. rewrite map_id.
    apply vertex_acc_total; [exact HF|]. unfold areas. apply map_length.
  - intros V F. unfold mass_faces, diag. rewrite total_diag_from.
    rewrite map_ext with (g := fun x => x) by reflexivity. rewrite map_id. reflexivity.
Qed.

(* the weights and shapes the property fixes, as they stand in the generated definitions *)
Theorem documented_weights_shapes :
  (forall a : T, mass_edge_share O a = odiv O a (three O)) /\
  (forall a : T, massv_contrib a = a) /\ (forall a : T, massvv_contrib a = a) /\
  (forall l : T, v2f_weight O l = odiv O 1 l) /\
  (forall n : Z, lap_shape n = (n, n)) /\ (forall m : Z, lape_shape m = (m, m)) /\ (forall n m : Z, gl_shape n m = (n, n)) /\
  (forall n m : Z, adj_shape n m = (n, n)) /\ (forall n m : Z, v2e_shape n m = (n, m)) /\
  (forall n m : Z, v2f_shape n m = (m, n)).
Proof. repeat split. Qed.

(* V[u] += volume[C] for u in C: the accumulated vertex volumes sum to 4 x the sum of the cell volumes *)
Definition cells_in_range (n : Z) (C : list cell) : Prop :=
  forall c x, In c C -> In x (cell_list c) -> (0 <= x < n)%Z.

Lemma vol_vertex_acc_total (n : Z) (C : list cell) (w : list T) : cells_in_range n C -> length w = length C ->
  sumT O (vol_vertex_acc O n C w) = (two O * two O) * sumT O w.
Proof.
  intros HC HL. unfold vol_vertex_acc. rewrite sumT_map.
  rewrite (lsum_ext T O _ (fun u => lsum (fun cw : cell * T => let '((a, b, c, d), v) := cw in
       (if (a =? u)%Z then v else 0) + (if (b =? u)%Z then v else 0) + (if (c =? u)%Z then v else 0)
       + (if (d =? u)%Z then v else 0)) (combine C w))).
  2:{ intros u. rewrite sumT_flat_map. apply lsum_ext. intros [[[[a b] c] d] v]. unfold massvv_contrib, cell_list.
      cbn [flat_map]. destruct (a =? u)%Z, (b =? u)%Z, (c =? u)%Z, (d =? u)%Z; cbn [app sumT]; ring. }
  rewrite lsum_swap by exact Rth.
  revert w HL. induction C as [|[[[a b] c] d] C IH]; intros [|v w] HL; cbn [combine Proofs_Dual.lsum sumT]; try discriminate.
  - unfold two. ring.
  - rewrite IH; [| intros c' x Hc Hx; apply (HC c' x); [right; exact Hc | exact Hx] | cbn in HL; lia].
    assert (Ha : (0 <= a < n)%Z) by (apply (HC (a, b, c, d)); [left; reflexivity | cbn; auto]).
    assert (Hb : (0 <= b < n)%Z) by (apply (HC (a, b, c, d)); [left; reflexivity | cbn; auto]).
    assert (Hc : (0 <= c < n)%Z) by (apply (HC (a, b, c, d)); [left; reflexivity | cbn; auto]).
    assert (Hd : (0 <= d < n)%Z) by (apply (HC (a, b, c, d)); [left; reflexivity | cbn; auto]).
    rewrite !(lsum_add T O Rth). rewrite !pick_zrange by assumption. unfold two. ring.
Qed.

Theorem volume_mass_totals :
  (forall n V C, cells_in_range n C ->
      total O (mass_vol_vertices O false false n V C) = (two O * two O) * sumT O (cell_volumes O V C)) /\
  (forall V C, total O (mass_vol_cells O false false V C) = sumT O (cell_volumes O V C)).
Proof.
  split.
  - intros n V C HC. unfold mass_vol_vertices, diag. rewrite total_diag_from.
    rewrite map_ext with (g := fun x => x) by reflexivity. rewrite map_id.
    apply vol_vertex_acc_total; [exact HC|]. unfold cell_volumes. apply map_length.
  - intros V C. unfold mass_vol_cells, diag. rewrite total_diag_from.
    rewrite map_ext with (g := fun x => x) by reflexivity. rewrite map_id. reflexivity.
Qed.

End Graph.

(* the documented signatures: option defaults and the positional order of the parameters (generated from the `def` lines) *)
Theorem documented_signatures :
  dflt_laplacian_cotan = true /\ dflt_cotan_edge_diagonal_inverse = true /\ dflt_laplacian_triangles_cotan = true /\
  dflt_laplacian_edges_cotan = true /\ dflt_gradient_as_complex = true /\
  dflt_area_weight_matrix_inverse = false /\ dflt_area_weight_matrix_sqrt = false /\
  dflt_area_weight_matrix_faces_inverse = false /\ dflt_area_weight_matrix_edges_inverse = false /\
  dflt_volume_weight_matrix_inverse = false /\ dflt_volume_weight_matrix_sqrt = false /\
  dflt_volume_weight_matrix_cells_inverse = false /\ dflt_volume_weight_matrix_cells_sqrt = false /\
  dflt_adjacency_matrix_weights = "one"%string /\ dflt_vertex_to_edge_operator_oriented = false /\
  params_laplacian = ["mesh"; "cotan"; "connection"; "order"]%string /\
  params_cotan_edge_diagonal = ["mesh"; "inverse"]%string /\
  params_laplacian_triangles = ["mesh"; "cotan"; "connection"; "order"]%string /\
  params_laplacian_edges = ["mesh"; "cotan"; "connection"; "order"]%string /\
  params_gradient = ["mesh"; "conn"; "as_complex"]%string /\
  params_area_weight_matrix = ["mesh"; "inverse"; "sqrt"; "format"]%string /\
  params_area_weight_matrix_faces = ["mesh"; "inverse"; "format"]%string /\
  params_area_weight_matrix_edges = ["mesh"; "inverse"]%string /\
  params_volume_weight_matrix = ["mesh"; "inverse"; "sqrt"; "format"]%string /\
  params_volume_weight_matrix_cells = ["mesh"; "inverse"; "sqrt"; "format"]%string /\
  params_adjacency_matrix = ["mesh"; "weights"]%string /\ params_vertex_to_edge_operator = ["mesh"; "oriented"]%string.
Proof. repeat split. Qed.
