(* C08 - the edge mass matrix (area_weight_matrix_edges): its entries sum to the total area on every mesh whose stored edge
   list covers the three half-edges of every face exactly once - the decidable condition `edge_cover_ok`, which the batch
   checker evaluates on every generated case.  Any field (section hypothesis), 3 <> 0. *)
From Coq Require Import ZArith List Bool Ring Field Lia ZifyBool Arith.
Import ListNotations.
Require Import MV.Lib.Base MV.C08.Ops MV.C08.Gen MV.C08.Model MV.C08.Proofs_Struct MV.C08.Proofs_Dual MV.C08.Proofs_Graph
  MV.C08.Proofs_Cover.
Open Scope Z_scope.

Section Mass.
Variable T : Type.
Variable O : ops T.
Hypothesis Fth : field_theory (o0 O) (o1 O) (oadd O) (omul O) (osub O) (oopp O) (odiv O) (oinv O) eq.
Add Field FieldM : Fth.
Let Rth := F_R Fth.
Hypothesis three_nz : three O <> o0 O.

Declare Scope M_scope.
Notation "0" := (o0 O) : M_scope.
Notation "x + y" := (oadd O x y) : M_scope.
Notation "x * y" := (omul O x y) : M_scope.
Notation "x / y" := (odiv O x y) : M_scope.
Delimit Scope M_scope with M.
Local Open Scope M_scope.
Notation lsum := (lsum T O).

(* the direct face of a half-edge is a valid face index *)
Lemma direct_face_from_range (F : list face) u v i acc t a b :
  direct_face_from i F u v acc = Some (t, a, b) -> acc = Some (t, a, b) \/ (i <= t < i + zlen F)%Z.
Proof.
  revert i acc. induction F as [|f F IH]; intros i acc H; cbn [direct_face_from] in H.
  - left. exact H.
  - apply IH in H. unfold zlen in *. cbn [length]. destruct H as [H | H]; [|right; lia].
    destruct (he_in_face f u v) as [[a' b']|]; [|left; exact H].
    inversion H; subst. right. lia.
Qed.
Lemma direct_face_id_range (F : list face) u v t : direct_face_id F u v = Some t -> (0 <= t < zlen F)%Z.
Proof.
  unfold direct_face_id, direct_face. destruct (direct_face_from 0 F u v None) as [[[t' a] b]|] eqn:E; [|discriminate].
  intros H. inversion H; subst. apply direct_face_from_range in E. destruct E as [E | E]; [discriminate | lia].
Qed.

Definition gslot (F : list face) (w : list T) (d : Z * Z) : T :=
  match direct_face_id F (fst d) (snd d) with Some t => mass_edge_share O (znth w t 0) | None => 0 end.

Lemma edge_acc_slots (F : list face) (w : list T) (E : list edge) :
  sumT O (edge_acc O F w E) = lsum (gslot F w) (edge_slots E).
Proof.
  unfold edge_acc, edge_slots. induction E as [|[a b] E IH]; cbn [map sumT flat_map app Proofs_Dual.lsum]; [reflexivity|].
  rewrite IH. unfold gslot. cbn [fst snd].
  destruct (direct_face_id F a b), (direct_face_id F b a); cbn [app sumT]; ring.
Qed.

Lemma thirds (x : T) : mass_edge_share O x + mass_edge_share O x + mass_edge_share O x = x.
Proof.
  unfold mass_edge_share.
  assert (G : forall k : T, k = o1 O + o1 O + o1 O -> k <> 0 -> x / k + x / k + x / k = x).
  { intros k Hk Hk0. transitivity ((o1 O + o1 O + o1 O) * x / k); [field; exact Hk0|]. rewrite <- Hk. field. exact Hk0. }
  apply G; [reflexivity | exact three_nz].
Qed.

Lemma lsum_filter {A} (p : A -> bool) (c : T) (l : list A) :
  lsum (fun d => if p d then c else 0) l = lsum (fun _ => c) (filter p l).
Proof.
  induction l as [|x l IH]; cbn [filter Proofs_Dual.lsum]; [reflexivity|].
  rewrite IH. destruct (p x); cbn [Proofs_Dual.lsum]; ring.
Qed.
Lemma lsum_const3 {A} (c : T) (l : list A) : length l = 3%nat -> lsum (fun _ => c) l = c + c + c.
Proof. destruct l as [|x [|y [|z [|? ?]]]]; try discriminate. intros _. cbn [Proofs_Dual.lsum]. ring. Qed.

Lemma gslot_fibers (F : list face) (w : list T) (d : Z * Z) :
  gslot F w d = lsum (fun t => if slot_is F t d then mass_edge_share O (znth w t 0) else 0) (zrange (zlen F)).
Proof.
  unfold gslot, slot_is. destruct (direct_face_id F (fst d) (snd d)) as [t'|] eqn:E.
  - pose proof (direct_face_id_range F _ _ _ E) as R.
    rewrite (lsum_ext T O _ (fun t => if (t' =? t)%Z then mass_edge_share O (znth w t' 0) else 0)).
    + symmetry. apply (pick_zrange T O Rth). exact R.
    + intros t. destruct (t' =? t)%Z eqn:Q; [apply Z.eqb_eq in Q; subst|]; reflexivity.
  - symmetry. apply (lsum_zero T O Rth).
Qed.

Lemma sum_znth_seq (w1 w2 : list T) :
  lsum (fun t => znth (w1 ++ w2) t 0) (map Z.of_nat (seq (length w1) (length w2))) = sumT O w2.
Proof.
  revert w1. induction w2 as [|x w2 IH]; intros w1; cbn [length seq map Proofs_Dual.lsum sumT]; [reflexivity|].
  replace (w1 ++ x :: w2) with ((w1 ++ [x]) ++ w2) by (rewrite <- app_assoc; reflexivity).
  specialize (IH (w1 ++ [x])). rewrite app_length in IH. cbn [length] in IH.
  replace (length w1 + 1)%nat with (S (length w1)) in IH by lia. rewrite IH.
  f_equal. unfold znth. destruct (Z.of_nat (length w1) <? 0)%Z eqn:Q; [lia|].
  rewrite Nat2Z.id. rewrite <- app_assoc. cbn [app]. rewrite app_nth2 by lia. rewrite Nat.sub_diag. reflexivity.
Qed.
Lemma sum_znth (w : list T) : lsum (fun t => znth w t 0) (zrange (zlen w)) = sumT O w.
Proof.
  unfold zrange, zlen. rewrite Nat2Z.id. exact (sum_znth_seq [] w).
Qed.

(* area_weight_matrix_edges sums to the total area *)
Theorem edge_mass_total (V : list (vec T)) (F : list face) (E : list edge) :
  edge_cover_ok F E = true ->
  total O (mass_edges O false V F E) = sumT O (areas O V F).
Proof.
  intros Hc. unfold mass_edges, diag. rewrite (total_diag_from T O).
  rewrite map_ext with (g := fun x => x) by reflexivity. rewrite map_id.
  set (w := areas O V F).
  assert (HL : zlen w = zlen F) by (unfold zlen, w, areas; rewrite map_length; reflexivity).
  rewrite edge_acc_slots.
  rewrite (lsum_ext T O _ _ (edge_slots E) (gslot_fibers F w)).
  rewrite (lsum_swap T O Rth).
  rewrite <- sum_znth. rewrite HL.
  unfold edge_cover_ok in Hc. rewrite forallb_forall in Hc.
  assert (G : forall l : list Z, (forall t, In t l -> In t (zrange (zlen F))) ->
     lsum (fun t => lsum (fun d => if slot_is F t d then mass_edge_share O (znth w t 0) else 0) (edge_slots E)) l =
     lsum (fun t => znth w t 0) l).
  { induction l as [|t l IH]; intros Hl; cbn [Proofs_Dual.lsum]; [reflexivity|].
    rewrite IH by (intros t' Ht'; apply Hl; right; exact Ht').
    f_equal. rewrite lsum_filter. rewrite lsum_const3.
    - apply thirds.
    - apply Nat.eqb_eq. apply Hc. apply Hl. left. reflexivity. }
  apply G. auto.
Qed.

(* ... in particular on every oriented manifold surface with a consistent edge list (list-level conditions only) *)
Theorem edge_mass_total_manifold (V : list (vec T)) (F : list face) (E : list edge) :
  surface_manifold_ok F E = true ->
  total O (mass_edges O false V F E) = sumT O (areas O V F).
Proof. intros H. apply edge_mass_total. apply manifold_edge_cover. exact H. Qed.

End Mass.
