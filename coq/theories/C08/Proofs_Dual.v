(* C08 - the dual-graph Laplacian  N^T D N  (laplacian_triangles) computed with the model's sparse products is symmetric
   for EVERY incidence list and EVERY diagonal D, and has zero row sums because each generated row of N sums to zero.
   Also the tetrahedral dual Laplacian: zero row sums always, symmetric when the neighbour relation is.
   Commutative ring with Leibniz equality (section hypothesis); axiom-free. *)
From Coq Require Import ZArith List Bool Ring Lia.
Import ListNotations.
Require Import MV.Lib.Base MV.C08.Ops MV.C08.Gen MV.C08.Model MV.C08.Proofs_Struct.
Open Scope Z_scope.

Section Dual.
Variable T : Type.
Variable O : ops T.
Hypothesis Rth : ring_theory (o0 O) (o1 O) (oadd O) (omul O) (osub O) (oopp O) eq.
Add Ring RingD : Rth.

Declare Scope D_scope.
Notation "0" := (o0 O) : D_scope.
Notation "1" := (o1 O) : D_scope.
Notation "x + y" := (oadd O x y) : D_scope.
Notation "x * y" := (omul O x y) : D_scope.
Notation "x - y" := (osub O x y) : D_scope.
Notation "- x" := (oopp O x) : D_scope.
Delimit Scope D_scope with D.
Local Open Scope D_scope.

Notation symm := (symm T O).
Notation rs0 := (rs0 T O).

(* ------------------------------------------------------------------ finite sums *)
Fixpoint lsum {A} (f : A -> T) (l : list A) : T := match l with [] => 0 | a :: r => f a + lsum f r end.

Lemma lsum_app {A} (f : A -> T) l m : lsum f (l ++ m) = lsum f l + lsum f m.
Proof. induction l; cbn [app lsum]; [ring | rewrite IHl; ring]. Qed.
Lemma lsum_ext {A} (f g : A -> T) l : (forall a, f a = g a) -> lsum f l = lsum g l.
Proof. intros H. induction l; cbn [lsum]; [reflexivity | rewrite H, IHl; reflexivity]. Qed.
Lemma lsum_add {A} (f g : A -> T) l : lsum (fun a => f a + g a) l = lsum f l + lsum g l.
Proof. induction l; cbn [lsum]; [ring | rewrite IHl; ring]. Qed.
Lemma lsum_zero {A} (l : list A) : lsum (fun _ => 0) l = 0.
Proof. induction l; cbn [lsum]; [reflexivity | rewrite IHl; ring]. Qed.
Lemma lsum_scal {A} (c : T) (f : A -> T) l : lsum (fun a => c * f a) l = c * lsum f l.
Proof. induction l; cbn [lsum]; [ring | rewrite IHl; ring]. Qed.
Lemma lsum_swap {A B} (f : A -> B -> T) l m :
  lsum (fun a => lsum (fun b => f a b) m) l = lsum (fun b => lsum (fun a => f a b) l) m.
Proof.
  induction l; cbn [lsum].
  - rewrite lsum_zero. reflexivity.
  - rewrite IHl, <- lsum_add. reflexivity.
Qed.
Lemma lsum_flat_map {A B} (f : B -> T) (g : A -> list B) l : lsum f (flat_map g l) = lsum (fun a => lsum f (g a)) l.
Proof. induction l; cbn [flat_map lsum]; [reflexivity | rewrite lsum_app, IHl; reflexivity]. Qed.

(* ------------------------------------------------------------------ bilinear form and matrix-vector product of a triplet list *)
Definition bil (M : mat T) (x y : Z -> T) : T := lsum (fun t : Z * Z * T => let '(i, j, v) := t in x i * v * y j) M.
Definition mv (M : mat T) (y : Z -> T) (i : Z) : T :=
  lsum (fun t : Z * Z * T => let '(a, b, v) := t in if (a =? i)%Z then v * y b else 0) M.
Definition delta (i k : Z) : T := if (k =? i)%Z then 1 else 0.

Lemma entry_bil M i j : entry O M i j = bil M (delta i) (delta j).
Proof.
  unfold bil, delta. induction M as [|[[a b] v] M IH]; cbn [entry lsum]; [reflexivity|].
  rewrite IH. destruct (a =? i)%Z, (b =? j)%Z; cbn [andb]; ring.
Qed.
Lemma rowsum_bil M i : rowsum O M i = bil M (delta i) (fun _ => 1).
Proof.
  unfold bil, delta. induction M as [|[[a b] v] M IH]; cbn [rowsum lsum]; [reflexivity|].
  rewrite IH. destruct (a =? i)%Z; ring.
Qed.
Lemma rowsum_mv M i : rowsum O M i = mv M (fun _ => 1) i.
Proof.
  unfold mv. induction M as [|[[a b] v] M IH]; cbn [rowsum lsum]; [reflexivity|].
  rewrite IH. destruct (a =? i)%Z; ring.
Qed.
Lemma bil_transpose M x y : bil (transpose M) x y = bil M y x.
Proof.
  unfold bil, transpose. induction M as [|[[a b] v] M IH]; cbn [map lsum]; [reflexivity | rewrite IH; ring].
Qed.
Lemma bil_ext M x x' y y' : (forall k, x k = x' k) -> (forall k, y k = y' k) -> bil M x y = bil M x' y'.
Proof. intros Hx Hy. unfold bil. apply lsum_ext. intros [[i j] v]. rewrite Hx, Hy. reflexivity. Qed.

Lemma bil_mmul A B x y : bil (mmul O A B) x y = bil A x (mv B y).
Proof.
  unfold bil at 1. unfold mmul. rewrite lsum_flat_map. unfold bil. apply lsum_ext. intros [[i k] a].
  rewrite lsum_flat_map. unfold mv. rewrite <- lsum_scal. apply lsum_ext. intros [[k' j] b].
  rewrite (Z.eqb_sym k' k). destruct (k =? k')%Z; cbn [lsum]; ring.
Qed.
Lemma mv_mmul A B y i : mv (mmul O A B) y i = mv A (mv B y) i.
Proof.
  unfold mv at 1. unfold mmul. rewrite lsum_flat_map. unfold mv at 1. apply lsum_ext. intros [[r k] a].
  rewrite lsum_flat_map.
  destruct (r =? i)%Z eqn:E.
  - unfold mv. rewrite <- lsum_scal. apply lsum_ext. intros [[k' j] b].
    rewrite (Z.eqb_sym k' k). destruct (k =? k')%Z; cbn [lsum]; [rewrite E|]; ring.
  - transitivity (lsum (fun _ : Z * Z * T => 0) B); [|apply lsum_zero]. apply lsum_ext. intros [[k' j] b].
    destruct (k =? k')%Z; cbn [lsum]; [rewrite E|]; ring.
Qed.
Lemma mv_diag (d : list T) (k : Z) z e : mv (diag_from k d) z e = rowsum O (diag_from k d) e * z e.
Proof.
  revert k. induction d as [|v d IH]; intros k; cbn [diag_from mv lsum rowsum].
  - unfold mv. cbn [lsum]. ring.
  - unfold mv in *. cbn [lsum]. rewrite IH. destruct (k =? e)%Z eqn:E.
    + apply Z.eqb_eq in E. subst. ring.
    + ring.
Qed.

(* ------------------------------------------------------------------ N^T . C . N for a row weighting c *)
Definition quad (N : mat T) (c : Z -> T) (x y : Z -> T) : T := bil N (fun e => c e * mv N y e) x.

Definition qterm (c : Z -> T) (x y : Z -> T) (t1 t2 : Z * Z * T) : T :=
  let '(e, t, v) := t1 in let '(e', t', v') := t2 in
  if (e' =? e)%Z then c e * (v' * y t') * v * x t else 0.

Lemma quad_expand N c x y : quad N c x y = lsum (fun t1 => lsum (fun t2 => qterm c x y t1 t2) N) N.
Proof.
  unfold quad, bil. apply lsum_ext. intros [[e t] v]. cbv beta. unfold mv.
  set (g := fun t0 : Z * Z * T => let '(a, b, v0) := t0 in if (a =? e)%Z then v0 * y b else 0).
  transitivity ((c e * v * x t) * lsum g N); [ring|].
  rewrite <- lsum_scal. apply lsum_ext. intros [[e' t'] v']. unfold g, qterm.
  destruct (e' =? e)%Z; ring.
Qed.

Lemma quad_sym N c x y : quad N c x y = quad N c y x.
Proof.
  rewrite !quad_expand. rewrite lsum_swap. apply lsum_ext. intros [[e' t'] v'].
  apply lsum_ext. intros [[e t] v]. unfold qterm.
  rewrite (Z.eqb_sym e' e). destruct (e =? e')%Z eqn:E.
  - apply Z.eqb_eq in E. subst. ring.
  - reflexivity.
Qed.

Lemma weighted_is_quad N d x y :
  bil (mmul O (transpose N) (mmul O (diag d) N)) x y = quad N (rowsum O (diag d)) x y.
Proof.
  rewrite bil_mmul, bil_transpose. unfold quad. apply bil_ext; [|reflexivity].
  intros e. rewrite mv_mmul. unfold diag. apply mv_diag.
Qed.
Lemma plain_is_quad N x y : bil (mmul O (transpose N) N) x y = quad N (fun _ => 1) x y.
Proof.
  rewrite bil_mmul, bil_transpose. unfold quad. apply bil_ext; [|reflexivity]. intros e. ring.
Qed.

(* rows of the generated incidence matrix sum to zero *)
Lemma nabla_rs0 P : rs0 (nabla O P).
Proof.
  unfold nabla. apply rs0_flat_map; [exact Rth|]. intros [[ie t1] t2] i.
  unfold lapt_nabla. cbn [rowsum]. destruct (ie =? i)%Z; ring.
Qed.

Lemma quad_rowsum N c x : rs0 N -> quad N c x (fun _ => 1) = 0.
Proof.
  intros H. unfold quad, bil. transitivity (lsum (fun _ : Z * Z * T => 0) N); [|apply lsum_zero]. apply lsum_ext. intros [[e t] v].
  rewrite <- rowsum_mv, H. ring.
Qed.

Theorem lapt_weighted_sym_rowsum (d : list T) (P : list (Z * Z * Z)) :
  symm (lapt_weighted O d P) /\ rs0 (lapt_weighted O d P).
Proof.
  unfold lapt_weighted. split.
  - intros i j. rewrite !entry_bil, !weighted_is_quad. apply quad_sym.
  - intros i. rewrite rowsum_bil, weighted_is_quad. apply quad_rowsum, nabla_rs0.
Qed.
Theorem lapt_plain_sym_rowsum (P : list (Z * Z * Z)) : symm (lapt_plain O P) /\ rs0 (lapt_plain O P).
Proof.
  unfold lapt_plain. split.
  - intros i j. rewrite !entry_bil, !plain_is_quad. apply quad_sym.
  - intros i. rewrite rowsum_bil, plain_is_quad. apply quad_rowsum, nabla_rs0.
Qed.

Theorem lapt_sym_rowsum (d : list T) (P : list (Z * Z * Z)) :
  (symm (lapt_weighted O d P) /\ rs0 (lapt_weighted O d P)) /\ (symm (lapt_plain O P) /\ rs0 (lapt_plain O P)).
Proof. split; [apply lapt_weighted_sym_rowsum | apply lapt_plain_sym_rowsum]. Qed.

End Dual.
