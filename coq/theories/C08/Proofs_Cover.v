(* C08 - from list-level manifoldness (surface_manifold_ok: half-edges unique, stored edges distinct and covering the faces)
   to the fibre condition edge_cover_ok the edge-mass theorem uses: every face is the direct face of exactly three
   (edge, side) slots.  Pure list reasoning, closed under the global context. *)
From Coq Require Import ZArith List Bool Lia ZifyBool Arith Permutation.
Import ListNotations.
Require Import MV.Lib.Base MV.C08.Ops MV.C08.Gen MV.C08.Model.
Open Scope Z_scope.

Lemma pair_eqb_spec (a b : Z * Z) : pair_eqb a b = true <-> a = b.
Proof.
  destruct a as [a1 a2], b as [b1 b2]. unfold pair_eqb. cbn [fst snd]. split.
  - intros H. apply andb_true_iff in H. destruct H as [H1 H2]. apply Z.eqb_eq in H1, H2. congruence.
  - intros H. inversion H; subst. rewrite !Z.eqb_refl. reflexivity.
Qed.
Lemma existsb_pair (x : Z * Z) l : existsb (pair_eqb x) l = true <-> In x l.
Proof.
  rewrite existsb_exists. split.
  - intros [y [Hy E]]. apply pair_eqb_spec in E. subst. exact Hy.
  - intros H. exists x. split; [exact H | apply pair_eqb_spec; reflexivity].
Qed.
Lemma nodup_b_spec l : nodup_b l = true -> NoDup l.
Proof.
  induction l as [|x l IH]; intros H; [constructor|]. cbn [nodup_b] in H. apply andb_true_iff in H. destruct H as [H1 H2].
  constructor; [|apply IH; exact H2]. intros Hin. apply existsb_pair in Hin. rewrite Hin in H1. discriminate.
Qed.

Lemma NoDup_app_parts {A} (l m : list A) : NoDup (l ++ m) -> NoDup l /\ NoDup m /\ (forall x, In x l -> ~ In x m).
Proof.
  induction l as [|a l IH]; cbn [app]; intros H.
  - split; [constructor | split; [exact H | intros x []]].
  - inversion H as [|? ? Hn Hd]; subst. destruct (IH Hd) as (H1 & H2 & H3). split; [|split].
    + constructor; [|exact H1]. intros Hin. apply Hn. apply in_or_app. left. exact Hin.
    + exact H2.
    + intros x [-> | Hx]; [intros Hm; apply Hn; apply in_or_app; right; exact Hm | apply H3; exact Hx].
Qed.

Lemma he_in_face_spec f u v : he_in_face f u v <> None <-> In (u, v) (face_hes f).
Proof.
  destruct f as [[p q] r]. unfold he_in_face, face_hes. cbn [In].
  destruct ((r =? u) && (p =? v)) eqn:E1; [|destruct ((q =? u) && (r =? v)) eqn:E2; [|destruct ((p =? u) && (q =? v)) eqn:E3]].
  - split; [intros _|discriminate]. right. right. left. f_equal; lia.
  - split; [intros _|discriminate]. right. left. f_equal; lia.
  - split; [intros _|discriminate]. left. f_equal; lia.
  - split; [intros H; contradiction|]. intros [H | [H | [H | []]]]; inversion H; subst; lia.
Qed.

(* direct_face_from on a list whose half-edges are pairwise distinct: the face holding (u, v), if any *)
Lemma direct_face_none F u v i acc :
  (forall f, In f F -> ~ In (u, v) (face_hes f)) -> direct_face_from i F u v acc = acc.
Proof.
  revert i acc. induction F as [|f F IH]; intros i acc H; cbn [direct_face_from]; [reflexivity|].
  destruct (he_in_face f u v) as [[a b]|] eqn:E.
  - exfalso. apply (H f (or_introl eq_refl)). apply he_in_face_spec. rewrite E. discriminate.
  - apply IH. intros g Hg. apply H. right. exact Hg.
Qed.
Lemma direct_face_found F u v : NoDup (flat_map face_hes F) ->
  forall (k : nat) i acc, (k < length F)%nat -> In (u, v) (face_hes (nth k F (0, 0, 0))) ->
  exists a b, direct_face_from i F u v acc = Some (i + Z.of_nat k, a, b).
Proof.
  induction F as [|f F IH]; intros Hn k i acc Hk Hin; [cbn in Hk; lia|].
  cbn [flat_map] in Hn. apply NoDup_app_parts in Hn. destruct Hn as (Hf & HF & Hdis).
  cbn [direct_face_from]. destruct k as [|k].
  - cbn [nth] in Hin. destruct (he_in_face f u v) as [[a b]|] eqn:E.
    + exists a, b. rewrite direct_face_none; [f_equal; f_equal; f_equal; lia|].
      intros g Hg Hing. apply (Hdis (u, v) Hin). apply in_flat_map. exists g. split; assumption.
    + exfalso. apply he_in_face_spec in Hin. apply Hin. exact E.
  - cbn [nth] in Hin. cbn [length] in Hk.
    destruct (IH HF k (i + 1) (match he_in_face f u v with Some (a, b) => Some (i, a, b) | None => acc end)
                ltac:(lia) Hin) as (a & b & Hab).
    exists a, b. rewrite Hab. f_equal. f_equal. f_equal. lia.
Qed.

Lemma classic_face F u v :
  (forall f, In f F -> ~ In (u, v) (face_hes f)) \/
  (exists k, (k < length F)%nat /\ In (u, v) (face_hes (nth k F (0, 0, 0)))).
Proof.
  induction F as [|f F IH].
  - left. intros f [].
  - destruct (he_in_face f u v) eqn:E.
    + right. exists 0%nat. split; [cbn; lia|]. cbn [nth]. apply he_in_face_spec. rewrite E. discriminate.
    + destruct IH as [IH | [k [Hk Hin]]].
      * left. intros g [<- | Hg]; [|apply IH; exact Hg]. intros Hin. apply he_in_face_spec in Hin. apply Hin. exact E.
      * right. exists (S k). split; [cbn; lia | exact Hin].
Qed.

Lemma slot_is_spec F t d : NoDup (flat_map face_hes F) -> (0 <= t < zlen F) ->
  (slot_is F t d = true <-> In d (face_hes (nth (Z.to_nat t) F (0, 0, 0)))).
Proof.
  intros Hn Ht. destruct d as [u v]. unfold slot_is, direct_face_id, direct_face. cbn [fst snd]. unfold zlen in Ht. split.
  - intros H.
    destruct (direct_face_from 0 F u v None) as [[[t' a] b]|] eqn:E; [|discriminate]. apply Z.eqb_eq in H. subst t'.
    (* some face holds (u, v), otherwise the result would be None; it is face t by the other direction *)
    destruct (classic_face F u v) as [Hnone | [k [Hk Hin]]].
    + rewrite direct_face_none in E by exact Hnone. discriminate.
    + destruct (direct_face_found F u v Hn k 0 None Hk Hin) as (a' & b' & E'). rewrite E' in E. inversion E; subst.
      rewrite ?Z.add_0_l, Nat2Z.id. exact Hin.
  - intros Hin. destruct (direct_face_found F u v Hn (Z.to_nat t) 0 None ltac:(lia) Hin) as (a & b & E).
    rewrite E. apply Z.eqb_eq. lia.
Qed.

Lemma nodup_face F k : NoDup (flat_map face_hes F) -> (k < length F)%nat -> NoDup (face_hes (nth k F (0, 0, 0))).
Proof.
  revert k. induction F as [|f F IH]; intros k Hn Hk; [cbn in Hk; lia|].
  cbn [flat_map] in Hn. apply NoDup_app_parts in Hn. destruct Hn as (Hf & HF & _).
  destruct k; cbn [nth]; [exact Hf | apply IH; [exact HF | cbn in Hk; lia]].
Qed.
Lemma face_hes_in F k : (k < length F)%nat -> incl (face_hes (nth k F (0, 0, 0))) (flat_map face_hes F).
Proof.
  intros Hk d Hd. apply in_flat_map. exists (nth k F (0, 0, 0)). split; [apply nth_In; exact Hk | exact Hd].
Qed.

Lemma filter_count {A} (p : A -> bool) (l hs : list A) :
  NoDup l -> NoDup hs -> incl hs l -> (forall d, p d = true <-> In d hs) -> length (filter p l) = length hs.
Proof.
  intros Hl Hh Hi Hp. apply Permutation_length. apply NoDup_Permutation.
  - apply NoDup_filter. exact Hl.
  - exact Hh.
  - intros d. rewrite filter_In. split.
    + intros [_ H]. apply Hp. exact H.
    + intros H. split; [apply Hi; exact H | apply Hp; exact H].
Qed.

Lemma face_hes_length f : length (face_hes f) = 3%nat.
Proof. destruct f as [[p q] r]. reflexivity. Qed.

(* list-level manifoldness implies the fibre condition of the edge-mass theorem *)
Theorem manifold_edge_cover (F : list face) (E : list edge) : surface_manifold_ok F E = true -> edge_cover_ok F E = true.
Proof.
  unfold surface_manifold_ok. intros H. apply andb_true_iff in H. destruct H as [H H3].
  apply andb_true_iff in H. destruct H as [H1 H2].
  apply nodup_b_spec in H1, H2. rewrite forallb_forall in H3.
  unfold edge_cover_ok. apply forallb_forall. intros t Ht. apply In_zrange in Ht. apply Nat.eqb_eq.
  assert (Hk : (Z.to_nat t < length F)%nat) by (unfold zlen in Ht; lia).
  rewrite (filter_count (slot_is F t) (edge_slots E) (face_hes (nth (Z.to_nat t) F (0, 0, 0)))).
  - apply face_hes_length.
  - exact H2.
  - apply nodup_face; assumption.
  - intros d Hd. apply existsb_pair. apply H3. apply (face_hes_in F _ Hk). exact Hd.
  - intros d. apply slot_is_spec; assumption.
Qed.
