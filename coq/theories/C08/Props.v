(* C08 property theorems only: each closed by `exact <lemma>` with Print Assumptions beneath. *)
From Coq Require Import ZArith List Bool Ring.
Require Import MV.C08.Ops MV.C08.Gen MV.C08.Model MV.C08.Proofs_Struct.

(* cotan / uniform vertex Laplacian (laplacian_op.laplacian), any per-face weights: symmetric, zero row sums *)
Theorem C08_sym_rowsum_vertex :
  forall (T : Type) (O : ops T),
    ring_theory (o0 O) (o1 O) (oadd O) (omul O) (osub O) (oopp O) eq ->
    forall (wf : face -> T * T * T) (F : list face),
      symm T O (laplacian_gen O wf F) /\ rs0 T O (laplacian_gen O wf F).
Proof. exact laplacian_gen_sym_rowsum. Qed.
Print Assumptions C08_sym_rowsum_vertex.
