(* C08 property theorems only: each closed by `exact <lemma>` with Print Assumptions beneath.
   T, O : any type with operations satisfying the ring / field laws (Leibniz equality) - instantiated with R in Proofs_Real.
   The definitions lap_*, lape_*, vl_*, tl_*, lapt_*, grad_*, adj_*, v2e_*, v2f_*, mass*_post used by the model are the
   ones the translator regenerates from mouette/operators/*.py on every run. *)
From Coq Require Import String ZArith List Bool Ring Field Reals.
Require Import MV.C08.Ops MV.C08.Gen MV.C08.Model MV.C08.Proofs_Struct MV.C08.Proofs_Dual MV.C08.Proofs_Graph
  MV.C08.Proofs_Geom MV.C08.Proofs_Mass MV.C08.Proofs_Gram MV.C08.Proofs_Real.

(* ---- C08_sym_rowsum: symmetric with zero row sums, for every element list and every weight ---------------------- *)
(* cotan / uniform vertex Laplacian (laplacian_op.laplacian) *)
Theorem C08_sym_rowsum_vertex :
  forall (T : Type) (O : ops T),
    ring_theory (o0 O) (o1 O) (oadd O) (omul O) (osub O) (oopp O) eq ->
    forall (wf : face -> T * T * T) (F : list face),
      symm T O (laplacian_gen O wf F) /\ rs0 T O (laplacian_gen O wf F).
Proof. exact laplacian_gen_sym_rowsum. Qed.
Print Assumptions C08_sym_rowsum_vertex.

(* edge Laplacian (laplacian_op.laplacian_edges), cotan or uniform coefficients, any edge numbering *)
Theorem C08_sym_rowsum_edges :
  forall (T : Type) (O : ops T),
    ring_theory (o0 O) (o1 O) (oadd O) (omul O) (osub O) (oopp O) eq ->
    forall (cf : face -> T * T * T) (E : list edge) (F : list face),
      symm T O (lape_gen O cf E F) /\ rs0 T O (lape_gen O cf E F).
Proof. exact lape_gen_sym_rowsum. Qed.
Print Assumptions C08_sym_rowsum_edges.

(* dual-graph Laplacian N^T D N (laplacian_op.laplacian_triangles), any incidence list, any diagonal D; and N^T N *)
Theorem C08_sym_rowsum_dual :
  forall (T : Type) (O : ops T),
    ring_theory (o0 O) (o1 O) (oadd O) (omul O) (osub O) (oopp O) eq ->
    forall (d : list T) (P : list (Z * Z * Z)),
      (symm T O (lapt_weighted O d P) /\ rs0 T O (lapt_weighted O d P)) /\
      (symm T O (lapt_plain O P) /\ rs0 T O (lapt_plain O P)).
Proof. exact lapt_sym_rowsum. Qed.
Print Assumptions C08_sym_rowsum_dual.

(* volume Laplacian (laplacian_op.volume_laplacian), any edge weights omega *)
Theorem C08_sym_rowsum_volume :
  forall (T : Type) (O : ops T),
    ring_theory (o0 O) (o1 O) (oadd O) (omul O) (osub O) (oopp O) eq ->
    forall (W : list (Z * Z * T)), symm T O (vl_gen O W) /\ rs0 T O (vl_gen O W).
Proof. exact vl_gen_sym_rowsum. Qed.
Print Assumptions C08_sym_rowsum_volume.

(* tetrahedral dual Laplacian (laplacian_op.laplacian_tetrahedra) of a cell list: zero row sums always; symmetric on every
   conforming tetrahedral mesh, stated on the cell list itself (cells_conforming: four distinct vertices per cell, every
   triangular face of a cell in at most one other cell; the batch checker evaluates it on every generated mesh) *)
Theorem C08_sym_rowsum_tetra :
  forall (T : Type) (O : ops T),
    ring_theory (o0 O) (o1 O) (oadd O) (omul O) (osub O) (oopp O) eq ->
    oofZ O 0%Z = o0 O ->
    (forall n : nat, oofZ O (Z.of_nat (S n)) = oadd O (o1 O) (oofZ O (Z.of_nat n))) ->
    forall (C : list cell),
      rs0 T O (laplacian_tetrahedra O C) /\ (cells_conforming C = true -> symm T O (laplacian_tetrahedra O C)).
Proof. exact laplacian_tetrahedra_conforming. Qed.
Print Assumptions C08_sym_rowsum_tetra.

(* ---- C08_stiffness ---------------------------------------------------------------------------------------------- *)
(* cotan Laplacian = independently assembled P1 stiffness matrix, entrywise, for every list of non-degenerate triangles *)
Theorem C08_stiffness :
  forall (T : Type) (O : ops T),
    field_theory (o0 O) (o1 O) (oadd O) (omul O) (osub O) (oopp O) (odiv O) (oinv O) eq ->
    two O <> o0 O ->
    forall (V : list (vec T)) (F : list face),
      (forall f, In f F -> nondeg T O V f) ->
      forall i j, entry O (laplacian_cotan O (cot_simple O) V F) i j = entry O (stiffness O V F) i j.
Proof. exact cotan_laplacian_is_stiffness. Qed.
Print Assumptions C08_stiffness.

(* Re(G^* A G) = L literally for the model's matrices: G = gradient_complex (generated rows), A = diag(face areas),
   products and transposes are the model's sparse mmul / transpose (gag_re = Gre^T A Gre + Gim^T A Gim), for every choice
   of direct orthonormal tangent bases *)
Theorem C08_gram :
  forall (T : Type) (O : ops T),
    field_theory (o0 O) (o1 O) (oadd O) (omul O) (osub O) (oopp O) (odiv O) (oinv O) eq ->
    two O <> o0 O ->
    forall (V : list (vec T)) (F : list face) (bases : list (vec T * vec T)),
      Forall2 (fun f b => nondeg T O V f /\ face_basis_ok T O V f b) F bases ->
      forall i j, entry O (laplacian_cotan O (cot_simple O) V F) i j = entry O (gag_re O V F bases) i j.
Proof. exact cotan_laplacian_is_gag. Qed.
Print Assumptions C08_gram.

(* ---- C08_gradient_affine: G applied to x |-> <a,x> + b0 is (<a,X>, <a,Y>) in each face basis (per face, then for the rows of
   the assembled matrix) *)
Theorem C08_gradient_affine :
  forall (T : Type) (O : ops T),
    field_theory (o0 O) (o1 O) (oadd O) (omul O) (osub O) (oopp O) (odiv O) (oinv O) eq ->
    two O <> o0 O ->
    forall (V : list (vec T)) (iT : Z) (f : face) (b : vec T * vec T) (a : vec T) (b0 : T),
      nondeg T O V f -> face_basis_ok T O V f b ->
      forall fv : Z -> T,
        (let '(p, q, r) := f in
         fv p = oadd O (vdot O a (vnth O V p)) b0 /\ fv q = oadd O (vdot O a (vnth O V q)) b0 /\
         fv r = oadd O (vdot O a (vnth O V r)) b0) ->
        apply_rows T O (grad_face O (grad_complex O) V (iT, (f, b))) fv = (vdot O a (fst b), vdot O a (snd b)).
Proof. exact gradient_affine_face. Qed.
Print Assumptions C08_gradient_affine.

(* row k of the assembled complex gradient matrix (gradient_complex = the model of operators.gradient), as a matrix-vector
   product with the vertex values of an affine function *)
Theorem C08_gradient_affine_matrix :
  forall (T : Type) (O : ops T),
    field_theory (o0 O) (o1 O) (oadd O) (omul O) (osub O) (oopp O) (odiv O) (oinv O) eq ->
    two O <> o0 O ->
    forall (V : list (vec T)) (F : list face) (bases : list (vec T * vec T)) (a : vec T) (b0 : T) (fv : Z -> T)
           (k : Z) (f : face) (b : vec T * vec T),
      In (k, (f, b)) (indexed (combine F bases)) ->
      nondeg T O V f -> face_basis_ok T O V f b ->
      (let '(p, q, r) := f in
       fv p = oadd O (vdot O a (vnth O V p)) b0 /\ fv q = oadd O (vdot O a (vnth O V q)) b0 /\
       fv r = oadd O (vdot O a (vnth O V r)) b0) ->
      mv T O (re_part (gradient_complex O V F bases)) fv k = vdot O a (fst b) /\
      mv T O (im_part (gradient_complex O V F bases)) fv k = vdot O a (snd b).
Proof. exact gradient_matrix_affine. Qed.
Print Assumptions C08_gradient_affine_matrix.

(* the real gradient (as_complex=False) has the same coefficients on rows 2 iT, 2 iT + 1; shape (2|F|, |V|) *)
Theorem C08_gradient_real_rows :
  forall (T : Type) (O : ops T) (iT A B C : Z) (xA yA xB yB xC yC aT : T),
    grad_real O iT A B C xA yA xB yB xC yC aT =
    flat_map (fun r : Z * Z * (T * T) => let '(t, v, (re, im)) := r in ((2 * t)%Z, v, re) :: ((2 * t + 1)%Z, v, im) :: nil)
             (grad_complex O iT A B C xA yA xB yB xC yC aT)
    /\ grad_real_nrows = (fun M => (M * 2)%Z) /\ (forall M N : Z, grad_shape M N = (M, N)).
Proof. exact grad_real_is_complex. Qed.
Print Assumptions C08_gradient_real_rows.

(* ---- C08_mass ---------------------------------------------------------------------------------------------------- *)
Theorem C08_mass :
  forall (T : Type) (O : ops T),
    ring_theory (o0 O) (o1 O) (oadd O) (omul O) (osub O) (oopp O) eq ->
    (forall (d : list T) i j, i <> j -> entry O (diag d) i j = o0 O) /\
    (forall inv sq n V F, mass_vertices O inv sq n V F = diag (map (massv_post O inv sq) (vertex_acc O n F (areas O V F)))) /\
    (forall inv sq x, massv_post O inv sq x =
         let y := if sq then osqrt O x else x in if inv then odiv O (o1 O) y else y) /\
    (forall inv x, massf_post O inv x = if inv then odiv O (o1 O) x else x) /\
    (forall inv x, masse_post O inv x = if inv then odiv O (o1 O) x else x) /\
    (forall inv sq x, massvv_post O inv sq x = let y := if sq then osqrt O x else x in if inv then odiv O (o1 O) y else y) /\
    (forall inv sq x, massvc_post O inv sq x = let y := if sq then osqrt O x else x in if inv then odiv O (o1 O) y else y) /\
    (forall n V F, faces_in_range n F ->
        total O (mass_vertices O false false n V F) = omul O (three O) (sumT O (areas O V F))) /\
    (forall V F, total O (mass_faces O false V F) = sumT O (areas O V F)).
Proof. exact mass_matrices_diagonal_totals. Qed.
Print Assumptions C08_mass.

(* area_weight_matrix_edges sums to the total area on every oriented manifold surface with a consistent edge list, stated on
   the lists themselves (surface_manifold_ok: no half-edge in two faces, stored edges pairwise distinct in both directions,
   every side of every face stored; the batch checker evaluates it on every generated mesh) *)
Theorem C08_mass_edges :
  forall (T : Type) (O : ops T),
    field_theory (o0 O) (o1 O) (oadd O) (omul O) (osub O) (oopp O) (odiv O) (oinv O) eq ->
    three O <> o0 O ->
    forall (V : list (vec T)) (F : list face) (E : list edge),
      surface_manifold_ok F E = true -> total O (mass_edges O false V F E) = sumT O (areas O V F).
Proof. exact edge_mass_total_manifold. Qed.
Print Assumptions C08_mass_edges.

(* tetrahedral meshes: vertex volumes sum to 4 x the total volume, cell volumes to the total volume *)
Theorem C08_mass_volume :
  forall (T : Type) (O : ops T),
    ring_theory (o0 O) (o1 O) (oadd O) (omul O) (osub O) (oopp O) eq ->
    (forall n V C, cells_in_range n C ->
        total O (mass_vol_vertices O false false n V C) = omul O (omul O (two O) (two O)) (sumT O (cell_volumes O V C))) /\
    (forall V C, total O (mass_vol_cells O false false V C) = sumT O (cell_volumes O V C)).
Proof. exact volume_mass_totals. Qed.
Print Assumptions C08_mass_volume.

(* the weights and shapes the property fixes: area/3 per adjacent face on an edge, whole area / volume per incident vertex,
   1/len(face) in the vertex-to-face operator; |V| x |V| Laplacians and adjacency, |V| x |E| vertex-edge operator,
   |F| x |V| vertex-face operator (the code's orientation; its docstring says |V| x |F|) *)
Theorem C08_documented_weights_shapes :
  forall (T : Type) (O : ops T),
    (forall a : T, mass_edge_share O a = odiv O a (three O)) /\
    (forall a : T, massv_contrib a = a) /\ (forall a : T, massvv_contrib a = a) /\
    (forall l : T, v2f_weight O l = odiv O (o1 O) l) /\
    (forall n : Z, lap_shape n = (n, n)) /\ (forall m : Z, lape_shape m = (m, m)) /\ (forall n m : Z, gl_shape n m = (n, n)) /\
    (forall n m : Z, adj_shape n m = (n, n)) /\ (forall n m : Z, v2e_shape n m = (n, m)) /\
    (forall n m : Z, v2f_shape n m = (m, n)).
Proof. exact documented_weights_shapes. Qed.
Print Assumptions C08_documented_weights_shapes.

(* option defaults and positional parameter order of the operators, as documented (restatement of generated facts: the driver
   calls every operator with options omitted / positional / by keyword and flags as bool / int / numpy.bool_) *)
Theorem C08_documented_signatures :
  dflt_laplacian_cotan = true /\ dflt_cotan_edge_diagonal_inverse = true /\ dflt_laplacian_triangles_cotan = true /\
  dflt_laplacian_edges_cotan = true /\ dflt_gradient_as_complex = true /\
  dflt_area_weight_matrix_inverse = false /\ dflt_area_weight_matrix_sqrt = false /\
  dflt_area_weight_matrix_faces_inverse = false /\ dflt_area_weight_matrix_edges_inverse = false /\
  dflt_volume_weight_matrix_inverse = false /\ dflt_volume_weight_matrix_sqrt = false /\
  dflt_volume_weight_matrix_cells_inverse = false /\ dflt_volume_weight_matrix_cells_sqrt = false /\
  dflt_adjacency_matrix_weights = "one"%string /\ dflt_vertex_to_edge_operator_oriented = false /\
  params_laplacian = ("mesh" :: "cotan" :: "connection" :: "order" :: nil)%string /\
  params_cotan_edge_diagonal = ("mesh" :: "inverse" :: nil)%string /\
  params_laplacian_triangles = ("mesh" :: "cotan" :: "connection" :: "order" :: nil)%string /\
  params_laplacian_edges = ("mesh" :: "cotan" :: "connection" :: "order" :: nil)%string /\
  params_gradient = ("mesh" :: "conn" :: "as_complex" :: nil)%string /\
  params_area_weight_matrix = ("mesh" :: "inverse" :: "sqrt" :: "format" :: nil)%string /\
  params_area_weight_matrix_faces = ("mesh" :: "inverse" :: "format" :: nil)%string /\
  params_area_weight_matrix_edges = ("mesh" :: "inverse" :: nil)%string /\
  params_volume_weight_matrix = ("mesh" :: "inverse" :: "sqrt" :: "format" :: nil)%string /\
  params_volume_weight_matrix_cells = ("mesh" :: "inverse" :: "sqrt" :: "format" :: nil)%string /\
  params_adjacency_matrix = ("mesh" :: "weights" :: nil)%string /\ params_vertex_to_edge_operator = ("mesh" :: "oriented" :: nil)%string.
Proof. exact documented_signatures. Qed.
Print Assumptions C08_documented_signatures.

(* ---- C08_graph --------------------------------------------------------------------------------------------------- *)
Theorem C08_graph_laplacian :
  forall (T : Type) (O : ops T),
    ring_theory (o0 O) (o1 O) (oadd O) (omul O) (osub O) (oopp O) eq ->
    oofZ O 0%Z = o0 O ->
    forall (n : Z) (E : list edge), edges_in_range n E ->
      forall i j,
        entry O (graph_laplacian O n E) i j =
        osub O (if (i =? j)%Z then ofnat O (length (nbrs E i)) else o0 O) (entry O (adjacency (w_one O E) E) i j).
Proof. exact graph_laplacian_degree_adjacency. Qed.
Print Assumptions C08_graph_laplacian.

Theorem C08_incidence_patterns :
  forall (T : Type) (O : ops T),
    (forall (w : list (T * T)) (E : list edge),
       adjacency w E =
       flat_map (fun t : Z * (edge * (T * T)) => let '(e, ((a, b), (v0, v1))) := t in (a, b, v0) :: (b, a, v1) :: nil)
                (indexed (combine E w))
       /\ adj_vals_one O = (o1 O, o1 O) /\ (forall d : T, adj_vals_length d = (d, d)) /\ (forall x : T, adj_vals_custom x = (x, x))) /\
    (forall (oriented : bool) (E : list edge),
       vertex_to_edge O oriented E =
       flat_map (fun t : Z * edge => let '(e, (a, b)) := t in
                   (a, e, if oriented then oopp O (o1 O) else o1 O) :: (b, e, o1 O) :: nil) (indexed E)) /\
    (forall F : list face,
       vertex_to_face O F =
       flat_map (fun t : Z * face => let '(iT, (p, q, r)) := t in
                   let w := odiv O (o1 O) (ofnat O 3) in (iT, p, w) :: (iT, q, w) :: (iT, r, w) :: nil) (indexed F)).
Proof. exact incidence_patterns. Qed.
Print Assumptions C08_incidence_patterns.

(* ---- over the reals: the model of the code as it is (geometry.cotan, geometry.face_basis through SurfaceConnectionFaces) -- *)
(* a face is non-degenerate over R as soon as its three vertex indices are distinct and its normal is not the zero vector *)
Theorem C08_real_nondeg :
  forall (V : list (vec R)) (p q r : Z),
    p <> q -> q <> r -> r <> p ->
    vcross Rops (vsub Rops (vnth Rops V q) (vnth Rops V p)) (vsub Rops (vnth Rops V r) (vnth Rops V p)) <> (0, 0, 0)%R ->
    nondeg R Rops V (p, q, r).
Proof. exact nondeg_R. Qed.
Print Assumptions C08_real_nondeg.

(* cotan Laplacian with the code's cotangent = stiffness matrix = Re(G^* A G) with the code's face bases *)
Theorem C08_real_laplacian :
  forall (V : list (vec R)) (F : list face),
    (forall f, In f F -> nondeg R Rops V f) ->
    forall i j,
      entry Rops (laplacian_cotan Rops (cot_code Rops) V F) i j = entry Rops (stiffness Rops V F) i j /\
      entry Rops (laplacian_cotan Rops (cot_code Rops) V F) i j = entry Rops (gag_re Rops V F (conn_bases Rops V F)) i j.
Proof. exact real_cotan_laplacian. Qed.
Print Assumptions C08_real_laplacian.

Theorem C08_real_gradient_affine :
  forall (V : list (vec R)) (F : list face) (iT : Z) (f : face) (a : vec R) (b0 : R),
    nondeg R Rops V f ->
    let b := (let '(pa, pb, pc) := conn_face F f in
              let '(X, Y, _) := face_basis Rops (vnth Rops V pa) (vnth Rops V pb) (vnth Rops V pc) in (X, Y)) in
    forall fv : Z -> R,
      (let '(p, q, r) := f in
       fv p = (vdot Rops a (vnth Rops V p) + b0)%R /\ fv q = (vdot Rops a (vnth Rops V q) + b0)%R /\
       fv r = (vdot Rops a (vnth Rops V r) + b0)%R) ->
      apply_rows R Rops (grad_face Rops (grad_complex Rops) V (iT, (f, b))) fv = (vdot Rops a (fst b), vdot Rops a (snd b)).
Proof. exact real_gradient_affine. Qed.
Print Assumptions C08_real_gradient_affine.

(* face areas and vertex masses are positive on a non-degenerate mesh in which every vertex lies in a face *)
Theorem C08_real_mass_positive :
  forall (V : list (vec R)) (F : list face) (n : Z),
    (forall f, In f F -> nondeg R Rops V f) ->
    (forall u, (0 <= u < n)%Z -> exists p q r, In (p, q, r) F /\ (u = p \/ u = q \/ u = r)) ->
    Forall (fun x => (0 < x)%R) (areas Rops V F) /\
    Forall (fun x => (0 < x)%R) (vertex_acc Rops n F (areas Rops V F)).
Proof. exact real_mass_positive. Qed.
Print Assumptions C08_real_mass_positive.

(* edge masses are positive on every edge that bounds a face *)
Theorem C08_real_edge_mass_positive :
  forall (V : list (vec R)) (F : list face) (E : list edge),
    (forall f, In f F -> nondeg R Rops V f) ->
    Forall2 (fun e x => has_face F e -> (0 < x)%R) E (edge_acc Rops F (areas Rops V F) E).
Proof. exact real_edge_mass_positive. Qed.
Print Assumptions C08_real_edge_mass_positive.

(* tetrahedral meshes: cell volumes and vertex volumes are positive when no cell is flat and every vertex lies in a cell *)
Theorem C08_real_volume_mass_positive :
  forall (V : list (vec R)) (C : list cell) (n : Z),
    (forall c, In c C -> cell_nondeg V c) ->
    (forall u, (0 <= u < n)%Z -> exists c, In c C /\ In u (cell_list c)) ->
    Forall (fun x => (0 < x)%R) (cell_volumes Rops V C) /\
    Forall (fun x => (0 < x)%R) (vol_vertex_acc Rops n C (cell_volumes Rops V C)).
Proof. exact real_volume_mass_positive. Qed.
Print Assumptions C08_real_volume_mass_positive.

(* the inverse / sqrt options (generated post-processing chains) keep every positive diagonal entry positive *)
Theorem C08_real_mass_options_positive :
  forall x : R, (0 < x)%R ->
    (forall inv sq, (0 < massv_post Rops inv sq x)%R) /\ (forall inv, (0 < massf_post Rops inv x)%R) /\
    (forall inv, (0 < masse_post Rops inv x)%R) /\ (forall inv sq, (0 < massvv_post Rops inv sq x)%R) /\
    (forall inv sq, (0 < massvc_post Rops inv sq x)%R).
Proof. exact real_mass_options_positive. Qed.
Print Assumptions C08_real_mass_options_positive.
