(* C08 - from list-level conformity of a tetrahedral mesh (cells_conforming: four distinct vertices per cell, every triangular
   face in at most one other cell) to the symmetry of connectivity.cell_to_cell as the model computes it (cell_adjacency_ok),
   which the tetrahedral dual Laplacian's symmetry needs.  Pure list reasoning, closed under the global context. *)
From Coq Require Import ZArith List Bool Lia ZifyBool Arith Permutation.
Import ListNotations.
Require Import MV.Lib.Base MV.C08.Ops MV.C08.Gen MV.C08.Model.
Open Scope Z_scope.

Definition dcell : cell := (0, 0, 0, 0).

Lemma cell_nbrs_eq C ic :
  cell_nbrs C ic =
  flat_map (fun i => match rev (filter (face_in_cell (drop_nth (cell_list (znth C ic dcell)) i) ic) (indexed C)) with
                     | (j, _) :: _ => [j] | [] => [] end) [0%nat; 1%nat; 2%nat; 3%nat].
Proof. reflexivity. Qed.

(* ---- indexed *)
Lemma indexed_from_In {A} (l : list A) (d : A) k0 k x :
  In (k, x) (indexed_from k0 l) <-> (k0 <= k < k0 + zlen l) /\ nth (Z.to_nat (k - k0)) l d = x.
Proof.
  revert k0. induction l as [|a l IH]; intros k0; unfold zlen in *; cbn [indexed_from length In].
  - split; [intros [] | intros [H _]; lia].
  - rewrite IH. split.
    + intros [H | [H1 H2]].
      * inversion H; subst. split; [lia|]. replace (k - k)%Z with 0 by lia. reflexivity.
      * split; [lia|]. replace (Z.to_nat (k - k0)) with (S (Z.to_nat (k - (k0 + 1)))) by lia. exact H2.
    + intros [H1 H2]. destruct (Z.eq_dec k k0) as [-> | Hne].
      * left. replace (k0 - k0)%Z with 0 in H2 by lia. cbn in H2. subst. reflexivity.
      * right. split; [lia|]. replace (Z.to_nat (k - k0)) with (S (Z.to_nat (k - (k0 + 1)))) in H2 by lia. exact H2.
Qed.
Lemma indexed_In C k c : In (k, c) (indexed C) <-> (0 <= k < zlen C) /\ znth C k dcell = c.
Proof.
  unfold indexed. rewrite (indexed_from_In C dcell 0 k c). unfold znth.
  split; intros [H1 H2]; (split; [lia|]); destruct (k <? 0) eqn:Q; try lia; rewrite Z.sub_0_r in *; exact H2.
Qed.

(* ---- the neighbour through one face, when at most one other cell holds it *)
Definition pick (l : list (Z * cell)) : list Z := match rev l with (j, _) :: _ => [j] | [] => [] end.

Lemma pick_count C P b :
  (length (filter P (indexed C)) <= 1)%nat -> (0 <= b < zlen C) ->
  count_occ Z.eq_dec (pick (filter P (indexed C))) b = if P (b, znth C b dcell) then 1%nat else 0%nat.
Proof.
  intros Hlen Hb. unfold pick.
  assert (Hin : In (b, znth C b dcell) (indexed C)) by (apply indexed_In; split; [exact Hb | reflexivity]).
  destruct (P (b, znth C b dcell)) eqn:E.
  - assert (Hf : In (b, znth C b dcell) (filter P (indexed C))) by (apply filter_In; split; assumption).
    destruct (filter P (indexed C)) as [|x [|y l]] eqn:Q; [destruct Hf | | cbn in Hlen; lia].
    destruct Hf as [-> | []]. cbn. destruct (Z.eq_dec b b); [reflexivity | contradiction].
  - destruct (filter P (indexed C)) as [|x [|y l]] eqn:Q; [reflexivity | | cbn in Hlen; lia].
    cbn. destruct x as [j c]. cbn. destruct (Z.eq_dec j b) as [-> | Hne]; [|reflexivity].
    exfalso. assert (Hx : In (b, c) (filter P (indexed C))) by (rewrite Q; left; reflexivity).
    apply filter_In in Hx. destruct Hx as [Hx1 Hx2]. apply indexed_In in Hx1. destruct Hx1 as [_ Hx1]. subst c. congruence.
Qed.
Lemma pick_in C P j : In j (pick (filter P (indexed C))) -> (0 <= j < zlen C).
Proof.
  unfold pick. destruct (rev (filter P (indexed C))) as [|[j' c] l] eqn:Q; [intros []|].
  intros [<- | []]. assert (H : In (j', c) (rev (filter P (indexed C)))) by (rewrite Q; left; reflexivity).
  apply in_rev in H. apply filter_In in H. destruct H as [H _]. apply indexed_In in H. tauto.
Qed.

(* ---- how many faces of a lie in b: a function of the number of common vertices *)
Definition sub3 (a b : list Z) (i : nat) : bool := forallb (fun x => zmem x b) (drop_nth a i).
Definition nside (a b : list Z) : nat := length (filter (sub3 a b) [0%nat; 1%nat; 2%nat; 3%nat]).
Definition common (a b : list Z) : nat := length (filter (fun x => zmem x b) a).

Lemma nside_common a0 a1 a2 a3 b :
  nside [a0; a1; a2; a3] b =
  match common [a0; a1; a2; a3] b with 4%nat => 4%nat | 3%nat => 1%nat | _ => 0%nat end.
Proof.
  unfold nside, common, sub3, drop_nth. cbn [filter firstn skipn app forallb length].
  destruct (zmem a0 b), (zmem a1 b), (zmem a2 b), (zmem a3 b); reflexivity.
Qed.

Lemma zmem_In x l : zmem x l = true <-> In x l.
Proof.
  unfold zmem. rewrite existsb_exists. split.
  - intros [y [Hy E]]. apply Z.eqb_eq in E. subst. exact Hy.
  - intros H. exists x. split; [exact H | apply Z.eqb_refl].
Qed.
Lemma nodup_z_spec l : nodup_z l = true -> NoDup l.
Proof.
  induction l as [|x l IH]; intros H; [constructor|]. cbn [nodup_z] in H. apply andb_true_iff in H. destruct H as [H1 H2].
  constructor; [|apply IH; exact H2]. intros Hin. apply zmem_In in Hin. rewrite Hin in H1. discriminate.
Qed.
Lemma common_sym a b : NoDup a -> NoDup b -> common a b = common b a.
Proof.
  intros Ha Hb. unfold common. apply Permutation_length. apply NoDup_Permutation; try (apply NoDup_filter; assumption).
  intros x. rewrite !filter_In, !zmem_In. tauto.
Qed.
Lemma nside_sym a b : length a = 4%nat -> length b = 4%nat -> NoDup a -> NoDup b -> nside a b = nside b a.
Proof.
  intros La Lb Ha Hb.
  destruct a as [|a0 [|a1 [|a2 [|a3 [|? ?]]]]]; try discriminate.
  destruct b as [|b0 [|b1 [|b2 [|b3 [|? ?]]]]]; try discriminate.
  rewrite !nside_common. rewrite (common_sym _ _ Ha Hb). reflexivity.
Qed.

Lemma cell_list_length c : length (cell_list c) = 4%nat.
Proof. destruct c as [[[a b] c1] d]. reflexivity. Qed.

(* count of b among the neighbours of a = number of faces of a lying in b *)
Lemma nbrs_count C a b : cells_conforming C = true -> (0 <= a < zlen C) -> (0 <= b < zlen C) -> a <> b ->
  count_occ Z.eq_dec (cell_nbrs C a) b = nside (cell_list (znth C a dcell)) (cell_list (znth C b dcell)).
Proof.
  intros Hc Ha Hb Hab. unfold cells_conforming in Hc. rewrite forallb_forall in Hc.
  assert (Hina : In (a, znth C a dcell) (indexed C)) by (apply indexed_In; split; [exact Ha | reflexivity]).
  specialize (Hc _ Hina). cbn beta iota in Hc. apply andb_true_iff in Hc. destruct Hc as [_ Hc].
  rewrite forallb_forall in Hc.
  rewrite cell_nbrs_eq. unfold nside.
  set (ca := cell_list (znth C a dcell)) in *. set (cb := cell_list (znth C b dcell)).
  assert (G : forall l : list nat, (forall i, In i l -> In i [0%nat; 1%nat; 2%nat; 3%nat]) ->
     count_occ Z.eq_dec (flat_map (fun i => pick (filter (face_in_cell (drop_nth ca i) a) (indexed C))) l) b =
     length (filter (sub3 ca cb) l)).
  { induction l as [|i l IH]; intros Hl; cbn [flat_map filter]; [reflexivity|].
    rewrite count_occ_app. rewrite IH by (intros j Hj; apply Hl; right; exact Hj).
    rewrite pick_count; [| apply Nat.leb_le; apply Hc; apply Hl; left; reflexivity | exact Hb].
    unfold face_in_cell at 1. cbn [fst snd]. fold cb.
    assert (E : (b =? a) = false) by (apply Z.eqb_neq; congruence). rewrite E. cbn [negb andb].
    unfold sub3. destruct (forallb (fun x : Z => zmem x cb) (drop_nth ca i)); cbn [length]; lia. }
  apply G. auto.
Qed.

Theorem conforming_adjacency (C : list cell) : cells_conforming C = true -> cell_adjacency_ok C = true.
Proof.
  intros Hc. unfold cell_adjacency_ok. apply forallb_forall. intros a Ha. apply In_zrange in Ha.
  apply andb_true_iff. split.
  - apply forallb_forall. intros b Hb. apply In_zrange in Hb. apply Nat.eqb_eq.
    destruct (Z.eq_dec a b) as [-> | Hab]; [reflexivity|].
    rewrite (nbrs_count C a b Hc Ha Hb Hab), (nbrs_count C b a Hc Hb Ha ltac:(congruence)).
    apply nside_sym; try apply cell_list_length; apply nodup_z_spec.
    + unfold cells_conforming in Hc. rewrite forallb_forall in Hc.
      specialize (Hc (a, znth C a dcell) ltac:(apply indexed_In; split; [exact Ha | reflexivity])).
      cbn beta iota in Hc. apply andb_true_iff in Hc. tauto.
    + unfold cells_conforming in Hc. rewrite forallb_forall in Hc.
      specialize (Hc (b, znth C b dcell) ltac:(apply indexed_In; split; [exact Hb | reflexivity])).
      cbn beta iota in Hc. apply andb_true_iff in Hc. tauto.
  - apply forallb_forall. intros j Hj. rewrite cell_nbrs_eq in Hj. apply in_flat_map in Hj.
    destruct Hj as [i [_ Hj]]. apply pick_in in Hj. lia.
Qed.
