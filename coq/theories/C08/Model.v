(* C08 - executable model of mouette/operators/{laplacian_op,gradient_op,mass,adjacency}.py and of the face bases of
   mouette/processing/connection.py, over a bare record of numeric operations (Ops.v).  The (row, col, value)
   patterns, the weights and the index formulas come from Gen.v, which the translator regenerates from the
   source on every run.  No proofs in this file.

   Inputs: vertex coordinates, the face list (triangles) / cell list (tetrahedra) and the edge list AS STORED BY THE
   MESH (edge numbering is C02's business; the batch checker verifies that the list is duplicate-free, without
   self-loops and contains every face/cell edge). *)
From Coq Require Import ZArith List Bool.
Import ListNotations.
Require Import MV.Lib.Base MV.C08.Ops MV.C08.Gen.
Open Scope Z_scope.

Definition face := (Z * Z * Z)%type.
Definition cell := (Z * Z * Z * Z)%type.
Definition edge := (Z * Z)%type.

Fixpoint indexed_from {A} (i : Z) (l : list A) : list (Z * A) :=
  match l with [] => [] | x :: r => (i, x) :: indexed_from (i + 1) r end.
Definition indexed {A} (l : list A) : list (Z * A) := indexed_from 0 l.
Definition zlen {A} (l : list A) : Z := Z.of_nat (length l).

(* ------------------------------------------------------------------ connectivity read off the lists *)
Definition fnth (f : face) (k : Z) : Z :=
  let '(p, q, r) := f in if k =? 0 then p else if k =? 1 then q else r.

(* SurfaceMesh._Connectivity._half_edges: (P, Pnext) -> face, local indices *)
Definition he_in_face (f : face) (u v : Z) : option (Z * Z) :=
  let '(p, q, r) := f in
  if (r =? u) && (p =? v) then Some (2, 0)
  else if (q =? u) && (r =? v) then Some (1, 2)
  else if (p =? u) && (q =? v) then Some (0, 1) else None.

Fixpoint direct_face_from (i : Z) (F : list face) (u v : Z) (acc : option (Z * Z * Z)) : option (Z * Z * Z) :=
  match F with
  | [] => acc
  | f :: r => direct_face_from (i + 1) r u v
                (match he_in_face f u v with Some (a, b) => Some (i, a, b) | None => acc end)
  end.
(* connectivity.direct_face(u, v, True): the (last) face holding the half-edge u -> v *)
Definition direct_face (F : list face) (u v : Z) : option (Z * Z * Z) := direct_face_from 0 F u v None.
Definition direct_face_id (F : list face) (u v : Z) : option Z :=
  match direct_face F u v with Some (t, _, _) => Some t | None => None end.

Fixpoint edge_id_from (i : Z) (E : list edge) (u v : Z) (acc : Z) : Z :=
  match E with
  | [] => acc
  | (a, b) :: r => edge_id_from (i + 1) r u v
                     (if ((a =? u) && (b =? v)) || ((a =? v) && (b =? u)) then i else acc)
  end.
(* connectivity.edge_id (None is rendered -1: never a valid index) *)
Definition edge_id (E : list edge) (u v : Z) : Z := edge_id_from 0 E u v (-1).

(* connectivity.vertex_to_vertices as a multiset (the code stores a set; equal for duplicate-free edge lists) *)
Definition nbrs (E : list edge) (l : Z) : list Z :=
  flat_map (fun e : edge => let '(a, b) := e in if a =? l then [b] else if b =? l then [a] else []) E.

Definition is_border (F : list face) (u v : Z) : bool :=
  match direct_face F u v, direct_face F v u with Some _, Some _ => false | _, _ => true end.

Section Model.
Context {T : Type} (O : ops T).
Notation vec := (vec T).
Notation mat := (mat T).

Definition vnth (V : list vec) (i : Z) : vec := znth V i (vzero O).
Definition ofnat (n : nat) : T := oofZ O (Z.of_nat n).

(* ------------------------------------------------------------------ geometry (mouette.geometry, attributes) *)
(* geometry.cotan(A, B, C): cotangent of the angle at B, as the code computes it *)
Definition cot_code (A B C : vec) : T :=
  let BA := vnormalized O (vsub O A B) in
  let BC := vnormalized O (vsub O C B) in
  odiv O (vdot O BA BC) (vnorm O (vcross O BA BC)).
(* the textbook form <u,v>/|u x v| (equal to cot_code over the reals for non-degenerate corners: Proofs) *)
Definition cot_simple (A B C : vec) : T :=
  let u := vsub O A B in let v := vsub O C B in
  odiv O (vdot O u v) (vnorm O (vcross O u v)).

(* geometry.triangle_area *)
Definition tri_area (A B C : vec) : T := odiv O (vnorm O (vcross O (vsub O B A) (vsub O C A))) (two O).
(* geometry.face_basis *)
Definition face_basis (pA pB pC : vec) : vec * vec * vec :=
  let X := vnormalized O (vsub O pB pA) in
  let Z := vnormalized O (vcross O X (vsub O pC pA)) in
  let Y := vnormalized O (vcross O Z X) in
  (X, Y, Z).
(* geometry.det_3x3 of the rows A, B, C (rule of Sarrus) *)
Definition det3 (A B C : vec) : T :=
  let '(a0, a1, a2) := A in let '(b0, b1, b2) := B in let '(c0, c1, c2) := C in
  let m := omul O in
  osub O (osub O (osub O (oadd O (oadd O (m (m a0 b1) c2) (m (m a1 b2) c0)) (m (m a2 b0) c1))
                         (m (m a0 b2) c1)) (m (m a1 b0) c2)) (m (m a2 b1) c0).
(* attributes.cell_volume *)
Definition cell_volume (pA pB pC pD : vec) : T :=
  odiv O (oabs O (det3 (vsub O pA pD) (vsub O pB pD) (vsub O pC pD))) (six O).

Section WithCot.
Variable cotf : vec -> vec -> vec -> T.

(* attributes.cotangent: the three corner cotangents of a face, in corner order *)
Definition face_cots (V : list vec) (f : face) : T * T * T :=
  let '(p, q, r) := f in
  let pA := vnth V p in let pB := vnth V q in let pC := vnth V r in
  (cotf pC pA pB, cotf pA pB pC, cotf pB pC pA).
(* cot[connectivity.vertex_to_corner_in_face(v, iT)] (dict: the last corner of v in the face wins) *)
Definition corner_cot (f : face) (cs : T * T * T) (v : Z) : T :=
  let '(p, q, r) := f in let '(c0, c1, c2) := cs in
  if v =? r then c2 else if v =? q then c1 else c0.

(* ------------------------------------------------------------------ laplacian_op.laplacian *)
Definition laplacian_tri (w : T * T * T) (f : face) : mat :=
  let '(p, q, r) := f in let '(a, b, c) := w in
  flat_map (fun t : Z * Z * T => let '(i, j, v) := t in lap_coeffs O i j v) (lap_edges p q r a b c).
Definition laplacian_gen (wf : face -> T * T * T) (F : list face) : mat :=
  flat_map (fun f => laplacian_tri (wf f) f) F.
Definition w_cotan (V : list vec) (f : face) : T * T * T :=
  let '(p, q, r) := f in lap_w_cotan O (corner_cot f (face_cots V f)) p q r.
Definition laplacian_cotan (V : list vec) (F : list face) : mat := laplacian_gen (w_cotan V) F.
Definition laplacian_uniform (F : list face) : mat := laplacian_gen (fun _ => lap_w_uniform O) F.

(* ------------------------------------------------------------------ laplacian_op.cotan_edge_diagonal *)
Definition ced_side (opp : Z -> Z -> Z) (V : list vec) (F : list face) (a b : Z) : T :=
  match direct_face F a b with
  | None => o0 O
  | Some (t, ia, ib) =>   (* direct_face(a, b, True) = (face, local index of a, local index of b) *)
      let f := znth F t (0, 0, 0) in
      corner_cot f (face_cots V f) (fnth f (opp ia ib))
  end.
Definition ced_coeffs (inverse : bool) (V : list vec) (F : list face) (E : list edge) : list T :=
  map (fun e : edge => let '(u, v) := e in
         let c1 := ced_side ced_opp1 V F u v in let c2 := ced_side ced_opp2 V F v u in
         if inverse then ced_coeff_inverse O c1 c2 else ced_coeff_direct O c1 c2) E.
Definition cotan_edge_diagonal (inverse : bool) V F E : mat := diag (ced_coeffs inverse V F E).

(* ------------------------------------------------------------------ laplacian_op.laplacian_edges *)
Definition lape_corner (E : list edge) (prevV curV nextV : Z) (coeff : T) : mat :=
  let '(e1, e2) := lape_e1e2 (edge_id E) prevV curV nextV in lape_coeffs O e1 e2 coeff.
Definition lape_gen (cf : face -> T * T * T) (E : list edge) (F : list face) : mat :=
  flat_map (fun f : face => let '(p, q, r) := f in let '(k0, k1, k2) := cf f in
              lape_corner E r p q k0 ++ lape_corner E p q r k1 ++ lape_corner E q r p k2) F.
Definition laplacian_edges_cotan (V : list vec) (E : list edge) (F : list face) : mat :=
  lape_gen (fun f => let '(c0, c1, c2) := face_cots V f in
                     (lape_coeff_cotan O c0, lape_coeff_cotan O c1, lape_coeff_cotan O c2)) E F.
Definition laplacian_edges_uniform (E : list edge) (F : list face) : mat :=
  lape_gen (fun _ => (lape_coeff_uniform O, lape_coeff_uniform O, lape_coeff_uniform O)) E F.

End WithCot.

(* ------------------------------------------------------------------ laplacian_op.graph_laplacian *)
Definition graph_laplacian (n : Z) (E : list edge) : mat :=
  flat_map (fun l => let adj := nbrs E l in
              gl_diag l (ofnat (length adj)) :: map (fun b => gl_off O l b) adj) (zrange n).

(* ------------------------------------------------------------------ laplacian_op.laplacian_triangles *)
(* for every edge with a face on both sides: (edge id, direct face, indirect face) *)
Definition dual_pairs (F : list face) (E : list edge) : list (Z * Z * Z) :=
  flat_map (fun ie : Z * edge => let '(i, (u, v)) := ie in
     match direct_face_id F u v, direct_face_id F v u with
     | Some t1, Some t2 => [(i, t1, t2)]
     | _, _ => []
     end) (indexed E).
Definition nabla (P : list (Z * Z * Z)) : mat :=
  flat_map (fun t : Z * Z * Z => let '(ie, t1, t2) := t in lapt_nabla O ie t1 t2) P.
(* Nabla^T . diag(d) . Nabla   and   Nabla^T . Nabla *)
Definition lapt_weighted (d : list T) (P : list (Z * Z * Z)) : mat :=
  mmul O (transpose (nabla P)) (mmul O (diag d) (nabla P)).
Definition lapt_plain (P : list (Z * Z * Z)) : mat := mmul O (transpose (nabla P)) (nabla P).

(* ------------------------------------------------------------------ connection.py: face bases *)
(* SurfaceConnectionFaces._initialize: rotate the face so that its first border edge comes first *)
Definition conn_face (F : list face) (f : face) : face :=
  let '(A, B, C) := f in
  if is_border F A B then (A, B, C) else if is_border F B C then (B, C, A)
  else if is_border F C A then (C, A, B) else (A, B, C).
Definition conn_bases (V : list vec) (F : list face) : list (vec * vec) :=
  map (fun f => let '(a, b, c) := conn_face F f in
                let '(X, Y, _) := face_basis (vnth V a) (vnth V b) (vnth V c) in (X, Y)) F.
(* FlatConnectionFaces: the canonical basis, Y flipped when the first face points down *)
Definition flat_bases (V : list vec) (F : list face) : list (vec * vec) :=
  let X := (o1 O, o0 O, o0 O) in
  let Yp := (o0 O, o1 O, o0 O) in
  let Y := match F with
           | [] => Yp
           | (a, b, c) :: _ =>
               let '(_, _, (_, _, nz)) := face_basis (vnth V a) (vnth V b) (vnth V c) in
               if oltb O nz (o0 O) then (o0 O, oopp O (o1 O), o0 O) else Yp
           end in
  map (fun _ => (X, Y)) F.

(* ------------------------------------------------------------------ gradient_op.gradient *)
Definition areas (V : list vec) (F : list face) : list T :=
  map (fun f : face => let '(p, q, r) := f in tri_area (vnth V p) (vnth V q) (vnth V r)) F.

Definition grad_face {X : Type}
    (rows : Z -> Z -> Z -> Z -> T -> T -> T -> T -> T -> T -> T -> list X)
    (V : list vec) (it : Z * (face * (vec * vec))) : list X :=
  let '(iT, (f, (bX, bY))) := it in
  let '(A, B, C) := f in
  let pA := vnth V A in let pB := vnth V B in let pC := vnth V C in
  let aT := grad_aT O (tri_area pA pB pC) in
  rows iT A B C (vdot O bX pA) (vdot O bY pA) (vdot O bX pB) (vdot O bY pB) (vdot O bX pC) (vdot O bY pC) aT.
Definition gradient_complex (V : list vec) (F : list face) (bases : list (vec * vec)) : list (Z * Z * (T * T)) :=
  flat_map (grad_face (grad_complex O) V) (indexed (combine F bases)).
Definition gradient_real (V : list vec) (F : list face) (bases : list (vec * vec)) : mat :=
  flat_map (grad_face (grad_real O) V) (indexed (combine F bases)).
Definition re_part (M : list (Z * Z * (T * T))) : mat := map (fun t => let '(i, j, (a, b)) := t in (i, j, a)) M.
Definition im_part (M : list (Z * Z * (T * T))) : mat := map (fun t => let '(i, j, (a, b)) := t in (i, j, b)) M.

(* ------------------------------------------------------------------ independent references (textbook definitions) *)
(* gradient of the P1 hat function of A on the triangle ABC:  n x (C - B) / |n|^2  with n = (B - A) x (C - A) *)
Definition hat_grad (pA pB pC : vec) : vec :=
  let n := vcross O (vsub O pB pA) (vsub O pC pA) in
  vdivs O (vcross O n (vsub O pC pB)) (vdot O n n).
(* P1 stiffness matrix  K[i,j] = sum_T area(T) <grad phi_i, grad phi_j>, assembled triangle by triangle *)
Definition stiff_tri (V : list vec) (f : face) : mat :=
  let '(p, q, r) := f in
  let pP := vnth V p in let pQ := vnth V q in let pR := vnth V r in
  let gp := hat_grad pP pQ pR in let gq := hat_grad pQ pR pP in let gr := hat_grad pR pP pQ in
  let ar := tri_area pP pQ pR in
  let k := fun g h => omul O ar (vdot O g h) in
  [(p, p, k gp gp); (p, q, k gp gq); (p, r, k gp gr);
   (q, p, k gq gp); (q, q, k gq gq); (q, r, k gq gr);
   (r, p, k gr gp); (r, q, k gr gq); (r, r, k gr gr)].
Definition stiffness (V : list vec) (F : list face) : mat := flat_map (stiff_tri V) F.

(* Re(G^* . diag(area) . G) accumulated face by face from the rows of the complex gradient *)
Definition gram_face (V : list vec) (it : Z * (face * (vec * vec))) : mat :=
  let rows := grad_face (grad_complex O) V it in
  let '(_, (f, _)) := it in
  let '(A, B, C) := f in
  let ar := tri_area (vnth V A) (vnth V B) (vnth V C) in
  flat_map (fun r1 : Z * Z * (T * T) => let '(_, a, (x1, y1)) := r1 in
     map (fun r2 : Z * Z * (T * T) => let '(_, b, (x2, y2)) := r2 in
            (a, b, omul O ar (oadd O (omul O x1 x2) (omul O y1 y2)))) rows) rows.
Definition gram (V : list vec) (F : list face) (bases : list (vec * vec)) : mat :=
  flat_map (gram_face V) (indexed (combine F bases)).

(* Re(G^* . A . G) literally, with the model's sparse products: G^* is the conjugate transpose, A = diag(face areas)
   (area_weight_matrix_faces), so the real part is  Gre^T A Gre + Gim^T A Gim *)
Definition gag_re (V : list vec) (F : list face) (bases : list (vec * vec)) : mat :=
  let G := gradient_complex V F bases in
  let A := diag (areas V F) in
  mmul O (transpose (re_part G)) (mmul O A (re_part G)) ++ mmul O (transpose (im_part G)) (mmul O A (im_part G)).

(* ------------------------------------------------------------------ mass.py *)
(* A[u] += w[iT] for u in T *)
Definition vertex_acc (n : Z) (F : list face) (w : list T) : list T :=
  map (fun u => sumT O (flat_map (fun fw : face * T => let '((p, q, r), a) := fw in
                   let a := massv_contrib a in
                   (if p =? u then [a] else []) ++ (if q =? u then [a] else []) ++ (if r =? u then [a] else []))
                 (combine F w))) (zrange n).
Definition mass_vertices (inverse sqrt : bool) (n : Z) V F : mat :=
  diag (map (massv_post O inverse sqrt) (vertex_acc n F (areas V F))).
Definition mass_faces (inverse : bool) V F : mat := diag (map (massf_post O inverse) (areas V F)).
Definition edge_acc (F : list face) (w : list T) (E : list edge) : list T :=
  map (fun e : edge => let '(a, b) := e in
     let side u v := match direct_face_id F u v with
                     | Some t => [mass_edge_share O (znth w t (o0 O))] | None => [] end in
     sumT O (side a b ++ side b a)) E.
Definition mass_edges (inverse : bool) V F E : mat := diag (map (masse_post O inverse) (edge_acc F (areas V F) E)).

(* ------------------------------------------------------------------ adjacency.py *)
Definition adjacency (w : list (T * T)) (E : list edge) : mat :=
  flat_map (fun ie : Z * (edge * (T * T)) => let '(e, ((a, b), (v0, v1))) := ie in adj_entries e a b v0 v1)
           (indexed (combine E w)).
Definition w_one (E : list edge) : list (T * T) := map (fun _ => adj_vals_one O) E.
Definition w_length (V : list vec) (E : list edge) : list (T * T) :=
  map (fun e : edge => let '(a, b) := e in adj_vals_length (vnorm O (vsub O (vnth V b) (vnth V a)))) E.
Definition w_custom (w : list T) : list (T * T) := map adj_vals_custom w.
Definition vertex_to_edge (oriented : bool) (E : list edge) : mat :=
  flat_map (fun ie : Z * edge => let '(e, (A, B)) := ie in v2e_entries O e A B (v2e_orig O oriented)) (indexed E).
Definition vertex_to_face (F : list face) : mat :=
  flat_map (fun it : Z * face => let '(iT, (p, q, r)) := it in
     let aT := v2f_weight O (ofnat 3) in [v2f_entry iT p aT; v2f_entry iT q aT; v2f_entry iT r aT]) (indexed F).

(* ------------------------------------------------------------------ volumes *)
Definition cell_list (c : cell) : list Z := let '(a, b, c1, d) := c in [a; b; c1; d].
Definition zmem (x : Z) (l : list Z) : bool := existsb (Z.eqb x) l.
Definition cell_volumes (V : list vec) (C : list cell) : list T :=
  map (fun c : cell => let '(a, b, c1, d) := c in cell_volume (vnth V a) (vnth V b) (vnth V c1) (vnth V d)) C.
Definition vol_vertex_acc (n : Z) (C : list cell) (w : list T) : list T :=
  map (fun u => sumT O (flat_map (fun cw : cell * T => let '(c, a) := cw in
                   flat_map (fun x => if x =? u then [massvv_contrib a] else []) (cell_list c)) (combine C w))) (zrange n).
Definition mass_vol_vertices (inverse sqrt : bool) (n : Z) V C : mat :=
  diag (map (massvv_post O inverse sqrt) (vol_vertex_acc n C (cell_volumes V C))).
Definition mass_vol_cells (inverse sqrt : bool) V C : mat := diag (map (massvc_post O inverse sqrt) (cell_volumes V C)).

(* volume_laplacian: contribution of one cell to the weight of the edge (I, J) *)
Definition vl_cell (V : list vec) (vi vj : Z) (c : cell) : list T :=
  if zmem vi (cell_list c) && zmem vj (cell_list c) then
    match filter (fun x => negb ((x =? vi) || (x =? vj))) (cell_list c) with
    | [vk; vl] =>
        let l := vnorm O (vsub O (vnth V vl) (vnth V vk)) in
        let fb := fun t : Z * Z * Z => let '(a, b, c1) := t in
                    let '(_, _, nrm) := face_basis (vnth V a) (vnth V b) (vnth V c1) in nrm in
        let Z1 := fb (vl_face1 vi vj vk vl) in
        let Z2 := fb (vl_face2 vi vj vk vl) in
        let cot := vl_cot O (vdot O Z1 Z2) (vnorm O (vcross O Z1 Z2)) in
        [vl_term O l cot]
    | _ => []
    end
  else [].
Definition vl_omegas (V : list vec) (C : list cell) (E : list edge) : list (Z * Z * T) :=
  map (fun e : edge => let '(vi, vj) := e in (vi, vj, sumT O (flat_map (vl_cell V vi vj) C))) E.
Definition vl_gen (W : list (Z * Z * T)) : mat :=
  flat_map (fun t : Z * Z * T => let '(vi, vj, omega) := t in vl_coeffs O vi vj omega) W.
Definition volume_laplacian (V : list vec) (C : list cell) (E : list edge) : mat := vl_gen (vl_omegas V C E).

(* connectivity.cell_to_cell: through each of the four faces (face i misses vertex i) the other cell holding it *)
Definition drop_nth (l : list Z) (i : nat) : list Z := firstn i l ++ skipn (S i) l.
Definition cell_nbrs (C : list cell) (ic : Z) : list Z :=
  let c := cell_list (znth C ic (0, 0, 0, 0)) in
  flat_map (fun i => let f := drop_nth c i in
     match rev (filter (fun jc : Z * cell => negb (fst jc =? ic) && forallb (fun x => zmem x (cell_list (snd jc))) f)
                       (indexed C)) with
     | (j, _) :: _ => [j]
     | [] => []
     end) [0%nat; 1%nat; 2%nat; 3%nat].
Definition tl_gen (nb : Z -> list Z) (nc : Z) : mat :=
  flat_map (fun c1 => tl_diag c1 (ofnat (length (nb c1))) :: map (fun c2 => tl_off O c1 c2) (nb c1)) (zrange nc).
Definition laplacian_tetrahedra (C : list cell) : mat := tl_gen (cell_nbrs C) (zlen C).

End Model.

(* ------------------------------------------------------------------ decidable mesh conditions (evaluated on every generated case) *)
(* cell_to_cell is symmetric (with multiplicities) and stays in range: what the tetrahedral dual Laplacian's symmetry needs *)
Definition cell_adjacency_ok (C : list cell) : bool :=
  let nc := zlen C in
  forallb (fun a =>
     forallb (fun b => Nat.eqb (count_occ Z.eq_dec (cell_nbrs C a) b) (count_occ Z.eq_dec (cell_nbrs C b) a)) (zrange nc)
     && forallb (fun b => (0 <=? b) && (b <? nc)) (cell_nbrs C a)) (zrange nc).

(* the stored edge list covers the three half-edges of every face exactly once: for each face index t, exactly three
   (edge, side) slots have t as their direct face *)
Definition edge_slots (E : list edge) : list (Z * Z) := flat_map (fun e : edge => let '(a, b) := e in [(a, b); (b, a)]) E.
Definition slot_is (F : list face) (t : Z) (d : Z * Z) : bool :=
  match direct_face_id F (fst d) (snd d) with Some t' => t' =? t | None => false end.
Definition edge_cover_ok (F : list face) (E : list edge) : bool :=
  forallb (fun t => Nat.eqb (length (filter (slot_is F t) (edge_slots E))) 3) (zrange (zlen F)).


(* the surface is an oriented manifold with a consistent edge list, as list conditions (no reference to the model's queries):
   no half-edge belongs to two faces (or twice to one), the stored edges are pairwise distinct in both directions (no loop),
   and every side of every face is a stored edge *)
Definition face_hes (f : face) : list (Z * Z) := let '(p, q, r) := f in [(p, q); (q, r); (r, p)].
Definition pair_eqb (a b : Z * Z) : bool := (fst a =? fst b) && (snd a =? snd b).
Fixpoint nodup_b (l : list (Z * Z)) : bool :=
  match l with [] => true | x :: r => negb (existsb (pair_eqb x) r) && nodup_b r end.
Definition surface_manifold_ok (F : list face) (E : list edge) : bool :=
  nodup_b (flat_map face_hes F) && nodup_b (edge_slots E) &&
  forallb (fun d => existsb (pair_eqb d) (edge_slots E)) (flat_map face_hes F).

(* the tetrahedral mesh is conforming, as conditions on the cell list alone: every cell has four distinct vertices and every
   triangular face of a cell lies in at most one other cell *)
Fixpoint nodup_z (l : list Z) : bool := match l with [] => true | x :: r => negb (zmem x r) && nodup_z r end.
Definition face_in_cell (f : list Z) (a : Z) (jc : Z * cell) : bool :=
  negb (fst jc =? a) && forallb (fun x => zmem x (cell_list (snd jc))) f.
Definition cells_conforming (C : list cell) : bool :=
  forallb (fun ic : Z * cell => let '(a, c) := ic in
     nodup_z (cell_list c) &&
     forallb (fun i => (length (filter (face_in_cell (drop_nth (cell_list c) i) a) (indexed C)) <=? 1)%nat)
             [0%nat; 1%nat; 2%nat; 3%nat]) (indexed C).
