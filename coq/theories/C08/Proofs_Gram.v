(* C08 - Re(G^* A G) computed with the model's generic sparse products (mmul, transpose, diag) equals the face-by-face
   accumulation `gram`, hence (Proofs_Geom) the cotan Laplacian.  The rows of G belonging to different faces carry different
   row indices, so the double sum of the product only pairs coefficients of one face.  Any field (section hypothesis). *)
From Coq Require Import ZArith List Bool Ring Field Lia ZifyBool.
Import ListNotations.
Require Import MV.Lib.Base MV.C08.Ops MV.C08.Gen MV.C08.Model MV.C08.Proofs_Struct MV.C08.Proofs_Dual MV.C08.Proofs_Graph
  MV.C08.Proofs_Geom.
Open Scope Z_scope.

Section Gram.
Variable T : Type.
Variable O : ops T.
Hypothesis Fth : field_theory (o0 O) (o1 O) (oadd O) (omul O) (osub O) (oopp O) (odiv O) (oinv O) eq.
Add Field FieldG : Fth.
Let Rth := F_R Fth.
Hypothesis two_nz : two O <> o0 O.

Declare Scope Q_scope.
Notation "0" := (o0 O) : Q_scope.
Notation "x + y" := (oadd O x y) : Q_scope.
Notation "x * y" := (omul O x y) : Q_scope.
Delimit Scope Q_scope with Q.
Local Open Scope Q_scope.
Notation lsum := (lsum T O).
Notation qterm := (qterm T O).
Notation vec := (vec T).

Lemma lsum_ext_in {A} (f g : A -> T) l : (forall a, In a l -> f a = g a) -> lsum f l = lsum g l.
Proof.
  induction l as [|a l IH]; intros H; cbn [Proofs_Dual.lsum]; [reflexivity|].
  rewrite (H a (or_introl eq_refl)), IH; [reflexivity|]. intros b Hb. apply H. right. exact Hb.
Qed.

Lemma lsum_single {X} (h : Z * X -> T) (L : list (Z * X)) (l1 : Z * X) :
  NoDup (map fst L) -> In l1 L -> (forall l2, In l2 L -> fst l2 <> fst l1 -> h l2 = 0) -> lsum h L = h l1.
Proof.
  induction L as [|l L IH]; intros Hn Hin Hz; [contradiction|].
  cbn [map] in Hn. inversion Hn as [|? ? Hnot Hn']; subst. cbn [Proofs_Dual.lsum].
  destruct Hin as [-> | Hin].
  - assert (Z0 : lsum h L = 0).
    { rewrite <- (lsum_zero T O Rth L). apply lsum_ext_in. intros l2 Hl2. apply Hz; [right; exact Hl2|].
      intros E. apply Hnot. rewrite <- E. apply in_map. exact Hl2. }
    rewrite Z0. ring.
  - rewrite IH; [| exact Hn' | exact Hin | intros l2 Hl2; apply Hz; right; exact Hl2].
    rewrite (Hz l); [ring | left; reflexivity |].
    intros E. apply Hnot. rewrite E. apply in_map. exact Hin.
Qed.

(* the double sum of N^T C N over a row-blocked N only pairs coefficients of the same block *)
Lemma quad_blocks {X} (blk : Z * X -> mat T) (L : list (Z * X)) c x y :
  (forall l, rows_are T (fst l) (blk l)) -> NoDup (map fst L) ->
  lsum (fun t1 => lsum (fun t2 => qterm c x y t1 t2) (flat_map blk L)) (flat_map blk L) =
  lsum (fun l => lsum (fun t1 => lsum (fun t2 => qterm c x y t1 t2) (blk l)) (blk l)) L.
Proof.
  intros Hrows Hn. rewrite (lsum_flat_map T O Rth). apply lsum_ext_in. intros l1 Hl1.
  apply lsum_ext_in. intros t1 Ht1. rewrite (lsum_flat_map T O Rth).
  apply (lsum_single (fun l2 => lsum (fun t2 => qterm c x y t1 t2) (blk l2)) L l1 Hn Hl1).
  intros l2 Hl2 Hne. rewrite <- (lsum_zero T O Rth (blk l2)). apply lsum_ext_in. intros t2 Ht2.
  pose proof (Hrows l1) as R1. pose proof (Hrows l2) as R2. unfold rows_are in *. rewrite Forall_forall in R1, R2.
  specialize (R1 t1 Ht1). specialize (R2 t2 Ht2).
  destruct t1 as [[e t] v], t2 as [[e' t'] v']. cbn [fst] in R1, R2. unfold Proofs_Dual.qterm.
  destruct (e' =? e)%Z eqn:Q; [|reflexivity]. apply Z.eqb_eq in Q. congruence.
Qed.

(* indices handed out by `indexed` *)
Lemma indexed_from_ge {A} (l : list A) k0 k x : In (k, x) (indexed_from k0 l) -> (k0 <= k)%Z.
Proof.
  revert k0. induction l as [|a l IH]; intros k0 H; cbn [indexed_from] in H; [contradiction|].
  destruct H as [H | H]; [inversion H; lia | apply IH in H; lia].
Qed.
Lemma indexed_from_nodup {A} (l : list A) k0 : NoDup (map fst (indexed_from k0 l)).
Proof.
  revert k0. induction l as [|a l IH]; intros k0; cbn [indexed_from map]; constructor; [|apply IH].
  intros H. apply in_map_iff in H. destruct H as [[k x] [E H]]. cbn in E. subst. apply indexed_from_ge in H. lia.
Qed.

Lemma rowsum_diag_from_lt (d : list T) k0 k : (k < k0)%Z -> rowsum O (diag_from k0 d) k = 0.
Proof.
  revert k0. induction d as [|a d IH]; intros k0 H; cbn [diag_from rowsum]; [reflexivity|].
  destruct (k0 =? k)%Z eqn:Q; [lia|]. apply IH. lia.
Qed.
(* the diagonal coefficient met by the rows of face number k is the area of that face *)
Lemma rowsum_diag_area (V : list vec) (F : list face) (bases : list (vec * vec)) k0 k f b :
  In (k, (f, b)) (indexed_from k0 (combine F bases)) ->
  rowsum O (diag_from k0 (areas O V F)) k =
  (let '(p, q, r) := f in tri_area O (vnth O V p) (vnth O V q) (vnth O V r)).
Proof.
  revert bases k0. induction F as [|f0 F IH]; intros [|b0 bases] k0 H; cbn [combine indexed_from] in H; try contradiction.
  cbn [areas map diag_from rowsum]. fold (areas O V F).
  destruct H as [H | H].
  - inversion H; subst. rewrite Z.eqb_refl. rewrite rowsum_diag_from_lt by lia. destruct f as [[p q] r]. ring.
  - pose proof (indexed_from_ge _ _ _ _ H). destruct (k0 =? k)%Z eqn:Q; [lia|]. apply (IH bases (k0 + 1)%Z). exact H.
Qed.

Definition re_rows (V : list vec) (it : Z * (face * (vec * vec))) : mat T := re_part (grad_face O (grad_complex O) V it).
Definition im_rows (V : list vec) (it : Z * (face * (vec * vec))) : mat T := im_part (grad_face O (grad_complex O) V it).

Lemma re_rows_rows V it : rows_are T (fst it) (re_rows V it).
Proof.
  destruct it as [iT [[[p q] r] [bX bY]]]. unfold re_rows, rows_are, grad_face, grad_complex, re_part. cbn [map fst].
  repeat constructor.
Qed.
Lemma im_rows_rows V it : rows_are T (fst it) (im_rows V it).
Proof.
  destruct it as [iT [[[p q] r] [bX bY]]]. unfold im_rows, rows_are, grad_face, grad_complex, im_part. cbn [map fst].
  repeat constructor.
Qed.

Lemma re_part_flat_map V (L : list (Z * (face * (vec * vec)))) :
  re_part (flat_map (grad_face O (grad_complex O) V) L) = flat_map (re_rows V) L.
Proof. unfold re_part, re_rows. induction L; cbn [flat_map]; [reflexivity | rewrite map_app, IHL; reflexivity]. Qed.
Lemma im_part_flat_map V (L : list (Z * (face * (vec * vec)))) :
  im_part (flat_map (grad_face O (grad_complex O) V) L) = flat_map (im_rows V) L.
Proof. unfold im_part, im_rows. induction L; cbn [flat_map]; [reflexivity | rewrite map_app, IHL; reflexivity]. Qed.

(* one face: the re-block and im-block double sums add up to the bilinear form of the face's gram block *)
Lemma face_blocks (V : list vec) (it : Z * (face * (vec * vec))) (c : Z -> T) (x y : Z -> T) :
  c (fst it) = (let '(p, q, r) := fst (snd it) in tri_area O (vnth O V p) (vnth O V q) (vnth O V r)) ->
  lsum (fun t1 => lsum (fun t2 => qterm c x y t1 t2) (re_rows V it)) (re_rows V it) +
  lsum (fun t1 => lsum (fun t2 => qterm c x y t1 t2) (im_rows V it)) (im_rows V it) =
  bil T O (gram_face O V it) y x.
Proof.
  destruct it as [iT [[[p q] r] [bX bY]]]. cbn [fst snd]. intros Hc.
  unfold re_rows, im_rows, gram_face, grad_face, grad_complex, re_part, im_part, bil.
  cbn [map flat_map app Proofs_Dual.lsum]. unfold Proofs_Dual.qterm. rewrite !Z.eqb_refl. rewrite Hc. ring.
Qed.

Theorem gag_re_is_gram (V : list vec) (F : list face) (bases : list (vec * vec)) :
  forall i j, entry O (gag_re O V F bases) i j = entry O (gram O V F bases) i j.
Proof.
  intros i j. unfold gag_re, gradient_complex. rewrite (entry_app T O Rth).
  rewrite re_part_flat_map, im_part_flat_map.
  rewrite !(entry_bil T O Rth). rewrite !(weighted_is_quad T O Rth). rewrite !(quad_expand T O Rth).
  set (L := indexed (combine F bases)).
  set (c := rowsum O (diag (areas O V F))).
  rewrite (quad_blocks (re_rows V) L c _ _ (re_rows_rows V) (indexed_from_nodup _ _)).
  rewrite (quad_blocks (im_rows V) L c _ _ (im_rows_rows V) (indexed_from_nodup _ _)).
  rewrite <- (lsum_add T O Rth).
  unfold gram. fold L. unfold bil. rewrite (lsum_flat_map T O Rth).
  apply lsum_ext_in. intros [k [f b]] Hin.
  rewrite (face_blocks V (k, (f, b)) c (delta T O i) (delta T O j)).
  - unfold bil.
    (* the gram block of a face is symmetric in (i, j): swap the two delta arguments *)
    destruct f as [[p q] r], b as [bX bY].
    unfold gram_face, grad_face, grad_complex. cbn [flat_map map app Proofs_Dual.lsum]. ring.
  - cbn [fst snd]. unfold c, diag. apply (rowsum_diag_area V F bases 0 k f b). exact Hin.
Qed.

(* Re(G^* A G) = cotan Laplacian, for the model's matrices *)
Theorem cotan_laplacian_is_gag (V : list vec) (F : list face) (bases : list (vec * vec)) :
  Forall2 (fun f b => nondeg T O V f /\ face_basis_ok T O V f b) F bases ->
  forall i j, entry O (laplacian_cotan O (cot_simple O) V F) i j = entry O (gag_re O V F bases) i j.
Proof.
  intros H i j. rewrite gag_re_is_gram. apply (cotan_laplacian_is_gram T O Fth two_nz V F bases H).
Qed.

(* ------------------------------------------------------------------ the assembled gradient matrix applied to an affine function *)
Notation mv := (mv T O).

Lemma mv_flat_map {X} (blk : X -> mat T) (L : list X) y k : mv (flat_map blk L) y k = lsum (fun l => mv (blk l) y k) L.
Proof. unfold Proofs_Dual.mv. apply (lsum_flat_map T O Rth). Qed.

Lemma mv_other_row (M : mat T) c y k : rows_are T c M -> c <> k -> mv M y k = 0.
Proof.
  intros H Hc. unfold Proofs_Dual.mv. transitivity (lsum (fun _ : Z * Z * T => 0) M); [|apply (lsum_zero T O Rth)].
  apply lsum_ext_in. intros [[a b] v] Hin.
  unfold rows_are in H. rewrite Forall_forall in H. specialize (H _ Hin). cbn in H. subst a.
  destruct (c =? k)%Z eqn:Q; [apply Z.eqb_eq in Q; contradiction | reflexivity].
Qed.

Lemma rows_apply (V : list vec) (k : Z) (f : face) (b : vec * vec) (fv : Z -> T) :
  (mv (re_rows V (k, (f, b))) fv k, mv (im_rows V (k, (f, b))) fv k) =
  apply_rows T O (grad_face O (grad_complex O) V (k, (f, b))) fv.
Proof.
  destruct f as [[p q] r], b as [bX bY].
  unfold re_rows, im_rows, re_part, im_part, grad_face, grad_complex, apply_rows, Proofs_Dual.mv.
  cbn [map Proofs_Dual.lsum fold_right fst snd]. rewrite !Z.eqb_refl. apply f_equal2; ring.
Qed.

(* row number k of the assembled operator G (complex gradient), applied to the vertex values of x |-> <a,x> + b0, is
   (<a, X_k>, <a, Y_k>): the tangential gradient in the basis of face k *)
Theorem gradient_matrix_affine (V : list vec) (F : list face) (bases : list (vec * vec)) (a : vec) (b0 : T) (fv : Z -> T)
    (k : Z) (f : face) (b : vec * vec) :
  In (k, (f, b)) (indexed (combine F bases)) ->
  nondeg T O V f -> face_basis_ok T O V f b ->
  (let '(p, q, r) := f in
   fv p = oadd O (vdot O a (vnth O V p)) b0 /\ fv q = oadd O (vdot O a (vnth O V q)) b0 /\
   fv r = oadd O (vdot O a (vnth O V r)) b0) ->
  mv (re_part (gradient_complex O V F bases)) fv k = vdot O a (fst b) /\
  mv (im_part (gradient_complex O V F bases)) fv k = vdot O a (snd b).
Proof.
  intros Hin Hnd Hb Hfv. unfold gradient_complex. rewrite re_part_flat_map, im_part_flat_map, !mv_flat_map.
  set (L := indexed (combine F bases)) in *.
  assert (S1 : forall rows : Z * (face * (vec * vec)) -> mat T, (forall it, rows_are T (fst it) (rows it)) ->
            lsum (fun l => mv (rows l) fv k) L = mv (rows (k, (f, b))) fv k).
  { intros rows Hr.
    apply (lsum_single (fun l => mv (rows l) fv k) L (k, (f, b)) (indexed_from_nodup _ _) Hin).
    intros l2 _ Hne. apply (mv_other_row _ (fst l2)); [apply Hr | exact Hne]. }
  rewrite (S1 (re_rows V) (re_rows_rows V)), (S1 (im_rows V) (im_rows_rows V)).
  pose proof (rows_apply V k f b fv) as E.
  rewrite (gradient_affine_face T O Fth two_nz V k f b a b0 Hnd Hb fv Hfv) in E.
  inversion E. split; reflexivity.
Qed.

End Gram.
