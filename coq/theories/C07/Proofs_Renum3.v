(* C07 - renumbering, the remaining attributes: cotangent weights, means, Euler characteristic, circumcentres, barycentre,
   vertices->faces, corners->faces, the two scatters under a vertex renumbering; and independence of degree / border flags /
   angle defects from the ORDER in which the edge list is stored. *)
From Coq Require Import ZArith List Bool Reals Lra Lia ZifyBool Permutation.
Require Import MV.Lib.Base MV.C07.Model MV.C07.Gen MV.C07.Mesh MV.C07.Proofs_Base MV.C07.Proofs_Rigid MV.C07.Proofs_MeshRigid
  MV.C07.Proofs_Renum MV.C07.Proofs_Count MV.C07.Proofs_Keyed MV.C07.Proofs_RenumV MV.C07.Proofs_FacePerm MV.C07.Proofs_FanRot
  MV.C07.Proofs_RenumFull MV.C07.Proofs_MeshScale MV.C07.Proofs_Circum MV.C07.Proofs_Global.
Import ListNotations.
Open Scope R_scope.

Lemma NoDup_map_inj_in {X Y} (f : X -> Y) (l : list X) :
  (forall a b, In a l -> In b l -> f a = f b -> a = b) -> NoDup l -> NoDup (map f l).
Proof.
  induction l as [|x l IH]; intros Hf ND; [constructor|]. inversion ND as [|? ? Hn ND']; subst. cbn [map]. constructor.
  - intros C. apply in_map_iff in C as [y [E Hy]]. apply Hn. rewrite <- (Hf y x); [assumption|now right|now left|assumption].
  - apply IH; [|assumption]. intros a b Ha Hb. apply Hf; now right.
Qed.

Section Renum3.
Variable m m' : mesh R.
Variable sigma : Z -> Z.
Variable sw : Z * Z -> bool.
Let nV := zlen (verts m).
Hypothesis WF : wf_mesh m.
Hypothesis LEN : zlen (verts m') = nV.
Hypothesis INJ : forall u v, (0 <= u < nV)%Z -> (0 <= v < nV)%Z -> sigma u = sigma v -> u = v.
Hypothesis MAPS : forall v, (0 <= v < nV)%Z -> (0 <= sigma v < nV)%Z.
Hypothesis PTS : forall v, in_rng m v -> P Rops m' (sigma v) = P Rops m v.
Hypothesis FACES : faces m' = map (map sigma) (faces m).
Hypothesis CELLS : cells m' = map (map sigma) (cells m).
Hypothesis EDGES : edges m' = map (fun e => if sw e then (sigma (snd e), sigma (fst e)) else (sigma (fst e), sigma (snd e))) (edges m).

Let FR : forall F, In F (faces m) -> forall u, In u F -> (0 <= u < nV)%Z.
Proof. intros F HF. apply (wf_faces m WF F HF). Qed.

Lemma half_edges_rename :
  half_edges (faces m') = map (fun h => ((sigma (fst (fst h)), sigma (snd (fst h))), snd h)) (half_edges (faces m)).
Proof.
  unfold half_edges, enumerate. rewrite FACES, enum_from_map, flat_map_map_l, map_flat_map.
  apply flat_map_ext_in'. intros [k F] HkF. cbn [fst snd]. rewrite zlen_map, map_map.
  apply map_ext_in. intros i Hi. apply In_zrange in Hi. cbn [fst snd].
  rewrite !(znth_map_in sigma F _ 0%Z) by (try lia; apply Z.mod_pos_bound; lia). reflexivity.
Qed.

Lemma half_edge_rng h : In h (half_edges (faces m)) -> (0 <= fst (fst h) < nV)%Z /\ (0 <= snd (fst h) < nV)%Z.
Proof.
  intros H. apply (keys_rng m FR (fst h)). unfold keys. apply in_map. exact H.
Qed.

Lemma direct_face_rename (a b : Z) : (0 <= a < nV)%Z -> (0 <= b < nV)%Z ->
  direct_face (half_edges (faces m')) (sigma a) (sigma b) = direct_face (half_edges (faces m)) a b.
Proof.
  intros Ha Hb. unfold direct_face. rewrite half_edges_rename, fold_left_map.
  apply fold_left_ext_in. intros acc h Hh. cbn [fst snd]. destruct (half_edge_rng h Hh) as [H1 H2].
  assert (Q : forall u c, (0 <= u < nV)%Z -> (0 <= c < nV)%Z -> (sigma u =? sigma c)%Z = (u =? c)%Z).
  { intros u c Hu Hc. destruct (u =? c)%Z eqn:E; [apply Z.eqb_eq in E; subst; apply Z.eqb_refl|].
    apply Z.eqb_neq in E. apply Z.eqb_neq. intros E'. apply E, INJ; assumption. }
  now rewrite !Q.
Qed.

Lemma first_corner_rename (f : Z) : first_corner (faces m') f = first_corner (faces m) f.
Proof.
  unfold first_corner. rewrite FACES, firstn_map, fold_left_map. apply fold_left_ext_in. intros acc F _. now rewrite zlen_map.
Qed.

Lemma half_edge_term_rename (cot : list R) (a b : Z) : (0 <= a < nV)%Z -> (0 <= b < nV)%Z ->
  half_edge_term (faces m') (half_edges (faces m')) cot (sigma a) (sigma b) = half_edge_term (faces m) (half_edges (faces m)) cot a b.
Proof.
  intros Ha Hb. unfold half_edge_term. rewrite direct_face_rename by assumption.
  destruct (direct_face _ a b) as [[[T i] j]|]; [|reflexivity]. now rewrite first_corner_rename.
Qed.

Lemma cotan_weights_renum : cotan_weights Rops m' = cotan_weights Rops m.
Proof.
  unfold cotan_weights. cbv zeta.
  rewrite (cotangent_renum m m' sigma WF PTS FACES), EDGES, map_map. apply map_ext_in. intros e He.
  destruct (wf_edges m WF e He) as [H1 H2]. rewrite !cw_edge_def.
  destruct (sw e); cbn [fst snd]; rewrite !half_edge_term_rename by assumption; ring.
Qed.

Lemma zlen_edges : zlen (edges m') = zlen (edges m).
Proof. rewrite EDGES. apply zlen_map. Qed.
Lemma zlen_faces : zlen (faces m') = zlen (faces m).
Proof. rewrite FACES. apply zlen_map. Qed.
Lemma zlen_cells : zlen (cells m') = zlen (cells m).
Proof. rewrite CELLS. apply zlen_map. Qed.

Lemma mean_k_same {A B} (n : option Z) (l : list A) (l' : list B) : zlen l' = zlen l -> mean_k n l' = mean_k n l.
Proof. intros E. unfold mean_k, opt_n. destruct n; now rewrite E. Qed.

Lemma means_renum (n : option Z) :
  mean_edge_length Rops m' n = mean_edge_length Rops m n /\ mean_face_area Rops m' n = mean_face_area Rops m n /\
  mean_cell_volume Rops m' n = mean_cell_volume Rops m n.
Proof.
  rewrite !mean_edge_length_def, !mean_face_area_def, !mean_cell_volume_def.
  rewrite (edge_length_renum_sw m m' sigma sw WF PTS EDGES), (face_area_renum m m' sigma WF PTS FACES),
    (cell_volume_renum m m' sigma WF PTS CELLS).
  rewrite (mean_k_same n (edges m) (edges m') zlen_edges), (mean_k_same n (faces m) (faces m') zlen_faces),
    (mean_k_same n (cells m) (cells m') zlen_cells). auto.
Qed.

Lemma euler_renum : euler_characteristic m' = euler_characteristic m.
Proof. unfold euler_characteristic. now rewrite LEN, zlen_edges, zlen_faces. Qed.

Lemma face_circumcenter_renum : face_circumcenter Rops m' = face_circumcenter Rops m.
Proof.
  unfold face_circumcenter. rewrite FACES, map_map. apply map_ext_in. intros F HF. destruct (wf_faces m WF F HF) as [L _].
  rewrite !(znth_map_in sigma F _ 0%Z) by lia. rewrite !PTS by (apply (face_vertex_rng m WF); [assumption|lia]). reflexivity.
Qed.

(* corners: same ids, same faces *)
Lemma c2f_renum (w : weighting) (ang cattr : list R) :
  average_corners_to_faces Rops 0 Rplus (smul_l Rops) Rdiv w ang m' cattr
  = average_corners_to_faces Rops 0 Rplus (smul_l Rops) Rdiv w ang m cattr.
Proof.
  unfold average_corners_to_faces. destruct w; try reflexivity; f_equal; unfold enumerate;
    rewrite FACES, enum_from_map, map_map; apply map_ext_in; intros [f F] _; cbn [fst snd];
    rewrite <- FACES, first_corner_rename, !zlen_map; reflexivity.
Qed.

Lemma sf2c_renum (fattr : list R) : scatter_faces_to_corners 0 m' fattr = scatter_faces_to_corners 0 m fattr.
Proof. unfold scatter_faces_to_corners. rewrite FACES, corners_rename, map_map. reflexivity. Qed.

(* vertex attributes travel with sigma *)
Section VertexAttr.
Variable vattr vattr' : list R.
Hypothesis VA : forall v, (0 <= v < nV)%Z -> znth vattr' (sigma v) 0 = znth vattr v 0.

Lemma sv2c_renum : scatter_vertices_to_corners 0 m' vattr' = scatter_vertices_to_corners 0 m vattr.
Proof.
  unfold scatter_vertices_to_corners. rewrite FACES, corners_rename, map_map. apply map_ext_in. intros [v f] Hc. cbn [fst].
  apply in_corners_vertex in Hc as [F [HF Hv]]. apply VA, (FR F HF v Hv).
Qed.

Lemma v2f_renum :
  interpolate_vertices_to_faces Rops 0 Rplus (smul_l Rops) Rdiv m' vattr' = interpolate_vertices_to_faces Rops 0 Rplus (smul_l Rops) Rdiv m vattr.
Proof.
  unfold interpolate_vertices_to_faces. rewrite FACES, map_map. apply map_ext_in. intros F HF. rewrite zlen_map, fold_left_map. f_equal.
  apply fold_left_ext_in. intros acc v Hv. now rewrite VA by apply (FR F HF v Hv).
Qed.
End VertexAttr.

(* the barycentre of the vertices: the renumbered vertex list is a permutation of the original one *)
Lemma sigma_perm : Permutation (map sigma (zrange nV)) (zrange nV).
Proof.
  apply NoDup_Permutation_bis.
  - apply NoDup_map_inj_in; [|apply NoDup_zrange]. intros u v Hu Hv. apply In_zrange in Hu, Hv. now apply INJ.
  - now rewrite map_length.
  - intros x Hx. apply in_map_iff in Hx as [v [<- Hv]]. apply In_zrange in Hv. apply In_zrange. now apply MAPS.
Qed.

Lemma verts_perm : Permutation (verts m') (verts m).
Proof.
  rewrite <- (map_znth_zrange (verts m') (vzero Rops)), <- (map_znth_zrange (verts m) (vzero Rops)). rewrite LEN. fold nV.
  apply Permutation_trans with (map (fun i => znth (verts m') i (vzero Rops)) (map sigma (zrange nV))).
  - apply Permutation_map, Permutation_sym, sigma_perm.
  - rewrite map_map. assert (E : map (fun x => znth (verts m') (sigma x) (vzero Rops)) (zrange nV) = map (fun i => znth (verts m) i (vzero Rops)) (zrange nV)).
    { apply map_ext_in. intros v Hv. apply In_zrange in Hv. apply (PTS v). exact Hv. }
    rewrite E. apply Permutation_refl.
Qed.

Lemma barycenter_renum : barycenter Rops m' = barycenter Rops m.
Proof.
  unfold barycenter, g_barycenter. rewrite LEN. fold nV. f_equal. unfold vsum.
  rewrite <- (fold_left_map (fun x : V3 => x) (vadd Rops)) at 1. rewrite map_id.
  exact (fold_add_perm (vadd Rops) vadd_c3 (fun x : V3 => x) (verts m') (verts m) (vzero Rops) verts_perm).
Qed.
End Renum3.

(* ---------------------------------------------------------------- the ORDER of the stored edge list is irrelevant for degree,
   border flags and angle defects (a renumbered mouette mesh rebuilds its edge list in another order) *)
Lemma existsb_perm {X} (p : X -> bool) (l l' : list X) : Permutation l l' -> existsb p l = existsb p l'.
Proof.
  intros H. induction H; cbn [existsb]; try congruence.
  - destruct (p x), (p y); reflexivity.
Qed.

Lemma list_ext_znth {X} (a b : list X) (d : X) :
  zlen a = zlen b -> (forall i, (0 <= i < zlen a)%Z -> znth a i d = znth b i d) -> a = b.
Proof.
  revert b. induction a as [|x a IH]; intros [|y b] L H; unfold zlen in *; cbn [length] in *; try lia; [reflexivity|].
  f_equal.
  - specialize (H 0%Z ltac:(lia)). exact H.
  - apply IH; [lia|]. intros i Hi. specialize (H (i + 1)%Z ltac:(lia)). unfold znth in *.
    destruct (i + 1 <? 0)%Z eqn:E1; [lia|]. destruct (i <? 0)%Z eqn:E2; [lia|].
    replace (Z.to_nat (i + 1)) with (S (Z.to_nat i)) in H by lia. exact H.
Qed.

Section EdgeOrder.
Variable m1 m2 : mesh R.
Hypothesis VL : zlen (verts m2) = zlen (verts m1).
Hypothesis FS : faces m2 = faces m1.
Hypothesis ES : Permutation (edges m2) (edges m1).
Hypothesis ER : forall e, In e (edges m1) -> (0 <= fst e < zlen (verts m1))%Z /\ (0 <= snd e < zlen (verts m1))%Z.

Lemma border_flags_edge_order : border_flags m2 = border_flags m1.
Proof.
  unfold border_flags. cbv zeta. rewrite FS, VL. apply map_ext. intros v. unfold vertex_on_border. now apply existsb_perm.
Qed.

Lemma angle_defects_edge_order zb pi ang : angle_defects Rops zb pi ang m2 = angle_defects Rops zb pi ang m1.
Proof. unfold angle_defects. now rewrite border_flags_edge_order, FS. Qed.

Lemma degree_zlen (mm : mesh R) :
  (forall e, In e (edges mm) -> (0 <= fst e < zlen (verts mm))%Z /\ (0 <= snd e < zlen (verts mm))%Z) -> zlen (degree mm) = zlen (verts mm).
Proof.
  intros H. unfold degree.
  rewrite (fold_left_flat_map (fun e => g_degree_ends (fst e) (snd e)) (fun d x => zupd d x (znth d x 0%Z + 1)%Z)).
  pose proof (keyed_fold_zlen (fun x : Z => x) (fun _ => false) (fun acc _ => (acc + 1)%Z) 0%Z) as K. unfold kstep in K.
  rewrite K. unfold zlen. now rewrite repeat_length.
Qed.

Lemma degree_edge_order : degree m2 = degree m1.
Proof.
  assert (ER2 : forall e, In e (edges m2) -> (0 <= fst e < zlen (verts m2))%Z /\ (0 <= snd e < zlen (verts m2))%Z).
  { intros e He. rewrite VL. apply ER. eapply Permutation_in; eassumption. }
  apply (list_ext_znth _ _ 0%Z).
  - now rewrite !degree_zlen.
  - intros v _. rewrite (degree_def m2 v ER2), (degree_def m1 v ER).
    assert (E : forall l : list Z, fold_left (fun acc x => if (x =? v)%Z then (acc + 1)%Z else acc) l 0%Z
                                 = fold_left (fun acc x => (acc + (if (x =? v)%Z then 1 else 0))%Z) l 0%Z).
    { intros l. apply fold_left_ext_in. intros acc x _. destruct (x =? v)%Z; lia. }
    rewrite !E.
    assert (Zc3 : forall a x y : Z, (a + x + y = a + y + x)%Z) by (intros; lia).
    exact (fold_add_perm Z.add Zc3 (fun x : Z => if (x =? v)%Z then 1%Z else 0%Z) _ _ 0%Z
             (Permutation_flat_map (fun e : Z * Z => [fst e; snd e]) ES)).
Qed.
End EdgeOrder.
