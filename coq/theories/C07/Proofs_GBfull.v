(* C07 - Gauss-Bonnet for the model, in full: for every manifold triangulation (closed or with border, any genus,
   any number of components) whose triangles are non-degenerate, the angle defects the model of angle_defects
   computes from the model's own corner angles sum to 2 pi (V - E + F).  The manifold condition is the explicit,
   boolean-checkable one of Proofs_Count.v (the correspondence evaluates the checker on every generated mesh). *)
From Coq Require Import ZArith List Bool Reals Lra Lia.
Require Import MV.Lib.Base MV.C07.Model MV.C07.Gen MV.C07.Mesh MV.C07.Proofs_Base MV.C07.Proofs_Interp
  MV.C07.Proofs_Angles MV.C07.Proofs_GB MV.C07.Proofs_Count MV.C07.Proofs_Rigid MV.C07.Proofs_MeshRigid MV.C07.Proofs_Renum.
Import ListNotations.

(* ---------------------------------------------------------------- boolean checker for the manifold condition *)
Lemma nodupb_spec l : nodupb l = true -> NoDup l.
Proof.
  induction l as [|x l IH]; intros H; [constructor|]. cbn [nodupb] in H. apply andb_true_iff in H as [H1 H2].
  constructor; [|auto]. intros C. apply pmem_spec in C. rewrite C in H1. discriminate.
Qed.
Lemma nodupZ_spec l : nodupZ l = true -> NoDup l.
Proof.
  induction l as [|x l IH]; intros H; [constructor|]. cbn [nodupZ] in H. apply andb_true_iff in H as [H1 H2].
  constructor; [|auto]. intros C. assert (existsb (Z.eqb x) l = true) by (apply existsb_exists; exists x; split; [assumption|apply Z.eqb_refl]).
  rewrite H in H1. discriminate.
Qed.

Lemma manifoldb_spec fs es nV : manifoldb fs es nV = true -> manifold fs es nV.
Proof.
  unfold manifoldb. cbv zeta. rewrite !andb_true_iff.
  intros [[[[[[[[[H1 H2] H3] H4] H5] H6] H7] H8] H9] H10].
  rewrite forallb_forall in H1, H3, H4, H6, H7, H8, H10.
  constructor.
  - intros F HF. apply Z.eqb_eq, H1, HF.
  - now apply nodupb_spec.
  - intros k Hk. specialize (H3 k Hk). apply negb_true_iff, Z.eqb_neq in H3. exact H3.
  - intros k Hk. specialize (H4 k Hk). apply andb_true_iff in H4 as [A B]. lia.
  - now apply nodupb_spec.
  - intros e He. apply Z.ltb_lt, H6, He.
  - intros e. split.
    + intros He. specialize (H7 e He). apply existsb_exists in H7 as [k [Hk E]]. apply peqb_spec in E. eauto.
    + intros [k [Hk <-]]. apply pmem_spec, H8, Hk.
  - now apply nodupZ_spec.
  - intros k Hk. specialize (H10 k Hk). apply existsb_exists in H10 as [k' [Hk' E]]. apply Z.eqb_eq in E. eauto.
Qed.

Open Scope R_scope.

(* ---------------------------------------------------------------- indexing the corner list of a triangulation *)
Lemma znth_flat_map_3 {X Y} (g : X -> list Y) (l : list X) (f i : Z) (dx : X) (dy : Y) :
  (forall x, length (g x) = 3%nat) -> (0 <= f < zlen l)%Z -> (0 <= i < 3)%Z ->
  znth (flat_map g l) (3 * f + i) dy = znth (g (znth l f dx)) i dy.
Proof.
  intros Hg. revert f. induction l as [|x l IH]; intros f Hf Hi; unfold zlen in *; cbn [length] in Hf; [lia|].
  cbn [flat_map]. unfold znth. destruct (3 * f + i <? 0)%Z eqn:E1; [lia|]. destruct (f <? 0)%Z eqn:E2; [lia|].
  destruct (i <? 0)%Z eqn:E3; [lia|].
  destruct (Z.eq_dec f 0) as [->|Hne].
  - cbn [Z.to_nat nth]. rewrite app_nth1 by (rewrite Hg; lia). f_equal; lia.
  - rewrite app_nth2 by (rewrite Hg; lia). rewrite Hg.
    replace (Z.to_nat f) with (S (Z.to_nat (f - 1))) by lia. cbn [nth].
    specialize (IH (f - 1)%Z ltac:(lia) Hi). unfold znth in IH.
    destruct (3 * (f - 1) + i <? 0)%Z eqn:E4; [lia|]. destruct (f - 1 <? 0)%Z eqn:E5; [lia|]. rewrite E3 in IH.
    rewrite <- IH. f_equal; lia.
Qed.

Lemma filter_len_le {X} (f : X -> bool) (l : list X) : (length (filter f l) <= length l)%nat.
Proof. induction l as [|x l IH]; [reflexivity|]. cbn [filter]. destruct (f x); cbn [length]; lia. Qed.

Section Full.
Variable m : mesh R.
Let nV := length (verts m).
Let nF := length (faces m).

Hypothesis MAN : manifold (faces m) (edges m) nV.
Hypothesis RNG : forall F, In F (faces m) -> forall v, In v F -> (0 <= v < Z.of_nat nV)%Z.
(* non-degenerate triangles *)
Hypothesis ND : forall a b c, In [a; b; c]%Z (faces m) ->
  0 < n2 (cross (P Rops m b -v P Rops m a) (P Rops m c -v P Rops m a)).

(* the angle values: atan2 of the model's own corner pairs *)
Definition model_angles : list R := map atan2_pair (corner_pairs Rops m).

Lemma tri_shape F : In F (faces m) -> exists a b c, F = [a; b; c]%Z.
Proof.
  intros HF. pose proof (mf_tri _ _ _ MAN F HF) as L. unfold zlen in L.
  destruct F as [|a [|b [|c [|d F]]]]; cbn [length] in L; try lia. eauto.
Qed.

Lemma model_angles_triangle (f : Z) : (0 <= f < Z.of_nat nF)%Z ->
  znth model_angles (3 * f) 0 + znth model_angles (3 * f + 1) 0 + znth model_angles (3 * f + 2) 0 = PI.
Proof.
  intros Hf. unfold model_angles, corner_pairs.
  set (F := znth (faces m) f []).
  assert (HF : In F (faces m)) by (apply znth_In; unfold zlen; fold nF; lia).
  destruct (tri_shape F HF) as (a & b & c & EF).
  set (g := fun G : list Z => match G with [a'; b'; c']%Z => map atan2_pair (face_corner_pairs Rops m G) | _ => [0; 0; 0] end).
  assert (Eg : map atan2_pair (flat_map (face_corner_pairs Rops m) (faces m)) = flat_map g (faces m)).
  { assert (G : forall l, (forall G, In G l -> In G (faces m)) ->
                map atan2_pair (flat_map (face_corner_pairs Rops m) l) = flat_map g l).
    { induction l as [|G l IH]; intros Hl; [reflexivity|]. cbn [flat_map]. rewrite map_app, IH by (intros; apply Hl; now right).
      f_equal. destruct (tri_shape G (Hl G (or_introl eq_refl))) as (a' & b' & c' & ->). reflexivity. }
    apply G. auto. }
  rewrite Eg.
  assert (Lg : forall G, length (g G) = 3%nat).
  { intros G. unfold g. destruct G as [|a' [|b' [|c' [|d' G]]]]; reflexivity. }
  replace (3 * f)%Z with (3 * f + 0)%Z at 1 by lia.
  rewrite !(znth_flat_map_3 g (faces m) f _ [] 0 Lg) by (unfold zlen; fold nF; lia).
  fold F. rewrite EF. unfold g. rewrite face_corner_pairs_tri. cbn [map].
  unfold znth. cbn [Z.ltb Z.to_nat nth Pos.to_nat Pos.iter_op Nat.add].
  rewrite EF in HF.
  apply (triangle_angle_sum (P Rops m a) (P Rops m b) (P Rops m c) (ND a b c HF)).
Qed.

(* Gauss-Bonnet for the model *)
Theorem gauss_bonnet_model :
  ssum Rops (angle_defects Rops false PI model_angles m) = 2 * PI * IZR (euler_characteristic m).
Proof.
  set (Eb := length (filter (edge_on_border (half_edges (faces m))) (edges m))).
  pose proof (count_half_edges (faces m) (edges m) nV MAN) as C1. fold Eb in C1.
  pose proof (border_vertices_edges (faces m) (edges m) nV MAN) as C2. fold Eb in C2.
  assert (Le : (Eb <= length (edges m))%nat) by (unfold Eb; apply filter_len_le).
  apply (gauss_bonnet_counting m model_angles) with (Eb := Eb).
  - intros F HF. split; [apply (mf_tri _ _ _ MAN F HF)|apply RNG, HF].
  - apply model_angles_triangle.
  - fold nF. lia.
  - exact Le.
  - unfold count_true, border_flags. cbv zeta. rewrite count_true_map. unfold zlen. fold nV. exact C2.
Qed.
End Full.
