(* C07 - the per-element loops of mouette/attributes/*.py over the GENERATED formulas of Gen.v.
   Still parametric in the operations record.  No proofs in this file.
   Angles: math.atan2 is not an operation of the record; corner angles are carried as the pair
   (cos-part, sin-part) = (dot, |cross|) handed to atan2, and every function that consumes angle VALUES
   (angle_defects, the "angle" weightings) takes the list of angle values `ang` (one per corner) as a parameter:
   over R it is instantiated with atan2 of the pairs, in the correspondence with the implementation's own
   corner_angles output, which is itself checked against the pairs. *)
From Coq Require Import ZArith List Bool.
Require Import MV.Lib.Base MV.C07.Model MV.C07.Gen.
Import ListNotations.
Open Scope Z_scope.

Fixpoint enum_from {A} (k : Z) (l : list A) : list (Z * A) :=
  match l with [] => [] | x :: t => (k, x) :: enum_from (k + 1) t end.
Definition enumerate {A} (l : list A) : list (Z * A) := enum_from 0 l.
Fixpoint enum_nat_from {A} (k : nat) (l : list A) : list (nat * A) :=
  match l with [] => [] | x :: t => (k, x) :: enum_nat_from (S k) t end.

(* ---------------------------------------------------------------- combinatorics shared by the loops *)
(* mesh.face_corners: (vertex, face) per corner, faces in order *)
Definition corners (fs : list (list Z)) : list (Z * Z) :=
  flat_map (fun iF => map (fun v => (v, fst iF)) (snd iF)) (enumerate fs).

(* SurfaceMesh._Connectivity._half_edges : (P, Pnext) -> (face, iV, (iV+1)%n); a later face overwrites *)
Definition half_edges (fs : list (list Z)) : list ((Z * Z) * (Z * Z * Z)) :=
  flat_map (fun iF => let F := snd iF in let n := zlen F in
     map (fun iV => ((znth F iV 0, znth F ((iV + 1) mod n) 0), (fst iF, iV, (iV + 1) mod n))) (zrange n))
    (enumerate fs).
Definition direct_face (hes : list ((Z * Z) * (Z * Z * Z))) (u v : Z) : option (Z * Z * Z) :=
  fold_left (fun acc h => if (fst (fst h) =? u) && (snd (fst h) =? v) then Some (snd h) else acc) hes None.
Definition is_some {A} (x : option A) : bool := match x with Some _ => true | None => false end.

(* face_to_first_corner *)
Definition first_corner (fs : list (list Z)) (f : Z) : Z :=
  fold_left (fun acc F => acc + zlen F) (firstn (Z.to_nat f) fs) 0.

(* is_edge_on_border / is_vertex_on_border *)
Definition edge_on_border (hes : list ((Z * Z) * (Z * Z * Z))) (e : Z * Z) : bool :=
  negb (is_some (direct_face hes (fst e) (snd e))) || negb (is_some (direct_face hes (snd e) (fst e))).
Definition vertex_on_border (hes : list ((Z * Z) * (Z * Z * Z))) (es : list (Z * Z)) (v : Z) : bool :=
  existsb (fun e => ((fst e =? v) || (snd e =? v)) && edge_on_border hes e) es.

(* ---------------------------------------------------------------- checkable manifold condition (used by the
   Gauss-Bonnet theorem as hypothesis and evaluated by the correspondence on every generated triangulation) *)
Definition peqb (a b : Z * Z) : bool := (fst a =? fst b) && (snd a =? snd b).
Definition pmem (k : Z * Z) (l : list (Z * Z)) : bool := existsb (peqb k) l.
Definition swap (k : Z * Z) : Z * Z := (snd k, fst k).
Definition ukey (k : Z * Z) : Z * Z := (Z.min (fst k) (snd k), Z.max (fst k) (snd k)).
Definition keys (fs : list (list Z)) : list (Z * Z) := map fst (half_edges fs).
Definition border_half_edges (fs : list (list Z)) : list (Z * Z) :=
  filter (fun k => negb (pmem (swap k) (keys fs))) (keys fs).
Fixpoint nodupb (l : list (Z * Z)) : bool :=
  match l with [] => true | x :: t => negb (pmem x t) && nodupb t end.
Fixpoint nodupZ (l : list Z) : bool :=
  match l with [] => true | x :: t => negb (existsb (Z.eqb x) t) && nodupZ t end.
Definition manifoldb (fs : list (list Z)) (es : list (Z * Z)) (nV : nat) : bool :=
  let K := keys fs in let BH := border_half_edges fs in
  forallb (fun F => zlen F =? 3) fs
  && nodupb K
  && forallb (fun k => negb (fst k =? snd k)) K
  && forallb (fun k => (0 <=? fst k) && (fst k <? Z.of_nat nV)) K
  && nodupb es
  && forallb (fun e => fst e <? snd e) es
  && forallb (fun e => existsb (fun k => peqb (ukey k) e) K) es
  && forallb (fun k => pmem (ukey k) es) K
  && nodupZ (map fst BH)
  && forallb (fun k => existsb (fun k' => fst k' =? snd k) BH) BH.

Section Mesh.
Context {T : Type} (o : ops T).

Definition P (m : mesh T) (i : Z) : vec T := znth (verts m) i (vzero o).
Definition pts_of (m : mesh T) (F : list Z) : list (vec T) := map (P m) F.

(* ---------------------------------------------------------------- attr_edges.py *)
Definition edge_length (m : mesh T) : list T :=
  map (fun e => g_edge_length o (P m (fst e)) (P m (snd e))) (edges m).
Definition edge_middle_point (m : mesh T) : list (vec T) :=
  map (fun e => g_edge_middle o (P m (fst e)) (P m (snd e))) (edges m).

(* ---------------------------------------------------------------- attr_faces.py *)
Definition face_area (m : mesh T) : list T := map (fun F => g_face_area o (pts_of m F)) (faces m).
Definition face_normals (m : mesh T) : list (vec T) :=
  map (fun F => g_face_normal o (P m (znth F 0 0)) (P m (znth F 1 0)) (P m (znth F 2 0))) (faces m).
Definition face_barycenter (m : mesh T) : list (vec T) := map (fun F => g_face_bary o (pts_of m F)) (faces m).
(* face_circumcenter (triangular faces): None where intersect_2lines2D reports parallel lines *)
Definition face_circumcenter (m : mesh T) : list (option (vec T)) :=
  map (fun F => g_circumcenter o (P m (znth F 0 0)) (P m (znth F 1 0)) (P m (znth F 2 0))) (faces m).

(* ---------------------------------------------------------------- attr_corners.py *)
Definition face_corner_pairs (m : mesh T) (F : list Z) : list (T * T) :=
  let n := zlen F in
  map (fun i : Z => let '(a, b, c) := g_corner_vertices F n i in g_corner_angle o (P m a) (P m b) (P m c)) (zrange n).
Definition corner_pairs (m : mesh T) : list (T * T) := flat_map (face_corner_pairs m) (faces m).
Definition cotangent (m : mesh T) : list T :=
  flat_map (fun F => g_cot_face o (P m (znth F 0 0)) (P m (znth F 1 0)) (P m (znth F 2 0))) (faces m).

(* cotan_weights *)
Definition cw_edge (fs : list (list Z)) (hes : list ((Z * Z) * (Z * Z * Z))) (cot : list T) (e : Z * Z) : T :=
  fold_left (fun (acc : T) (kc : nat * (bool * bool)) =>
     let k := fst kc in
     let uv := if fst (snd kc) then (snd e, fst e) else (fst e, snd e) in
     match direct_face hes (fst uv) (snd uv) with
     | None => acc
     | Some (Tf, i1, i2) =>
         let iA := if snd (snd kc) then i2 else i1 in
         let iB := if snd (snd kc) then i1 else i2 in
         let cnr := g_cw_corner k (first_corner fs Tf) iA iB in
         oadd o acc (g_cw_term o k (znth cot cnr (o0 o)))
     end) (enum_nat_from O g_cw_calls) (o0 o).
Definition cotan_weights (m : mesh T) : list T :=
  let hes := half_edges (faces m) in let cot := cotangent m in
  map (cw_edge (faces m) hes cot) (edges m).

(* ---------------------------------------------------------------- attr_vertices.py *)
Definition degree (m : mesh T) : list Z :=
  fold_left (fun d e => fold_left (fun d x => zupd d x (znth d x 0 + 1)) (g_degree_ends (fst e) (snd e)) d)
    (edges m) (repeat 0 (length (verts m))).

Definition border_flags (m : mesh T) : list bool :=
  let hes := half_edges (faces m) in
  map (fun v => vertex_on_border hes (edges m) v) (zrange (zlen (verts m))).

Definition angle_defects (zero_border : bool) (pi : T) (ang : list T) (m : mesh T) : list T :=
  let onb := border_flags m in
  let d0 := map (fun b : bool => if b then g_defect_border o zero_border pi else g_defect_init o pi) onb in
  fold_left (fun d cv =>
      let V := fst (snd cv) in
      if g_defect_skip (znth onb V false) zero_border then d
      else zupd d V (g_defect_step o (znth d V (o0 o)) (znth ang (fst cv) (o0 o))))
    (enumerate (corners (faces m))) d0.

(* ---------------------------------------------------------------- attr_cells.py *)
Definition cell_volume (m : mesh T) : list T :=
  map (fun C => g_cell_volume o (P m (znth C 0 0)) (P m (znth C 1 0)) (P m (znth C 2 0)) (P m (znth C 3 0))) (cells m).
Definition cell_barycenter (m : mesh T) : list (vec T) := map (fun C => g_cell_bary o (pts_of m C)) (cells m).

(* ---------------------------------------------------------------- glob.py *)
Definition euler_characteristic (m : mesh T) : Z := g_euler (zlen (verts m)) (zlen (edges m)) (zlen (faces m)).
Definition opt_n {A} (n : option Z) (l : list A) : Z := match n with Some k => k | None => zlen l end.
Definition mean_edge_length (m : mesh T) (n : option Z) : T :=
  let n' := g_mean_edge_length_n (opt_n n (edges m)) (zlen (edges m)) in
  let cnt := g_mean_edge_length_count n' (zlen (edges m)) in
  g_mean_edge_length_result o
    (fold_left (fun l e => oadd o l (g_mean_edge_length_item o (P m (fst e)) (P m (snd e))))
       (firstn (Z.to_nat cnt) (edges m)) (o0 o)) n'.
Definition mean_face_area (m : mesh T) (n : option Z) : T :=
  let n' := g_mean_face_area_n (opt_n n (faces m)) (zlen (faces m)) in
  let cnt := g_mean_face_area_count n' (zlen (faces m)) in
  g_mean_face_area_result o (fold_left (oadd o) (firstn (Z.to_nat cnt) (face_area m)) (o0 o)) n'.
Definition mean_cell_volume (m : mesh T) (n : option Z) : T :=
  let n' := g_mean_cell_volume_n (opt_n n (cells m)) (zlen (cells m)) in
  let cnt := g_mean_cell_volume_count n' (zlen (cells m)) in
  g_mean_cell_volume_result o (fold_left (oadd o) (firstn (Z.to_nat cnt) (cell_volume m)) (o0 o)) n'.
Definition total_area (m : mesh T) : T := g_total_area o (face_area m).
Definition barycenter (m : mesh T) : vec T := g_barycenter o (verts m).

(* ---------------------------------------------------------------- interpolate.py, over a value type A *)
Section Interp.
Context {A : Type} (azero : A) (aadd : A -> A -> A) (ascale : T -> A -> A) (adiv : A -> T -> A).

Inductive weighting := WUniform | WArea | WAngle | WSum.

Definition interpolate_vertices_to_faces (m : mesh T) (vattr : list A) : list A :=
  map (fun F => g_v2f_fin o aadd ascale adiv
                  (fold_left (fun acc v => g_v2f_acc o aadd ascale adiv acc (znth vattr v azero)) F azero) (zlen F))
      (faces m).

(* corners at vertex v: (corner id, face) in corner order *)
Definition corners_at (cs : list (Z * (Z * Z))) (v : Z) : list (Z * Z) :=
  map (fun c => (fst c, snd (snd c))) (filter (fun c => fst (snd c) =? v) cs).

Definition interpolate_faces_to_vertices (w : weighting) (area ang : list T) (m : mesh T) (fattr : list A) : list A :=
  let cs := enumerate (corners (faces m)) in
  map (fun v =>
      let cv := corners_at cs v in
      match w with
      | WUniform => g_f2v_uniform_fin o aadd ascale adiv
                      (fold_left (fun acc cf => aadd acc (znth fattr (snd cf) azero)) cv azero) (zlen cv)
      | WSum => fold_left (fun acc cf => aadd acc (znth fattr (snd cf) azero)) cv azero
      | WArea =>
          let r := fold_left (fun at_ cf =>
                      (g_f2v_area_acc o aadd ascale adiv (fst at_) (znth fattr (snd cf) azero) (znth area (snd cf) (o0 o)),
                       g_f2v_area_tot o aadd ascale adiv (snd at_) (znth area (snd cf) (o0 o)))) cv (azero, o0 o) in
          g_f2v_area_fin o aadd ascale adiv (fst r) (snd r)
      | WAngle =>
          let r := fold_left (fun at_ cf =>
                      (g_f2v_angle_acc o aadd ascale adiv (fst at_) (znth fattr (snd cf) azero) (znth ang (fst cf) (o0 o)),
                       g_f2v_angle_tot o aadd ascale adiv (snd at_) (znth ang (fst cf) (o0 o)))) cv (azero, o0 o) in
          g_f2v_angle_fin o aadd ascale adiv (fst r) (snd r)
      end) (zrange (zlen (verts m))).

Definition scatter_vertices_to_corners (m : mesh T) (vattr : list A) : list A :=
  map (fun c => znth vattr (fst c) azero) (corners (faces m)).
Definition scatter_faces_to_corners (m : mesh T) (fattr : list A) : list A :=
  map (fun c => znth fattr (snd c) azero) (corners (faces m)).

(* weight WArea is not accepted by the two corner averages (check_argument raises) *)
Definition average_corners_to_vertices (w : weighting) (ang : list T) (m : mesh T) (cattr : list A) : option (list A) :=
  let cs := enumerate (corners (faces m)) in
  match w with
  | WArea => None
  | _ => Some (map (fun v =>
      let cv := corners_at cs v in
      match w with
      | WUniform => g_c2v_uniform_fin o aadd ascale adiv
                      (fold_left (fun acc cf => g_c2v_uniform_acc o aadd ascale adiv acc (znth cattr (fst cf) azero)) cv azero)
                      (zlen cv)
      | WSum => fold_left (fun acc cf => g_c2v_sum_acc o aadd ascale adiv acc (znth cattr (fst cf) azero)) cv azero
      | _ =>
          let r := fold_left (fun at_ cf =>
                      (g_c2v_angle_acc o aadd ascale adiv (fst at_) (znth cattr (fst cf) azero) (znth ang (fst cf) (o0 o)),
                       oadd o (snd at_) (znth ang (fst cf) (o0 o)))) cv (azero, o0 o) in
          g_c2v_angle_fin o aadd ascale adiv (fst r) (snd r)
      end) (zrange (zlen (verts m))))
  end.

Definition average_corners_to_faces (w : weighting) (ang : list T) (m : mesh T) (cattr : list A) : option (list A) :=
  match w with
  | WArea => None
  | _ => Some (map (fun iF =>
      let F := snd iF in
      let first := first_corner (faces m) (fst iF) in
      let cn := map (fun k => first + k) (zrange (zlen F)) in
      match w with
      | WUniform => fold_left (fun acc c => g_c2f_uniform_acc o aadd ascale adiv acc (znth cattr c azero) (zlen cn)) cn azero
      | WSum => fold_left (fun acc c => aadd acc (znth cattr c azero)) cn azero
      | _ =>
          let r := fold_left (fun at_ c =>
                      (g_c2f_angle_acc o aadd ascale adiv (fst at_) (znth cattr c azero) (znth ang c (o0 o)),
                       oadd o (snd at_) (znth ang c (o0 o)))) cn (azero, o0 o) in
          g_c2f_angle_fin o aadd ascale adiv (fst r) (snd r)
      end) (enumerate (faces m)))
  end.
End Interp.

(* scalar and vector instances of the value type *)
Definition smul_l (w x : T) : T := omul o x w.

(* vertex_normals: face normals -> interpolate(weight) -> normalized *)
Definition vertex_normals (w : weighting) (ang : list T) (m : mesh T) : list (vec T) :=
  map (g_vertex_normal_finish o)
      (interpolate_faces_to_vertices (vzero o) (vadd o) (vscale o) (vdiv o) w (face_area m) ang m (face_normals m)).


(* vertex_normals(custom_fnormals=fn): the caller's own face normals are interpolated (the explicit argument wins over
   any cached "normals" attribute: g_vn_source) *)
Definition vertex_normals_custom (w : weighting) (ang : list T) (m : mesh T) (fn : list (vec T)) : list (vec T) :=
  map (g_vertex_normal_finish o)
      (interpolate_faces_to_vertices (vzero o) (vadd o) (vscale o) (vdiv o) w (face_area m) ang m fn).

End Mesh.
