(* C07 - textbook form of the GLOBAL and PER-VERTEX quantities (so that a changed divisor, a dropped clamp, a dropped
   `normalized`, a missing half-edge lookup or a changed border constant breaks a proof):
   means (divisor and clamp), total area, barycentres, degree, vertex-normal finish, per-vertex angle defect,
   mesh-level cotangent weight. *)
From Coq Require Import ZArith List Bool Reals Lra Lia ZifyBool.
Require Import MV.Lib.Base MV.C07.Model MV.C07.Gen MV.C07.Mesh MV.C07.Proofs_Base MV.C07.Proofs_Rigid MV.C07.Proofs_MeshRigid
  MV.C07.Proofs_Interp MV.C07.Proofs_GB MV.C07.Proofs_Keyed MV.C07.Proofs_RenumV MV.C07.Proofs_MeshScale MV.C07.Proofs_Circum.
Import ListNotations.
Open Scope R_scope.

(* ---------------------------------------------------------------- means: sum of the first k values divided by k, k = min(n, count) *)
Definition mean_k {A} (n : option Z) (l : list A) : Z := Z.min (opt_n n l) (zlen l).

Lemma min_min (a b : Z) : Z.min (Z.min a b) b = Z.min a b.
Proof. lia. Qed.

Lemma mean_edge_length_def (m : mesh R) (n : option Z) :
  mean_edge_length Rops m n
  = fold_left Rplus (firstn (Z.to_nat (mean_k n (edges m))) (edge_length Rops m)) 0 / IZR (mean_k n (edges m)).
Proof.
  unfold mean_edge_length, mean_k, g_mean_edge_length_n, g_mean_edge_length_count, g_mean_edge_length_result. cbv zeta.
  rewrite min_min, oZ_IZR. cbn [Rops odiv oadd o0]. f_equal.
  unfold edge_length. rewrite firstn_map, fold_left_map. reflexivity.
Qed.
Lemma mean_face_area_def (m : mesh R) (n : option Z) :
  mean_face_area Rops m n
  = fold_left Rplus (firstn (Z.to_nat (mean_k n (faces m))) (face_area Rops m)) 0 / IZR (mean_k n (faces m)).
Proof.
  unfold mean_face_area, mean_k, g_mean_face_area_n, g_mean_face_area_count, g_mean_face_area_result. cbv zeta.
  rewrite min_min, oZ_IZR. reflexivity.
Qed.
Lemma mean_cell_volume_def (m : mesh R) (n : option Z) :
  mean_cell_volume Rops m n
  = fold_left Rplus (firstn (Z.to_nat (mean_k n (cells m))) (cell_volume Rops m)) 0 / IZR (mean_k n (cells m)).
Proof.
  unfold mean_cell_volume, mean_k, g_mean_cell_volume_n, g_mean_cell_volume_count, g_mean_cell_volume_result. cbv zeta.
  rewrite min_min, oZ_IZR. reflexivity.
Qed.
(* in particular: asking for more elements than there are gives the mean of all of them *)
Lemma mean_k_clamp {A} (l : list A) (n : Z) : (zlen l <= n)%Z -> mean_k (Some n) l = mean_k None l.
Proof. unfold mean_k, opt_n. lia. Qed.

Lemma total_area_def (m : mesh R) : total_area Rops m = fold_left Rplus (face_area Rops m) 0.
Proof. reflexivity. Qed.

Lemma mean_point_def (pts : list V3) :
  g_face_bary Rops pts = vdiv Rops (vsum Rops pts) (IZR (zlen pts)) /\
  g_cell_bary Rops pts = vdiv Rops (vsum Rops pts) (IZR (zlen pts)) /\
  g_barycenter Rops pts = vdiv Rops (vsum Rops pts) (IZR (zlen pts)).
Proof. unfold g_face_bary, g_cell_bary, g_barycenter. now rewrite oZ_IZR. Qed.

(* ---------------------------------------------------------------- degree = number of edge ends at the vertex *)
Lemma degree_def (m : mesh R) (v : Z) :
  (forall e, In e (edges m) -> (0 <= fst e < zlen (verts m))%Z /\ (0 <= snd e < zlen (verts m))%Z) ->
  znth (degree m) v 0%Z
  = fold_left (fun acc x => if (x =? v)%Z then (acc + 1)%Z else acc) (flat_map (fun e => [fst e; snd e]) (edges m)) 0%Z.
Proof.
  intros H. rewrite (degree_pointwise m m m v H). f_equal.
  unfold znth. destruct (v <? 0)%Z; [reflexivity|]. generalize (Z.to_nat v) (length (verts m)).
  intros a b. revert a. induction b as [|b IH]; intros [|a]; cbn; auto.
Qed.

(* ---------------------------------------------------------------- vertex normals: the weighted sum, made unit *)
Lemma vertex_normal_finish_def (x : V3) :
  g_vertex_normal_finish Rops x = normalized Rops x /\ (0 < n2 x -> n2 (g_vertex_normal_finish Rops x) = 1).
Proof. split; [reflexivity|]. intros H. apply (normalized_unit x H). Qed.

Lemma vertex_normals_def (w : weighting) (ang : list R) (m : mesh R) :
  vertex_normals Rops w ang m
  = map (normalized Rops) (interpolate_faces_to_vertices Rops (vzero Rops) (vadd Rops) (vscale Rops) (vdiv Rops) w
                             (face_area Rops m) ang m (face_normals Rops m)).
Proof. reflexivity. Qed.

(* which face normals are interpolated: the caller's explicit custom_fnormals always win over a cached attribute, a cached
   attribute over recomputation; with custom normals the result is their weighted sum made unit *)
Lemma vn_source_def (cached : bool) :
  g_vn_source true cached = 0%nat /\ g_vn_source false true = 1%nat /\ g_vn_source false false = 2%nat.
Proof. repeat split. Qed.
Lemma vertex_normals_custom_def (w : weighting) (ang : list R) (m : mesh R) (fn : list V3) :
  vertex_normals_custom Rops w ang m fn
  = map (normalized Rops) (interpolate_faces_to_vertices Rops (vzero Rops) (vadd Rops) (vscale Rops) (vdiv Rops) w
                             (face_area Rops m) ang m fn) /\
  vertex_normals Rops w ang m = vertex_normals_custom Rops w ang m (face_normals Rops m).
Proof. split; reflexivity. Qed.

(* ---------------------------------------------------------------- per-vertex angle defect *)
Lemma fold_false {X A} (f : A -> X -> A) (l : list X) (a : A) : fold_left (fun acc x => if false then f acc x else acc) l a = a.
Proof. induction l; cbn; auto. Qed.

Lemma fold_and_false {X A} (p : X -> bool) (f : A -> X -> A) (l : list X) (a : A) :
  fold_left (fun acc x => if p x && false then f acc x else acc) l a = a.
Proof. induction l as [|x l IH]; cbn [fold_left]; [reflexivity|]. now rewrite andb_false_r. Qed.
Lemma fold_and_true {X A} (p : X -> bool) (f : A -> X -> A) (l : list X) (a : A) :
  fold_left (fun acc x => if p x && true then f acc x else acc) l a = fold_left f (filter p l) a.
Proof.
  rewrite <- fold_left_filter. apply fold_left_ext_in. intros acc x _. now rewrite andb_true_r.
Qed.

Lemma fold_minus {X} (g : X -> R) (l : list X) (a : R) : fold_left (fun acc x => acc - g x) l a = a - Rsum (map g l).
Proof.
  revert a. induction l as [|x l IH]; intros a; unfold Rsum in *; cbn [fold_left map fold_right]; [ring|]. rewrite IH. ring.
Qed.

(* defect(v) = 2 pi - (sum of the corner angles at v) inside, pi - (sum) on the border, 0 on the border when zero_border *)
Lemma angle_defect_def (zb : bool) (pi : R) (ang : list R) (m : mesh R) (v : Z) :
  (forall F, In F (faces m) -> forall u, In u F -> (0 <= u < zlen (verts m))%Z) -> (0 <= v < zlen (verts m))%Z ->
  let on_border := znth (border_flags m) v false in
  let angle_sum := Rsum (map (fun cf => znth ang (fst cf) 0) (corners_at (enumerate (corners (faces m))) v)) in
  znth (angle_defects Rops zb pi ang m) v 0
  = if on_border then (if zb then 0 else pi - angle_sum) else 2 * pi - angle_sum.
Proof.
  intros FR Hv ob asum. change 0 with (o0 Rops) at 1. rewrite (defects_pointwise Rops m zb pi ang m v FR).
  assert (D0 : znth (map (fun b : bool => if b then g_defect_border Rops zb pi else g_defect_init Rops pi) (border_flags m)) v (o0 Rops)
               = if ob then g_defect_border Rops zb pi else g_defect_init Rops pi).
  { apply (znth_map_rng (fun b : bool => if b then g_defect_border Rops zb pi else g_defect_init Rops pi) (border_flags m) v false).
    unfold border_flags. cbv zeta. rewrite zlen_map, zlen_zrange; [exact Hv|unfold zlen; lia]. }
  rewrite D0.
  (* inside the fold the key equals v, so the skip test only depends on v *)
  rewrite (fold_left_ext_in _ (fun acc cv => if (fst (snd cv) =? v)%Z && negb (g_defect_skip ob zb)
                                             then g_defect_step Rops acc (znth ang (fst cv) (o0 Rops)) else acc)).
  2:{ intros acc cv _. destruct (fst (snd cv) =? v)%Z eqn:E; [|reflexivity]. apply Z.eqb_eq in E. unfold ob. now rewrite E. }
  destruct (defect_consts pi 0 0 ob zb) as (I0 & B0 & B1 & SK & _). rewrite SK.
  destruct ob, zb; cbn [andb negb].
  - (* border, zero_border: every update is skipped *)
    rewrite fold_and_false. exact B1.
  - rewrite fold_and_true. unfold g_defect_step. cbn [Rops osub o0]. rewrite fold_minus, B0. unfold asum, corners_at. now rewrite map_map.
  - rewrite fold_and_true. unfold g_defect_step. cbn [Rops osub o0]. rewrite fold_minus, I0. unfold asum, corners_at. now rewrite map_map.
  - rewrite fold_and_true. unfold g_defect_step. cbn [Rops osub o0]. rewrite fold_minus, I0. unfold asum, corners_at. now rewrite map_map.
Qed.

(* ---------------------------------------------------------------- mesh-level cotangent weight *)
(* the contribution of the half-edge (u,v): half the cotangent stored at the corner opposite to it in its face *)
Definition half_edge_term (fs : list (list Z)) (hes : list ((Z * Z) * (Z * Z * Z))) (cot : list R) (u v : Z) : R :=
  match direct_face hes u v with
  | None => 0
  | Some (Tf, i, j) => znth cot (first_corner fs Tf + 3 - i - j) 0 / 2
  end.

(* weight of edge (A,B) = contribution of (A,B) + contribution of (B,A): both sides of the edge, each halved *)
Lemma cw_edge_def (fs : list (list Z)) (hes : list ((Z * Z) * (Z * Z * Z))) (cot : list R) (e : Z * Z) :
  cw_edge Rops fs hes cot e = half_edge_term fs hes cot (fst e) (snd e) + half_edge_term fs hes cot (snd e) (fst e).
Proof.
  unfold cw_edge, half_edge_term. rewrite cw_calls_def. cbn [enum_nat_from fold_left fst snd].
  destruct (direct_face hes (fst e) (snd e)) as [[[T1 i1] j1]|]; destruct (direct_face hes (snd e) (fst e)) as [[[T2 i2] j2]|];
    cbn [g_cw_corner]; rewrite ?cw_term_def by lia; cbn [Rops oadd o0];
    try replace (first_corner fs T2 + 3 - j2 - i2)%Z with (first_corner fs T2 + 3 - i2 - j2)%Z by lia; ring.
Qed.
