(* C07 - mesh-level scaling: every attribute of the uniformly scaled mesh (p -> s p, s > 0) is s^k times the
   attribute of the original mesh: k = 1 lengths, 2 areas, 3 volumes, 0 angles / cotangents / normals / defects;
   positions scale with the mesh. *)
From Coq Require Import ZArith List Bool Reals Lra Psatz Lia.
Require Import MV.Lib.Base MV.C07.Model MV.C07.Gen MV.C07.Mesh MV.C07.Proofs_Base MV.C07.Proofs_Rigid MV.C07.Proofs_MeshRigid
  MV.C07.Proofs_Angles MV.C07.Proofs_Interp MV.C07.Proofs_Keyed.
Import ListNotations.
Open Scope R_scope.

Section MeshScale.
Variable s : R.
Hypothesis Hs : 0 < s.
Variable m : mesh R.
Hypothesis WF : wf_mesh m.
Notation sc := (scl s).
Notation m' := (map_mesh sc m).

Lemma edge_length_scale : edge_length Rops m' = map (Rmult s) (edge_length Rops m).
Proof.
  unfold edge_length. cbn [edges map_mesh]. rewrite map_map. apply map_ext_in. intros e He.
  destruct (wf_edges m WF e He) as [H1 H2]. rewrite !P_map by assumption. now apply distance_scale.
Qed.
Lemma edge_middle_point_scale : edge_middle_point Rops m' = map sc (edge_middle_point Rops m).
Proof.
  unfold edge_middle_point. cbn [edges map_mesh]. rewrite map_map. apply map_ext_in. intros e He.
  destruct (wf_edges m WF e He) as [H1 H2]. rewrite !P_map by assumption. apply edge_middle_scale.
Qed.

(* face area, all branches *)
Lemma fold_scale_gen {X} (f g : X -> R) (k : R) (l : list X) (a : R) :
  (forall x, In x l -> f x = k * g x) ->
  fold_left (fun acc x => acc + f x) l (k * a) = k * fold_left (fun acc x => acc + g x) l a.
Proof.
  revert a. induction l as [|x l IH]; intros a H; [reflexivity|]. cbn [fold_left].
  rewrite (H x (or_introl eq_refl)). replace (k * a + k * g x) with (k * (a + g x)) by ring.
  apply IH. intros. apply H. now right.
Qed.

Lemma face_area_scale_pts (pts : list V3) : g_face_area Rops (map sc pts) = s * s * g_face_area Rops pts.
Proof.
  unfold g_face_area. cbv zeta. rewrite zlen_map.
  destruct (zlen pts =? 3)%Z eqn:E3; [|destruct (zlen pts =? 4)%Z eqn:E4].
  - rewrite !(znth_map_in sc pts _ (vzero Rops)) by lia. now apply triangle_area_scale.
  - rewrite !(znth_map_in sc pts _ (vzero Rops)) by lia. now apply quad_area_scale.
  - destruct pts as [|p0 pts']; [cbn; ring|]. set (pts := p0 :: pts') in *.
    replace (vdiv Rops (vsum Rops (map sc pts)) (oZ Rops (zlen pts)))
      with (sc (vdiv Rops (vsum Rops pts) (oZ Rops (zlen pts)))) by (rewrite <- (mean_scale s pts), zlen_map; reflexivity).
    cbn [Rops oadd o0]. replace 0 with (s * s * 0) at 1 by ring.
    apply fold_scale_gen. intros i Hi. apply In_zrange in Hi. assert (0 < zlen pts)%Z by lia.
    rewrite !(znth_map_in sc pts _ (vzero Rops)) by (try lia; apply Z.mod_pos_bound; lia).
    now apply triangle_area_scale.
Qed.

Lemma face_area_mesh_scale : face_area Rops m' = map (Rmult (s * s)) (face_area Rops m).
Proof.
  unfold face_area. cbn [faces map_mesh]. rewrite map_map. apply map_ext_in. intros F HF.
  rewrite pts_map by (apply (wf_faces m WF F HF)). apply face_area_scale_pts.
Qed.

Lemma face_barycenter_scale : face_barycenter Rops m' = map sc (face_barycenter Rops m).
Proof.
  unfold face_barycenter. cbn [faces map_mesh]. rewrite map_map. apply map_ext_in. intros F HF.
  rewrite pts_map by (apply (wf_faces m WF F HF)). apply mean_scale.
Qed.

(* non-degeneracy of the first three vertices of every face (needed for unit normals) *)
Definition faces_nondegenerate : Prop := forall F, In F (faces m) ->
  0 < n2 (cross (P Rops m (znth F 1 0%Z) -v P Rops m (znth F 0 0%Z)) (P Rops m (znth F 2 0%Z) -v P Rops m (znth F 0 0%Z))).

Lemma face_normals_scale : faces_nondegenerate -> face_normals Rops m' = face_normals Rops m.
Proof.
  intros ND. unfold face_normals. cbn [faces map_mesh]. apply map_ext_in. intros F HF. destruct (wf_faces m WF F HF) as [L _].
  rewrite !P_map by (apply (face_vertex_rng m WF); [assumption|lia]). apply face_normal_scale; [assumption|apply ND, HF].
Qed.

(* corner pairs scale by s^2, hence the angles are unchanged *)
Lemma corner_pairs_scale :
  corner_pairs Rops m' = map (fun p => (s * s * fst p, s * s * snd p)) (corner_pairs Rops m).
Proof.
  unfold corner_pairs. cbn [faces map_mesh].
  assert (E : forall F, In F (faces m) ->
     face_corner_pairs Rops m' F = map (fun p => (s * s * fst p, s * s * snd p)) (face_corner_pairs Rops m F)).
  { intros F HF. unfold face_corner_pairs. cbv zeta. rewrite map_map. apply map_ext_in. intros i Hi. apply In_zrange in Hi.
    destruct (wf_faces m WF F HF) as [L _]. rewrite corner_vertices_def.
    rewrite !P_map by (apply (face_vertex_rng m WF); [assumption|try lia; apply Z.mod_pos_bound; lia]).
    rewrite !corner_angle_def. now apply angle3_scale. }
  induction (faces m) as [|F l IH]; [reflexivity|]. cbn [flat_map]. rewrite map_app, E by now left. f_equal.
  apply IH. intros. apply E. now right.
Qed.

Lemma atan2_pair_scale (k : R) (p : R * R) : 0 < k -> atan2_pair (k * fst p, k * snd p) = atan2_pair p.
Proof.
  intros Hk. destruct p as [c sn]. unfold atan2_pair, atan2_up. cbn [fst snd]. f_equal.
  replace (k * c * (k * c) + k * sn * (k * sn)) with ((k * k) * (c * c + sn * sn)) by ring.
  rewrite sqrt_mult by nra. rewrite sqrt_square by lra.
  destruct (Req_dec (c * c + sn * sn) 0) as [Z0|NZ].
  - assert (c = 0) by nra. subst c. unfold Rdiv. ring.
  - assert (0 < sqrt (c * c + sn * sn)) by (apply sqrt_lt_R0; nra). field. lra.
Qed.

Lemma model_angles_scale : map atan2_pair (corner_pairs Rops m') = map atan2_pair (corner_pairs Rops m).
Proof.
  rewrite corner_pairs_scale, map_map. apply map_ext. intros p. apply atan2_pair_scale. nra.
Qed.

(* triangulations with non-degenerate triangles: cotangents and cotangent weights are unchanged *)
Lemma cotangent_scale :
  (forall F, In F (faces m) -> zlen F = 3%Z) -> faces_nondegenerate -> cotangent Rops m' = cotangent Rops m.
Proof.
  intros TRI ND. unfold cotangent. cbn [faces map_mesh].
  assert (E : forall F, In F (faces m) ->
     g_cot_face Rops (P Rops m' (znth F 0 0%Z)) (P Rops m' (znth F 1 0%Z)) (P Rops m' (znth F 2 0%Z))
     = g_cot_face Rops (P Rops m (znth F 0 0%Z)) (P Rops m (znth F 1 0%Z)) (P Rops m (znth F 2 0%Z))).
  { intros F HF. destruct (wf_faces m WF F HF) as [L _].
    rewrite !P_map by (apply (face_vertex_rng m WF); [assumption|lia]).
    set (A := P Rops m (znth F 0 0%Z)). set (B := P Rops m (znth F 1 0%Z)). set (C := P Rops m (znth F 2 0%Z)).
    pose proof (ND F HF) as N. fold A B C in N.
    assert (N1 : 0 < n2 (cross (C -v A) (B -v A))) by (rewrite (cross_same_1 A B C); exact N).
    assert (N2 : 0 < n2 (cross (A -v B) (C -v B))) by (rewrite (cross_same_2 A B C); exact N).
    assert (N3 : 0 < n2 (cross (B -v C) (A -v C))) by (rewrite (cross_same_3 A B C); exact N).
    unfold g_cot_face. rewrite !(cotan_scale s Hs) by assumption. reflexivity. }
  clear TRI ND. induction (faces m) as [|F l IH]; [reflexivity|]. cbn [flat_map]. rewrite E by now left. f_equal.
  apply IH. intros. apply E. now right.
Qed.

Lemma cotan_weights_scale :
  (forall F, In F (faces m) -> zlen F = 3%Z) -> faces_nondegenerate -> cotan_weights Rops m' = cotan_weights Rops m.
Proof. intros TRI ND. unfold cotan_weights. cbv zeta. rewrite cotangent_scale by assumption. reflexivity. Qed.

(* quantities that do not look at the coordinates *)
Lemma degree_scale : degree m' = degree m.
Proof. unfold degree. cbn [edges verts map_mesh]. now rewrite map_length. Qed.
Lemma angle_defects_scale zb pi ang : angle_defects Rops zb pi ang m' = angle_defects Rops zb pi ang m.
Proof. unfold angle_defects, border_flags. cbn [edges faces verts map_mesh]. now rewrite zlen_map. Qed.
Lemma euler_scale : euler_characteristic m' = euler_characteristic m.
Proof. unfold euler_characteristic. cbn [edges faces verts map_mesh]. now rewrite zlen_map. Qed.

(* cells *)
Lemma cell_volume_mesh_scale : cell_volume Rops m' = map (Rmult (s * s * s)) (cell_volume Rops m).
Proof.
  unfold cell_volume. cbn [cells map_mesh]. rewrite map_map. apply map_ext_in. intros C HC.
  rewrite !P_map by (apply (cell_vertex_rng m WF); [assumption|lia]). now apply cell_volume_scale.
Qed.
Lemma cell_barycenter_scale : cell_barycenter Rops m' = map sc (cell_barycenter Rops m).
Proof.
  unfold cell_barycenter. cbn [cells map_mesh]. rewrite map_map. apply map_ext_in. intros C HC.
  rewrite pts_map by (apply (wf_cells m WF C HC)). apply mean_scale.
Qed.

(* global sums and means *)
Lemma firstn_map {X Y} (f : X -> Y) (n : nat) (l : list X) : firstn n (map f l) = map f (firstn n l).
Proof. revert l. induction n as [|n IH]; intros [|x l]; cbn; try reflexivity. now rewrite IH. Qed.

Lemma fold_sum_scaled (k : R) (l : list R) : fold_left Rplus (map (Rmult k) l) 0 = k * fold_left Rplus l 0.
Proof.
  rewrite fold_left_map. replace 0 with (k * 0) at 1 by ring.
  apply (fold_scale_gen (fun x => k * x) (fun x => x)). reflexivity.
Qed.

Lemma total_area_scale : total_area Rops m' = s * s * total_area Rops m.
Proof.
  unfold total_area, g_total_area, ssum. rewrite face_area_mesh_scale. cbn [Rops oadd o0]. apply fold_sum_scaled.
Qed.

Lemma mean_face_area_scale n : mean_face_area Rops m' n = s * s * mean_face_area Rops m n.
Proof.
  unfold mean_face_area. cbn [faces map_mesh]. cbv zeta. rewrite face_area_mesh_scale, firstn_map.
  unfold g_mean_face_area_result. cbn [Rops oadd o0 odiv]. rewrite fold_sum_scaled. unfold Rdiv. ring.
Qed.
Lemma mean_cell_volume_scale n : mean_cell_volume Rops m' n = s * s * s * mean_cell_volume Rops m n.
Proof.
  unfold mean_cell_volume. cbn [cells map_mesh]. cbv zeta. rewrite cell_volume_mesh_scale, firstn_map.
  unfold g_mean_cell_volume_result. cbn [Rops oadd o0 odiv]. rewrite fold_sum_scaled. unfold Rdiv. ring.
Qed.
Lemma mean_edge_length_scale n : mean_edge_length Rops m' n = s * mean_edge_length Rops m n.
Proof.
  unfold mean_edge_length. cbn [edges map_mesh]. cbv zeta. unfold g_mean_edge_length_result. cbn [Rops oadd o0 odiv].
  replace 0 with (s * 0) at 1 by ring.
  rewrite (fold_scale_gen _ (fun e => g_mean_edge_length_item Rops (P Rops m (fst e)) (P Rops m (snd e))) s).
  - unfold Rdiv. ring.
  - intros e He. apply In_firstn_In in He. destruct (wf_edges m WF e He) as [H1 H2]. rewrite !P_map by assumption.
    unfold g_mean_edge_length_item. rewrite scl_sub. now apply norm_scl.
Qed.
Lemma barycenter_mesh_scale : barycenter Rops m' = sc (barycenter Rops m).
Proof. unfold barycenter. cbn [verts map_mesh]. apply mean_scale. Qed.

(* vertex normals: the uniform and angle weightings see identical inputs; the area weighting sees all weights
   multiplied by s^2, which cancels when every vertex has positive total area *)
Lemma vertex_normals_scale_uniform_angle (w : weighting) (ang : list R) :
  w = WUniform \/ w = WAngle -> faces_nondegenerate ->
  vertex_normals Rops w ang m' = vertex_normals Rops w ang m.
Proof.
  intros Hw ND. unfold vertex_normals. rewrite face_normals_scale by assumption. f_equal.
  unfold interpolate_faces_to_vertices. cbn [faces verts map_mesh]. cbv zeta. rewrite zlen_map.
  destruct Hw as [-> | ->]; reflexivity.
Qed.

(* area weighting *)
Lemma area_fold_scaled {X} (k : R) (x : X -> V3) (w : X -> R) (l : list X) (a : V3) (t : R) :
  fold_left (fun at_ c => (fst at_ +v vscale Rops (k * w c) (x c), snd at_ + k * w c)) l (vscale Rops k a, k * t)
  = (vscale Rops k (fst (fold_left (fun at_ c => (fst at_ +v vscale Rops (w c) (x c), snd at_ + w c)) l (a, t))),
     k * snd (fold_left (fun at_ c => (fst at_ +v vscale Rops (w c) (x c), snd at_ + w c)) l (a, t))).
Proof.
  revert a t. induction l as [|c l IH]; intros a t; [reflexivity|]. cbn [fold_left fst snd].
  replace (vscale Rops k a +v vscale Rops (k * w c) (x c), k * t + k * w c)
    with (vscale Rops k (a +v vscale Rops (w c) (x c)), k * (t + w c)); [apply IH|].
  f_equal; [|ring]. generalize (x c). intros u. dvec a. dvec u. unfR. apply vec_eq3; ring.
Qed.

Lemma area_fold_snd {X} (x : X -> V3) (w : X -> R) (l : list X) (a : V3) (t : R) :
  snd (fold_left (fun at_ c => (fst at_ +v vscale Rops (w c) (x c), snd at_ + w c)) l (a, t)) = t + sumw w l.
Proof.
  revert a t. induction l as [|c l IH]; intros a t; unfold sumw; cbn [fold_left fold_right fst snd]; [ring|].
  rewrite IH. unfold sumw. ring.
Qed.

Lemma vertex_normals_scale_area (ang : list R) :
  faces_nondegenerate ->
  (forall f, (0 <= f < zlen (faces m))%Z -> 0 < znth (face_area Rops m) f 0) ->
  (forall v, (0 <= v < zlen (verts m))%Z -> exists F, In F (faces m) /\ In v F) ->
  vertex_normals Rops WArea ang m' = vertex_normals Rops WArea ang m.
Proof.
  intros ND POS USED. unfold vertex_normals. rewrite face_normals_scale, face_area_mesh_scale by assumption. f_equal.
  unfold interpolate_faces_to_vertices. cbn [faces verts map_mesh]. cbv zeta. rewrite zlen_map.
  apply map_ext_in. intros v Hv. apply In_zrange in Hv.
  set (cv := corners_at _ v).
  assert (Hne : cv <> []) by (apply corners_at_nonempty, USED, Hv).
  assert (Hin : forall cf, In cf cv -> (0 <= snd cf < zlen (faces m))%Z).
  { intros [k f] Hcf. apply corners_at_In in Hcf. apply Hcf. }
  unfold g_f2v_area_fin, g_f2v_area_acc, g_f2v_area_tot. cbn [Rops oadd o0].
  set (N := face_normals Rops m). set (AR := face_area Rops m).
  assert (E : fold_left (fun at_ cf => (fst at_ +v vscale Rops (znth (map (Rmult (s * s)) AR) (snd cf) 0) (znth N (snd cf) (vzero Rops)),
                                        snd at_ + znth (map (Rmult (s * s)) AR) (snd cf) 0)) cv (vzero Rops, 0)
              = fold_left (fun at_ cf => (fst at_ +v vscale Rops (s * s * znth AR (snd cf) 0) (znth N (snd cf) (vzero Rops)),
                                        snd at_ + s * s * znth AR (snd cf) 0)) cv (vzero Rops, 0)).
  { apply fold_left_ext_in. intros at_ cf Hcf. rewrite (znth_map_in (Rmult (s * s)) AR _ 0).
    - reflexivity.
    - unfold AR, face_area. rewrite zlen_map. apply Hin, Hcf. }
  rewrite E. clear E.
  replace (vzero Rops, 0) with (vscale Rops (s * s) (vzero Rops), s * s * 0) at 1 2
    by (f_equal; [unfR; apply vec_eq3; ring|ring]).
  rewrite (area_fold_scaled (s * s) (fun cf => znth N (snd cf) (vzero Rops)) (fun cf => znth AR (snd cf) 0) cv).
  cbn [fst snd].
  set (r := fold_left _ cv (vzero Rops, 0)).
  assert (T0 : 0 < snd r).
  { unfold r. rewrite area_fold_snd. assert (0 < sumw (fun cf => znth AR (snd cf) 0) cv); [|lra].
    apply sumw_pos; [exact Hne|]. intros cf Hcf. apply POS, Hin, Hcf. }
  generalize (fst r) (snd r) T0. intros u t Ht. assert (0 < s * s) by nra.
  dvec u. unfR. apply vec_eq3; field; lra.
Qed.
End MeshScale.
