(* C07 - vertex-indexed attributes under a renumbering of the vertices: entry sigma(v) of the attribute of the
   renumbered mesh is entry v of the attribute of the original mesh (degree, border flags, angle defects, the
   faces->vertices and corners->vertices interpolations for every weighting, vertex normals).
   The renumbered mesh may store each edge in either orientation (mouette keeps edges sorted). *)
From Coq Require Import ZArith List Bool Reals Lia.
Require Import MV.Lib.Base MV.C07.Model MV.C07.Gen MV.C07.Mesh MV.C07.Proofs_Base MV.C07.Proofs_Rigid MV.C07.Proofs_MeshRigid
  MV.C07.Proofs_Renum MV.C07.Proofs_Count MV.C07.Proofs_Keyed.
Import ListNotations.
Open Scope Z_scope.

Lemma znth_map_rng {X Y} (g : X -> Y) (l : list X) (i : Z) (dx : X) (dy : Y) :
  0 <= i < zlen l -> znth (map g l) i dy = g (znth l i dx).
Proof. apply znth_map_in. Qed.

Lemma znth_zrange (n i d : Z) : 0 <= i < n -> znth (zrange n) i d = i.
Proof.
  intros H. unfold znth, zrange. destruct (i <? 0) eqn:E; [lia|].
  rewrite nth_indep with (d' := Z.of_nat 0) by (rewrite map_length, seq_length; lia).
  rewrite map_nth, seq_nth by lia. lia.
Qed.

Lemma zlen_zrange n : 0 <= n -> zlen (zrange n) = n.
Proof. intros. unfold zlen. rewrite zrange_length. lia. Qed.

Lemma fold_left_flat_map {X Y A} (g : X -> list Y) (f : A -> Y -> A) (l : list X) (a : A) :
  fold_left (fun acc x => fold_left f (g x) acc) l a = fold_left f (flat_map g l) a.
Proof. revert a. induction l as [|x l IH]; intros a; [reflexivity|]. cbn [fold_left flat_map]. now rewrite fold_left_app, IH. Qed.

Lemma existsb_map {X Y} (g : X -> Y) (p : Y -> bool) (l : list X) : existsb p (map g l) = existsb (fun x => p (g x)) l.
Proof. induction l as [|x l IH]; [reflexivity|]. cbn. now rewrite IH. Qed.

Lemma existsb_ext_in {X} (p q : X -> bool) (l : list X) : (forall x, In x l -> p x = q x) -> existsb p l = existsb q l.
Proof.
  induction l as [|x l IH]; intros H; [reflexivity|]. cbn. rewrite H by now left. f_equal. apply IH. intros. apply H. now right.
Qed.

Section RenumV.
Context {T : Type} (o : ops T).
Variable m m' : mesh T.
Variable sigma : Z -> Z.
Variable sw : Z * Z -> bool.     (* which edges are stored with their endpoints swapped in the renumbered mesh *)
Let nV := zlen (verts m).

Hypothesis LEN : zlen (verts m') = nV.
Hypothesis INJ : forall u v, 0 <= u < nV -> 0 <= v < nV -> sigma u = sigma v -> u = v.
Hypothesis MAPS : forall v, 0 <= v < nV -> 0 <= sigma v < nV.
Hypothesis FRNG : forall F, In F (faces m) -> forall v, In v F -> 0 <= v < nV.
Hypothesis ERNG : forall e, In e (edges m) -> 0 <= fst e < nV /\ 0 <= snd e < nV.
Hypothesis FACES : faces m' = map (map sigma) (faces m).
Hypothesis EDGES : edges m' = map (fun e => if sw e then (sigma (snd e), sigma (fst e)) else (sigma (fst e), sigma (snd e))) (edges m).

Definition ren2 (k : Z * Z) : Z * Z := (sigma (fst k), sigma (snd k)).

(* ---------------------------------------------------------------- half-edge table and border tests *)
Lemma keys_rename : keys (faces m') = map ren2 (keys (faces m)).
Proof.
  unfold keys, half_edges, enumerate. rewrite FACES, enum_from_map, flat_map_map_l, !map_flat_map.
  apply flat_map_ext_in'. intros [k F] HkF. cbn [fst snd]. rewrite zlen_map, !map_map.
  apply map_ext_in. intros i Hi. apply In_zrange in Hi. cbn [fst]. unfold ren2. cbn [fst snd].
  rewrite !(znth_map_rng sigma F _ 0) by (try lia; apply Z.mod_pos_bound; lia). reflexivity.
Qed.

Lemma keys_rng k : In k (keys (faces m)) -> 0 <= fst k < nV /\ 0 <= snd k < nV.
Proof.
  unfold keys, half_edges. rewrite in_map_iff. intros [h [<- Hh]]. apply in_flat_map in Hh as [[f F] [HF Hh]].
  cbn [fst snd] in Hh. apply in_map_iff in Hh as [i [<- Hi]]. apply In_zrange in Hi. cbn [fst snd].
  assert (In F (faces m)).
  { clear - HF. unfold enumerate in HF. revert HF. generalize 0. induction (faces m) as [|G l IH]; intros s H; [destruct H|].
    cbn in H. destruct H as [H|H]; [inversion H; now left|right; eapply IH; eassumption]. }
  split; apply (FRNG F H), znth_In; try lia. apply Z.mod_pos_bound. lia.
Qed.

Lemma pmem_rename (a b : Z) : 0 <= a < nV -> 0 <= b < nV ->
  pmem (sigma a, sigma b) (keys (faces m')) = pmem (a, b) (keys (faces m)).
Proof.
  intros Ha Hb. rewrite keys_rename. unfold pmem. rewrite existsb_map. apply existsb_ext_in. intros k Hk.
  destruct (keys_rng k Hk) as [K1 K2]. unfold peqb, ren2. cbn [fst snd].
  destruct (a =? fst k) eqn:E1, (b =? snd k) eqn:E2; cbn [andb];
    repeat match goal with H : (_ =? _) = true |- _ => apply Z.eqb_eq in H | H : (_ =? _) = false |- _ => apply Z.eqb_neq in H end.
  - subst. now rewrite !Z.eqb_refl.
  - apply andb_false_iff. right. apply Z.eqb_neq. intros E. apply E2, INJ; assumption.
  - apply andb_false_iff. left. apply Z.eqb_neq. intros E. apply E1, INJ; assumption.
  - apply andb_false_iff. left. apply Z.eqb_neq. intros E. apply E1, INJ; assumption.
Qed.

Lemma edge_on_border_rename (e : Z * Z) : In e (edges m) ->
  edge_on_border (half_edges (faces m')) (if sw e then (sigma (snd e), sigma (fst e)) else (sigma (fst e), sigma (snd e)))
  = edge_on_border (half_edges (faces m)) e.
Proof.
  intros He. destruct (ERNG e He) as [H1 H2]. unfold edge_on_border. rewrite !direct_face_some. fold (keys (faces m')) (keys (faces m)).
  destruct (sw e); cbn [fst snd]; rewrite !pmem_rename by assumption; [apply orb_comm|reflexivity].
Qed.

Lemma vertex_on_border_rename (v : Z) : 0 <= v < nV ->
  vertex_on_border (half_edges (faces m')) (edges m') (sigma v) = vertex_on_border (half_edges (faces m)) (edges m) v.
Proof.
  intros Hv. unfold vertex_on_border. rewrite EDGES, existsb_map. apply existsb_ext_in. intros e He.
  rewrite edge_on_border_rename by assumption. f_equal. destruct (ERNG e He) as [H1 H2].
  assert (Q : forall u, 0 <= u < nV -> (sigma u =? sigma v) = (u =? v)).
  { intros u Hu. destruct (u =? v) eqn:E; [apply Z.eqb_eq in E; subst; apply Z.eqb_refl|].
    apply Z.eqb_neq in E. apply Z.eqb_neq. intros E'. apply E, INJ; assumption. }
  destruct (sw e); cbn [fst snd]; rewrite !Q by assumption; [apply orb_comm|reflexivity].
Qed.

Lemma border_flags_rename (v : Z) : 0 <= v < nV -> znth (border_flags m') (sigma v) false = znth (border_flags m) v false.
Proof.
  intros Hv. unfold border_flags. cbv zeta. rewrite LEN. fold nV.
  rewrite !(znth_map_rng _ (zrange nV) _ 0) by (rewrite zlen_zrange; [auto|lia]).
  rewrite !znth_zrange by auto. now apply vertex_on_border_rename.
Qed.

(* ---------------------------------------------------------------- degree *)
Lemma degree_pointwise (mm : mesh T) (v : Z) :
  (forall e, In e (edges mm) -> 0 <= fst e < zlen (verts mm) /\ 0 <= snd e < zlen (verts mm)) ->
  znth (degree mm) v 0 = fold_left (fun acc x => if x =? v then acc + 1 else acc) (flat_map (fun e => [fst e; snd e]) (edges mm)) (znth (repeat 0 (length (verts mm))) v 0).
Proof.
  intros H. unfold degree.
  rewrite (fold_left_flat_map (fun e => g_degree_ends (fst e) (snd e)) (fun d x => zupd d x (znth d x 0 + 1))).
  pose proof (keyed_fold_znth (fun x : Z => x) (fun _ => false) (fun acc _ => acc + 1) 0) as K. unfold kstep in K.
  rewrite K.
  - apply fold_left_ext_in. intros acc x _. now rewrite andb_true_r.
  - intros x Hx. apply in_flat_map in Hx as [e [He Hx]]. destruct (H e He). unfold zlen. rewrite repeat_length.
    cbn in Hx. unfold zlen in *. destruct Hx as [<-|[<-|[]]]; lia.
Qed.

Lemma degree_rename (v : Z) : 0 <= v < nV -> znth (degree m') (sigma v) 0 = znth (degree m) v 0.
Proof.
  intros Hv. rewrite !degree_pointwise.
  - assert (Z0 : forall (mm : mesh T) i, znth (repeat 0 (length (verts mm))) i 0 = 0).
    { intros mm i. unfold znth. destruct (i <? 0); [reflexivity|]. generalize (Z.to_nat i) (length (verts mm)).
      intros a b. revert a. induction b as [|b IH]; intros [|a]; cbn; auto. }
    rewrite !Z0. rewrite EDGES, flat_map_map_l.
    assert (Q : forall u, 0 <= u < nV -> (sigma u =? sigma v) = (u =? v)).
    { intros u Hu. destruct (u =? v) eqn:E; [apply Z.eqb_eq in E; subst; apply Z.eqb_refl|].
      apply Z.eqb_neq in E. apply Z.eqb_neq. intros E'. apply E, INJ; assumption. }
    assert (G : forall l, (forall e, In e l -> In e (edges m)) -> forall a,
       fold_left (fun acc x => if x =? sigma v then acc + 1 else acc)
         (flat_map (fun x => [fst (if sw x then (sigma (snd x), sigma (fst x)) else (sigma (fst x), sigma (snd x)));
                              snd (if sw x then (sigma (snd x), sigma (fst x)) else (sigma (fst x), sigma (snd x)))]) l) a
       = fold_left (fun acc x => if x =? v then acc + 1 else acc) (flat_map (fun e => [fst e; snd e]) l) a); [|apply G; auto].
    induction l as [|e l IH]; intros Hl a; [reflexivity|]. cbn [flat_map]. rewrite !fold_left_app.
    destruct (ERNG e (Hl e (or_introl eq_refl))) as [H1 H2].
    assert (E : fold_left (fun acc x => if x =? sigma v then acc + 1 else acc)
                  [fst (if sw e then (sigma (snd e), sigma (fst e)) else (sigma (fst e), sigma (snd e)));
                   snd (if sw e then (sigma (snd e), sigma (fst e)) else (sigma (fst e), sigma (snd e)))] a
                = fold_left (fun acc x => if x =? v then acc + 1 else acc) [fst e; snd e] a).
    { destruct (sw e); cbn [fst snd fold_left]; rewrite !Q by assumption;
        destruct (fst e =? v), (snd e =? v); lia. }
    rewrite E. apply IH. intros e' He'. apply Hl. now right.
  - exact ERNG.
  - intros e He. rewrite EDGES in He. apply in_map_iff in He as [e0 [<- He0]]. destruct (ERNG e0 He0) as [H1 H2].
    rewrite LEN. destruct (sw e0); cbn [fst snd]; split; apply MAPS; assumption.
Qed.

(* ---------------------------------------------------------------- angle defects *)
Lemma defects_pointwise (zb : bool) (pi : T) (ang : list T) (mm : mesh T) (v : Z) :
  (forall F, In F (faces mm) -> forall u, In u F -> 0 <= u < zlen (verts mm)) ->
  znth (angle_defects o zb pi ang mm) v (o0 o)
  = fold_left (fun acc cv => if (fst (snd cv) =? v) && negb (g_defect_skip (znth (border_flags mm) (fst (snd cv)) false) zb)
                             then g_defect_step o acc (znth ang (fst cv) (o0 o)) else acc)
      (enumerate (corners (faces mm)))
      (znth (map (fun b : bool => if b then g_defect_border o zb pi else g_defect_init o pi) (border_flags mm)) v (o0 o)).
Proof.
  intros H. unfold angle_defects. cbv zeta.
  pose proof (keyed_fold_znth (fun cv : Z * (Z * Z) => fst (snd cv))
                (fun cv => g_defect_skip (znth (border_flags mm) (fst (snd cv)) false) zb)
                (fun acc cv => g_defect_step o acc (znth ang (fst cv) (o0 o))) (o0 o)) as K.
  unfold kstep in K. apply K.
  intros [C [V f]] Hx. cbn [fst snd]. unfold enumerate in Hx.
  assert (Hc : In (V, f) (corners (faces mm))).
  { clear - Hx. revert Hx. generalize 0. induction (corners (faces mm)) as [|y l IH]; intros s Hx; [destruct Hx|].
    cbn in Hx. destruct Hx as [Hx|Hx]; [inversion Hx; now left|right; eapply IH; eassumption]. }
  apply in_corners_vertex in Hc as [F [HF HV]]. specialize (H F HF V HV).
  rewrite zlen_map. unfold border_flags. cbv zeta. rewrite zlen_map, zlen_zrange; [exact H|unfold zlen; lia].
Qed.

Lemma angle_defects_rename (zb : bool) (pi : T) (ang : list T) (v : Z) : 0 <= v < nV ->
  znth (angle_defects o zb pi ang m') (sigma v) (o0 o) = znth (angle_defects o zb pi ang m) v (o0 o).
Proof.
  intros Hv. rewrite !defects_pointwise.
  - assert (D0 : forall (mm : mesh T) u, 0 <= u < zlen (verts mm) ->
        znth (map (fun b : bool => if b then g_defect_border o zb pi else g_defect_init o pi) (border_flags mm)) u (o0 o)
        = if znth (border_flags mm) u false then g_defect_border o zb pi else g_defect_init o pi).
    { intros mm u Hu. apply (znth_map_rng (fun b : bool => if b then g_defect_border o zb pi else g_defect_init o pi) (border_flags mm) u false). unfold border_flags. cbv zeta.
      rewrite zlen_map, zlen_zrange; [exact Hu|unfold zlen; lia]. }
    rewrite !D0 by (rewrite ?LEN; auto). rewrite border_flags_rename by assumption.
    generalize (if znth (border_flags m) v false then g_defect_border o zb pi else g_defect_init o pi). intros a0.
    unfold enumerate. rewrite FACES, corners_rename, enum_from_map, fold_left_map.
    apply fold_left_ext_in. intros acc [C [V f]] Hx. cbn [fst snd].
    assert (HV : 0 <= V < nV).
    { assert (Hc : In (V, f) (corners (faces m))).
      { clear - Hx. revert Hx. generalize 0. induction (corners (faces m)) as [|y l IH]; intros s Hx; [destruct Hx|].
        cbn in Hx. destruct Hx as [Hx|Hx]; [inversion Hx; now left|right; eapply IH; eassumption]. }
      apply in_corners_vertex in Hc as [F [HF HV]]. exact (FRNG F HF V HV). }
    rewrite border_flags_rename by assumption.
    replace (sigma V =? sigma v) with (V =? v); [reflexivity|].
    destruct (V =? v) eqn:E; [apply Z.eqb_eq in E; subst; symmetry; apply Z.eqb_refl|].
    apply Z.eqb_neq in E. symmetry. apply Z.eqb_neq. intros E'. apply E, INJ; assumption.
  - exact FRNG.
  - intros F HF u Hu. rewrite FACES in HF. apply in_map_iff in HF as [F0 [<- HF0]]. apply in_map_iff in Hu as [u0 [<- Hu0]].
    rewrite LEN. apply MAPS, (FRNG F0 HF0 u0 Hu0).
Qed.

(* ---------------------------------------------------------------- interpolations onto vertices (any value type) *)
Section Interp.
Context {A : Type} (azero : A) (aadd : A -> A -> A) (ascale : T -> A -> A) (adiv : A -> T -> A).

Lemma f2v_rename (w : weighting) (area ang : list T) (fattr : list A) (v : Z) : 0 <= v < nV ->
  znth (interpolate_faces_to_vertices o azero aadd ascale adiv w area ang m' fattr) (sigma v) azero
  = znth (interpolate_faces_to_vertices o azero aadd ascale adiv w area ang m fattr) v azero.
Proof.
  intros Hv. unfold interpolate_faces_to_vertices. cbv zeta. rewrite LEN. fold nV.
  rewrite !(znth_map_rng _ (zrange nV) _ 0) by (rewrite zlen_zrange; [auto|lia]).
  rewrite !znth_zrange by auto. rewrite FACES, (corners_at_rename sigma nV INJ (faces m) FRNG v Hv). reflexivity.
Qed.

Lemma c2v_rename (w : weighting) (ang : list T) (cattr : list A) (v : Z) : 0 <= v < nV ->
  match average_corners_to_vertices o azero aadd ascale adiv w ang m' cattr,
        average_corners_to_vertices o azero aadd ascale adiv w ang m cattr with
  | Some l', Some l => znth l' (sigma v) azero = znth l v azero
  | None, None => True
  | _, _ => False
  end.
Proof.
  intros Hv. unfold average_corners_to_vertices. cbv zeta. destruct w; try exact I; rewrite LEN; fold nV;
    rewrite !(znth_map_rng _ (zrange nV) _ 0) by (rewrite zlen_zrange; [auto|lia]);
    rewrite !znth_zrange by auto; rewrite FACES, (corners_at_rename sigma nV INJ (faces m) FRNG v Hv); reflexivity.
Qed.
End Interp.
End RenumV.
