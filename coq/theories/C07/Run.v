(* C07 - executable instances of the operations record (exact rationals, binary64) and the boolean checkers the
   kernel-evaluated correspondence batches run.  No proofs.
   Every number of a case is a dyadic (m, e) = m * 2^e: exactly the binary64 value the implementation held. *)
From Coq Require Import ZArith List Bool QArith Qabs Qreduction.
From Coq Require Import Uint63 PrimFloat.
Require Import MV.Lib.Base MV.Lib.FloatLit MV.C07.Model MV.C07.Gen MV.C07.Mesh.
Import ListNotations.
Open Scope Z_scope.

(* ---------------------------------------------------------------- instances *)
Definition Fops : ops float :=
  mkops float PrimFloat.zero PrimFloat.one PrimFloat.add PrimFloat.sub PrimFloat.mul PrimFloat.div PrimFloat.sqrt PrimFloat.leb.

(* exact rationals; sqrt is NOT available: Qops is only used for the sqrt-free quantities
   (midpoints, barycentres, determinants/volumes, uniform and sum interpolation) *)
Definition Qops : ops Q :=
  mkops Q 0%Q 1%Q (fun a b => Qred (a + b)) (fun a b => Qred (a - b)) (fun a b => Qred (a * b))
        (fun a b => Qred (a / b)) (fun a => a) Qle_bool.

Definition dy := (Z * Z)%type.
Definition dy3 := (dy * dy * dy)%type.
Definition dyF (d : dy) : float := mkf (fst d) (snd d).
Definition dyQ (d : dy) : Q :=
  if 0 <=? snd d then inject_Z (fst d * 2 ^ (snd d)) else Qred (Qmake (fst d) (Z.to_pos (2 ^ (- snd d)))).
Definition dy3F (p : dy3) : vec float := (dyF (fst (fst p)), dyF (snd (fst p)), dyF (snd p)).
Definition dy3Q (p : dy3) : vec Q := (dyQ (fst (fst p)), dyQ (snd (fst p)), dyQ (snd p)).

(* ---------------------------------------------------------------- comparisons (model value vs implementation value) *)
Definition fcl (model impl : float) : bool := fclose tol9 model impl.
Definition qtol : Q := (1 # 1000000000)%Q.
Definition qcl (model impl : Q) : bool := Qle_bool (Qabs (model - impl)) (qtol * (1 + Qabs impl)).

Fixpoint all2 {A B} (f : A -> B -> bool) (a : list A) (b : list B) : bool :=
  match a, b with
  | [], [] => true
  | x :: s, y :: t => f x y && all2 f s t
  | _, _ => false
  end.
Definition v3cl {X} (cl : X -> X -> bool) (a b : X * X * X) : bool :=
  cl (fst (fst a)) (fst (fst b)) && cl (snd (fst a)) (snd (fst b)) && cl (snd a) (snd b).
Definition lF (model : list float) (impl : list dy) : bool := all2 (fun a b => fcl a (dyF b)) model impl.
Definition lQ (model : list Q) (impl : list dy) : bool := all2 (fun a b => qcl a (dyQ b)) model impl.
(* vectors: the tolerance is relative to the size (max-norm) of the implementation's vector, so that a component that
   should vanish may carry the round-off of the other components (a mesh scaled by 2^130 has coordinates ~1e39) *)
Definition fmax3 (b : vec float) : float :=
  let m (x y : float) := if PrimFloat.leb x y then y else x in
  m (m (PrimFloat.abs (fst (fst b))) (PrimFloat.abs (snd (fst b)))) (PrimFloat.abs (snd b)).
Definition fclv (a b : vec float) : bool :=
  let t := PrimFloat.mul tol9 (PrimFloat.add PrimFloat.one (fmax3 b)) in
  PrimFloat.leb (PrimFloat.abs (PrimFloat.sub (fst (fst a)) (fst (fst b)))) t
  && PrimFloat.leb (PrimFloat.abs (PrimFloat.sub (snd (fst a)) (snd (fst b)))) t
  && PrimFloat.leb (PrimFloat.abs (PrimFloat.sub (snd a) (snd b))) t.
Definition qmax3 (b : vec Q) : Q :=
  let m (x y : Q) := if Qle_bool x y then y else x in m (m (Qabs (fst (fst b))) (Qabs (snd (fst b)))) (Qabs (snd b)).
Definition qclv (a b : vec Q) : bool :=
  let t := (qtol * (1 + qmax3 b))%Q in
  Qle_bool (Qabs (fst (fst a) - fst (fst b))) t && Qle_bool (Qabs (snd (fst a) - snd (fst b))) t && Qle_bool (Qabs (snd a - snd b)) t.
Definition lF3 (model : list (vec float)) (impl : list dy3) : bool := all2 (fun a b => fclv a (dy3F b)) model impl.
Definition lQ3 (model : list (vec Q)) (impl : list dy3) : bool := all2 (fun a b => qclv a (dy3Q b)) model impl.

(* an implementation angle theta with (cos theta, sin theta) computed by Python's math: agrees with the model's
   pair (c, s) iff the normalised pair is (cos, sin) and theta lies in [0, pi] *)
Definition pi_f : float := mkf 884279719003555 (-48).
Definition ang_ok (pair : float * float) (a : dy3) : bool :=
  let c := fst pair in let s := snd pair in
  let r := PrimFloat.sqrt (PrimFloat.add (PrimFloat.mul c c) (PrimFloat.mul s s)) in
  let th := dyF (fst (fst a)) in
  fcl (PrimFloat.div c r) (dyF (snd (fst a))) && fcl (PrimFloat.div s r) (dyF (snd a))
  && PrimFloat.leb PrimFloat.zero th && PrimFloat.leb th (PrimFloat.add pi_f tol9).

(* ---------------------------------------------------------------- cases *)
Inductive obs :=
| O_edge_length (l : list dy)
| O_edge_middle (l : list dy3)
| O_face_area (l : list dy)
| O_face_normals (l : list dy3)
| O_face_bary (l : list dy3)
| O_circum (l : list dy3)
| O_cot (l : list dy)
| O_cw (l : list dy)
| O_degree (l : list Z)
| O_defects (zero_border : bool) (l : list dy)
| O_vnormals (w : weighting) (l : list dy3)
| O_vnormals_c (w : weighting) (fn : list dy3) (l : list dy3)
| O_cell_volume (l : list dy)
| O_cell_bary (l : list dy3)
| O_euler (x : Z)
| O_mean_edge (n : option Z) (x : dy)
| O_mean_area (n : option Z) (x : dy)
| O_mean_vol (n : option Z) (x : dy)
| O_total_area (x : dy)
| O_bary (x : dy3)
| O_v2f (vattr : list dy) (l : list dy)
| O_f2v (w : weighting) (fattr : list dy) (l : list dy)
| O_sv2c (vattr : list dy) (l : list dy)
| O_sf2c (fattr : list dy) (l : list dy)
| O_c2v (w : weighting) (cattr : list dy) (l : option (list dy))
| O_c2f (w : weighting) (cattr : list dy) (l : option (list dy)).

Record case := mkcase {
  c_verts : list dy3; c_edges : list (Z * Z); c_faces : list (list Z); c_cells : list (list Z);
  c_ang : list dy3;          (* corner_angles of the implementation: (theta, cos theta, sin theta) per corner *)
  c_obs : list obs
}.

Definition meshF (c : case) : mesh float := mkmesh (map dy3F (c_verts c)) (c_edges c) (c_faces c) (c_cells c).
Definition meshQ (c : case) : mesh Q := mkmesh (map dy3Q (c_verts c)) (c_edges c) (c_faces c) (c_cells c).

Definition is_exact_weight (w : weighting) : bool := match w with WUniform | WSum => true | _ => false end.
Definition optl {A B} (f : list A -> list B -> bool) (a : option (list A)) (b : option (list B)) : bool :=
  match a, b with Some x, Some y => f x y | None, None => true | _, _ => false end.

Definition sF := smul_l Fops.
Definition sQ := smul_l Qops.

Definition check_obs (c : case) (mf : mesh float) (mq : mesh Q) (ang : list float) (ob : obs) : bool :=
  let fo := Fops in let qo := Qops in
  match ob with
  | O_edge_length l => lF (edge_length fo mf) l
  | O_edge_middle l => lQ3 (edge_middle_point qo mq) l
  | O_face_area l => lF (face_area fo mf) l
  | O_face_normals l => lF3 (face_normals fo mf) l
  | O_face_bary l => lQ3 (face_barycenter qo mq) l
  | O_circum l => all2 (fun a b => match a with Some x => fclv x (dy3F b) | None => false end) (face_circumcenter fo mf) l
  | O_cot l => lF (cotangent fo mf) l
  | O_cw l => lF (cotan_weights fo mf) l
  | O_degree l => list_eqb Z.eqb (degree mf) l
  | O_defects zb l => lF (angle_defects fo zb pi_f ang mf) l
  | O_vnormals w l => lF3 (vertex_normals fo w ang mf) l
  | O_vnormals_c w fn l => lF3 (vertex_normals_custom fo w ang mf (map dy3F fn)) l
  | O_cell_volume l => lQ (cell_volume qo mq) l
  | O_cell_bary l => lQ3 (cell_barycenter qo mq) l
  | O_euler x => euler_characteristic mf =? x
  | O_mean_edge n x => fcl (mean_edge_length fo mf n) (dyF x)
  | O_mean_area n x => fcl (mean_face_area fo mf n) (dyF x)
  | O_mean_vol n x => qcl (mean_cell_volume qo mq n) (dyQ x)
  | O_total_area x => fcl (total_area fo mf) (dyF x)
  | O_bary x => qclv (barycenter qo mq) (dy3Q x)
  | O_v2f va l => lQ (interpolate_vertices_to_faces qo 0%Q (oadd qo) sQ (odiv qo) mq (map dyQ va)) l
  | O_f2v w fa l =>
      if is_exact_weight w
      then lQ (interpolate_faces_to_vertices qo 0%Q (oadd qo) sQ (odiv qo) w [] [] mq (map dyQ fa)) l
      else lF (interpolate_faces_to_vertices fo PrimFloat.zero (oadd fo) sF (odiv fo) w (face_area fo mf) ang mf (map dyF fa)) l
  | O_sv2c va l => lQ (scatter_vertices_to_corners 0%Q mq (map dyQ va)) l
  | O_sf2c fa l => lQ (scatter_faces_to_corners 0%Q mq (map dyQ fa)) l
  | O_c2v w ca l =>
      if is_exact_weight w
      then optl lQ (average_corners_to_vertices qo 0%Q (oadd qo) sQ (odiv qo) w [] mq (map dyQ ca)) l
      else optl lF (average_corners_to_vertices fo PrimFloat.zero (oadd fo) sF (odiv fo) w ang mf (map dyF ca)) l
  | O_c2f w ca l =>
      if is_exact_weight w
      then optl lQ (average_corners_to_faces qo 0%Q (oadd qo) sQ (odiv qo) w [] mq (map dyQ ca)) l
      else optl lF (average_corners_to_faces fo PrimFloat.zero (oadd fo) sF (odiv fo) w ang mf (map dyF ca)) l
  end.

(* corner angles exist on surface meshes only (corner_angles is restricted to SurfaceMesh) *)
Definition ang_check (c : case) (mf : mesh float) : bool :=
  match c_cells c with [] => all2 ang_ok (corner_pairs Fops mf) (c_ang c) | _ => true end.

(* a triangulated surface case must satisfy the manifold condition the Gauss-Bonnet theorem assumes *)
Definition manifold_check (c : case) : bool :=
  match c_cells c with
  | [] => if forallb (fun F => zlen F =? 3) (c_faces c)
          then manifoldb (c_faces c) (c_edges c) (length (c_verts c)) else true
  | _ => true
  end.

(* the whole case: the implementation's corner angles agree with the model's (cos,sin) pairs, then every observation *)
Definition check_case (c : case) : bool :=
  let mf := meshF c in let mq := meshQ c in
  ang_check c mf && manifold_check c
  && forallb (check_obs c mf mq (map (fun a => dyF (fst (fst a))) (c_ang c))) (c_obs c).

(* indices of the observations that disagree (diagnostics) *)
Definition bad_obs (c : case) : list Z :=
  let mf := meshF c in let mq := meshQ c in
  let ang := map (fun a => dyF (fst (fst a))) (c_ang c) in
  (if ang_check c mf then [] else [-1]) ++ (if manifold_check c then [] else [-2])
  ++ map fst (filter (fun io => negb (check_obs c mf mq ang (snd io))) (enumerate (c_obs c))).
