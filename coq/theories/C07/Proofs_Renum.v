(* C07 - renumbering the vertices (any map sigma that carries the coordinates along) leaves every per-edge,
   per-face, per-corner and per-cell quantity unchanged; rotating the vertex list of a triangle / quad keeps its
   area, normal and barycentre and rotates its corner quantities. *)
From Coq Require Import ZArith List Bool Reals Lra Lia.
Require Import MV.Lib.Base MV.C07.Model MV.C07.Gen MV.C07.Mesh MV.C07.Proofs_Base MV.C07.Proofs_Rigid MV.C07.Proofs_MeshRigid.
Import ListNotations.
Open Scope R_scope.

Section Renumber.
Variable m m' : mesh R.
Variable sigma : Z -> Z.
Hypothesis WF : wf_mesh m.
(* the renumbered mesh holds the same point under the new number, and its element lists are the old ones renamed *)
Hypothesis PTS : forall v, in_rng m v -> P Rops m' (sigma v) = P Rops m v.
Hypothesis FACES : faces m' = map (map sigma) (faces m).
Hypothesis CELLS : cells m' = map (map sigma) (cells m).
Hypothesis EDGES : edges m' = map (fun e => (sigma (fst e), sigma (snd e))) (edges m).

Lemma pts_renum (F : list Z) : (forall v, In v F -> in_rng m v) -> pts_of Rops m' (map sigma F) = pts_of Rops m F.
Proof. intros H. unfold pts_of. rewrite map_map. apply map_ext_in. intros v Hv. apply PTS, H, Hv. Qed.

Lemma znth_map_sigma (F : list Z) (i : Z) : (0 <= i < zlen F)%Z -> znth (map sigma F) i 0%Z = sigma (znth F i 0%Z).
Proof. intros H. now apply znth_map_in. Qed.

Lemma edge_length_renum : edge_length Rops m' = edge_length Rops m.
Proof.
  unfold edge_length. rewrite EDGES, map_map. apply map_ext_in. intros e He. cbn [fst snd].
  destruct (wf_edges m WF e He) as [H1 H2]. now rewrite !PTS.
Qed.
Lemma edge_middle_point_renum : edge_middle_point Rops m' = edge_middle_point Rops m.
Proof.
  unfold edge_middle_point. rewrite EDGES, map_map. apply map_ext_in. intros e He. cbn [fst snd].
  destruct (wf_edges m WF e He) as [H1 H2]. now rewrite !PTS.
Qed.
Lemma face_area_renum : face_area Rops m' = face_area Rops m.
Proof.
  unfold face_area. rewrite FACES, map_map. apply map_ext_in. intros F HF.
  now rewrite pts_renum by apply (wf_faces m WF F HF).
Qed.
Lemma face_barycenter_renum : face_barycenter Rops m' = face_barycenter Rops m.
Proof.
  unfold face_barycenter. rewrite FACES, map_map. apply map_ext_in. intros F HF.
  now rewrite pts_renum by apply (wf_faces m WF F HF).
Qed.
Lemma face_normals_renum : face_normals Rops m' = face_normals Rops m.
Proof.
  unfold face_normals. rewrite FACES, map_map. apply map_ext_in. intros F HF.
  destruct (wf_faces m WF F HF) as [L _].
  rewrite !znth_map_sigma by lia. rewrite !PTS by (apply (face_vertex_rng m WF); [assumption|lia]). reflexivity.
Qed.

Lemma flat_map_ext_in {A B} (f g : A -> list B) (l : list A) :
  (forall x, In x l -> f x = g x) -> flat_map f l = flat_map g l.
Proof.
  induction l as [|x l IH]; intros H; [reflexivity|]. cbn [flat_map]. rewrite H by now left. f_equal.
  apply IH. intros. apply H. now right.
Qed.

Lemma flat_map_map {A B C} (f : A -> B) (g : B -> list C) (l : list A) :
  flat_map g (map f l) = flat_map (fun x => g (f x)) l.
Proof. induction l as [|x l IH]; [reflexivity|]. cbn [map flat_map]. now rewrite IH. Qed.

Lemma cotangent_renum : cotangent Rops m' = cotangent Rops m.
Proof.
  unfold cotangent. rewrite FACES, flat_map_map. apply flat_map_ext_in. intros F HF.
  destruct (wf_faces m WF F HF) as [L _].
  rewrite !znth_map_sigma by lia. rewrite !PTS by (apply (face_vertex_rng m WF); [assumption|lia]). reflexivity.
Qed.
Lemma corner_pairs_renum : corner_pairs Rops m' = corner_pairs Rops m.
Proof.
  unfold corner_pairs. rewrite FACES, flat_map_map. apply flat_map_ext_in. intros F HF.
  destruct (wf_faces m WF F HF) as [L _]. unfold face_corner_pairs. cbv zeta. rewrite zlen_map.
  apply map_ext_in. intros i Hi. apply In_zrange in Hi. rewrite !corner_vertices_def.
  rewrite !znth_map_sigma by (try lia; apply Z.mod_pos_bound; lia).
  rewrite !PTS by (apply (face_vertex_rng m WF); [assumption|try lia; apply Z.mod_pos_bound; lia]). reflexivity.
Qed.
Lemma cell_volume_renum : cell_volume Rops m' = cell_volume Rops m.
Proof.
  unfold cell_volume. rewrite CELLS, map_map. apply map_ext_in. intros C HC.
  destruct (wf_cells m WF C HC) as [L _].
  rewrite !znth_map_sigma by lia. rewrite !PTS by (apply (cell_vertex_rng m WF); [assumption|lia]). reflexivity.
Qed.
Lemma cell_barycenter_renum : cell_barycenter Rops m' = cell_barycenter Rops m.
Proof.
  unfold cell_barycenter. rewrite CELLS, map_map. apply map_ext_in. intros C HC.
  now rewrite pts_renum by apply (wf_cells m WF C HC).
Qed.
Lemma total_area_renum : total_area Rops m' = total_area Rops m.
Proof. unfold total_area. now rewrite face_area_renum. Qed.
End Renumber.

(* ---------------------------------------------------------------- rotating the vertex list of a face *)
Lemma triangle_area_cyc (A B C : V3) : g_triangle_area Rops B C A = g_triangle_area Rops A B C.
Proof.
  rewrite !triangle_area_def, !norm_unfold. f_equal. f_equal. dvec A. dvec B. dvec C. unfR. ring.
Qed.
Lemma triangle_area_swap (A B C : V3) : g_triangle_area Rops A C B = g_triangle_area Rops A B C.
Proof. rewrite !triangle_area_def, !norm_unfold. now rewrite cross_anti. Qed.

Lemma face_normal_cyc (A B C : V3) : g_face_normal Rops B C A = g_face_normal Rops A B C.
Proof.
  unfold g_face_normal. f_equal. dvec A. dvec B. dvec C. unfR. apply vec_eq3; ring.
Qed.

Lemma quad_area_cyc (A B C D : V3) : g_quad_area Rops B C D A = g_quad_area Rops A B C D.
Proof.
  rewrite !quad_area_def.
  rewrite (triangle_area_cyc A C D), (triangle_area_cyc B C A), (triangle_area_cyc A B C). lra.
Qed.

(* corner quantities of the rotated triangle are the rotated corner quantities *)
Lemma corner_pairs_cyc (A B C : V3) :
  [g_corner_angle Rops A B C; g_corner_angle Rops B C A; g_corner_angle Rops C A B]
  = tl [g_corner_angle Rops C A B; g_corner_angle Rops A B C; g_corner_angle Rops B C A] ++ [g_corner_angle Rops C A B].
Proof. reflexivity. Qed.
Lemma cot_face_cyc (A B C : V3) :
  g_cot_face Rops B C A = tl (g_cot_face Rops A B C) ++ [hd 0 (g_cot_face Rops A B C)].
Proof. reflexivity. Qed.

(* the barycentre does not depend on the order of the vertices at all *)
Lemma vadd_comm (a b : V3) : a +v b = b +v a.
Proof. dvec a. dvec b. unfR. apply vec_eq3; ring. Qed.
Lemma vadd_assoc (a b c : V3) : (a +v b) +v c = a +v (b +v c).
Proof. dvec a. dvec b. dvec c. unfR. apply vec_eq3; ring. Qed.
Lemma vsum_fold_acc (l : list V3) (acc : V3) : fold_left (vadd Rops) l acc = acc +v fold_left (vadd Rops) l (vzero Rops).
Proof.
  revert acc. induction l as [|x l IH]; intros acc; cbn [fold_left].
  - dvec acc. unfR. apply vec_eq3; ring.
  - rewrite IH. rewrite (IH (vzero Rops +v x)). rewrite <- vadd_assoc. f_equal.
    dvec acc. dvec x. unfR. apply vec_eq3; ring.
Qed.
Lemma vsum_app (a b : list V3) : vsum Rops (a ++ b) = vsum Rops a +v vsum Rops b.
Proof. unfold vsum. rewrite fold_left_app. apply vsum_fold_acc. Qed.
Lemma face_bary_rotate (a b : list V3) : g_face_bary Rops (b ++ a) = g_face_bary Rops (a ++ b).
Proof.
  unfold g_face_bary. rewrite !vsum_app, (vadd_comm (vsum Rops b)). unfold zlen. rewrite !app_length.
  now rewrite Nat.add_comm.
Qed.
