(* C07 - the faces->vertices accumulation is invariant under permuting the face list and rotating the vertex list of
   each face, when every face carries its value and its weights along ("decorated faces").
   Generic in the value type: it needs only that adding contributions is commutative (true over R and R^3, not for
   binary64, where the result changes in the last bits - the correspondence uses a tolerance there). *)
From Coq Require Import ZArith List Bool Lia ZifyBool Permutation.
Require Import MV.Lib.Base MV.C07.Model MV.C07.Gen MV.C07.Mesh MV.C07.Proofs_Keyed.
Import ListNotations.
Open Scope Z_scope.

Lemma Permutation_filter' {X} (p : X -> bool) (l l' : list X) : Permutation l l' -> Permutation (filter p l) (filter p l').
Proof.
  intros P. induction P; cbn [filter].
  - constructor.
  - destruct (p x); [now constructor|assumption].
  - destruct (p x), (p y); try apply Permutation_refl; [apply perm_swap].
  - eapply Permutation_trans; eassumption.
Qed.

Lemma combine_app' {X Y} (a a' : list X) (b b' : list Y) : length a = length b ->
  combine (a ++ a') (b ++ b') = combine a b ++ combine a' b'.
Proof.
  revert b. induction a as [|x a IH]; intros [|y b] H; cbn in *; try lia; [reflexivity|]. f_equal. apply IH. lia.
Qed.

Lemma zlen_map' {X Y} (f : X -> Y) (l : list X) : zlen (map f l) = zlen l.
Proof. unfold zlen. now rewrite map_length. Qed.

Definition rotl {X} (r : nat) (l : list X) : list X := skipn r l ++ firstn r l.

Section Deco.
Context {T : Type} (o : ops T) {A : Type} (azero : A) (aadd : A -> A -> A) (ascale : T -> A -> A) (adiv : A -> T -> A).

Record dface := mkdf { df_face : list Z; df_val : A; df_area : T; df_angs : list T }.
Definition wfd (d : dface) : Prop := length (df_angs d) = length (df_face d).
Definition d_faces (D : list dface) := map df_face D.
Definition d_vals (D : list dface) := map df_val D.
Definition d_areas (D : list dface) := map df_area D.
Definition d_angs (D : list dface) := flat_map df_angs D.
Definition drot (r : nat) (d : dface) : dface := mkdf (rotl r (df_face d)) (df_val d) (df_area d) (rotl r (df_angs d)).

(* what a decorated face contributes at vertex v: (value, area weight, angle weight) per corner of the face at v *)
Definition local (v : Z) (d : dface) : list (A * T * T) :=
  map (fun ua => (df_val d, df_area d, snd ua)) (filter (fun ua => fst ua =? v) (combine (df_face d) (df_angs d))).

Lemma local_rot (v : Z) (r : nat) (d : dface) : wfd d -> Permutation (local v (drot r d)) (local v d).
Proof.
  intros W. unfold local, drot, rotl. cbn [df_face df_val df_area df_angs]. apply Permutation_map, Permutation_filter'.
  rewrite combine_app' by (rewrite !skipn_length; unfold wfd in W; lia).
  rewrite <- (firstn_skipn r (df_face d)) at 3. rewrite <- (firstn_skipn r (df_angs d)) at 3.
  rewrite combine_app' by (rewrite !firstn_length; unfold wfd in W; lia). apply Permutation_app_comm.
Qed.

(* the two lists of decorated faces describe the same surface: rotate each face, then permute the list *)
Definition drel (D D' : list dface) : Prop :=
  exists D1, Forall2 (fun d d1 => exists r, d1 = drot r d) D D1 /\ Permutation D1 D'.

Lemma local_drel (v : Z) (D D' : list dface) : Forall wfd D -> drel D D' ->
  Permutation (flat_map (local v) D') (flat_map (local v) D).
Proof.
  intros W [D1 [F2 P]]. apply Permutation_trans with (flat_map (local v) D1).
  - apply Permutation_sym, Permutation_flat_map, P.
  - clear P. induction F2 as [|d d1 D D1 [r ->] F2 IH]; [constructor|]. cbn [flat_map]. inversion W; subst.
    apply Permutation_app; [now apply local_rot|now apply IH].
Qed.

(* ---------------------------------------------------------------- bookkeeping: the model's corner list *)
Definition corners_from (k : Z) (fs : list (list Z)) : list (Z * Z) :=
  flat_map (fun iF : Z * list Z => map (fun u => (u, fst iF)) (snd iF)) (enum_from k fs).

Fixpoint val_ok (fv : Z -> A) (far : Z -> T) (k : Z) (D : list dface) : Prop :=
  match D with [] => True | d :: r => fv k = df_val d /\ far k = df_area d /\ val_ok fv far (k + 1) r end.
Fixpoint ang_ok (fan : Z -> T) (s : Z) (D : list dface) : Prop :=
  match D with
  | [] => True
  | d :: r => (forall i, 0 <= i < zlen (df_face d) -> fan (s + i) = znth (df_angs d) i (o0 o)) /\ ang_ok fan (s + zlen (df_face d)) r
  end.

Lemma corners_at_app (a b : list (Z * (Z * Z))) v : corners_at (a ++ b) v = corners_at a v ++ corners_at b v.
Proof. unfold corners_at. now rewrite filter_app, map_app. Qed.

Lemma one_face (fv : Z -> A) (far : Z -> T) (fan : Z -> T) (v k : Z) (F : list Z) (th : list T) (s : Z) :
  length th = length F -> (forall i, 0 <= i < zlen F -> fan (s + i) = znth th i (o0 o)) ->
  map (fun cf => (fv (snd cf), far (snd cf), fan (fst cf))) (corners_at (enum_from s (map (fun u => (u, k)) F)) v)
  = map (fun ua => (fv k, far k, snd ua)) (filter (fun ua => fst ua =? v) (combine F th)).
Proof.
  revert th s. induction F as [|u F IH]; intros [|t th] s L H; cbn [length] in L; try lia; [reflexivity|].
  cbn [map enum_from combine filter]. unfold corners_at. cbn [filter fst snd].
  assert (H0 : fan s = t).
  { specialize (H 0). rewrite Z.add_0_r in H. rewrite H by (unfold zlen; cbn [length]; lia). reflexivity. }
  assert (IH' : map (fun cf => (fv (snd cf), far (snd cf), fan (fst cf)))
                  (map (fun c => (fst c, snd (snd c))) (filter (fun c => fst (snd c) =? v) (enum_from (s + 1) (map (fun u0 => (u0, k)) F))))
                = map (fun ua => (fv k, far k, snd ua)) (filter (fun ua => fst ua =? v) (combine F th))).
  { apply (IH th (s + 1)); [lia|]. intros i Hi. replace (s + 1 + i) with (s + (i + 1)) by lia.
    rewrite H by (unfold zlen in *; cbn [length]; lia). unfold znth.
    destruct (i + 1 <? 0) eqn:E1; [lia|]. destruct (i <? 0) eqn:E2; [lia|].
    replace (Z.to_nat (i + 1)) with (S (Z.to_nat i)) by lia. reflexivity. }
  destruct (u =? v); cbn [map fst snd]; rewrite IH'; [rewrite H0|]; reflexivity.
Qed.

Lemma bookkeeping (fv : Z -> A) (far : Z -> T) (fan : Z -> T) (v : Z) (D : list dface) (s k : Z) :
  Forall wfd D -> val_ok fv far k D -> ang_ok fan s D ->
  map (fun cf => (fv (snd cf), far (snd cf), fan (fst cf))) (corners_at (enum_from s (corners_from k (d_faces D))) v)
  = flat_map (local v) D.
Proof.
  revert s k. induction D as [|d D IH]; intros s k W VO AO; [reflexivity|].
  inversion W as [|? ? Wd WD]; subst. destruct VO as (V1 & V2 & VO). destruct AO as (A1 & AO).
  unfold corners_from, d_faces. cbn [map enum_from flat_map fst snd].
  rewrite enum_from_app, corners_at_app, map_app. f_equal.
  - rewrite (one_face fv far fan v k (df_face d) (df_angs d) s Wd A1). unfold local. rewrite V1, V2. reflexivity.
  - rewrite zlen_map'. apply IH; assumption.
Qed.

(* the model's lookups satisfy the bookkeeping hypotheses *)
Lemma znth_app_mid {X} (pre : list X) (x : X) (rest : list X) (d : X) : znth (pre ++ x :: rest) (zlen pre) d = x.
Proof.
  unfold znth, zlen. destruct (Z.of_nat (length pre) <? 0) eqn:E; [lia|]. rewrite Nat2Z.id.
  rewrite app_nth2 by lia. now rewrite Nat.sub_diag.
Qed.
Lemma znth_app_off {X} (pre mid rest : list X) (i : Z) (d : X) : 0 <= i < zlen mid ->
  znth (pre ++ mid ++ rest) (zlen pre + i) d = znth mid i d.
Proof.
  intros H. unfold znth, zlen in *. destruct (Z.of_nat (length pre) + i <? 0) eqn:E; [lia|]. destruct (i <? 0) eqn:E2; [lia|].
  rewrite app_nth2 by lia. replace (Z.to_nat (Z.of_nat (length pre) + i) - length pre)%nat with (Z.to_nat i) by lia.
  apply app_nth1. lia.
Qed.
Lemma zlen_app {X} (a b : list X) : zlen (a ++ b) = zlen a + zlen b.
Proof. unfold zlen. rewrite app_length. lia. Qed.

Lemma val_ok_lists (D : list dface) (pre : list A) (preA : list T) : zlen pre = zlen preA ->
  val_ok (fun k => znth (pre ++ d_vals D) k azero) (fun k => znth (preA ++ d_areas D) k (o0 o)) (zlen pre) D.
Proof.
  revert pre preA. induction D as [|d D IH]; intros pre preA L; [exact I|]. cbn [val_ok d_vals d_areas map].
  split; [apply znth_app_mid|]. split; [rewrite L; apply znth_app_mid|].
  specialize (IH (pre ++ [df_val d]) (preA ++ [df_area d])). rewrite !zlen_app, <- !app_assoc in IH.
  change (zlen [df_val d]) with 1 in IH. apply IH. change (zlen [df_area d]) with 1. lia.
Qed.

Lemma ang_ok_lists (D : list dface) (pre : list T) : Forall wfd D ->
  ang_ok (fun c => znth (pre ++ d_angs D) c (o0 o)) (zlen pre) D.
Proof.
  revert pre. induction D as [|d D IH]; intros pre W; [exact I|]. inversion W as [|? ? Wd WD]; subst.
  cbn [ang_ok d_angs flat_map]. split.
  - intros i Hi. apply znth_app_off. unfold wfd in Wd. unfold zlen in *. lia.
  - specialize (IH (pre ++ df_angs d) WD). rewrite zlen_app, <- app_assoc in IH.
    replace (zlen (df_angs d)) with (zlen (df_face d)) in IH by (unfold wfd in Wd; unfold zlen; lia). exact IH.
Qed.

(* ---------------------------------------------------------------- faces->vertices from the list of contributions *)
Definition f2v_of_list (w : weighting) (L : list (A * T * T)) : A :=
  match w with
  | WUniform => g_f2v_uniform_fin o aadd ascale adiv (fold_left (fun acc tr => aadd acc (fst (fst tr))) L azero) (zlen L)
  | WSum => fold_left (fun acc tr => aadd acc (fst (fst tr))) L azero
  | WArea =>
      let r := fold_left (fun at_ tr => (g_f2v_area_acc o aadd ascale adiv (fst at_) (fst (fst tr)) (snd (fst tr)),
                                         g_f2v_area_tot o aadd ascale adiv (snd at_) (snd (fst tr)))) L (azero, o0 o) in
      g_f2v_area_fin o aadd ascale adiv (fst r) (snd r)
  | WAngle =>
      let r := fold_left (fun at_ tr => (g_f2v_angle_acc o aadd ascale adiv (fst at_) (fst (fst tr)) (snd tr),
                                         g_f2v_angle_tot o aadd ascale adiv (snd at_) (snd tr))) L (azero, o0 o) in
      g_f2v_angle_fin o aadd ascale adiv (fst r) (snd r)
  end.

Lemma f2v_intrinsic (w : weighting) (D : list dface) (mm : mesh T) :
  Forall wfd D -> faces mm = d_faces D ->
  interpolate_faces_to_vertices o azero aadd ascale adiv w (d_areas D) (d_angs D) mm (d_vals D)
  = map (fun v => f2v_of_list w (flat_map (local v) D)) (zrange (zlen (verts mm))).
Proof.
  intros W FS. unfold interpolate_faces_to_vertices. cbv zeta. apply map_ext. intros v. rewrite FS.
  pose proof (bookkeeping (fun k => znth (d_vals D) k azero) (fun k => znth (d_areas D) k (o0 o))
                (fun c => znth (d_angs D) c (o0 o)) v D 0 0 W (val_ok_lists D [] [] eq_refl) (ang_ok_lists D [] W)) as BK.
  change (enum_from 0 (corners_from 0 (d_faces D))) with (enumerate (corners (d_faces D))) in BK.
  set (cv := corners_at (enumerate (corners (d_faces D))) v) in *.
  unfold f2v_of_list. rewrite <- BK. destruct w; rewrite ?fold_left_map, ?zlen_map'; reflexivity.
Qed.

(* ---------------------------------------------------------------- commutativity: the order of the contributions is irrelevant *)
Hypothesis aadd_c3 : forall a x y, aadd (aadd a x) y = aadd (aadd a y) x.
Hypothesis oadd_c3 : forall a x y, oadd o (oadd o a x) y = oadd o (oadd o a y) x.

Lemma f2v_of_list_perm (w : weighting) (L L' : list (A * T * T)) : Permutation L L' -> f2v_of_list w L = f2v_of_list w L'.
Proof.
  intros P. unfold f2v_of_list.
  assert (U : fold_left (fun acc tr => aadd acc (fst (fst tr))) L azero = fold_left (fun acc tr => aadd acc (fst (fst tr))) L' azero).
  { exact (fold_add_perm aadd aadd_c3 (fun tr : A * T * T => fst (fst tr)) L L' azero P). }
  pose (padd := fun p q : A * T => (aadd (fst p) (fst q), oadd o (snd p) (snd q))).
  assert (PC : forall a x y, padd (padd a x) y = padd (padd a y) x).
  { intros a x y. unfold padd. cbn [fst snd]. now rewrite aadd_c3, oadd_c3. }
  destruct w.
  - rewrite U. unfold zlen. now rewrite (Permutation_length P).
  - cbv zeta. unfold g_f2v_area_acc, g_f2v_area_tot.
    assert (EA : fold_left (fun (at_ : A * T) (tr : A * T * T) =>
                    (aadd (fst at_) (ascale (snd (fst tr)) (fst (fst tr))), oadd o (snd at_) (snd (fst tr)))) L (azero, o0 o)
               = fold_left (fun (at_ : A * T) (tr : A * T * T) =>
                    (aadd (fst at_) (ascale (snd (fst tr)) (fst (fst tr))), oadd o (snd at_) (snd (fst tr)))) L' (azero, o0 o))
      by exact (fold_add_perm padd PC (fun tr : A * T * T => (ascale (snd (fst tr)) (fst (fst tr)), snd (fst tr))) L L' (azero, o0 o) P).
    rewrite EA. reflexivity.
  - cbv zeta. unfold g_f2v_angle_acc, g_f2v_angle_tot.
    assert (EA : fold_left (fun (at_ : A * T) (tr : A * T * T) =>
                    (aadd (fst at_) (ascale (snd tr) (fst (fst tr))), oadd o (snd at_) (snd tr))) L (azero, o0 o)
               = fold_left (fun (at_ : A * T) (tr : A * T * T) =>
                    (aadd (fst at_) (ascale (snd tr) (fst (fst tr))), oadd o (snd at_) (snd tr))) L' (azero, o0 o))
      by exact (fold_add_perm padd PC (fun tr : A * T * T => (ascale (snd tr) (fst (fst tr)), snd tr)) L L' (azero, o0 o) P).
    rewrite EA. reflexivity.
  - exact U.
Qed.

(* THE GENERIC THEOREM: rotating each face's vertex list and permuting the face list (values and weights carried
   along) does not change the faces->vertices interpolation, for every weighting *)
Theorem f2v_face_perm (w : weighting) (D D' : list dface) (mm mm' : mesh T) :
  Forall wfd D -> Forall wfd D' -> drel D D' ->
  faces mm = d_faces D -> faces mm' = d_faces D' -> zlen (verts mm') = zlen (verts mm) ->
  interpolate_faces_to_vertices o azero aadd ascale adiv w (d_areas D') (d_angs D') mm' (d_vals D')
  = interpolate_faces_to_vertices o azero aadd ascale adiv w (d_areas D) (d_angs D) mm (d_vals D).
Proof.
  intros W W' R FS FS' LEN. rewrite (f2v_intrinsic w D mm W FS), (f2v_intrinsic w D' mm' W' FS'), LEN.
  apply map_ext. intros v. apply f2v_of_list_perm, local_drel; assumption.
Qed.
End Deco.
