(* C07 - base of the executable model: a bare record of arithmetic operations (no laws), 3-vectors,
   Python-style left folds.  Every geometric quantity of the model (Gen.v: generated from the source;
   Mesh.v: the per-element loops) is ONE definition parametric in this record; it is instantiated with
   R for the theorems, with Q and with PrimFloat for execution.  No proofs in this file. *)
From Coq Require Import ZArith List Bool.
Require Import MV.Lib.Base.
Import ListNotations.

Record ops (T : Type) := mkops {
  o0 : T; o1 : T;
  oadd : T -> T -> T; osub : T -> T -> T; omul : T -> T -> T; odiv : T -> T -> T;
  osqrt : T -> T;
  oleb : T -> T -> bool
}.
Arguments o0 {T} _. Arguments o1 {T} _. Arguments oadd {T} _ _ _. Arguments osub {T} _ _ _.
Arguments omul {T} _ _ _. Arguments odiv {T} _ _ _. Arguments osqrt {T} _ _. Arguments oleb {T} _ _ _.

Section Base.
Context {T : Type} (o : ops T).

(* integer constants of the source (2, 6, len(F), ...) *)
Fixpoint opos (p : positive) : T :=
  match p with
  | xH => o1 o
  | xO q => omul o (oadd o (o1 o) (o1 o)) (opos q)
  | xI q => oadd o (o1 o) (omul o (oadd o (o1 o) (o1 o)) (opos q))
  end.
Definition oZ (z : Z) : T :=
  match z with Z0 => o0 o | Zpos p => opos p | Zneg p => osub o (o0 o) (opos p) end.
(* Python abs() *)
Definition oabs (x : T) : T := if oleb o (o0 o) x then x else osub o (o0 o) x.

Definition vec : Type := (T * T * T)%type.
Definition vx (v : vec) : T := fst (fst v).
Definition vy (v : vec) : T := snd (fst v).
Definition vz (v : vec) : T := snd v.
Definition vzero : vec := (o0 o, o0 o, o0 o).
Definition vadd (a b : vec) : vec := (oadd o (vx a) (vx b), oadd o (vy a) (vy b), oadd o (vz a) (vz b)).
Definition vsub (a b : vec) : vec := (osub o (vx a) (vx b), osub o (vy a) (vy b), osub o (vz a) (vz b)).
Definition vscale (k : T) (a : vec) : vec := (omul o (vx a) k, omul o (vy a) k, omul o (vz a) k).
Definition vdiv (a : vec) (k : T) : vec := (odiv o (vx a) k, odiv o (vy a) k, odiv o (vz a) k).
(* np.dot on 3-vectors *)
Definition dot (a b : vec) : T :=
  oadd o (oadd o (omul o (vx a) (vx b)) (omul o (vy a) (vy b))) (omul o (vz a) (vz b)).
Definition norm2 (a : vec) : T := dot a a.
(* Vec.norm / geometry.norm (l2): np.sqrt(np.dot(x,x)) *)
Definition norm (a : vec) : T := osqrt o (norm2 a).
(* Vec.normalized: vec / norm *)
Definition normalized (a : vec) : vec := vdiv a (norm a).

(* 2-vectors (Vec(a, b)) used by circumcenter *)
Definition wadd (a b : T * T) : T * T := (oadd o (fst a) (fst b), oadd o (snd a) (snd b)).
Definition wsub (a b : T * T) : T * T := (osub o (fst a) (fst b), osub o (snd a) (snd b)).
Definition wdiv (a : T * T) (k : T) : T * T := (odiv o (fst a) k, odiv o (snd a) k).
Definition wscale (k : T) (a : T * T) : T * T := (omul o (fst a) k, omul o (snd a) k).
Definition dot2 (a b : T * T) : T := oadd o (omul o (fst a) (fst b)) (omul o (snd a) (snd b)).

(* Python sum(...) : ((0 + x0) + x1) + ... *)
Definition ssum (l : list T) : T := fold_left (oadd o) l (o0 o).
Definition vsum (l : list vec) : vec := fold_left vadd l vzero.

(* list update (x[i] = v); out of range: unchanged *)
Fixpoint upd {A} (l : list A) (i : nat) (v : A) : list A :=
  match l, i with
  | [], _ => []
  | _ :: t, O => v :: t
  | h :: t, S k => h :: upd t k v
  end.
Definition zupd {A} (l : list A) (i : Z) (v : A) : list A :=
  if (i <? 0)%Z then l else upd l (Z.to_nat i) v.

End Base.

Arguments vec T : clear implicits.

(* ---------------------------------------------------------------- meshes *)
Record mesh (T : Type) := mkmesh {
  verts : list (vec T);
  edges : list (Z * Z);       (* mesh.edges as the library holds them *)
  faces : list (list Z);
  cells : list (list Z)
}.
Arguments verts {T} _. Arguments edges {T} _. Arguments faces {T} _. Arguments cells {T} _.
Arguments mkmesh {T} _ _ _ _.

Definition zlen {A} (l : list A) : Z := Z.of_nat (length l).
