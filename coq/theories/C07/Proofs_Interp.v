(* C07 - interpolating a constant attribute between element kinds returns that constant, for every weighting
   (uniform / area / angle), provided every target element has at least one source element and the weights
   (areas, angles) are positive.  The "sum" weighting is the one documented not to be an average. *)
From Coq Require Import ZArith List Bool Reals Lra Psatz Lia.
Require Import MV.Lib.Base MV.C07.Model MV.C07.Gen MV.C07.Mesh MV.C07.Proofs_Base.
Import ListNotations.
Open Scope R_scope.

(* ---------------------------------------------------------------- enumerate / corners *)
Lemma enum_from_In {A} (l : list A) (s k : Z) (x : A) :
  In (k, x) (enum_from s l) -> (s <= k < s + zlen l)%Z /\ In x l.
Proof.
  revert s. induction l as [|y l IH]; intros s H; [destruct H|].
  unfold zlen in *. cbn [enum_from length] in *. destruct H as [H|H].
  - inversion H; subst. split; [lia|now left].
  - apply IH in H. split; [lia|now right].
Qed.

Lemma enum_from_In_conv {A} (l : list A) (s : Z) (x : A) : In x l -> exists k, In (k, x) (enum_from s l).
Proof.
  revert s. induction l as [|y l IH]; intros s H; [destruct H|]. destruct H as [->|H].
  - exists s. now left.
  - destruct (IH (s + 1)%Z H) as [k Hk]. exists k. now right.
Qed.

Lemma corners_In (fs : list (list Z)) (v f : Z) :
  In (v, f) (corners fs) <-> exists F, In (f, F) (enumerate fs) /\ In v F.
Proof.
  unfold corners. rewrite in_flat_map. split.
  - intros [[iF F] [H1 H2]]. cbn [fst snd] in H2. apply in_map_iff in H2 as [u [E Hu]]. inversion E; subst.
    exists F. split; assumption.
  - intros [F [H1 H2]]. exists (f, F). split; [assumption|]. cbn [fst snd]. apply in_map_iff. exists v. split; [reflexivity|assumption].
Qed.

Lemma corners_face_rng (fs : list (list Z)) (v f : Z) : In (v, f) (corners fs) -> (0 <= f < zlen fs)%Z.
Proof. intros H. apply corners_In in H as [F [H _]]. apply enum_from_In in H. lia. Qed.

Section CornersAt.
Variable fs : list (list Z).
Notation cs := (enumerate (corners fs)).

Lemma corners_at_In (v k f : Z) :
  In (k, f) (corners_at cs v) -> (0 <= k < zlen (corners fs))%Z /\ (0 <= f < zlen fs)%Z.
Proof.
  unfold corners_at. intros H. apply in_map_iff in H as [[k' [v' f']] [E H]]. cbn [fst snd] in E. inversion E; subst.
  apply filter_In in H as [H _]. apply enum_from_In in H as [H1 H2]. split; [lia|]. now apply corners_face_rng in H2.
Qed.

Lemma corners_at_nonempty (v : Z) : (exists F, In F fs /\ In v F) -> corners_at cs v <> [].
Proof.
  intros [F [HF Hv]]. destruct (enum_from_In_conv fs 0 F HF) as [f Hf].
  assert (Hc : In (v, f) (corners fs)) by (apply corners_In; exists F; split; assumption).
  destruct (enum_from_In_conv (corners fs) 0 (v, f) Hc) as [k Hk].
  assert (In (k, f) (corners_at cs v)).
  { unfold corners_at. apply in_map_iff. exists (k, (v, f)). split; [reflexivity|].
    apply filter_In. split; [exact Hk|]. cbn [fst snd]. apply Z.eqb_refl. }
  intros E. rewrite E in H. destruct H.
Qed.
End CornersAt.

(* ---------------------------------------------------------------- weighted means of a constant *)
Lemma nth_repeat_in {A} (c d : A) (n k : nat) : (k < n)%nat -> nth k (repeat c n) d = c.
Proof. revert k. induction n as [|n IH]; intros [|k] H; cbn; try lia; [reflexivity|]. apply IH. lia. Qed.

Lemma znth_repeat (c : R) (n : nat) (i : Z) (d : R) : (0 <= i < Z.of_nat n)%Z -> znth (repeat c n) i d = c.
Proof.
  intros H. unfold znth. destruct (i <? 0)%Z eqn:E; [lia|]. apply nth_repeat_in. lia.
Qed.

Definition sumw {X} (w : X -> R) (l : list X) : R := fold_right (fun x s => w x + s) 0 l.

Lemma sumw_pos {X} (w : X -> R) (l : list X) : l <> [] -> (forall x, In x l -> 0 < w x) -> 0 < sumw w l.
Proof.
  intros Hne H. destruct l as [|x l]; [congruence|]. clear Hne.
  assert (G : forall l', (forall y, In y l' -> 0 < w y) -> 0 <= sumw w l').
  { induction l' as [|y l' IH]; intros Hl; unfold sumw; cbn [fold_right]; [lra|]. fold (sumw w l').
    pose proof (Hl y (or_introl eq_refl)).
    assert (0 <= sumw w l') by (apply IH; intros; apply Hl; now right). lra. }
  unfold sumw; cbn [fold_right]; fold (sumw w l).
  pose proof (H x (or_introl eq_refl)). assert (0 <= sumw w l) by (apply G; intros; apply H; now right). lra.
Qed.

Lemma wfold_const {X} (c : R) (val w : X -> R) (l : list X) (a0 t0 : R) :
  (forall x, In x l -> val x = c) ->
  fold_left (fun at_ x => (fst at_ + val x * w x, snd at_ + w x)) l (a0, t0) = (a0 + c * sumw w l, t0 + sumw w l).
Proof.
  unfold sumw. revert a0 t0. induction l as [|x l IH]; intros a0 t0 H; cbn [fold_left fold_right].
  - f_equal; ring.
  - cbn [fst snd]. rewrite IH by (intros; apply H; now right). rewrite (H x (or_introl eq_refl)). f_equal; ring.
Qed.

Lemma ufold_const {X} (c : R) (val : X -> R) (l : list X) (a0 : R) :
  (forall x, In x l -> val x = c) -> fold_left (fun acc x => acc + val x) l a0 = a0 + c * INR (length l).
Proof.
  revert a0. induction l as [|x l IH]; intros a0 H; cbn [fold_left length]; [cbn; ring|].
  rewrite IH by (intros; apply H; now right). rewrite (H x (or_introl eq_refl)), S_INR. ring.
Qed.

Lemma zlen_pos_INR {A} (l : list A) : l <> [] -> oZ Rops (zlen l) <> 0.
Proof.
  intros H. rewrite oZ_IZR. unfold zlen. rewrite <- INR_IZR_INZ. apply not_0_INR. destruct l; [congruence|discriminate].
Qed.
Lemma oZ_zlen {A} (l : list A) : oZ Rops (zlen l) = INR (length l).
Proof. rewrite oZ_IZR. unfold zlen. now rewrite <- INR_IZR_INZ. Qed.

(* ---------------------------------------------------------------- the six functions on a constant *)
Notation sm := (smul_l Rops).

Section Const.
Variable m : mesh R.
Variable c : R.
Let nV := length (verts m).
Let nF := length (faces m).
Let nC := length (corners (faces m)).

Definition all_eq (c : R) (l : list R) (n : nat) : Prop := l = repeat c n.

(* vertices -> faces *)
Lemma v2f_const :
  (forall F, In F (faces m) -> F <> [] /\ forall v, In v F -> (0 <= v < Z.of_nat nV)%Z) ->
  interpolate_vertices_to_faces Rops 0 Rplus sm Rdiv m (repeat c nV) = repeat c nF.
Proof.
  intros H. unfold interpolate_vertices_to_faces, nF.
  induction (faces m) as [|F l IH]; [reflexivity|]. cbn [map length repeat]. f_equal.
  - destruct (H F (or_introl eq_refl)) as [Hne Hr].
    unfold g_v2f_fin, g_v2f_acc.
    rewrite (ufold_const c (fun v => znth (repeat c nV) v 0) F 0) by (intros v Hv; apply znth_repeat, Hr, Hv).
    rewrite oZ_zlen. field. apply not_0_INR. destruct F; [congruence|discriminate].
  - apply IH. intros. apply H. now right.
Qed.

(* faces -> vertices, the three averaging weightings *)
Lemma map_const_zrange {B} (f : Z -> B) (b : B) (n : nat) :
  (forall i, (0 <= i < Z.of_nat n)%Z -> f i = b) -> map f (zrange (Z.of_nat n)) = repeat b n.
Proof.
  intros H. unfold zrange. rewrite Nat2Z.id, map_map.
  assert (G : forall s k, (forall i, (Z.of_nat s <= i < Z.of_nat (s + k))%Z -> f i = b) ->
             map (fun x => f (Z.of_nat x)) (seq s k) = repeat b k).
  { intros s k. revert s. induction k as [|k IH]; intros s Hs; [reflexivity|]. cbn [seq map repeat]. f_equal.
    - apply Hs. lia.
    - apply IH. intros i Hi. apply Hs. lia. }
  apply G. intros i Hi. apply H. lia.
Qed.

Hypothesis USED : forall v, (0 <= v < Z.of_nat nV)%Z -> exists F, In F (faces m) /\ In v F.

Lemma f2v_const (w : weighting) (area ang : list R) :
  w <> WSum ->
  (forall f, (0 <= f < Z.of_nat nF)%Z -> 0 < znth area f 0) ->
  (forall k, (0 <= k < Z.of_nat nC)%Z -> 0 < znth ang k 0) ->
  interpolate_faces_to_vertices Rops 0 Rplus sm Rdiv w area ang m (repeat c nF) = repeat c nV.
Proof.
  intros Hw Harea Hang. unfold interpolate_faces_to_vertices. cbv zeta.
  change (zlen (verts m)) with (Z.of_nat nV). apply map_const_zrange. intros v Hv.
  set (cv := corners_at _ v).
  assert (Hne : cv <> []) by (apply corners_at_nonempty, USED, Hv).
  assert (Hin : forall cf, In cf cv -> (0 <= fst cf < Z.of_nat nC)%Z /\ (0 <= snd cf < Z.of_nat nF)%Z).
  { intros [k f] Hcf. apply corners_at_In in Hcf. unfold zlen in Hcf. exact Hcf. }
  assert (Hval : forall cf, In cf cv -> znth (repeat c nF) (snd cf) 0 = c).
  { intros cf Hcf. apply znth_repeat, Hin, Hcf. }
  destruct w; [| | |congruence].
  - unfold g_f2v_uniform_fin.
    rewrite (ufold_const c (fun cf => znth (repeat c nF) (snd cf) 0) cv 0) by exact Hval.
    rewrite oZ_zlen. field. apply not_0_INR. destruct cv; [congruence|discriminate].
  - unfold g_f2v_area_fin, g_f2v_area_acc, g_f2v_area_tot, smul_l. cbn [Rops omul oadd o0].
    rewrite (wfold_const c (fun cf => znth (repeat c nF) (snd cf) 0) (fun cf => znth area (snd cf) 0) cv 0 0) by exact Hval.
    cbn [fst snd].
    assert (0 < sumw (fun cf => znth area (snd cf) 0) cv) by (apply sumw_pos; [exact Hne|intros; apply Harea, Hin; assumption]).
    field. lra.
  - unfold g_f2v_angle_fin, g_f2v_angle_acc, g_f2v_angle_tot, smul_l. cbn [Rops omul oadd o0].
    rewrite (wfold_const c (fun cf => znth (repeat c nF) (snd cf) 0) (fun cf => znth ang (fst cf) 0) cv 0 0) by exact Hval.
    cbn [fst snd].
    assert (0 < sumw (fun cf => znth ang (fst cf) 0) cv) by (apply sumw_pos; [exact Hne|intros; apply Hang, Hin; assumption]).
    field. lra.
Qed.

(* corners -> vertices *)
Lemma c2v_const (w : weighting) (ang : list R) :
  w = WUniform \/ w = WAngle ->
  (forall k, (0 <= k < Z.of_nat nC)%Z -> 0 < znth ang k 0) ->
  average_corners_to_vertices Rops 0 Rplus sm Rdiv w ang m (repeat c nC) = Some (repeat c nV).
Proof.
  intros Hw Hang. unfold average_corners_to_vertices.
  assert (Common : forall v, (0 <= v < Z.of_nat nV)%Z ->
     let cv := corners_at (enumerate (corners (faces m))) v in
     cv <> [] /\ (forall cf, In cf cv -> (0 <= fst cf < Z.of_nat nC)%Z) /\
     (forall cf, In cf cv -> znth (repeat c nC) (fst cf) 0 = c)).
  { intros v Hv cv.
    assert (Hin : forall cf, In cf cv -> (0 <= fst cf < Z.of_nat nC)%Z).
    { intros [k f] Hcf. apply corners_at_In in Hcf. unfold zlen in Hcf. apply Hcf. }
    split; [apply corners_at_nonempty, USED, Hv|]. split; [exact Hin|].
    intros cf Hcf. apply znth_repeat, Hin, Hcf. }
  destruct Hw as [-> | ->]; cbv zeta; cbn iota; f_equal; change (zlen (verts m)) with (Z.of_nat nV);
    apply map_const_zrange; intros v Hv; destruct (Common v Hv) as (Hne & Hin & Hval);
    set (cv := corners_at _ v) in *.
  - unfold g_c2v_uniform_fin, g_c2v_uniform_acc.
    rewrite (ufold_const c (fun cf => znth (repeat c nC) (fst cf) 0) cv 0) by exact Hval.
    rewrite oZ_zlen. field. apply not_0_INR. destruct cv; [congruence|discriminate].
  - unfold g_c2v_angle_fin, g_c2v_angle_acc, smul_l. cbn [Rops omul oadd o0].
    rewrite (wfold_const c (fun cf => znth (repeat c nC) (fst cf) 0) (fun cf => znth ang (fst cf) 0) cv 0 0) by exact Hval.
    cbn [fst snd].
    assert (0 < sumw (fun cf => znth ang (fst cf) 0) cv) by (apply sumw_pos; [exact Hne|intros; apply Hang, Hin; assumption]).
    field. lra.
Qed.

(* scatters *)
Lemma sv2c_const :
  (forall F, In F (faces m) -> forall v, In v F -> (0 <= v < Z.of_nat nV)%Z) ->
  scatter_vertices_to_corners 0 m (repeat c nV) = repeat c nC.
Proof.
  intros H. unfold scatter_vertices_to_corners, nC.
  assert (G : forall l : list (Z * Z), (forall x, In x l -> (0 <= fst x < Z.of_nat nV)%Z) ->
              map (fun x => znth (repeat c nV) (fst x) 0) l = repeat c (length l)).
  { induction l as [|x l IH]; intros Hl; [reflexivity|]. cbn [map length repeat]. f_equal.
    - apply znth_repeat, Hl. now left.
    - apply IH. intros. apply Hl. now right. }
  apply G. intros [v f] Hx. cbn [fst]. apply corners_In in Hx as [F [HF Hv]]. apply enum_from_In in HF as [_ HF].
  exact (H F HF v Hv).
Qed.

Lemma sf2c_const : scatter_faces_to_corners 0 m (repeat c nF) = repeat c nC.
Proof.
  unfold scatter_faces_to_corners, nC.
  assert (G : forall l : list (Z * Z), (forall x, In x l -> (0 <= snd x < Z.of_nat nF)%Z) ->
              map (fun x => znth (repeat c nF) (snd x) 0) l = repeat c (length l)).
  { induction l as [|x l IH]; intros Hl; [reflexivity|]. cbn [map length repeat]. f_equal.
    - apply znth_repeat, Hl. now left.
    - apply IH. intros. apply Hl. now right. }
  apply G. intros [v f] Hx. cbn [snd]. apply corners_face_rng in Hx. unfold zlen in Hx. exact Hx.
Qed.
End Const.
