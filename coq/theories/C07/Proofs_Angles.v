(* C07 - the corner angles of a non-degenerate triangle sum to pi.
   1. algebra: the three (cos,sin) pairs the model hands to atan2, normalised, multiply (as complex numbers) to (-1, 0);
   2. analysis: atan2 (for a non-negative sine part) is acos (c / sqrt(c^2+s^2)); three such angles whose unit
      complex numbers multiply to -1 sum to PI. *)
From Coq Require Import ZArith List Bool Reals Lra Psatz Lia.
Require Import MV.Lib.Base MV.C07.Model MV.C07.Gen MV.C07.Mesh MV.C07.Proofs_Base.
Import ListNotations.
Open Scope R_scope.

Definition cmul (z w : R * R) : R * R := (fst z * fst w - snd z * snd w, fst z * snd w + snd z * fst w).
Definition cnormalize (z : R * R) : R * R :=
  let r := sqrt (fst z * fst z + snd z * snd z) in (fst z / r, snd z / r).

(* the three corner pairs of the triangle (A,B,C), exactly as corner_angles computes them:
   corner k of face [A;B;C] uses (prev, at, next) *)
Definition tri_pairs (A B C : V3) : (R * R) * (R * R) * (R * R) :=
  (g_corner_angle Rops C A B, g_corner_angle Rops A B C, g_corner_angle Rops B C A).

Section Triangle.
Variables A B C : V3.
Hypothesis ND : 0 < n2 (cross (B -v A) (C -v A)).

Let S2 := n2 (cross (B -v A) (C -v A)).
Let s := sqrt S2.
Let a := n2 (B -v A).
Let b := n2 (C -v B).
Let c := n2 (A -v C).
Let c1 := dotR (C -v A) (B -v A).
Let c2 := dotR (A -v B) (C -v B).
Let c3 := dotR (B -v C) (A -v C).

Lemma s_sq : s * s = S2.
Proof. apply sqrt_sqrt. unfold S2. lra. Qed.
Lemma s_pos : 0 < s.
Proof. apply sqrt_lt_R0. exact ND. Qed.

Lemma cross_same_1 : n2 (cross (C -v A) (B -v A)) = S2.
Proof. unfold S2. apply cross_anti. Qed.
Lemma cross_same_2 : n2 (cross (A -v B) (C -v B)) = S2.
Proof. unfold S2. dvec A. dvec B. dvec C. unfR. ring. Qed.
Lemma cross_same_3 : n2 (cross (B -v C) (A -v C)) = S2.
Proof. unfold S2. dvec A. dvec B. dvec C. unfR. ring. Qed.

Lemma pairs_are : tri_pairs A B C = ((c1, s), (c2, s), (c3, s)).
Proof.
  unfold tri_pairs. rewrite !corner_angle_def, !angle3_def, !norm_unfold.
  rewrite cross_same_1, cross_same_2, cross_same_3. reflexivity.
Qed.

(* polynomial identities in the nine coordinates *)
Lemma id_im : c1 * c2 + c1 * c3 + c2 * c3 = S2.
Proof. unfold c1, c2, c3, S2. dvec A. dvec B. dvec C. unfR. ring. Qed.
Lemma id_re : c1 * c2 * c3 - S2 * (c1 + c2 + c3) = - (a * b * c).
Proof. unfold c1, c2, c3, S2, a, b, c. dvec A. dvec B. dvec C. unfR. ring. Qed.
Lemma mod1 : c1 * c1 + S2 = c * a.
Proof. unfold c1, S2, a, c. dvec A. dvec B. dvec C. unfR. ring. Qed.
Lemma mod2 : c2 * c2 + S2 = a * b.
Proof. unfold c2, S2, a, b. dvec A. dvec B. dvec C. unfR. ring. Qed.
Lemma mod3 : c3 * c3 + S2 = b * c.
Proof. unfold c3, S2, b, c. dvec A. dvec B. dvec C. unfR. ring. Qed.

Lemma sides_pos : 0 < a /\ 0 < b /\ 0 < c.
Proof.
  pose proof mod1. pose proof mod2. pose proof mod3.
  assert (0 <= a) by apply n2_nonneg. assert (0 <= b) by apply n2_nonneg. assert (0 <= c) by apply n2_nonneg.
  assert (0 < S2) by exact ND.
  assert (0 < c * a) by nra. assert (0 < a * b) by nra. assert (0 < b * c) by nra.
  repeat split; nra.
Qed.

Let r1 := sqrt (c1 * c1 + s * s).
Let r2 := sqrt (c2 * c2 + s * s).
Let r3 := sqrt (c3 * c3 + s * s).

Lemma r_facts : 0 < r1 /\ 0 < r2 /\ 0 < r3 /\ r1 * r1 = c * a /\ r2 * r2 = a * b /\ r3 * r3 = b * c /\ r1 * r2 * r3 = a * b * c.
Proof.
  destruct sides_pos as (Ha & Hb & Hc). pose proof s_sq as Hs. pose proof mod1. pose proof mod2. pose proof mod3.
  assert (P1 : 0 < c1 * c1 + s * s) by nra. assert (P2 : 0 < c2 * c2 + s * s) by nra. assert (P3 : 0 < c3 * c3 + s * s) by nra.
  assert (R1 : 0 < r1) by (apply sqrt_lt_R0; exact P1).
  assert (R2 : 0 < r2) by (apply sqrt_lt_R0; exact P2).
  assert (R3 : 0 < r3) by (apply sqrt_lt_R0; exact P3).
  assert (Q1 : r1 * r1 = c * a) by (unfold r1; rewrite sqrt_sqrt by lra; lra).
  assert (Q2 : r2 * r2 = a * b) by (unfold r2; rewrite sqrt_sqrt by lra; lra).
  assert (Q3 : r3 * r3 = b * c) by (unfold r3; rewrite sqrt_sqrt by lra; lra).
  repeat split; try assumption.
  assert (Sq : (r1 * r2 * r3) * (r1 * r2 * r3) = (a * b * c) * (a * b * c)).
  { replace ((r1 * r2 * r3) * (r1 * r2 * r3)) with ((r1 * r1) * (r2 * r2) * (r3 * r3)) by ring.
    rewrite Q1, Q2, Q3. ring. }
  assert (0 < r1 * r2 * r3) by (apply Rmult_lt_0_compat; [apply Rmult_lt_0_compat|]; assumption).
  assert (0 < a * b * c) by (apply Rmult_lt_0_compat; [apply Rmult_lt_0_compat|]; assumption).
  nra.
Qed.

(* 1. the algebraic angle sum: the normalised pairs compose to (-1, 0) *)
Lemma angle_pairs_compose :
  let '(p1, p2, p3) := tri_pairs A B C in
  cmul (cmul (cnormalize p1) (cnormalize p2)) (cnormalize p3) = (-1, 0).
Proof.
  rewrite pairs_are. unfold cnormalize, cmul. cbn [fst snd]. fold r1 r2 r3.
  destruct r_facts as (R1 & R2 & R3 & _ & _ & _ & RP).
  pose proof id_im as II. pose proof id_re as IR. pose proof s_sq as Hs.
  destruct sides_pos as (Ha & Hb & Hc).
  assert (0 < a * b * c) by (apply Rmult_lt_0_compat; [apply Rmult_lt_0_compat|]; assumption).
  f_equal.
  - replace ((c1 / r1 * (c2 / r2) - s / r1 * (s / r2)) * (c3 / r3) - (c1 / r1 * (s / r2) + s / r1 * (c2 / r2)) * (s / r3))
      with ((c1 * c2 * c3 - (s * s) * (c1 + c2 + c3)) / (r1 * r2 * r3)) by (field; repeat split; lra).
    rewrite Hs, IR, RP. field. lra.
  - replace ((c1 / r1 * (c2 / r2) - s / r1 * (s / r2)) * (s / r3) + (c1 / r1 * (s / r2) + s / r1 * (c2 / r2)) * (c3 / r3))
      with (s * ((c1 * c2 + c1 * c3 + c2 * c3) - s * s) / (r1 * r2 * r3)) by (field; repeat split; lra).
    rewrite Hs, II. field. lra.
Qed.

(* each normalised pair is a point of the open upper half circle *)
Lemma pair_unit (ck : R) : let r := sqrt (ck * ck + s * s) in
  0 < r /\ (ck / r) * (ck / r) + (s / r) * (s / r) = 1 /\ 0 < s / r.
Proof.
  intros r. pose proof s_pos as Hs. assert (P : 0 < ck * ck + s * s) by nra.
  assert (Hr : 0 < r) by (apply sqrt_lt_R0; exact P).
  assert (Q : r * r = ck * ck + s * s) by (unfold r; apply sqrt_sqrt; lra).
  repeat split; [assumption| |apply Rdiv_lt_0_compat; assumption].
  replace (ck / r * (ck / r) + s / r * (s / r)) with ((ck * ck + s * s) / (r * r)) by (field; lra).
  rewrite Q. field. lra.
Qed.
End Triangle.

(* 2. atan2 with a non-negative sine part, as math.atan2(s, c) is for s >= 0 and (c,s) <> (0,0) *)
Definition atan2_up (sn cs : R) : R := acos (cs / sqrt (cs * cs + sn * sn)).

Lemma atan2_up_spec (sn cs : R) : 0 < sn ->
  let r := sqrt (cs * cs + sn * sn) in let th := atan2_up sn cs in
  0 < th < PI /\ cos th = cs / r /\ sin th = sn / r.
Proof.
  intros Hs r th. assert (P : 0 < cs * cs + sn * sn) by nra.
  assert (Hr : 0 < r) by (apply sqrt_lt_R0; exact P).
  assert (Q : r * r = cs * cs + sn * sn) by (unfold r; apply sqrt_sqrt; lra).
  assert (B : -1 < cs / r < 1).
  { assert (- r < cs < r) by (split; nra).
    split.
    - apply Rmult_lt_reg_r with r; [lra|]. unfold Rdiv. rewrite Rmult_assoc, Rinv_l by lra. lra.
    - apply Rmult_lt_reg_r with r; [lra|]. unfold Rdiv. rewrite Rmult_assoc, Rinv_l by lra. lra. }
  unfold th, atan2_up. fold r.
  split; [apply acos_bound_lt; exact B|]. split; [apply cos_acos; lra|].
  rewrite sin_acos by lra.
  replace (1 - (cs / r)²) with ((sn / r) * (sn / r)).
  - apply sqrt_square. apply Rlt_le, Rdiv_lt_0_compat; assumption.
  - unfold Rsqr. replace 1 with ((cs * cs + sn * sn) / (r * r)) by (rewrite Q; field; lra). field. lra.
Qed.

(* three angles in (0, PI) whose unit complex numbers multiply to (-1, 0) sum to PI *)
Lemma three_angles_pi (t1 t2 t3 : R) :
  0 < t1 < PI -> 0 < t2 < PI -> 0 < t3 < PI ->
  cmul (cmul (cos t1, sin t1) (cos t2, sin t2)) (cos t3, sin t3) = (-1, 0) ->
  t1 + t2 + t3 = PI.
Proof.
  intros H1 H2 H3 E. unfold cmul in E. cbn [fst snd] in E. inversion E as [[Ec Es]].
  assert (Cx : cos (t1 + t2 + t3) = -1).
  { rewrite (cos_plus (t1 + t2) t3), (cos_plus t1 t2), (sin_plus t1 t2). lra. }
  assert (Sx : sin (t1 + t2 + t3) = 0).
  { rewrite (sin_plus (t1 + t2) t3), (cos_plus t1 t2), (sin_plus t1 t2). lra. }
  destruct (sin_eq_0_0 _ Sx) as [k Hk]. pose proof PI_RGT_0 as HP.
  assert (0 < IZR k * PI < 3 * PI) by lra.
  assert (0 < IZR k < 3) by nra.
  assert (Hk' : (0 < k < 3)%Z) by (split; apply lt_IZR; lra).
  assert (k = 1%Z \/ k = 2%Z) as [-> | ->] by lia.
  - lra.
  - exfalso. rewrite Hk in Cx. rewrite cos_2PI in Cx. lra.
Qed.

(* ---------------------------------------------------------------- the statement on the model's corner pairs *)
Lemma face_corner_pairs_tri (m : mesh R) (a b c : Z) :
  face_corner_pairs Rops m [a; b; c]
  = [g_corner_angle Rops (P Rops m c) (P Rops m a) (P Rops m b);
     g_corner_angle Rops (P Rops m a) (P Rops m b) (P Rops m c);
     g_corner_angle Rops (P Rops m b) (P Rops m c) (P Rops m a)].
Proof. reflexivity. Qed.

Definition atan2_pair (p : R * R) : R := atan2_up (snd p) (fst p).

Lemma triangle_angle_sum (A B C : V3) : 0 < n2 (cross (B -v A) (C -v A)) ->
  let p1 := g_corner_angle Rops C A B in let p2 := g_corner_angle Rops A B C in let p3 := g_corner_angle Rops B C A in
  (0 < snd p1 /\ 0 < snd p2 /\ 0 < snd p3) /\
  cmul (cmul (cnormalize p1) (cnormalize p2)) (cnormalize p3) = (-1, 0) /\
  atan2_pair p1 + atan2_pair p2 + atan2_pair p3 = PI.
Proof.
  intros ND p1 p2 p3. unfold atan2_pair.
  pose proof (angle_pairs_compose A B C ND) as H. pose proof (pairs_are A B C ND) as E.
  unfold tri_pairs in E, H. fold p1 p2 p3 in E, H.
  pose proof (s_pos A B C ND) as Hs. set (s := sqrt (n2 (cross (B -v A) (C -v A)))) in *.
  pose proof (f_equal (fun x => snd (fst (fst x))) E) as S1. cbn [fst snd] in S1.
  pose proof (f_equal (fun x => snd (snd (fst x))) E) as S2. cbn [fst snd] in S2.
  pose proof (f_equal (fun x => snd (snd x)) E) as S3. cbn [fst snd] in S3.
  split; [rewrite S1, S2, S3; auto|]. split; [exact H|].
  destruct (atan2_up_spec (snd p1) (fst p1)) as (B1 & C1 & Sn1); [rewrite S1; exact Hs|].
  destruct (atan2_up_spec (snd p2) (fst p2)) as (B2 & C2 & Sn2); [rewrite S2; exact Hs|].
  destruct (atan2_up_spec (snd p3) (fst p3)) as (B3 & C3 & Sn3); [rewrite S3; exact Hs|].
  apply three_angles_pi; try assumption.
  rewrite C1, C2, C3, Sn1, Sn2, Sn3. exact H.
Qed.
