(* C07 - folds that accumulate contributions keyed by a vertex (degree, angle_defects, the faces->vertices and
   corners->vertices interpolations, vertex_normals):
   1. pointwise view: entry v of the result only sees the contributions whose key is v;
   2. renaming the keys by an injective sigma moves the result along (for ANY operations record: the order of the
      contributions at a vertex is unchanged);
   3. (over a commutative monoid) permuting the list of contributions does not change the result. *)
From Coq Require Import ZArith List Bool Lia Permutation.
Require Import MV.Lib.Base MV.C07.Model MV.C07.Gen MV.C07.Mesh.
Import ListNotations.
Open Scope Z_scope.

(* ---------------------------------------------------------------- znth / zupd *)
Lemma znth_zupd_same {A} (d : list A) (i : Z) (x dflt : A) : 0 <= i < zlen d -> znth (zupd d i x) i dflt = x.
Proof.
  intros H. unfold znth, zupd, zlen in *. destruct (i <? 0) eqn:E; [lia|].
  assert (G : forall (l : list A) n, (n < length l)%nat -> nth n (upd l n x) dflt = x).
  { induction l as [|y l IH]; intros [|n] Hn; cbn in *; try lia; [reflexivity|apply IH; lia]. }
  apply G. lia.
Qed.

Lemma znth_zupd_other {A} (d : list A) (i j : Z) (x dflt : A) : i <> j -> znth (zupd d i x) j dflt = znth d j dflt.
Proof.
  intros H. unfold znth, zupd. destruct (j <? 0) eqn:Ej; [reflexivity|]. destruct (i <? 0) eqn:Ei; [reflexivity|].
  assert (G : forall (l : list A) n k, n <> k -> nth k (upd l n x) dflt = nth k l dflt).
  { induction l as [|y l IH]; intros [|n] [|k] Hn; cbn; try reflexivity; try congruence. apply IH. congruence. }
  apply G. lia.
Qed.

Lemma zupd_zlen {A} (d : list A) (i : Z) (x : A) : zlen (zupd d i x) = zlen d.
Proof.
  unfold zlen, zupd. destruct (i <? 0); [reflexivity|]. f_equal.
  generalize (Z.to_nat i). induction d as [|y d IH]; intros [|n]; cbn; try reflexivity. now rewrite IH.
Qed.

(* ---------------------------------------------------------------- 1. pointwise view of a keyed fold *)
Section Keyed.
Context {X A : Type} (key : X -> Z) (guard : X -> bool) (f : A -> X -> A) (dflt : A).

Definition kstep (d : list A) (x : X) : list A :=
  if guard x then d else zupd d (key x) (f (znth d (key x) dflt) x).

Lemma kstep_zlen d x : zlen (kstep d x) = zlen d.
Proof. unfold kstep. destruct (guard x); [reflexivity|apply zupd_zlen]. Qed.

Lemma keyed_fold_zlen (l : list X) (d : list A) : zlen (fold_left kstep l d) = zlen d.
Proof. revert d. induction l as [|x l IH]; intros d; [reflexivity|]. cbn. now rewrite IH, kstep_zlen. Qed.

Lemma keyed_fold_znth (l : list X) (d : list A) (v : Z) :
  (forall x, In x l -> 0 <= key x < zlen d) ->
  znth (fold_left kstep l d) v dflt
  = fold_left (fun acc x => if (key x =? v) && negb (guard x) then f acc x else acc) l (znth d v dflt).
Proof.
  revert d. induction l as [|x l IH]; intros d H; [reflexivity|]. cbn [fold_left].
  rewrite IH by (intros y Hy; rewrite kstep_zlen; apply H; now right). f_equal.
  unfold kstep. destruct (guard x); [now rewrite andb_false_r|]. rewrite andb_true_r.
  destruct (key x =? v) eqn:E.
  - apply Z.eqb_eq in E. subst v. apply znth_zupd_same, H. now left.
  - apply Z.eqb_neq in E. now apply znth_zupd_other.
Qed.
End Keyed.

(* a conditional fold only sees the elements that pass the test *)
Lemma fold_left_filter {X A} (p : X -> bool) (f : A -> X -> A) (l : list X) (a : A) :
  fold_left (fun acc x => if p x then f acc x else acc) l a = fold_left f (filter p l) a.
Proof.
  revert a. induction l as [|x l IH]; intros a; [reflexivity|]. cbn [fold_left filter].
  destruct (p x); cbn [fold_left]; apply IH.
Qed.

Lemma fold_left_map {X Y A} (g : X -> Y) (f : A -> Y -> A) (l : list X) (a : A) :
  fold_left f (map g l) a = fold_left (fun acc x => f acc (g x)) l a.
Proof. revert a. induction l as [|x l IH]; intros a; [reflexivity|]. cbn. apply IH. Qed.

(* ---------------------------------------------------------------- enumerate / corners plumbing *)
Lemma enum_from_map {X Y} (g : X -> Y) (l : list X) (s : Z) :
  enum_from s (map g l) = map (fun c => (fst c, g (snd c))) (enum_from s l).
Proof. revert s. induction l as [|x l IH]; intros s; [reflexivity|]. cbn [map enum_from fst snd]. now rewrite IH. Qed.

Lemma enum_from_app {X} (a b : list X) (s : Z) :
  enum_from s (a ++ b) = enum_from s a ++ enum_from (s + zlen a) b.
Proof.
  revert s. induction a as [|x a IH]; intros s.
  - cbn [app enum_from]. replace (s + zlen (@nil X)) with s by (unfold zlen; cbn [length]; lia). reflexivity.
  - cbn [app enum_from]. rewrite IH. do 3 f_equal. unfold zlen. cbn [length]. lia.
Qed.

Lemma flat_map_map_l {X Y W} (f : X -> Y) (g : Y -> list W) (l : list X) :
  flat_map g (map f l) = flat_map (fun x => g (f x)) l.
Proof. induction l as [|x l IH]; [reflexivity|]. cbn [map flat_map]. now rewrite IH. Qed.

Lemma map_flat_map {X Y W} (f : Y -> W) (g : X -> list Y) (l : list X) :
  map f (flat_map g l) = flat_map (fun x => map f (g x)) l.
Proof. induction l as [|x l IH]; [reflexivity|]. cbn [flat_map]. now rewrite map_app, IH. Qed.

Lemma flat_map_ext_in' {X Y} (f g : X -> list Y) (l : list X) :
  (forall x, In x l -> f x = g x) -> flat_map f l = flat_map g l.
Proof.
  induction l as [|x l IH]; intros H; [reflexivity|]. cbn [flat_map]. rewrite H by now left. f_equal.
  apply IH. intros. apply H. now right.
Qed.

(* corners of the renamed face list: same corner order, same faces, renamed vertices *)
Lemma corners_rename (sigma : Z -> Z) (fs : list (list Z)) :
  corners (map (map sigma) fs) = map (fun c => (sigma (fst c), snd c)) (corners fs).
Proof.
  unfold corners, enumerate. rewrite enum_from_map, flat_map_map_l, map_flat_map.
  apply flat_map_ext_in'. intros [k F] _. cbn [fst snd]. rewrite !map_map. reflexivity.
Qed.

Lemma in_corners_vertex (fs : list (list Z)) (v f : Z) :
  In (v, f) (corners fs) -> exists F, In F fs /\ In v F.
Proof.
  unfold corners. rewrite in_flat_map. intros [[k F] [H1 H2]]. cbn [fst snd] in H2.
  apply in_map_iff in H2 as [u [E Hu]]. inversion E; subst. exists F. split; [|assumption].
  clear - H1. unfold enumerate in H1. revert H1. generalize 0. induction fs as [|G fs IH]; intros s H; [destruct H|].
  cbn in H. destruct H as [H|H]; [inversion H; now left|right; eapply IH; eassumption].
Qed.

Section Rename.
Variable sigma : Z -> Z.
Variable nV : Z.
Hypothesis INJ : forall u v, 0 <= u < nV -> 0 <= v < nV -> sigma u = sigma v -> u = v.
Variable fs : list (list Z).
Hypothesis RNG : forall F, In F fs -> forall v, In v F -> 0 <= v < nV.

(* 2a. the corners at the renamed vertex are the corners at the vertex (same ids, same faces, same order) *)
Lemma corners_at_rename (v : Z) : 0 <= v < nV ->
  corners_at (enumerate (corners (map (map sigma) fs))) (sigma v) = corners_at (enumerate (corners fs)) v.
Proof.
  intros Hv. unfold corners_at, enumerate. rewrite corners_rename, enum_from_map.
  assert (G : forall l : list (Z * (Z * Z)), (forall c, In c l -> 0 <= fst (snd c) < nV) ->
     map (fun c => (fst c, snd (snd c)))
       (filter (fun c => fst (snd c) =? sigma v) (map (fun c => (fst c, (sigma (fst (snd c)), snd (snd c)))) l))
     = map (fun c => (fst c, snd (snd c))) (filter (fun c => fst (snd c) =? v) l)).
  { induction l as [|c l IH]; intros H; [reflexivity|]. cbn [map filter fst snd].
    assert (E : (sigma (fst (snd c)) =? sigma v) = (fst (snd c) =? v)).
    { destruct (fst (snd c) =? v) eqn:E1.
      - apply Z.eqb_eq in E1. rewrite E1. apply Z.eqb_refl.
      - apply Z.eqb_neq in E1. apply Z.eqb_neq. intros E2. apply E1, INJ; try assumption. apply H. now left. }
    rewrite E. destruct (fst (snd c) =? v); cbn [map fst snd]; rewrite IH by (intros; apply H; now right); reflexivity. }
  apply G. intros [k [u f]] H. cbn [fst snd].
  assert (Hc : In (u, f) (corners fs)).
  { clear - H. revert H. generalize 0. induction (corners fs) as [|y l IH]; intros s H; [destruct H|].
    cbn in H. destruct H as [H|H]; [inversion H; now left|right; eapply IH; eassumption]. }
  apply in_corners_vertex in Hc as [F [HF Hu]]. exact (RNG F HF u Hu).
Qed.
End Rename.

(* ---------------------------------------------------------------- 3. permuting additive contributions *)
Section Commutative.
Context {A X : Type} (add : A -> A -> A).
Hypothesis add_comm3 : forall a x y, add (add a x) y = add (add a y) x.

Lemma fold_add_perm (g : X -> A) (l l' : list X) (a : A) :
  Permutation l l' -> fold_left (fun acc x => add acc (g x)) l a = fold_left (fun acc x => add acc (g x)) l' a.
Proof.
  intros P. revert a. induction P; intros a; cbn [fold_left].
  - reflexivity.
  - apply IHP.
  - now rewrite add_comm3.
  - now rewrite IHP1, IHP2.
Qed.
End Commutative.
