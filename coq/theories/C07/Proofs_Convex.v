(* C07 - the TEXTBOOK area of quads and n-gons: for a planar convex face (all the triangles the code sums have the same
   orientation) the code's quad area is |AC x BD|/2 and its fan area is the norm of the shoelace vector area
   |sum_i p_i x p_{i+1}|/2.  For a planar NON-convex face both fail: refuted on the dart quad (a recorded finding). *)
From Coq Require Import ZArith List Bool Reals Lra Psatz Lia Permutation.
Require Import MV.Lib.Base MV.C07.Model MV.C07.Gen MV.C07.Mesh MV.C07.Proofs_Base MV.C07.Proofs_Rigid MV.C07.Proofs_Renum
  MV.C07.Proofs_GB MV.C07.Proofs_Keyed MV.C07.Proofs_FacePerm MV.C07.Proofs_FanRot.
Import ListNotations.
Open Scope R_scope.

(* a vector that is a non-negative multiple of the unit vector nh *)
Definition aligned (nh c : V3) : Prop := exists k, 0 <= k /\ c = vscale Rops k nh.

Lemma norm_aligned (nh : V3) (k : R) : n2 nh = 1 -> 0 <= k -> norm Rops (vscale Rops k nh) = k.
Proof.
  intros Hn Hk. rewrite norm_unfold. assert (E : n2 (vscale Rops k nh) = (k * k) * n2 nh) by (dvec nh; unfR; ring).
  rewrite E, Hn, Rmult_1_r. now apply sqrt_square.
Qed.

Lemma vsum_cons (x : V3) (l : list V3) : vsum Rops (x :: l) = x +v vsum Rops l.
Proof. change (x :: l) with ([x] ++ l). rewrite vsum_app. f_equal. unfold vsum. cbn [fold_left]. dvec x. unfR. apply vec_eq3; ring. Qed.

(* norms of aligned vectors add up to the norm of their sum *)
Lemma norm_sum_aligned (nh : V3) (cs : list V3) : n2 nh = 1 -> (forall c, In c cs -> aligned nh c) ->
  Rsum (map (norm Rops) cs) = norm Rops (vsum Rops cs).
Proof.
  intros Hn H.
  assert (G : exists L, 0 <= L /\ vsum Rops cs = vscale Rops L nh /\ Rsum (map (norm Rops) cs) = L).
  { induction cs as [|c cs IH].
    - exists 0. split; [lra|]. split; [unfold vsum; cbn; dvec nh; unfR; apply vec_eq3; ring|reflexivity].
    - destruct IH as (L & HL & E1 & E2); [intros; apply H; now right|].
      destruct (H c (or_introl eq_refl)) as (k & Hk & ->). exists (k + L). split; [lra|]. split.
      + rewrite vsum_cons, E1. dvec nh. unfR. apply vec_eq3; ring.
      + cbn [map]. unfold Rsum in *. cbn [fold_right]. rewrite E2, norm_aligned by assumption. reflexivity. }
  destruct G as (L & HL & E1 & E2). rewrite E2, E1. symmetry. now apply norm_aligned.
Qed.

(* ---------------------------------------------------------------- quads *)
(* planar convex quad ABCD (counter-clockwise about nh): the four corner triangles the code uses are aligned with nh *)
Definition convex_quad (nh A B C D : V3) : Prop :=
  n2 nh = 1 /\ aligned nh (cross (B -v A) (C -v A)) /\ aligned nh (cross (C -v A) (D -v A)) /\
  aligned nh (cross (C -v B) (D -v B)) /\ aligned nh (cross (D -v B) (A -v B)).

Lemma two_aligned (nh c1 c2 : V3) : n2 nh = 1 -> aligned nh c1 -> aligned nh c2 ->
  norm Rops c1 + norm Rops c2 = norm Rops (c1 +v c2).
Proof.
  intros Hn H1 H2. pose proof (norm_sum_aligned nh [c1; c2] Hn) as E. unfold Rsum in E. cbn [map fold_right] in E.
  rewrite !vsum_cons in E. replace (c1 +v (c2 +v vsum Rops [])) with (c1 +v c2) in E
    by (unfold vsum; cbn [fold_left]; dvec c1; dvec c2; unfR; apply vec_eq3; ring).
  rewrite <- E by (intros c [<-|[<-|[]]]; assumption). ring.
Qed.

(* textbook: the area of a planar convex quad is half the norm of the cross product of its diagonals *)
Theorem quad_area_textbook (nh A B C D : V3) : convex_quad nh A B C D ->
  g_quad_area Rops A B C D = norm Rops (cross (C -v A) (D -v B)) / 2.
Proof.
  intros (Hn & H1 & H2 & H3 & H4). rewrite quad_area_def, !triangle_area_def.
  assert (E1 : cross (B -v A) (C -v A) +v cross (C -v A) (D -v A) = cross (C -v A) (D -v B))
    by (dvec A; dvec B; dvec C; dvec D; unfR; apply vec_eq3; ring).
  assert (E2 : cross (C -v B) (D -v B) +v cross (D -v B) (A -v B) = cross (C -v A) (D -v B))
    by (dvec A; dvec B; dvec C; dvec D; unfR; apply vec_eq3; ring).
  pose proof (two_aligned nh _ _ Hn H1 H2) as S1. pose proof (two_aligned nh _ _ Hn H3 H4) as S2.
  rewrite E1 in S1. rewrite E2 in S2. lra.
Qed.

(* ---------------------------------------------------------------- n-gons: the fan about the barycentre *)
(* twice the shoelace vector area: sum over the cycle of p_i x p_{i+1} *)
Definition shoelace2 (pts : list V3) : V3 := vsum Rops (map (fun pq => cross (fst pq) (snd pq)) (cyc_pairs pts)).

Lemma fan_vector_sum (L : list (V3 * V3)) (b : V3) :
  vsum Rops (map (fun pq => cross (snd pq -v fst pq) (b -v fst pq)) L)
  = vsum Rops (map (fun pq => cross (fst pq) (snd pq)) L) +v cross (vsum Rops (map snd L) -v vsum Rops (map fst L)) b.
Proof.
  induction L as [|[p q] L IH]; cbn [map fst snd].
  - unfold vsum. cbn [fold_left]. dvec b. unfR. apply vec_eq3; ring.
  - rewrite !vsum_cons, IH. generalize (vsum Rops (map (fun pq => cross (fst pq) (snd pq)) L)) (vsum Rops (map snd L)) (vsum Rops (map fst L)).
    intros s1 s2 s3. dvec p. dvec q. dvec b. dvec s1. dvec s2. dvec s3. unfR. apply vec_eq3; ring.
Qed.

Lemma cyc_pairs_fst {X} (l : list X) : map fst (cyc_pairs l) = l.
Proof.
  unfold cyc_pairs. assert (G : forall (a b : list X), length a = length b -> map fst (combine a b) = a).
  { induction a as [|x a IH]; intros [|y b] H; cbn in *; try lia; [reflexivity|]. f_equal. apply IH. lia. }
  apply G. now rewrite rot1_length.
Qed.
Lemma cyc_pairs_snd {X} (l : list X) : map snd (cyc_pairs l) = rot1 l.
Proof.
  unfold cyc_pairs. assert (G : forall (a b : list X), length a = length b -> map snd (combine a b) = b).
  { induction a as [|x a IH]; intros [|y b] H; cbn in *; try lia; [reflexivity|]. f_equal. apply IH. lia. }
  apply G. now rewrite rot1_length.
Qed.
Lemma vsum_rot1 (l : list V3) : vsum Rops (rot1 l) = vsum Rops l.
Proof. destruct l as [|x t]; [reflexivity|]. cbn [rot1]. change (x :: t) with ([x] ++ t). rewrite !vsum_app. apply vadd_comm. Qed.

(* the vector sum of the fan triangles is the shoelace vector area, whatever the apex b *)
Lemma fan_is_shoelace (pts : list V3) (b : V3) :
  vsum Rops (map (fun pq => cross (snd pq -v fst pq) (b -v fst pq)) (cyc_pairs pts)) = shoelace2 pts.
Proof.
  rewrite fan_vector_sum, cyc_pairs_fst, cyc_pairs_snd, vsum_rot1. unfold shoelace2.
  generalize (vsum Rops (map (fun pq => cross (fst pq) (snd pq)) (cyc_pairs pts))) (vsum Rops pts). intros s1 s2.
  dvec s1. dvec s2. dvec b. unfR. apply vec_eq3; ring.
Qed.

(* the code's n-gon branch (more than 4 vertices) is the fan about the barycentre *)
Lemma face_area_fan_def (pts : list V3) : (5 <= zlen pts)%Z ->
  g_face_area Rops pts = Rsum (map (fun pq => g_triangle_area Rops (fst pq) (snd pq) (g_face_bary Rops pts)) (cyc_pairs pts)).
Proof.
  intros H. unfold g_face_area. cbv zeta.
  destruct (zlen pts =? 3)%Z eqn:E3; [lia|]. destruct (zlen pts =? 4)%Z eqn:E4; [lia|].
  cbn [Rops oadd o0]. rewrite fan_as_pairs. unfold g_face_bary.
  set (b := vdiv Rops (vsum Rops pts) (oZ Rops (zlen pts))).
  rewrite <- fold_left_map with (g := fun pq : V3 * V3 => g_triangle_area Rops (fst pq) (snd pq) b) (f := Rplus).
  pose proof (ssum_Rsum (map (fun pq : V3 * V3 => g_triangle_area Rops (fst pq) (snd pq) b) (cyc_pairs pts))) as E.
  unfold ssum in E. cbn [Rops oadd o0] in E. exact E.
Qed.

(* planar convex n-gon (star-shaped about its barycentre b, counter-clockwise about nh): every fan triangle is aligned *)
Definition convex_fan (nh : V3) (pts : list V3) : Prop :=
  n2 nh = 1 /\ forall pq, In pq (cyc_pairs pts) -> aligned nh (cross (snd pq -v fst pq) (g_face_bary Rops pts -v fst pq)).

(* textbook: the area of a planar convex n-gon is half the norm of its shoelace vector area sum_i p_i x p_{i+1} *)
Theorem ngon_area_textbook (nh : V3) (pts : list V3) : (5 <= zlen pts)%Z -> convex_fan nh pts ->
  g_face_area Rops pts = norm Rops (shoelace2 pts) / 2.
Proof.
  intros H (Hn & AL). rewrite face_area_fan_def by assumption. set (b := g_face_bary Rops pts) in *.
  rewrite <- (fan_is_shoelace pts b).
  rewrite <- (norm_sum_aligned nh) by (try assumption; intros c Hc; apply in_map_iff in Hc as [pq [<- Hpq]]; now apply AL).
  rewrite map_map.
  assert (G : forall L : list (V3 * V3), Rsum (map (fun pq => g_triangle_area Rops (fst pq) (snd pq) b) L)
              = Rsum (map (fun pq => norm Rops (cross (snd pq -v fst pq) (b -v fst pq))) L) / 2).
  { induction L as [|pq L IH]; unfold Rsum in *; cbn [map fold_right]; [field|]. rewrite IH, triangle_area_def. field. }
  apply G.
Qed.

(* ---------------------------------------------------------------- the dart: planar, simple, NOT convex *)
Lemma norm_z (z : R) : norm Rops (0, 0, z) = Rabs z.
Proof. rewrite norm_unfold. unfR. replace (0 * 0 + 0 * 0 + z * z) with (z * z) by ring. rewrite <- sqrt_Rsqr_abs. reflexivity. Qed.

Lemma nonconvex_face_refuted :
  let A := (0, 0, 0) in let B := (2, 1, 0) in let C := (4, 0, 0) in let D := (2, 4, 0) in
  (* the dart's true area |AC x BD|/2 is 6, the code's quad area is 8 *)
  norm Rops (cross (C -v A) (D -v B)) / 2 = 6 /\ g_quad_area Rops A B C D = 8 /\
  (* its normal from the first three vertices points down, but up when the same face starts at B *)
  g_face_normal Rops A B C = (0, 0, -1) /\ g_face_normal Rops B C D = (0, 0, 1).
Proof.
  cbv zeta.
  assert (Z : forall x y z : R, (x, y, z) = (0, 0, z) -> norm Rops (x, y, z) = Rabs z) by (intros x y z E; rewrite E; apply norm_z).
  repeat apply conj.
  - replace (cross ((4, 0, 0) -v (0, 0, 0)) ((2, 4, 0) -v (2, 1, 0))) with (0, 0, 12) by (unfR; apply vec_eq3; ring).
    rewrite norm_z, Rabs_right by lra. lra.
  - rewrite quad_area_def, !triangle_area_def.
    replace (cross ((2, 1, 0) -v (0, 0, 0)) ((4, 0, 0) -v (0, 0, 0))) with (0, 0, -4) by (unfR; apply vec_eq3; ring).
    replace (cross ((4, 0, 0) -v (0, 0, 0)) ((2, 4, 0) -v (0, 0, 0))) with (0, 0, 16) by (unfR; apply vec_eq3; ring).
    replace (cross ((4, 0, 0) -v (2, 1, 0)) ((2, 4, 0) -v (2, 1, 0))) with (0, 0, 6) by (unfR; apply vec_eq3; ring).
    replace (cross ((2, 4, 0) -v (2, 1, 0)) ((0, 0, 0) -v (2, 1, 0))) with (0, 0, 6) by (unfR; apply vec_eq3; ring).
    rewrite !norm_z. rewrite (Rabs_left (-4)) by lra. rewrite !Rabs_right by lra. lra.
  - unfold g_face_normal, normalized.
    replace (cross ((2, 1, 0) -v (0, 0, 0)) ((4, 0, 0) -v (0, 0, 0))) with (0, 0, -4) by (unfR; apply vec_eq3; ring).
    rewrite norm_z, Rabs_left by lra. unfR. apply vec_eq3; field.
  - unfold g_face_normal, normalized.
    replace (cross ((4, 0, 0) -v (2, 1, 0)) ((2, 4, 0) -v (2, 1, 0))) with (0, 0, 6) by (unfR; apply vec_eq3; ring).
    rewrite norm_z, Rabs_right by lra. unfR. apply vec_eq3; field.
Qed.
