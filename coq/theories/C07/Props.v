(* C07 property theorems only: each closed by `exact <lemma>` with Print Assumptions beneath. *)
From Coq Require Import ZArith List Bool Reals.
Require Import MV.C07.Model MV.C07.Gen MV.C07.Mesh MV.C07.Proofs_Base MV.C07.Proofs.

Theorem C07_definitions : definitions_statement.
Proof. exact definitions_proof. Qed.
Print Assumptions C07_definitions.
