(* C07 property theorems only: each closed by `exact <lemma>` with Print Assumptions beneath.
   Every statement is spelled out here (it is convertible to the `*_statement` definitions of Proofs.v, where the
   comments explaining each clause live).  Over R: `Rops` is the real-number instance of the operations record.

   C07_definitions: second conjunct = textbook areas of planar CONVEX quads / n-gons (hypotheses convex_quad / convex_fan
     are visible in the statement), global sums and means, per-vertex quantities, mesh-level cotangent weight.
   C07_renumbering_partial - what is proved (first conjunct = clauses (a)(b)(c), second = (a')(d) added in round 7):
     (a)+(a') vertex renumbering sigma keeping the order of the face list and of each face's vertex list (edges may be
     stored swapped): EVERY modelled quantity - per-edge/face/corner/cell lists and global numbers unchanged, per-vertex
     lists moved with sigma; (d) the ORDER of the stored edge list is irrelevant to degree / border flags / angle defects
     (so a renumbered mouette mesh, which re-sorts its edges, is covered by (a) then (d)); (b) rotating one face's vertex
     list: area of every polygon, normal/cotangents of a triangle, barycentre; (c) permuting and rotating the face list for
     the faces->vertices accumulation with values and weights CARRIED ALONG.  GAPS (tested by the oracle / correspondence only):
       - that the mesh's OWN corner angles / areas / normals rotate with a rotated face is stated for triangles and for the
         area only (face_corner_pairs of a rotated polygon is not), so (c) is not instantiated with model-computed weights;
       - angle_defects, cotan_weights, corners->vertices, total_area under REORDERING OF THE FACE LIST.
   C07_interpolation_average: vertices->faces, faces->vertices (4 weightings) and corners->vertices (3 weightings + the
     refused one) ARE the defining weighted averages, as closed forms of the generated bodies; corners->faces has only the
     constant clause (C07_interpolate_constant).
   C07_circumcenter is conditional on a point being returned (the relative parallelism guard can return None for a
     needle-thin triangle); no totality statement.
   In C07_rigid_invariance / C07_scaling the angle_defects and vertex_normals clauses take the SAME angle list on both sides:
     they say these functions do not read coordinates otherwise; invariance of the angle values is the corner_pairs clause.
   The two `_refuted` theorems are recorded findings (known_findings.d/C07.json). *)
From Coq Require Import ZArith List Bool Reals Permutation.
Require Import MV.Lib.Base MV.C07.Model MV.C07.Gen MV.C07.Mesh MV.C07.Proofs_Base MV.C07.Proofs_Rigid MV.C07.Proofs_MeshRigid
  MV.C07.Proofs_Angles MV.C07.Proofs_Interp MV.C07.Proofs_GB MV.C07.Proofs_Renum MV.C07.Proofs_Count MV.C07.Proofs_GBfull
  MV.C07.Proofs_Findings MV.C07.Proofs_Circum MV.C07.Proofs_Keyed MV.C07.Proofs_RenumV MV.C07.Proofs_FacePerm
  MV.C07.Proofs_FanRot MV.C07.Proofs_RenumFull MV.C07.Proofs_MeshScale MV.C07.Proofs_C2F MV.C07.Proofs_Convex
  MV.C07.Proofs_Global MV.C07.Proofs MV.C07.Proofs_Renum3 MV.C07.Proofs_WAvg MV.C07.Proofs_R7.
Import ListNotations.
Open Scope R_scope.

Theorem C07_definitions :
(  (forall a b : V3, cross a b = (vy a * vz b - vz a * vy b, vz a * vx b - vx a * vz b, vx a * vy b - vy a * vx b)) /\
  (forall A B : V3, g_edge_length Rops A B =
       sqrt ((vx B - vx A) * (vx B - vx A) + (vy B - vy A) * (vy B - vy A) + (vz B - vz A) * (vz B - vz A))) /\
  (forall A B : V3, g_edge_middle Rops A B = ((vx A + vx B) / 2, (vy A + vy B) / 2, (vz A + vz B) / 2)) /\
  (forall A B C : V3, 0 <= g_triangle_area Rops A B C /\
       4 * (g_triangle_area Rops A B C * g_triangle_area Rops A B C) = n2 (cross (B -v A) (C -v A))) /\
  (forall u v : V3, n2 (cross u v) = n2 u * n2 v - dotR u v * dotR u v) /\
  (forall A B C D : V3, g_quad_area Rops A B C D =
       ((g_triangle_area Rops A B C + g_triangle_area Rops A C D) + (g_triangle_area Rops B C D + g_triangle_area Rops B D A)) / 2) /\
  (forall A B C : V3, 0 < n2 (cross (B -v A) (C -v A)) ->
       g_face_normal Rops A B C = vdiv Rops (cross (B -v A) (C -v A)) (norm Rops (cross (B -v A) (C -v A))) /\
       n2 (g_face_normal Rops A B C) = 1 /\
       dotR (g_face_normal Rops A B C) (B -v A) = 0 /\ dotR (g_face_normal Rops A B C) (C -v A) = 0) /\
  (forall A B C : V3, let p := g_angle3 Rops A B C in
       fst p = dotR (A -v B) (C -v B) /\ 0 <= snd p /\ snd p * snd p = n2 (cross (A -v B) (C -v B)) /\
       fst p * fst p + snd p * snd p = n2 (A -v B) * n2 (C -v B)) /\
  (forall A B C : V3, 0 < n2 (cross (A -v B) (C -v B)) ->
       g_cotan Rops A B C = dotR (A -v B) (C -v B) / norm Rops (cross (A -v B) (C -v B)) /\
       g_cotan Rops A B C = g_cotan Rops C B A) /\
  (forall A B C : V3, g_cot_stride = 3%Z /\
       g_cot_face Rops A B C = [g_cotan Rops C A B; g_cotan Rops A B C; g_cotan Rops B C A]) /\
  (forall (k : nat) (first iA iB : Z) (x : R), (k < 2)%nat -> (0 <= iA < 3)%Z -> (0 <= iB < 3)%Z -> iA <> iB ->
       g_cw_term Rops k x = x / 2 /\
       exists j, (0 <= j < 3)%Z /\ j <> iA /\ j <> iB /\ g_cw_corner k first iA iB = (first + j)%Z) /\
  (forall A B C D : V3, 6 * g_cell_volume Rops A B C D = Rabs (dotR (A -v D) (cross (B -v D) (C -v D)))) /\
  (forall (pi d a : R) (onb zb : bool),
       g_defect_init Rops pi = 2 * pi /\ g_defect_border Rops false pi = pi /\ g_defect_border Rops true pi = 0 /\
       g_defect_skip onb zb = (onb && zb)%bool /\ g_defect_step Rops d a = d - a) /\
  (forall v e f : Z, g_euler v e f = (v - e + f)%Z)) /\
(  (* planar convex quad: half the norm of the cross product of the diagonals *)
  (forall nh A B C D : V3, convex_quad nh A B C D -> g_quad_area Rops A B C D = norm Rops (cross (C -v A) (D -v B)) / 2) /\
  (* n-gon (>= 5 vertices): the fan about the barycentre; planar convex: half the norm of the shoelace vector area *)
  (forall pts : list V3, (5 <= zlen pts)%Z ->
     g_face_area Rops pts = Rsum (map (fun pq => g_triangle_area Rops (fst pq) (snd pq) (g_face_bary Rops pts)) (cyc_pairs pts)) /\
     (forall nh, convex_fan nh pts -> g_face_area Rops pts = norm Rops (shoelace2 pts) / 2)) /\
  (* barycentres: the sum of the points divided by their number *)
  (forall pts : list V3, g_face_bary Rops pts = vdiv Rops (vsum Rops pts) (IZR (zlen pts)) /\
                         g_cell_bary Rops pts = vdiv Rops (vsum Rops pts) (IZR (zlen pts)) /\
                         g_barycenter Rops pts = vdiv Rops (vsum Rops pts) (IZR (zlen pts))) /\
  (* means: the first k = min(n, count) values, divided by k; n beyond the count gives the mean of all *)
  (forall (m : mesh R) (n : option Z),
     mean_edge_length Rops m n = fold_left Rplus (firstn (Z.to_nat (mean_k n (edges m))) (edge_length Rops m)) 0 / IZR (mean_k n (edges m)) /\
     mean_face_area Rops m n = fold_left Rplus (firstn (Z.to_nat (mean_k n (faces m))) (face_area Rops m)) 0 / IZR (mean_k n (faces m)) /\
     mean_cell_volume Rops m n = fold_left Rplus (firstn (Z.to_nat (mean_k n (cells m))) (cell_volume Rops m)) 0 / IZR (mean_k n (cells m)) /\
     total_area Rops m = fold_left Rplus (face_area Rops m) 0) /\
  (forall (A : Type) (l : list A) (n : Z), (zlen l <= n)%Z -> mean_k (Some n) l = mean_k None l) /\
  (* degree: the number of edge ends at the vertex *)
  (forall (m : mesh R) (v : Z),
     (forall e, In e (edges m) -> (0 <= fst e < zlen (verts m))%Z /\ (0 <= snd e < zlen (verts m))%Z) ->
     znth (degree m) v 0%Z
     = fold_left (fun acc x => if (x =? v)%Z then (acc + 1)%Z else acc) (flat_map (fun e => [fst e; snd e]) (edges m)) 0%Z) /\
  (* vertex normals: the weighted sum of the face normals, made unit *)
  (forall x : V3, g_vertex_normal_finish Rops x = normalized Rops x /\ (0 < n2 x -> n2 (g_vertex_normal_finish Rops x) = 1)) /\
  (forall w ang (m : mesh R), vertex_normals Rops w ang m
     = map (normalized Rops) (interpolate_faces_to_vertices Rops (vzero Rops) (vadd Rops) (vscale Rops) (vdiv Rops) w
                                (face_area Rops m) ang m (face_normals Rops m))) /\
  (* the caller's custom_fnormals win over a cached "normals" attribute (0), the cache over recomputation (1 / 2) *)
  (forall cached : bool, g_vn_source true cached = 0%nat /\ g_vn_source false true = 1%nat /\ g_vn_source false false = 2%nat) /\
  (forall w ang (m : mesh R) (fn : list V3),
     vertex_normals_custom Rops w ang m fn
     = map (normalized Rops) (interpolate_faces_to_vertices Rops (vzero Rops) (vadd Rops) (vscale Rops) (vdiv Rops) w
                                (face_area Rops m) ang m fn) /\
     vertex_normals Rops w ang m = vertex_normals_custom Rops w ang m (face_normals Rops m)) /\
  (* angle defect of a vertex: 2 pi (inside) / pi (border) minus the corner angles at the vertex; 0 on the border if zero_border *)
  (forall (zb : bool) (pi : R) (ang : list R) (m : mesh R) (v : Z),
     (forall F, In F (faces m) -> forall u, In u F -> (0 <= u < zlen (verts m))%Z) -> (0 <= v < zlen (verts m))%Z ->
     let on_border := znth (border_flags m) v false in
     let angle_sum := Rsum (map (fun cf => znth ang (fst cf) 0) (corners_at (enumerate (corners (faces m))) v)) in
     znth (angle_defects Rops zb pi ang m) v 0 = if on_border then (if zb then 0 else pi - angle_sum) else 2 * pi - angle_sum) /\
  (* cotangent weight of an edge: for each of its two half-edges that exists, half the cotangent at the opposite corner *)
  (forall (m : mesh R), cotan_weights Rops m = map (cw_edge Rops (faces m) (half_edges (faces m)) (cotangent Rops m)) (edges m)) /\
  (forall fs hes cot (e : Z * Z),
     cw_edge Rops fs hes cot e = half_edge_term fs hes cot (fst e) (snd e) + half_edge_term fs hes cot (snd e) (fst e))).
Proof. exact definitions_full_proof. Qed.
Print Assumptions C07_definitions.

Theorem C07_rigid_invariance :
  forall (Q : rotation) (t : V3) (m : mesh R), wf_mesh m ->
  let rg := rigid Q t in let rt := rot Q in let m' := map_mesh rg m in
  edge_length Rops m' = edge_length Rops m /\
  edge_middle_point Rops m' = map rg (edge_middle_point Rops m) /\
  face_area Rops m' = face_area Rops m /\
  face_normals Rops m' = map rt (face_normals Rops m) /\
  face_barycenter Rops m' = map rg (face_barycenter Rops m) /\
  corner_pairs Rops m' = corner_pairs Rops m /\
  cotangent Rops m' = cotangent Rops m /\
  cotan_weights Rops m' = cotan_weights Rops m /\
  degree m' = degree m /\
  (forall zb pi ang, angle_defects Rops zb pi ang m' = angle_defects Rops zb pi ang m) /\
  (forall w ang, vertex_normals Rops w ang m' = map rt (vertex_normals Rops w ang m)) /\
  cell_volume Rops m' = cell_volume Rops m /\
  cell_barycenter Rops m' = map rg (cell_barycenter Rops m) /\
  euler_characteristic m' = euler_characteristic m /\
  (forall n, mean_edge_length Rops m' n = mean_edge_length Rops m n) /\
  (forall n, mean_face_area Rops m' n = mean_face_area Rops m n) /\
  (forall n, mean_cell_volume Rops m' n = mean_cell_volume Rops m n) /\
  total_area Rops m' = total_area Rops m /\
  (verts m <> [] -> barycenter Rops m' = rg (barycenter Rops m)) /\
  ((forall F, In F (faces m) ->
      0 < n2 (cross (P Rops m (znth F 1 0%Z) -v P Rops m (znth F 0 0%Z)) (P Rops m (znth F 2 0%Z) -v P Rops m (znth F 0 0%Z)))) ->
   face_circumcenter Rops m' = map (omap rg) (face_circumcenter Rops m)).
Proof. exact rigid_invariance_proof. Qed.
Print Assumptions C07_rigid_invariance.

Theorem C07_scaling :
  (* formulas *)
  (forall s : R, 0 < s -> let sc := scl s in
  (forall A B, g_edge_length Rops (sc A) (sc B) = s * g_edge_length Rops A B) /\
  (forall A B, g_edge_middle Rops (sc A) (sc B) = sc (g_edge_middle Rops A B)) /\
  (forall A B C, g_triangle_area Rops (sc A) (sc B) (sc C) = s * s * g_triangle_area Rops A B C) /\
  (forall A B C D, g_quad_area Rops (sc A) (sc B) (sc C) (sc D) = s * s * g_quad_area Rops A B C D) /\
  (forall A B C, g_angle3 Rops (sc A) (sc B) (sc C) = (s * s * fst (g_angle3 Rops A B C), s * s * snd (g_angle3 Rops A B C))) /\
  (forall A B C, 0 < n2 (cross (A -v B) (C -v B)) -> g_cotan Rops (sc A) (sc B) (sc C) = g_cotan Rops A B C) /\
  (forall A B C, 0 < n2 (cross (B -v A) (C -v A)) -> g_face_normal Rops (sc A) (sc B) (sc C) = g_face_normal Rops A B C) /\
  (forall A B C D, g_cell_volume Rops (sc A) (sc B) (sc C) (sc D) = s * s * s * g_cell_volume Rops A B C D) /\
  (forall l, g_face_bary Rops (map sc l) = sc (g_face_bary Rops l)) /\
  (forall l, g_cell_bary Rops (map sc l) = sc (g_cell_bary Rops l)) /\
  (forall l, g_barycenter Rops (map sc l) = sc (g_barycenter Rops l)) /\
  (forall A B C, 0 < n2 (cross (B -v A) (C -v A)) ->
     g_circumcenter Rops (sc A) (sc B) (sc C) = omap sc (g_circumcenter Rops A B C))) /\
  (* every attribute of the scaled mesh *)
  (forall (s : R) (m : mesh R), 0 < s -> wf_mesh m -> let sc := scl s in let m' := map_mesh sc m in
  edge_length Rops m' = map (Rmult s) (edge_length Rops m) /\
  edge_middle_point Rops m' = map sc (edge_middle_point Rops m) /\
  face_area Rops m' = map (Rmult (s * s)) (face_area Rops m) /\
  face_barycenter Rops m' = map sc (face_barycenter Rops m) /\
  corner_pairs Rops m' = map (fun p => (s * s * fst p, s * s * snd p)) (corner_pairs Rops m) /\
  map atan2_pair (corner_pairs Rops m') = map atan2_pair (corner_pairs Rops m) /\
  degree m' = degree m /\
  (forall zb pi ang, angle_defects Rops zb pi ang m' = angle_defects Rops zb pi ang m) /\
  euler_characteristic m' = euler_characteristic m /\
  cell_volume Rops m' = map (Rmult (s * s * s)) (cell_volume Rops m) /\
  cell_barycenter Rops m' = map sc (cell_barycenter Rops m) /\
  (forall n, mean_edge_length Rops m' n = s * mean_edge_length Rops m n) /\
  (forall n, mean_face_area Rops m' n = s * s * mean_face_area Rops m n) /\
  (forall n, mean_cell_volume Rops m' n = s * s * s * mean_cell_volume Rops m n) /\
  total_area Rops m' = s * s * total_area Rops m /\
  barycenter Rops m' = sc (barycenter Rops m) /\
  (* the first three vertices of every face are not collinear: unit normals, cotangents, vertex normals *)
  (faces_nondegenerate m ->
     face_normals Rops m' = face_normals Rops m /\
     face_circumcenter Rops m' = map (omap sc) (face_circumcenter Rops m) /\
     ((forall F, In F (faces m) -> zlen F = 3%Z) -> cotangent Rops m' = cotangent Rops m /\ cotan_weights Rops m' = cotan_weights Rops m) /\
     (forall ang, vertex_normals Rops WUniform ang m' = vertex_normals Rops WUniform ang m /\
                  vertex_normals Rops WAngle ang m' = vertex_normals Rops WAngle ang m) /\
     ((forall f, (0 <= f < zlen (faces m))%Z -> 0 < znth (face_area Rops m) f 0) ->
      (forall v, (0 <= v < zlen (verts m))%Z -> exists F, In F (faces m) /\ In v F) ->
      forall ang, vertex_normals Rops WArea ang m' = vertex_normals Rops WArea ang m))).
Proof. exact scaling_proof. Qed.
Print Assumptions C07_scaling.

Theorem C07_renumbering_partial :
(
  (* (a) renumbering the vertices by sigma (injective on the vertex range); the renumbered mesh may store an edge in
         either orientation.  Per-edge/face/corner/cell attributes are unchanged, per-vertex attributes move with sigma *)
  (forall (m m' : mesh R) (sigma : Z -> Z) (sw : Z * Z -> bool), wf_mesh m ->
     let nV := zlen (verts m) in
     zlen (verts m') = nV ->
     (forall u v, (0 <= u < nV)%Z -> (0 <= v < nV)%Z -> sigma u = sigma v -> u = v) ->
     (forall v, (0 <= v < nV)%Z -> (0 <= sigma v < nV)%Z) ->
     (forall v, in_rng m v -> P Rops m' (sigma v) = P Rops m v) ->
     faces m' = map (map sigma) (faces m) -> cells m' = map (map sigma) (cells m) ->
     edges m' = map (fun e => if sw e then (sigma (snd e), sigma (fst e)) else (sigma (fst e), sigma (snd e))) (edges m) ->
     (edge_length Rops m' = edge_length Rops m /\ edge_middle_point Rops m' = edge_middle_point Rops m /\
      face_area Rops m' = face_area Rops m /\ face_normals Rops m' = face_normals Rops m /\
      face_barycenter Rops m' = face_barycenter Rops m /\ corner_pairs Rops m' = corner_pairs Rops m /\
      cotangent Rops m' = cotangent Rops m /\ cell_volume Rops m' = cell_volume Rops m /\
      cell_barycenter Rops m' = cell_barycenter Rops m /\ total_area Rops m' = total_area Rops m) /\
     (forall v, (0 <= v < nV)%Z ->
        znth (degree m') (sigma v) 0%Z = znth (degree m) v 0%Z /\
        znth (border_flags m') (sigma v) false = znth (border_flags m) v false /\
        (forall zb pi ang, znth (angle_defects Rops zb pi ang m') (sigma v) 0 = znth (angle_defects Rops zb pi ang m) v 0) /\
        (forall w ang, znth (vertex_normals Rops w ang m') (sigma v) (vzero Rops) = znth (vertex_normals Rops w ang m) v (vzero Rops)) /\
        (forall w area ang fattr,
           znth (interpolate_faces_to_vertices Rops 0 Rplus (smul_l Rops) Rdiv w area ang m' fattr) (sigma v) 0
           = znth (interpolate_faces_to_vertices Rops 0 Rplus (smul_l Rops) Rdiv w area ang m fattr) v 0) /\
        (forall w ang cattr,
           match average_corners_to_vertices Rops 0 Rplus (smul_l Rops) Rdiv w ang m' cattr,
                 average_corners_to_vertices Rops 0 Rplus (smul_l Rops) Rdiv w ang m cattr with
           | Some l', Some l => znth l' (sigma v) 0 = znth l v 0
           | None, None => True
           | _, _ => False
           end))) /\
  (* (b) rotating the vertex list of a face: area of EVERY polygon (triangle, quad, fan of an n-gon - planar or not),
         normal and cotangents of a triangle, barycentre of any polygon *)
  (forall A B C : V3, g_triangle_area Rops B C A = g_triangle_area Rops A B C /\
                      g_face_normal Rops B C A = g_face_normal Rops A B C /\
                      g_cot_face Rops B C A = tl (g_cot_face Rops A B C) ++ [hd 0 (g_cot_face Rops A B C)] /\
                      g_distance Rops A B = g_distance Rops B A) /\
  (forall A B C D : V3, g_quad_area Rops B C D A = g_quad_area Rops A B C D) /\
  (forall pts : list V3, g_face_area Rops (rot1 pts) = g_face_area Rops pts) /\
  (forall a b : list V3, g_face_bary Rops (b ++ a) = g_face_bary Rops (a ++ b)) /\
  (* (c) permuting the face list and rotating each face (drel), every face carrying its value, its area weight and its
         corner-angle weights along: the faces->vertices accumulation is unchanged, for every weighting, for scalar and
         for vector (normals) attributes - one generic lemma on commutative accumulation (Proofs_FacePerm) *)
  (forall (w : weighting) (D D' : list (@dface R R)) (mm mm' : mesh R),
     Forall wfd D -> Forall wfd D' -> drel D D' -> faces mm = d_faces D -> faces mm' = d_faces D' ->
     zlen (verts mm') = zlen (verts mm) ->
     interpolate_faces_to_vertices Rops 0 Rplus (smul_l Rops) Rdiv w (d_areas D') (d_angs D') mm' (d_vals D')
     = interpolate_faces_to_vertices Rops 0 Rplus (smul_l Rops) Rdiv w (d_areas D) (d_angs D) mm (d_vals D)) /\
  (forall (w : weighting) (D D' : list (@dface R V3)) (mm mm' : mesh R),
     Forall wfd D -> Forall wfd D' -> drel D D' -> faces mm = d_faces D -> faces mm' = d_faces D' ->
     zlen (verts mm') = zlen (verts mm) ->
     interpolate_faces_to_vertices Rops (vzero Rops) (vadd Rops) (vscale Rops) (vdiv Rops) w (d_areas D') (d_angs D') mm' (d_vals D')
     = interpolate_faces_to_vertices Rops (vzero Rops) (vadd Rops) (vscale Rops) (vdiv Rops) w (d_areas D) (d_angs D) mm (d_vals D))
) /\
(
  (* (a') same renumbering sigma as clause (a): the remaining quantities.  Per-edge / per-face / per-corner lists and the
          global numbers are unchanged; a per-vertex INPUT attribute is moved with sigma by the caller *)
  (forall (m m' : mesh R) (sigma : Z -> Z) (sw : Z * Z -> bool), wf_mesh m ->
     let nV := zlen (verts m) in
     zlen (verts m') = nV ->
     (forall u v, (0 <= u < nV)%Z -> (0 <= v < nV)%Z -> sigma u = sigma v -> u = v) ->
     (forall v, (0 <= v < nV)%Z -> (0 <= sigma v < nV)%Z) ->
     (forall v, in_rng m v -> P Rops m' (sigma v) = P Rops m v) ->
     faces m' = map (map sigma) (faces m) -> cells m' = map (map sigma) (cells m) ->
     edges m' = map (fun e => if sw e then (sigma (snd e), sigma (fst e)) else (sigma (fst e), sigma (snd e))) (edges m) ->
     cotan_weights Rops m' = cotan_weights Rops m /\
     (forall n, mean_edge_length Rops m' n = mean_edge_length Rops m n /\
                mean_face_area Rops m' n = mean_face_area Rops m n /\
                mean_cell_volume Rops m' n = mean_cell_volume Rops m n) /\
     euler_characteristic m' = euler_characteristic m /\
     face_circumcenter Rops m' = face_circumcenter Rops m /\
     barycenter Rops m' = barycenter Rops m /\
     (forall w ang cattr, average_corners_to_faces Rops 0 Rplus (smul_l Rops) Rdiv w ang m' cattr
                          = average_corners_to_faces Rops 0 Rplus (smul_l Rops) Rdiv w ang m cattr) /\
     (forall fattr, scatter_faces_to_corners 0 m' fattr = scatter_faces_to_corners 0 m fattr) /\
     (forall vattr vattr' : list R, (forall v, (0 <= v < nV)%Z -> znth vattr' (sigma v) 0 = znth vattr v 0) ->
        scatter_vertices_to_corners 0 m' vattr' = scatter_vertices_to_corners 0 m vattr /\
        interpolate_vertices_to_faces Rops 0 Rplus (smul_l Rops) Rdiv m' vattr'
        = interpolate_vertices_to_faces Rops 0 Rplus (smul_l Rops) Rdiv m vattr)) /\
  (* (d) the ORDER in which the edge list is stored (a renumbered mouette mesh re-sorts it) does not matter to the
         per-vertex quantities that read it *)
  (forall m1 m2 : mesh R, zlen (verts m2) = zlen (verts m1) -> faces m2 = faces m1 ->
     Permutation (edges m2) (edges m1) ->
     (forall e, In e (edges m1) -> (0 <= fst e < zlen (verts m1))%Z /\ (0 <= snd e < zlen (verts m1))%Z) ->
     degree m2 = degree m1 /\ border_flags m2 = border_flags m1 /\
     (forall zb pi ang, angle_defects Rops zb pi ang m2 = angle_defects Rops zb pi ang m1))
).
Proof. exact renumbering_full_proof. Qed.
Print Assumptions C07_renumbering_partial.

Theorem C07_angle_sum :
  (forall (m : mesh R) (a b c : Z), face_corner_pairs Rops m [a; b; c]
      = [g_corner_angle Rops (P Rops m c) (P Rops m a) (P Rops m b);
         g_corner_angle Rops (P Rops m a) (P Rops m b) (P Rops m c);
         g_corner_angle Rops (P Rops m b) (P Rops m c) (P Rops m a)]) /\
  (forall sn cs : R, 0 < sn -> let th := atan2_pair (cs, sn) in
      0 < th < PI /\ cos th = cs / sqrt (cs * cs + sn * sn) /\ sin th = sn / sqrt (cs * cs + sn * sn)) /\
  (forall A B C : V3, 0 < n2 (cross (B -v A) (C -v A)) ->
     let p1 := g_corner_angle Rops C A B in let p2 := g_corner_angle Rops A B C in let p3 := g_corner_angle Rops B C A in
     (0 < snd p1 /\ 0 < snd p2 /\ 0 < snd p3) /\
     cmul (cmul (cnormalize p1) (cnormalize p2)) (cnormalize p3) = (-1, 0) /\
     atan2_pair p1 + atan2_pair p2 + atan2_pair p3 = PI).
Proof. exact angle_sum_proof. Qed.
Print Assumptions C07_angle_sum.

Theorem C07_gauss_bonnet :
  forall m : mesh R, let nV := length (verts m) in
  manifold (faces m) (edges m) nV ->
  (forall F, In F (faces m) -> forall v, In v F -> (0 <= v < Z.of_nat nV)%Z) ->
  (forall a b c, In [a; b; c]%Z (faces m) -> 0 < n2 (cross (P Rops m b -v P Rops m a) (P Rops m c -v P Rops m a))) ->
  ssum Rops (angle_defects Rops false PI (model_angles m) m) = 2 * PI * IZR (euler_characteristic m).
Proof. exact gauss_bonnet_proof. Qed.
Print Assumptions C07_gauss_bonnet.

Theorem C07_interpolate_constant :
  forall (m : mesh R) (c : R),
  let nV := length (verts m) in let nF := length (faces m) in let nC := length (corners (faces m)) in
  (forall F, In F (faces m) -> F <> [] /\ forall v, In v F -> (0 <= v < Z.of_nat nV)%Z) ->
  (forall v, (0 <= v < Z.of_nat nV)%Z -> exists F, In F (faces m) /\ In v F) ->
  interpolate_vertices_to_faces Rops 0 Rplus (smul_l Rops) Rdiv m (repeat c nV) = repeat c nF /\
  (forall w area ang, w <> WSum ->
     (forall f, (0 <= f < Z.of_nat nF)%Z -> 0 < znth area f 0) -> (forall k, (0 <= k < Z.of_nat nC)%Z -> 0 < znth ang k 0) ->
     interpolate_faces_to_vertices Rops 0 Rplus (smul_l Rops) Rdiv w area ang m (repeat c nF) = repeat c nV) /\
  (forall w ang, w = WUniform \/ w = WAngle -> (forall k, (0 <= k < Z.of_nat nC)%Z -> 0 < znth ang k 0) ->
     average_corners_to_vertices Rops 0 Rplus (smul_l Rops) Rdiv w ang m (repeat c nC) = Some (repeat c nV)) /\
  scatter_vertices_to_corners 0 m (repeat c nV) = repeat c nC /\
  scatter_faces_to_corners 0 m (repeat c nF) = repeat c nC /\
  (forall w ang, w = WUniform \/ w = WAngle -> (forall k, (0 <= k < Z.of_nat nC)%Z -> 0 < znth ang k 0) ->
     average_corners_to_faces Rops 0 Rplus (smul_l Rops) Rdiv w ang m (repeat c nC) = Some (repeat c nF)).
Proof. exact interpolate_constant_proof. Qed.
Print Assumptions C07_interpolate_constant.

Theorem C07_interpolation_average :
  (* vertices -> faces: the arithmetic mean of the face's vertex values *)
  (forall (m : mesh R) (vattr : list R),
     interpolate_vertices_to_faces Rops 0 Rplus (smul_l Rops) Rdiv m vattr
     = map (fun F => Rsum (map (fun v => znth vattr v 0) F) / IZR (zlen F)) (faces m)) /\
  (* faces -> vertices at vertex v, over the corners (c, f) at v: uniform  sum x_f / #corners;  sum  sum x_f;
     area  sum x_f A_f / sum A_f;  angle  sum x_f theta_c / sum theta_c *)
  (forall (w : weighting) (area ang : list R) (m : mesh R) (fattr : list R) (v : Z), (0 <= v < zlen (verts m))%Z ->
     let cv := corners_at (enumerate (corners (faces m))) v in
     let x := fun cf : Z * Z => znth fattr (snd cf) 0 in
     znth (interpolate_faces_to_vertices Rops 0 Rplus (smul_l Rops) Rdiv w area ang m fattr) v 0
     = match w with
       | WUniform => Rsum (map x cv) / IZR (zlen cv)
       | WSum => Rsum (map x cv)
       | WArea => Rsum (map (fun cf => x cf * znth area (snd cf) 0) cv) / Rsum (map (fun cf => znth area (snd cf) 0) cv)
       | WAngle => Rsum (map (fun cf => x cf * znth ang (fst cf) 0) cv) / Rsum (map (fun cf => znth ang (fst cf) 0) cv)
       end) /\
  (* corners -> vertices: the same with the corner's own value; the area weighting is refused *)
  (forall (w : weighting) (ang : list R) (m : mesh R) (cattr : list R) (v : Z), (0 <= v < zlen (verts m))%Z ->
     let cv := corners_at (enumerate (corners (faces m))) v in
     let x := fun cf : Z * Z => znth cattr (fst cf) 0 in
     match average_corners_to_vertices Rops 0 Rplus (smul_l Rops) Rdiv w ang m cattr with
     | None => w = WArea
     | Some l => znth l v 0 = match w with
                              | WUniform => Rsum (map x cv) / IZR (zlen cv)
                              | WSum => Rsum (map x cv)
                              | _ => Rsum (map (fun cf => x cf * znth ang (fst cf) 0) cv) / Rsum (map (fun cf => znth ang (fst cf) 0) cv)
                              end
     end).
Proof. exact interpolation_average_proof. Qed.
Print Assumptions C07_interpolation_average.

Theorem C07_circumcenter :
  forall A B C c : V3, 0 < n2 (cross (B -v A) (C -v A)) -> g_circumcenter Rops A B C = Some c ->
  n2 (c -v A) = n2 (c -v B) /\ n2 (c -v A) = n2 (c -v C) /\ dotR (cross (B -v A) (C -v A)) (c -v A) = 0.
Proof. exact circumcenter_proof. Qed.
Print Assumptions C07_circumcenter.

Theorem C07_face_normal_rotation_refuted :
  exists A B C D : V3,
    0 < n2 (cross (B -v A) (C -v A)) /\ 0 < n2 (cross (C -v B) (D -v B)) /\
    g_face_normal Rops A B C <> g_face_normal Rops B C D.
Proof. exact face_normal_rotation_refuted. Qed.
Print Assumptions C07_face_normal_rotation_refuted.

Theorem C07_nonconvex_face_refuted :
  let A := (0, 0, 0) in let B := (2, 1, 0) in let C := (4, 0, 0) in let D := (2, 4, 0) in
  norm Rops (cross (C -v A) (D -v B)) / 2 = 6 /\ g_quad_area Rops A B C D = 8 /\
  g_face_normal Rops A B C = (0, 0, -1) /\ g_face_normal Rops B C D = (0, 0, 1).
Proof. exact nonconvex_face_refuted. Qed.
Print Assumptions C07_nonconvex_face_refuted.

