(* C07 property theorems only: each closed by `exact <lemma>` with Print Assumptions beneath.
   The statements are the `*_statement` definitions of Proofs.v (spelled out there with comments). *)
From Coq Require Import ZArith List Bool Reals.
Require Import MV.C07.Model MV.C07.Gen MV.C07.Mesh MV.C07.Proofs_Base MV.C07.Proofs_Findings MV.C07.Proofs.

Theorem C07_definitions : definitions_statement.
Proof. exact definitions_proof. Qed.
Print Assumptions C07_definitions.

Theorem C07_rigid_invariance : rigid_invariance_statement.
Proof. exact rigid_invariance_proof. Qed.
Print Assumptions C07_rigid_invariance.

Theorem C07_scaling : scaling_statement.
Proof. exact scaling_proof. Qed.
Print Assumptions C07_scaling.

Theorem C07_renumbering_partial : renumbering_statement.
Proof. exact renumbering_proof. Qed.
Print Assumptions C07_renumbering_partial.

Theorem C07_angle_sum : angle_sum_statement.
Proof. exact angle_sum_proof. Qed.
Print Assumptions C07_angle_sum.

Theorem C07_gauss_bonnet : gauss_bonnet_statement.
Proof. exact gauss_bonnet_proof. Qed.
Print Assumptions C07_gauss_bonnet.

Theorem C07_interpolate_constant : interpolate_constant_statement.
Proof. exact interpolate_constant_proof. Qed.
Print Assumptions C07_interpolate_constant.

Theorem C07_face_normal_rotation_refuted : face_normal_rotation_refuted_statement.
Proof. exact face_normal_rotation_refuted. Qed.
Print Assumptions C07_face_normal_rotation_refuted.
