(* C07 - the interpolation functions ARE the defining (weighted) averages: closed forms of the generated bodies over R. *)
From Coq Require Import ZArith List Bool Reals Lra Lia ZifyBool.
Require Import MV.Lib.Base MV.C07.Model MV.C07.Gen MV.C07.Mesh MV.C07.Proofs_Base MV.C07.Proofs_Rigid MV.C07.Proofs_Interp
  MV.C07.Proofs_GB MV.C07.Proofs_Keyed MV.C07.Proofs_RenumV.
Import ListNotations.
Open Scope R_scope.
Notation sm := (smul_l Rops).

Lemma fold_plus {X} (g : X -> R) (l : list X) (a : R) : fold_left (fun acc x => acc + g x) l a = a + Rsum (map g l).
Proof.
  revert a. induction l as [|x l IH]; intros a; unfold Rsum in *; cbn [fold_left map fold_right]; [ring|]. rewrite IH. ring.
Qed.
Lemma wfold_gen {X} (val w : X -> R) (l : list X) (a0 t0 : R) :
  fold_left (fun at_ x => (fst at_ + val x * w x, snd at_ + w x)) l (a0, t0)
  = (a0 + Rsum (map (fun x => val x * w x) l), t0 + Rsum (map w l)).
Proof.
  revert a0 t0. induction l as [|x l IH]; intros a0 t0; unfold Rsum in *; cbn [fold_left map fold_right fst snd]; [f_equal; ring|].
  rewrite IH. f_equal; ring.
Qed.

(* vertices -> faces: the mean of the vertex values of the face *)
Lemma v2f_def (m : mesh R) (vattr : list R) :
  interpolate_vertices_to_faces Rops 0 Rplus sm Rdiv m vattr
  = map (fun F => Rsum (map (fun v => znth vattr v 0) F) / IZR (zlen F)) (faces m).
Proof.
  unfold interpolate_vertices_to_faces. apply map_ext. intros F. unfold g_v2f_fin, g_v2f_acc.
  rewrite (fold_plus (fun v => znth vattr v 0) F 0), oZ_IZR. f_equal. ring.
Qed.

(* faces -> vertices: at vertex v, over the corners (c, f) at v:
   uniform  sum x_f / #corners ; sum  sum x_f ; area  sum x_f A_f / sum A_f ; angle  sum x_f theta_c / sum theta_c *)
Lemma f2v_def (w : weighting) (area ang : list R) (m : mesh R) (fattr : list R) (v : Z) : (0 <= v < zlen (verts m))%Z ->
  let cv := corners_at (enumerate (corners (faces m))) v in
  let x := fun cf : Z * Z => znth fattr (snd cf) 0 in
  znth (interpolate_faces_to_vertices Rops 0 Rplus sm Rdiv w area ang m fattr) v 0
  = match w with
    | WUniform => Rsum (map x cv) / IZR (zlen cv)
    | WSum => Rsum (map x cv)
    | WArea => Rsum (map (fun cf => x cf * znth area (snd cf) 0) cv) / Rsum (map (fun cf => znth area (snd cf) 0) cv)
    | WAngle => Rsum (map (fun cf => x cf * znth ang (fst cf) 0) cv) / Rsum (map (fun cf => znth ang (fst cf) 0) cv)
    end.
Proof.
  intros Hv cv x. unfold interpolate_faces_to_vertices. cbv zeta.
  rewrite (znth_map_rng _ (zrange (zlen (verts m))) v 0%Z) by (rewrite zlen_zrange; [exact Hv|unfold zlen; lia]).
  rewrite znth_zrange by exact Hv. fold cv. subst x. cbv beta. destruct w.
  - unfold g_f2v_uniform_fin. rewrite (fold_plus (fun cf : Z * Z => znth fattr (snd cf) 0) cv 0), oZ_IZR. f_equal. ring.
  - unfold g_f2v_area_fin, g_f2v_area_acc, g_f2v_area_tot, smul_l. cbn [Rops omul oadd o0].
    rewrite (wfold_gen (fun cf : Z * Z => znth fattr (snd cf) 0) (fun cf => znth area (snd cf) 0) cv 0 0). cbn [fst snd]. f_equal; ring.
  - unfold g_f2v_angle_fin, g_f2v_angle_acc, g_f2v_angle_tot, smul_l. cbn [Rops omul oadd o0].
    rewrite (wfold_gen (fun cf : Z * Z => znth fattr (snd cf) 0) (fun cf => znth ang (fst cf) 0) cv 0 0). cbn [fst snd]. f_equal; ring.
  - rewrite (fold_plus (fun cf : Z * Z => znth fattr (snd cf) 0) cv 0). ring.
Qed.

(* corners -> vertices *)
Lemma c2v_def (w : weighting) (ang : list R) (m : mesh R) (cattr : list R) (v : Z) : (0 <= v < zlen (verts m))%Z ->
  let cv := corners_at (enumerate (corners (faces m))) v in
  let x := fun cf : Z * Z => znth cattr (fst cf) 0 in
  match average_corners_to_vertices Rops 0 Rplus sm Rdiv w ang m cattr with
  | None => w = WArea
  | Some l => znth l v 0 = match w with
                           | WUniform => Rsum (map x cv) / IZR (zlen cv)
                           | WSum => Rsum (map x cv)
                           | _ => Rsum (map (fun cf => x cf * znth ang (fst cf) 0) cv) / Rsum (map (fun cf => znth ang (fst cf) 0) cv)
                           end
  end.
Proof.
  intros Hv cv x. unfold average_corners_to_vertices. cbv zeta. destruct w; try reflexivity;
    rewrite (znth_map_rng _ (zrange (zlen (verts m))) v 0%Z) by (rewrite zlen_zrange; [exact Hv|unfold zlen; lia]);
    rewrite znth_zrange by exact Hv; fold cv; subst x; cbv beta.
  - unfold g_c2v_uniform_fin, g_c2v_uniform_acc. rewrite (fold_plus (fun cf : Z * Z => znth cattr (fst cf) 0) cv 0), oZ_IZR. f_equal. ring.
  - unfold g_c2v_angle_fin, g_c2v_angle_acc, smul_l. cbn [Rops omul oadd o0].
    rewrite (wfold_gen (fun cf : Z * Z => znth cattr (fst cf) 0) (fun cf => znth ang (fst cf) 0) cv 0 0). cbn [fst snd]. f_equal; ring.
  - unfold g_c2v_sum_acc. rewrite (fold_plus (fun cf : Z * Z => znth cattr (fst cf) 0) cv 0). ring.
Qed.
