(* C07 round 7 - statements assembled from Proofs_Renum3 (renumbering: the remaining per-mesh quantities, and independence
   of the ORDER of the edge list) and Proofs_WAvg (the interpolation functions ARE the defining weighted averages). *)
From Coq Require Import ZArith List Bool Reals Lra Lia Permutation.
Require Import MV.Lib.Base MV.C07.Model MV.C07.Gen MV.C07.Mesh MV.C07.Proofs_Base MV.C07.Proofs_Rigid MV.C07.Proofs_MeshRigid
  MV.C07.Proofs_Interp MV.C07.Proofs_GB MV.C07.Proofs_Renum3 MV.C07.Proofs_WAvg MV.C07.Proofs.
Import ListNotations.
Open Scope R_scope.

Definition renumbering_more_statement : Prop :=
  (* (a') same renumbering sigma as clause (a): the remaining quantities.  Per-edge / per-face / per-corner lists and the
          global numbers are unchanged; a per-vertex INPUT attribute is moved with sigma by the caller *)
  (forall (m m' : mesh R) (sigma : Z -> Z) (sw : Z * Z -> bool), wf_mesh m ->
     let nV := zlen (verts m) in
     zlen (verts m') = nV ->
     (forall u v, (0 <= u < nV)%Z -> (0 <= v < nV)%Z -> sigma u = sigma v -> u = v) ->
     (forall v, (0 <= v < nV)%Z -> (0 <= sigma v < nV)%Z) ->
     (forall v, in_rng m v -> P Rops m' (sigma v) = P Rops m v) ->
     faces m' = map (map sigma) (faces m) -> cells m' = map (map sigma) (cells m) ->
     edges m' = map (fun e => if sw e then (sigma (snd e), sigma (fst e)) else (sigma (fst e), sigma (snd e))) (edges m) ->
     cotan_weights Rops m' = cotan_weights Rops m /\
     (forall n, mean_edge_length Rops m' n = mean_edge_length Rops m n /\
                mean_face_area Rops m' n = mean_face_area Rops m n /\
                mean_cell_volume Rops m' n = mean_cell_volume Rops m n) /\
     euler_characteristic m' = euler_characteristic m /\
     face_circumcenter Rops m' = face_circumcenter Rops m /\
     barycenter Rops m' = barycenter Rops m /\
     (forall w ang cattr, average_corners_to_faces Rops 0 Rplus (smul_l Rops) Rdiv w ang m' cattr
                          = average_corners_to_faces Rops 0 Rplus (smul_l Rops) Rdiv w ang m cattr) /\
     (forall fattr, scatter_faces_to_corners 0 m' fattr = scatter_faces_to_corners 0 m fattr) /\
     (forall vattr vattr' : list R, (forall v, (0 <= v < nV)%Z -> znth vattr' (sigma v) 0 = znth vattr v 0) ->
        scatter_vertices_to_corners 0 m' vattr' = scatter_vertices_to_corners 0 m vattr /\
        interpolate_vertices_to_faces Rops 0 Rplus (smul_l Rops) Rdiv m' vattr'
        = interpolate_vertices_to_faces Rops 0 Rplus (smul_l Rops) Rdiv m vattr)) /\
  (* (d) the ORDER in which the edge list is stored (a renumbered mouette mesh re-sorts it) does not matter to the
         per-vertex quantities that read it *)
  (forall m1 m2 : mesh R, zlen (verts m2) = zlen (verts m1) -> faces m2 = faces m1 ->
     Permutation (edges m2) (edges m1) ->
     (forall e, In e (edges m1) -> (0 <= fst e < zlen (verts m1))%Z /\ (0 <= snd e < zlen (verts m1))%Z) ->
     degree m2 = degree m1 /\ border_flags m2 = border_flags m1 /\
     (forall zb pi ang, angle_defects Rops zb pi ang m2 = angle_defects Rops zb pi ang m1)).

Lemma renumbering_more_proof : renumbering_more_statement.
Proof.
  split.
  - intros m m' sigma sw WF nV LEN INJ MAPS PTS FS CS ES. repeat apply conj.
    + eapply cotan_weights_renum; eassumption.
    + intros n. eapply means_renum; eassumption.
    + eapply euler_renum; eassumption.
    + eapply face_circumcenter_renum; eassumption.
    + eapply barycenter_renum; eassumption.
    + intros. eapply c2f_renum; eassumption.
    + intros. eapply sf2c_renum; eassumption.
    + intros vattr vattr' VA. split; [eapply (sv2c_renum m m' sigma)|eapply (v2f_renum m m' sigma)]; eassumption.
  - intros m1 m2 LEN FS ES ER. repeat apply conj.
    + now apply degree_edge_order.
    + now apply border_flags_edge_order.
    + intros. now apply angle_defects_edge_order.
Qed.

Lemma renumbering_full_proof : renumbering_partial_statement /\ renumbering_more_statement.
Proof. exact (conj renumbering_proof renumbering_more_proof). Qed.

(* the hypotheses of (a)/(a') are met by a non-trivial instance: ex_mesh renumbered by v -> 3 - v, every edge stored swapped *)
Definition ex_sigma (v : Z) : Z := (3 - v)%Z.
Definition ex_mesh_renum : mesh R :=
  mkmesh [(0, 0, 1); (0, 1, 0); (1, 0, 0); (0, 0, 0)] [(2, 3); (1, 2); (1, 3)]%Z [[3; 2; 1]]%Z [[3; 2; 1; 0]]%Z.
Example renumbering_nonvacuous :
  let m := ex_mesh in let m' := ex_mesh_renum in let nV := zlen (verts m) in
  wf_mesh m /\ zlen (verts m') = nV /\
  (forall u v, (0 <= u < nV)%Z -> (0 <= v < nV)%Z -> ex_sigma u = ex_sigma v -> u = v) /\
  (forall v, (0 <= v < nV)%Z -> (0 <= ex_sigma v < nV)%Z) /\
  (forall v, in_rng m v -> P Rops m' (ex_sigma v) = P Rops m v) /\
  faces m' = map (map ex_sigma) (faces m) /\ cells m' = map (map ex_sigma) (cells m) /\
  edges m' = map (fun e => if (fun _ => true) e then (ex_sigma (snd e), ex_sigma (fst e)) else (ex_sigma (fst e), ex_sigma (snd e))) (edges m).
Proof.
  cbv zeta. unfold ex_sigma, in_rng, zlen. cbn [ex_mesh ex_mesh_renum verts edges faces cells length Z.of_nat Pos.of_succ_nat Pos.succ].
  repeat apply conj; try reflexivity.
  - exact ex_mesh_wf.
  - intros; lia.
  - intros; lia.
  - intros v Hv. assert (E : v = 0%Z \/ v = 1%Z \/ v = 2%Z \/ v = 3%Z) by lia.
    destruct E as [E|[E|[E|E]]]; subst v; reflexivity.
Qed.
Example edge_order_nonvacuous :
  Permutation [(1, 2); (0, 2); (0, 1)]%Z (edges ex_mesh) /\ [(1, 2); (0, 2); (0, 1)]%Z <> edges ex_mesh.
Proof.
  split; [|discriminate]. cbn [ex_mesh edges].
  apply Permutation_sym, (Permutation_cons_app [(1, 2); (0, 2)]%Z [] (0, 1)%Z). rewrite app_nil_r. apply Permutation_refl.
Qed.

(* ====================================================================== the interpolations are the defining averages *)
Definition interpolation_average_statement : Prop :=
  (* vertices -> faces: the arithmetic mean of the face's vertex values *)
  (forall (m : mesh R) (vattr : list R),
     interpolate_vertices_to_faces Rops 0 Rplus (smul_l Rops) Rdiv m vattr
     = map (fun F => Rsum (map (fun v => znth vattr v 0) F) / IZR (zlen F)) (faces m)) /\
  (* faces -> vertices at vertex v, over the corners (c, f) at v: uniform  sum x_f / #corners;  sum  sum x_f;
     area  sum x_f A_f / sum A_f;  angle  sum x_f theta_c / sum theta_c *)
  (forall (w : weighting) (area ang : list R) (m : mesh R) (fattr : list R) (v : Z), (0 <= v < zlen (verts m))%Z ->
     let cv := corners_at (enumerate (corners (faces m))) v in
     let x := fun cf : Z * Z => znth fattr (snd cf) 0 in
     znth (interpolate_faces_to_vertices Rops 0 Rplus (smul_l Rops) Rdiv w area ang m fattr) v 0
     = match w with
       | WUniform => Rsum (map x cv) / IZR (zlen cv)
       | WSum => Rsum (map x cv)
       | WArea => Rsum (map (fun cf => x cf * znth area (snd cf) 0) cv) / Rsum (map (fun cf => znth area (snd cf) 0) cv)
       | WAngle => Rsum (map (fun cf => x cf * znth ang (fst cf) 0) cv) / Rsum (map (fun cf => znth ang (fst cf) 0) cv)
       end) /\
  (* corners -> vertices: the same with the corner's own value; the area weighting is refused *)
  (forall (w : weighting) (ang : list R) (m : mesh R) (cattr : list R) (v : Z), (0 <= v < zlen (verts m))%Z ->
     let cv := corners_at (enumerate (corners (faces m))) v in
     let x := fun cf : Z * Z => znth cattr (fst cf) 0 in
     match average_corners_to_vertices Rops 0 Rplus (smul_l Rops) Rdiv w ang m cattr with
     | None => w = WArea
     | Some l => znth l v 0 = match w with
                              | WUniform => Rsum (map x cv) / IZR (zlen cv)
                              | WSum => Rsum (map x cv)
                              | _ => Rsum (map (fun cf => x cf * znth ang (fst cf) 0) cv) / Rsum (map (fun cf => znth ang (fst cf) 0) cv)
                              end
     end).

Lemma interpolation_average_proof : interpolation_average_statement.
Proof. repeat apply conj; [exact v2f_def|exact f2v_def|exact c2v_def]. Qed.

(* a NON-constant instance: two triangles sharing the edge 1-2; face values 3 and 5, areas 1 and 3.
   At vertex 1 (in both faces) the area-weighted value is (3*1 + 5*3) / (1 + 3) = 9/2, the uniform one 4, the sum 8;
   at vertex 0 (in the first face only) it is 3. *)
Definition two_tri_mesh : mesh R :=
  mkmesh [(0, 0, 0); (1, 0, 0); (0, 1, 0); (1, 1, 0)] [(0, 1); (1, 2); (0, 2); (1, 3); (2, 3)]%Z [[0; 1; 2]; [1; 3; 2]]%Z [].
Example interpolation_average_nonconstant :
  znth (interpolate_faces_to_vertices Rops 0 Rplus (smul_l Rops) Rdiv WArea [1; 3] [] two_tri_mesh [3; 5]) 1 0 = 9 / 2 /\
  znth (interpolate_faces_to_vertices Rops 0 Rplus (smul_l Rops) Rdiv WUniform [1; 3] [] two_tri_mesh [3; 5]) 1 0 = 4 /\
  znth (interpolate_faces_to_vertices Rops 0 Rplus (smul_l Rops) Rdiv WSum [1; 3] [] two_tri_mesh [3; 5]) 1 0 = 8 /\
  znth (interpolate_faces_to_vertices Rops 0 Rplus (smul_l Rops) Rdiv WArea [1; 3] [] two_tri_mesh [3; 5]) 0 0 = 3 /\
  interpolate_vertices_to_faces Rops 0 Rplus (smul_l Rops) Rdiv two_tri_mesh [1; 2; 6; 10] = [3; 6].
Proof.
  repeat apply conj.
  - rewrite (f2v_def WArea [1; 3] [] two_tri_mesh [3; 5] 1) by (unfold zlen; cbn; lia). cbv zeta. unfold Rsum. cbn. try (unfold Pos.to_nat; cbn). field.
  - rewrite (f2v_def WUniform [1; 3] [] two_tri_mesh [3; 5] 1) by (unfold zlen; cbn; lia). cbv zeta. unfold Rsum, zlen. cbn. try (unfold Pos.to_nat; cbn). field.
  - rewrite (f2v_def WSum [1; 3] [] two_tri_mesh [3; 5] 1) by (unfold zlen; cbn; lia). cbv zeta. unfold Rsum. cbn. try (unfold Pos.to_nat; cbn). ring.
  - rewrite (f2v_def WArea [1; 3] [] two_tri_mesh [3; 5] 0) by (unfold zlen; cbn; lia). cbv zeta. unfold Rsum. cbn. try (unfold Pos.to_nat; cbn). field.
  - rewrite v2f_def. unfold Rsum, zlen. cbn. try (unfold Pos.to_nat; cbn). f_equal; [field|f_equal; field].
Qed.
