(* C07 - average_corners_to_faces of a constant corner attribute is that constant (uniform and angle weightings). *)
From Coq Require Import ZArith List Bool Reals Lra Lia ZifyBool.
Require Import MV.Lib.Base MV.C07.Model MV.C07.Gen MV.C07.Mesh MV.C07.Proofs_Base MV.C07.Proofs_Rigid MV.C07.Proofs_Interp
  MV.C07.Proofs_Keyed MV.C07.Proofs_FacePerm.
Import ListNotations.
Open Scope Z_scope.

Definition total_len (fs : list (list Z)) : Z := fold_left (fun acc F => acc + zlen F) fs 0.

Lemma total_len_acc (fs : list (list Z)) (a : Z) : fold_left (fun acc F => acc + zlen F) fs a = a + total_len fs.
Proof.
  unfold total_len. revert a. induction fs as [|F fs IH]; intros a; cbn [fold_left]; [lia|]. rewrite IH, (IH (0 + zlen F)). lia.
Qed.
Lemma total_len_app (a b : list (list Z)) : total_len (a ++ b) = total_len a + total_len b.
Proof. unfold total_len at 1. rewrite fold_left_app. fold (total_len a). apply total_len_acc. Qed.
Lemma total_len_nonneg (fs : list (list Z)) : 0 <= total_len fs.
Proof.
  induction fs as [|F fs IH]; [unfold total_len; cbn; lia|]. change (F :: fs) with ([F] ++ fs). rewrite total_len_app.
  unfold total_len at 1. cbn [fold_left]. unfold zlen. lia.
Qed.

Lemma corners_total (fs : list (list Z)) : zlen (corners fs) = total_len fs.
Proof.
  unfold corners, enumerate. generalize 0. induction fs as [|F fs IH]; intros s; [reflexivity|].
  cbn [enum_from flat_map]. rewrite zlen_app, zlen_map', IH. cbn [snd]. change (F :: fs) with ([F] ++ fs).
  rewrite total_len_app. unfold total_len at 2. cbn [fold_left]. lia.
Qed.

Lemma enum_from_nth {X} (l : list X) (s k : Z) (x : X) :
  In (k, x) (enum_from s l) -> s <= k /\ nth_error l (Z.to_nat (k - s)) = Some x.
Proof.
  revert s. induction l as [|y l IH]; intros s H; [destruct H|]. cbn [enum_from] in H. destruct H as [H|H].
  - inversion H; subst. split; [lia|]. replace (k - k) with 0 by lia. reflexivity.
  - apply IH in H as [H1 H2]. split; [lia|]. replace (Z.to_nat (k - s)) with (S (Z.to_nat (k - (s + 1)))) by lia. exact H2.
Qed.

(* the corners first_corner(f) .. first_corner(f) + len(F) - 1 of face f are valid corner numbers *)
Lemma first_corner_rng (fs : list (list Z)) (f : Z) (F : list Z) (k : Z) :
  In (f, F) (enumerate fs) -> 0 <= k < zlen F -> 0 <= first_corner fs f + k < zlen (corners fs).
Proof.
  intros H Hk. apply enum_from_nth in H as [H0 H]. rewrite Z.sub_0_r in H.
  unfold first_corner. fold (total_len (firstn (Z.to_nat f) fs)). rewrite corners_total.
  apply nth_error_split in H as (l1 & l2 & E & L). subst fs. rewrite <- L.
  rewrite firstn_app, Nat.sub_diag, firstn_all. cbn [firstn]. rewrite app_nil_r.
  rewrite total_len_app. change (F :: l2) with ([F] ++ l2). rewrite total_len_app.
  pose proof (total_len_nonneg l1). pose proof (total_len_nonneg l2).
  assert (total_len [F] = zlen F) by (unfold total_len; cbn [fold_left]; lia). lia.
Qed.

Lemma map_const_enum {X Y} (c : Y) (G : Z * X -> Y) (l : list X) (s : Z) :
  (forall x, In x (enum_from s l) -> G x = c) -> map G (enum_from s l) = repeat c (length l).
Proof.
  revert s. induction l as [|y l IH]; intros s H; [reflexivity|]. cbn [enum_from map length repeat].
  f_equal; [apply H; now left|]. apply IH. intros x Hx. apply H. now right.
Qed.

Open Scope R_scope.
Notation sm := (smul_l Rops).

Lemma c2f_const (m : mesh R) (c : R) (w : weighting) (ang : list R) :
  let nF := length (faces m) in let nC := length (corners (faces m)) in
  w = WUniform \/ w = WAngle ->
  (forall F, In F (faces m) -> F <> []) ->
  (forall k, (0 <= k < Z.of_nat nC)%Z -> 0 < znth ang k 0) ->
  average_corners_to_faces Rops 0 Rplus sm Rdiv w ang m (repeat c nC) = Some (repeat c nF).
Proof.
  intros nF nC Hw NE Hang. unfold average_corners_to_faces.
  assert (Common : forall iF, In iF (enumerate (faces m)) ->
     let cn := map (fun k => (first_corner (faces m) (fst iF) + k)%Z) (zrange (zlen (snd iF))) in
     cn <> [] /\ (forall x, In x cn -> (0 <= x < Z.of_nat nC)%Z) /\ (forall x, In x cn -> znth (repeat c nC) x 0 = c)).
  { intros [f F] HfF cn. cbn [fst snd] in cn.
    assert (Hin : forall x, In x cn -> (0 <= x < Z.of_nat nC)%Z).
    { intros x Hx. apply in_map_iff in Hx as [k [<- Hk]]. apply In_zrange in Hk.
      pose proof (first_corner_rng (faces m) f F k HfF Hk) as B. change (zlen (corners (faces m))) with (Z.of_nat nC) in B. exact B. }
    split; [|split; [exact Hin|intros x Hx; apply znth_repeat, Hin, Hx]].
    assert (HF : In F (faces m)) by (apply enum_from_In in HfF; apply HfF).
    specialize (NE F HF). unfold cn. destruct F as [|u F]; [congruence|]. unfold zrange, zlen. cbn [length].
    rewrite Nat2Z.id. cbn [seq map]. discriminate. }
  destruct Hw as [-> | ->]; cbv zeta; cbn iota; f_equal; apply map_const_enum; intros iF HiF;
    destruct (Common iF HiF) as (Hne & Hin & Hval); set (cn := map _ (zrange (zlen (snd iF)))) in *.
  - unfold g_c2f_uniform_acc. 
    assert (G : forall l a, (forall x, In x l -> znth (repeat c nC) x 0 = c) ->
               fold_left (fun acc x => acc + znth (repeat c nC) x 0 / oZ Rops (zlen cn)) l a = a + INR (length l) * (c / oZ Rops (zlen cn))).
    { induction l as [|x l IH]; intros a Hl; cbn [fold_left length]; [cbn; ring|].
      rewrite IH by (intros; apply Hl; now right). rewrite (Hl x (or_introl eq_refl)), S_INR. ring. }
    rewrite G by exact Hval. rewrite oZ_zlen. field. apply not_0_INR. destruct cn; [congruence|discriminate].
  - unfold g_c2f_angle_fin, g_c2f_angle_acc, smul_l. cbn [Rops omul oadd o0].
    rewrite (wfold_const c (fun x => znth (repeat c nC) x 0) (fun x => znth ang x 0) cn 0 0) by exact Hval.
    cbn [fst snd].
    assert (0 < sumw (fun x => znth ang x 0) cn) by (apply sumw_pos; [exact Hne|intros; apply Hang, Hin; assumption]).
    field. lra.
Qed.
