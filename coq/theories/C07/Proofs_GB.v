(* C07 - Gauss-Bonnet, combinatorial part: for a triangulation whose corner angles sum to pi in every triangle,
   the angle defects computed by the model of angle_defects (zero_border = False) sum to 2 pi (V - E + F).
   The sum exchange over the model's corner loop is proved here; the two counting facts of a manifold
   triangulation (3F = 2E_i + E_b and V_b = E_b, DESIGN Appendix B7) enter as hypotheses on the model's own
   border flags (Proofs_Count.v discharges them from a checkable manifold condition). *)
From Coq Require Import ZArith List Bool Reals Lra Psatz Lia.
Require Import MV.Lib.Base MV.C07.Model MV.C07.Gen MV.C07.Mesh MV.C07.Proofs_Base MV.C07.Proofs_Interp.
Import ListNotations.
Open Scope R_scope.

Definition Rsum (l : list R) : R := fold_right Rplus 0 l.

Lemma ssum_Rsum (l : list R) : ssum Rops l = Rsum l.
Proof.
  unfold ssum, Rsum. cbn [Rops oadd o0].
  assert (G : forall a, fold_left Rplus l a = a + fold_right Rplus 0 l).
  { induction l as [|x l IH]; intros a; cbn [fold_left fold_right]; [ring|]. rewrite IH. ring. }
  rewrite G. ring.
Qed.

Lemma Rsum_app (a b : list R) : Rsum (a ++ b) = Rsum a + Rsum b.
Proof. unfold Rsum. induction a as [|x a IH]; cbn [app fold_right]; [ring|]. rewrite IH. ring. Qed.

Lemma Rsum_upd (d : list R) (i : nat) (x : R) : (i < length d)%nat -> Rsum (upd d i x) = Rsum d - nth i d 0 + x.
Proof.
  unfold Rsum. revert i. induction d as [|y d IH]; intros [|i] H; cbn [length upd nth fold_right] in *; try lia; [ring|].
  rewrite IH by lia. ring.
Qed.

Lemma upd_length {A} (d : list A) (i : nat) (x : A) : length (upd d i x) = length d.
Proof. revert i. induction d as [|y d IH]; intros [|i]; cbn; try reflexivity. now rewrite IH. Qed.

Lemma zupd_length {A} (d : list A) (i : Z) (x : A) : length (zupd d i x) = length d.
Proof. unfold zupd. destruct (i <? 0)%Z; [reflexivity|apply upd_length]. Qed.

Lemma Rsum_zupd (d : list R) (i : Z) (x : R) : (0 <= i < zlen d)%Z -> Rsum (zupd d i x) = Rsum d - znth d i 0 + x.
Proof.
  intros H. unfold zupd, znth, zlen in *. destruct (i <? 0)%Z eqn:E; [lia|]. apply Rsum_upd. lia.
Qed.

(* the corner loop of angle_defects with zero_border = False *)
Section Loop.
Variable a : Z -> R.   (* angle value of corner C *)

Definition step (d : list R) (cv : Z * (Z * Z)) : list R :=
  zupd d (fst (snd cv)) (znth d (fst (snd cv)) 0 - a (fst cv)).

Lemma loop_sum (l : list (Z * (Z * Z))) (d : list R) :
  (forall x, In x l -> (0 <= fst (snd x) < zlen d)%Z) ->
  Rsum (fold_left step l d) = Rsum d - Rsum (map (fun x => a (fst x)) l).
Proof.
  revert d. induction l as [|x l IH]; intros d H; cbn [fold_left map].
  - unfold Rsum. cbn [fold_right]. ring.
  - rewrite IH.
    + unfold step at 1. rewrite Rsum_zupd by (apply H; now left). unfold Rsum. cbn [fold_right]. ring.
    + intros y Hy. unfold step, zlen. rewrite zupd_length. apply H. now right.
Qed.
End Loop.

(* indices of enumerate *)
Lemma enum_from_fst {A} (l : list A) (s : Z) : map fst (enum_from s l) = map (fun i => (s + i)%Z) (zrange (zlen l)).
Proof.
  revert s. induction l as [|x l IH]; intros s; [reflexivity|].
  unfold zlen, zrange. cbn [length enum_from map fst]. rewrite Nat2Z.id. cbn [seq map]. f_equal; [lia|].
  rewrite IH. unfold zlen, zrange. rewrite Nat2Z.id. rewrite <- seq_shift, !map_map. apply map_ext. intros k. lia.
Qed.

Lemma corners_triangles_len (fs : list (list Z)) :
  (forall F, In F fs -> zlen F = 3%Z) -> zlen (corners fs) = (3 * zlen fs)%Z.
Proof.
  unfold corners, enumerate. generalize 0%Z. induction fs as [|F fs IH]; intros s H; [reflexivity|].
  cbn [enum_from flat_map]. unfold zlen in *. rewrite app_length, map_length. cbn [fst snd length].
  specialize (IH (s + 1)%Z (fun G HG => H G (or_intror HG))). pose proof (H F (or_introl eq_refl)). lia.
Qed.

(* sum over 3F consecutive corners = sum over faces of the three corner values *)
Lemma Rsum_triples (a : Z -> R) (n : nat) :
  Rsum (map a (zrange (3 * Z.of_nat n))) =
  Rsum (map (fun f => a (3 * f)%Z + a (3 * f + 1)%Z + a (3 * f + 2)%Z) (zrange (Z.of_nat n))).
Proof.
  unfold zrange. rewrite Nat2Z.id. replace (Z.to_nat (3 * Z.of_nat n)) with (3 * n)%nat by lia.
  induction n as [|n IH]; [reflexivity|].
  replace (3 * S n)%nat with (S (S (S (3 * n)))) by lia.
  rewrite !seq_S, !map_app, !Rsum_app, IH. cbn [map]. unfold Rsum. cbn [fold_right].
  replace (Z.of_nat (0 + 3 * n)) with (3 * Z.of_nat (0 + n))%Z by lia.
  replace (Z.of_nat (0 + S (3 * n))) with (3 * Z.of_nat (0 + n) + 1)%Z by lia.
  replace (Z.of_nat (0 + S (S (3 * n)))) with (3 * Z.of_nat (0 + n) + 2)%Z by lia.
  ring.
Qed.

Lemma Rsum_const_map {X} (f : X -> R) (c : R) (l : list X) :
  (forall x, In x l -> f x = c) -> Rsum (map f l) = c * INR (length l).
Proof.
  induction l as [|x l IH]; intros H; [cbn; ring|]. cbn [map Rsum fold_right length]. rewrite S_INR.
  fold (Rsum (map f l)). rewrite IH by (intros; apply H; now right). rewrite (H x (or_introl eq_refl)). ring.
Qed.

Definition count_true (l : list bool) : nat := length (filter (fun b => b) l).

Lemma Rsum_init (pi : R) (onb : list bool) :
  Rsum (map (fun b : bool => if b then g_defect_border Rops false pi else g_defect_init Rops pi) onb)
  = 2 * pi * INR (length onb) - pi * INR (count_true onb).
Proof.
  unfold count_true. induction onb as [|b l IH]; [cbn; ring|].
  cbn [map Rsum fold_right length filter]. fold (Rsum (map (fun b : bool => if b then g_defect_border Rops false pi else g_defect_init Rops pi) l)).
  rewrite IH. destruct b; cbn [length]; rewrite ?S_INR; cbn [g_defect_border g_defect_init oZ opos Rops omul oadd o1]; ring.
Qed.

Section GaussBonnet.
Variable m : mesh R.
Variable ang : list R.
Let nV := length (verts m).
Let nF := length (faces m).
Let nE := length (edges m).
Let Vb := count_true (border_flags m).

(* triangulated, indices in range *)
Hypothesis TRI : forall F, In F (faces m) -> zlen F = 3%Z /\ forall v, In v F -> (0 <= v < Z.of_nat nV)%Z.
(* the three corner angles of every triangle sum to pi (Proofs_Angles proves this for atan2 of the model's pairs) *)
Hypothesis ANG : forall f, (0 <= f < Z.of_nat nF)%Z ->
  znth ang (3 * f) 0 + znth ang (3 * f + 1) 0 + znth ang (3 * f + 2) 0 = PI.

Lemma defects_sum_raw :
  Rsum (angle_defects Rops false PI ang m) = 2 * PI * INR nV - PI * INR Vb - PI * INR nF.
Proof.
  unfold angle_defects. cbv zeta.
  set (onb := border_flags m).
  set (d0 := map (fun b : bool => if b then g_defect_border Rops false PI else g_defect_init Rops PI) onb).
  assert (Lon : length onb = nV).
  { unfold onb, border_flags. cbv zeta. rewrite map_length, zrange_length. unfold zlen. fold nV. lia. }
  assert (E : forall l d, fold_left (fun d cv =>
       let V := fst (snd cv) in
       if g_defect_skip (znth onb V false) false then d
       else zupd d V (g_defect_step Rops (znth d V (o0 Rops)) (znth ang (fst cv) (o0 Rops)))) l d
       = fold_left (step (fun C => znth ang C 0)) l d).
  { intros l. induction l as [|x l IH]; intros d; [reflexivity|]. cbn [fold_left]. rewrite <- IH. f_equal.
    unfold g_defect_skip. rewrite andb_false_r. reflexivity. }
  cbv zeta in E. rewrite E. rewrite loop_sum.
  - unfold d0. rewrite Rsum_init, Lon. fold Vb.
    rewrite <- map_map with (f := fst) (g := fun C => znth ang C 0). unfold enumerate. rewrite enum_from_fst.
    rewrite corners_triangles_len by (intros F HF; apply TRI, HF).
    replace (map (fun i => (0 + i)%Z) (zrange (3 * zlen (faces m)))) with (zrange (3 * zlen (faces m)))
      by (rewrite <- map_id at 1; apply map_ext; intros; lia).
    unfold zlen. fold nF. rewrite Rsum_triples.
    rewrite (Rsum_const_map _ PI) by (intros f Hf; apply In_zrange in Hf; apply ANG; lia).
    rewrite zrange_length, Nat2Z.id. reflexivity.
  - intros [C [V f]] Hx. cbn [fst snd]. unfold d0, zlen. rewrite map_length, Lon.
    apply enum_from_In in Hx as [_ Hx]. apply corners_In in Hx as [F [HF Hv]]. apply enum_from_In in HF as [_ HF].
    apply (TRI F HF), Hv.
Qed.

(* counting facts of a manifold triangulation with border, on the model's own border flags *)
Variable Eb : nat.    (* number of border edges *)
Hypothesis COUNT_HE : (3 * nF = 2 * (nE - Eb) + Eb)%nat.   (* 3F = 2 E_i + E_b *)
Hypothesis COUNT_EB : (Eb <= nE)%nat.
Hypothesis COUNT_VB : Vb = Eb.                             (* V_b = E_b *)

Lemma gauss_bonnet_counting :
  ssum Rops (angle_defects Rops false PI ang m) = 2 * PI * IZR (euler_characteristic m).
Proof.
  rewrite ssum_Rsum, defects_sum_raw, COUNT_VB.
  unfold euler_characteristic. rewrite euler_def. unfold zlen. fold nV nE nF.
  rewrite plus_IZR, minus_IZR, <- !INR_IZR_INZ.
  assert (H : 3 * INR nF = 2 * (INR nE - INR Eb) + INR Eb).
  { rewrite <- minus_INR by exact COUNT_EB. replace 3 with (INR 3) by (cbn; ring). replace 2 with (INR 2) by (cbn; ring).
    rewrite <- !mult_INR, <- plus_INR. f_equal. exact COUNT_HE. }
  nra.
Qed.
End GaussBonnet.
