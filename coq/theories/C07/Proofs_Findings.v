(* C07 - a recorded finding: face_normals takes the normal of the plane through the FIRST THREE vertices of a face.
   For a skew (non-planar) quad this depends on where the vertex list starts, so the "unit normal" is not invariant
   under rotating the vertex list of the face (which leaves the quad itself unchanged). *)
From Coq Require Import ZArith List Bool Reals Lra Psatz.
Require Import MV.Lib.Base MV.C07.Model MV.C07.Gen MV.C07.Mesh MV.C07.Proofs_Base.
Import ListNotations.
Open Scope R_scope.

(* the full statement that FAILS:  forall A B C D, g_face_normal A B C = g_face_normal B C D
   (the face [A;B;C;D] and its rotation [B;C;D;A] are the same quad) *)
Lemma face_normal_rotation_refuted :
  exists A B C D : V3,
    0 < n2 (cross (B -v A) (C -v A)) /\ 0 < n2 (cross (C -v B) (D -v B)) /\
    g_face_normal Rops A B C <> g_face_normal Rops B C D.
Proof.
  exists (0, 0, 0), (1, 0, 0), (1, 1, 1), (0, 1, 0).
  split; [unfR; lra|]. split; [unfR; lra|].
  intros E. apply (f_equal (fun v => vx v)) in E. unfold g_face_normal, normalized, vdiv in E.
  cbn [vx fst] in E. unfR.
  match type of E with ?x / sqrt ?a = ?y / sqrt ?b =>
    replace b with 3 in E by ring; replace a with 2 in E by ring;
    replace x with 0 in E by ring; replace y with (-1) in E by ring;
    assert (Hb : 0 < sqrt 3) by (apply sqrt_lt_R0; lra)
  end.
  assert (Hi : 0 < / sqrt 3) by (apply Rinv_0_lt_compat; exact Hb).
  unfold Rdiv in E. rewrite Rmult_0_l in E. set (k := / sqrt 3) in *. lra.
Qed.
