(* C07 - a recorded finding: face_normals takes the normal of the plane through the FIRST THREE vertices of a face.
   For a skew (non-planar) quad this depends on where the vertex list starts, so the "unit normal" is not invariant
   under rotating the vertex list of the face (which leaves the quad itself unchanged). *)
From Coq Require Import ZArith List Bool Reals Lra Psatz.
Require Import MV.Lib.Base MV.C07.Model MV.C07.Gen MV.C07.Mesh MV.C07.Proofs_Base.
Import ListNotations.
Open Scope R_scope.

(* the full statement that FAILS:  forall A B C D, g_face_normal A B C = g_face_normal B C D
   (the face [A;B;C;D] and its rotation [B;C;D;A] are the same quad) *)
Lemma face_normal_rotation_refuted :
  exists A B C D : V3,
    0 < n2 (cross (B -v A) (C -v A)) /\ 0 < n2 (cross (C -v B) (D -v B)) /\
    g_face_normal Rops A B C <> g_face_normal Rops B C D.
Proof.
  exists (0, 0, 0), (1, 0, 0), (1, 1, 1), (0, 1, 0).
  split; [unfR; lra|]. split; [unfR; lra|].
  intros E. apply (f_equal (fun v => vx v)) in E. unfold g_face_normal, normalized, vdiv in E.
  cbn [vx fst] in E. unfR.
  match type of E with ?x / sqrt ?a = ?y / sqrt ?b =>
    replace b with 3 in E by ring; replace a with 2 in E by ring;
    replace x with 0 in E by ring; replace y with (-1) in E by ring;
    assert (Hb : 0 < sqrt 3) by (apply sqrt_lt_R0; lra)
  end.
  assert (Hi : 0 < / sqrt 3) by (apply Rinv_0_lt_compat; exact Hb).
  unfold Rdiv in E. rewrite Rmult_0_l in E. set (k := / sqrt 3) in *. lra.
Qed.

(* ---------------------------------------------------------------- second finding: the absolute parallelism guard *)
(* FULL statement (fails): every non-degenerate triangle has a circumcentre computed,
     forall A B C, 0 < |(B-A) x (C-A)|^2 -> exists c, g_circumcenter A B C = Some c
   (with C07_circumcenter this would make face_circumcenter correct on all non-degenerate meshes and, in particular,
   scale-equivariant).  intersect_2lines2D declares two lines parallel when |det(d1,d2)| < 1e-12 - an ABSOLUTE
   threshold on a quantity that scales with the square of the triangle's size (|det| = twice its area): a perfectly
   shaped right triangle with legs e has no circumcentre as soon as e^2 < 1e-12 (the Python code then raises
   AttributeError on None.x). *)
Lemma normalized_axis (k : R) (u : V3) : 0 < k -> n2 u = 1 -> normalized Rops (vscale Rops k u) = u.
Proof.
  intros Hk Hu. unfold normalized. rewrite norm_unfold.
  assert (E : n2 (vscale Rops k u) = (k * k) * n2 u) by (dvec u; unfR; ring).
  rewrite E, Hu, Rmult_1_r, sqrt_square by lra. dvec u. unfR. apply vec_eq3; field; lra.
Qed.

Lemma circumcenter_tiny (e : R) : 0 < e -> e * e < 1 / 1000000000000 ->
  g_circumcenter Rops (0, 0, 0) (e, 0, 0) (0, e, 0) = None.
Proof.
  intros He Hsmall. unfold g_circumcenter.
  assert (FB : g_face_basis Rops (0, 0, 0) (e, 0, 0) (0, e, 0) = ((1, 0, 0), (0, 1, 0), (0, 0, 1))).
  { unfold g_face_basis. cbv zeta.
    assert (X : normalized Rops ((e, 0, 0) -v (0, 0, 0)) = (1, 0, 0)).
    { replace ((e, 0, 0) -v (0, 0, 0)) with (vscale Rops e (1, 0, 0)) by (unfR; apply vec_eq3; ring).
      apply normalized_axis; [assumption|unfR; ring]. }
    rewrite X.
    assert (Z : normalized Rops (cross (1, 0, 0) ((0, e, 0) -v (0, 0, 0))) = (0, 0, 1)).
    { replace (cross (1, 0, 0) ((0, e, 0) -v (0, 0, 0))) with (vscale Rops e (0, 0, 1)) by (unfR; apply vec_eq3; ring).
      apply normalized_axis; [assumption|unfR; ring]. }
    rewrite Z.
    assert (Y : normalized Rops (cross (0, 0, 1) (1, 0, 0)) = (0, 1, 0)).
    { replace (cross (0, 0, 1) (1, 0, 0)) with (vscale Rops 1 (0, 1, 0)) by (unfR; apply vec_eq3; ring).
      apply normalized_axis; [lra|unfR; ring]. }
    rewrite Y. reflexivity. }
  rewrite FB. cbv zeta. unfold g_intersect_2lines2D.
  match goal with |- context [oleb Rops ?a ?b] => assert (G : oleb Rops a b = false) end.
  { unfold Rops at 1, Rleb. cbn [oleb]. destruct (Rle_dec _ _) as [L|L]; [|reflexivity]. exfalso.
    rewrite oabs_Rabs in L.
    match type of L with _ <= Rabs ?d => replace d with (e * e) in L
      by (unfold g_det2, wsub, dot; unfR; cbn [fst snd]; ring) end.
    rewrite Rabs_right in L by nra.
    replace (odiv Rops (oZ Rops 1) (oZ Rops 1000000000000)) with (1 / 1000000000000) in L
      by (rewrite !oZ_IZR; reflexivity).
    lra. }
  rewrite G. reflexivity.
Qed.

Lemma circumcenter_guard_refuted :
  exists A B C : V3, 0 < n2 (cross (B -v A) (C -v A)) /\ g_circumcenter Rops A B C = None.
Proof.
  exists (0, 0, 0), (/ 10000000, 0, 0), (0, / 10000000, 0).
  assert (He : 0 < / 10000000) by (apply Rinv_0_lt_compat; lra).
  split; [unfR; nra|]. apply circumcenter_tiny; [exact He|].
  replace (/ 10000000 * / 10000000) with (1 / 100000000000000) by field. 
  apply Rmult_lt_reg_r with 100000000000000; [lra|]. unfold Rdiv. rewrite Rmult_assoc, Rinv_l by lra. 
  replace (1 * / 1000000000000 * 100000000000000) with 100 by field. lra.
Qed.
