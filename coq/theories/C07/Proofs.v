(* C07 - the property-level statements assembled from the lemma files. *)
From Coq Require Import ZArith List Bool Reals Lra Lia.
Require Import MV.Lib.Base MV.C07.Model MV.C07.Gen MV.C07.Mesh MV.C07.Proofs_Base.
Import ListNotations.
Open Scope R_scope.

(* Every generated formula equals its textbook expression (all coordinates). *)
Definition definitions_statement : Prop :=
  (forall a b : V3, cross a b = (vy a * vz b - vz a * vy b, vz a * vx b - vx a * vz b, vx a * vy b - vy a * vx b)) /\
  (forall A B : V3, g_edge_length Rops A B =
       sqrt ((vx B - vx A) * (vx B - vx A) + (vy B - vy A) * (vy B - vy A) + (vz B - vz A) * (vz B - vz A))) /\
  (forall A B : V3, g_edge_middle Rops A B = ((vx A + vx B) / 2, (vy A + vy B) / 2, (vz A + vz B) / 2)) /\
  (forall A B C : V3, 0 <= g_triangle_area Rops A B C /\
       4 * (g_triangle_area Rops A B C * g_triangle_area Rops A B C) = n2 (cross (B -v A) (C -v A))) /\
  (forall u v : V3, n2 (cross u v) = n2 u * n2 v - dotR u v * dotR u v) /\
  (forall A B C D : V3, g_quad_area Rops A B C D =
       ((g_triangle_area Rops A B C + g_triangle_area Rops A C D) + (g_triangle_area Rops B C D + g_triangle_area Rops B D A)) / 2) /\
  (forall A B C : V3, 0 < n2 (cross (B -v A) (C -v A)) ->
       g_face_normal Rops A B C = vdiv Rops (cross (B -v A) (C -v A)) (norm Rops (cross (B -v A) (C -v A))) /\
       n2 (g_face_normal Rops A B C) = 1 /\
       dotR (g_face_normal Rops A B C) (B -v A) = 0 /\ dotR (g_face_normal Rops A B C) (C -v A) = 0) /\
  (forall A B C : V3, let p := g_angle3 Rops A B C in
       fst p = dotR (A -v B) (C -v B) /\ 0 <= snd p /\ snd p * snd p = n2 (cross (A -v B) (C -v B)) /\
       fst p * fst p + snd p * snd p = n2 (A -v B) * n2 (C -v B)) /\
  (forall A B C : V3, 0 < n2 (cross (A -v B) (C -v B)) ->
       g_cotan Rops A B C = dotR (A -v B) (C -v B) / norm Rops (cross (A -v B) (C -v B)) /\
       g_cotan Rops A B C = g_cotan Rops C B A) /\
  (forall A B C : V3, g_cot_stride = 3%Z /\
       g_cot_face Rops A B C = [g_cotan Rops C A B; g_cotan Rops A B C; g_cotan Rops B C A]) /\
  (forall (k : nat) (first iA iB : Z) (x : R), (k < 2)%nat -> (0 <= iA < 3)%Z -> (0 <= iB < 3)%Z -> iA <> iB ->
       g_cw_term Rops k x = x / 2 /\
       exists j, (0 <= j < 3)%Z /\ j <> iA /\ j <> iB /\ g_cw_corner k first iA iB = (first + j)%Z) /\
  (forall A B C D : V3, 6 * g_cell_volume Rops A B C D = Rabs (dotR (A -v D) (cross (B -v D) (C -v D)))) /\
  (forall (pi d a : R) (onb zb : bool),
       g_defect_init Rops pi = 2 * pi /\ g_defect_border Rops false pi = pi /\ g_defect_border Rops true pi = 0 /\
       g_defect_skip onb zb = (onb && zb)%bool /\ g_defect_step Rops d a = d - a) /\
  (forall v e f : Z, g_euler v e f = (v - e + f)%Z).

Lemma definitions_proof : definitions_statement.
Proof.
  unfold definitions_statement. repeat apply conj.
  - apply cross_def.
  - intros. apply distance_def.
  - apply edge_middle_def.
  - intros. split; [apply triangle_area_nonneg | apply triangle_area_sq].
  - apply lagrange.
  - apply quad_area_def.
  - intros A B C H. split; [apply face_normal_def|]. split; [now apply face_normal_unit|]. now apply face_normal_orth.
  - intros A B C. split; [reflexivity|]. split; [apply angle3_sin_nonneg|].
    split; [|apply angle3_modulus]. rewrite angle3_def. cbn [snd]. apply norm_sq.
  - intros A B C H. split; [now apply cotan_def | apply cotan_sym].
  - apply cot_face_def.
  - intros k first iA iB x Hk HA HB Hne. split; [now apply cw_term_def | now apply cw_corner_def].
  - apply cell_volume_def.
  - intros. apply defect_consts.
  - reflexivity.
Qed.

(* ====================================================================== rigid motions and scales *)
Require Import MV.C07.Proofs_Rigid MV.C07.Proofs_MeshRigid MV.C07.Proofs_Angles MV.C07.Proofs_Interp MV.C07.Proofs_GB MV.C07.Proofs_Renum
  MV.C07.Proofs_Count MV.C07.Proofs_GBfull MV.C07.Proofs_Findings MV.C07.Proofs_Circum
  MV.C07.Proofs_Keyed MV.C07.Proofs_RenumV MV.C07.Proofs_FacePerm MV.C07.Proofs_FanRot MV.C07.Proofs_RenumFull
  MV.C07.Proofs_MeshScale MV.C07.Proofs_C2F MV.C07.Proofs_Convex MV.C07.Proofs_Global.

(* For EVERY rotation matrix Q (Q^T Q = I, det Q = 1), EVERY translation t and EVERY well-formed mesh:
   scalar quantities are unchanged, positions move with the mesh, directions rotate. *)
Definition rigid_invariance_statement : Prop :=
  forall (Q : rotation) (t : V3) (m : mesh R), wf_mesh m ->
  let rg := rigid Q t in let rt := rot Q in let m' := map_mesh rg m in
  edge_length Rops m' = edge_length Rops m /\
  edge_middle_point Rops m' = map rg (edge_middle_point Rops m) /\
  face_area Rops m' = face_area Rops m /\
  face_normals Rops m' = map rt (face_normals Rops m) /\
  face_barycenter Rops m' = map rg (face_barycenter Rops m) /\
  corner_pairs Rops m' = corner_pairs Rops m /\
  cotangent Rops m' = cotangent Rops m /\
  cotan_weights Rops m' = cotan_weights Rops m /\
  degree m' = degree m /\
  (forall zb pi ang, angle_defects Rops zb pi ang m' = angle_defects Rops zb pi ang m) /\
  (forall w ang, vertex_normals Rops w ang m' = map rt (vertex_normals Rops w ang m)) /\
  cell_volume Rops m' = cell_volume Rops m /\
  cell_barycenter Rops m' = map rg (cell_barycenter Rops m) /\
  euler_characteristic m' = euler_characteristic m /\
  (forall n, mean_edge_length Rops m' n = mean_edge_length Rops m n) /\
  (forall n, mean_face_area Rops m' n = mean_face_area Rops m n) /\
  (forall n, mean_cell_volume Rops m' n = mean_cell_volume Rops m n) /\
  total_area Rops m' = total_area Rops m /\
  (verts m <> [] -> barycenter Rops m' = rg (barycenter Rops m)) /\
  ((forall F, In F (faces m) ->
      0 < n2 (cross (P Rops m (znth F 1 0%Z) -v P Rops m (znth F 0 0%Z)) (P Rops m (znth F 2 0%Z) -v P Rops m (znth F 0 0%Z)))) ->
   face_circumcenter Rops m' = map (omap rg) (face_circumcenter Rops m)).

Lemma rigid_invariance_proof : rigid_invariance_statement.
Proof.
  intros Q t m WF rg rt m'. subst rg rt m'. repeat apply conj.
  - now apply edge_length_rigid.
  - now apply edge_middle_point_rigid.
  - now apply face_area_mesh_rigid.
  - now apply face_normals_rigid.
  - now apply face_barycenter_rigid.
  - now apply corner_pairs_rigid.
  - now apply cotangent_rigid.
  - now apply cotan_weights_rigid.
  - apply degree_rigid.
  - intros. apply angle_defects_rigid.
  - intros. now apply vertex_normals_rigid.
  - now apply cell_volume_mesh_rigid.
  - now apply cell_barycenter_rigid.
  - apply euler_rigid.
  - intros. now apply mean_edge_length_rigid.
  - intros. now apply mean_face_area_rigid.
  - intros. now apply mean_cell_volume_rigid.
  - now apply total_area_rigid.
  - now apply barycenter_mesh_rigid.
  - intros ND. now apply face_circumcenter_rigid.
Qed.

(* non-vacuity: a genuine rotation (3-4-5 about z) and a well-formed mesh (one triangle, one tetrahedron) *)
Definition ex_mesh : mesh R :=
  mkmesh [(0, 0, 0); (1, 0, 0); (0, 1, 0); (0, 0, 1)] [(0, 1); (1, 2); (0, 2)]%Z [[0; 1; 2]]%Z [[0; 1; 2; 3]]%Z.
Example ex_mesh_wf : wf_mesh ex_mesh.
Proof.
  constructor; unfold in_rng, zlen; cbn.
  - intros e [<-|[<-|[<-|[]]]]; cbn; lia.
  - intros F [<-|[]]. split; [cbn; lia|]. intros v [<-|[<-|[<-|[]]]]; lia.
  - intros C [<-|[]]. split; [reflexivity|]. intros v [<-|[<-|[<-|[<-|[]]]]]; lia.
Qed.
Example ex_rotation_moves : rot rot345 (1, 0, 0) = (3 / 5, 4 / 5, 0).
Proof. unfold rot, rot345; cbn. apply vec_eq3; field. Qed.

(* uniform scale s > 0: lengths s, areas s^2, volumes s^3, angle pairs s^2 (angles 1), cotangents 1, normals 1,
   midpoints and barycentres move with the mesh *)
Definition scaling_statement : Prop :=
  (* formulas *)
  (forall s : R, 0 < s -> let sc := scl s in
  (forall A B, g_edge_length Rops (sc A) (sc B) = s * g_edge_length Rops A B) /\
  (forall A B, g_edge_middle Rops (sc A) (sc B) = sc (g_edge_middle Rops A B)) /\
  (forall A B C, g_triangle_area Rops (sc A) (sc B) (sc C) = s * s * g_triangle_area Rops A B C) /\
  (forall A B C D, g_quad_area Rops (sc A) (sc B) (sc C) (sc D) = s * s * g_quad_area Rops A B C D) /\
  (forall A B C, g_angle3 Rops (sc A) (sc B) (sc C) = (s * s * fst (g_angle3 Rops A B C), s * s * snd (g_angle3 Rops A B C))) /\
  (forall A B C, 0 < n2 (cross (A -v B) (C -v B)) -> g_cotan Rops (sc A) (sc B) (sc C) = g_cotan Rops A B C) /\
  (forall A B C, 0 < n2 (cross (B -v A) (C -v A)) -> g_face_normal Rops (sc A) (sc B) (sc C) = g_face_normal Rops A B C) /\
  (forall A B C D, g_cell_volume Rops (sc A) (sc B) (sc C) (sc D) = s * s * s * g_cell_volume Rops A B C D) /\
  (forall l, g_face_bary Rops (map sc l) = sc (g_face_bary Rops l)) /\
  (forall l, g_cell_bary Rops (map sc l) = sc (g_cell_bary Rops l)) /\
  (forall l, g_barycenter Rops (map sc l) = sc (g_barycenter Rops l)) /\
  (forall A B C, 0 < n2 (cross (B -v A) (C -v A)) ->
     g_circumcenter Rops (sc A) (sc B) (sc C) = omap sc (g_circumcenter Rops A B C))) /\
  (* every attribute of the scaled mesh *)
  (forall (s : R) (m : mesh R), 0 < s -> wf_mesh m -> let sc := scl s in let m' := map_mesh sc m in
  edge_length Rops m' = map (Rmult s) (edge_length Rops m) /\
  edge_middle_point Rops m' = map sc (edge_middle_point Rops m) /\
  face_area Rops m' = map (Rmult (s * s)) (face_area Rops m) /\
  face_barycenter Rops m' = map sc (face_barycenter Rops m) /\
  corner_pairs Rops m' = map (fun p => (s * s * fst p, s * s * snd p)) (corner_pairs Rops m) /\
  map atan2_pair (corner_pairs Rops m') = map atan2_pair (corner_pairs Rops m) /\
  degree m' = degree m /\
  (forall zb pi ang, angle_defects Rops zb pi ang m' = angle_defects Rops zb pi ang m) /\
  euler_characteristic m' = euler_characteristic m /\
  cell_volume Rops m' = map (Rmult (s * s * s)) (cell_volume Rops m) /\
  cell_barycenter Rops m' = map sc (cell_barycenter Rops m) /\
  (forall n, mean_edge_length Rops m' n = s * mean_edge_length Rops m n) /\
  (forall n, mean_face_area Rops m' n = s * s * mean_face_area Rops m n) /\
  (forall n, mean_cell_volume Rops m' n = s * s * s * mean_cell_volume Rops m n) /\
  total_area Rops m' = s * s * total_area Rops m /\
  barycenter Rops m' = sc (barycenter Rops m) /\
  (* the first three vertices of every face are not collinear: unit normals, cotangents, vertex normals *)
  (faces_nondegenerate m ->
     face_normals Rops m' = face_normals Rops m /\
     face_circumcenter Rops m' = map (omap sc) (face_circumcenter Rops m) /\
     ((forall F, In F (faces m) -> zlen F = 3%Z) -> cotangent Rops m' = cotangent Rops m /\ cotan_weights Rops m' = cotan_weights Rops m) /\
     (forall ang, vertex_normals Rops WUniform ang m' = vertex_normals Rops WUniform ang m /\
                  vertex_normals Rops WAngle ang m' = vertex_normals Rops WAngle ang m) /\
     ((forall f, (0 <= f < zlen (faces m))%Z -> 0 < znth (face_area Rops m) f 0) ->
      (forall v, (0 <= v < zlen (verts m))%Z -> exists F, In F (faces m) /\ In v F) ->
      forall ang, vertex_normals Rops WArea ang m' = vertex_normals Rops WArea ang m))).

Lemma scaling_proof : scaling_statement.
Proof.
  split.
  - intros s Hs sc. subst sc. repeat apply conj; intros.
    + now apply distance_scale.
    + apply edge_middle_scale.
    + now apply triangle_area_scale.
    + now apply quad_area_scale.
    + now apply angle3_scale.
    + now apply cotan_scale.
    + now apply face_normal_scale.
    + now apply cell_volume_scale.
    + apply mean_scale.
    + apply mean_scale.
    + apply mean_scale.
    + now apply circumcenter_scale.
  - intros s m Hs WF sc m'. subst sc m'. repeat apply conj.
    + now apply edge_length_scale.
    + now apply edge_middle_point_scale.
    + now apply face_area_mesh_scale.
    + now apply face_barycenter_scale.
    + now apply corner_pairs_scale.
    + now apply model_angles_scale.
    + apply degree_scale.
    + intros. apply angle_defects_scale.
    + apply euler_scale.
    + now apply cell_volume_mesh_scale.
    + now apply cell_barycenter_scale.
    + intros. now apply mean_edge_length_scale.
    + intros. now apply mean_face_area_scale.
    + intros. now apply mean_cell_volume_scale.
    + now apply total_area_scale.
    + apply barycenter_mesh_scale.
    + intros ND. split; [now apply face_normals_scale|]. split; [now apply face_circumcenter_scale|]. split.
      * intros TRI. split; [now apply cotangent_scale|now apply cotan_weights_scale].
      * split.
        -- intros ang. split; apply vertex_normals_scale_uniform_angle; auto.
        -- intros POS USED ang. now apply vertex_normals_scale_area.
Qed.

(* ====================================================================== renumbering *)
Definition renumbering_partial_statement : Prop :=
  (* (a) renumbering the vertices by sigma (injective on the vertex range); the renumbered mesh may store an edge in
         either orientation.  Per-edge/face/corner/cell attributes are unchanged, per-vertex attributes move with sigma *)
  (forall (m m' : mesh R) (sigma : Z -> Z) (sw : Z * Z -> bool), wf_mesh m ->
     let nV := zlen (verts m) in
     zlen (verts m') = nV ->
     (forall u v, (0 <= u < nV)%Z -> (0 <= v < nV)%Z -> sigma u = sigma v -> u = v) ->
     (forall v, (0 <= v < nV)%Z -> (0 <= sigma v < nV)%Z) ->
     (forall v, in_rng m v -> P Rops m' (sigma v) = P Rops m v) ->
     faces m' = map (map sigma) (faces m) -> cells m' = map (map sigma) (cells m) ->
     edges m' = map (fun e => if sw e then (sigma (snd e), sigma (fst e)) else (sigma (fst e), sigma (snd e))) (edges m) ->
     (edge_length Rops m' = edge_length Rops m /\ edge_middle_point Rops m' = edge_middle_point Rops m /\
      face_area Rops m' = face_area Rops m /\ face_normals Rops m' = face_normals Rops m /\
      face_barycenter Rops m' = face_barycenter Rops m /\ corner_pairs Rops m' = corner_pairs Rops m /\
      cotangent Rops m' = cotangent Rops m /\ cell_volume Rops m' = cell_volume Rops m /\
      cell_barycenter Rops m' = cell_barycenter Rops m /\ total_area Rops m' = total_area Rops m) /\
     (forall v, (0 <= v < nV)%Z ->
        znth (degree m') (sigma v) 0%Z = znth (degree m) v 0%Z /\
        znth (border_flags m') (sigma v) false = znth (border_flags m) v false /\
        (forall zb pi ang, znth (angle_defects Rops zb pi ang m') (sigma v) 0 = znth (angle_defects Rops zb pi ang m) v 0) /\
        (forall w ang, znth (vertex_normals Rops w ang m') (sigma v) (vzero Rops) = znth (vertex_normals Rops w ang m) v (vzero Rops)) /\
        (forall w area ang fattr,
           znth (interpolate_faces_to_vertices Rops 0 Rplus (smul_l Rops) Rdiv w area ang m' fattr) (sigma v) 0
           = znth (interpolate_faces_to_vertices Rops 0 Rplus (smul_l Rops) Rdiv w area ang m fattr) v 0) /\
        (forall w ang cattr,
           match average_corners_to_vertices Rops 0 Rplus (smul_l Rops) Rdiv w ang m' cattr,
                 average_corners_to_vertices Rops 0 Rplus (smul_l Rops) Rdiv w ang m cattr with
           | Some l', Some l => znth l' (sigma v) 0 = znth l v 0
           | None, None => True
           | _, _ => False
           end))) /\
  (* (b) rotating the vertex list of a face: area of EVERY polygon (triangle, quad, fan of an n-gon - planar or not),
         normal and cotangents of a triangle, barycentre of any polygon *)
  (forall A B C : V3, g_triangle_area Rops B C A = g_triangle_area Rops A B C /\
                      g_face_normal Rops B C A = g_face_normal Rops A B C /\
                      g_cot_face Rops B C A = tl (g_cot_face Rops A B C) ++ [hd 0 (g_cot_face Rops A B C)] /\
                      g_distance Rops A B = g_distance Rops B A) /\
  (forall A B C D : V3, g_quad_area Rops B C D A = g_quad_area Rops A B C D) /\
  (forall pts : list V3, g_face_area Rops (rot1 pts) = g_face_area Rops pts) /\
  (forall a b : list V3, g_face_bary Rops (b ++ a) = g_face_bary Rops (a ++ b)) /\
  (* (c) permuting the face list and rotating each face (drel), every face carrying its value, its area weight and its
         corner-angle weights along: the faces->vertices accumulation is unchanged, for every weighting, for scalar and
         for vector (normals) attributes - one generic lemma on commutative accumulation (Proofs_FacePerm) *)
  (forall (w : weighting) (D D' : list (@dface R R)) (mm mm' : mesh R),
     Forall wfd D -> Forall wfd D' -> drel D D' -> faces mm = d_faces D -> faces mm' = d_faces D' ->
     zlen (verts mm') = zlen (verts mm) ->
     interpolate_faces_to_vertices Rops 0 Rplus (smul_l Rops) Rdiv w (d_areas D') (d_angs D') mm' (d_vals D')
     = interpolate_faces_to_vertices Rops 0 Rplus (smul_l Rops) Rdiv w (d_areas D) (d_angs D) mm (d_vals D)) /\
  (forall (w : weighting) (D D' : list (@dface R V3)) (mm mm' : mesh R),
     Forall wfd D -> Forall wfd D' -> drel D D' -> faces mm = d_faces D -> faces mm' = d_faces D' ->
     zlen (verts mm') = zlen (verts mm) ->
     interpolate_faces_to_vertices Rops (vzero Rops) (vadd Rops) (vscale Rops) (vdiv Rops) w (d_areas D') (d_angs D') mm' (d_vals D')
     = interpolate_faces_to_vertices Rops (vzero Rops) (vadd Rops) (vscale Rops) (vdiv Rops) w (d_areas D) (d_angs D) mm (d_vals D)).

Lemma distance_sym (A B : V3) : g_distance Rops A B = g_distance Rops B A.
Proof. apply distance_symm. Qed.

Lemma renumbering_proof : renumbering_partial_statement.
Proof.
  repeat apply conj.
  - intros m m' sigma sw WF nV LEN INJ MAPS PTS FS CS ES.
    assert (FR : forall F, In F (faces m) -> forall u, In u F -> (0 <= u < nV)%Z) by (intros F HF; apply (wf_faces m WF F HF)).
    assert (ER : forall e, In e (edges m) -> (0 <= fst e < nV)%Z /\ (0 <= snd e < nV)%Z) by (intros e He; apply (wf_edges m WF e He)).
    split.
    + repeat apply conj.
      * eapply edge_length_renum_sw; eassumption.
      * eapply edge_middle_point_renum_sw; eassumption.
      * eapply face_area_renum; eassumption.
      * eapply face_normals_renum; eassumption.
      * eapply face_barycenter_renum; eassumption.
      * eapply corner_pairs_renum; eassumption.
      * eapply cotangent_renum; eassumption.
      * eapply cell_volume_renum; eassumption.
      * eapply cell_barycenter_renum; eassumption.
      * eapply total_area_renum; eassumption.
    + intros v Hv. repeat apply conj.
      * eapply degree_rename; eauto.
      * eapply border_flags_rename; eauto.
      * intros. eapply angle_defects_rename; eauto.
      * intros. eapply vertex_normals_rename; eauto.
      * intros. eapply f2v_rename; eauto.
      * intros. eapply (c2v_rename Rops m m' sigma); eauto.
  - intros A B C. repeat apply conj; [apply triangle_area_cyc|apply face_normal_cyc|apply cot_face_cyc|apply distance_sym].
  - apply quad_area_cyc.
  - apply face_area_rot1.
  - apply face_bary_rotate.
  - intros. now apply f2v_face_perm_scalar.
  - intros. now apply f2v_face_perm_vector.
Qed.

(* ====================================================================== angle sum *)
(* the corner pairs the model computes for a triangular face [a;b;c] are the three pairs below
   (Proofs_Angles.face_corner_pairs_tri).
   math.atan2(s, c) for s > 0 is the angle theta in (0, pi) with (cos theta, sin theta) = (c, s)/|(c, s)|:
   atan2_pair (c, s) = acos (c / sqrt (c^2 + s^2)) is that angle (atan2_up_spec). *)
Definition angle_sum_statement : Prop :=
  (forall (m : mesh R) (a b c : Z), face_corner_pairs Rops m [a; b; c]
      = [g_corner_angle Rops (P Rops m c) (P Rops m a) (P Rops m b);
         g_corner_angle Rops (P Rops m a) (P Rops m b) (P Rops m c);
         g_corner_angle Rops (P Rops m b) (P Rops m c) (P Rops m a)]) /\
  (forall sn cs : R, 0 < sn -> let th := atan2_pair (cs, sn) in
      0 < th < PI /\ cos th = cs / sqrt (cs * cs + sn * sn) /\ sin th = sn / sqrt (cs * cs + sn * sn)) /\
  (forall A B C : V3, 0 < n2 (cross (B -v A) (C -v A)) ->
     let p1 := g_corner_angle Rops C A B in let p2 := g_corner_angle Rops A B C in let p3 := g_corner_angle Rops B C A in
     (0 < snd p1 /\ 0 < snd p2 /\ 0 < snd p3) /\
     cmul (cmul (cnormalize p1) (cnormalize p2)) (cnormalize p3) = (-1, 0) /\
     atan2_pair p1 + atan2_pair p2 + atan2_pair p3 = PI).

Lemma angle_sum_proof : angle_sum_statement.
Proof.
  repeat apply conj.
  - intros. apply face_corner_pairs_tri.
  - intros sn cs H. apply (atan2_up_spec sn cs H).
  - intros A B C ND. apply (triangle_angle_sum A B C ND).
Qed.

Example angle_sum_nonvacuous : 0 < n2 (cross ((1, 0, 0) -v (0, 0, 0)) ((0, 1, 0) -v (0, 0, 0))).
Proof. unfR. lra. Qed.

(* ====================================================================== Gauss-Bonnet *)
Definition gauss_bonnet_counting_statement : Prop :=
  forall (m : mesh R) (ang : list R) (Eb : nat),
  let nV := length (verts m) in let nF := length (faces m) in let nE := length (edges m) in
  (forall F, In F (faces m) -> zlen F = 3%Z /\ forall v, In v F -> (0 <= v < Z.of_nat nV)%Z) ->
  (forall f, (0 <= f < Z.of_nat nF)%Z -> znth ang (3 * f) 0 + znth ang (3 * f + 1) 0 + znth ang (3 * f + 2) 0 = PI) ->
  (3 * nF = 2 * (nE - Eb) + Eb)%nat -> (Eb <= nE)%nat -> count_true (border_flags m) = Eb ->
  ssum Rops (angle_defects Rops false PI ang m) = 2 * PI * IZR (euler_characteristic m).

Lemma gauss_bonnet_counting_proof : gauss_bonnet_counting_statement.
Proof. intros m ang Eb nV nF nE T A. apply (gauss_bonnet_counting m ang T A Eb). Qed.

(* Full statement: EVERY manifold triangulation (closed or with border; `manifold` is the explicit combinatorial
   condition of Proofs_Count.v, decided by the boolean `manifoldb` of Mesh.v) with non-degenerate triangles:
   the defects the model computes from its own corner angles sum to 2 pi (V - E + F). *)
Definition gauss_bonnet_statement : Prop :=
  forall m : mesh R, let nV := length (verts m) in
  manifold (faces m) (edges m) nV ->
  (forall F, In F (faces m) -> forall v, In v F -> (0 <= v < Z.of_nat nV)%Z) ->
  (forall a b c, In [a; b; c]%Z (faces m) -> 0 < n2 (cross (P Rops m b -v P Rops m a) (P Rops m c -v P Rops m a))) ->
  ssum Rops (angle_defects Rops false PI (model_angles m) m) = 2 * PI * IZR (euler_characteristic m).

Lemma gauss_bonnet_proof : gauss_bonnet_statement.
Proof. intros m nV M RNG ND. now apply gauss_bonnet_model. Qed.

(* non-vacuity: a closed surface (tetrahedron, chi = 2) and a surface with border (one triangle) are manifold *)
Definition tetra_mesh : mesh R :=
  mkmesh [(0, 0, 0); (1, 0, 0); (0, 1, 0); (0, 0, 1)] [(0, 1); (0, 2); (1, 2); (0, 3); (1, 3); (2, 3)]%Z
         [[0; 2; 1]; [0; 1; 3]; [1; 2; 3]; [0; 3; 2]]%Z [].
Example tetra_manifold : manifold (faces tetra_mesh) (edges tetra_mesh) (length (verts tetra_mesh)).
Proof. apply manifoldb_spec. vm_compute. reflexivity. Qed.
Example triangle_manifold : manifold (faces ex_mesh) (edges ex_mesh) (length (verts ex_mesh)).
Proof. apply manifoldb_spec. vm_compute. reflexivity. Qed.
Example tetra_nondegenerate : forall a b c, In [a; b; c]%Z (faces tetra_mesh) ->
  0 < n2 (cross (P Rops tetra_mesh b -v P Rops tetra_mesh a) (P Rops tetra_mesh c -v P Rops tetra_mesh a)).
Proof.
  intros a b c [E|[E|[E|[E|[]]]]]; inversion E; subst; cbv [P znth verts tetra_mesh Z.ltb Z.compare Z.to_nat Pos.to_nat Pos.iter_op nth Nat.add];
    unfR; nra.
Qed.

(* ====================================================================== interpolation of constants *)
Definition interpolate_constant_statement : Prop :=
  forall (m : mesh R) (c : R),
  let nV := length (verts m) in let nF := length (faces m) in let nC := length (corners (faces m)) in
  (forall F, In F (faces m) -> F <> [] /\ forall v, In v F -> (0 <= v < Z.of_nat nV)%Z) ->
  (forall v, (0 <= v < Z.of_nat nV)%Z -> exists F, In F (faces m) /\ In v F) ->
  interpolate_vertices_to_faces Rops 0 Rplus (smul_l Rops) Rdiv m (repeat c nV) = repeat c nF /\
  (forall w area ang, w <> WSum ->
     (forall f, (0 <= f < Z.of_nat nF)%Z -> 0 < znth area f 0) -> (forall k, (0 <= k < Z.of_nat nC)%Z -> 0 < znth ang k 0) ->
     interpolate_faces_to_vertices Rops 0 Rplus (smul_l Rops) Rdiv w area ang m (repeat c nF) = repeat c nV) /\
  (forall w ang, w = WUniform \/ w = WAngle -> (forall k, (0 <= k < Z.of_nat nC)%Z -> 0 < znth ang k 0) ->
     average_corners_to_vertices Rops 0 Rplus (smul_l Rops) Rdiv w ang m (repeat c nC) = Some (repeat c nV)) /\
  scatter_vertices_to_corners 0 m (repeat c nV) = repeat c nC /\
  scatter_faces_to_corners 0 m (repeat c nF) = repeat c nC /\
  (forall w ang, w = WUniform \/ w = WAngle -> (forall k, (0 <= k < Z.of_nat nC)%Z -> 0 < znth ang k 0) ->
     average_corners_to_faces Rops 0 Rplus (smul_l Rops) Rdiv w ang m (repeat c nC) = Some (repeat c nF)).

Lemma interpolate_constant_proof : interpolate_constant_statement.
Proof.
  intros m c nV nF nC HF USED. repeat apply conj.
  - apply v2f_const. exact HF.
  - intros. now apply f2v_const.
  - intros. now apply c2v_const.
  - apply sv2c_const. intros F H. apply (HF F H).
  - apply sf2c_const.
  - intros w ang Hw Hang. apply c2f_const; [assumption| |assumption]. intros F H. apply (HF F H).
Qed.

Definition tri_mesh : mesh R := mkmesh [(0, 0, 0); (1, 0, 0); (0, 1, 0)] [(0, 1); (1, 2); (0, 2)]%Z [[0; 1; 2]]%Z [].
Example interpolate_constant_nonvacuous :
  let m := tri_mesh in let nV := length (verts m) in
  (forall F, In F (faces m) -> F <> [] /\ forall v, In v F -> (0 <= v < Z.of_nat nV)%Z) /\
  (forall v, (0 <= v < Z.of_nat nV)%Z -> exists F, In F (faces m) /\ In v F).
Proof.
  cbn. split.
  - intros F [<-|[]]. split; [discriminate|]. intros v [<-|[<-|[<-|[]]]]; lia.
  - intros v Hv. exists [0; 1; 2]%Z. split; [now left|]. cbn. lia.
Qed.

(* ====================================================================== circumcentre (code as repaired by 141685d) *)
(* whenever face_circumcenter's formula returns a point for a non-degenerate triangle (it returns None only when
   intersect_2lines2D's relative parallelism guard det^2 <= 1e-24 |d1|^2 |d2|^2 fires), that point is equidistant from the three vertices and lies in
   the triangle's plane: it IS the circumcentre.  (Before the repair the Z*h term was missing and the in-plane
   clause failed for every triangle whose plane misses the origin.) *)
Definition circumcenter_statement : Prop :=
  forall A B C c : V3, 0 < n2 (cross (B -v A) (C -v A)) -> g_circumcenter Rops A B C = Some c ->
  n2 (c -v A) = n2 (c -v B) /\ n2 (c -v A) = n2 (c -v C) /\ dotR (cross (B -v A) (C -v A)) (c -v A) = 0.

Lemma circumcenter_proof : circumcenter_statement.
Proof. exact circumcenter_equidistant. Qed.

(* ====================================================================== recorded finding *)
(* FULL statement (fails): the unit normal of a face does not depend on where its vertex list starts,
     forall A B C D, g_face_normal A B C = g_face_normal B C D      ([A;B;C;D] and [B;C;D;A] are the same quad).
   It holds for triangles (renumbering_statement) and for planar faces; for a skew quad it is refuted: *)
Definition face_normal_rotation_refuted_statement : Prop :=
  exists A B C D : V3,
    0 < n2 (cross (B -v A) (C -v A)) /\ 0 < n2 (cross (C -v B) (D -v B)) /\
    g_face_normal Rops A B C <> g_face_normal Rops B C D.

(* ====================================================================== definitions, second part: textbook areas of quads
   and n-gons (planar convex), global sums and means, per-vertex quantities, mesh-level cotangent weight *)
Definition definitions_global_statement : Prop :=
  (* planar convex quad: half the norm of the cross product of the diagonals *)
  (forall nh A B C D : V3, convex_quad nh A B C D -> g_quad_area Rops A B C D = norm Rops (cross (C -v A) (D -v B)) / 2) /\
  (* n-gon (>= 5 vertices): the fan about the barycentre; planar convex: half the norm of the shoelace vector area *)
  (forall pts : list V3, (5 <= zlen pts)%Z ->
     g_face_area Rops pts = Rsum (map (fun pq => g_triangle_area Rops (fst pq) (snd pq) (g_face_bary Rops pts)) (cyc_pairs pts)) /\
     (forall nh, convex_fan nh pts -> g_face_area Rops pts = norm Rops (shoelace2 pts) / 2)) /\
  (* barycentres: the sum of the points divided by their number *)
  (forall pts : list V3, g_face_bary Rops pts = vdiv Rops (vsum Rops pts) (IZR (zlen pts)) /\
                         g_cell_bary Rops pts = vdiv Rops (vsum Rops pts) (IZR (zlen pts)) /\
                         g_barycenter Rops pts = vdiv Rops (vsum Rops pts) (IZR (zlen pts))) /\
  (* means: the first k = min(n, count) values, divided by k; n beyond the count gives the mean of all *)
  (forall (m : mesh R) (n : option Z),
     mean_edge_length Rops m n = fold_left Rplus (firstn (Z.to_nat (mean_k n (edges m))) (edge_length Rops m)) 0 / IZR (mean_k n (edges m)) /\
     mean_face_area Rops m n = fold_left Rplus (firstn (Z.to_nat (mean_k n (faces m))) (face_area Rops m)) 0 / IZR (mean_k n (faces m)) /\
     mean_cell_volume Rops m n = fold_left Rplus (firstn (Z.to_nat (mean_k n (cells m))) (cell_volume Rops m)) 0 / IZR (mean_k n (cells m)) /\
     total_area Rops m = fold_left Rplus (face_area Rops m) 0) /\
  (forall (A : Type) (l : list A) (n : Z), (zlen l <= n)%Z -> mean_k (Some n) l = mean_k None l) /\
  (* degree: the number of edge ends at the vertex *)
  (forall (m : mesh R) (v : Z),
     (forall e, In e (edges m) -> (0 <= fst e < zlen (verts m))%Z /\ (0 <= snd e < zlen (verts m))%Z) ->
     znth (degree m) v 0%Z
     = fold_left (fun acc x => if (x =? v)%Z then (acc + 1)%Z else acc) (flat_map (fun e => [fst e; snd e]) (edges m)) 0%Z) /\
  (* vertex normals: the weighted sum of the face normals, made unit *)
  (forall x : V3, g_vertex_normal_finish Rops x = normalized Rops x /\ (0 < n2 x -> n2 (g_vertex_normal_finish Rops x) = 1)) /\
  (forall w ang (m : mesh R), vertex_normals Rops w ang m
     = map (normalized Rops) (interpolate_faces_to_vertices Rops (vzero Rops) (vadd Rops) (vscale Rops) (vdiv Rops) w
                                (face_area Rops m) ang m (face_normals Rops m))) /\
  (* the caller's custom_fnormals win over a cached "normals" attribute (0), the cache over recomputation (1 / 2) *)
  (forall cached : bool, g_vn_source true cached = 0%nat /\ g_vn_source false true = 1%nat /\ g_vn_source false false = 2%nat) /\
  (forall w ang (m : mesh R) (fn : list V3),
     vertex_normals_custom Rops w ang m fn
     = map (normalized Rops) (interpolate_faces_to_vertices Rops (vzero Rops) (vadd Rops) (vscale Rops) (vdiv Rops) w
                                (face_area Rops m) ang m fn) /\
     vertex_normals Rops w ang m = vertex_normals_custom Rops w ang m (face_normals Rops m)) /\
  (* angle defect of a vertex: 2 pi (inside) / pi (border) minus the corner angles at the vertex; 0 on the border if zero_border *)
  (forall (zb : bool) (pi : R) (ang : list R) (m : mesh R) (v : Z),
     (forall F, In F (faces m) -> forall u, In u F -> (0 <= u < zlen (verts m))%Z) -> (0 <= v < zlen (verts m))%Z ->
     let on_border := znth (border_flags m) v false in
     let angle_sum := Rsum (map (fun cf => znth ang (fst cf) 0) (corners_at (enumerate (corners (faces m))) v)) in
     znth (angle_defects Rops zb pi ang m) v 0 = if on_border then (if zb then 0 else pi - angle_sum) else 2 * pi - angle_sum) /\
  (* cotangent weight of an edge: for each of its two half-edges that exists, half the cotangent at the opposite corner *)
  (forall (m : mesh R), cotan_weights Rops m = map (cw_edge Rops (faces m) (half_edges (faces m)) (cotangent Rops m)) (edges m)) /\
  (forall fs hes cot (e : Z * Z),
     cw_edge Rops fs hes cot e = half_edge_term fs hes cot (fst e) (snd e) + half_edge_term fs hes cot (snd e) (fst e)).

Lemma definitions_global_proof : definitions_global_statement.
Proof.
  repeat apply conj.
  - apply quad_area_textbook.
  - intros pts H. split; [now apply face_area_fan_def|]. intros nh C. now apply (ngon_area_textbook nh).
  - apply mean_point_def.
  - intros m n. repeat apply conj; [apply mean_edge_length_def|apply mean_face_area_def|apply mean_cell_volume_def|reflexivity].
  - intros A l n. apply mean_k_clamp.
  - apply degree_def.
  - apply vertex_normal_finish_def.
  - reflexivity.
  - apply vn_source_def.
  - apply vertex_normals_custom_def.
  - apply angle_defect_def.
  - reflexivity.
  - apply cw_edge_def.
Qed.

Example convex_quad_nonvacuous : convex_quad (0, 0, 1) (0, 0, 0) (1, 0, 0) (1, 1, 0) (0, 1, 0).
Proof.
  split; [unfR; ring|]. repeat split; exists 1; (split; [lra|unfR; apply vec_eq3; ring]).
Qed.

(* ====================================================================== recorded finding: planar non-convex faces *)
(* FULL statements (fail): the two textbook-area clauses above WITHOUT their convexity hypothesis, and "the unit normal of a
   planar face does not depend on its starting vertex".  Refuted on the dart quad (0,0),(2,1),(4,0),(2,4): *)
Definition nonconvex_face_refuted_statement : Prop :=
  let A := (0, 0, 0) in let B := (2, 1, 0) in let C := (4, 0, 0) in let D := (2, 4, 0) in
  norm Rops (cross (C -v A) (D -v B)) / 2 = 6 /\ g_quad_area Rops A B C D = 8 /\
  g_face_normal Rops A B C = (0, 0, -1) /\ g_face_normal Rops B C D = (0, 0, 1).

Lemma definitions_full_proof : definitions_statement /\ definitions_global_statement.
Proof. exact (conj definitions_proof definitions_global_proof). Qed.
