(* C07 - the area of a face does not depend on where its vertex list starts: triangle, quad and the fan of an n-gon
   about its barycentre (for EVERY polygon, planar or not: the fan sums the same triangles in another order). *)
From Coq Require Import ZArith List Bool Reals Lra Lia ZifyBool Permutation.
Require Import MV.Lib.Base MV.C07.Model MV.C07.Gen MV.C07.Mesh MV.C07.Proofs_Base MV.C07.Proofs_Rigid MV.C07.Proofs_Renum
  MV.C07.Proofs_Keyed MV.C07.Proofs_FacePerm.
Import ListNotations.

Definition rot1 {X} (l : list X) : list X := match l with [] => [] | x :: t => t ++ [x] end.
(* consecutive pairs around the cycle *)
Definition cyc_pairs {X} (l : list X) : list (X * X) := combine l (rot1 l).

Lemma rot1_length {X} (l : list X) : length (rot1 l) = length l.
Proof. destruct l; cbn; [reflexivity|]. rewrite app_length. cbn. lia. Qed.

Lemma cyc_pairs_rot1 {X} (l : list X) : Permutation (cyc_pairs (rot1 l)) (cyc_pairs l).
Proof.
  destruct l as [|x [|y t]]; [constructor|apply Permutation_refl|].
  unfold cyc_pairs. change (rot1 (x :: y :: t)) with ((y :: t) ++ [x]).
  change (rot1 ((y :: t) ++ [x])) with ((t ++ [x]) ++ [y]).
  rewrite combine_app' by (cbn [length]; rewrite app_length; cbn [length]; lia).
  change (combine (x :: y :: t) ((y :: t) ++ [x])) with ((x, y) :: combine (y :: t) (t ++ [x])).
  change (combine [x] [y]) with [(x, y)].
  apply Permutation_sym, Permutation_cons_append.
Qed.

Open Scope Z_scope.

Lemma map_znth_zrange {X} (l : list X) (d : X) : map (fun i => znth l i d) (zrange (zlen l)) = l.
Proof.
  unfold zrange, zlen. rewrite Nat2Z.id, map_map.
  assert (G : forall s (t : list X), (forall k, (k < length t)%nat -> nth (s + k) l d = nth k t d) ->
              map (fun x => znth l (Z.of_nat x) d) (seq s (length t)) = t).
  { intros s t. revert s. induction t as [|y t IH]; intros s H; [reflexivity|]. cbn [length seq map]. f_equal.
    - unfold znth. destruct (Z.of_nat s <? 0) eqn:E; [lia|]. rewrite Nat2Z.id. specialize (H 0%nat). rewrite Nat.add_0_r in H.
      apply H. cbn. lia.
    - apply IH. intros k Hk. replace (S s + k)%nat with (s + S k)%nat by lia. apply (H (S k)). cbn. lia. }
  apply (G 0%nat l). intros k Hk. reflexivity.
Qed.

Lemma map_znth_succ {X} (x : X) (l : list X) (d : X) :
  map (fun i => znth (x :: l) ((i + 1) mod zlen (x :: l)) d) (zrange (zlen (x :: l))) = l ++ [x].
Proof.
  unfold zlen. cbn [length]. set (n := length l).
  unfold zrange. rewrite Nat2Z.id. rewrite seq_S, map_app, map_app. cbn [map Nat.add]. f_equal.
  - transitivity (map (fun i => znth l i d) (zrange (zlen l))); [|apply map_znth_zrange].
    unfold zrange, zlen. rewrite Nat2Z.id. fold n. rewrite !map_map.
    apply map_ext_in. intros k Hk. apply in_seq in Hk.
    rewrite Z.mod_small by lia. unfold znth. destruct (Z.of_nat k + 1 <? 0) eqn:E; [lia|]. destruct (Z.of_nat k <? 0) eqn:E2; [lia|].
    replace (Z.to_nat (Z.of_nat k + 1)) with (S k) by lia. rewrite Nat2Z.id. reflexivity.
  - f_equal. replace (Z.of_nat n + 1) with (Z.of_nat (S n)) by lia. rewrite Z_mod_same_full. reflexivity.
Qed.

Lemma cyc_pairs_index {X} (l : list X) (d : X) :
  map (fun i => (znth l i d, znth l ((i + 1) mod zlen l) d)) (zrange (zlen l)) = cyc_pairs l.
Proof.
  destruct l as [|x l]; [reflexivity|]. unfold cyc_pairs. cbn [rot1].
  assert (G : forall {P Q} (f : Z -> P) (g : Z -> Q) (L : list Z), map (fun i => (f i, g i)) L = combine (map f L) (map g L)).
  { intros P Q f g L. induction L as [|i L IH]; [reflexivity|]. cbn [map combine]. now rewrite IH. }
  rewrite G, map_znth_zrange, map_znth_succ. reflexivity.
Qed.

Open Scope R_scope.

Lemma Rplus_c3 (a x y : R) : a + x + y = a + y + x.
Proof. ring. Qed.

(* the fan of triangles about a point b *)
Lemma fan_as_pairs (pts : list V3) (b : V3) :
  fold_left (fun acc i => acc + g_triangle_area Rops (znth pts i (vzero Rops)) (znth pts ((i + 1) mod zlen pts) (vzero Rops)) b)
    (zrange (zlen pts)) 0
  = fold_left (fun acc pq => acc + g_triangle_area Rops (fst pq) (snd pq) b) (cyc_pairs pts) 0.
Proof. rewrite <- (cyc_pairs_index pts (vzero Rops)), fold_left_map. reflexivity. Qed.

Theorem face_area_rot1 (pts : list V3) : g_face_area Rops (rot1 pts) = g_face_area Rops pts.
Proof.
  unfold g_face_area. cbv zeta.
  assert (L : zlen (rot1 pts) = zlen pts) by (unfold zlen; now rewrite rot1_length).
  replace (zlen (rot1 pts) =? 3)%Z with (zlen pts =? 3)%Z by now rewrite L.
  replace (zlen (rot1 pts) =? 4)%Z with (zlen pts =? 4)%Z by now rewrite L.
  destruct (zlen pts =? 3)%Z eqn:E3; [|destruct (zlen pts =? 4)%Z eqn:E4].
  - destruct pts as [|a [|b [|c [|d pts]]]]; unfold zlen in E3; cbn [length] in E3; try lia.
    cbn [rot1 app]. unfold znth. cbn. apply triangle_area_cyc.
  - destruct pts as [|a [|b [|c [|d [|e pts]]]]]; unfold zlen in E4; cbn [length] in E4; try lia.
    cbn [rot1 app]. unfold znth. cbn. apply quad_area_cyc.
  - destruct pts as [|x t]; [reflexivity|].
    assert (B : vsum Rops (rot1 (x :: t)) = vsum Rops (x :: t)).
    { cbn [rot1]. change (x :: t) with ([x] ++ t). rewrite !vsum_app. apply vadd_comm. }
    cbn [Rops oadd o0]. rewrite !fan_as_pairs. rewrite B, L.
    set (bary := vdiv Rops (vsum Rops (x :: t)) (oZ Rops (zlen (x :: t)))).
    apply (fold_add_perm Rplus Rplus_c3 (fun pq : V3 * V3 => g_triangle_area Rops (fst pq) (snd pq) bary)).
    apply cyc_pairs_rot1.
Qed.
