(* C07 - face_circumcenter (the code as repaired by commit 141685d: the plane offset Z*h is kept):
   whenever it returns a point c for a non-degenerate triangle, c lies in the triangle's plane and is equidistant
   from the three vertices. *)
From Coq Require Import ZArith List Bool Reals Lra Psatz Nsatz.
Require Import MV.Lib.Base MV.C07.Model MV.C07.Gen MV.C07.Mesh MV.C07.Proofs_Base MV.C07.Proofs_Rigid MV.C07.Proofs_MeshRigid.
Import ListNotations.
Open Scope R_scope.

(* ---------------------------------------------------------------- an orthonormal frame *)
Section Frame.
Variables X Y Z : V3.
Hypothesis XX : dotR X X = 1.
Hypothesis YY : dotR Y Y = 1.
Hypothesis ZZ : dotR Z Z = 1.
Hypothesis XY : dotR X Y = 0.
Hypothesis XZ : dotR X Z = 0.
Hypothesis YZ : dotR Y Z = 0.

(* Parseval: three orthonormal vectors of R^3 are complete *)
Lemma parseval (w : V3) : n2 w = dotR X w * dotR X w + dotR Y w * dotR Y w + dotR Z w * dotR Z w.
Proof. dvec X. dvec Y. dvec Z. dvec w. unfR. nsatz. Qed.

Definition combo (sx sy h : R) : V3 := (vscale Rops sx X +v vscale Rops sy Y) +v vscale Rops h Z.

Lemma combo_dots (sx sy h : R) :
  dotR X (combo sx sy h) = sx /\ dotR Y (combo sx sy h) = sy /\ dotR Z (combo sx sy h) = h.
Proof. unfold combo. dvec X. dvec Y. dvec Z. unfR. repeat split; nsatz. Qed.

(* vector form of completeness *)
Lemma frame_complete (v : V3) : combo (dotR X v) (dotR Y v) (dotR Z v) = v.
Proof. unfold combo. dvec X. dvec Y. dvec Z. dvec v. unfR. apply vec_eq3; nsatz. Qed.

Lemma dot_sub_r (a b c : V3) : dotR a (b -v c) = dotR a b - dotR a c.
Proof. dvec a. dvec b. dvec c. unfR. ring. Qed.

Lemma combo_dist (sx sy h : R) (v : V3) : dotR Z v = h ->
  n2 (combo sx sy h -v v) = (sx - dotR X v) * (sx - dotR X v) + (sy - dotR Y v) * (sy - dotR Y v).
Proof.
  intros Hv. rewrite parseval, !dot_sub_r. destruct (combo_dots sx sy h) as (-> & -> & ->). rewrite Hv. ring.
Qed.
End Frame.

(* ---------------------------------------------------------------- the basis of a non-degenerate triangle *)
Lemma normalized_unit (v : V3) : 0 < n2 v -> dotR (normalized Rops v) (normalized Rops v) = 1.
Proof.
  intros H. unfold normalized. pose proof (norm_pos v H). change (dotR ?a ?a) with (n2 a).
  rewrite n2_vdiv by lra. rewrite norm_sq. field. lra.
Qed.
Lemma dot_normalized_l (a b : V3) : 0 < n2 a -> dotR (normalized Rops a) b = dotR a b / norm Rops a.
Proof. intros H. unfold normalized. pose proof (norm_pos a H). apply dot_vdiv_l. lra. Qed.
Lemma dot_normalized_r (a b : V3) : 0 < n2 b -> dotR a (normalized Rops b) = dotR a b / norm Rops b.
Proof. intros H. rewrite dot_sym, dot_normalized_l, dot_sym by assumption. reflexivity. Qed.

Lemma cross_vdiv_l (u w : V3) (a : R) : a <> 0 -> cross (vdiv Rops u a) w = vdiv Rops (cross u w) a.
Proof. intros. dvec u. dvec w. unfR. apply vec_eq3; field; assumption. Qed.

Section Basis.
Variables A B C : V3.
Hypothesis ND : 0 < n2 (cross (B -v A) (C -v A)).
Let u := B -v A.
Let w := C -v A.
Let X := fst (fst (g_face_basis Rops A B C)).
Let Y := snd (fst (g_face_basis Rops A B C)).
Let Z := snd (g_face_basis Rops A B C).

Lemma u_pos : 0 < n2 u.
Proof.
  pose proof (lagrange u w) as L. pose proof (n2_nonneg u). pose proof (n2_nonneg w).
  assert (0 <= dotR u w * dotR u w) by nra. fold u w in ND. nra.
Qed.

Lemma X_def : X = normalized Rops u.
Proof. reflexivity. Qed.
Lemma Z_def : Z = normalized Rops (cross X w).
Proof. reflexivity. Qed.
Lemma Y_def : Y = normalized Rops (cross Z X).
Proof. reflexivity. Qed.

Lemma Xw_pos : 0 < n2 (cross X w).
Proof.
  rewrite X_def. unfold normalized. pose proof (norm_pos u u_pos) as Pu. rewrite cross_vdiv_l by lra.
  rewrite n2_vdiv by lra. fold u w in ND. apply Rdiv_lt_0_compat; [exact ND|nra].
Qed.

Lemma XX : dotR X X = 1.
Proof. rewrite X_def. apply normalized_unit, u_pos. Qed.
Lemma ZZ : dotR Z Z = 1.
Proof. rewrite Z_def. apply normalized_unit, Xw_pos. Qed.
Lemma XZ : dotR X Z = 0.
Proof. rewrite Z_def, dot_normalized_r by apply Xw_pos. rewrite dot_sym, cross_orth_l. field. pose proof (norm_pos _ Xw_pos). lra. Qed.
Lemma ZX_unit : n2 (cross Z X) = 1.
Proof. rewrite lagrange. change (n2 Z) with (dotR Z Z). change (n2 X) with (dotR X X). rewrite ZZ, XX, (dot_sym Z X), XZ. ring. Qed.
Lemma YY : dotR Y Y = 1.
Proof. rewrite Y_def. apply normalized_unit. rewrite ZX_unit. lra. Qed.
Lemma XY : dotR X Y = 0.
Proof.
  rewrite Y_def, dot_normalized_r by (rewrite ZX_unit; lra). rewrite dot_sym, cross_orth_r. field.
  assert (0 < norm Rops (cross Z X)) by (apply norm_pos; rewrite ZX_unit; lra). lra.
Qed.
Lemma YZ : dotR Y Z = 0.
Proof.
  rewrite Y_def, dot_normalized_l by (rewrite ZX_unit; lra). rewrite cross_orth_l. field.
  assert (0 < norm Rops (cross Z X)) by (apply norm_pos; rewrite ZX_unit; lra). lra.
Qed.

(* Z is orthogonal to the triangle's plane: the three vertices have the same height *)
Lemma Z_orth_u : dotR Z u = 0.
Proof.
  rewrite Z_def, dot_normalized_l by apply Xw_pos.
  assert (dotR (cross X w) u = 0).
  { rewrite X_def. unfold normalized. pose proof (norm_pos u u_pos). rewrite cross_vdiv_l by lra.
    rewrite dot_vdiv_l by lra. rewrite cross_orth_l. field. lra. }
  rewrite H. field. pose proof (norm_pos _ Xw_pos). lra.
Qed.
Lemma Z_orth_w : dotR Z w = 0.
Proof.
  rewrite Z_def, dot_normalized_l by apply Xw_pos. rewrite cross_orth_r. field. pose proof (norm_pos _ Xw_pos). lra.
Qed.
(* Z is the face normal direction: Z.v = (u x w).v / (|u| |X x w|) *)
Lemma Z_parallel (v : V3) : dotR (cross u w) v = dotR Z v * (norm Rops u * norm Rops (cross X w)).
Proof.
  pose proof (norm_pos u u_pos) as Pu. pose proof (norm_pos _ Xw_pos) as Pn.
  rewrite Z_def, dot_normalized_l by apply Xw_pos.
  rewrite X_def at 1. unfold normalized at 1. rewrite cross_vdiv_l, dot_vdiv_l by lra. field. lra.
Qed.
Lemma Z_height_B : dotR Z B = dotR Z A.
Proof. pose proof Z_orth_u as H. unfold u in H. rewrite dot_sub_r in H. lra. Qed.
Lemma Z_height_C : dotR Z C = dotR Z A.
Proof. pose proof Z_orth_w as H. unfold w in H. rewrite dot_sub_r in H. lra. Qed.
End Basis.

(* ---------------------------------------------------------------- the parallelism guard (relative: det^2 <= eps |d1|^2 |d2|^2) *)
Lemma guard_det (d1 d2 : R * R) (eps : R) : 0 < eps ->
  oleb Rops (omul Rops (g_det2 Rops d1 d2) (g_det2 Rops d1 d2)) (omul Rops (omul Rops eps (dot2 Rops d1 d1)) (dot2 Rops d2 d2)) = false ->
  g_det2 Rops d1 d2 <> 0.
Proof.
  intros He G Z0. rewrite Z0 in G. cbn [Rops oleb omul] in G. unfold Rleb in G.
  destruct (Rle_dec _ _) as [L|L]; [discriminate|]. apply L.
  destruct d1 as [a b], d2 as [c d]. unfold dot2. cbn [Rops oadd omul fst snd].
  assert (0 <= a * a + b * b) by nra. assert (0 <= c * c + d * d) by nra.
  assert (0 <= eps * (a * a + b * b)) by nra. nra.
Qed.

Lemma eps_pos : 0 < odiv Rops (oZ Rops 1) (oZ Rops 1000000000000000000000000).
Proof. rewrite !oZ_IZR. cbn [Rops odiv]. apply Rdiv_lt_0_compat; [lra|apply IZR_lt; reflexivity]. Qed.

(* ---------------------------------------------------------------- the 2D intersection of the two bisectors *)
Lemma bisectors_2d (x1 y1 x2 y2 x3 y3 sx sy : R) :
  let q1 := (x1, y1) in let q2 := (x2, y2) in let q3 := (x3, y3) in
  let p1 := wdiv Rops (wadd Rops q1 q2) (oZ Rops 2) in
  let p2 := wdiv Rops (wadd Rops q1 q3) (oZ Rops 2) in
  let d1 := wsub Rops q2 q1 in let d2 := wsub Rops q3 q1 in
  let d1' := (snd d1, 0 - fst d1) in let d2' := (snd d2, 0 - fst d2) in
  g_intersect_2lines2D Rops p1 d1' p2 d2' = Some (sx, sy) ->
  (sx - x1) * (sx - x1) + (sy - y1) * (sy - y1) = (sx - x2) * (sx - x2) + (sy - y2) * (sy - y2) /\
  (sx - x1) * (sx - x1) + (sy - y1) * (sy - y1) = (sx - x3) * (sx - x3) + (sy - y3) * (sy - y3).
Proof.
  cbv zeta. unfold g_intersect_2lines2D.
  destruct (oleb Rops _ _) eqn:G; [discriminate|].
  intros E. inversion E as [[Ex Ey]]. clear E.
  apply (guard_det _ _ _ eps_pos) in G. rename G into D.
  unfold g_det2, wsub, wadd, wdiv, wscale, dot2 in *. unfR. cbn [fst snd] in *.
  subst sx sy. split; field; lra.
Qed.

(* ---------------------------------------------------------------- the theorem *)
Theorem circumcenter_equidistant (A B C c : V3) :
  0 < n2 (cross (B -v A) (C -v A)) ->
  g_circumcenter Rops A B C = Some c ->
  n2 (c -v A) = n2 (c -v B) /\ n2 (c -v A) = n2 (c -v C) /\
  dotR (cross (B -v A) (C -v A)) (c -v A) = 0.
Proof.
  intros ND E. unfold g_circumcenter in E.
  pose proof (XX A B C ND) as HXX. pose proof (YY A B C ND) as HYY. pose proof (ZZ A B C ND) as HZZ.
  pose proof (XY A B C ND) as HXY. pose proof (XZ A B C ND) as HXZ. pose proof (YZ A B C ND) as HYZ.
  pose proof (Z_height_B A B C ND) as HB. pose proof (Z_height_C A B C ND) as HC.
  pose proof (Z_parallel A B C ND) as ZP.
  destruct (g_face_basis Rops A B C) as [[X Y] Z] eqn:FB. cbn [fst snd] in *. cbv zeta in E.
  destruct (g_intersect_2lines2D Rops _ _ _ _) as [[sx sy]|] eqn:I; [|discriminate].
  assert (Ec : c = combo X Y Z sx sy (dotR Z A)) by (injection E as <-; reflexivity).
  clear E. apply bisectors_2d in I as [I2 I3]. subst c.
  rewrite (combo_dist X Y Z HXX HYY HZZ HXY HXZ HYZ sx sy (dotR Z A) A eq_refl).
  rewrite (combo_dist X Y Z HXX HYY HZZ HXY HXZ HYZ sx sy (dotR Z A) B HB).
  rewrite (combo_dist X Y Z HXX HYY HZZ HXY HXZ HYZ sx sy (dotR Z A) C HC).
  split; [exact I2|]. split; [exact I3|].
  (* in-plane: (c - A) has no Z component and the face normal is parallel to Z *)
  assert (ZC : dotR Z (combo X Y Z sx sy (dotR Z A) -v A) = 0).
  { rewrite dot_sub_r. destruct (combo_dots X Y Z HXX HYY HZZ HXY HXZ HYZ sx sy (dotR Z A)) as (_ & _ & ->). ring. }
  rewrite ZP, ZC. ring.
Qed.

(* ---------------------------------------------------------------- the circumcentre moves with the triangle *)
Definition omap {A B} (f : A -> B) (x : option A) : option B := match x with Some a => Some (f a) | None => None end.

Lemma dot_add_r (a b c : V3) : dotR a (b +v c) = dotR a b + dotR a c.
Proof. dvec a. dvec b. dvec c. unfR. ring. Qed.

Lemma face_basis_rigid (Q : rotation) (t A B C : V3) :
  g_face_basis Rops (rigid Q t A) (rigid Q t B) (rigid Q t C)
  = (rot Q (fst (fst (g_face_basis Rops A B C))), rot Q (snd (fst (g_face_basis Rops A B C))), rot Q (snd (g_face_basis Rops A B C))).
Proof.
  unfold g_face_basis. cbv zeta. cbn [fst snd].
  rewrite !rigid_sub, !normalized_rot, !cross_rot, !normalized_rot, !cross_rot, !normalized_rot. reflexivity.
Qed.

Theorem circumcenter_rigid (Q : rotation) (t A B C : V3) :
  0 < n2 (cross (B -v A) (C -v A)) ->
  g_circumcenter Rops (rigid Q t A) (rigid Q t B) (rigid Q t C) = omap (rigid Q t) (g_circumcenter Rops A B C).
Proof.
  intros ND. unfold g_circumcenter. rewrite face_basis_rigid.
  pose proof (XX A B C ND) as HXX. pose proof (YY A B C ND) as HYY. pose proof (ZZ A B C ND) as HZZ.
  pose proof (XY A B C ND) as HXY. pose proof (XZ A B C ND) as HXZ. pose proof (YZ A B C ND) as HYZ.
  destruct (g_face_basis Rops A B C) as [[X Y] Z]. cbn [fst snd] in *. cbv zeta.
  (* the projected points are shifted by the constant (a, b) = (RX.t, RY.t); the directions are unchanged *)
  set (a := dotR (rot Q X) t). set (b := dotR (rot Q Y) t). set (c0 := dotR (rot Q Z) t).
  assert (PX : forall v, dotR (rot Q X) (rigid Q t v) = dotR X v + a) by (intros; unfold rigid; now rewrite dot_add_r, dot_rot).
  assert (PY : forall v, dotR (rot Q Y) (rigid Q t v) = dotR Y v + b) by (intros; unfold rigid; now rewrite dot_add_r, dot_rot).
  assert (PZ : forall v, dotR (rot Q Z) (rigid Q t v) = dotR Z v + c0) by (intros; unfold rigid; now rewrite dot_add_r, dot_rot).
  rewrite !PX, !PY, !PZ.
  set (x1 := dotR X A). set (y1 := dotR Y A). set (x2 := dotR X B). set (y2 := dotR Y B). set (x3 := dotR X C). set (y3 := dotR Y C).
  set (h := dotR Z A).
  (* the 2D intersection is shifted by (a, b) *)
  assert (I : g_intersect_2lines2D Rops
                (wdiv Rops (wadd Rops (x1 + a, y1 + b) (x2 + a, y2 + b)) (oZ Rops 2))
                (snd (wsub Rops (x2 + a, y2 + b) (x1 + a, y1 + b)), osub Rops (o0 Rops) (fst (wsub Rops (x2 + a, y2 + b) (x1 + a, y1 + b))))
                (wdiv Rops (wadd Rops (x1 + a, y1 + b) (x3 + a, y3 + b)) (oZ Rops 2))
                (snd (wsub Rops (x3 + a, y3 + b) (x1 + a, y1 + b)), osub Rops (o0 Rops) (fst (wsub Rops (x3 + a, y3 + b) (x1 + a, y1 + b))))
              = omap (fun S : R * R => (fst S + a, snd S + b))
                  (g_intersect_2lines2D Rops
                    (wdiv Rops (wadd Rops (x1, y1) (x2, y2)) (oZ Rops 2))
                    (snd (wsub Rops (x2, y2) (x1, y1)), osub Rops (o0 Rops) (fst (wsub Rops (x2, y2) (x1, y1))))
                    (wdiv Rops (wadd Rops (x1, y1) (x3, y3)) (oZ Rops 2))
                    (snd (wsub Rops (x3, y3) (x1, y1)), osub Rops (o0 Rops) (fst (wsub Rops (x3, y3) (x1, y1)))))).
  { unfold g_intersect_2lines2D.
    replace (wsub Rops (x2 + a, y2 + b) (x1 + a, y1 + b)) with (wsub Rops (x2, y2) (x1, y1))
      by (unfold wsub; cbn [Rops osub fst snd]; f_equal; ring).
    replace (wsub Rops (x3 + a, y3 + b) (x1 + a, y1 + b)) with (wsub Rops (x3, y3) (x1, y1))
      by (unfold wsub; cbn [Rops osub fst snd]; f_equal; ring).
    cbv zeta. destruct (oleb Rops _ _) eqn:G; [reflexivity|]. cbn [omap]. f_equal.
    apply (guard_det _ _ _ eps_pos) in G. rename G into D.
    unfold g_det2, wsub, wadd, wdiv, wscale, dot2 in *. unfR. cbn [fst snd] in *.
    f_equal; field; lra. }
  unfold osub, o0 in I. cbn [Rops] in I. cbn [Rops osub o0]. rewrite I. clear I.
  destruct (g_intersect_2lines2D Rops _ _ _ _) as [[sx sy]|]; [|reflexivity]. cbn [omap fst snd]. f_equal.
  (* R (X sx + Y sy + Z h) + (RX a + RY b + RZ c0) and the bracket is t by completeness of the rotated frame *)
  assert (RXX : dotR (rot Q X) (rot Q X) = 1) by now rewrite dot_rot.
  assert (RYY : dotR (rot Q Y) (rot Q Y) = 1) by now rewrite dot_rot.
  assert (RZZ : dotR (rot Q Z) (rot Q Z) = 1) by now rewrite dot_rot.
  assert (RXY : dotR (rot Q X) (rot Q Y) = 0) by now rewrite dot_rot.
  assert (RXZ : dotR (rot Q X) (rot Q Z) = 0) by now rewrite dot_rot.
  assert (RYZ : dotR (rot Q Y) (rot Q Z) = 0) by now rewrite dot_rot.
  pose proof (frame_complete (rot Q X) (rot Q Y) (rot Q Z) RXX RYY RZZ RXY RXZ RYZ t) as FC. fold a b c0 in FC.
  unfold rigid. rewrite <- FC at 1. unfold combo. rewrite !rot_add, !rot_vscale.
  generalize (rot Q X) (rot Q Y) (rot Q Z). intros U V W. dvec U. dvec V. dvec W. unfR. apply vec_eq3; ring.
Qed.

Lemma face_circumcenter_rigid (Q : rotation) (t : V3) (m : mesh R) : wf_mesh m ->
  (forall F, In F (faces m) ->
     0 < n2 (cross (P Rops m (znth F 1 0%Z) -v P Rops m (znth F 0 0%Z)) (P Rops m (znth F 2 0%Z) -v P Rops m (znth F 0 0%Z)))) ->
  face_circumcenter Rops (map_mesh (rigid Q t) m) = map (omap (rigid Q t)) (face_circumcenter Rops m).
Proof.
  intros WF ND. unfold face_circumcenter. cbn [faces map_mesh]. rewrite map_map. apply map_ext_in. intros F HF.
  destruct (wf_faces m WF F HF) as [L _].
  rewrite !(P_map (rigid Q t) m) by (apply (face_vertex_rng m WF); [assumption|Lia.lia]).
  apply circumcenter_rigid, ND, HF.
Qed.

(* ---------------------------------------------------------------- the circumcentre scales with the triangle *)
Lemma Rleb_scale (k x y : R) : 0 < k -> Rleb (k * x) (k * y) = Rleb x y.
Proof.
  intros Hk. unfold Rleb. destruct (Rle_dec (k * x) (k * y)) as [L|L], (Rle_dec x y) as [M|M]; try reflexivity; exfalso.
  - apply M. apply Rmult_le_reg_l with k; assumption.
  - apply L. apply Rmult_le_compat_l; lra.
Qed.

Lemma cross_scl_r (s : R) (a b : V3) : cross a (scl s b) = scl s (cross a b).
Proof. dvec a. dvec b. unfold scl. unfR. apply vec_eq3; ring. Qed.

Lemma face_basis_scale (s : R) (A B C : V3) : 0 < s -> 0 < n2 (cross (B -v A) (C -v A)) ->
  g_face_basis Rops (scl s A) (scl s B) (scl s C) = g_face_basis Rops A B C.
Proof.
  intros Hs ND. unfold g_face_basis. cbv zeta. rewrite !scl_sub.
  rewrite (normalized_scl s Hs (B -v A)) by (apply (u_pos A B C ND)).
  rewrite cross_scl_r. rewrite (normalized_scl s Hs) by (apply (Xw_pos A B C ND)). reflexivity.
Qed.

Lemma intersect_scale (s x1 y1 x2 y2 x3 y3 : R) : 0 < s ->
  g_intersect_2lines2D Rops
    (wdiv Rops (wadd Rops (s * x1, s * y1) (s * x2, s * y2)) (oZ Rops 2))
    (snd (wsub Rops (s * x2, s * y2) (s * x1, s * y1)), osub Rops (o0 Rops) (fst (wsub Rops (s * x2, s * y2) (s * x1, s * y1))))
    (wdiv Rops (wadd Rops (s * x1, s * y1) (s * x3, s * y3)) (oZ Rops 2))
    (snd (wsub Rops (s * x3, s * y3) (s * x1, s * y1)), osub Rops (o0 Rops) (fst (wsub Rops (s * x3, s * y3) (s * x1, s * y1))))
  = omap (fun S : R * R => (s * fst S, s * snd S))
      (g_intersect_2lines2D Rops
        (wdiv Rops (wadd Rops (x1, y1) (x2, y2)) (oZ Rops 2))
        (snd (wsub Rops (x2, y2) (x1, y1)), osub Rops (o0 Rops) (fst (wsub Rops (x2, y2) (x1, y1))))
        (wdiv Rops (wadd Rops (x1, y1) (x3, y3)) (oZ Rops 2))
        (snd (wsub Rops (x3, y3) (x1, y1)), osub Rops (o0 Rops) (fst (wsub Rops (x3, y3) (x1, y1))))).
Proof.
  intros Hs. unfold g_intersect_2lines2D. cbv zeta.
  set (d1 := (snd (wsub Rops (x2, y2) (x1, y1)), osub Rops (o0 Rops) (fst (wsub Rops (x2, y2) (x1, y1))))).
  set (d2 := (snd (wsub Rops (x3, y3) (x1, y1)), osub Rops (o0 Rops) (fst (wsub Rops (x3, y3) (x1, y1))))).
  set (d1s := (snd (wsub Rops (s * x2, s * y2) (s * x1, s * y1)), osub Rops (o0 Rops) (fst (wsub Rops (s * x2, s * y2) (s * x1, s * y1))))).
  set (d2s := (snd (wsub Rops (s * x3, s * y3) (s * x1, s * y1)), osub Rops (o0 Rops) (fst (wsub Rops (s * x3, s * y3) (s * x1, s * y1))))).
  set (eps := odiv Rops (oZ Rops 1) (oZ Rops 1000000000000000000000000)).
  assert (G : oleb Rops (omul Rops (g_det2 Rops d1s d2s) (g_det2 Rops d1s d2s)) (omul Rops (omul Rops eps (dot2 Rops d1s d1s)) (dot2 Rops d2s d2s))
            = oleb Rops (omul Rops (g_det2 Rops d1 d2) (g_det2 Rops d1 d2)) (omul Rops (omul Rops eps (dot2 Rops d1 d1)) (dot2 Rops d2 d2))).
  { cbn [Rops oleb omul].
    match goal with |- Rleb ?a ?b = Rleb ?c ?d =>
      rewrite <- (Rleb_scale (s * s * s * s) c d) by (repeat apply Rmult_lt_0_compat; assumption) end.
    f_equal; unfold d1, d2, d1s, d2s, g_det2, dot2, wsub; cbn [Rops osub omul oadd o0 fst snd]; ring. }
  rewrite G. clear G.
  destruct (oleb Rops (omul Rops (g_det2 Rops d1 d2) (g_det2 Rops d1 d2)) (omul Rops (omul Rops eps (dot2 Rops d1 d1)) (dot2 Rops d2 d2))) eqn:E;
    [reflexivity|]. cbn [omap]. f_equal.
  apply (guard_det _ _ _ eps_pos) in E.
  unfold d1, d2, d1s, d2s, g_det2, wsub, wadd, wdiv, wscale, dot2 in *. unfR. cbn [fst snd] in *.
  assert (S2 : s * s <> 0) by nra.
  f_equal; field; (split; [lra|]);
    match goal with |- ?x <> 0 =>
      replace x with (s * s * ((y2 - y1) * (0 - (x3 - x1)) - (0 - (x2 - x1)) * (y3 - y1))) by ring;
      apply Rmult_integral_contrapositive_currified; [exact S2|exact E] end.
Qed.

Theorem circumcenter_scale (s : R) (A B C : V3) : 0 < s -> 0 < n2 (cross (B -v A) (C -v A)) ->
  g_circumcenter Rops (scl s A) (scl s B) (scl s C) = omap (scl s) (g_circumcenter Rops A B C).
Proof.
  intros Hs ND. unfold g_circumcenter. rewrite face_basis_scale by assumption.
  destruct (g_face_basis Rops A B C) as [[X Y] Z]. cbv zeta.
  assert (D : forall U v, dotR U (scl s v) = s * dotR U v) by (intros U v; dvec U; dvec v; unfold scl; unfR; ring).
  rewrite !D. rewrite intersect_scale by assumption.
  destruct (g_intersect_2lines2D Rops _ _ _ _) as [[sx sy]|]; [|reflexivity]. cbn [omap fst snd]. f_equal.
  dvec X. dvec Y. dvec Z. unfold scl. unfR. apply vec_eq3; ring.
Qed.

Lemma face_circumcenter_scale (s : R) (m : mesh R) : 0 < s -> wf_mesh m ->
  (forall F, In F (faces m) ->
     0 < n2 (cross (P Rops m (znth F 1 0%Z) -v P Rops m (znth F 0 0%Z)) (P Rops m (znth F 2 0%Z) -v P Rops m (znth F 0 0%Z)))) ->
  face_circumcenter Rops (map_mesh (scl s) m) = map (omap (scl s)) (face_circumcenter Rops m).
Proof.
  intros Hs WF ND. unfold face_circumcenter. cbn [faces map_mesh]. rewrite map_map. apply map_ext_in. intros F HF.
  destruct (wf_faces m WF F HF) as [L _].
  rewrite !(P_map (scl s) m) by (apply (face_vertex_rng m WF); [assumption|Lia.lia]).
  apply circumcenter_scale; [assumption|apply ND, HF].
Qed.
