(* C07 - renumbering, assembled: vertex normals under vertex renaming; the generic face-permutation theorem
   instantiated for scalar (R, +) and vector (R^3, +) attributes. *)
From Coq Require Import ZArith List Bool Reals Lra Lia ZifyBool Permutation.
Require Import MV.Lib.Base MV.C07.Model MV.C07.Gen MV.C07.Mesh MV.C07.Proofs_Base MV.C07.Proofs_Rigid MV.C07.Proofs_MeshRigid
  MV.C07.Proofs_Renum MV.C07.Proofs_Keyed MV.C07.Proofs_RenumV MV.C07.Proofs_FacePerm MV.C07.Proofs_FanRot.
Import ListNotations.
Open Scope R_scope.

Lemma vadd_c3 (a x y : V3) : a +v x +v y = a +v y +v x.
Proof. dvec a. dvec x. dvec y. unfR. apply vec_eq3; ring. Qed.
Lemma oadd_c3_R (a x y : R) : oadd Rops (oadd Rops a x) y = oadd Rops (oadd Rops a y) x.
Proof. cbn [Rops oadd]. ring. Qed.

(* faces->vertices interpolation of a scalar / vector attribute: invariant under rotating each face's vertex list and
   permuting the face list (values, area weights and angle weights carried along with the faces) *)
Definition f2v_face_perm_scalar := @f2v_face_perm R Rops R 0 Rplus (smul_l Rops) Rdiv Rplus_c3 oadd_c3_R.
Definition f2v_face_perm_vector := @f2v_face_perm R Rops V3 (vzero Rops) (vadd Rops) (vscale Rops) (vdiv Rops) vadd_c3 oadd_c3_R.

Section VN.
Variable m m' : mesh R.
Variable sigma : Z -> Z.
Let nV := zlen (verts m).
Hypothesis WF : wf_mesh m.
Hypothesis LEN : zlen (verts m') = nV.
Hypothesis INJ : forall u v, (0 <= u < nV)%Z -> (0 <= v < nV)%Z -> sigma u = sigma v -> u = v.
Hypothesis MAPS : forall v, (0 <= v < nV)%Z -> (0 <= sigma v < nV)%Z.
Hypothesis PTS : forall v, in_rng m v -> P Rops m' (sigma v) = P Rops m v.
Hypothesis FACES : faces m' = map (map sigma) (faces m).

Lemma zlen_f2v {A} (az : A) aa asc ad w ar an (mm : mesh R) fa :
  zlen (interpolate_faces_to_vertices Rops az aa asc ad w ar an mm fa) = zlen (verts mm).
Proof.
  unfold interpolate_faces_to_vertices. cbv zeta. rewrite zlen_map. apply zlen_zrange. unfold zlen. lia.
Qed.

Lemma vertex_normals_rename (w : weighting) (ang : list R) (v : Z) : (0 <= v < nV)%Z ->
  znth (vertex_normals Rops w ang m') (sigma v) (vzero Rops) = znth (vertex_normals Rops w ang m) v (vzero Rops).
Proof.
  intros Hv. pose proof (MAPS v Hv) as Hs. unfold vertex_normals.
  assert (FR : forall F, In F (faces m) -> forall u, In u F -> (0 <= u < nV)%Z) by (intros F HF; apply (wf_faces m WF F HF)).
  assert (FA : face_area Rops m' = face_area Rops m).
  { unfold face_area. rewrite FACES, map_map. apply map_ext_in. intros F HF.
    unfold pts_of. rewrite map_map. f_equal. apply map_ext_in. intros u Hu. apply PTS, (FR F HF u Hu). }
  assert (FN : face_normals Rops m' = face_normals Rops m).
  { unfold face_normals. rewrite FACES, map_map. apply map_ext_in. intros F HF. destruct (wf_faces m WF F HF) as [L _].
    rewrite !(znth_map_in sigma F _ 0%Z) by lia. rewrite !PTS by (apply (face_vertex_rng m WF); [assumption|lia]). reflexivity. }
  rewrite FA, FN.
  rewrite !(znth_map_in (g_vertex_normal_finish Rops) _ _ (vzero Rops)) by (rewrite zlen_f2v, ?LEN; assumption).
  f_equal. eapply f2v_rename; eauto.
Qed.
End VN.

(* edges stored in either orientation: lengths and midpoints are symmetric *)
Lemma distance_symm (A B : V3) : g_distance Rops A B = g_distance Rops B A.
Proof. rewrite !distance_def. f_equal. ring. Qed.
Lemma edge_middle_symm (A B : V3) : g_edge_middle Rops A B = g_edge_middle Rops B A.
Proof. rewrite !edge_middle_def. apply vec_eq3; field. Qed.

Section EdgesSw.
Variable m m' : mesh R.
Variable sigma : Z -> Z.
Variable sw : Z * Z -> bool.
Hypothesis WF : wf_mesh m.
Hypothesis PTS : forall v, in_rng m v -> P Rops m' (sigma v) = P Rops m v.
Hypothesis EDGES : edges m' = map (fun e => if sw e then (sigma (snd e), sigma (fst e)) else (sigma (fst e), sigma (snd e))) (edges m).

Lemma edge_length_renum_sw : edge_length Rops m' = edge_length Rops m.
Proof.
  unfold edge_length. rewrite EDGES, map_map. apply map_ext_in. intros e He. destruct (wf_edges m WF e He) as [H1 H2].
  destruct (sw e); cbn [fst snd]; rewrite !PTS by assumption; unfold g_edge_length; [apply distance_symm|reflexivity].
Qed.
Lemma edge_middle_point_renum_sw : edge_middle_point Rops m' = edge_middle_point Rops m.
Proof.
  unfold edge_middle_point. rewrite EDGES, map_map. apply map_ext_in. intros e He. destruct (wf_edges m WF e He) as [H1 H2].
  destruct (sw e); cbn [fst snd]; rewrite !PTS by assumption; [apply edge_middle_symm|reflexivity].
Qed.
End EdgesSw.
