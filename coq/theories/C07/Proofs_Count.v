(* C07 - the two counting facts behind Gauss-Bonnet (DESIGN Appendix B7), proved for the model's own
   half-edge table, border-edge and border-vertex tests, from a checkable manifold condition:
     3F = 2 E_i + E_b      (every directed edge once, every edge has one or two half-edges)
     V_b = E_b             (every border vertex starts exactly one border half-edge and ends one)           *)
From Coq Require Import ZArith List Bool Lia Permutation.
Require Import MV.Lib.Base MV.C07.Model MV.C07.Gen MV.C07.Mesh.
Import ListNotations.
Open Scope Z_scope.

(* ---------------------------------------------------------------- pairs of integers *)
Lemma peqb_spec (a b : Z * Z) : peqb a b = true <-> a = b.
Proof.
  destruct a as [a1 a2], b as [b1 b2]. unfold peqb. cbn [fst snd]. rewrite andb_true_iff, !Z.eqb_eq.
  split; [intros [-> ->]; reflexivity|intros E; inversion E; auto].
Qed.
Lemma peqb_refl a : peqb a a = true.
Proof. now apply peqb_spec. Qed.
Lemma peqb_false (a b : Z * Z) : peqb a b = false <-> a <> b.
Proof. rewrite <- peqb_spec. destruct (peqb a b); split; congruence. Qed.

Lemma pmem_spec k l : pmem k l = true <-> In k l.
Proof.
  unfold pmem. rewrite existsb_exists. split.
  - intros [x [H E]]. apply peqb_spec in E. now subst.
  - intros H. exists k. split; [assumption|apply peqb_refl].
Qed.

Definition b2n (b : bool) : nat := if b then 1%nat else 0%nat.

Lemma swap_swap k : swap (swap k) = k.
Proof. destruct k; reflexivity. Qed.
Lemma ukey_swap k : ukey (swap k) = ukey k.
Proof. destruct k as [a b]. unfold ukey, swap. cbn [fst snd]. f_equal; lia. Qed.
Lemma ukey_eq (k e : Z * Z) : fst e < snd e -> (ukey k = e <-> k = e \/ k = swap e).
Proof.
  destruct k as [u v], e as [a b]. unfold ukey, swap. cbn [fst snd]. intros Hab. split.
  - intros E. inversion E. destruct (Z.le_ge_cases u v).
    + left. f_equal; lia.
    + right. f_equal; lia.
  - intros [E|E]; inversion E; subst; f_equal; lia.
Qed.

Lemma ukey_same (k k' : Z * Z) : ukey k' = ukey k -> k' = k \/ k' = swap k.
Proof.
  destruct k as [a b], k' as [c d]. unfold ukey, swap. cbn [fst snd]. intros E. inversion E.
  destruct (Z.le_ge_cases a b), (Z.le_ge_cases c d); [left|right|right|left]; f_equal; lia.
Qed.

(* ---------------------------------------------------------------- generic counting *)
Lemma list_sum_map_add {X} (a b : X -> nat) (l : list X) :
  list_sum (map (fun e => (a e + b e)%nat) l) = (list_sum (map a l) + list_sum (map b l))%nat.
Proof. unfold list_sum. induction l as [|x l IH]; cbn [map fold_right]; [reflexivity|]. rewrite IH. lia. Qed.

Lemma list_sum_cons (x : nat) (l : list nat) : list_sum (x :: l) = (x + list_sum l)%nat.
Proof. reflexivity. Qed.

Lemma count_one (k : Z * Z) (es : list (Z * Z)) :
  NoDup es -> In k es -> list_sum (map (fun e => b2n (peqb k e)) es) = 1%nat.
Proof.
  induction es as [|e es IH]; intros ND H; [destruct H|]. inversion ND as [|? ? Hn ND']; subst. cbn [map]. rewrite list_sum_cons.
  destruct H as [->|H].
  - rewrite peqb_refl. cbn [b2n].
    assert (Z0 : list_sum (map (fun e => b2n (peqb k e)) es) = 0%nat).
    { clear IH ND ND'. induction es as [|e es IH]; [reflexivity|]. cbn [map]. rewrite list_sum_cons.
      assert (peqb k e = false) by (apply peqb_false; intros ->; apply Hn; now left).
      rewrite H. cbn [b2n]. rewrite IH; [reflexivity|]. intros H'. apply Hn. now right. }
    rewrite Z0. reflexivity.
  - assert (peqb k e = false) by (apply peqb_false; intros ->; contradiction).
    rewrite H0. cbn [b2n]. rewrite IH by assumption. reflexivity.
Qed.

Lemma length_partition {X} (f : X -> Z * Z) (l : list X) (es : list (Z * Z)) :
  NoDup es -> (forall x, In x l -> In (f x) es) ->
  length l = list_sum (map (fun e => length (filter (fun x => peqb (f x) e) l)) es).
Proof.
  intros ND. induction l as [|x l IH]; intros H.
  - cbn [filter length]. clear ND H. induction es as [|e es IHe]; [reflexivity|]. cbn [map]. rewrite list_sum_cons. exact IHe.
  - rewrite (map_ext _ (fun e => (b2n (peqb (f x) e) + length (filter (fun x0 => peqb (f x0) e) l))%nat)).
    + rewrite list_sum_map_add, count_one by (try assumption; apply H; now left).
      rewrite <- IH by (intros; apply H; now right). reflexivity.
    + intros e. cbn [filter]. destruct (peqb (f x) e); reflexivity.
Qed.

Lemma count_two (P : Z * Z -> bool) (x y : Z * Z) (l : list (Z * Z)) :
  NoDup l -> x <> y -> (forall k, P k = true <-> k = x \/ k = y) ->
  length (filter P l) = (b2n (pmem x l) + b2n (pmem y l))%nat.
Proof.
  intros ND Hxy HP. induction l as [|k l IH]; [reflexivity|]. inversion ND as [|? ? Hn ND']; subst.
  cbn [filter pmem existsb]. fold (pmem x l) (pmem y l). specialize (IH ND').
  destruct (P k) eqn:Pk.
  - apply HP in Pk as [->| ->].
    + rewrite peqb_refl. cbn [orb b2n length].
      assert (pmem x l = false) by (destruct (pmem x l) eqn:E; [apply pmem_spec in E; contradiction|reflexivity]).
      assert (peqb y x = false) by (apply peqb_false; congruence).
      rewrite H0. cbn [orb]. rewrite IH, H. cbn [b2n]. lia.
    + rewrite peqb_refl. cbn [orb b2n length].
      assert (pmem y l = false) by (destruct (pmem y l) eqn:E; [apply pmem_spec in E; contradiction|reflexivity]).
      assert (peqb x y = false) by (apply peqb_false; congruence).
      rewrite H0. cbn [orb]. rewrite IH, H. cbn [b2n]. lia.
  - assert (peqb x k = false).
    { apply peqb_false. intros <-. assert (P x = true) by (apply HP; now left). congruence. }
    assert (peqb y k = false).
    { apply peqb_false. intros <-. assert (P y = true) by (apply HP; now right). congruence. }
    rewrite H, H0. cbn [orb]. exact IH.
Qed.

Lemma sum_one_or_two {X} (B : X -> bool) (l : list X) :
  (list_sum (map (fun e => if B e then 1%nat else 2%nat) l) + length (filter B l) = 2 * length l)%nat.
Proof. induction l as [|x l IH]; [reflexivity|]. cbn [map filter]. rewrite list_sum_cons. destruct (B x); cbn [length]; lia. Qed.

Lemma count_true_map {X} (f : X -> bool) (l : list X) :
  length (filter (fun b : bool => b) (map f l)) = length (filter f l).
Proof. induction l as [|x l IH]; [reflexivity|]. cbn [map filter]. destruct (f x); cbn [length]; now rewrite IH. Qed.

(* ---------------------------------------------------------------- the model's half-edge table *)

Lemma direct_face_some (hes : list ((Z * Z) * (Z * Z * Z))) (u v : Z) :
  is_some (direct_face hes u v) = pmem (u, v) (map fst hes).
Proof.
  unfold direct_face.
  assert (G : forall acc, is_some (fold_left (fun acc h => if (fst (fst h) =? u) && (snd (fst h) =? v) then Some (snd h) else acc) hes acc)
                          = is_some acc || pmem (u, v) (map fst hes)).
  { induction hes as [|h hes IH]; intros acc; cbn [fold_left map pmem existsb].
    - now rewrite orb_false_r.
    - rewrite IH. fold (pmem (u, v) (map fst hes)). unfold peqb at 1. cbn [fst snd].
      rewrite (Z.eqb_sym u), (Z.eqb_sym v).
      destruct ((fst (fst h) =? u) && (snd (fst h) =? v)); cbn [is_some orb]; [now destruct (is_some acc)|reflexivity]. }
  rewrite G. reflexivity.
Qed.

Lemma keys_length_triangles (fs : list (list Z)) :
  (forall F, In F fs -> zlen F = 3) -> length (keys fs) = (3 * length fs)%nat.
Proof.
  intros H. unfold keys, half_edges, enumerate. rewrite map_length.
  match goal with |- length (flat_map ?G (enum_from 0 fs)) = _ => set (g := G) end.
  assert (L : forall s, length (flat_map g (enum_from s fs)) = (3 * length fs)%nat); [|apply L].
  induction fs as [|F fs' IH]; intros s; [reflexivity|].
  cbn [enum_from flat_map]. rewrite app_length. unfold g at 1. rewrite map_length, zrange_length. cbn [snd].
  rewrite IH by (intros; apply H; now right). pose proof (H F (or_introl eq_refl)). cbn [length]. lia.
Qed.

(* ---------------------------------------------------------------- manifold condition and the two counts *)
Section Count.
Variable fs : list (list Z).
Variable es : list (Z * Z).
Variable nV : nat.
Notation hes := (half_edges fs).
Notation K := (keys fs).

Notation BH := (border_half_edges fs).

Record manifold : Prop := mkmanifold {
  mf_tri : forall F, In F fs -> zlen F = 3;
  mf_nodup : NoDup K;                                        (* every directed edge at most once (oriented) *)
  mf_proper : forall k, In k K -> fst k <> snd k;
  mf_rng : forall k, In k K -> 0 <= fst k < Z.of_nat nV;
  mf_edges_nodup : NoDup es;
  mf_edges_sorted : forall e, In e es -> fst e < snd e;
  mf_edges_cover : forall e, In e es <-> exists k, In k K /\ ukey k = e;   (* mesh.edges = the edges of the faces *)
  mf_border_out : NoDup (map fst BH);                         (* a vertex starts at most one border half-edge *)
  mf_border_loop : forall k, In k BH -> exists k', In k' BH /\ fst k' = snd k   (* border half-edges chain up *)
}.

Hypothesis M : manifold.

Lemma edge_on_border_spec (e : Z * Z) :
  edge_on_border hes e = negb (pmem e K) || negb (pmem (swap e) K).
Proof. unfold edge_on_border. rewrite !direct_face_some. destruct e; reflexivity. Qed.

Lemma edge_present (e : Z * Z) : In e es -> pmem e K = true \/ pmem (swap e) K = true.
Proof.
  intros He. pose proof (mf_edges_sorted M e He) as Hs. apply (mf_edges_cover M) in He as [k [Hk E]].
  apply ukey_eq in E as [-> | ->]; [left|right|assumption]; now apply pmem_spec.
Qed.

Lemma edge_count (e : Z * Z) : In e es ->
  length (filter (fun k => peqb (ukey k) e) K) = if edge_on_border hes e then 1%nat else 2%nat.
Proof.
  intros He. pose proof (mf_edges_sorted M e He) as Hs.
  rewrite (count_two _ e (swap e)); [|apply (mf_nodup M)| |].
  - rewrite edge_on_border_spec. pose proof (edge_present e He) as H.
    destruct (pmem e K), (pmem (swap e) K); cbn; try reflexivity. destruct H; discriminate.
  - destruct e as [a b]. unfold swap. cbn [fst snd] in *. intros E. inversion E. lia.
  - intros k. rewrite peqb_spec. now apply ukey_eq.
Qed.

(* 3F = 2 E_i + E_b *)
Lemma count_half_edges :
  (3 * length fs + length (filter (edge_on_border hes) es) = 2 * length es)%nat.
Proof.
  rewrite <- (keys_length_triangles fs (mf_tri M)).
  rewrite (length_partition ukey K es (mf_edges_nodup M)).
  - rewrite (map_ext_in _ (fun e => if edge_on_border hes e then 1%nat else 2%nat)) by (intros; now apply edge_count).
    apply sum_one_or_two.
  - intros k Hk. apply (mf_edges_cover M). exists k. split; [assumption|reflexivity].
Qed.

(* border half-edges <-> border edges *)
Lemma BH_spec k : In k BH <-> In k K /\ ~ In (swap k) K.
Proof.
  unfold border_half_edges. rewrite filter_In, negb_true_iff. split; intros [H1 H2]; split; try assumption.
  - intros H. apply pmem_spec in H. congruence.
  - destruct (pmem (swap k) K) eqn:E; [apply pmem_spec in E; contradiction|reflexivity].
Qed.

Lemma border_edge_iff (e : Z * Z) : In e es ->
  (edge_on_border hes e = true <-> exists k, In k BH /\ ukey k = e).
Proof.
  intros He. pose proof (mf_edges_sorted M e He) as Hs. rewrite edge_on_border_spec, orb_true_iff, !negb_true_iff. split.
  - intros [H|H]; destruct (edge_present e He) as [H'|H']; try congruence.
    + exists (swap e). split; [|now rewrite ukey_swap; apply ukey_eq; auto].
      apply BH_spec. rewrite swap_swap. split; [now apply pmem_spec|]. intros C. apply pmem_spec in C. congruence.
    + exists e. split; [|apply ukey_eq; auto].
      apply BH_spec. split; [now apply pmem_spec|]. intros C. apply pmem_spec in C. congruence.
  - intros [k [Hk E]]. apply BH_spec in Hk as [H1 H2]. apply ukey_eq in E as [-> | ->]; [|rewrite swap_swap in H2|assumption].
    + right. destruct (pmem (swap e) K) eqn:C; [apply pmem_spec in C; contradiction|reflexivity].
    + left. destruct (pmem e K) eqn:C; [apply pmem_spec in C; contradiction|reflexivity].
Qed.

Lemma NoDup_filter {X} (f : X -> bool) (l : list X) : NoDup l -> NoDup (filter f l).
Proof.
  induction l as [|x l IH]; intros H; [constructor|]. inversion H; subst. cbn [filter].
  destruct (f x); [constructor; [rewrite filter_In; tauto|auto]|auto].
Qed.

Lemma BH_nodup : NoDup BH.
Proof. apply NoDup_filter, (mf_nodup M). Qed.

Lemma ukey_BH_nodup : NoDup (map ukey BH).
Proof.
  assert (G : forall l, NoDup l -> (forall k, In k l -> In k BH) -> NoDup (map ukey l)).
  { induction l as [|k l IH]; intros ND H; [constructor|]. inversion ND; subst. cbn [map]. constructor.
    - intros C. apply in_map_iff in C as [k' [E Hk']].
      assert (Bk : In k BH) by (apply H; now left). assert (Bk' : In k' BH) by (apply H; now right).
      apply BH_spec in Bk as [K1 K2]. apply BH_spec in Bk' as [K1' K2'].
      apply ukey_same in E as [E|E]; subst k'; contradiction.
    - apply IH; [assumption|]. intros. apply H. now right. }
  apply G; [apply BH_nodup|auto].
Qed.

(* E_b = number of border half-edges *)
Lemma border_edges_count : length (filter (edge_on_border hes) es) = length BH.
Proof.
  rewrite <- (map_length ukey BH). apply Permutation_length, NoDup_Permutation.
  - apply NoDup_filter, (mf_edges_nodup M).
  - apply ukey_BH_nodup.
  - intros e. rewrite filter_In, in_map_iff. split.
    + intros [He Hb]. apply (border_edge_iff e He) in Hb as [k [Hk E]]. exists k. auto.
    + intros [k [E Hk]]. assert (He : In e es).
      { apply (mf_edges_cover M). exists k. split; [|assumption]. now apply BH_spec in Hk. }
      split; [assumption|]. apply (border_edge_iff e He). exists k. auto.
Qed.

(* V_b = number of border half-edges *)
Lemma border_vertex_iff (v : Z) : vertex_on_border hes es v = true <-> exists k, In k BH /\ fst k = v.
Proof.
  unfold vertex_on_border. rewrite existsb_exists. split.
  - intros [e [He H]]. apply andb_true_iff in H as [Hv Hb]. apply (border_edge_iff e He) in Hb as [k [Hk E]].
    pose proof (mf_edges_sorted M e He) as Hs.
    assert (Hk' : fst k = v \/ snd k = v).
    { apply ukey_eq in E as [-> | ->]; [| |assumption]; unfold swap; cbn [fst snd];
        apply orb_true_iff in Hv as [Hv|Hv]; apply Z.eqb_eq in Hv; auto. }
    destruct Hk' as [Hk'|Hk']; [exists k; auto|].
    destruct (mf_border_loop M k Hk) as [k' [H1 H2]]. exists k'. split; [assumption|congruence].
  - intros [k [Hk Hv]]. exists (ukey k).
    assert (He : In (ukey k) es) by (apply (mf_edges_cover M); exists k; split; [now apply BH_spec in Hk|reflexivity]).
    split; [assumption|]. apply andb_true_iff. split.
    + unfold ukey. cbn [fst snd]. apply orb_true_iff. subst v.
      destruct (Z.le_ge_cases (fst k) (snd k)); [left|right]; apply Z.eqb_eq; lia.
    + apply (border_edge_iff _ He). exists k. auto.
Qed.

Lemma border_vertices_count :
  length (filter (fun v => vertex_on_border hes es v) (zrange (Z.of_nat nV))) = length BH.
Proof.
  rewrite <- (map_length fst BH). apply Permutation_length, NoDup_Permutation.
  - apply NoDup_filter, NoDup_zrange.
  - apply (mf_border_out M).
  - intros v. rewrite filter_In, in_map_iff, In_zrange. split.
    + intros [_ Hb]. apply border_vertex_iff in Hb as [k [Hk E]]. exists k. auto.
    + intros [k [E Hk]]. split.
      * subst v. apply (mf_rng M). now apply BH_spec in Hk.
      * apply border_vertex_iff. exists k. auto.
Qed.

(* V_b = E_b *)
Lemma border_vertices_edges :
  length (filter (fun v => vertex_on_border hes es v) (zrange (Z.of_nat nV))) = length (filter (edge_on_border hes) es).
Proof. now rewrite border_vertices_count, border_edges_count. Qed.
End Count.
