(* C02 - executable model of RawMeshData.prepare, class selection, re-wrapping and from_arrays
   (mouette/mesh/mesh_data.py, mesh.py, datatypes/base.py, data_container.py).  NO proofs here.
   Every decision expression, table, guard and the order of the steps come from Gen.v (regenerated from /repo). *)
From Coq Require Import ZArith List Bool.
Import ListNotations.
Require Import MV.Lib.Base MV.C02.Defs MV.C02.Gen.
Open Scope Z_scope.

Definition zlen {A} (l : list A) : Z := Z.of_nat (length l).

(* ---------------------------------------------------------------- data *)
Definition edge := (Z * Z)%type.
Definition edge_eqb (x y : edge) : bool := (fst x =? fst y) && (snd x =? snd y).
Definition key_eqb (x y : list Z) : bool := list_eqb Z.eqb x y.

(* An attribute over integer values (bool as 0/1), one value per element:
   Sparse = Attribute (dict in insertion order, default), Dense = ArrayAttribute (one value per element, default) *)
Inductive attr := Sparse (dflt : Z) (ents : list (Z * Z)) | Dense (dflt : Z) (vals : list Z).

Definition attr_default (a : attr) : Z := match a with Sparse d _ => d | Dense d _ => d end.
Definition attr_dense (a : attr) : bool := match a with Sparse _ _ => false | Dense _ _ => true end.
Fixpoint assoc (k : Z) (l : list (Z * Z)) : option Z :=
  match l with [] => None | (k', v) :: t => if k =? k' then Some v else assoc k t end.
Definition attr_has (a : attr) (i : Z) : bool :=
  match a with Sparse _ e => match assoc i e with Some _ => true | None => false end | Dense _ _ => true end.
(* a[i] *)
Definition attr_get (a : attr) (i : Z) : Z :=
  match a with
  | Sparse d e => match assoc i e with Some v => v | None => d end
  | Dense d v => znth v i d
  end.
(* container.append: dense attributes grow by one default entry *)
Definition attr_expand (k : nat) (a : attr) : attr :=
  match a with Sparse d e => Sparse d e | Dense d v => Dense d (v ++ repeat d k) end.

(* attribute names are integer codes; 0 is "hard_edges" *)
Definition HARD : Z := 0.
Definition attrs := list (Z * attr).
Fixpoint attr_lookup (n : Z) (l : attrs) : option attr :=
  match l with [] => None | (m, a) :: t => if n =? m then Some a else attr_lookup n t end.

Record raw := mkRaw {
  vertices : list (list Z);
  edges : list edge; eattrs : attrs;
  faces : list (list Z); fc_elem : list Z; fc_adj : list Z;
  cells : list (list Z); cc_elem : list Z; cc_adj : list Z; cf_elem : list Z; cf_adj : list Z }.

Inductive err := EKey (* KeyError: a cell's face is not in the face container *)
               | EArr (* from_arrays raises *)
               | EBadCell (* a cell that is neither a tetrahedron nor a hexahedron: outside the model *)
               | ENoClass (* dim override outside 0..3: the source returns None *).
Inductive res (A : Type) := Ok (a : A) | Err (e : err).
Arguments Ok {A} a. Arguments Err {A} e.
Definition bind {A B} (x : res A) (f : A -> res B) : res B := match x with Ok a => f a | Err e => Err e end.

(* ---------------------------------------------------------------- keys *)
Definition kedge2 (a b : Z) : edge :=
  match keyify [a; b] with [x; y] => (x, y) | _ => (a, b) end.
Definition kedge (e : edge) : edge := kedge2 (fst e) (snd e).

(* items of `cands` whose key has not been seen yet, in order, each key once (the set + append idiom) *)
Fixpoint fresh {A K} (keq : K -> K -> bool) (key : A -> K) (seen : list K) (cands : list A) : list A :=
  match cands with
  | [] => []
  | c :: t => if existsb (keq (key c)) seen then fresh keq key seen t
              else c :: fresh keq key (key c :: seen) t
  end.

Definition nonempty {A} (l : list A) : bool := match l with [] => false | _ => true end.
Definition isnil {A} (l : list A) : bool := match l with [] => true | _ => false end.

(* ---------------------------------------------------------------- completion *)
Definition complete_faces_from_cells (r : raw) : raw :=
  if isnil (cells r) then r else
  let added := fresh key_eqb keyify (map keyify (faces r)) (flat_map cfc_cell_faces (cells r)) in
  mkRaw (vertices r) (edges r) (eattrs r) (faces r ++ added) (fc_elem r) (fc_adj r)
        (cells r) (cc_elem r) (cc_adj r) (cf_elem r) (cf_adj r).

Definition face_sides (f : list Z) : list edge :=
  let nf := zlen f in
  map (fun i => kedge2 (znth f (side_a i nf) 0) (znth f (side_b i nf) 0)) (zrange nf).

Definition hard_attr (ne : Z) : attr := Sparse 0 (map (fun e => (e, hard_value)) (zrange ne)).

Definition with_hard (at_ : attrs) (ne : Z) : attrs :=
  let created := hard_attr ne in
  match attr_lookup HARD at_ with
  | Some _ => if hard_guarded then at_
              else map (fun na => if fst na =? HARD then (HARD, created) else na) at_  (* overwritten in place *)
  | None => at_ ++ [(HARD, created)]
  end.

Definition complete_edges_from_faces (r : raw) : raw :=
  if isnil (faces r) then r else
  let at1 := with_hard (eattrs r) (zlen (edges r)) in
  let added := fresh edge_eqb (fun e => e) (map kedge (edges r)) (flat_map face_sides (faces r)) in
  let at2 := map (fun na => (fst na, attr_expand (length added) (snd na))) at1 in
  mkRaw (vertices r) (edges r ++ added) at2 (faces r) (fc_elem r) (fc_adj r)
        (cells r) (cc_elem r) (cc_adj r) (cf_elem r) (cf_adj r).

(* ---------------------------------------------------------------- vertices: float array, 2-D points padded (the width test
   and the padding values are generated), Vec.  Coordinates themselves are unchanged. *)
Definition prep_vertex (v : list Z) : list Z := if pv_pad_needed (zlen v) then v ++ pv_pad_values else v.
Definition prepare_vertices (r : raw) : raw :=
  mkRaw (map prep_vertex (vertices r)) (edges r) (eattrs r) (faces r) (fc_elem r) (fc_adj r)
        (cells r) (cc_elem r) (cc_adj r) (cf_elem r) (cf_adj r).

(* ---------------------------------------------------------------- edges *)
Definition evalid (N : Z) (e : edge) : bool := edge_valid (fst e) (snd e) N.

(* is a declared edge kept: it is valid and - when repeated declarations are dropped (edges_dedupe, generated) - its keyified
   pair was not kept before (`seen`: the keys kept so far) *)
Definition ekeep (N : Z) (seen : list edge) (e : edge) : bool :=
  evalid N e && negb (edges_dedupe && existsb (edge_eqb (kedge e)) seen).

(* the edges that survive, as declared, in order *)
Fixpoint sel_from (N : Z) (seen : list edge) (es : list edge) : list edge :=
  match es with
  | [] => []
  | e :: t => if ekeep N seen e then e :: sel_from N (kedge e :: seen) t else sel_from N seen t
  end.
(* their old indices (counted from s) *)
Fixpoint kept_from (N : Z) (seen : list edge) (s : Z) (es : list edge) : list Z :=
  match es with
  | [] => []
  | e :: t => if ekeep N seen e then s :: kept_from N (kedge e :: seen) (s + 1) t else kept_from N seen (s + 1) t
  end.
Definition kept_idx (N : Z) (es : list edge) : list Z := kept_from N [] 0 es.
Definition edges_dropped (N : Z) (es : list edge) : bool := negb (Nat.eqb (length (sel_from N [] es)) (length es)).

Fixpoint enum_from {A} (i : Z) (l : list A) : list (Z * A) :=
  match l with [] => [] | x :: t => (i, x) :: enum_from (i + 1) t end.
Definition enumerate {A} (l : list A) := enum_from 0 l.

(* the rebuilt (sparse) attribute: new index n receives old[ie] for the n-th surviving edge ie, when kept *)
Definition reindex (kept : list Z) (a : attr) : attr :=
  Sparse (if reindex_keeps_default then attr_default a else 0)
         (flat_map (fun nie => if attr_keep (attr_dense a) (attr_has a (snd nie))
                               then [(fst nie, attr_get a (snd nie))] else [])
                   (enumerate kept)).

Definition prepare_edges (r : raw) : raw :=
  let N := zlen (vertices r) in
  if edges_dropped N (edges r) then
    let kept := kept_idx N (edges r) in
    mkRaw (vertices r) (map kedge (sel_from N [] (edges r)))
          (map (fun na => (fst na, reindex kept (snd na))) (eattrs r))
          (faces r) (fc_elem r) (fc_adj r) (cells r) (cc_elem r) (cc_adj r) (cf_elem r) (cf_adj r)
  else
    mkRaw (vertices r) (map kedge (edges r)) (eattrs r)
          (faces r) (fc_elem r) (fc_adj r) (cells r) (cc_elem r) (cc_adj r) (cf_elem r) (cf_adj r).

(* ---------------------------------------------------------------- corners *)
(* the (element, owner) records of all incidences, in element order *)
Definition records (rec : Z -> Z -> Z * Z) (elts : list (list Z)) : list (Z * Z) :=
  flat_map (fun ie => map (fun v => rec v (fst ie)) (snd ie)) (enumerate elts).
Definition owners (elts : list (list Z)) : list Z :=
  flat_map (fun ie => repeat (fst ie) (length (snd ie))) (enumerate elts).
Definition sum_len (elts : list (list Z)) : Z := fold_right (fun f s => zlen f + s) 0 elts.

Definition generate_face_corners (r : raw) : raw :=
  if fc_regen (zlen (fc_elem r)) (sum_len (faces r)) then
    let rs := records fc_record (faces r) in
    mkRaw (vertices r) (edges r) (eattrs r) (faces r) (map fst rs) (map snd rs)
          (cells r) (cc_elem r) (cc_adj r) (cf_elem r) (cf_adj r)
  else r.

Definition generate_cell_corners (r : raw) : raw :=
  let nce := zlen (cc_elem r) in let nca := zlen (cc_adj r) in
  if cc_regen nce nca then
    if cc_adj_only nce nca then
      let ea := cc_adj_only_result (cc_elem r) (owners (cells r)) in
      mkRaw (vertices r) (edges r) (eattrs r) (faces r) (fc_elem r) (fc_adj r)
            (cells r) (fst ea) (snd ea) (cf_elem r) (cf_adj r)
    else
      let rs := records cc_record (cells r) in
      mkRaw (vertices r) (edges r) (eattrs r) (faces r) (fc_elem r) (fc_adj r)
            (cells r) (map fst rs) (map snd rs) (cf_elem r) (cf_adj r)
  else r.

(* face_id[key]: the LAST face with that key *)
Fixpoint face_index_from (i : Z) (k : list Z) (fs : list (list Z)) (acc : option Z) : option Z :=
  match fs with
  | [] => acc
  | f :: t => face_index_from (i + 1) k t (if key_eqb (keyify f) k then Some i else acc)
  end.
Definition face_index (fs : list (list Z)) (k : list Z) : option Z := face_index_from 0 k fs None.

(* the cell-face loop: per (cell, face) optionally append the face id and optionally the owner *)
Fixpoint cf_loop (pe pa : bool) (fs : list (list Z)) (cs : list (Z * list Z)) : res (list Z * list Z) :=
  match cs with
  | [] => Ok ([], [])
  | (iC, C) :: t =>
      match gcf_cell_faces C with
      | None => Err EBadCell
      | Some fcs =>
          bind (fold_right (fun f acc => bind acc (fun l =>
                              if pe then match face_index fs (keyify f) with
                                         | Some i => Ok (i :: l) | None => Err EKey end
                              else Ok l)) (Ok []) fcs)
               (fun ids => bind (cf_loop pe pa fs t)
                  (fun ea => Ok (ids ++ fst ea, (if pa then repeat iC (length fcs) else []) ++ snd ea)))
      end
  end.

Definition generate_cell_faces (r : raw) : res raw :=
  let nce := zlen (cf_elem r) in let nca := zlen (cf_adj r) in
  if cf_regen nce nca then
    bind (cf_loop (cf_put_elem nce nca) (cf_put_adj nce nca) (faces r) (enumerate (cells r)))
         (fun ea => Ok (mkRaw (vertices r) (edges r) (eattrs r) (faces r) (fc_elem r) (fc_adj r)
                              (cells r) (cc_elem r) (cc_adj r) (cf_elem r ++ fst ea) (cf_adj r ++ snd ea)))
  else Ok r.

(* ---------------------------------------------------------------- prepare *)
Definition cfg := (bool * bool)%type.   (* (config.complete_faces_from_cells, config.complete_edges_from_faces) *)

Definition gate_open (c : cfg) (g : gate) : bool :=
  match g with GAlways => true | GFaces => fst c | GEdges => snd c end.

Definition run_step (s : step) (r : raw) : res raw :=
  match s with
  | SCompleteFaces => Ok (complete_faces_from_cells r)
  | SCompleteEdges => Ok (complete_edges_from_faces r)
  | SVertices => Ok (prepare_vertices r)
  | SEdges => Ok (prepare_edges r)
  | SFaces => Ok r             (* rows become tuples of Python ints: values unchanged *)
  | SFaceCorners => Ok (generate_face_corners r)
  | SCells => Ok r
  | SCellCorners => Ok (generate_cell_corners r)
  | SCellFaces => generate_cell_faces r
  | SDim => Ok r               (* the dimensionality is a function of the final containers: see dim_of *)
  end.

Fixpoint run_steps (c : cfg) (l : list (gate * step)) (r : raw) : res raw :=
  match l with
  | [] => Ok r
  | (g, s) :: t => if gate_open c g then bind (run_step s r) (run_steps c t) else run_steps c t r
  end.

Definition prepare (c : cfg) (r : raw) : res raw := run_steps c prepare_steps r.

Definition dim_of (r : raw) : Z := dimensionality (isnil (cells r)) (isnil (faces r)) (isnil (edges r)).

(* _instanciate_raw_mesh_data: the class code and the prepared data *)
Definition instanciate (c : cfg) (dim : option Z) (r : raw) : res (Z * raw) :=
  bind (prepare c r) (fun r' =>
    let d := inst_dim (match dim with Some x => x | None => inst_default end) (dim_of r') in
    match class_of d with Some k => Ok (k, r') | None => Err ENoClass end).

(* RawMeshData(mesh): containers the mesh class exposes are shared, the others are fresh and empty *)
Definition rewrap (k : Z) (r : raw) : raw :=
  let he := mesh_has_edges k in let hf := mesh_has_faces k in let hc := mesh_has_cells k in
  mkRaw (vertices r)
        (if he then edges r else []) (if he then eattrs r else [])
        (if hf then faces r else []) (if hf then fc_elem r else []) (if hf then fc_adj r else [])
        (if hc then cells r else []) (if hc then cc_elem r else []) (if hc then cc_adj r else [])
        (if hc then cf_elem r else []) (if hc then cf_adj r else []).

(* from_arrays(V, E, F, C) with w = V.shape[1]; an absent array is the empty list *)
Definition from_arrays (c : cfg) (w : Z) (V : list (list Z)) (E : list edge) (F C : list (list Z)) : res (Z * raw) :=
  let n := zlen V in
  bind (if fa_pad_needed w then Ok (map (fun v => v ++ repeat 0 (Z.to_nat (fa_pad_amount w))) V)
        else if fa_width_bad w then Err EArr else Ok V)
  (fun V' =>
    if existsb (fun e => fa_edge_index_bad (fst e) n || fa_edge_index_bad (snd e) n) E then Err EArr
    else if existsb (existsb (fun x => fa_face_index_bad x n)) F then Err EArr
    else if existsb (existsb (fun x => fa_cell_index_bad x n)) C then Err EArr
    else instanciate c None (mkRaw V' E [] F [] [] C [] [] [] [])).

(* ---------------------------------------------------------------- editing a re-wrapped mesh before building it again
   (what the subdivision editors and mesh.save do on RawMeshData(mesh)): clear() of containers (generated from the source),
   append / item assignment / removal of the last element *)
Inductive edit :=
| EClearFC | EClearCC | EClearCF            (* face_corners.clear(), cell_corners.clear(), cell_faces.clear() *)
| EClearEdges | EClearFaces | EClearCells   (* DataContainer.clear() *)
| EAddVertex (v : list Z) | EAddEdge (e : edge) | EAddFace (f : list Z) | EAddCell (c : list Z)
| ESetFace (i : Z) (f : list Z) | ESetCell (i : Z) (c : list Z)   (* container[i mod len] = row *)
| EPopFace | EPopCell
| EPeek.   (* reading public properties of the raw data (dimensionality, id ranges, sizes): changes nothing *)

Fixpoint set_nth {A} (n : nat) (x : A) (l : list A) : list A :=
  match l, n with
  | [], _ => []
  | _ :: t, O => x :: t
  | y :: t, S n' => y :: set_nth n' x t
  end.
Definition set_mod {A} (i : Z) (x : A) (l : list A) : list A :=
  match l with [] => [] | _ => set_nth (Z.to_nat (i mod zlen l)) x l end.

Definition apply_edit (e : edit) (r : raw) : raw :=
  match e with
  | EClearFC => let ea := corner_clear (fc_elem r) (fc_adj r) in
      mkRaw (vertices r) (edges r) (eattrs r) (faces r) (fst ea) (snd ea) (cells r) (cc_elem r) (cc_adj r) (cf_elem r) (cf_adj r)
  | EClearCC => let ea := corner_clear (cc_elem r) (cc_adj r) in
      mkRaw (vertices r) (edges r) (eattrs r) (faces r) (fc_elem r) (fc_adj r) (cells r) (fst ea) (snd ea) (cf_elem r) (cf_adj r)
  | EClearCF => let ea := corner_clear (cf_elem r) (cf_adj r) in
      mkRaw (vertices r) (edges r) (eattrs r) (faces r) (fc_elem r) (fc_adj r) (cells r) (cc_elem r) (cc_adj r) (fst ea) (snd ea)
  | EClearEdges =>
      mkRaw (vertices r) (data_clear (edges r)) (if data_clear_attrs then [] else eattrs r) (faces r) (fc_elem r) (fc_adj r)
            (cells r) (cc_elem r) (cc_adj r) (cf_elem r) (cf_adj r)
  | EClearFaces =>
      mkRaw (vertices r) (edges r) (eattrs r) (data_clear (faces r)) (fc_elem r) (fc_adj r)
            (cells r) (cc_elem r) (cc_adj r) (cf_elem r) (cf_adj r)
  | EClearCells =>
      mkRaw (vertices r) (edges r) (eattrs r) (faces r) (fc_elem r) (fc_adj r)
            (data_clear (cells r)) (cc_elem r) (cc_adj r) (cf_elem r) (cf_adj r)
  | EAddVertex v =>
      mkRaw (vertices r ++ [v]) (edges r) (eattrs r) (faces r) (fc_elem r) (fc_adj r) (cells r) (cc_elem r) (cc_adj r) (cf_elem r) (cf_adj r)
  | EAddEdge e =>
      mkRaw (vertices r) (edges r ++ [e]) (map (fun na => (fst na, attr_expand 1 (snd na))) (eattrs r)) (faces r)
            (fc_elem r) (fc_adj r) (cells r) (cc_elem r) (cc_adj r) (cf_elem r) (cf_adj r)
  | EAddFace f =>
      mkRaw (vertices r) (edges r) (eattrs r) (faces r ++ [f]) (fc_elem r) (fc_adj r) (cells r) (cc_elem r) (cc_adj r) (cf_elem r) (cf_adj r)
  | EAddCell c =>
      mkRaw (vertices r) (edges r) (eattrs r) (faces r) (fc_elem r) (fc_adj r) (cells r ++ [c]) (cc_elem r) (cc_adj r) (cf_elem r) (cf_adj r)
  | ESetFace i f =>
      mkRaw (vertices r) (edges r) (eattrs r) (set_mod i f (faces r)) (fc_elem r) (fc_adj r) (cells r) (cc_elem r) (cc_adj r) (cf_elem r) (cf_adj r)
  | ESetCell i c =>
      mkRaw (vertices r) (edges r) (eattrs r) (faces r) (fc_elem r) (fc_adj r) (set_mod i c (cells r)) (cc_elem r) (cc_adj r) (cf_elem r) (cf_adj r)
  | EPopFace =>
      mkRaw (vertices r) (edges r) (eattrs r) (removelast (faces r)) (fc_elem r) (fc_adj r) (cells r) (cc_elem r) (cc_adj r) (cf_elem r) (cf_adj r)
  | EPopCell =>
      mkRaw (vertices r) (edges r) (eattrs r) (faces r) (fc_elem r) (fc_adj r) (removelast (cells r)) (cc_elem r) (cc_adj r) (cf_elem r) (cf_adj r)
  | EPeek => r
  end.

Definition apply_edits (es : list edit) (r : raw) : raw := fold_left (fun r e => apply_edit e r) es r.

(* RawMeshData(mesh), edits, build again *)
Definition rebuild (c : cfg) (dim : option Z) (es : list edit) (k : Z) (r : raw) : res (Z * raw) :=
  instanciate c dim (apply_edits es (rewrap k r)).

(* ---------------------------------------------------------------- the data left behind when prepare() raises
   (only _generate_cell_faces can: a cell's face is missing).  Every earlier step has been applied; cell_faces is untouched
   when the new ids / owners are committed at the end (cf_atomic, generated), else it keeps what was appended before the
   missing face.  The caller may supply the faces and build the SAME RawMeshData again. *)
Fixpoint cf_partial_faces (pe pa : bool) (fs : list (list Z)) (iC : Z) (fcs : list (list Z)) : list Z * list Z * bool :=
  match fcs with
  | [] => ([], [], true)
  | f :: t =>
      match (if pe then face_index fs (keyify f) else Some 0) with
      | None => ([], [], false)
      | Some i => let '(e, a, ok) := cf_partial_faces pe pa fs iC t in
                  ((if pe then [i] else []) ++ e, (if pa then [iC] else []) ++ a, ok)
      end
  end.
Fixpoint cf_partial (pe pa : bool) (fs : list (list Z)) (cs : list (Z * list Z)) : list Z * list Z :=
  match cs with
  | [] => ([], [])
  | (iC, C) :: t =>
      match gcf_cell_faces C with
      | None => ([], [])
      | Some fcs => let '(e, a, ok) := cf_partial_faces pe pa fs iC fcs in
                    if ok then let ea := cf_partial pe pa fs t in (e ++ fst ea, a ++ snd ea) else (e, a)
      end
  end.

Definition generate_cell_faces_left (r : raw) : raw :=
  let nce := zlen (cf_elem r) in let nca := zlen (cf_adj r) in
  if cf_regen nce nca && negb cf_atomic then
    let ea := cf_partial (cf_put_elem nce nca) (cf_put_adj nce nca) (faces r) (enumerate (cells r)) in
    mkRaw (vertices r) (edges r) (eattrs r) (faces r) (fc_elem r) (fc_adj r)
          (cells r) (cc_elem r) (cc_adj r) (cf_elem r ++ fst ea) (cf_adj r ++ snd ea)
  else r.

Fixpoint run_steps_left (c : cfg) (l : list (gate * step)) (r : raw) : raw :=
  match l with
  | [] => r
  | (g, s) :: t =>
      if gate_open c g then
        match run_step s r with
        | Ok r' => run_steps_left c t r'
        | Err _ => match s with SCellFaces => generate_cell_faces_left r | _ => r end
        end
      else run_steps_left c t r
  end.
Definition prepare_left (c : cfg) (r : raw) : raw := run_steps_left c prepare_steps r.
