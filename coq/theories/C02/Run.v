(* C02 - boolean checkers evaluated by the correspondence batches: the model's answer against what the
   implementation was observed to hold after each construction stage.  No proofs. *)
From Coq Require Import ZArith List Bool.
Import ListNotations.
Require Import MV.Lib.Base MV.C02.Defs MV.C02.Gen MV.C02.Model.
Open Scope Z_scope.

(* observed attribute: name, dense?, default, sorted keys (sparse) or [n_elem] (dense), values a[i] for every edge i *)
Definition oattr := (Z * bool * Z * list Z * list Z)%type.

Inductive obs :=
| OErr (code : Z)   (* 1 KeyError, 2 Exception raised by from_arrays, 99 anything else *)
| OMesh (cls : Z) (he hf hc : bool) (verts : list (list Z)) (es : list edge) (at_ : list oattr)
        (fs : list (list Z)) (fce fca : list Z) (cs : list (list Z)) (cce cca cfe cfa : list Z).

Inductive input :=
| IRaw (dim : option Z) (r : raw)
| IArr (w : Z) (V : list (list Z)) (E : list edge) (F C : list (list Z)).

Definition zl_eqb := list_eqb Z.eqb.
Definition zll_eqb := list_eqb zl_eqb.
Definition el_eqb := list_eqb edge_eqb.

Definition attr_obs (ne : Z) (na : Z * attr) : oattr :=
  let a := snd na in
  (fst na, attr_dense a, attr_default a,
   match a with Sparse _ e => sort_asc (map fst e) | Dense _ v => [zlen v] end,
   map (attr_get a) (zrange ne)).

Definition oattr_eqb (x y : oattr) : bool :=
  match x, y with
  | (n1, d1, f1, k1, v1), (n2, d2, f2, k2, v2) =>
      (n1 =? n2) && Bool.eqb d1 d2 && (f1 =? f2) && zl_eqb k1 k2 && zl_eqb v1 v2
  end.

Definition err_code (e : err) : Z := match e with EKey => 1 | EArr => 2 | EBadCell => 3 | ENoClass => 4 end.

Definition check_stage (m : res (Z * raw)) (o : obs) : bool :=
  match m, o with
  | Err _, OErr _ => true     (* the model predicts a refusal, the implementation refused: class and message are free *)
  | Ok (k, r), OMesh cls he hf hc vs es at_ fs fce fca cs cce cca cfe cfa =>
      let v := rewrap k r in   (* what the class exposes *)
      (k =? cls) && Bool.eqb he (mesh_has_edges k) && Bool.eqb hf (mesh_has_faces k) && Bool.eqb hc (mesh_has_cells k)
      && zll_eqb (vertices v) vs && el_eqb (edges v) es
      && list_eqb oattr_eqb (map (attr_obs (zlen (edges v))) (eattrs v)) at_
      && zll_eqb (faces v) fs && zl_eqb (fc_elem v) fce && zl_eqb (fc_adj v) fca
      && zll_eqb (cells v) cs && zl_eqb (cc_elem v) cce && zl_eqb (cc_adj v) cca
      && zl_eqb (cf_elem v) cfe && zl_eqb (cf_adj v) cfa
  | _, _ => false
  end.

(* stage 0 = first construction (no edits) of the raw data `cur`; stage i+1 = the recorded edits applied to
   RawMeshData(mesh_i) when stage i succeeded, or to the very same raw data object as it was left behind when stage i raised
   (retry), instantiated with the same dim override *)
Fixpoint check_stages (c : cfg) (dim : option Z) (cur : raw) (m : res (Z * raw)) (os : list (list edit * obs)) : bool :=
  match os with
  | [] => true
  | (_, o) :: t =>
      check_stage m o &&
      match t with
      | [] => true
      | (es, _) :: _ =>
          let next := match m with
                      | Ok (k, r) => apply_edits es (rewrap k r)
                      | Err _ => apply_edits es (prepare_left c cur)
                      end in
          check_stages c dim next (instanciate c dim next) t
      end
  end.

Definition check_case (x : cfg * input * list (list edit * obs)) : bool :=
  match x with
  | (c, IRaw dim r, os) => check_stages c dim r (instanciate c dim r) os
  | (c, IArr w V E F C, os) =>
      match os with
      | [(_, o)] => check_stage (from_arrays c w V E F C) o
      | _ => match from_arrays c w V E F C with
             | Ok (k, r) => check_stages c None r (Ok (k, r)) os   (* (cur is only used after a failure) *)
             | Err e => match os with (_, o) :: _ => check_stage (Err e) o | [] => true end
             end
      end
  end.
