(* C02 - the steps of prepare(): which containers each one touches, and prepare() as their composition. *)
From Coq Require Import ZArith List Bool Lia.
Import ListNotations.
Require Import MV.Lib.Base MV.C02.Defs MV.C02.Gen MV.C02.Model MV.C02.Proofs_Base.
Open Scope Z_scope.

Ltac step_proj F :=
  intros; unfold F;
  repeat match goal with |- context [if ?b then _ else _] => destruct b end; reflexivity.

(* complete_faces_from_cells touches only faces *)
Lemma cfc_vertices r : vertices (complete_faces_from_cells r) = vertices r. Proof. step_proj complete_faces_from_cells. Qed.
Lemma cfc_edges r : edges (complete_faces_from_cells r) = edges r. Proof. step_proj complete_faces_from_cells. Qed.
Lemma cfc_eattrs r : eattrs (complete_faces_from_cells r) = eattrs r. Proof. step_proj complete_faces_from_cells. Qed.
Lemma cfc_cells r : cells (complete_faces_from_cells r) = cells r. Proof. step_proj complete_faces_from_cells. Qed.
Lemma cfc_fc_elem r : fc_elem (complete_faces_from_cells r) = fc_elem r. Proof. step_proj complete_faces_from_cells. Qed.
Lemma cfc_fc_adj r : fc_adj (complete_faces_from_cells r) = fc_adj r. Proof. step_proj complete_faces_from_cells. Qed.
Lemma cfc_cc_elem r : cc_elem (complete_faces_from_cells r) = cc_elem r. Proof. step_proj complete_faces_from_cells. Qed.
Lemma cfc_cc_adj r : cc_adj (complete_faces_from_cells r) = cc_adj r. Proof. step_proj complete_faces_from_cells. Qed.
Lemma cfc_cf_elem r : cf_elem (complete_faces_from_cells r) = cf_elem r. Proof. step_proj complete_faces_from_cells. Qed.
Lemma cfc_cf_adj r : cf_adj (complete_faces_from_cells r) = cf_adj r. Proof. step_proj complete_faces_from_cells. Qed.
Lemma cfc_faces r : faces (complete_faces_from_cells r) =
  faces r ++ (if isnil (cells r) then [] else fresh key_eqb keyify (map keyify (faces r)) (flat_map cfc_cell_faces (cells r))).
Proof. unfold complete_faces_from_cells. destruct (isnil (cells r)); cbn; [now rewrite app_nil_r | reflexivity]. Qed.

(* complete_edges_from_faces touches only edges and their attributes *)
Lemma cef_vertices r : vertices (complete_edges_from_faces r) = vertices r. Proof. step_proj complete_edges_from_faces. Qed.
Lemma cef_faces r : faces (complete_edges_from_faces r) = faces r. Proof. step_proj complete_edges_from_faces. Qed.
Lemma cef_cells r : cells (complete_edges_from_faces r) = cells r. Proof. step_proj complete_edges_from_faces. Qed.
Lemma cef_fc_elem r : fc_elem (complete_edges_from_faces r) = fc_elem r. Proof. step_proj complete_edges_from_faces. Qed.
Lemma cef_fc_adj r : fc_adj (complete_edges_from_faces r) = fc_adj r. Proof. step_proj complete_edges_from_faces. Qed.
Lemma cef_cc_elem r : cc_elem (complete_edges_from_faces r) = cc_elem r. Proof. step_proj complete_edges_from_faces. Qed.
Lemma cef_cc_adj r : cc_adj (complete_edges_from_faces r) = cc_adj r. Proof. step_proj complete_edges_from_faces. Qed.
Lemma cef_cf_elem r : cf_elem (complete_edges_from_faces r) = cf_elem r. Proof. step_proj complete_edges_from_faces. Qed.
Lemma cef_cf_adj r : cf_adj (complete_edges_from_faces r) = cf_adj r. Proof. step_proj complete_edges_from_faces. Qed.

Definition new_sides (es : list edge) (fs : list (list Z)) : list edge :=
  fresh edge_eqb (fun e => e) (map kedge es) (flat_map face_sides fs).

Lemma cef_edges r : edges (complete_edges_from_faces r) =
  edges r ++ (if isnil (faces r) then [] else new_sides (edges r) (faces r)).
Proof. unfold complete_edges_from_faces. destruct (isnil (faces r)); cbn; [now rewrite app_nil_r | reflexivity]. Qed.

Lemma cef_eattrs r : eattrs (complete_edges_from_faces r) =
  if isnil (faces r) then eattrs r
  else map (fun na => (fst na, attr_expand (length (new_sides (edges r) (faces r))) (snd na)))
           (with_hard (eattrs r) (zlen (edges r))).
Proof. unfold complete_edges_from_faces. destruct (isnil (faces r)); reflexivity. Qed.

(* prepare_vertices touches only the vertices, and keeps their number *)
Lemma pv_vertices r : vertices (prepare_vertices r) = map prep_vertex (vertices r). Proof. reflexivity. Qed.
Lemma pv_nverts r : zlen (vertices (prepare_vertices r)) = zlen (vertices r).
Proof. unfold zlen. cbn. now rewrite map_length. Qed.
Lemma pv_edges r : edges (prepare_vertices r) = edges r. Proof. reflexivity. Qed.
Lemma pv_eattrs r : eattrs (prepare_vertices r) = eattrs r. Proof. reflexivity. Qed.
Lemma pv_faces r : faces (prepare_vertices r) = faces r. Proof. reflexivity. Qed.
Lemma pv_cells r : cells (prepare_vertices r) = cells r. Proof. reflexivity. Qed.

(* prepare_edges touches only edges and their attributes *)
Lemma pe_vertices r : vertices (prepare_edges r) = vertices r. Proof. step_proj prepare_edges. Qed.
Lemma pe_faces r : faces (prepare_edges r) = faces r. Proof. step_proj prepare_edges. Qed.
Lemma pe_cells r : cells (prepare_edges r) = cells r. Proof. step_proj prepare_edges. Qed.
Lemma pe_fc_elem r : fc_elem (prepare_edges r) = fc_elem r. Proof. step_proj prepare_edges. Qed.
Lemma pe_fc_adj r : fc_adj (prepare_edges r) = fc_adj r. Proof. step_proj prepare_edges. Qed.
Lemma pe_cc_elem r : cc_elem (prepare_edges r) = cc_elem r. Proof. step_proj prepare_edges. Qed.
Lemma pe_cc_adj r : cc_adj (prepare_edges r) = cc_adj r. Proof. step_proj prepare_edges. Qed.
Lemma pe_cf_elem r : cf_elem (prepare_edges r) = cf_elem r. Proof. step_proj prepare_edges. Qed.
Lemma pe_cf_adj r : cf_adj (prepare_edges r) = cf_adj r. Proof. step_proj prepare_edges. Qed.

(* whichever branch is taken: the surviving edges, keyified, each pair once, in order of first declaration *)
Lemma pe_edges r : edges (prepare_edges r) = norm_edges (zlen (vertices r)) (edges r).
Proof.
  unfold prepare_edges, norm_edges. set (N := zlen (vertices r)). rewrite <- sel_from_spec.
  destruct (edges_dropped N (edges r)) eqn:E; cbn; [reflexivity|].
  apply edges_dropped_false in E. now rewrite (proj1 (sel_from_full _ _ _ E)).
Qed.

(* corner generators *)
Lemma gfc_vertices r : vertices (generate_face_corners r) = vertices r. Proof. step_proj generate_face_corners. Qed.
Lemma gfc_edges r : edges (generate_face_corners r) = edges r. Proof. step_proj generate_face_corners. Qed.
Lemma gfc_eattrs r : eattrs (generate_face_corners r) = eattrs r. Proof. step_proj generate_face_corners. Qed.
Lemma gfc_faces r : faces (generate_face_corners r) = faces r. Proof. step_proj generate_face_corners. Qed.
Lemma gfc_cells r : cells (generate_face_corners r) = cells r. Proof. step_proj generate_face_corners. Qed.
Lemma gfc_cc_elem r : cc_elem (generate_face_corners r) = cc_elem r. Proof. step_proj generate_face_corners. Qed.
Lemma gfc_cc_adj r : cc_adj (generate_face_corners r) = cc_adj r. Proof. step_proj generate_face_corners. Qed.
Lemma gfc_cf_elem r : cf_elem (generate_face_corners r) = cf_elem r. Proof. step_proj generate_face_corners. Qed.
Lemma gfc_cf_adj r : cf_adj (generate_face_corners r) = cf_adj r. Proof. step_proj generate_face_corners. Qed.

Lemma gcc_vertices r : vertices (generate_cell_corners r) = vertices r. Proof. step_proj generate_cell_corners. Qed.
Lemma gcc_edges r : edges (generate_cell_corners r) = edges r. Proof. step_proj generate_cell_corners. Qed.
Lemma gcc_eattrs r : eattrs (generate_cell_corners r) = eattrs r. Proof. step_proj generate_cell_corners. Qed.
Lemma gcc_faces r : faces (generate_cell_corners r) = faces r. Proof. step_proj generate_cell_corners. Qed.
Lemma gcc_cells r : cells (generate_cell_corners r) = cells r. Proof. step_proj generate_cell_corners. Qed.
Lemma gcc_fc_elem r : fc_elem (generate_cell_corners r) = fc_elem r. Proof. step_proj generate_cell_corners. Qed.
Lemma gcc_fc_adj r : fc_adj (generate_cell_corners r) = fc_adj r. Proof. step_proj generate_cell_corners. Qed.
Lemma gcc_cf_elem r : cf_elem (generate_cell_corners r) = cf_elem r. Proof. step_proj generate_cell_corners. Qed.
Lemma gcc_cf_adj r : cf_adj (generate_cell_corners r) = cf_adj r. Proof. step_proj generate_cell_corners. Qed.

Lemma gcf_fields r r' : generate_cell_faces r = Ok r' ->
  vertices r' = vertices r /\ edges r' = edges r /\ eattrs r' = eattrs r /\ faces r' = faces r /\
  fc_elem r' = fc_elem r /\ fc_adj r' = fc_adj r /\ cells r' = cells r /\ cc_elem r' = cc_elem r /\ cc_adj r' = cc_adj r.
Proof.
  unfold generate_cell_faces. destruct (cf_regen _ _).
  - destruct (cf_loop _ _ _ _) as [ea|e]; cbn; [|discriminate]. intros [= <-]. cbn. repeat split.
  - intros [= <-]. repeat split.
Qed.

(* ------------------------------------------------------------ prepare() is this composition (order from Gen.prepare_steps) *)
Definition stage1 (c : cfg) (r : raw) : raw := if fst c then complete_faces_from_cells r else r.
Definition stage2 (c : cfg) (r : raw) : raw :=
  prepare_vertices (if snd c then complete_edges_from_faces (stage1 c r) else stage1 c r).
Definition stage5 (c : cfg) (r : raw) : raw :=
  generate_cell_corners (generate_face_corners (prepare_edges (stage2 c r))).

Lemma prepare_unfold c r : prepare c r = generate_cell_faces (stage5 c r).
Proof.
  destruct c as [[] []]; unfold prepare, stage5, stage2, stage1; cbn;
  match goal with |- context [generate_cell_faces ?x] => destruct (generate_cell_faces x) end; reflexivity.
Qed.

Lemma stage1_vertices c r : vertices (stage1 c r) = vertices r.
Proof. unfold stage1; destruct (fst c); [apply cfc_vertices | reflexivity]. Qed.
Lemma stage1_edges c r : edges (stage1 c r) = edges r.
Proof. unfold stage1; destruct (fst c); [apply cfc_edges | reflexivity]. Qed.
Lemma stage1_eattrs c r : eattrs (stage1 c r) = eattrs r.
Proof. unfold stage1; destruct (fst c); [apply cfc_eattrs | reflexivity]. Qed.
Lemma stage1_cells c r : cells (stage1 c r) = cells r.
Proof. unfold stage1; destruct (fst c); [apply cfc_cells | reflexivity]. Qed.
Lemma stage2_vertices c r : vertices (stage2 c r) = map prep_vertex (vertices r).
Proof. unfold stage2; rewrite pv_vertices; destruct (snd c); [rewrite cef_vertices|]; now rewrite stage1_vertices. Qed.
Lemma stage2_nverts c r : zlen (vertices (stage2 c r)) = zlen (vertices r).
Proof. rewrite stage2_vertices. unfold zlen. now rewrite map_length. Qed.
Lemma stage2_faces c r : faces (stage2 c r) = faces (stage1 c r).
Proof. unfold stage2; rewrite pv_faces; destruct (snd c); [apply cef_faces | reflexivity]. Qed.
Lemma stage2_cells c r : cells (stage2 c r) = cells r.
Proof. unfold stage2; rewrite pv_cells; destruct (snd c); [rewrite cef_cells|]; apply stage1_cells. Qed.

(* the faces completed from the cells, and the face sides added to the edges *)
Definition added_faces (c : cfg) (r : raw) : list (list Z) :=
  if fst c && nonempty (cells r)
  then fresh key_eqb keyify (map keyify (faces r)) (flat_map cfc_cell_faces (cells r)) else [].

Lemma isnil_nonempty {A} (l : list A) : isnil l = negb (nonempty l).
Proof. destruct l; reflexivity. Qed.

Lemma stage1_faces c r : faces (stage1 c r) = faces r ++ added_faces c r.
Proof.
  unfold stage1, added_faces. destruct (fst c); cbn; [|now rewrite app_nil_r].
  rewrite cfc_faces, isnil_nonempty. now destruct (nonempty (cells r)).
Qed.

Definition added_edges (c : cfg) (r : raw) : list edge :=
  if snd c && nonempty (faces r ++ added_faces c r)
  then new_sides (edges r) (faces r ++ added_faces c r) else [].

Lemma stage2_edges c r : edges (stage2 c r) = edges r ++ added_edges c r.
Proof.
  unfold stage2, added_edges. rewrite pv_edges. destruct (snd c); cbn.
  - rewrite cef_edges, stage1_edges, stage1_faces, isnil_nonempty. now destruct (nonempty _).
  - now rewrite stage1_edges, app_nil_r.
Qed.

Lemma prepare_fields c r r' : prepare c r = Ok r' ->
  vertices r' = map prep_vertex (vertices r) /\ cells r' = cells r /\ faces r' = faces r ++ added_faces c r /\
  edges r' = norm_edges (zlen (vertices r)) (edges r ++ added_edges c r).
Proof.
  rewrite prepare_unfold. intros H. apply gcf_fields in H.
  destruct H as (Hv & He & _ & Hf & _ & _ & Hc & _). unfold stage5 in *.
  rewrite gcc_vertices, gfc_vertices, pe_vertices, stage2_vertices in Hv.
  rewrite gcc_cells, gfc_cells, pe_cells, stage2_cells in Hc.
  rewrite gcc_faces, gfc_faces, pe_faces, stage2_faces, stage1_faces in Hf.
  rewrite gcc_edges, gfc_edges, pe_edges, stage2_nverts, stage2_edges in He.
  auto.
Qed.
