(* C02 - corner records, class selection, from_arrays. *)
From Coq Require Import ZArith List Bool Lia.
Import ListNotations.
Require Import MV.Lib.Base MV.C02.Defs MV.C02.Gen MV.C02.Model MV.C02.Proofs_Base MV.C02.Proofs_Steps.
Open Scope Z_scope.

(* one record (element, owner) per incidence, in element order *)
Definition incidences (elts : list (list Z)) : list (Z * Z) :=
  flat_map (fun ie => map (fun v => (v, fst ie)) (snd ie)) (enumerate elts).

Lemma combine_fst_snd {A B} (l : list (A * B)) : combine (map fst l) (map snd l) = l.
Proof. induction l as [|[a b] t IH]; cbn; [reflexivity | now rewrite IH]. Qed.

Lemma fc_record_spec v o : fc_record v o = (v, o). Proof. reflexivity. Qed.
Lemma cc_record_spec v o : cc_record v o = (v, o). Proof. reflexivity. Qed.

Lemma records_incidences rec elts : (forall v o, rec v o = (v, o)) -> records rec elts = incidences elts.
Proof.
  intros H. unfold records, incidences. apply flat_map_ext. intros ie. apply map_ext. intros v. apply H.
Qed.

Lemma gfc_fresh r : fc_elem r = [] ->
  fc_elem (generate_face_corners r) = map fst (incidences (faces r)) /\
  fc_adj (generate_face_corners r) = map snd (incidences (faces r)).
Proof.
  intros H. unfold generate_face_corners. rewrite H.
  replace (fc_regen (zlen []) (sum_len (faces r))) with true by reflexivity. cbn.
  now rewrite (records_incidences fc_record (faces r) fc_record_spec).
Qed.

Lemma gcc_fresh r : cc_elem r = [] -> cc_adj r = [] ->
  cc_elem (generate_cell_corners r) = map fst (incidences (cells r)) /\
  cc_adj (generate_cell_corners r) = map snd (incidences (cells r)).
Proof.
  intros H1 H2. unfold generate_cell_corners. rewrite H1, H2.
  replace (cc_regen (zlen []) (zlen [])) with true by reflexivity.
  replace (cc_adj_only (zlen []) (zlen [])) with false by reflexivity. cbn.
  now rewrite (records_incidences cc_record (cells r) cc_record_spec).
Qed.

Lemma incidences_fst elts : map fst (incidences elts) = concat elts.
Proof. rewrite <- (records_incidences (fun v o => (v, o))) by reflexivity. now apply records_fst. Qed.

Lemma incidences_snd elts : map snd (incidences elts) = owners elts.
Proof. rewrite <- (records_incidences (fun v o => (v, o))) by reflexivity. now apply records_snd. Qed.

Lemma stage2_corner_fields c r :
  fc_elem (stage2 c r) = fc_elem r /\ fc_adj (stage2 c r) = fc_adj r /\
  cc_elem (stage2 c r) = cc_elem r /\ cc_adj (stage2 c r) = cc_adj r.
Proof.
  unfold stage2, stage1, prepare_vertices; cbn [fc_elem fc_adj cc_elem cc_adj].
  destruct (snd c), (fst c); rewrite ?cef_fc_elem, ?cef_fc_adj, ?cef_cc_elem, ?cef_cc_adj,
    ?cfc_fc_elem, ?cfc_fc_adj, ?cfc_cc_elem, ?cfc_cc_adj; auto.
Qed.

Theorem corners_thm c r r' : fc_elem r = [] -> cc_elem r = [] -> cc_adj r = [] -> prepare c r = Ok r' ->
  combine (fc_elem r') (fc_adj r') = incidences (faces r')
  /\ fc_elem r' = concat (faces r') /\ fc_adj r' = owners (faces r') /\ zlen (fc_elem r') = sum_len (faces r')
  /\ combine (cc_elem r') (cc_adj r') = incidences (cells r')
  /\ cc_elem r' = concat (cells r') /\ cc_adj r' = owners (cells r') /\ zlen (cc_elem r') = sum_len (cells r').
Proof.
  intros Hf Hce Hca H. rewrite prepare_unfold in H. apply gcf_fields in H.
  destruct H as (_ & _ & _ & Hfa & Hfe & Hfd & Hcs & Hcce & Hcca).
  destruct (stage2_corner_fields c r) as (S1 & S2 & S3 & S4).
  unfold stage5 in *. set (X := prepare_edges (stage2 c r)) in *.
  assert (X1 : fc_elem X = []) by (unfold X; now rewrite pe_fc_elem, S1).
  assert (X3 : cc_elem (generate_face_corners X) = []) by (unfold X; now rewrite gfc_cc_elem, pe_cc_elem, S3).
  assert (X4 : cc_adj (generate_face_corners X) = []) by (unfold X; now rewrite gfc_cc_adj, pe_cc_adj, S4).
  destruct (gfc_fresh X X1) as [G1 G2]. destruct (gcc_fresh _ X3 X4) as [G3 G4].
  rewrite gcc_fc_elem in Hfe. rewrite gcc_fc_adj in Hfd. rewrite gcc_faces, gfc_faces in Hfa.
  rewrite gcc_cells, gfc_cells in Hcs. rewrite gfc_cells in G3, G4.
  rewrite Hfe, Hfd, Hcce, Hcca, G1, G2, G3, G4, Hfa, Hcs.
  rewrite !combine_fst_snd, !incidences_fst, !incidences_snd, !concat_zlen. repeat split; reflexivity.
Qed.

(* the guard of _generate_face_corners: corners are (re)generated when there are none or their number is not the number
   of face-vertex incidences *)
Lemma fc_regen_spec nc nf : fc_regen nc nf = true <-> (nc = 0 \/ nc <> nf).
Proof. unfold fc_regen. rewrite orb_true_iff, negb_true_iff, Z.eqb_eq, Z.eqb_neq. tauto. Qed.

(* stale face corners (faces appended to / removed from a re-wrapped mesh without clearing them) are replaced *)
Theorem face_corners_regenerated c r r' : prepare c r = Ok r' ->
  (zlen (fc_elem r) = 0 \/ zlen (fc_elem r) <> sum_len (faces r')) ->
  combine (fc_elem r') (fc_adj r') = incidences (faces r') /\ zlen (fc_elem r') = sum_len (faces r').
Proof.
  intros H Hn. rewrite prepare_unfold in H. apply gcf_fields in H.
  destruct H as (_ & _ & _ & Hfa & Hfe & Hfd & _).
  destruct (stage2_corner_fields c r) as (S1 & _).
  unfold stage5 in *. set (X := prepare_edges (stage2 c r)) in *.
  rewrite gcc_fc_elem in Hfe. rewrite gcc_fc_adj in Hfd. rewrite gcc_faces, gfc_faces in Hfa.
  assert (X1 : fc_elem X = fc_elem r) by (unfold X; now rewrite pe_fc_elem, S1).
  rewrite Hfe, Hfd. unfold generate_face_corners. rewrite X1, <- Hfa.
  replace (fc_regen (zlen (fc_elem r)) (sum_len (faces r'))) with true by (symmetry; now apply fc_regen_spec).
  cbn [fc_elem fc_adj]. rewrite (records_incidences fc_record (faces r') fc_record_spec), combine_fst_snd.
  split; [reflexivity|]. now rewrite incidences_fst, concat_zlen.
Qed.

(* ------------------------------------------------------------ class selection *)
Definition top_dim (r : raw) : Z :=
  if nonempty (cells r) then 3 else if nonempty (faces r) then 2 else if nonempty (edges r) then 1 else 0.

Lemma dim_of_top r : dim_of r = top_dim r.
Proof. unfold dim_of, top_dim, dimensionality. destruct (cells r), (faces r), (edges r); reflexivity. Qed.

Theorem class_thm c dim r k r' : instanciate c dim r = Ok (k, r') ->
  prepare c r = Ok r'
  /\ k = Z.max (match dim with Some x => x | None => -1 end) (top_dim r')
  /\ 0 <= k <= 3
  /\ mesh_has_edges k = (1 <=? k) /\ mesh_has_faces k = (2 <=? k) /\ mesh_has_cells k = (3 <=? k).
Proof.
  unfold instanciate. destruct (prepare c r) as [r1|e]; cbn; [|discriminate].
  rewrite dim_of_top. unfold inst_dim, inst_default.
  set (d := Z.max _ _). unfold class_of.
  destruct (d =? 0) eqn:E0; [|destruct (d =? 1) eqn:E1; [|destruct (d =? 2) eqn:E2; [|destruct (d =? 3) eqn:E3]]];
    intros H; inversion H; subst; clear H;
    unfold mesh_has_edges, mesh_has_faces, mesh_has_cells;
    repeat split; try reflexivity; try lia.
  all: try (apply Z.eqb_eq in E0); try (apply Z.eqb_eq in E1); try (apply Z.eqb_eq in E2); try (apply Z.eqb_eq in E3);
    unfold d in *; destruct dim; lia.
Qed.

Lemma top_dim_range r : 0 <= top_dim r <= 3.
Proof. unfold top_dim. destruct (nonempty (cells r)), (nonempty (faces r)), (nonempty (edges r)); lia. Qed.

(* without override the class is exactly the highest-dimensional non-empty container *)
Corollary class_no_override c r k r' : instanciate c None r = Ok (k, r') -> k = top_dim r'.
Proof. intros H. apply class_thm in H as (_ & -> & _). pose proof (top_dim_range r'). lia. Qed.

(* ------------------------------------------------------------ 3-D vertices *)
Lemma prep_vertex_2 x y : prep_vertex [x; y] = [x; y; 0].
Proof. reflexivity. Qed.

Lemma prep_vertex_other v : zlen v <> 2 -> prep_vertex v = v.
Proof. intros H. unfold prep_vertex, pv_pad_needed. destruct (zlen v =? 2) eqn:E; [apply Z.eqb_eq in E; lia | reflexivity]. Qed.

Lemma prep_vertex_len v : (zlen v = 2 \/ zlen v = 3) -> length (prep_vertex v) = 3%nat.
Proof.
  intros [H|H].
  - destruct v as [|x [|y [|z t]]]; unfold zlen in H; cbn [length] in H; try lia. reflexivity.
  - rewrite prep_vertex_other by lia. unfold zlen in H. lia.
Qed.

Lemma prep_vertex_idem v : prep_vertex (prep_vertex v) = prep_vertex v.
Proof.
  destruct (Z.eq_dec (zlen v) 2) as [H|H].
  - destruct v as [|x [|y [|z t]]]; unfold zlen in H; cbn [length] in H; try lia. reflexivity.
  - now rewrite !(prep_vertex_other v H).
Qed.

(* however the raw data came (containers, arrays, a parsed file): 2-D points are padded with 0, 3-D points are kept;
   points of any other width (1-D, 4-D, ...) are left as they are - only from_arrays pads 1-D points and rejects wider ones *)
Theorem vertices_3d_thm c r r' : prepare c r = Ok r' ->
  vertices r' = map prep_vertex (vertices r)
  /\ (forall x y, prep_vertex [x; y] = [x; y; 0])
  /\ (forall v, zlen v <> 2 -> prep_vertex v = v)
  /\ (Forall (fun v => zlen v = 2 \/ zlen v = 3) (vertices r) -> Forall (fun v => length v = 3%nat) (vertices r')).
Proof.
  intros H. apply prepare_fields in H as (Hv & _). split; [exact Hv|]. split; [exact prep_vertex_2|].
  split; [exact prep_vertex_other|]. intros HF. rewrite Hv. apply Forall_forall. intros v Hin.
  apply in_map_iff in Hin as [v0 [<- Hv0]]. apply prep_vertex_len. rewrite Forall_forall in HF. now apply HF.
Qed.

(* ------------------------------------------------------------ from_arrays: 3-D vertices *)
Lemma fa_core c n V' E F C k r' :
  (if existsb (fun e : edge => fa_edge_index_bad (fst e) n || fa_edge_index_bad (snd e) n) E then Err EArr
   else if existsb (existsb (fun x => fa_face_index_bad x n)) F then Err EArr
   else if existsb (existsb (fun x => fa_cell_index_bad x n)) C then Err EArr
   else instanciate c None (mkRaw V' E [] F [] [] C [] [] [] [])) = Ok (k, r') ->
  vertices r' = map prep_vertex V'
  /\ (forall e, In e E -> fst e < n /\ snd e < n)
  /\ (forall f x, In f (F ++ C) -> In x f -> x < n)
  /\ k = top_dim r'.
Proof.
  destruct (existsb _ E) eqn:EE; [discriminate|].
  destruct (existsb _ F) eqn:EF; [discriminate|].
  destruct (existsb _ C) eqn:EC; [discriminate|].
  intros H. pose proof (class_no_override _ _ _ _ H) as Hk.
  apply class_thm in H as (Hp & _). apply prepare_fields in Hp as (Hv & _). cbn in Hv.
  split; [exact Hv|]. split; [|split; [|exact Hk]].
  - intros e He. rewrite <- not_true_iff_false, existsb_exists in EE.
    unfold fa_edge_index_bad in EE.
    destruct (fst e >=? n) eqn:A; [exfalso; apply EE; exists e; rewrite A; auto|].
    destruct (snd e >=? n) eqn:B; [exfalso; apply EE; exists e; rewrite B, orb_true_r; auto|]. lia.
  - intros f x Hf Hx. apply in_app_or in Hf as [Hf|Hf].
    + rewrite <- not_true_iff_false, existsb_exists in EF. unfold fa_face_index_bad in EF.
      destruct (x >=? n) eqn:A; [|lia]. exfalso. apply EF. exists f. split; [assumption|].
      apply existsb_exists. eauto.
    + rewrite <- not_true_iff_false, existsb_exists in EC. unfold fa_cell_index_bad in EC.
      destruct (x >=? n) eqn:A; [|lia]. exfalso. apply EC. exists f. split; [assumption|].
      apply existsb_exists. eauto.
Qed.

Theorem from_arrays_thm c w V E F C k r' : (forall v, In v V -> zlen v = w) ->
  from_arrays c w V E F C = Ok (k, r') ->
  w <= 3 /\ vertices r' = map (fun v => v ++ repeat 0 (Z.to_nat (3 - w))) V
  /\ Forall (fun v => length v = 3%nat) (vertices r')
  /\ (forall e, In e E -> fst e < zlen V /\ snd e < zlen V)
  /\ (forall f x, In f (F ++ C) -> In x f -> x < zlen V)
  /\ k = top_dim r'.
Proof.
  intros HV. unfold from_arrays, fa_pad_needed, fa_pad_amount, fa_width_bad.
  assert (Hlen : w <= 3 -> Forall (fun v => length v = 3%nat) (map (fun v => v ++ repeat 0 (Z.to_nat (3 - w))) V)).
  { intros Hw. apply Forall_forall. intros v Hin. apply in_map_iff in Hin as [v0 [<- Hv0]].
    rewrite app_length, repeat_length. specialize (HV v0 Hv0). unfold zlen in HV. lia. }
  assert (Hid : forall L, Forall (fun v : list Z => length v = 3%nat) L -> map prep_vertex L = L).
  { intros L HL. apply map_id_in. intros v Hv. rewrite Forall_forall in HL. specialize (HL v Hv).
    apply prep_vertex_other. unfold zlen. lia. }
  destruct (w <? 3) eqn:E1; cbn.
  - intros H. apply fa_core in H as (Hv & He & Hf & Hk). assert (Hw : w <= 3) by lia.
    assert (Hv' : vertices r' = map (fun v => v ++ repeat 0 (Z.to_nat (3 - w))) V) by (rewrite Hv; apply Hid; exact (Hlen Hw)).
    rewrite Hv'. auto 8.
  - destruct (w =? 3) eqn:E2; cbn; [|discriminate]. apply Z.eqb_eq in E2.
    intros H. apply fa_core in H as (Hv & He & Hf & Hk). assert (Hw : w <= 3) by lia.
    assert (HVV : map (fun v : list Z => v ++ repeat 0 (Z.to_nat (3 - w))) V = V).
    { rewrite E2. cbn. apply map_id_in. intros; apply app_nil_r. }
    specialize (Hlen Hw). rewrite HVV in *.
    assert (Hv' : vertices r' = V) by (rewrite Hv; apply Hid; exact Hlen). rewrite Hv'. auto 8.
Qed.
