(* C02 property theorems only: each closed by `exact <lemma>` with Print Assumptions beneath. *)
From Coq Require Import ZArith List Bool.
Require Import MV.Lib.Base MV.C02.Defs MV.C02.Gen MV.C02.Model MV.C02.Proofs.
Open Scope Z_scope.

Theorem C02_edge_valid_spec : forall a b N, edge_valid a b N = true <-> (a <> b /\ 0 <= a < N /\ 0 <= b < N).
Proof. exact edge_valid_spec. Qed.
Print Assumptions C02_edge_valid_spec.
