(* C02 property theorems only: each closed by `exact <lemma>` with Print Assumptions beneath. *)
From Coq Require Import ZArith List Bool Permutation.
Import ListNotations.
Require Import MV.C02.Proofs.
Open Scope Z_scope.

(* the generated validity predicate says what the property says *)
Theorem C02_edge_valid_spec : forall a b N, edge_valid a b N = true <-> (a <> b /\ 0 <= a < N /\ 0 <= b < N).
Proof. exact edge_valid_spec. Qed.
Print Assumptions C02_edge_valid_spec.

(* edge list = surviving declared edges (keyified, in order) ++ surviving new face sides (in face order);
   the added sides are duplicate-free, disjoint from the declared ones, are sides of faces, cover every side;
   every final edge is (a,b) with 0 <= a < b < n *)
Theorem C02_edges : forall c r r', prepare c r = Ok r' ->
  let N := zlen (vertices r) in
  edges r' = norm_edges N (edges r) ++ filter (evalid N) (added_edges c r)
  /\ NoDup (edges r')
  /\ NoDup (added_edges c r)
  /\ (forall e, In e (added_edges c r) -> ~ In e (map kedge (edges r)))
  /\ (forall e, In e (added_edges c r) -> exists f, In f (faces r') /\ In e (face_sides f))
  /\ (snd c = true -> forall f s, In f (faces r') -> In s (face_sides f) ->
        In s (map kedge (edges r) ++ added_edges c r))
  /\ Forall (edge_ok N) (edges r').
Proof. exact edges_thm. Qed.
Print Assumptions C02_edges.

(* the declared part: exactly the valid keyified declared edges, each pair once (first declaration), duplicate-free *)
Theorem C02_norm_edges : forall N E, NoDup (norm_edges N E) /\
  forall e, In e (norm_edges N E) <-> In e (filter (evalid N) (map kedge E)).
Proof. exact (fun N E => conj (norm_edges_NoDup N E) (norm_edges_In N E)). Qed.
Print Assumptions C02_norm_edges.

(* a side of a face = two cyclically consecutive vertices, low index first (pins the generated index formula) *)
Theorem C02_face_sides_spec : forall f, face_sides f = map (fun ab => kedge2 (fst ab) (snd ab)) (cyc_pairs f).
Proof. exact face_sides_spec. Qed.
Print Assumptions C02_face_sides_spec.

Theorem C02_kedge_minmax : forall a b, kedge2 a b = (Z.min a b, Z.max a b).
Proof. exact kedge2_minmax. Qed.
Print Assumptions C02_kedge_minmax.

Theorem C02_sides_present : forall c r r', prepare c r = Ok r' -> snd c = true ->
  forall f s, In f (faces r') -> In s (face_sides f) -> evalid (zlen (vertices r)) s = true -> In s (edges r').
Proof. exact sides_present. Qed.
Print Assumptions C02_sides_present.

Theorem C02_added_side_once : forall c r r', prepare c r = Ok r' ->
  forall e, In e (added_edges c r) -> evalid (zlen (vertices r)) e = true -> count_occ edge_dec (edges r') e = 1%nat.
Proof. exact added_side_once. Qed.
Print Assumptions C02_added_side_once.

(* the j-th surviving declared edge (old index i) is the j-th final edge and reads its old attribute value there *)
Theorem C02_surviving_edges_order : forall N E,
  map (fun i => kedge (znth E i (0, 0))) (kept_idx N E) = norm_edges N E.
Proof. exact kept_idx_survivors. Qed.
Print Assumptions C02_surviving_edges_order.

Theorem C02_edge_attributes : forall c r r', prepare c r = Ok r' ->
  forall p name a, nth_error (eattrs r) p = Some (name, a) ->
  exists a', nth_error (eattrs r') p = Some (name, a')
    /\ attr_default a' = attr_default a
    /\ forall j i, nth_error (kept_idx (zlen (vertices r)) (edges r)) j = Some i ->
                   attr_get a' (Z.of_nat j) = attr_get a i.
Proof. exact attrs_thm. Qed.
Print Assumptions C02_edge_attributes.

Theorem C02_hard_edges : forall c r r', prepare c r = Ok r' -> attr_lookup HARD (eattrs r) = None ->
  let nd := zlen (norm_edges (zlen (vertices r)) (edges r)) in
  (snd c = true -> faces r' <> [] ->
     exists h, attr_lookup HARD (eattrs r') = Some h /\
               forall j, 0 <= j < zlen (edges r') -> (attr_get h j = 1 <-> j < nd) /\ (attr_get h j = 0 <-> nd <= j))
  /\ ((snd c = false \/ faces r' = []) -> attr_lookup HARD (eattrs r') = None).
Proof. exact hard_edges_thm. Qed.
Print Assumptions C02_hard_edges.

(* faces completed from cells *)
Theorem C02_faces_from_cells : forall c r r', prepare c r = Ok r' ->
  faces r' = faces r ++ added_faces c r /\ cells r' = cells r
  /\ NoDup (map keyify (added_faces c r))
  /\ (forall f, In f (added_faces c r) ->
        ~ In (keyify f) (map keyify (faces r)) /\ exists C, In C (cells r) /\ In f (cfc_cell_faces C))
  /\ (fst c = true -> forall C f, In C (cells r) -> In f (cfc_cell_faces C) -> In (keyify f) (map keyify (faces r'))).
Proof. exact faces_thm. Qed.
Print Assumptions C02_faces_from_cells.

Theorem C02_tet_faces_opposite : forall v0 v1 v2 v3,
  let C := [v0; v1; v2; v3] in
  length (cfc_cell_faces C) = 4%nat /\
  forall i f v, nth_error (cfc_cell_faces C) i = Some f -> nth_error C i = Some v ->
                length f = 3%nat /\ Permutation (v :: f) C.
Proof. exact tet_faces_opposite. Qed.
Print Assumptions C02_tet_faces_opposite.

Theorem C02_hex_faces_shape : forall v0 v1 v2 v3 v4 v5 v6 v7,
  let C := [v0; v1; v2; v3; v4; v5; v6; v7] in
  length (cfc_cell_faces C) = 6%nat /\ Forall (fun f => length f = 4%nat /\ incl f C) (cfc_cell_faces C).
Proof. exact hex_faces_shape. Qed.
Print Assumptions C02_hex_faces_shape.

(* the two index tables (finite constants): natural in the cell, closed surfaces, 3 faces per vertex *)
Theorem C02_tables : (forall v0 v1 v2 v3,
     cfc_cell_faces [v0; v1; v2; v3] = map (map (fun i => znth [v0; v1; v2; v3] i 0)) tet_index_table)
  /\ (forall v0 v1 v2 v3 v4 v5 v6 v7, cfc_cell_faces [v0; v1; v2; v3; v4; v5; v6; v7] =
        map (map (fun i => znth [v0; v1; v2; v3; v4; v5; v6; v7] i 0)) hex_index_table)
  /\ closed_table tet_index_table = true /\ closed_table hex_index_table = true
  /\ forallb (fun v => Nat.eqb (vertex_degree hex_index_table v) 3) [0; 1; 2; 3; 4; 5; 6; 7] = true
  /\ (forall C, (length C = 4%nat \/ length C = 8%nat) -> gcf_cell_faces C = Some (cfc_cell_faces C)).
Proof. exact tables_thm. Qed.
Print Assumptions C02_tables.

Theorem C02_cell_faces : forall c r r', cf_elem r = [] -> cf_adj r = [] -> Forall cell_ok (cells r) -> prepare c r = Ok r' ->
  cf_adj r' = cf_owners (enumerate (cells r)) /\
  Forall2 (face_ref (faces r')) (cf_elem r') (flat_map cfc_cell_faces (cells r)).
Proof. exact cell_faces_thm. Qed.
Print Assumptions C02_cell_faces.

Theorem C02_prepare_total : forall c r, fst c = true -> cf_elem r = [] -> cf_adj r = [] -> Forall cell_ok (cells r) ->
  exists r', prepare c r = Ok r'.
Proof. exact prepare_total. Qed.
Print Assumptions C02_prepare_total.

(* corner records *)
Theorem C02_corners : forall c r r', fc_elem r = [] -> cc_elem r = [] -> cc_adj r = [] -> prepare c r = Ok r' ->
  combine (fc_elem r') (fc_adj r') = incidences (faces r')
  /\ fc_elem r' = concat (faces r') /\ fc_adj r' = owners (faces r') /\ zlen (fc_elem r') = sum_len (faces r')
  /\ combine (cc_elem r') (cc_adj r') = incidences (cells r')
  /\ cc_elem r' = concat (cells r') /\ cc_adj r' = owners (cells r') /\ zlen (cc_elem r') = sum_len (cells r').
Proof. exact corners_thm. Qed.
Print Assumptions C02_corners.

(* class selection *)
Theorem C02_class : forall c dim r k r', instanciate c dim r = Ok (k, r') ->
  prepare c r = Ok r'
  /\ k = Z.max (match dim with Some x => x | None => -1 end) (top_dim r')
  /\ 0 <= k <= 3
  /\ mesh_has_edges k = (1 <=? k) /\ mesh_has_faces k = (2 <=? k) /\ mesh_has_cells k = (3 <=? k).
Proof. exact class_thm. Qed.
Print Assumptions C02_class.

(* from_arrays: 3-D vertices (zero padding), rejected indices *)
Theorem C02_from_arrays_3d : forall c w V E F C k r', (forall v, In v V -> zlen v = w) ->
  from_arrays c w V E F C = Ok (k, r') ->
  w <= 3 /\ vertices r' = map (fun v => v ++ repeat 0 (Z.to_nat (3 - w))) V
  /\ Forall (fun v => length v = 3%nat) (vertices r')
  /\ (forall e, In e E -> fst e < zlen V /\ snd e < zlen V)
  /\ (forall f x, In f (F ++ C) -> In x f -> x < zlen V)
  /\ k = top_dim r'.
Proof. exact from_arrays_thm. Qed.
Print Assumptions C02_from_arrays_3d.

(* building again from the built mesh: same class, same containers, attributes equal as total maps over the edges;
   and the re-wrapped data satisfies the hypothesis again (so: any number of rebuilds) *)
Theorem C02_rebuild_changes_nothing : forall c dim r k r1, wf_corners r -> instanciate c dim r = Ok (k, r1) ->
  wf_corners (rewrap k r1) /\
  exists r2, instanciate c dim (rewrap k r1) = Ok (k, r2) /\ raw_equiv r2 (rewrap k r1).
Proof. exact rebuild_thm. Qed.
Print Assumptions C02_rebuild_changes_nothing.

(* what `prepared` means, and that prepare() is a no-op (up to attribute representation) on any such object *)
Theorem C02_prepared_stable : forall c p, prepared c p -> exists p2, prepare c p = Ok p2 /\ raw_equiv p2 p.
Proof. exact prepared_stable. Qed.
Print Assumptions C02_prepared_stable.

Theorem C02_prepare_gives_prepared : forall c r r1, wf_corners r -> prepare c r = Ok r1 -> prepared c r1 /\ wf_corners r1.
Proof. exact prepare_gives_prepared. Qed.
Print Assumptions C02_prepare_gives_prepared.

(* clear() (generated from data_container.py) leaves both lists of a corner container empty *)
Theorem C02_corner_clear_spec : forall e a, corner_clear e a = ([], []).
Proof. exact corner_clear_spec. Qed.
Print Assumptions C02_corner_clear_spec.

(* re-wrapped data edited in any way (r arbitrary), its three corner containers cleared, built again: one (element, owner)
   record per face-vertex, cell-vertex and cell-face incidence of the NEW faces and cells, owners included *)
Theorem C02_rebuild_after_clear_and_edit : forall c r p2, Forall cell_ok (cells r) -> prepare c (clear3 r) = Ok p2 ->
  combine (fc_elem p2) (fc_adj p2) = incidences (faces p2)
  /\ combine (cc_elem p2) (cc_adj p2) = incidences (cells p2)
  /\ cells p2 = cells r
  /\ cf_adj p2 = cf_owners (enumerate (cells r))
  /\ Forall2 (face_ref (faces p2)) (cf_elem p2) (flat_map cfc_cell_faces (cells r))
  /\ length (cf_elem p2) = length (cf_adj p2).
Proof. exact rebuild_after_clear_thm. Qed.
Print Assumptions C02_rebuild_after_clear_and_edit.

(* RawMeshData(mesh), clear() of any corner containers, build again: nothing changes *)
Theorem C02_rebuild_after_clears_changes_nothing : forall c dim r k r1 es,
  fresh_corners r -> instanciate c dim r = Ok (k, r1) -> Forall is_corner_clear es ->
  exists r2, rebuild c dim es k r1 = Ok (k, r2) /\ raw_equiv r2 (rewrap k r1).
Proof. exact rebuild_after_clears_thm. Qed.
Print Assumptions C02_rebuild_after_clears_changes_nothing.

(* the face-corner guard: regenerated when there are none or their number is not the number of face-vertex incidences;
   hence faces appended to / removed from a re-wrapped mesh WITHOUT clearing face_corners still get their records *)
Theorem C02_fc_regen_spec : forall nc nf, fc_regen nc nf = true <-> (nc = 0 \/ nc <> nf).
Proof. exact fc_regen_spec. Qed.
Print Assumptions C02_fc_regen_spec.

Theorem C02_face_corners_regenerated : forall c r r', prepare c r = Ok r' ->
  (zlen (fc_elem r) = 0 \/ zlen (fc_elem r) <> sum_len (faces r')) ->
  combine (fc_elem r') (fc_adj r') = incidences (faces r') /\ zlen (fc_elem r') = sum_len (faces r').
Proof. exact face_corners_regenerated. Qed.
Print Assumptions C02_face_corners_regenerated.

(* 3-D vertices however the raw data came: 2-D points are padded with 0, 3-D points are kept; a point of any other width is
   left as it is (only from_arrays pads 1-D points and rejects wider ones) *)
Theorem C02_vertices_3d : forall c r r', prepare c r = Ok r' ->
  vertices r' = map prep_vertex (vertices r)
  /\ (forall x y, prep_vertex [x; y] = [x; y; 0])
  /\ (forall v, zlen v <> 2 -> prep_vertex v = v)
  /\ (Forall (fun v => zlen v = 2 \/ zlen v = 3) (vertices r) -> Forall (fun v => length v = 3%nat) (vertices r')).
Proof. exact vertices_3d_thm. Qed.
Print Assumptions C02_vertices_3d.

(* every edge exactly once: the whole final edge list is duplicate-free, without any guard (an edge declared more than once
   is kept once, with the attribute values of its first declaration - C02_edge_attributes speaks of kept_idx) *)
Theorem C02_edges_nodup : forall c r r', prepare c r = Ok r' -> NoDup (edges r').
Proof. exact edges_nodup. Qed.
Print Assumptions C02_edges_nodup.

(* the edge list holds exactly the valid declared edges and the valid sides of the faces *)
Theorem C02_edges_members : forall c r r', prepare c r = Ok r' -> snd c = true ->
  forall e, In e (edges r') <->
    (evalid (zlen (vertices r)) e = true /\ (In e (map kedge (edges r)) \/ exists f, In f (faces r') /\ In e (face_sides f))).
Proof. exact edges_members. Qed.
Print Assumptions C02_edges_members.

Theorem C02_side_once : forall c r r', prepare c r = Ok r' -> snd c = true ->
  forall f s, In f (faces r') -> In s (face_sides f) -> evalid (zlen (vertices r)) s = true ->
              count_occ edge_dec (edges r') s = 1%nat.
Proof. exact side_once. Qed.
Print Assumptions C02_side_once.

(* every edge of the final list, declared or added, occurs exactly once *)
Theorem C02_edge_once : forall c r r', prepare c r = Ok r' ->
  forall e, In e (edges r') -> count_occ edge_dec (edges r') e = 1%nat.
Proof. exact edge_once. Qed.
Print Assumptions C02_edge_once.

(* corner containers pre-filled by the importers (face corners / cell corners of the faces / cells they read) *)
Theorem C02_corners_prefilled : forall c r r', prepare c r = Ok r' -> fc_incoming_ok r -> cc_incoming_ok r ->
  fc_elem r' = concat (faces r') /\ fc_adj r' = owners (faces r')
  /\ combine (fc_elem r') (fc_adj r') = incidences (faces r')
  /\ cc_elem r' = concat (cells r') /\ cc_adj r' = owners (cells r')
  /\ combine (cc_elem r') (cc_adj r') = incidences (cells r').
Proof. exact corners_prefilled_thm. Qed.
Print Assumptions C02_corners_prefilled.

(* after a construction that raised (a cell's face missing, completion off) the raw data object carries every earlier
   step and an untouched cell_faces container: the caller can supply the faces and build the same object again *)
Theorem C02_failed_prepare_left : forall c r e, prepare c r = Err e ->
  prepare_left c r = stage5 c r
  /\ cf_elem (prepare_left c r) = cf_elem r /\ cf_adj (prepare_left c r) = cf_adj r.
Proof. exact failed_prepare_left. Qed.
Print Assumptions C02_failed_prepare_left.
