(* C02 - the edge list of the finished object. *)
From Coq Require Import ZArith List Bool Lia.
Import ListNotations.
Require Import MV.Lib.Base MV.C02.Defs MV.C02.Gen MV.C02.Model MV.C02.Proofs_Base MV.C02.Proofs_Steps.
Open Scope Z_scope.

Lemma face_side_keyed f s : In s (face_sides f) -> kedge s = s.
Proof. unfold face_sides. intros H. apply in_map_iff in H as [i [<- _]]. apply kedge_kedge2. Qed.

Lemma new_sides_In es fs e : In e (new_sides es fs) ->
  (exists f, In f fs /\ In e (face_sides f)) /\ ~ In e (map kedge es).
Proof.
  unfold new_sides. intros H. apply (fresh_In edge_eqb (fun e => e) edge_eqb_spec) in H as [H1 H2].
  split; [|assumption]. apply in_flat_map in H1. exact H1.
Qed.

Lemma added_edges_In c r e : In e (added_edges c r) ->
  (exists f, In f (faces r ++ added_faces c r) /\ In e (face_sides f)) /\ ~ In e (map kedge (edges r)).
Proof. unfold added_edges. destruct (_ && _); [apply new_sides_In | contradiction]. Qed.

Lemma added_edges_keyed c r : map kedge (added_edges c r) = added_edges c r.
Proof.
  apply map_id_in. intros e H. apply added_edges_In in H as [[f [_ Hs]] _]. eapply face_side_keyed; eauto.
Qed.

Lemma added_edges_NoDup c r : NoDup (added_edges c r).
Proof. unfold added_edges, new_sides. destruct (_ && _); [apply fresh_id_NoDup | constructor]. Qed.

Lemma added_edges_complete c r f s : snd c = true -> In f (faces r ++ added_faces c r) -> In s (face_sides f) ->
  In s (map kedge (edges r) ++ added_edges c r).
Proof.
  intros Hc Hf Hs. unfold added_edges. rewrite Hc.
  assert (Hne : nonempty (faces r ++ added_faces c r) = true) by (destruct (faces r ++ added_faces c r); [contradiction | reflexivity]).
  rewrite Hne. cbn. apply in_or_app. unfold new_sides.
  destruct (fresh_complete edge_eqb (fun e : edge => e) edge_eqb_spec (map kedge (edges r))
              (flat_map face_sides (faces r ++ added_faces c r)) s) as [H|H].
  - apply in_flat_map. eauto.
  - now left.
  - right. now rewrite map_id in H.
Qed.

Definition edge_ok (N : Z) (e : edge) : Prop := 0 <= fst e < snd e /\ snd e < N.

Lemma NoDup_app_disj {A} (l1 l2 : list A) :
  NoDup l1 -> NoDup l2 -> (forall x, In x l1 -> ~ In x l2) -> NoDup (l1 ++ l2).
Proof.
  induction l1 as [|a t IH]; cbn; intros H1 H2 Hd; [assumption|].
  inversion H1; subst. constructor.
  - intros Hin. apply in_app_or in Hin as [Hin|Hin]; [contradiction | apply (Hd a); auto].
  - apply IH; auto.
Qed.

Lemma NoDup_filter' {A} (p : A -> bool) l : NoDup l -> NoDup (filter p l).
Proof.
  induction 1 as [|a t Hn Hd IH]; cbn; [constructor|]. destruct (p a); [|assumption].
  constructor; [|assumption]. intros Hin. apply filter_In in Hin as [Hin _]. contradiction.
Qed.

(* the declared part of the final list: exactly the valid keyified declared edges, each once *)
Lemma norm_edges_In N E e : In e (norm_edges N E) <-> In e (filter (evalid N) (map kedge E)).
Proof.
  unfold norm_edges. split.
  - intros H. now apply (fresh_In edge_eqb (fun e => e) edge_eqb_spec) in H as [H _].
  - intros H. destruct (fresh_complete edge_eqb (fun e : edge => e) edge_eqb_spec [] _ e H) as [[]|H1].
    now rewrite map_id in H1.
Qed.

Lemma norm_edges_NoDup N E : NoDup (norm_edges N E).
Proof. apply fresh_id_NoDup. Qed.

Theorem edges_thm c r r' : prepare c r = Ok r' ->
  let N := zlen (vertices r) in
  edges r' = norm_edges N (edges r) ++ filter (evalid N) (added_edges c r)
  /\ NoDup (edges r')
  /\ NoDup (added_edges c r)
  /\ (forall e, In e (added_edges c r) -> ~ In e (map kedge (edges r)))
  /\ (forall e, In e (added_edges c r) -> exists f, In f (faces r') /\ In e (face_sides f))
  /\ (snd c = true -> forall f s, In f (faces r') -> In s (face_sides f) ->
        In s (map kedge (edges r) ++ added_edges c r))
  /\ Forall (edge_ok N) (edges r').
Proof.
  intros H N. apply prepare_fields in H as (Hv & Hc & Hf & He). fold N in He.
  set (E := edges r) in *. set (A := added_edges c r) in *.
  assert (Hdis : forall e, In e A -> ~ In e (map kedge E)) by (intros e Hin; now apply added_edges_In in Hin).
  assert (HeA : filter (evalid N) A = fresh edge_eqb (fun e => e)
                   (rev (fresh edge_eqb (fun e => e) [] (filter (evalid N) (map kedge E))) ++ []) (filter (evalid N) A)).
  { symmetry. apply fresh_all_id; [apply NoDup_filter', added_edges_NoDup|].
    intros x Hx Hs. rewrite app_nil_r in Hs. apply in_rev in Hs.
    apply (fresh_In edge_eqb (fun e => e) edge_eqb_spec) in Hs as [Hs _].
    apply filter_In in Hs as [Hs _]. apply filter_In in Hx as [Hx _]. now apply (Hdis x). }
  assert (Heq : edges r' = norm_edges N E ++ filter (evalid N) A).
  { rewrite He. unfold norm_edges. rewrite map_app, filter_app. unfold A at 1. rewrite added_edges_keyed. fold A.
    rewrite fresh_app_id. now rewrite <- HeA. }
  split; [exact Heq|]. split.
  { rewrite Heq. apply NoDup_app_disj; [apply norm_edges_NoDup | apply NoDup_filter', added_edges_NoDup|].
    intros x Hx Hy. apply norm_edges_In, filter_In in Hx as [Hx _]. apply filter_In in Hy as [Hy _]. now apply (Hdis x). }
  split; [apply added_edges_NoDup|]. split; [exact Hdis|].
  split; [intros e Hin; rewrite Hf; now apply added_edges_In in Hin|].
  split; [intros Hs f s; rewrite Hf; now apply added_edges_complete|].
  rewrite Heq. apply Forall_forall. intros e Hin. apply in_app_or in Hin as [Hin|Hin].
  - apply norm_edges_In, filter_In in Hin as [Hin Hval]. apply in_map_iff in Hin as [e0 [<- _]]. now apply evalid_keyed_range.
  - apply filter_In in Hin as [Hin Hval]. apply added_edges_In in Hin as [[f [_ Hs]] _].
    rewrite <- (face_side_keyed f e Hs) in *. now apply evalid_keyed_range.
Qed.

(* every valid side of every face is an edge of the finished object, when completion is on *)
Corollary sides_present c r r' : prepare c r = Ok r' -> snd c = true ->
  forall f s, In f (faces r') -> In s (face_sides f) -> evalid (zlen (vertices r)) s = true -> In s (edges r').
Proof.
  intros H Hc f s Hf Hs Hv. destruct (edges_thm c r r' H) as (He & _ & _ & _ & _ & Hall & _).
  rewrite He. apply in_or_app. destruct (in_app_or _ _ _ (Hall Hc f s Hf Hs)) as [Hin|Hin].
  - left. apply norm_edges_In, filter_In. auto.
  - right. apply filter_In. auto.
Qed.

(* every edge of the final list - declared or added - occurs exactly once *)
Definition edge_dec (x y : edge) : {x = y} + {x <> y}.
Proof. decide equality; apply Z.eq_dec. Defined.

Corollary edge_once c r r' : prepare c r = Ok r' ->
  forall e, In e (edges r') -> count_occ edge_dec (edges r') e = 1%nat.
Proof.
  intros H e Hin. destruct (edges_thm c r r' H) as (_ & Hnd & _). now apply NoDup_count_occ'.
Qed.

Corollary added_side_once c r r' : prepare c r = Ok r' ->
  forall e, In e (added_edges c r) -> evalid (zlen (vertices r)) e = true -> count_occ edge_dec (edges r') e = 1%nat.
Proof.
  intros H e Hin Hv. apply (edge_once c r r' H). destruct (edges_thm c r r' H) as (He & _). rewrite He.
  apply in_or_app. right. apply filter_In. auto.
Qed.

(* ------------------------------------------------------------ what a "side" is: consecutive vertices, cyclically
   (pins the generated index formula side_a / side_b) *)
Definition rot1 (f : list Z) : list Z := match f with [] => [] | a :: t => t ++ [a] end.
Definition cyc_pairs (f : list Z) : list (Z * Z) := combine f (rot1 f).

Lemma rot1_length f : length (rot1 f) = length f.
Proof. destruct f; cbn; [reflexivity|]. rewrite app_length. cbn. lia. Qed.

Lemma rot1_nth f k : (k < length f)%nat -> nth k (rot1 f) 0 = znth f ((Z.of_nat k + 1) mod zlen f) 0.
Proof.
  destruct f as [|a t]; cbn [length]; [lia|]. intros Hk. unfold rot1, znth, zlen. cbn [length].
  destruct (Nat.eq_dec (S k) (S (length t))) as [E|E].
  - replace ((Z.of_nat k + 1) mod Z.of_nat (S (length t))) with 0.
    + cbn. rewrite app_nth2 by lia. replace (k - length t)%nat with 0%nat by lia. reflexivity.
    + replace (Z.of_nat k + 1) with (Z.of_nat (S (length t))) by lia. now rewrite Z.mod_same by lia.
  - rewrite Z.mod_small by lia.
    destruct (Z.of_nat k + 1 <? 0) eqn:L; [lia|].
    replace (Z.to_nat (Z.of_nat k + 1)) with (S k) by lia. cbn. rewrite app_nth1 by lia. reflexivity.
Qed.

Lemma nth_zrange n k : (k < Z.to_nat n)%nat -> nth k (zrange n) 0 = Z.of_nat k.
Proof.
  intros H. unfold zrange. change 0 with (Z.of_nat 0). rewrite map_nth. f_equal. rewrite seq_nth by assumption. lia.
Qed.

Theorem face_sides_spec f : face_sides f = map (fun ab => kedge2 (fst ab) (snd ab)) (cyc_pairs f).
Proof.
  assert (Hn : Z.to_nat (zlen f) = length f) by (unfold zlen; lia).
  apply (nth_ext _ _ (0, 0) (0, 0)).
  - unfold face_sides, cyc_pairs. rewrite !map_length, zrange_length, combine_length, rot1_length. lia.
  - intros k Hk. unfold face_sides in *. rewrite map_length, zrange_length, Hn in Hk.
    set (g := fun i => kedge2 (znth f (side_a i (zlen f)) 0) (znth f (side_b i (zlen f)) 0)).
    set (h := fun ab : Z * Z => kedge2 (fst ab) (snd ab)).
    rewrite (nth_indep (map g _) (0, 0) (g 0)) by (rewrite map_length, zrange_length; lia).
    rewrite map_nth, nth_zrange by lia.
    rewrite (nth_indep (map h _) (0, 0) (h (0, 0))) by (unfold cyc_pairs; rewrite map_length, combine_length, rot1_length; lia).
    rewrite map_nth. unfold cyc_pairs. rewrite combine_nth by (now rewrite rot1_length).
    unfold g, h, side_a, side_b. cbn [fst snd]. rewrite rot1_nth by assumption. f_equal.
    unfold znth. destruct (Z.of_nat k <? 0) eqn:L; [lia|]. now rewrite Nat2Z.id.
Qed.
