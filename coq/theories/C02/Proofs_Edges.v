(* C02 - the edge list of the finished object. *)
From Coq Require Import ZArith List Bool Lia.
Import ListNotations.
Require Import MV.Lib.Base MV.C02.Defs MV.C02.Gen MV.C02.Model MV.C02.Proofs_Base MV.C02.Proofs_Steps.
Open Scope Z_scope.

Lemma face_side_keyed f s : In s (face_sides f) -> kedge s = s.
Proof. unfold face_sides. intros H. apply in_map_iff in H as [i [<- _]]. apply kedge_kedge2. Qed.

Lemma new_sides_In es fs e : In e (new_sides es fs) ->
  (exists f, In f fs /\ In e (face_sides f)) /\ ~ In e (map kedge es).
Proof.
  unfold new_sides. intros H. apply (fresh_In edge_eqb (fun e => e) edge_eqb_spec) in H as [H1 H2].
  split; [|assumption]. apply in_flat_map in H1. exact H1.
Qed.

Lemma added_edges_In c r e : In e (added_edges c r) ->
  (exists f, In f (faces r ++ added_faces c r) /\ In e (face_sides f)) /\ ~ In e (map kedge (edges r)).
Proof. unfold added_edges. destruct (_ && _); [apply new_sides_In | contradiction]. Qed.

Lemma added_edges_keyed c r : map kedge (added_edges c r) = added_edges c r.
Proof.
  apply map_id_in. intros e H. apply added_edges_In in H as [[f [_ Hs]] _]. eapply face_side_keyed; eauto.
Qed.

Lemma added_edges_NoDup c r : NoDup (added_edges c r).
Proof. unfold added_edges, new_sides. destruct (_ && _); [apply fresh_id_NoDup | constructor]. Qed.

Lemma added_edges_complete c r f s : snd c = true -> In f (faces r ++ added_faces c r) -> In s (face_sides f) ->
  In s (map kedge (edges r) ++ added_edges c r).
Proof.
  intros Hc Hf Hs. unfold added_edges. rewrite Hc.
  assert (Hne : nonempty (faces r ++ added_faces c r) = true) by (destruct (faces r ++ added_faces c r); [contradiction | reflexivity]).
  rewrite Hne. cbn. apply in_or_app. unfold new_sides.
  destruct (fresh_complete edge_eqb (fun e : edge => e) edge_eqb_spec (map kedge (edges r))
              (flat_map face_sides (faces r ++ added_faces c r)) s) as [H|H].
  - apply in_flat_map. eauto.
  - now left.
  - right. now rewrite map_id in H.
Qed.

Definition edge_ok (N : Z) (e : edge) : Prop := 0 <= fst e < snd e /\ snd e < N.

Theorem edges_thm c r r' : prepare c r = Ok r' ->
  let N := zlen (vertices r) in
  edges r' = filter (evalid N) (map kedge (edges r)) ++ filter (evalid N) (added_edges c r)
  /\ NoDup (added_edges c r)
  /\ (forall e, In e (added_edges c r) -> ~ In e (map kedge (edges r)))
  /\ (forall e, In e (added_edges c r) -> exists f, In f (faces r') /\ In e (face_sides f))
  /\ (snd c = true -> forall f s, In f (faces r') -> In s (face_sides f) ->
        In s (map kedge (edges r) ++ added_edges c r))
  /\ Forall (edge_ok N) (edges r').
Proof.
  intros H N. apply prepare_fields in H as (Hv & Hc & Hf & He). fold N in He.
  rewrite map_app, filter_app, added_edges_keyed in He.
  split; [exact He|]. split; [apply added_edges_NoDup|].
  split; [intros e Hin; now apply added_edges_In in Hin|].
  split; [intros e Hin; rewrite Hf; now apply added_edges_In in Hin|].
  split; [intros Hs f s; rewrite Hf; now apply added_edges_complete|].
  rewrite He, <- added_edges_keyed, <- filter_app, <- map_app. apply Forall_forall. intros e Hin.
  apply filter_In in Hin as [Hin Hval]. apply in_map_iff in Hin as [e0 [<- _]].
  now apply evalid_keyed_range.
Qed.

(* every valid side of every face is an edge of the finished object, when completion is on *)
Corollary sides_present c r r' : prepare c r = Ok r' -> snd c = true ->
  forall f s, In f (faces r') -> In s (face_sides f) -> evalid (zlen (vertices r)) s = true -> In s (edges r').
Proof.
  intros H Hc f s Hf Hs Hv. destruct (edges_thm c r r' H) as (He & _ & _ & _ & Hall & _).
  rewrite He, <- filter_app. apply filter_In. split; [|assumption]. eapply Hall; eauto.
Qed.

(* an added side occurs exactly once in the final edge list *)
Definition edge_dec (x y : edge) : {x = y} + {x <> y}.
Proof. decide equality; apply Z.eq_dec. Defined.

Lemma count_occ_filter_le (p : edge -> bool) l e : (count_occ edge_dec (filter p l) e <= count_occ edge_dec l e)%nat.
Proof.
  induction l as [|x t IH]; cbn; [lia|]. destruct (p x); cbn; destruct (edge_dec x e); lia.
Qed.

Corollary added_side_once c r r' : prepare c r = Ok r' ->
  forall e, In e (added_edges c r) -> evalid (zlen (vertices r)) e = true -> count_occ edge_dec (edges r') e = 1%nat.
Proof.
  intros H e Hin Hv. destruct (edges_thm c r r' H) as (He & Hnd & Hdis & _).
  rewrite He, count_occ_app.
  assert (H0 : count_occ edge_dec (filter (evalid (zlen (vertices r))) (map kedge (edges r))) e = 0%nat).
  { apply count_occ_not_In. intros Hx. apply filter_In in Hx as [Hx _]. now apply (Hdis e). }
  assert (H1 : (count_occ edge_dec (filter (evalid (zlen (vertices r))) (added_edges c r)) e >= 1)%nat).
  { apply count_occ_In. apply filter_In. auto. }
  pose proof (count_occ_filter_le (evalid (zlen (vertices r))) (added_edges c r) e) as H2.
  assert (H3 : count_occ edge_dec (added_edges c r) e = 1%nat) by (apply NoDup_count_occ'; assumption).
  lia.
Qed.

(* ------------------------------------------------------------ what a "side" is: consecutive vertices, cyclically
   (pins the generated index formula side_a / side_b) *)
Definition rot1 (f : list Z) : list Z := match f with [] => [] | a :: t => t ++ [a] end.
Definition cyc_pairs (f : list Z) : list (Z * Z) := combine f (rot1 f).

Lemma rot1_length f : length (rot1 f) = length f.
Proof. destruct f; cbn; [reflexivity|]. rewrite app_length. cbn. lia. Qed.

Lemma rot1_nth f k : (k < length f)%nat -> nth k (rot1 f) 0 = znth f ((Z.of_nat k + 1) mod zlen f) 0.
Proof.
  destruct f as [|a t]; cbn [length]; [lia|]. intros Hk. unfold rot1, znth, zlen. cbn [length].
  destruct (Nat.eq_dec (S k) (S (length t))) as [E|E].
  - replace ((Z.of_nat k + 1) mod Z.of_nat (S (length t))) with 0.
    + cbn. rewrite app_nth2 by lia. replace (k - length t)%nat with 0%nat by lia. reflexivity.
    + replace (Z.of_nat k + 1) with (Z.of_nat (S (length t))) by lia. now rewrite Z.mod_same by lia.
  - rewrite Z.mod_small by lia.
    destruct (Z.of_nat k + 1 <? 0) eqn:L; [lia|].
    replace (Z.to_nat (Z.of_nat k + 1)) with (S k) by lia. cbn. rewrite app_nth1 by lia. reflexivity.
Qed.

Lemma nth_zrange n k : (k < Z.to_nat n)%nat -> nth k (zrange n) 0 = Z.of_nat k.
Proof.
  intros H. unfold zrange. change 0 with (Z.of_nat 0). rewrite map_nth. f_equal. rewrite seq_nth by assumption. lia.
Qed.

Theorem face_sides_spec f : face_sides f = map (fun ab => kedge2 (fst ab) (snd ab)) (cyc_pairs f).
Proof.
  assert (Hn : Z.to_nat (zlen f) = length f) by (unfold zlen; lia).
  apply (nth_ext _ _ (0, 0) (0, 0)).
  - unfold face_sides, cyc_pairs. rewrite !map_length, zrange_length, combine_length, rot1_length. lia.
  - intros k Hk. unfold face_sides in *. rewrite map_length, zrange_length, Hn in Hk.
    set (g := fun i => kedge2 (znth f (side_a i (zlen f)) 0) (znth f (side_b i (zlen f)) 0)).
    set (h := fun ab : Z * Z => kedge2 (fst ab) (snd ab)).
    rewrite (nth_indep (map g _) (0, 0) (g 0)) by (rewrite map_length, zrange_length; lia).
    rewrite map_nth, nth_zrange by lia.
    rewrite (nth_indep (map h _) (0, 0) (h (0, 0))) by (unfold cyc_pairs; rewrite map_length, combine_length, rot1_length; lia).
    rewrite map_nth. unfold cyc_pairs. rewrite combine_nth by (now rewrite rot1_length).
    unfold g, h, side_a, side_b. cbn [fst snd]. rewrite rot1_nth by assumption. f_equal.
    unfold znth. destruct (Z.of_nat k <? 0) eqn:L; [lia|]. now rewrite Nat2Z.id.
Qed.
