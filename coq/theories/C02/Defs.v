(* C02 - basic vocabulary shared by the generated part (Gen.v) and the hand-written model (Model.v). No proofs. *)
From Coq Require Import ZArith List Bool.
Import ListNotations.
Open Scope Z_scope.

(* steps of RawMeshData.prepare and the config switch that gates each *)
Inductive step := SCompleteFaces | SCompleteEdges | SVertices | SEdges | SFaces | SFaceCorners | SCells
                | SCellCorners | SCellFaces | SDim.
Inductive gate := GAlways | GFaces | GEdges.

(* list.sort() on integers: insertion sort, ascending *)
Fixpoint insert_asc (x : Z) (l : list Z) : list Z :=
  match l with
  | [] => [x]
  | y :: t => if x <=? y then x :: l else y :: insert_asc x t
  end.
Fixpoint sort_asc (l : list Z) : list Z :=
  match l with
  | [] => []
  | x :: t => insert_asc x (sort_asc t)
  end.
