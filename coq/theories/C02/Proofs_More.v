(* C02 - (a) duplicate-freeness of the final edge list and its named guard, with the refutation for duplicated declarations;
         (b) corner containers pre-filled by the file importers (obj / off / geogram fill face_corners and cell_corners
             from the faces / cells they read). *)
From Coq Require Import ZArith List Bool Lia.
Import ListNotations.
Require Import MV.Lib.Base MV.C02.Defs MV.C02.Gen MV.C02.Model MV.C02.Proofs_Base MV.C02.Proofs_Steps
               MV.C02.Proofs_Edges MV.C02.Proofs_Faces MV.C02.Proofs_Corners MV.C02.Proofs_Attrs MV.C02.Proofs_Idem
               MV.C02.Proofs_Clear.
Open Scope Z_scope.

(* ------------------------------------------------------------ (a) every edge exactly once: the whole final edge list is
   duplicate-free - an edge declared more than once is kept once (its first declaration) - and holds exactly the valid
   keyified declared edges and the valid sides of the faces *)
Theorem edges_nodup c r r' : prepare c r = Ok r' -> NoDup (edges r').
Proof. intros H. now destruct (edges_thm c r r' H) as (_ & Hnd & _). Qed.

Theorem edges_members c r r' : prepare c r = Ok r' -> snd c = true ->
  forall e, In e (edges r') <->
    (evalid (zlen (vertices r)) e = true /\ (In e (map kedge (edges r)) \/ exists f, In f (faces r') /\ In e (face_sides f))).
Proof.
  intros H Hc e. destruct (edges_thm c r r' H) as (He & _ & _ & _ & Hex & Hall & _). rewrite He. split.
  - intros Hin. apply in_app_or in Hin as [Hin|Hin].
    + apply norm_edges_In, filter_In in Hin as [Hin Hv]. auto.
    + apply filter_In in Hin as [Hin Hv]. split; [assumption|]. right. now apply Hex.
  - intros [Hv [Hin|[f [Hf Hs]]]].
    + apply in_or_app. left. apply norm_edges_In, filter_In. auto.
    + apply in_or_app. destruct (in_app_or _ _ _ (Hall Hc f e Hf Hs)) as [Hin|Hin].
      * left. apply norm_edges_In, filter_In. auto.
      * right. apply filter_In. auto.
Qed.

Corollary side_once c r r' : prepare c r = Ok r' -> snd c = true ->
  forall f s, In f (faces r') -> In s (face_sides f) -> evalid (zlen (vertices r)) s = true ->
              count_occ edge_dec (edges r') s = 1%nat.
Proof. intros H Hc f s Hf Hs Hv. apply (edge_once c r r' H). eapply sides_present; eauto. Qed.

Definition dup_raw : raw :=
  mkRaw [[0; 0; 0]; [1; 0; 0]; [0; 1; 0]] [(0, 1); (1, 0)] [(1, Dense 0 [5; 6])] [[0; 1; 2]] [] [] [] [] [] [] [].

(* the former counter-example: the edge declared twice is kept once, with the value of its first declaration *)
Example dup_raw_once : exists r', prepare (true, true) dup_raw = Ok r'
  /\ edges r' = [(0, 1); (1, 2); (0, 2)]
  /\ map (fun na => map (attr_get (snd na)) (zrange 3)) (eattrs r') = [[5; 0; 0]; [1; 0; 0]].
Proof. eexists. split; [vm_compute; reflexivity|]. split; reflexivity. Qed.

(* ------------------------------------------------------------ (b) pre-filled corner containers *)
Lemma sum_len_app a b : sum_len (a ++ b) = sum_len a + sum_len b.
Proof. unfold sum_len. induction a as [|f t IH]; cbn [app fold_right]; [reflexivity | rewrite IH; lia]. Qed.

Lemma cfc_face_pos C f : In f (cfc_cell_faces C) -> (0 < length f)%nat.
Proof.
  intros H. destruct (Nat.eq_dec (length C) 4) as [E4|N4].
  - destruct C as [|v0 [|v1 [|v2 [|v3 [|v4 C]]]]]; try discriminate E4. cbn in H.
    repeat (destruct H as [H|H]; [subst f; cbn; lia|]). contradiction.
  - destruct (Nat.eq_dec (length C) 8) as [E8|N8].
    + destruct C as [|v0 [|v1 [|v2 [|v3 [|v4 [|v5 [|v6 [|v7 [|v8 C]]]]]]]]]; try discriminate E8. cbn in H.
      repeat (destruct H as [H|H]; [subst f; cbn; lia|]). contradiction.
    + rewrite cfc_other_arity in H by assumption. contradiction.
Qed.

Lemma sum_len_nonneg fs : 0 <= sum_len fs.
Proof.
  unfold sum_len. induction fs as [|f t IH]; cbn [fold_right]; [lia|]. pose proof (zlen_nonneg f). lia.
Qed.

Lemma sum_len_zero_nil fs : (forall f, In f fs -> (0 < length f)%nat) -> sum_len fs = 0 -> fs = [].
Proof.
  destruct fs as [|f t]; [reflexivity|]. intros H Hs. exfalso.
  specialize (H f (or_introl eq_refl)). pose proof (sum_len_nonneg t) as Ht.
  assert (Hf : 0 < zlen f) by (unfold zlen; lia).
  unfold sum_len in *. cbn [fold_right] in Hs. lia.
Qed.

Lemma fcan_fc fs : fcan fc_record fs = (concat fs, owners fs).
Proof. unfold fcan. now rewrite (records_fst fc_record), (records_snd fc_record) by reflexivity. Qed.
Lemma fcan_cc cs : fcan cc_record cs = (concat cs, owners cs).
Proof. unfold fcan. now rewrite (records_fst cc_record), (records_snd cc_record) by reflexivity. Qed.

(* the incoming face corners are either absent or those of the incoming faces; likewise the cell corners *)
Definition fc_incoming_ok (r : raw) : Prop :=
  fc_elem r = [] \/ (fc_elem r = concat (faces r) /\ fc_adj r = owners (faces r)).
Definition cc_incoming_ok (r : raw) : Prop :=
  (cc_elem r = [] /\ cc_adj r = []) \/ (cc_elem r = concat (cells r) /\ cc_adj r = owners (cells r)).

Theorem corners_prefilled_thm c r r' : prepare c r = Ok r' -> fc_incoming_ok r -> cc_incoming_ok r ->
  fc_elem r' = concat (faces r') /\ fc_adj r' = owners (faces r')
  /\ combine (fc_elem r') (fc_adj r') = incidences (faces r')
  /\ cc_elem r' = concat (cells r') /\ cc_adj r' = owners (cells r')
  /\ combine (cc_elem r') (cc_adj r') = incidences (cells r').
Proof.
  intros H Hfc Hcc. pose proof (prepare_fields c r r' H) as (_ & Hcs & Hfs & _).
  rewrite <- (with_corners_eta r), prepare_wc in H. cbn zeta in H.
  set (X := prepare_edges (stage2 c r)) in *.
  assert (XF : faces X = faces r') by (unfold X; now rewrite pe_faces, stage2_faces, stage1_faces, Hfs).
  assert (XC : cells X = cells r') by (unfold X; now rewrite pe_cells, stage2_cells, Hcs).
  destruct (cf_result (faces X) (cells X) (cf_elem r) (cf_adj r)) as [[ke ka]|e]; cbn in H; [|discriminate].
  assert (E1 : fc_elem r' = fst (fc_result (faces X) (fc_elem r) (fc_adj r))) by (inversion H; reflexivity).
  assert (E2 : fc_adj r' = snd (fc_result (faces X) (fc_elem r) (fc_adj r))) by (inversion H; reflexivity).
  assert (E3 : cc_elem r' = fst (cc_result (cells X) (cc_elem r) (cc_adj r))) by (inversion H; reflexivity).
  assert (E4 : cc_adj r' = snd (cc_result (cells X) (cc_elem r) (cc_adj r))) by (inversion H; reflexivity).
  clear H. rewrite XF in E1, E2. rewrite XC in E3, E4.
  assert (F : fc_result (faces r') (fc_elem r) (fc_adj r) = (concat (faces r'), owners (faces r'))).
  { unfold fc_result. destruct (fc_regen (zlen (fc_elem r)) (sum_len (faces r'))) eqn:G; [apply fcan_fc|].
    destruct Hfc as [E0|[Ee Ea]].
    - rewrite E0 in G. discriminate G.
    - apply not_true_iff_false in G. rewrite fc_regen_spec in G.
      assert (Hz : zlen (fc_elem r) = sum_len (faces r')) by lia.
      rewrite Ee, concat_zlen, Hfs, sum_len_app in Hz.
      assert (Hnil : added_faces c r = []).
      { apply sum_len_zero_nil; [|lia]. intros f Hf. apply added_faces_In in Hf as [_ [C [_ HfC]]].
        now apply cfc_face_pos in HfC. }
      rewrite Hfs, Hnil, app_nil_r, Ee, Ea. reflexivity. }
  assert (Cc : cc_result (cells r') (cc_elem r) (cc_adj r) = (concat (cells r'), owners (cells r'))).
  { rewrite Hcs. destruct Hcc as [[E0 E0']|[Ee Ea]].
    - rewrite E0, E0'. unfold cc_result.
      replace (cc_regen (zlen (@nil Z)) (zlen (@nil Z))) with true by reflexivity.
      replace (cc_adj_only (zlen (@nil Z)) (zlen (@nil Z))) with false by reflexivity. apply fcan_cc.
    - rewrite <- (cc_result_clear (cells r) (cc_elem r) (cc_adj r)) by (now rewrite fcan_cc, Ee, Ea).
      unfold cc_result.
      replace (cc_regen (zlen (@nil Z)) (zlen (@nil Z))) with true by reflexivity.
      replace (cc_adj_only (zlen (@nil Z)) (zlen (@nil Z))) with false by reflexivity. apply fcan_cc. }
  rewrite F in E1, E2. rewrite Cc in E3, E4. cbn in E1, E2, E3, E4.
  rewrite E1, E2, E3, E4, <- !incidences_fst, <- !incidences_snd, !combine_fst_snd. repeat split; reflexivity.
Qed.

(* ------------------------------------------------------------ (c) after a failed construction (a cell's face is missing):
   the raw data object is left with every earlier step applied and its cell_faces container untouched, so that the caller
   can supply the faces and build it again *)
Theorem failed_prepare_left c r e : prepare c r = Err e ->
  prepare_left c r = stage5 c r
  /\ cf_elem (prepare_left c r) = cf_elem r /\ cf_adj (prepare_left c r) = cf_adj r.
Proof.
  intros H.
  assert (E : prepare_left c r = stage5 c r).
  { revert H. destruct c as [[] []]; unfold prepare_left, prepare, stage5, stage2, stage1; cbn;
      match goal with |- context [generate_cell_faces ?x] => destruct (generate_cell_faces x) eqn:G end;
      intros H; try discriminate H; unfold generate_cell_faces_left, cf_atomic; rewrite andb_false_r; reflexivity. }
  rewrite E. destruct (stage5_cf c r) as [E1 E2]. auto.
Qed.

Lemma peek_changes_nothing r : apply_edit EPeek r = r.
Proof. reflexivity. Qed.
