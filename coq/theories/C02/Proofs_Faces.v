(* C02 - faces completed from cells, the two copies of the tetra/hexa tables, cell_faces. *)
From Coq Require Import ZArith List Bool Lia Permutation.
Import ListNotations.
Require Import MV.Lib.Base MV.C02.Defs MV.C02.Gen MV.C02.Model MV.C02.Proofs_Base MV.C02.Proofs_Steps.
Open Scope Z_scope.

(* ------------------------------------------------------------ the tables (generated from the source) *)
Definition tet_index_table : list (list Z) := [[1; 3; 2]; [0; 2; 3]; [3; 1; 0]; [0; 1; 2]].
Definition hex_index_table : list (list Z) :=
  [[0; 1; 2; 3]; [4; 5; 6; 7]; [0; 3; 7; 4]; [0; 1; 5; 4]; [1; 2; 6; 5]; [2; 3; 7; 6]].

Lemma tet_table_index : cfc_cell_faces [0; 1; 2; 3] = tet_index_table.
Proof. reflexivity. Qed.
Lemma hex_table_index : cfc_cell_faces [0; 1; 2; 3; 4; 5; 6; 7] = hex_index_table.
Proof. reflexivity. Qed.

(* the tables are natural in the cell: positions of the index table looked up in the cell *)
Lemma tet_table_natural v0 v1 v2 v3 :
  cfc_cell_faces [v0; v1; v2; v3] = map (map (fun i => znth [v0; v1; v2; v3] i 0)) tet_index_table.
Proof. reflexivity. Qed.
Lemma hex_table_natural v0 v1 v2 v3 v4 v5 v6 v7 :
  cfc_cell_faces [v0; v1; v2; v3; v4; v5; v6; v7] =
  map (map (fun i => znth [v0; v1; v2; v3; v4; v5; v6; v7] i 0)) hex_index_table.
Proof. reflexivity. Qed.

(* both copies of the tables in the source (face completion, cell_faces generation) agree *)
Lemma tables_agree C : (length C = 4%nat \/ length C = 8%nat) -> gcf_cell_faces C = Some (cfc_cell_faces C).
Proof.
  intros H.
  destruct C as [|v0 [|v1 [|v2 [|v3 [|v4 [|v5 [|v6 [|v7 [|v8 C]]]]]]]]]; cbn in H;
    try (exfalso; lia); reflexivity.
Qed.

Lemma cfc_other_arity C : length C <> 4%nat -> length C <> 8%nat -> cfc_cell_faces C = [].
Proof.
  intros H4 H8. unfold cfc_cell_faces.
  destruct (Z.of_nat (length C) =? 8) eqn:E8; [apply Z.eqb_eq in E8; lia|].
  destruct (Z.of_nat (length C) =? 4) eqn:E4; [apply Z.eqb_eq in E4; lia|]. reflexivity.
Qed.

(* a tetrahedron contributes 4 triangles, face i = the cell without its i-th vertex *)
Lemma tet_faces_opposite v0 v1 v2 v3 :
  let C := [v0; v1; v2; v3] in
  length (cfc_cell_faces C) = 4%nat /\
  forall i f v, nth_error (cfc_cell_faces C) i = Some f -> nth_error C i = Some v ->
                length f = 3%nat /\ Permutation (v :: f) C.
Proof.
  cbn. split; [reflexivity|]. intros i f v Hf Hv.
  destruct i as [|[|[|[|i]]]]; cbn in Hf, Hv; [| | | |destruct i; discriminate]; inversion Hf; inversion Hv; subst;
    (split; [reflexivity|]).
  - apply perm_skip. apply perm_skip. apply perm_swap.
  - apply perm_swap.
  - apply (Permutation_cons_app [v0; v1] [v3]). cbn. apply (Permutation_cons_app [v0; v1] []). cbn. apply perm_swap.
  - apply (Permutation_cons_app [v0; v1; v2] []). cbn. apply Permutation_refl.
Qed.

(* a hexahedron contributes 6 quads made of its own vertices *)
Lemma hex_faces_shape v0 v1 v2 v3 v4 v5 v6 v7 :
  let C := [v0; v1; v2; v3; v4; v5; v6; v7] in
  length (cfc_cell_faces C) = 6%nat /\ Forall (fun f => length f = 4%nat /\ incl f C) (cfc_cell_faces C).
Proof.
  cbn. split; [reflexivity|].
  repeat (apply Forall_cons;
          [split; [reflexivity | intros x Hx; cbn in Hx |- *;
                                 repeat (destruct Hx as [Hx|Hx]; [subst; auto 12|]); contradiction] |]).
  apply Forall_nil.
Qed.

(* the index tables describe closed surfaces: every undirected side lies in exactly two faces;
   each vertex of a tetra lies in 3 triangles (all but its opposite), each vertex of a hexa in 3 quads.
   (statements about two constants, decided by computation) *)
Definition und (a b : Z) : Z * Z := if a <=? b then (a, b) else (b, a).
Fixpoint cyc_sides_from (first : Z) (f : list Z) : list (Z * Z) :=
  match f with
  | [] => []
  | [a] => [und a first]
  | a :: ((b :: _) as t) => und a b :: cyc_sides_from first t
  end.
Definition cyc_sides (f : list Z) : list (Z * Z) := match f with [] => [] | a :: _ => cyc_sides_from a f end.
Definition count_pair (p : Z * Z) (l : list (Z * Z)) : nat := length (filter (edge_eqb p) l).
Definition closed_table (t : list (list Z)) : bool :=
  let ss := flat_map cyc_sides t in forallb (fun p => Nat.eqb (count_pair p ss) 2) ss.
Definition vertex_degree (t : list (list Z)) (v : Z) : nat := length (filter (existsb (Z.eqb v)) t).

Lemma tet_table_closed : closed_table tet_index_table = true /\
  forallb (fun v => Nat.eqb (vertex_degree tet_index_table v) 3) [0; 1; 2; 3] = true /\
  forallb (fun i => negb (existsb (Z.eqb i) (znth tet_index_table i []))) [0; 1; 2; 3] = true.
Proof. repeat split; vm_compute; reflexivity. Qed.

Lemma hex_table_closed : closed_table hex_index_table = true /\
  forallb (fun v => Nat.eqb (vertex_degree hex_index_table v) 3) [0; 1; 2; 3; 4; 5; 6; 7] = true /\
  length (flat_map cyc_sides hex_index_table) = 24%nat.
Proof. repeat split; vm_compute; reflexivity. Qed.

(* ------------------------------------------------------------ faces of the finished object *)
Lemma added_faces_In c r f : In f (added_faces c r) ->
  ~ In (keyify f) (map keyify (faces r)) /\ exists C, In C (cells r) /\ In f (cfc_cell_faces C).
Proof.
  unfold added_faces. destruct (_ && _); [|contradiction]. intros H.
  apply (fresh_In key_eqb keyify key_eqb_spec) in H as [H1 H2]. split; [assumption|].
  apply in_flat_map in H1. exact H1.
Qed.

Lemma added_faces_NoDup c r : NoDup (map keyify (added_faces c r)).
Proof.
  unfold added_faces. destruct (_ && _); [apply (fresh_NoDup key_eqb keyify key_eqb_spec) | constructor].
Qed.

Lemma added_faces_complete c r C f : fst c = true -> In C (cells r) -> In f (cfc_cell_faces C) ->
  In (keyify f) (map keyify (faces r ++ added_faces c r)).
Proof.
  intros Hc HC Hf. unfold added_faces. rewrite Hc.
  assert (Hne : nonempty (cells r) = true) by (destruct (cells r); [contradiction | reflexivity]).
  rewrite Hne. cbn. rewrite map_app. apply in_or_app.
  apply (fresh_complete key_eqb keyify key_eqb_spec). apply in_flat_map. eauto.
Qed.

Theorem faces_thm c r r' : prepare c r = Ok r' ->
  faces r' = faces r ++ added_faces c r /\ cells r' = cells r
  /\ NoDup (map keyify (added_faces c r))
  /\ (forall f, In f (added_faces c r) ->
        ~ In (keyify f) (map keyify (faces r)) /\ exists C, In C (cells r) /\ In f (cfc_cell_faces C))
  /\ (fst c = true -> forall C f, In C (cells r) -> In f (cfc_cell_faces C) -> In (keyify f) (map keyify (faces r'))).
Proof.
  intros H. apply prepare_fields in H as (_ & Hc & Hf & _).
  split; [exact Hf|]. split; [exact Hc|]. split; [apply added_faces_NoDup|].
  split; [intros f; apply added_faces_In|]. intros Hfst C f HC HfC. rewrite Hf. now apply (added_faces_complete c r C f).
Qed.

(* ------------------------------------------------------------ cell_faces *)
Lemma face_index_from_sound i k fs acc j : face_index_from i k fs acc = Some j ->
  acc = Some j \/ (i <= j /\ exists g, nth_error fs (Z.to_nat (j - i)) = Some g /\ keyify g = k).
Proof.
  revert i acc; induction fs as [|f t IH]; intros i acc; cbn; [auto|]. intros H. apply IH in H as [H|H].
  - destruct (key_eqb (keyify f) k) eqn:E; [|now left]. inversion H; subst. right. split; [lia|].
    exists f. rewrite Z.sub_diag. cbn. split; [reflexivity | now apply key_eqb_spec].
  - right. destruct H as (Hle & g & Hn & Hk). split; [lia|]. exists g. split; [|assumption].
    replace (Z.to_nat (j - i)) with (S (Z.to_nat (j - (i + 1)))) by lia. exact Hn.
Qed.

Lemma face_index_from_total i k fs acc : (In k (map keyify fs) \/ acc <> None) ->
  exists j, face_index_from i k fs acc = Some j.
Proof.
  revert i acc; induction fs as [|f t IH]; intros i acc; cbn.
  - intros [[]|H]. destruct acc; [eauto | congruence].
  - intros [[H|H]|H].
    + apply IH. right. assert (E : key_eqb (keyify f) k = true) by now apply key_eqb_spec. rewrite E. discriminate.
    + apply IH. now left.
    + apply IH. right. destruct (key_eqb (keyify f) k); [discriminate | assumption].
Qed.

Definition face_ref (fs : list (list Z)) (id : Z) (f : list Z) : Prop :=
  0 <= id /\ exists g, nth_error fs (Z.to_nat id) = Some g /\ keyify g = keyify f.

Lemma face_index_sound fs k j : face_index fs k = Some j ->
  0 <= j /\ exists g, nth_error fs (Z.to_nat j) = Some g /\ keyify g = k.
Proof.
  unfold face_index. intros H. apply face_index_from_sound in H as [H|(Hle & g & Hn & Hk)]; [discriminate|].
  split; [assumption|]. exists g. now rewrite Z.sub_0_r in Hn.
Qed.

Definition ids_of (fs : list (list Z)) (fcs : list (list Z)) : res (list Z) :=
  fold_right (fun f acc => bind acc (fun l =>
      if true then match face_index fs (keyify f) with Some i => Ok (i :: l) | None => Err EKey end else Ok l))
    (Ok []) fcs.

Lemma ids_of_cons fs f t : ids_of fs (f :: t) =
  bind (ids_of fs t) (fun l => match face_index fs (keyify f) with Some i => Ok (i :: l) | None => Err EKey end).
Proof. reflexivity. Qed.

Lemma ids_of_sound fs fcs ids : ids_of fs fcs = Ok ids -> Forall2 (face_ref fs) ids fcs.
Proof.
  revert ids; induction fcs as [|f t IH]; intros ids H.
  - inversion H. constructor.
  - rewrite ids_of_cons in H. destruct (ids_of fs t) as [l|e] eqn:E; cbn in H; [|discriminate].
    destruct (face_index fs (keyify f)) as [i|] eqn:Ei; [|discriminate]. inversion H; subst.
    constructor; [|now apply IH]. apply face_index_sound in Ei. exact Ei.
Qed.

Lemma ids_of_total fs fcs : (forall f, In f fcs -> In (keyify f) (map keyify fs)) -> exists ids, ids_of fs fcs = Ok ids.
Proof.
  induction fcs as [|f t IH]; intros H; [cbn; eauto|].
  rewrite ids_of_cons. destruct IH as [l El]; [intros; apply H; now right|]. rewrite El. cbn.
  destruct (face_index_from_total 0 (keyify f) fs None) as [j Ej]; [left; apply H; now left|].
  unfold face_index. rewrite Ej. eauto.
Qed.

Definition cell_ok (C : list Z) : Prop := length C = 4%nat \/ length C = 8%nat.

Definition cf_owners (cs : list (Z * list Z)) : list Z :=
  flat_map (fun ic => repeat (fst ic) (length (cfc_cell_faces (snd ic)))) cs.

Lemma cf_loop_sound fs cs el ad : Forall (fun ic => cell_ok (snd ic)) cs -> cf_loop true true fs cs = Ok (el, ad) ->
  ad = cf_owners cs /\ Forall2 (face_ref fs) el (flat_map (fun ic => cfc_cell_faces (snd ic)) cs).
Proof.
  revert el ad; induction cs as [|[iC C] t IH]; cbn; intros el ad Hok H.
  - inversion H. split; [reflexivity | constructor].
  - inversion Hok as [|? ? HC Ht]; subst. cbn in HC. rewrite (tables_agree C HC) in H.
    fold (ids_of fs (cfc_cell_faces C)) in H.
    destruct (ids_of fs (cfc_cell_faces C)) as [ids|e] eqn:Ei; cbn in H; [|discriminate].
    destruct (cf_loop true true fs t) as [[el' ad']|e] eqn:El; cbn in H; [|discriminate].
    inversion H; subst. destruct (IH el' ad' Ht eq_refl) as [-> HF]. split; [reflexivity|].
    apply Forall2_app; [now apply ids_of_sound | assumption].
Qed.

Lemma cf_loop_total fs cs : Forall (fun ic => cell_ok (snd ic)) cs ->
  (forall ic f, In ic cs -> In f (cfc_cell_faces (snd ic)) -> In (keyify f) (map keyify fs)) ->
  exists ea, cf_loop true true fs cs = Ok ea.
Proof.
  induction cs as [|[iC C] t IH]; cbn; intros Hok H; [eauto|].
  inversion Hok as [|? ? HC Ht]; subst. cbn in HC. rewrite (tables_agree C HC).
  fold (ids_of fs (cfc_cell_faces C)).
  destruct (ids_of_total fs (cfc_cell_faces C)) as [ids Ei]; [intros f Hf; apply (H (iC, C)); [now left | assumption]|].
  rewrite Ei. cbn. destruct (IH Ht) as [ea Ea]; [intros ic f Hic; apply H; now right|]. rewrite Ea. cbn. eauto.
Qed.

Lemma enumerate_cells_ok cs : Forall cell_ok cs -> Forall (fun ic => cell_ok (snd ic)) (enumerate cs).
Proof.
  unfold enumerate. generalize 0. induction cs as [|C t IH]; intros s H; cbn; [constructor|].
  inversion H; subst. constructor; [assumption | now apply IH].
Qed.

Lemma enumerate_In {A} (l : list A) ic : In ic (enumerate l) -> In (snd ic) l.
Proof. intros H. apply (in_map snd) in H. unfold enumerate in H. now rewrite enum_from_snd in H. Qed.

Lemma flat_map_enumerate {A B} (g : A -> list B) (l : list A) :
  flat_map (fun ic => g (snd ic)) (enumerate l) = flat_map g l.
Proof. unfold enumerate. generalize 0. induction l; intros s; cbn; [reflexivity | now rewrite IHl]. Qed.

Lemma stage5_cf c r : cf_elem (stage5 c r) = cf_elem r /\ cf_adj (stage5 c r) = cf_adj r.
Proof.
  unfold stage5, stage2, stage1. rewrite gcc_cf_elem, gfc_cf_elem, pe_cf_elem, gcc_cf_adj, gfc_cf_adj, pe_cf_adj.
  unfold prepare_vertices; cbn [cf_elem cf_adj].
  destruct (snd c), (fst c); rewrite ?cef_cf_elem, ?cef_cf_adj, ?cfc_cf_elem, ?cfc_cf_adj; auto.
Qed.

Lemma stage5_faces c r : faces (stage5 c r) = faces r ++ added_faces c r.
Proof. unfold stage5. now rewrite gcc_faces, gfc_faces, pe_faces, stage2_faces, stage1_faces. Qed.

Lemma stage5_cells c r : cells (stage5 c r) = cells r.
Proof. unfold stage5. now rewrite gcc_cells, gfc_cells, pe_cells, stage2_cells. Qed.

(* fresh cell_faces container, tetra/hexa cells *)
Theorem cell_faces_thm c r r' : cf_elem r = [] -> cf_adj r = [] -> Forall cell_ok (cells r) -> prepare c r = Ok r' ->
  cf_adj r' = cf_owners (enumerate (cells r)) /\
  Forall2 (face_ref (faces r')) (cf_elem r') (flat_map cfc_cell_faces (cells r)).
Proof.
  intros He Ha Hok H. pose proof (prepare_fields c r r' H) as (_ & _ & Hf & _).
  rewrite prepare_unfold in H. unfold generate_cell_faces in H.
  destruct (stage5_cf c r) as [E1 E2]. rewrite E1, E2, He, Ha in H. cbn in H.
  destruct (cf_loop true true (faces (stage5 c r)) (enumerate (cells (stage5 c r)))) as [[el ad]|e] eqn:El; cbn in H; [|discriminate].
  inversion H; subst r'; clear H. cbn in *.
  rewrite stage5_cells in El. apply cf_loop_sound in El as [-> HF]; [|now apply enumerate_cells_ok].
  split; [reflexivity|]. rewrite flat_map_enumerate in HF. exact HF.
Qed.

(* with face completion on, construction never fails on tetra/hexa cells *)
Theorem prepare_total c r : fst c = true -> cf_elem r = [] -> cf_adj r = [] -> Forall cell_ok (cells r) ->
  exists r', prepare c r = Ok r'.
Proof.
  intros Hc He Ha Hok. rewrite prepare_unfold. unfold generate_cell_faces.
  destruct (stage5_cf c r) as [E1 E2]. rewrite E1, E2, He, Ha. cbn.
  destruct (cf_loop_total (faces (stage5 c r)) (enumerate (cells (stage5 c r)))) as [ea Ea].
  - rewrite stage5_cells. now apply enumerate_cells_ok.
  - intros ic f Hic Hf. rewrite stage5_cells in Hic. rewrite stage5_faces.
    eapply added_faces_complete; eauto. now apply enumerate_In.
  - rewrite Ea. cbn. eauto.
Qed.
