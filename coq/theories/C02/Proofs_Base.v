(* C02 - generic lemmas: keys, the `fresh` idiom, enumerations, projections of the steps. *)
From Coq Require Import ZArith List Bool Lia Permutation.
Import ListNotations.
Require Import MV.Lib.Base MV.C02.Defs MV.C02.Gen MV.C02.Model.
Open Scope Z_scope.

(* ------------------------------------------------------------ equality tests *)
Lemma edge_eqb_spec (x y : edge) : edge_eqb x y = true <-> x = y.
Proof.
  destruct x as [a b], y as [c d]; unfold edge_eqb; cbn.
  rewrite andb_true_iff, !Z.eqb_eq. split; [intros [-> ->]; reflexivity | intros H; inversion H; auto].
Qed.

Lemma key_eqb_spec (x y : list Z) : key_eqb x y = true <-> x = y.
Proof. apply list_eqb_spec. intros; apply Z.eqb_eq. Qed.

Lemma existsb_eq {K} (keq : K -> K -> bool) (H : forall x y, keq x y = true <-> x = y) k l :
  existsb (keq k) l = true <-> In k l.
Proof.
  rewrite existsb_exists. split.
  - intros [x [Hx E]]. apply H in E. now subst.
  - intros Hk. exists k. split; [assumption | now apply H].
Qed.

(* ------------------------------------------------------------ keyify on pairs *)
Lemma kedge2_minmax a b : kedge2 a b = (Z.min a b, Z.max a b).
Proof.
  unfold kedge2, keyify. cbn. destruct (a <=? b) eqn:E.
  - f_equal; lia.
  - f_equal; lia.
Qed.

Lemma kedge_minmax e : kedge e = (Z.min (fst e) (snd e), Z.max (fst e) (snd e)).
Proof. apply kedge2_minmax. Qed.

Lemma kedge_idem e : kedge (kedge e) = kedge e.
Proof. rewrite !kedge_minmax. cbn. f_equal; lia. Qed.

Lemma kedge_kedge2 a b : kedge (kedge2 a b) = kedge2 a b.
Proof. rewrite kedge_minmax, kedge2_minmax. cbn. f_equal; lia. Qed.

Lemma edge_valid_spec a b N : edge_valid a b N = true <-> (a <> b /\ 0 <= a < N /\ 0 <= b < N).
Proof. unfold edge_valid. rewrite !andb_true_iff, negb_true_iff. lia. Qed.

Lemma evalid_kedge N e : evalid N (kedge e) = evalid N e.
Proof.
  apply eq_true_iff_eq. unfold evalid. rewrite kedge_minmax. cbn. rewrite !edge_valid_spec. lia.
Qed.

Lemma evalid_keyed_range N e : evalid N (kedge e) = true ->
  0 <= fst (kedge e) < snd (kedge e) /\ snd (kedge e) < N.
Proof. unfold evalid. rewrite kedge_minmax. cbn. rewrite edge_valid_spec. lia. Qed.

(* ------------------------------------------------------------ filters *)
Lemma filter_all {A} (p : A -> bool) l : existsb (fun x => negb (p x)) l = false -> filter p l = l.
Proof.
  induction l as [|x t IH]; cbn; [reflexivity|]. intros H. apply orb_false_iff in H as [H1 H2].
  apply negb_false_iff in H1. rewrite H1. f_equal. now apply IH.
Qed.

Lemma filter_map_comm {A B} (p : B -> bool) (f : A -> B) l : filter p (map f l) = map f (filter (fun x => p (f x)) l).
Proof. induction l as [|x t IH]; cbn; [reflexivity|]. destruct (p (f x)); cbn; now rewrite IH. Qed.

Lemma filter_ext_in' {A} (p q : A -> bool) l : (forall x, In x l -> p x = q x) -> filter p l = filter q l.
Proof. apply filter_ext_in. Qed.

Lemma map_id_in {A} (f : A -> A) l : (forall x, In x l -> f x = x) -> map f l = l.
Proof. intros H. rewrite <- (map_id l) at 2. now apply map_ext_in. Qed.

(* ------------------------------------------------------------ fresh *)
Section Fresh.
  Context {A K : Type} (keq : K -> K -> bool) (key : A -> K).
  Hypothesis keq_spec : forall x y, keq x y = true <-> x = y.

  Lemma fresh_In seen cands x : In x (fresh keq key seen cands) -> In x cands /\ ~ In (key x) seen.
  Proof.
    revert seen. induction cands as [|c t IH]; cbn; intros seen H; [contradiction|].
    destruct (existsb (keq (key c)) seen) eqn:E.
    - apply IH in H as [H1 H2]. auto.
    - destruct H as [<-|H].
      + split; [auto|]. intros Hin. apply (existsb_eq keq keq_spec) in Hin. congruence.
      + apply IH in H as [H1 H2]. split; [auto|]. intros Hin. apply H2. now right.
  Qed.

  Lemma fresh_NoDup seen cands : NoDup (map key (fresh keq key seen cands)).
  Proof.
    revert seen. induction cands as [|c t IH]; cbn; intros seen; [constructor|].
    destruct (existsb (keq (key c)) seen) eqn:E; [apply IH|].
    cbn. constructor; [|apply IH].
    intros Hin. apply in_map_iff in Hin as [x [Hk Hx]]. apply fresh_In in Hx as [_ Hx].
    apply Hx. left. congruence.
  Qed.

  Lemma fresh_complete seen cands c : In c cands ->
    In (key c) seen \/ In (key c) (map key (fresh keq key seen cands)).
  Proof.
    revert seen. induction cands as [|c0 t IH]; cbn; intros seen H; [contradiction|].
    destruct (existsb (keq (key c0)) seen) eqn:E.
    - destruct H as [->|H]; [left; now apply (existsb_eq keq keq_spec) | now apply IH].
    - destruct H as [->|H]; [right; now left|].
      destruct (IH (key c0 :: seen) H) as [[Hs|Hs]|Hs].
      + right. left. congruence.
      + now left.
      + right. now right.
  Qed.

  Lemma fresh_nil seen cands : (forall c, In c cands -> In (key c) seen) -> fresh keq key seen cands = [].
  Proof.
    revert seen. induction cands as [|c t IH]; cbn; intros seen H; [reflexivity|].
    assert (E : existsb (keq (key c)) seen = true) by (apply (existsb_eq keq keq_spec); apply H; now left).
    rewrite E. apply IH. intros; apply H; now right.
  Qed.

End Fresh.

(* with the identity key the fresh items themselves are duplicate-free *)
Lemma fresh_id_NoDup seen cands : NoDup (fresh edge_eqb (fun e : edge => e) seen cands).
Proof.
  pose proof (fresh_NoDup edge_eqb (fun e : edge => e) edge_eqb_spec seen cands) as H.
  now rewrite map_id in H.
Qed.

(* ------------------------------------------------------------ enumerations *)
Lemma enum_from_length {A} s (l : list A) : length (enum_from s l) = length l.
Proof. revert s; induction l; cbn; intros; [reflexivity | now rewrite IHl]. Qed.

Lemma enum_from_app {A} s (l1 l2 : list A) :
  enum_from s (l1 ++ l2) = enum_from s l1 ++ enum_from (s + zlen l1) l2.
Proof.
  revert s; induction l1 as [|x t IH]; intros s; cbn.
  - unfold zlen; cbn. now rewrite Z.add_0_r.
  - rewrite IH. do 3 f_equal. unfold zlen; cbn [length]. lia.
Qed.

Lemma enum_from_snd {A} s (l : list A) : map snd (enum_from s l) = l.
Proof. revert s; induction l; cbn; intros; [reflexivity | now rewrite IHl]. Qed.

Lemma enum_from_nth {A} s (l : list A) j x : nth_error l j = Some x -> nth_error (enum_from s l) j = Some (s + Z.of_nat j, x).
Proof.
  revert s j; induction l as [|y t IH]; intros s [|j]; cbn; try discriminate.
  - intros [= ->]. now rewrite Z.add_0_r.
  - intros H. rewrite (IH (s + 1) j H). do 2 f_equal. lia.
Qed.

Lemma zlen_app {A} (a b : list A) : zlen (a ++ b) = zlen a + zlen b.
Proof. unfold zlen. rewrite app_length. lia. Qed.

Lemma zlen_nonneg {A} (a : list A) : 0 <= zlen a.
Proof. unfold zlen. lia. Qed.

Lemma zlen_nil_iff {A} (a : list A) : zlen a = 0 <-> a = [].
Proof. unfold zlen. destruct a; cbn [length]; split; intros H; try reflexivity; try discriminate; exfalso; lia. Qed.

Lemma records_fst rec (H : forall v o, fst (rec v o) = v) elts : map fst (records rec elts) = concat elts.
Proof.
  unfold records, enumerate. generalize 0. induction elts as [|f t IH]; intros s; cbn; [reflexivity|].
  rewrite map_app, IH. f_equal. rewrite map_map. apply map_id_in. intros; apply H.
Qed.

Lemma records_snd rec (H : forall v o, snd (rec v o) = o) elts : map snd (records rec elts) = owners elts.
Proof.
  unfold records, owners, enumerate. generalize 0. induction elts as [|f t IH]; intros s; cbn; [reflexivity|].
  rewrite map_app, IH. f_equal. rewrite map_map. cbn.
  induction f as [|v f IHf]; cbn; [reflexivity|]. now rewrite H, IHf.
Qed.

Lemma concat_zlen elts : zlen (concat elts) = sum_len elts.
Proof. induction elts as [|f t IH]; cbn; [reflexivity|]. now rewrite zlen_app, IH. Qed.

Lemma owners_zlen elts : zlen (owners elts) = sum_len elts.
Proof.
  unfold owners, enumerate. generalize 0. induction elts as [|f t IH]; intros s; cbn; [reflexivity|].
  rewrite zlen_app, IH. f_equal. unfold zlen. now rewrite repeat_length.
Qed.

(* ------------------------------------------------------------ surviving edges and their indices *)
Lemma fresh_app_id seen (l1 l2 : list edge) :
  fresh edge_eqb (fun e => e) seen (l1 ++ l2) =
  fresh edge_eqb (fun e => e) seen l1 ++ fresh edge_eqb (fun e => e) (rev (fresh edge_eqb (fun e => e) seen l1) ++ seen) l2.
Proof.
  revert seen; induction l1 as [|a t IH]; intros seen; cbn; [reflexivity|].
  destruct (existsb (edge_eqb a) seen) eqn:E; [apply IH|].
  cbn. rewrite IH. f_equal. f_equal. now rewrite <- app_assoc.
Qed.

Lemma existsb_ext_mem (k : edge) l1 l2 : (forall x, In x l1 <-> In x l2) -> existsb (edge_eqb k) l1 = existsb (edge_eqb k) l2.
Proof.
  intros H. apply eq_true_iff_eq. rewrite !(existsb_eq edge_eqb edge_eqb_spec). apply H.
Qed.

Lemma fresh_seen_ext seen1 seen2 (l : list edge) : (forall x, In x seen1 <-> In x seen2) ->
  fresh edge_eqb (fun e => e) seen1 l = fresh edge_eqb (fun e => e) seen2 l.
Proof.
  revert seen1 seen2; induction l as [|a t IH]; intros s1 s2 H; cbn; [reflexivity|].
  rewrite (existsb_ext_mem a s1 s2 H). destruct (existsb (edge_eqb a) s2); [now apply IH|].
  f_equal. apply IH. intros x; cbn. rewrite H. tauto.
Qed.

Lemma fresh_all_id seen (l : list edge) : NoDup l -> (forall x, In x l -> ~ In x seen) -> fresh edge_eqb (fun e => e) seen l = l.
Proof.
  revert seen; induction l as [|a t IH]; intros seen Hn Hd; cbn; [reflexivity|].
  inversion Hn as [|a' t' Hnot Hnt]; subst.
  assert (E : existsb (edge_eqb a) seen = false).
  { apply not_true_iff_false. rewrite (existsb_eq edge_eqb edge_eqb_spec). apply Hd. now left. }
  rewrite E. f_equal. apply IH.
  - exact Hnt.
  - intros x Hx Hs. destruct Hs as [Hs|Hs].
    + apply Hnot. now rewrite Hs.
    + apply (Hd x); [now right | exact Hs].
Qed.

(* the final declared part: valid, keyified, each pair once (first declaration) *)
Definition norm_edges (N : Z) (E : list edge) : list edge :=
  fresh edge_eqb (fun e => e) [] (filter (evalid N) (map kedge E)).

Lemma sel_from_spec N seen es :
  map kedge (sel_from N seen es) = fresh edge_eqb (fun e => e) seen (filter (evalid N) (map kedge es)).
Proof.
  revert seen; induction es as [|e t IH]; intros seen; cbn; [reflexivity|].
  unfold ekeep, edges_dedupe. rewrite evalid_kedge. destruct (evalid N e); cbn; [|apply IH].
  destruct (existsb (edge_eqb (kedge e)) seen); cbn; [apply IH | now rewrite IH].
Qed.

Lemma sel_from_length_le N seen es : (length (sel_from N seen es) <= length es)%nat.
Proof.
  revert seen; induction es as [|e t IH]; intros seen; cbn; [lia|].
  destruct (ekeep N seen e); cbn; [specialize (IH (kedge e :: seen)) | specialize (IH seen)]; lia.
Qed.

Lemma kept_from_length N seen s es : length (kept_from N seen s es) = length (sel_from N seen es).
Proof.
  revert seen s; induction es as [|e t IH]; intros seen s; cbn; [reflexivity|].
  destruct (ekeep N seen e); cbn; now rewrite IH.
Qed.

Definition seen_after (N : Z) (seen : list edge) (es : list edge) : list edge :=
  rev (map kedge (sel_from N seen es)) ++ seen.

Lemma sel_from_app N seen E A :
  sel_from N seen (E ++ A) = sel_from N seen E ++ sel_from N (seen_after N seen E) A.
Proof.
  unfold seen_after. revert seen; induction E as [|e t IH]; intros seen; cbn; [reflexivity|].
  destruct (ekeep N seen e); cbn; rewrite IH; [|reflexivity]. now rewrite <- app_assoc.
Qed.

Lemma kept_from_app N seen s E A :
  kept_from N seen s (E ++ A) = kept_from N seen s E ++ kept_from N (seen_after N seen E) (s + zlen E) A.
Proof.
  unfold seen_after. revert seen s; induction E as [|e t IH]; intros seen s.
  - cbn. unfold zlen; cbn. now rewrite Z.add_0_r.
  - replace (s + zlen (e :: t)) with (s + 1 + zlen t) by (unfold zlen; cbn [length]; lia).
    cbn [kept_from sel_from app]. destruct (ekeep N seen e); cbn [map rev app]; rewrite IH; [|reflexivity].
    now rewrite <- app_assoc.
Qed.

Lemma kept_from_bounds N seen s E i : In i (kept_from N seen s E) -> s <= i < s + zlen E.
Proof.
  revert seen s; induction E as [|e t IH]; intros seen s; [cbn; contradiction|].
  assert (zlen (e :: t) = 1 + zlen t) by (unfold zlen; cbn [length]; lia).
  pose proof (zlen_nonneg t). cbn [kept_from].
  destruct (ekeep N seen e); cbn [In]; [intros [<-|H1]|intros H1]; try lia; apply IH in H1; lia.
Qed.

(* nothing is dropped: every edge is selected *)
Lemma sel_from_full N seen es : length (sel_from N seen es) = length es ->
  sel_from N seen es = es /\ forall s, kept_from N seen s es = map fst (enum_from s es).
Proof.
  revert seen; induction es as [|e t IH]; intros seen; cbn; [auto|].
  destruct (ekeep N seen e); cbn; intros H.
  - destruct (IH (kedge e :: seen)) as [H1 H2]; [lia|]. split; [now rewrite H1 | intros s; now rewrite H2].
  - pose proof (sel_from_length_le N seen t). lia.
Qed.

Lemma sel_from_full_app N seen E A : length (sel_from N seen (E ++ A)) = length (E ++ A) ->
  length (sel_from N seen E) = length E.
Proof.
  rewrite sel_from_app, !app_length. pose proof (sel_from_length_le N seen E).
  pose proof (sel_from_length_le N (seen_after N seen E) A). lia.
Qed.

Lemma edges_dropped_false N es : edges_dropped N es = false <-> length (sel_from N [] es) = length es.
Proof. unfold edges_dropped. rewrite negb_false_iff. apply Nat.eqb_eq. Qed.

Lemma enum_from_fst_nth {A} s (l : list A) j i : nth_error (map fst (enum_from s l)) j = Some i -> i = s + Z.of_nat j.
Proof.
  revert s j; induction l as [|y t IH]; intros s [|j]; cbn; try discriminate.
  - intros [= <-]. lia.
  - intros H. apply IH in H. lia.
Qed.
