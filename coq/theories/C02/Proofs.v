(* C02 - collected lemmas exported to Props.v *)
From Coq Require Import ZArith List Bool Lia.
Import ListNotations.
Require Import MV.Lib.Base MV.C02.Defs MV.C02.Gen MV.C02.Model.
Open Scope Z_scope.

Lemma edge_valid_spec a b N : edge_valid a b N = true <-> (a <> b /\ 0 <= a < N /\ 0 <= b < N).
Proof. unfold edge_valid. rewrite !andb_true_iff, negb_true_iff. lia. Qed.
