(* C02 - collected lemmas exported to Props.v, with non-vacuity examples for their hypotheses. *)
From Coq Require Import ZArith List Bool Lia.
Import ListNotations.
Require Export MV.Lib.Base MV.C02.Defs MV.C02.Gen MV.C02.Model MV.C02.Proofs_Base MV.C02.Proofs_Steps
               MV.C02.Proofs_Edges MV.C02.Proofs_Faces MV.C02.Proofs_Corners MV.C02.Proofs_Attrs MV.C02.Proofs_Idem MV.C02.Proofs_Clear MV.C02.Proofs_More.
Open Scope Z_scope.

(* two tetrahedra sharing a face, one declared face, declared edges among which a self-loop, an out-of-range edge and
   a duplicate, a dense and a sparse attribute with a custom default *)
Definition ex_raw : raw :=
  mkRaw [[0;0;0]; [1;0;0]; [0;1;0]; [0;0;1]; [1;1;1]]
        [(1, 0); (1, 1); (7, 2); (2, 3); (0, 1)]
        [(1, Dense 0 [10; 20; 30; 40; 50]); (2, Sparse 7 [(3, 5)])]
        [[3; 2; 1]] [] []
        [[0; 1; 2; 3]; [1; 2; 3; 4]] [] [] [] [].

Example ex_prepare : exists r', prepare (true, true) ex_raw = Ok r'
  /\ edges r' = [(0, 1); (2, 3); (1, 2); (1, 3); (0, 2); (0, 3); (2, 4); (3, 4); (1, 4)]
  /\ faces r' = [[3; 2; 1]; [0; 2; 3]; [3; 1; 0]; [0; 1; 2]; [2; 4; 3]; [1; 3; 4]; [4; 2; 1]]
  /\ cf_elem r' = [0; 1; 2; 3; 4; 5; 6; 0] /\ cf_adj r' = [0; 0; 0; 0; 1; 1; 1; 1]
  /\ map (fun na => (fst na, map (attr_get (snd na)) (zrange 10))) (eattrs r') =
     [(1, [10; 40; 0; 0; 0; 0; 0; 0; 0; 0]); (2, [7; 5; 7; 7; 7; 7; 7; 7; 7; 7]); (0, [1; 1; 0; 0; 0; 0; 0; 0; 0; 0])].
Proof. eexists. split; [vm_compute; reflexivity|]. vm_compute. repeat split; reflexivity. Qed.

Example ex_hyps : fc_elem ex_raw = [] /\ cc_elem ex_raw = [] /\ cc_adj ex_raw = [] /\ cf_elem ex_raw = [] /\ cf_adj ex_raw = []
  /\ Forall cell_ok (cells ex_raw) /\ attr_lookup HARD (eattrs ex_raw) = None
  /\ added_edges (true, true) ex_raw <> [] /\ added_faces (true, true) ex_raw <> []
  /\ kept_idx (zlen (vertices ex_raw)) (edges ex_raw) = [0; 3].
Proof.
  repeat split; try reflexivity.
  - repeat constructor; cbn; auto.
  - vm_compute. discriminate.
  - vm_compute. discriminate.
Qed.

Example ex_from_arrays : exists r', from_arrays (true, true) 2 [[0;0]; [1;0]; [0;1]] [(2, 1)] [[0;1;2]] [] = Ok (2, r')
  /\ vertices r' = [[0;0;0]; [1;0;0]; [0;1;0]] /\ edges r' = [(1, 2); (0, 1); (0, 2)].
Proof. eexists. split; [vm_compute; reflexivity|]. split; reflexivity. Qed.

Example ex_class_override : exists r', instanciate (true, true) (Some 2) (mkRaw [[0;0;0];[1;1;1]] [(1,0)] [] [] [] [] [] [] [] [] []) = Ok (2, r').
Proof. eexists. vm_compute. reflexivity. Qed.

(* rebuilding the example: the corner containers of the raw input are well formed, and the second construction returns
   the very same containers (here even the same attribute representation) *)
Example ex_rebuild : wf_corners ex_raw /\
  exists r1 r2, instanciate (true, true) None ex_raw = Ok (3, r1) /\ instanciate (true, true) None (rewrap 3 r1) = Ok (3, r2)
                /\ edges r2 = edges r1 /\ cf_elem r2 = cf_elem r1 /\ cf_adj r2 = cf_adj r1
                /\ map (fun na => map (attr_get (snd na)) (zrange 10)) (eattrs r2)
                   = map (fun na => map (attr_get (snd na)) (zrange 10)) (eattrs r1).
Proof.
  split; [split; reflexivity|]. eexists. eexists. split; [vm_compute; reflexivity|].
  split; [vm_compute; reflexivity|]. vm_compute. repeat split; reflexivity.
Qed.

(* the subdivision scenario: build, re-wrap, clear the three corner containers, add a vertex and a cell, build again:
   12 cell-face records with their 12 owners *)
Example ex_clear_edit_rebuild : fresh_corners ex_raw /\
  exists r1 r2, instanciate (true, true) None ex_raw = Ok (3, r1)
    /\ rebuild (true, true) None [EClearFC; EClearCC; EClearCF; EAddVertex [2; 2; 2]; EAddCell [2; 3; 4; 5]] 3 r1 = Ok (3, r2)
    /\ cf_adj r2 = [0; 0; 0; 0; 1; 1; 1; 1; 2; 2; 2; 2] /\ length (cf_elem r2) = 12%nat
    /\ cc_adj r2 = [0; 0; 0; 0; 1; 1; 1; 1; 2; 2; 2; 2].
Proof.
  split; [repeat split; reflexivity|]. eexists. eexists. split; [vm_compute; reflexivity|].
  split; [vm_compute; reflexivity|]. vm_compute. repeat split; reflexivity.
Qed.

(* stale face corners: 3 records for a face list with 6 incidences *)
Example ex_stale_face_corners : exists r',
  prepare (true, true) (mkRaw [[0;0;0];[1;0;0];[0;1;0];[1;1;0]] [] [] [[0;1;2];[1;3;2]] [0;1;2] [0;0;0] [] [] [] [] []) = Ok r'
  /\ fc_elem r' = [0;1;2;1;3;2] /\ fc_adj r' = [0;0;0;1;1;1].
Proof. eexists. split; [vm_compute; reflexivity|]. split; reflexivity. Qed.

Lemma tables_thm : (forall v0 v1 v2 v3,
     cfc_cell_faces [v0; v1; v2; v3] = map (map (fun i => znth [v0; v1; v2; v3] i 0)) tet_index_table)
  /\ (forall v0 v1 v2 v3 v4 v5 v6 v7, cfc_cell_faces [v0; v1; v2; v3; v4; v5; v6; v7] =
        map (map (fun i => znth [v0; v1; v2; v3; v4; v5; v6; v7] i 0)) hex_index_table)
  /\ closed_table tet_index_table = true /\ closed_table hex_index_table = true
  /\ forallb (fun v => Nat.eqb (vertex_degree hex_index_table v) 3) [0; 1; 2; 3; 4; 5; 6; 7] = true
  /\ (forall C, (length C = 4%nat \/ length C = 8%nat) -> gcf_cell_faces C = Some (cfc_cell_faces C)).
Proof.
  exact (conj tet_table_natural (conj hex_table_natural (conj (proj1 tet_table_closed)
          (conj (proj1 hex_table_closed) (conj (proj1 (proj2 hex_table_closed)) tables_agree))))).
Qed.

(* 2-D points in raw containers (what a two-column .obj/.off gives too), mixed with a 3-D one *)
Example ex_vertices_2d : exists r',
  prepare (true, true) (mkRaw [[0; 0]; [4; 0]; [0; 4; 8]] [] [] [[0; 1; 2]] [] [] [] [] [] [] []) = Ok r'
  /\ vertices r' = [[0; 0; 0]; [4; 0; 0]; [0; 4; 8]].
Proof. eexists. split; [vm_compute; reflexivity | reflexivity]. Qed.

(* corner containers pre-filled by an importer (surface: kept; volume file with faces: face corners replaced because the
   completed faces change the count) *)
Example ex_prefilled : fc_incoming_ok (mkRaw [[0;0;0];[1;0;0];[0;1;0];[0;0;1]] [] [] [[0;1;2]] [0;1;2] [0;0;0] [[0;1;2;3]] [0;1;2;3] [0;0;0;0] [] [])
  /\ cc_incoming_ok (mkRaw [[0;0;0];[1;0;0];[0;1;0];[0;0;1]] [] [] [[0;1;2]] [0;1;2] [0;0;0] [[0;1;2;3]] [0;1;2;3] [0;0;0;0] [] [])
  /\ exists r', prepare (true, true) (mkRaw [[0;0;0];[1;0;0];[0;1;0];[0;0;1]] [] [] [[0;1;2]] [0;1;2] [0;0;0] [[0;1;2;3]] [0;1;2;3] [0;0;0;0] [] []) = Ok r'
      /\ length (fc_elem r') = 12%nat /\ cc_adj r' = [0;0;0;0].
Proof.
  split; [right; split; reflexivity|]. split; [right; split; reflexivity|].
  eexists. split; [vm_compute; reflexivity|]. split; reflexivity.
Qed.

(* a construction that raises: completion off and the cell's faces not supplied *)
Example ex_failed_prepare :
  prepare (false, true) (mkRaw [[0;0;0];[1;0;0];[0;1;0];[0;0;1]] [] [] [[1;3;2]] [] [] [[0;1;2;3]] [] [] [] []) = Err EKey.
Proof. vm_compute. reflexivity. Qed.
