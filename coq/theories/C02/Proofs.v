(* C02 - collected lemmas exported to Props.v, with non-vacuity examples for their hypotheses. *)
From Coq Require Import ZArith List Bool Lia.
Import ListNotations.
Require Export MV.Lib.Base MV.C02.Defs MV.C02.Gen MV.C02.Model MV.C02.Proofs_Base MV.C02.Proofs_Steps
               MV.C02.Proofs_Edges MV.C02.Proofs_Faces MV.C02.Proofs_Corners MV.C02.Proofs_Attrs MV.C02.Proofs_Idem MV.C02.Proofs_Clear.
Open Scope Z_scope.

(* two tetrahedra sharing a face, one declared face, declared edges among which a self-loop, an out-of-range edge and
   a duplicate, a dense and a sparse attribute with a custom default *)
Definition ex_raw : raw :=
  mkRaw [[0;0;0]; [1;0;0]; [0;1;0]; [0;0;1]; [1;1;1]]
        [(1, 0); (1, 1); (7, 2); (2, 3); (0, 1)]
        [(1, Dense 0 [10; 20; 30; 40; 50]); (2, Sparse 7 [(3, 5)])]
        [[3; 2; 1]] [] []
        [[0; 1; 2; 3]; [1; 2; 3; 4]] [] [] [] [].

Example ex_prepare : exists r', prepare (true, true) ex_raw = Ok r'
  /\ edges r' = [(0, 1); (2, 3); (0, 1); (1, 2); (1, 3); (0, 2); (0, 3); (2, 4); (3, 4); (1, 4)]
  /\ faces r' = [[3; 2; 1]; [0; 2; 3]; [3; 1; 0]; [0; 1; 2]; [2; 4; 3]; [1; 3; 4]; [4; 2; 1]]
  /\ cf_elem r' = [0; 1; 2; 3; 4; 5; 6; 0] /\ cf_adj r' = [0; 0; 0; 0; 1; 1; 1; 1]
  /\ map (fun na => (fst na, map (attr_get (snd na)) (zrange 10))) (eattrs r') =
     [(1, [10; 40; 50; 0; 0; 0; 0; 0; 0; 0]); (2, [7; 5; 7; 7; 7; 7; 7; 7; 7; 7]); (0, [1; 1; 1; 0; 0; 0; 0; 0; 0; 0])].
Proof. eexists. split; [vm_compute; reflexivity|]. vm_compute. repeat split; reflexivity. Qed.

Example ex_hyps : fc_elem ex_raw = [] /\ cc_elem ex_raw = [] /\ cc_adj ex_raw = [] /\ cf_elem ex_raw = [] /\ cf_adj ex_raw = []
  /\ Forall cell_ok (cells ex_raw) /\ attr_lookup HARD (eattrs ex_raw) = None
  /\ added_edges (true, true) ex_raw <> [] /\ added_faces (true, true) ex_raw <> []
  /\ kept_idx (zlen (vertices ex_raw)) (edges ex_raw) = [0; 3; 4].
Proof.
  repeat split; try reflexivity.
  - repeat constructor; cbn; auto.
  - vm_compute. discriminate.
  - vm_compute. discriminate.
Qed.

Example ex_from_arrays : exists r', from_arrays (true, true) 2 [[0;0]; [1;0]; [0;1]] [(2, 1)] [[0;1;2]] [] = Ok (2, r')
  /\ vertices r' = [[0;0;0]; [1;0;0]; [0;1;0]] /\ edges r' = [(1, 2); (0, 1); (0, 2)].
Proof. eexists. split; [vm_compute; reflexivity|]. split; reflexivity. Qed.

Example ex_class_override : exists r', instanciate (true, true) (Some 2) (mkRaw [[0;0;0];[1;1;1]] [(1,0)] [] [] [] [] [] [] [] [] []) = Ok (2, r').
Proof. eexists. vm_compute. reflexivity. Qed.

(* rebuilding the example: the corner containers of the raw input are well formed, and the second construction returns
   the very same containers (here even the same attribute representation) *)
Example ex_rebuild : wf_corners ex_raw /\
  exists r1 r2, instanciate (true, true) None ex_raw = Ok (3, r1) /\ instanciate (true, true) None (rewrap 3 r1) = Ok (3, r2)
                /\ edges r2 = edges r1 /\ cf_elem r2 = cf_elem r1 /\ cf_adj r2 = cf_adj r1
                /\ map (fun na => map (attr_get (snd na)) (zrange 10)) (eattrs r2)
                   = map (fun na => map (attr_get (snd na)) (zrange 10)) (eattrs r1).
Proof.
  split; [split; reflexivity|]. eexists. eexists. split; [vm_compute; reflexivity|].
  split; [vm_compute; reflexivity|]. vm_compute. repeat split; reflexivity.
Qed.

(* the subdivision scenario: build, re-wrap, clear the three corner containers, add a vertex and a cell, build again:
   12 cell-face records with their 12 owners *)
Example ex_clear_edit_rebuild : fresh_corners ex_raw /\
  exists r1 r2, instanciate (true, true) None ex_raw = Ok (3, r1)
    /\ rebuild (true, true) None [EClearFC; EClearCC; EClearCF; EAddVertex [2; 2; 2]; EAddCell [2; 3; 4; 5]] 3 r1 = Ok (3, r2)
    /\ cf_adj r2 = [0; 0; 0; 0; 1; 1; 1; 1; 2; 2; 2; 2] /\ length (cf_elem r2) = 12%nat
    /\ cc_adj r2 = [0; 0; 0; 0; 1; 1; 1; 1; 2; 2; 2; 2].
Proof.
  split; [repeat split; reflexivity|]. eexists. eexists. split; [vm_compute; reflexivity|].
  split; [vm_compute; reflexivity|]. vm_compute. repeat split; reflexivity.
Qed.

(* stale face corners: 3 records for a face list with 6 incidences *)
Example ex_stale_face_corners : exists r',
  prepare (true, true) (mkRaw [[0;0;0];[1;0;0];[0;1;0];[1;1;0]] [] [] [[0;1;2];[1;3;2]] [0;1;2] [0;0;0] [] [] [] [] []) = Ok r'
  /\ fc_elem r' = [0;1;2;1;3;2] /\ fc_adj r' = [0;0;0;1;1;1].
Proof. eexists. split; [vm_compute; reflexivity|]. split; reflexivity. Qed.
