(* C02 - edge attributes through completion and the invalid-edge branch; the hard_edges flags. *)
From Coq Require Import ZArith List Bool Lia.
Import ListNotations.
Require Import MV.Lib.Base MV.C02.Defs MV.C02.Gen MV.C02.Model MV.C02.Proofs_Base MV.C02.Proofs_Steps
               MV.C02.Proofs_Edges.
Open Scope Z_scope.

(* ------------------------------------------------------------ reading attributes *)
Lemma attr_get_expand k a i : attr_get (attr_expand k a) i = attr_get a i.
Proof.
  destruct a as [d e|d v]; cbn; [reflexivity|]. unfold znth. destruct (i <? 0); [reflexivity|].
  destruct (Nat.lt_ge_cases (Z.to_nat i) (length v)) as [H|H].
  - now rewrite app_nth1.
  - rewrite app_nth2 by assumption. rewrite (nth_overflow v) by assumption.
    destruct (Nat.lt_ge_cases (Z.to_nat i - length v) k) as [H2|H2].
    + apply nth_repeat.
    + apply nth_overflow. now rewrite repeat_length.
Qed.

Lemma attr_default_expand k a : attr_default (attr_expand k a) = attr_default a.
Proof. destruct a; reflexivity. Qed.

Lemma attr_default_reindex kept a : attr_default (reindex kept a) = attr_default a.
Proof. reflexivity. Qed.

(* entries of the rebuilt attribute *)
Definition entry_of (a : attr) (nie : Z * Z) : list (Z * Z) :=
  if attr_keep (attr_dense a) (attr_has a (snd nie)) then [(fst nie, attr_get a (snd nie))] else [].

Lemma assoc_app k l1 l2 : assoc k (l1 ++ l2) = match assoc k l1 with Some v => Some v | None => assoc k l2 end.
Proof. induction l1 as [|[k' v] t IH]; cbn; [reflexivity|]. destruct (k =? k'); [reflexivity | exact IH]. Qed.

Lemma assoc_entries_lt a s kept k : k < s -> assoc k (flat_map (entry_of a) (enum_from s kept)) = None.
Proof.
  revert s; induction kept as [|x t IH]; intros s H; cbn; [reflexivity|].
  rewrite assoc_app. unfold entry_of at 1. cbn.
  destruct (attr_keep _ _); cbn.
  - destruct (k =? s) eqn:E; [apply Z.eqb_eq in E; lia|]. apply IH. lia.
  - apply IH. lia.
Qed.

Lemma assoc_entries a s kept j ie : nth_error kept j = Some ie ->
  assoc (s + Z.of_nat j) (flat_map (entry_of a) (enum_from s kept)) =
  if attr_keep (attr_dense a) (attr_has a ie) then Some (attr_get a ie) else None.
Proof.
  revert s j; induction kept as [|x t IH]; intros s [|j]; cbn [nth_error]; try discriminate.
  - intros [= ->]. cbn [enum_from flat_map]. rewrite assoc_app. unfold entry_of at 1. cbn [fst snd].
    rewrite Z.add_0_r.
    destruct (attr_keep _ _); cbn.
    + now rewrite Z.eqb_refl.
    + apply assoc_entries_lt. lia.
  - intros H. cbn [enum_from flat_map]. rewrite assoc_app. unfold entry_of at 1. cbn [fst snd].
    replace (s + Z.of_nat (S j)) with (s + 1 + Z.of_nat j) by lia.
    destruct (attr_keep (attr_dense a) (attr_has a x)); cbn.
    + destruct (s + 1 + Z.of_nat j =? s) eqn:E; [apply Z.eqb_eq in E; lia|]. now apply IH.
    + now apply IH.
Qed.

(* the n-th surviving edge reads, in the rebuilt attribute, what it read before *)
Lemma reindex_get kept a j ie : nth_error kept j = Some ie ->
  attr_get (reindex kept a) (Z.of_nat j) = attr_get a ie.
Proof.
  intros H. unfold reindex. cbn [attr_get]. unfold enumerate.
  change (flat_map _ (enum_from 0 kept)) with (flat_map (entry_of a) (enum_from 0 kept)).
  pose proof (assoc_entries a 0 kept j ie H) as E. rewrite Z.add_0_l in E. rewrite E.
  unfold attr_keep, reindex_keeps_default.
  destruct a as [d e|d v]; cbn.
  - destruct (assoc ie e); reflexivity.
  - reflexivity.
Qed.

Lemma reindex_get_out kept a j : (length kept <= j)%nat -> attr_get (reindex kept a) (Z.of_nat j) = attr_default a.
Proof.
  intros H. unfold reindex. cbn [attr_get]. unfold enumerate.
  assert (E : forall s l k, s + zlen l <= k -> assoc k (flat_map (entry_of a) (enum_from s l)) = None).
  { intros s l; revert s; induction l as [|x t IH]; intros s k Hk; cbn; [reflexivity|].
    rewrite assoc_app. unfold entry_of at 1. cbn [fst snd].
    assert (zlen (x :: t) = 1 + zlen t) by (unfold zlen; cbn [length]; lia). pose proof (zlen_nonneg t).
    destruct (attr_keep _ _); cbn.
    - destruct (k =? s) eqn:E; [apply Z.eqb_eq in E; lia|]. apply IH. lia.
    - apply IH. lia. }
  change (flat_map _ (enum_from 0 kept)) with (flat_map (entry_of a) (enum_from 0 kept)).
  rewrite E; [reflexivity|]. unfold zlen. lia.
Qed.

(* ------------------------------------------------------------ attribute lists *)
Definition amap (g : attr -> attr) (l : attrs) : attrs := map (fun na => (fst na, g (snd na))) l.

Lemma amap_nth g l p n a : nth_error l p = Some (n, a) -> nth_error (amap g l) p = Some (n, g a).
Proof. intros H. unfold amap. now rewrite nth_error_map, H. Qed.

Lemma amap_lookup g l n : attr_lookup n (amap g l) = option_map g (attr_lookup n l).
Proof. induction l as [|[m a] t IH]; cbn; [reflexivity|]. destruct (n =? m); [reflexivity | exact IH]. Qed.

Lemma amap_names g l : map fst (amap g l) = map fst l.
Proof. unfold amap. rewrite map_map. reflexivity. Qed.

Lemma with_hard_nth l ne p x : nth_error l p = Some x -> nth_error (with_hard l ne) p = Some x.
Proof.
  intros H. unfold with_hard, hard_guarded. destruct (attr_lookup HARD l); [assumption|].
  rewrite nth_error_app1; [assumption|]. apply nth_error_Some. congruence.
Qed.

Lemma lookup_app_new l n x : attr_lookup n l = None -> attr_lookup n (l ++ [(n, x)]) = Some x.
Proof.
  induction l as [|[m a] t IH]; cbn.
  - now rewrite Z.eqb_refl.
  - destruct (n =? m); [discriminate | exact IH].
Qed.

Definition pe_attr (r : raw) (a : attr) : attr :=
  if edges_dropped (zlen (vertices r)) (edges r)
  then reindex (kept_idx (zlen (vertices r)) (edges r)) a else a.

Lemma pe_eattrs r : eattrs (prepare_edges r) = amap (pe_attr r) (eattrs r).
Proof.
  unfold prepare_edges, pe_attr, amap. destruct (edges_dropped _ (edges r)); cbn; [reflexivity|].
  symmetry. apply map_id_in. now intros [n a] _.
Qed.

Definition completes (c : cfg) (r : raw) : bool := snd c && nonempty (faces r ++ added_faces c r).

Lemma stage2_eattrs c r : eattrs (stage2 c r) =
  if completes c r then amap (attr_expand (length (added_edges c r))) (with_hard (eattrs r) (zlen (edges r)))
  else eattrs r.
Proof.
  unfold stage2, completes, added_edges. rewrite pv_eattrs. destruct (snd c); cbn; [|apply stage1_eattrs].
  rewrite cef_eattrs, stage1_faces, stage1_eattrs, stage1_edges, isnil_nonempty.
  destruct (nonempty _); reflexivity.
Qed.

Lemma prepare_eattrs c r r' : prepare c r = Ok r' ->
  eattrs r' = amap (pe_attr (stage2 c r)) (eattrs (stage2 c r)).
Proof.
  rewrite prepare_unfold. intros H. apply gcf_fields in H as (_ & _ & Ha & _). unfold stage5 in Ha.
  now rewrite gcc_eattrs, gfc_eattrs, pe_eattrs in Ha.
Qed.

(* ------------------------------------------------------------ surviving edges keep their values *)
Lemma kept_prefix N E A j i : nth_error (kept_idx N E) j = Some i -> nth_error (kept_idx N (E ++ A)) j = Some i.
Proof.
  unfold kept_idx. rewrite kept_from_app. intros H. rewrite nth_error_app1; [assumption|].
  apply nth_error_Some. congruence.
Qed.

Lemma existsb_app_false {A} (p : A -> bool) l1 l2 : existsb p (l1 ++ l2) = false -> existsb p l1 = false.
Proof. rewrite existsb_app. now intros H%orb_false_iff. Qed.

Lemma pe_attr_get c r a j i :
  nth_error (kept_idx (zlen (vertices r)) (edges r)) j = Some i ->
  attr_get (pe_attr (stage2 c r) a) (Z.of_nat j) = attr_get a i.
Proof.
  intros H. unfold pe_attr. rewrite stage2_nverts, stage2_edges.
  destruct (edges_dropped _ (edges r ++ added_edges c r)) eqn:E.
  - apply reindex_get. now apply kept_prefix.
  - apply edges_dropped_false, sel_from_full_app in E. unfold kept_idx in H.
    rewrite (proj2 (sel_from_full _ _ _ E)) in H. apply enum_from_fst_nth in H. now subst.
Qed.

Theorem attrs_thm c r r' : prepare c r = Ok r' ->
  forall p name a, nth_error (eattrs r) p = Some (name, a) ->
  exists a', nth_error (eattrs r') p = Some (name, a')
    /\ attr_default a' = attr_default a
    /\ forall j i, nth_error (kept_idx (zlen (vertices r)) (edges r)) j = Some i ->
                   attr_get a' (Z.of_nat j) = attr_get a i.
Proof.
  intros H p name a Hp. rewrite (prepare_eattrs c r r' H), stage2_eattrs.
  destruct (completes c r).
  - exists (pe_attr (stage2 c r) (attr_expand (length (added_edges c r)) a)). split.
    + apply amap_nth, amap_nth. now apply with_hard_nth.
    + split.
      * unfold pe_attr. destruct (edges_dropped _ _); now rewrite ?attr_default_reindex, attr_default_expand.
      * intros j i Hji. rewrite (pe_attr_get c r _ j i Hji). apply attr_get_expand.
  - exists (pe_attr (stage2 c r) a). split; [now apply amap_nth|]. split.
    + unfold pe_attr. destruct (edges_dropped _ _); reflexivity.
    + intros j i Hji. apply (pe_attr_get c r _ j i Hji).
Qed.

(* the surviving declared edges are exactly the first ones of the final list, in order *)
Lemma kept_idx_survivors N E : map (fun i => kedge (znth E i (0, 0))) (kept_idx N E) = norm_edges N E.
Proof.
  unfold kept_idx, norm_edges. rewrite <- sel_from_spec.
  assert (G : forall seen s pre, zlen pre = s ->
            map (fun i => kedge (znth (pre ++ E) i (0, 0))) (kept_from N seen s E) = map kedge (sel_from N seen E)).
  { induction E as [|e t IH]; intros seen s pre Hs; cbn; [reflexivity|].
    assert (Hn : znth (pre ++ e :: t) s (0, 0) = e).
    { unfold znth. pose proof (zlen_nonneg pre). destruct (s <? 0) eqn:E0; [lia|].
      rewrite app_nth2 by (unfold zlen in Hs; lia). replace (Z.to_nat s - length pre)%nat with 0%nat by (unfold zlen in Hs; lia).
      reflexivity. }
    assert (IH' : forall seen', map (fun i => kedge (znth (pre ++ e :: t) i (0, 0))) (kept_from N seen' (s + 1) t)
                              = map kedge (sel_from N seen' t)).
    { intros seen'. specialize (IH seen' (s + 1) (pre ++ [e])). rewrite <- app_assoc in IH. cbn [app] in IH.
      apply IH. rewrite zlen_app; unfold zlen in *; cbn [length]; lia. }
    destruct (ekeep N seen e); cbn [map]; [rewrite Hn|]; rewrite IH'; reflexivity. }
  apply (G [] 0 []). reflexivity.
Qed.

(* ------------------------------------------------------------ hard edges *)
Lemma assoc_const v i l : assoc i (map (fun e => (e, v)) l) = if existsb (Z.eqb i) l then Some v else None.
Proof. induction l as [|a t IH]; cbn; [reflexivity|]. destruct (i =? a); [reflexivity | exact IH]. Qed.

Lemma existsb_zrange ne i : existsb (Z.eqb i) (zrange ne) = (0 <=? i) && (i <? ne).
Proof.
  apply eq_true_iff_eq. rewrite existsb_exists, andb_true_iff. split.
  - intros [x [Hx E]]. apply Z.eqb_eq in E. subst. apply In_zrange in Hx. lia.
  - intros H. exists i. split; [apply In_zrange; lia | apply Z.eqb_refl].
Qed.

Lemma assoc_hard ne i : assoc i (map (fun e => (e, hard_value)) (zrange ne)) = if (0 <=? i) && (i <? ne) then Some 1 else None.
Proof. now rewrite assoc_const, existsb_zrange. Qed.

Lemma hard_attr_get ne i : attr_get (hard_attr ne) i = if (0 <=? i) && (i <? ne) then 1 else 0.
Proof. unfold hard_attr. cbn [attr_get]. rewrite assoc_hard. destruct (_ && _); reflexivity. Qed.

Lemma filter_kedge_length N E : length (filter (evalid N) (map kedge E)) = length (filter (evalid N) E).
Proof.
  rewrite filter_map_comm, map_length.
  now rewrite (filter_ext_in' (fun x => evalid N (kedge x)) (evalid N)) by (intros; apply evalid_kedge).
Qed.

Theorem hard_edges_thm c r r' : prepare c r = Ok r' -> attr_lookup HARD (eattrs r) = None ->
  let nd := zlen (norm_edges (zlen (vertices r)) (edges r)) in
  (snd c = true -> faces r' <> [] ->
     exists h, attr_lookup HARD (eattrs r') = Some h /\
               forall j, 0 <= j < zlen (edges r') -> (attr_get h j = 1 <-> j < nd) /\ (attr_get h j = 0 <-> nd <= j))
  /\ ((snd c = false \/ faces r' = []) -> attr_lookup HARD (eattrs r') = None).
Proof.
  intros H Hno nd. pose proof (prepare_fields c r r' H) as (_ & _ & Hf & He).
  rewrite (prepare_eattrs c r r' H), stage2_eattrs, amap_lookup. unfold completes. rewrite <- Hf.
  split.
  - intros Hc Hne. rewrite Hc. assert (Hn : nonempty (faces r') = true) by (revert Hne; destruct (faces r'); [congruence | reflexivity]).
    rewrite Hn. cbn [andb]. rewrite amap_lookup. unfold with_hard. rewrite Hno.
    rewrite (lookup_app_new _ _ _ Hno). cbn [option_map attr_expand hard_attr].
    fold (hard_attr (zlen (edges r))).
    eexists. split; [reflexivity|]. intros j Hj.
    set (N := zlen (vertices r)) in *. set (E := edges r) in *. set (A := added_edges c r) in *.
    assert (Hnd : nd = Z.of_nat (length (kept_from N [] 0 E))).
    { unfold nd, zlen, norm_edges. now rewrite <- sel_from_spec, map_length, kept_from_length. }
    unfold pe_attr. rewrite stage2_nverts, stage2_edges. fold N E A.
    destruct (edges_dropped N (E ++ A)) eqn:Ex.
    + (* rebuilt *)
      assert (Hlen : zlen (edges r') = Z.of_nat (length (kept_idx N (E ++ A)))).
      { rewrite He. unfold zlen, kept_idx, norm_edges. now rewrite <- sel_from_spec, map_length, kept_from_length. }
      destruct (nth_error (kept_idx N (E ++ A)) (Z.to_nat j)) as [ie|] eqn:En;
        [|apply nth_error_None in En; lia].
      replace j with (Z.of_nat (Z.to_nat j)) at 1 3 by lia.
      rewrite (reindex_get _ _ _ _ En), hard_attr_get.
      unfold kept_idx in En. rewrite kept_from_app in En.
      destruct (Nat.lt_ge_cases (Z.to_nat j) (length (kept_from N [] 0 E))) as [Hlt|Hge].
      * rewrite nth_error_app1 in En by assumption. apply nth_error_In, kept_from_bounds in En.
        replace ((0 <=? ie) && (ie <? zlen E)) with true by lia. split; split; intros; lia.
      * rewrite nth_error_app2 in En by assumption. apply nth_error_In, kept_from_bounds in En.
        replace ((0 <=? ie) && (ie <? zlen E)) with false by lia. split; split; intros; lia.
    + (* all valid *)
      rewrite hard_attr_get.
      apply edges_dropped_false, sel_from_full_app in Ex.
      assert (Hall : nd = zlen E).
      { rewrite Hnd, (proj2 (sel_from_full _ _ _ Ex)), map_length, enum_from_length. reflexivity. }
      destruct ((0 <=? j) && (j <? zlen E)) eqn:B; split; split; intros; lia.
  - intros Hor. assert (Hb : snd c && nonempty (faces r') = false).
    { destruct Hor as [->| ->]; [reflexivity | apply andb_false_r]. }
    rewrite Hb, Hno. reflexivity.
Qed.
