(* C02 - building again from an already built mesh changes nothing. *)
From Coq Require Import ZArith List Bool Lia.
Import ListNotations.
Require Import MV.Lib.Base MV.C02.Defs MV.C02.Gen MV.C02.Model MV.C02.Proofs_Base MV.C02.Proofs_Steps
               MV.C02.Proofs_Edges MV.C02.Proofs_Faces MV.C02.Proofs_Corners MV.C02.Proofs_Attrs.
Open Scope Z_scope.

(* corner containers filled through the public API hold one owner per element *)
Definition wf_corners (r : raw) : Prop :=
  zlen (cc_elem r) = zlen (cc_adj r) /\ zlen (cf_elem r) = zlen (cf_adj r).

(* attributes are compared as total maps over the n edges (name, default, value at every edge) *)
Definition attr_same (n : Z) (x y : Z * attr) : Prop :=
  fst x = fst y /\ attr_default (snd x) = attr_default (snd y)
  /\ forall j, 0 <= j < n -> attr_get (snd x) j = attr_get (snd y) j.
Definition attrs_equiv (n : Z) (x y : attrs) : Prop := Forall2 (attr_same n) x y.

Definition raw_equiv (x y : raw) : Prop :=
  vertices x = vertices y /\ edges x = edges y /\ attrs_equiv (zlen (edges y)) (eattrs x) (eattrs y)
  /\ faces x = faces y /\ fc_elem x = fc_elem y /\ fc_adj x = fc_adj y
  /\ cells x = cells y /\ cc_elem x = cc_elem y /\ cc_adj x = cc_adj y
  /\ cf_elem x = cf_elem y /\ cf_adj x = cf_adj y.

Definition fcan (rec : Z -> Z -> Z * Z) (elts : list (list Z)) : list Z * list Z :=
  (map fst (records rec elts), map snd (records rec elts)).

(* what a finished object satisfies, and what makes prepare() a no-op on it *)
Record prepared (c : cfg) (p : raw) : Prop := {
  P_verts : map prep_vertex (vertices p) = vertices p;
  P_edges : norm_edges (zlen (vertices p)) (edges p) = edges p;
  P_faces : fst c = true -> forall C f, In C (cells p) -> In f (cfc_cell_faces C) ->
            In (keyify f) (map keyify (faces p));
  P_sides : snd c = true -> forall f s, In f (faces p) -> In s (face_sides f) ->
            evalid (zlen (vertices p)) s = true -> In s (edges p);
  P_hard : snd c = true -> faces p <> [] -> attr_lookup HARD (eattrs p) <> None;
  P_fc : fc_regen (zlen (fc_elem p)) (sum_len (faces p)) = false
         \/ (fc_elem p, fc_adj p) = fcan fc_record (faces p);
  P_cc : cc_regen (zlen (cc_elem p)) (zlen (cc_adj p)) = false
         \/ (cc_elem p, cc_adj p) = fcan cc_record (cells p);
  P_cf : cf_regen (zlen (cf_elem p)) (zlen (cf_adj p)) = false
         \/ (cf_elem p = [] /\ cf_adj p = [] /\ cf_loop true true (faces p) (enumerate (cells p)) = Ok ([], []))
}.

(* ------------------------------------------------------------ small facts *)
Lemma filter_true_in {A} (p : A -> bool) l : (forall x, In x l -> p x = true) -> filter p l = l.
Proof.
  induction l as [|x t IH]; cbn; intros H; [reflexivity|].
  rewrite (H x (or_introl eq_refl)). f_equal. apply IH. intros; apply H; now right.
Qed.

Lemma filter_false_in {A} (p : A -> bool) l : (forall x, In x l -> p x = false) -> filter p l = [].
Proof.
  induction l as [|x t IH]; cbn; intros H; [reflexivity|].
  rewrite (H x (or_introl eq_refl)). apply IH. intros; apply H; now right.
Qed.

Lemma normal_edges N X e : In e (filter (evalid N) (map kedge X)) -> kedge e = e /\ evalid N e = true.
Proof.
  intros H. apply filter_In in H as [H Hv]. apply in_map_iff in H as [e0 [<- _]]. split; [apply kedge_idem | assumption].
Qed.

Lemma norm_edges_normal N X e : In e (norm_edges N X) -> kedge e = e /\ evalid N e = true.
Proof. intros H. apply norm_edges_In in H. now apply normal_edges in H. Qed.

Lemma normal_edges_fix N X : norm_edges N (norm_edges N X) = norm_edges N X.
Proof.
  set (L := norm_edges N X).
  assert (H : forall e, In e L -> kedge e = e /\ evalid N e = true) by (intros e; apply norm_edges_normal).
  unfold norm_edges at 1. rewrite (map_id_in kedge L) by (intros e He; now apply H).
  rewrite (filter_true_in (evalid N) L) by (intros e He; now apply H).
  apply fresh_all_id; [apply norm_edges_NoDup | intros x _ []].
Qed.

Lemma P_edges_facts N E : norm_edges N E = E ->
  map kedge E = E /\ edges_dropped N E = false.
Proof.
  intros H. assert (G : forall e, In e E -> kedge e = e /\ evalid N e = true).
  { intros e He. rewrite <- H in He. now apply norm_edges_normal in He. }
  split; [apply map_id_in; intros e He; now apply G|].
  apply edges_dropped_false. rewrite <- (map_length kedge (sel_from N [] E)), sel_from_spec.
  fold (norm_edges N E). now rewrite H.
Qed.

Lemma nth_enum_fst {A} s (l : list A) j : (j < length l)%nat -> nth_error (map fst (enum_from s l)) j = Some (s + Z.of_nat j).
Proof.
  revert s j; induction l as [|x t IH]; intros s [|j] H; cbn in *; try lia.
  - f_equal. lia.
  - rewrite IH by lia. f_equal. lia.
Qed.

Lemma ids_of_length fs fcs ids : ids_of fs fcs = Ok ids -> length ids = length fcs.
Proof. intros H. apply ids_of_sound in H. induction H; cbn; [reflexivity | now f_equal]. Qed.

Lemma cf_loop_lengths fs cs el ad : cf_loop true true fs cs = Ok (el, ad) -> length el = length ad.
Proof.
  revert el ad; induction cs as [|[iC C] t IH]; cbn; intros el ad H.
  - inversion H. reflexivity.
  - destruct (gcf_cell_faces C) as [fcs|]; [|discriminate].
    fold (ids_of fs fcs) in H.
    destruct (ids_of fs fcs) as [ids|e] eqn:Ei; cbn in H; [|discriminate].
    destruct (cf_loop true true fs t) as [[el' ad']|e] eqn:El; cbn in H; [|discriminate].
    inversion H; subst. rewrite !app_length, repeat_length, (ids_of_length _ _ _ Ei), (IH el' ad' eq_refl). reflexivity.
Qed.

Lemma zlen_zero_nil {A} (l : list A) : zlen l = 0 -> l = [].
Proof. apply zlen_nil_iff. Qed.

Lemma regen_both_zero (g : Z -> Z -> bool) a b :
  (g a b = true -> a = 0 \/ b = 0) -> g a b = true -> a = b -> a = 0 /\ b = 0.
Proof. intros H1 H2 H3. destruct (H1 H2); lia. Qed.

Lemma cc_regen_zero a b : cc_regen a b = true -> a = 0 \/ b = 0.
Proof. unfold cc_regen. rewrite orb_true_iff, !Z.eqb_eq. tauto. Qed.
Lemma cf_regen_zero a b : cf_regen a b = true -> a = 0 \/ b = 0.
Proof. unfold cf_regen. rewrite orb_true_iff, !Z.eqb_eq. tauto. Qed.

(* ------------------------------------------------------------ the result of prepare is `prepared` *)
Lemma prepare_gives_prepared c r r1 : wf_corners r -> prepare c r = Ok r1 -> prepared c r1 /\ wf_corners r1.
Proof.
  intros [Wcc Wcf] H.
  pose proof (prepare_fields c r r1 H) as (Hv & Hcs & Hfs & Hes).
  pose proof (faces_thm c r r1 H) as (_ & _ & _ & _ & Hcomplete).
  pose proof (prepare_eattrs c r r1 H) as Hat.
  pose proof H as H5. rewrite prepare_unfold in H5. pose proof (gcf_fields _ _ H5) as (_ & _ & _ & G4 & G5 & G6 & G7 & G8 & G9).
  unfold stage5 in G4, G5, G6, G7, G8, G9.
  set (X := prepare_edges (stage2 c r)) in *. set (Y := generate_face_corners X) in *.
  destruct (stage2_corner_fields c r) as (S1 & S2 & S3 & S4).
  (* cell corners *)
  assert (Pcc : (cc_regen (zlen (cc_elem r1)) (zlen (cc_adj r1)) = false \/ (cc_elem r1, cc_adj r1) = fcan cc_record (cells r1))
                /\ zlen (cc_elem r1) = zlen (cc_adj r1)).
  { rewrite G8, G9. rewrite gcc_cells in G7. rewrite G7.
    assert (Ye : cc_elem Y = cc_elem r) by (unfold Y, X; now rewrite gfc_cc_elem, pe_cc_elem, S3).
    assert (Ya : cc_adj Y = cc_adj r) by (unfold Y, X; now rewrite gfc_cc_adj, pe_cc_adj, S4).
    unfold generate_cell_corners. rewrite Ye, Ya.
    destruct (cc_regen (zlen (cc_elem r)) (zlen (cc_adj r))) eqn:R.
    - destruct (regen_both_zero cc_regen _ _ (cc_regen_zero _ _) R Wcc) as [Z1 Z2].
      rewrite Z1, Z2. replace (cc_adj_only 0 0) with false by reflexivity. cbn [cc_elem cc_adj].
      split; [right; reflexivity|]. unfold zlen. now rewrite !map_length.
    - rewrite Ye, Ya. split; [left; exact R | exact Wcc]. }
  (* cell faces *)
  assert (Pcf : (cf_regen (zlen (cf_elem r1)) (zlen (cf_adj r1)) = false
                 \/ (cf_elem r1 = [] /\ cf_adj r1 = [] /\ cf_loop true true (faces r1) (enumerate (cells r1)) = Ok ([], [])))
                /\ zlen (cf_elem r1) = zlen (cf_adj r1)).
  { destruct (stage5_cf c r) as [E1 E2]. unfold generate_cell_faces in H5. rewrite E1, E2 in H5.
    destruct (cf_regen (zlen (cf_elem r)) (zlen (cf_adj r))) eqn:R.
    - destruct (regen_both_zero cf_regen _ _ (cf_regen_zero _ _) R Wcf) as [Z1 Z2].
      apply zlen_zero_nil in Z1, Z2. rewrite Z1, Z2 in H5.
      replace (cf_put_elem (zlen (@nil Z)) (zlen (@nil Z))) with true in H5 by reflexivity.
      replace (cf_put_adj (zlen (@nil Z)) (zlen (@nil Z))) with true in H5 by reflexivity.
      destruct (cf_loop true true (faces (stage5 c r)) (enumerate (cells (stage5 c r)))) as [[el ad]|e] eqn:El; cbn in H5; [|discriminate].
      inversion H5; subst r1; clear H5. cbn [cf_elem cf_adj faces cells app fst snd].
      pose proof (cf_loop_lengths _ _ _ _ El) as Hl.
      split; [|unfold zlen; now rewrite Hl].
      destruct (cf_regen (zlen el) (zlen ad)) eqn:R2; [|now left]. right.
      assert (Hz : zlen el = zlen ad) by (unfold zlen; now rewrite Hl).
      destruct (regen_both_zero cf_regen _ _ (cf_regen_zero _ _) R2 Hz) as [Y1 Y2].
      apply zlen_zero_nil in Y1, Y2. subst el ad. auto.
    - inversion H5; subst r1. rewrite E1, E2. split; [left; exact R | exact Wcf]. }
  split; [|split; [apply Pcc | apply Pcf]].
  assert (HN : zlen (vertices r1) = zlen (vertices r)) by (rewrite Hv; unfold zlen; now rewrite map_length).
  constructor.
  - rewrite Hv, map_map. apply map_ext. intros v. apply prep_vertex_idem.
  - rewrite HN, Hes. apply normal_edges_fix.
  - intros Hc C f HC Hf. rewrite Hcs in HC. eapply Hcomplete; eauto.
  - intros Hc f s Hf Hs Hval. rewrite HN in Hval. eapply sides_present; eauto.
  - intros Hc Hne. rewrite Hat, stage2_eattrs. unfold completes. rewrite <- Hfs, Hc.
    assert (Hn : nonempty (faces r1) = true) by (revert Hne; destruct (faces r1); [congruence | reflexivity]).
    rewrite Hn. cbn [andb]. rewrite !amap_lookup. unfold with_hard, hard_guarded.
    destruct (attr_lookup HARD (eattrs r)) eqn:L; [rewrite L; discriminate|].
    rewrite (lookup_app_new _ _ _ L). discriminate.
  - rewrite G5, G6, G4. rewrite gcc_fc_elem, gcc_fc_adj, gcc_faces. unfold Y.
    unfold generate_face_corners. destruct (fc_regen (zlen (fc_elem X)) (sum_len (faces X))) eqn:R.
    + right. reflexivity.
    + left. exact R.
  - apply Pcc.
  - apply Pcf.
Qed.

(* ------------------------------------------------------------ the view a class exposes is still `prepared` *)
Lemma rewrap_main k r : top_dim r <= k -> 0 <= k <= 3 ->
  edges (rewrap k r) = edges r /\ faces (rewrap k r) = faces r /\ cells (rewrap k r) = cells r
  /\ vertices (rewrap k r) = vertices r.
Proof.
  unfold top_dim, rewrap, mesh_has_edges, mesh_has_faces, mesh_has_cells. intros H Hk. cbn.
  destruct (cells r) as [|C cs], (faces r) as [|f fs], (edges r) as [|e es]; cbn in H;
    destruct (k >? 0) eqn:A, (k >? 1) eqn:B, (k >? 2) eqn:D; try lia; auto.
Qed.

Lemma rewrap_prepared c k r : top_dim r <= k -> 0 <= k <= 3 -> prepared c r -> prepared c (rewrap k r).
Proof.
  intros Hd Hk P. destruct (rewrap_main k r Hd Hk) as (He & Hf & Hc & Hv).
  constructor.
  - rewrite Hv. apply P.
  - rewrite Hv, He. apply P.
  - intros Hfc C f. rewrite Hc, Hf. now apply P.
  - intros Hsc f s. rewrite Hf, Hv, He. now apply P.
  - intros Hsc. rewrite Hf. intros Hne. unfold rewrap. cbn [eattrs].
    assert (mesh_has_edges k = true).
    { unfold top_dim in Hd. unfold mesh_has_edges. destruct (cells r), (faces r); cbn in Hd; try congruence; lia. }
    rewrite H. now apply P.
  - rewrite Hf. unfold rewrap. cbn [fc_elem fc_adj]. destruct (mesh_has_faces k) eqn:M; [apply P|].
    right. assert (faces r = []).
    { unfold top_dim in Hd. unfold mesh_has_faces in M. destruct (cells r), (faces r); cbn in Hd; try reflexivity; lia. }
    rewrite H. reflexivity.
  - rewrite Hc. unfold rewrap. cbn [cc_elem cc_adj]. destruct (mesh_has_cells k) eqn:M; [apply P|].
    right. assert (cells r = []).
    { unfold top_dim in Hd. unfold mesh_has_cells in M. destruct (cells r); cbn in Hd; try reflexivity; lia. }
    rewrite H. reflexivity.
  - rewrite Hc, Hf. unfold rewrap. cbn [cf_elem cf_adj]. destruct (mesh_has_cells k) eqn:M; [apply P|].
    right. assert (cells r = []).
    { unfold top_dim in Hd. unfold mesh_has_cells in M. destruct (cells r); cbn in Hd; try reflexivity; lia. }
    rewrite H. auto.
Qed.

(* ------------------------------------------------------------ prepare() on a `prepared` object *)
Lemma prepared_added_faces c p : prepared c p -> added_faces c p = [].
Proof.
  intros P. unfold added_faces. destruct (fst c) eqn:Hc; [|reflexivity]. destruct (nonempty (cells p)); [|reflexivity].
  cbn. apply (fresh_nil key_eqb keyify key_eqb_spec). intros f Hf. apply in_flat_map in Hf as [C [HC Hf]].
  eapply P_faces; eauto.
Qed.

Lemma prepared_added_edges c p : prepared c p -> filter (evalid (zlen (vertices p))) (added_edges c p) = [].
Proof.
  intros P. apply filter_false_in. intros e He. apply not_true_iff_false. intros Hv.
  pose proof (added_edges_In c p e He) as [[f [Hf Hs]] Hnot].
  rewrite (prepared_added_faces c p P), app_nil_r in Hf.
  assert (Hc : snd c = true).
  { unfold added_edges in He. destruct (snd c); [reflexivity | contradiction]. }
  destruct (P_edges_facts _ _ (P_edges c p P)) as [Hk _]. rewrite Hk in Hnot.
  apply Hnot. eapply P_sides; eauto.
Qed.

Lemma attrs_equiv_amap n g l :
  (forall a, attr_default (g a) = attr_default a /\ forall j, 0 <= j < n -> attr_get (g a) j = attr_get a j) ->
  attrs_equiv n (amap g l) l.
Proof.
  intros H. induction l as [|[m a] t IH]; cbn; constructor; [|exact IH].
  destruct (H a) as [H1 H2]. repeat split; cbn; auto.
Qed.

Lemma attrs_equiv_refl n l : attrs_equiv n l l.
Proof. induction l; constructor; [repeat split; auto | assumption]. Qed.

Lemma pe_attr_default r a : attr_default (pe_attr r a) = attr_default a.
Proof. unfold pe_attr. destruct (edges_dropped _ (edges r)); reflexivity. Qed.

Theorem prepared_stable c p : prepared c p -> exists p2, prepare c p = Ok p2 /\ raw_equiv p2 p.
Proof.
  intros P. set (N := zlen (vertices p)).
  pose proof (prepared_added_faces c p P) as AF. pose proof (prepared_added_edges c p P) as AE. fold N in AE.
  destruct (P_edges_facts _ _ (P_edges c p P)) as [Hkeyed Hvalid]. fold N in Hvalid.
  (* the pure part *)
  set (Z5 := stage5 c p).
  assert (F5 : faces Z5 = faces p) by (unfold Z5; now rewrite stage5_faces, AF, app_nil_r).
  assert (C5 : cells Z5 = cells p) by (unfold Z5; apply stage5_cells).
  destruct (stage5_cf c p) as [CF1 CF2]. fold Z5 in CF1, CF2.
  destruct (stage2_corner_fields c p) as (S1 & S2 & S3 & S4).
  set (X := prepare_edges (stage2 c p)).
  assert (XF : faces X = faces p) by (unfold X; now rewrite pe_faces, stage2_faces, stage1_faces, AF, app_nil_r).
  assert (FC : fc_elem Z5 = fc_elem p /\ fc_adj Z5 = fc_adj p).
  { unfold Z5, stage5. fold X. rewrite gcc_fc_elem, gcc_fc_adj. unfold generate_face_corners.
    assert (X1 : fc_elem X = fc_elem p) by (unfold X; now rewrite pe_fc_elem, S1).
    assert (X2 : fc_adj X = fc_adj p) by (unfold X; now rewrite pe_fc_adj, S2).
    rewrite X1, XF. destruct (P_fc c p P) as [R|R].
    - rewrite R. auto.
    - destruct (fc_regen _ _); [|auto]. cbn [fc_elem fc_adj]. unfold fcan in R. injection R as R1 R2.
      rewrite <- R1, <- R2. auto. }
  assert (CC : cc_elem Z5 = cc_elem p /\ cc_adj Z5 = cc_adj p).
  { unfold Z5, stage5. fold X. set (Y := generate_face_corners X).
    assert (Y1 : cc_elem Y = cc_elem p) by (unfold Y, X; now rewrite gfc_cc_elem, pe_cc_elem, S3).
    assert (Y2 : cc_adj Y = cc_adj p) by (unfold Y, X; now rewrite gfc_cc_adj, pe_cc_adj, S4).
    assert (Y3 : cells Y = cells p) by (unfold Y, X; now rewrite gfc_cells, pe_cells, stage2_cells).
    unfold generate_cell_corners. rewrite Y1, Y2. destruct (P_cc c p P) as [R|R].
    - rewrite R. auto.
    - unfold fcan in R. injection R as R1 R2.
      destruct (cc_regen (zlen (cc_elem p)) (zlen (cc_adj p))) eqn:G; [|auto].
      assert (Hz : zlen (cc_elem p) = zlen (cc_adj p)) by (rewrite R1, R2; unfold zlen; now rewrite !map_length).
      destruct (regen_both_zero cc_regen _ _ (cc_regen_zero _ _) G Hz) as [Z1 Z2]. rewrite Z1, Z2.
      replace (cc_adj_only 0 0) with false by reflexivity. cbn [cc_elem cc_adj]. rewrite Y3, <- R1, <- R2. auto. }
  (* cell faces: prepare succeeds and leaves them *)
  assert (G : exists p2, generate_cell_faces Z5 = Ok p2 /\ cf_elem p2 = cf_elem p /\ cf_adj p2 = cf_adj p).
  { unfold generate_cell_faces. rewrite CF1, CF2. destruct (P_cf c p P) as [R|(R1 & R2 & R3)].
    - rewrite R. eauto.
    - destruct (cf_regen (zlen (cf_elem p)) (zlen (cf_adj p))); [|eauto].
      rewrite R1, R2. replace (cf_put_elem (zlen (@nil Z)) (zlen (@nil Z))) with true by reflexivity.
      replace (cf_put_adj (zlen (@nil Z)) (zlen (@nil Z))) with true by reflexivity.
      rewrite F5, C5, R3. cbn. eexists. split; [reflexivity|]. cbn. rewrite ?R1, ?R2. auto. }
  destruct G as (p2 & Hp2 & K1 & K2).
  exists p2. split; [now rewrite prepare_unfold|].
  assert (Hprep : prepare c p = Ok p2) by now rewrite prepare_unfold.
  pose proof (prepare_fields c p p2 Hprep) as (Hv & Hcs & Hfs & _).
  destruct (edges_thm c p p2 Hprep) as (Hes & _). fold N in Hes. pose proof (P_edges c p P) as PE. fold N in PE. rewrite AE, app_nil_r, PE in Hes.
  destruct (gcf_fields _ _ Hp2) as (_ & _ & _ & _ & G5 & G6 & _ & G8 & G9).
  destruct FC as [FC1 FC2]. destruct CC as [CC1 CC2].
  unfold raw_equiv. rewrite Hv, (P_verts c p P), Hes, Hfs, AF, app_nil_r, Hcs, G5, G6, G8, G9, K1, K2.
  repeat split; auto.
  (* attributes *)
  rewrite (prepare_eattrs c p p2 Hprep), stage2_eattrs.
  assert (Hget : forall a j, 0 <= j < zlen (edges p) -> attr_get (pe_attr (stage2 c p) a) j = attr_get a j).
  { intros a j Hj. replace j with (Z.of_nat (Z.to_nat j)) at 1 by lia.
    rewrite (pe_attr_get c p a (Z.to_nat j) j); [reflexivity|].
    unfold kept_idx. fold N. apply edges_dropped_false in Hvalid.
    rewrite (proj2 (sel_from_full _ _ _ Hvalid)), nth_enum_fst by (unfold zlen in Hj; lia). f_equal. lia. }
  assert (Hdef : forall a, attr_default (pe_attr (stage2 c p) a) = attr_default a).
  { intros a. apply pe_attr_default. }
  destruct (completes c p) eqn:Cm.
  - unfold completes in Cm. rewrite AF, app_nil_r in Cm. apply andb_true_iff in Cm as [Cs Cn].
    assert (Hne : faces p <> []) by (intros E0; rewrite E0 in Cn; discriminate).
    pose proof (P_hard c p P Cs Hne) as Hh. unfold with_hard, hard_guarded.
    destruct (attr_lookup HARD (eattrs p)) as [h0|]; [|congruence].
    unfold amap at 1. unfold amap at 1. rewrite map_map. cbn [fst snd].
    change (map _ (eattrs p)) with (amap (fun a => pe_attr (stage2 c p) (attr_expand (length (added_edges c p)) a)) (eattrs p)).
    apply attrs_equiv_amap. intros a. split.
    + now rewrite Hdef, attr_default_expand.
    + intros j Hj. now rewrite Hget, attr_get_expand.
  - apply attrs_equiv_amap. intros a. split; [apply Hdef | intros; now apply Hget].
Qed.

(* ------------------------------------------------------------ the theorem *)
Lemma raw_equiv_top_dim x y : raw_equiv x y -> top_dim x = top_dim y.
Proof. intros (_ & He & _ & Hf & _ & _ & Hc & _). unfold top_dim. now rewrite He, Hf, Hc. Qed.

Lemma rewrap_wf k r : wf_corners r -> wf_corners (rewrap k r).
Proof. intros [W1 W2]. unfold wf_corners, rewrap. cbn. destruct (mesh_has_cells k); auto. Qed.

(* the mesh (k, r1) built from r is rebuilt, by RawMeshData(mesh) -> instantiate, into the same class with the same
   containers (attributes as total maps over the edges); the re-wrapped data meets the hypothesis again, so the
   statement applies to every further rebuild *)
Theorem rebuild_thm c dim r k r1 : wf_corners r -> instanciate c dim r = Ok (k, r1) ->
  wf_corners (rewrap k r1) /\
  exists r2, instanciate c dim (rewrap k r1) = Ok (k, r2) /\ raw_equiv r2 (rewrap k r1).
Proof.
  intros W H. destruct (class_thm c dim r k r1 H) as (Hp & Hk & Hr & _).
  destruct (prepare_gives_prepared c r r1 W Hp) as [P W1].
  split; [now apply rewrap_wf|].
  assert (Hd : top_dim r1 <= k) by lia.
  pose proof (rewrap_prepared c k r1 Hd Hr P) as P'.
  destruct (prepared_stable c (rewrap k r1) P') as (r2 & H2 & Eq).
  exists r2. split; [|exact Eq].
  unfold instanciate. rewrite H2. cbn [bind]. rewrite dim_of_top, (raw_equiv_top_dim _ _ Eq).
  destruct (rewrap_main k r1 Hd Hr) as (He & Hf & Hc & _).
  assert (Ht : top_dim (rewrap k r1) = top_dim r1) by (unfold top_dim; now rewrite He, Hf, Hc).
  rewrite Ht. unfold inst_dim, inst_default. rewrite <- Hk.
  unfold class_of. destruct (k =? 0) eqn:E0; [apply Z.eqb_eq in E0; rewrite E0; reflexivity|].
  destruct (k =? 1) eqn:E1; [apply Z.eqb_eq in E1; rewrite E1; reflexivity|].
  destruct (k =? 2) eqn:E2; [apply Z.eqb_eq in E2; rewrite E2; reflexivity|].
  destruct (k =? 3) eqn:E3; [apply Z.eqb_eq in E3; rewrite E3; reflexivity|]. lia.
Qed.

