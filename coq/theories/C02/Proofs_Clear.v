(* C02 - rebuilding a re-wrapped mesh whose corner containers were emptied with clear() (generated from the source),
   with or without edits of the faces / cells in between (what the subdivision editors do). *)
From Coq Require Import ZArith List Bool Lia.
Import ListNotations.
Require Import MV.Lib.Base MV.C02.Defs MV.C02.Gen MV.C02.Model MV.C02.Proofs_Base MV.C02.Proofs_Steps
               MV.C02.Proofs_Edges MV.C02.Proofs_Faces MV.C02.Proofs_Corners MV.C02.Proofs_Attrs MV.C02.Proofs_Idem.
Open Scope Z_scope.

(* ------------------------------------------------------------ clear(): both lists of the container are empty afterwards *)
Lemma corner_clear_spec e a : corner_clear e a = ([], []).
Proof. reflexivity. Qed.

Definition clear3 (r : raw) : raw := apply_edits [EClearFC; EClearCC; EClearCF] r.

Lemma clear3_fields r :
  vertices (clear3 r) = vertices r /\ edges (clear3 r) = edges r /\ eattrs (clear3 r) = eattrs r
  /\ faces (clear3 r) = faces r /\ cells (clear3 r) = cells r
  /\ fc_elem (clear3 r) = [] /\ fc_adj (clear3 r) = [] /\ cc_elem (clear3 r) = [] /\ cc_adj (clear3 r) = []
  /\ cf_elem (clear3 r) = [] /\ cf_adj (clear3 r) = [].
Proof. unfold clear3, apply_edits. cbn. repeat split; reflexivity. Qed.

Lemma Forall2_len {A B} (R : A -> B -> Prop) l1 l2 : Forall2 R l1 l2 -> length l1 = length l2.
Proof. induction 1; cbn; [reflexivity | now f_equal]. Qed.

Lemma cf_owners_length cs : length (cf_owners (enumerate cs)) = length (flat_map cfc_cell_faces cs).
Proof.
  unfold cf_owners, enumerate. generalize 0. induction cs as [|C t IH]; intros s; cbn; [reflexivity|].
  now rewrite !app_length, repeat_length, IH.
Qed.

(* Whatever was done to the data of the re-wrapped mesh (r is arbitrary: faces / cells appended, reassigned, removed),
   once the three corner containers are cleared the rebuild records exactly one (element, owner) pair per incidence of
   the NEW faces and cells, in element order, owners included *)
Theorem rebuild_after_clear_thm c r p2 : Forall cell_ok (cells r) -> prepare c (clear3 r) = Ok p2 ->
  combine (fc_elem p2) (fc_adj p2) = incidences (faces p2)
  /\ combine (cc_elem p2) (cc_adj p2) = incidences (cells p2)
  /\ cells p2 = cells r
  /\ cf_adj p2 = cf_owners (enumerate (cells r))
  /\ Forall2 (face_ref (faces p2)) (cf_elem p2) (flat_map cfc_cell_faces (cells r))
  /\ length (cf_elem p2) = length (cf_adj p2).
Proof.
  intros Hok H. destruct (clear3_fields r) as (_ & _ & _ & _ & Hc & F1 & F2 & C1 & C2 & K1 & K2).
  destruct (corners_thm c (clear3 r) p2 F1 C1 C2 H) as (A1 & _ & _ & _ & A2 & _).
  rewrite <- Hc in Hok. destruct (cell_faces_thm c (clear3 r) p2 K1 K2 Hok H) as (B1 & B2).
  rewrite Hc in B1, B2. pose proof (prepare_fields c _ _ H) as (_ & Hcs & _). rewrite Hc in Hcs.
  repeat split; auto.
  rewrite B1, cf_owners_length. now apply Forall2_len in B2.
Qed.

(* ------------------------------------------------------------ clears only: building again changes nothing *)
Definition with_corners (r : raw) (fe fa ce ca ke ka : list Z) : raw :=
  mkRaw (vertices r) (edges r) (eattrs r) (faces r) fe fa (cells r) ce ca ke ka.

Lemma with_corners_eta r : with_corners r (fc_elem r) (fc_adj r) (cc_elem r) (cc_adj r) (cf_elem r) (cf_adj r) = r.
Proof. destruct r; reflexivity. Qed.

Lemma cfc_wc r fe fa ce ca ke ka : complete_faces_from_cells (with_corners r fe fa ce ca ke ka) =
  with_corners (complete_faces_from_cells r) fe fa ce ca ke ka.
Proof. unfold complete_faces_from_cells, with_corners. cbn. destruct (isnil (cells r)); reflexivity. Qed.

Lemma cef_wc r fe fa ce ca ke ka : complete_edges_from_faces (with_corners r fe fa ce ca ke ka) =
  with_corners (complete_edges_from_faces r) fe fa ce ca ke ka.
Proof. unfold complete_edges_from_faces, with_corners. cbn. destruct (isnil (faces r)); reflexivity. Qed.

Lemma pv_wc r fe fa ce ca ke ka : prepare_vertices (with_corners r fe fa ce ca ke ka) =
  with_corners (prepare_vertices r) fe fa ce ca ke ka.
Proof. reflexivity. Qed.

Lemma pe_wc r fe fa ce ca ke ka : prepare_edges (with_corners r fe fa ce ca ke ka) =
  with_corners (prepare_edges r) fe fa ce ca ke ka.
Proof. unfold prepare_edges, with_corners. cbn. destruct (edges_dropped _ (edges r)); reflexivity. Qed.

Definition fc_result (fs : list (list Z)) (e a : list Z) : list Z * list Z :=
  if fc_regen (zlen e) (sum_len fs) then fcan fc_record fs else (e, a).
Definition cc_result (cs : list (list Z)) (e a : list Z) : list Z * list Z :=
  if cc_regen (zlen e) (zlen a) then
    if cc_adj_only (zlen e) (zlen a) then cc_adj_only_result e (owners cs) else fcan cc_record cs
  else (e, a).
Definition cf_result (fs cs : list (list Z)) (e a : list Z) : res (list Z * list Z) :=
  if cf_regen (zlen e) (zlen a) then
    bind (cf_loop (cf_put_elem (zlen e) (zlen a)) (cf_put_adj (zlen e) (zlen a)) fs (enumerate cs))
         (fun ea => Ok (e ++ fst ea, a ++ snd ea))
  else Ok (e, a).

Lemma gfc_wc r fe fa ce ca ke ka : generate_face_corners (with_corners r fe fa ce ca ke ka) =
  with_corners r (fst (fc_result (faces r) fe fa)) (snd (fc_result (faces r) fe fa)) ce ca ke ka.
Proof. unfold generate_face_corners, with_corners, fc_result. cbn. destruct (fc_regen _ _); reflexivity. Qed.

Lemma gcc_wc r fe fa ce ca ke ka : generate_cell_corners (with_corners r fe fa ce ca ke ka) =
  with_corners r fe fa (fst (cc_result (cells r) ce ca)) (snd (cc_result (cells r) ce ca)) ke ka.
Proof.
  unfold generate_cell_corners, with_corners, cc_result. cbn.
  destruct (cc_regen _ _); [destruct (cc_adj_only _ _)|]; reflexivity.
Qed.

Lemma gcf_wc r fe fa ce ca ke ka : generate_cell_faces (with_corners r fe fa ce ca ke ka) =
  bind (cf_result (faces r) (cells r) ke ka) (fun x => Ok (with_corners r fe fa ce ca (fst x) (snd x))).
Proof.
  unfold generate_cell_faces, with_corners, cf_result. cbn. destruct (cf_regen _ _); [|reflexivity].
  destruct (cf_loop _ _ _ _); reflexivity.
Qed.

(* prepare() as a function of the main containers and of the three corner containers *)
Lemma prepare_wc c r fe fa ce ca ke ka :
  prepare c (with_corners r fe fa ce ca ke ka) =
  let X := prepare_edges (stage2 c r) in
  bind (cf_result (faces X) (cells X) ke ka) (fun x =>
    Ok (with_corners X (fst (fc_result (faces X) fe fa)) (snd (fc_result (faces X) fe fa))
                       (fst (cc_result (cells X) ce ca)) (snd (cc_result (cells X) ce ca)) (fst x) (snd x))).
Proof.
  rewrite prepare_unfold. unfold stage5, stage2, stage1.
  destruct (fst c), (snd c); rewrite ?cfc_wc, ?cef_wc, pv_wc, pe_wc, gfc_wc, gcc_wc, gcf_wc; reflexivity.
Qed.

(* the three results do not change when a canonical container is replaced by an empty one *)
Lemma fc_result_clear fs e a : (e, a) = fcan fc_record fs -> fc_result fs [] [] = fc_result fs e a.
Proof.
  intros H. unfold fc_result. replace (fc_regen (zlen []) (sum_len fs)) with true by reflexivity.
  destruct (fc_regen (zlen e) (sum_len fs)); congruence.
Qed.

Lemma cc_result_clear cs e a : (e, a) = fcan cc_record cs -> cc_result cs [] [] = cc_result cs e a.
Proof.
  intros H. unfold cc_result.
  replace (cc_regen (zlen (@nil Z)) (zlen (@nil Z))) with true by reflexivity.
  replace (cc_adj_only (zlen (@nil Z)) (zlen (@nil Z))) with false by reflexivity.
  destruct (cc_regen (zlen e) (zlen a)) eqn:G; [|congruence].
  assert (Hz : zlen e = zlen a).
  { unfold fcan in H. injection H as -> ->. unfold zlen. now rewrite !map_length. }
  destruct (regen_both_zero cc_regen _ _ (cc_regen_zero _ _) G Hz) as [Z1 Z2]. rewrite Z1, Z2.
  replace (cc_adj_only 0 0) with false by reflexivity. congruence.
Qed.

Lemma cf_result_clear fs cs e a : cf_loop true true fs (enumerate cs) = Ok (e, a) ->
  cf_result fs cs [] [] = cf_result fs cs e a.
Proof.
  intros H. unfold cf_result.
  replace (cf_regen (zlen (@nil Z)) (zlen (@nil Z))) with true by reflexivity.
  replace (cf_put_elem (zlen (@nil Z)) (zlen (@nil Z))) with true by reflexivity.
  replace (cf_put_adj (zlen (@nil Z)) (zlen (@nil Z))) with true by reflexivity.
  rewrite H. cbn [bind fst snd app].
  destruct (cf_regen (zlen e) (zlen a)) eqn:G; [|reflexivity].
  assert (Hz : zlen e = zlen a) by (unfold zlen; now rewrite (cf_loop_lengths _ _ _ _ H)).
  destruct (regen_both_zero cf_regen _ _ (cf_regen_zero _ _) G Hz) as [Z1 Z2].
  apply zlen_zero_nil in Z1, Z2. subst e a.
  replace (cf_put_elem (zlen (@nil Z)) (zlen (@nil Z))) with true by reflexivity.
  replace (cf_put_adj (zlen (@nil Z)) (zlen (@nil Z))) with true by reflexivity.
  rewrite H. reflexivity.
Qed.

(* a finished object whose corner containers are the generated ones *)
Definition canon_corners (p : raw) : Prop :=
  (fc_elem p, fc_adj p) = fcan fc_record (faces p)
  /\ (cc_elem p, cc_adj p) = fcan cc_record (cells p)
  /\ cf_loop true true (faces p) (enumerate (cells p)) = Ok (cf_elem p, cf_adj p).

(* q is p with some of its corner containers emptied *)
Definition cleared_of (q p : raw) : Prop :=
  vertices q = vertices p /\ edges q = edges p /\ eattrs q = eattrs p /\ faces q = faces p /\ cells q = cells p
  /\ ((fc_elem q, fc_adj q) = (fc_elem p, fc_adj p) \/ (fc_elem q, fc_adj q) = ([], []))
  /\ ((cc_elem q, cc_adj q) = (cc_elem p, cc_adj p) \/ (cc_elem q, cc_adj q) = ([], []))
  /\ ((cf_elem q, cf_adj q) = (cf_elem p, cf_adj p) \/ (cf_elem q, cf_adj q) = ([], [])).

Definition is_corner_clear (e : edit) : Prop :=
  match e with EClearFC | EClearCC | EClearCF => True | _ => False end.

Lemma cleared_of_refl p : cleared_of p p.
Proof. unfold cleared_of. repeat split; auto. Qed.

Lemma cleared_of_step e q p : is_corner_clear e -> cleared_of q p -> cleared_of (apply_edit e q) p.
Proof.
  intros He (H1 & H2 & H3 & H4 & H5 & H6 & H7 & H8).
  destruct e; try contradiction; unfold cleared_of, apply_edit; rewrite corner_clear_spec; cbn; repeat split; auto.
Qed.

Lemma cleared_of_edits es q p : Forall is_corner_clear es -> cleared_of q p -> cleared_of (apply_edits es q) p.
Proof.
  unfold apply_edits. revert q. induction es as [|e t IH]; intros q Hes H; cbn; [assumption|].
  inversion Hes; subst. apply IH; [assumption|]. now apply cleared_of_step.
Qed.

Lemma prepare_cleared c q p : prepared c p -> canon_corners p -> cleared_of q p -> prepare c q = prepare c p.
Proof.
  intros P (K1 & K2 & K3) (H1 & H2 & H3 & H4 & H5 & H6 & H7 & H8).
  rewrite <- (with_corners_eta q), <- (with_corners_eta p).
  assert (Em : forall fe fa ce ca ke ka, with_corners q fe fa ce ca ke ka = with_corners p fe fa ce ca ke ka).
  { intros. unfold with_corners. now rewrite H1, H2, H3, H4, H5. }
  rewrite Em, !prepare_wc. cbn zeta.
  set (X := prepare_edges (stage2 c p)).
  assert (XF : faces X = faces p).
  { unfold X. now rewrite pe_faces, stage2_faces, stage1_faces, (prepared_added_faces c p P), app_nil_r. }
  assert (XC : cells X = cells p) by (unfold X; now rewrite pe_cells, stage2_cells).
  rewrite XF, XC.
  assert (E6 : fc_result (faces p) (fc_elem q) (fc_adj q) = fc_result (faces p) (fc_elem p) (fc_adj p)).
  { destruct H6 as [E|E]; injection E as -> ->; [reflexivity | now apply fc_result_clear]. }
  assert (E7 : cc_result (cells p) (cc_elem q) (cc_adj q) = cc_result (cells p) (cc_elem p) (cc_adj p)).
  { destruct H7 as [E|E]; injection E as -> ->; [reflexivity | now apply cc_result_clear]. }
  assert (E8 : cf_result (faces p) (cells p) (cf_elem q) (cf_adj q) = cf_result (faces p) (cells p) (cf_elem p) (cf_adj p)).
  { destruct H8 as [E|E]; injection E as -> ->; [reflexivity | now apply cf_result_clear]. }
  now rewrite E6, E7, E8.
Qed.

(* fresh corner containers in the raw input: the finished object carries the generated ones *)
Definition fresh_corners (r : raw) : Prop :=
  fc_elem r = [] /\ fc_adj r = [] /\ cc_elem r = [] /\ cc_adj r = [] /\ cf_elem r = [] /\ cf_adj r = [].

Lemma fresh_wf r : fresh_corners r -> wf_corners r.
Proof. intros (_ & _ & C1 & C2 & K1 & K2). unfold wf_corners. rewrite C1, C2, K1, K2. split; reflexivity. Qed.

Lemma prepare_canon c r r1 : fresh_corners r -> prepare c r = Ok r1 -> canon_corners r1.
Proof.
  intros (F1 & F2 & C1 & C2 & K1 & K2) H.
  rewrite <- (with_corners_eta r), F1, F2, C1, C2, K1, K2, prepare_wc in H. cbn zeta in H.
  set (X := prepare_edges (stage2 c r)) in *.
  unfold cf_result in H.
  replace (cf_regen (zlen (@nil Z)) (zlen (@nil Z))) with true in H by reflexivity.
  replace (cf_put_elem (zlen (@nil Z)) (zlen (@nil Z))) with true in H by reflexivity.
  replace (cf_put_adj (zlen (@nil Z)) (zlen (@nil Z))) with true in H by reflexivity.
  destruct (cf_loop true true (faces X) (enumerate (cells X))) as [[el ad]|e] eqn:El; cbn in H; [|discriminate].
  inversion H; subst r1; clear H. unfold canon_corners, with_corners. cbn.
  unfold fc_result, cc_result.
  replace (fc_regen (zlen (@nil Z)) (sum_len (faces X))) with true by reflexivity.
  replace (cc_regen (zlen (@nil Z)) (zlen (@nil Z))) with true by reflexivity.
  replace (cc_adj_only (zlen (@nil Z)) (zlen (@nil Z))) with false by reflexivity.
  cbn. repeat split; auto.
Qed.

Lemma rewrap_canon k r : top_dim r <= k -> 0 <= k <= 3 -> canon_corners r -> canon_corners (rewrap k r).
Proof.
  intros Hd Hk (K1 & K2 & K3). destruct (rewrap_main k r Hd Hk) as (He & Hf & Hc & Hv).
  unfold canon_corners. rewrite Hf, Hc. unfold rewrap. cbn [fc_elem fc_adj cc_elem cc_adj cf_elem cf_adj].
  assert (HF : mesh_has_faces k = false -> faces r = []).
  { intros M. unfold top_dim in Hd. unfold mesh_has_faces in M. destruct (cells r), (faces r); cbn in Hd; try reflexivity; lia. }
  assert (HC : mesh_has_cells k = false -> cells r = []).
  { intros M. unfold top_dim in Hd. unfold mesh_has_cells in M. destruct (cells r); cbn in Hd; try reflexivity; lia. }
  split; [|split].
  - destruct (mesh_has_faces k) eqn:M; [assumption|]. rewrite (HF eq_refl). reflexivity.
  - destruct (mesh_has_cells k) eqn:M; [assumption|]. rewrite (HC eq_refl). reflexivity.
  - destruct (mesh_has_cells k) eqn:M; [assumption|]. rewrite (HC eq_refl). reflexivity.
Qed.

(* RawMeshData(mesh), clear() of any of the corner containers (any number of times, any order), build again:
   same class, same containers - owners included *)
Theorem rebuild_after_clears_thm c dim r k r1 es : fresh_corners r -> instanciate c dim r = Ok (k, r1) ->
  Forall is_corner_clear es ->
  exists r2, rebuild c dim es k r1 = Ok (k, r2) /\ raw_equiv r2 (rewrap k r1).
Proof.
  intros Fr H Hes. pose proof (fresh_wf r Fr) as W.
  destruct (rebuild_thm c dim r k r1 W H) as (_ & r2 & H2 & Eq).
  exists r2. split; [|exact Eq].
  destruct (class_thm c dim r k r1 H) as (Hp & Hk & Hr & _).
  destruct (prepare_gives_prepared c r r1 W Hp) as [P _].
  assert (Hd : top_dim r1 <= k) by lia.
  pose proof (rewrap_prepared c k r1 Hd Hr P) as P'.
  pose proof (rewrap_canon k r1 Hd Hr (prepare_canon c r r1 Fr Hp)) as K'.
  pose proof (cleared_of_edits es _ _ Hes (cleared_of_refl (rewrap k r1))) as Cl.
  unfold rebuild, instanciate in *. now rewrite (prepare_cleared c _ _ P' K' Cl).
Qed.
