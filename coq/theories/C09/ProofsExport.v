(* C09 - build_path (export_path_mesh=True): the exported polyline draws exactly the returned paths. *)
From Coq Require Import ZArith List Bool Arith Lia ZifyBool.
Import ListNotations.
Require Import MV.Lib.Base MV.C09.Gen MV.C09.Model MV.C09.ProofsDijkstra MV.C09.ProofsQueue MV.C09.ProofsMesh MV.C09.ProofsSet MV.C09.ProofsTop.
Open Scope Z_scope.

Lemma znth_cons_0 {A} (a : A) l d : znth (a :: l) 0 d = a.
Proof. reflexivity. Qed.

Lemma znth_cons_pos {A} (a : A) l i d : 1 <= i -> znth (a :: l) i d = znth l (i - 1) d.
Proof.
  intros H. unfold znth. destruct (i <? 0) eqn:E1; [lia|]. destruct (i - 1 <? 0) eqn:E2; [lia|].
  replace (Z.to_nat i) with (S (Z.to_nat (i - 1))) by lia. reflexivity.
Qed.

Lemma map_znth_seq (l : list Z) d : map (fun j => znth l (Z.of_nat j) d) (seq 0 (length l)) = l.
Proof.
  induction l as [|a l IH]; [reflexivity|]. simpl length. simpl seq. simpl map. rewrite znth_cons_0. f_equal.
  rewrite <- seq_shift, map_map. rewrite <- IH at 2. apply map_ext. intros j.
  rewrite znth_cons_pos by lia. f_equal. lia.
Qed.

Lemma map_znth_tail (a : Z) (t : list Z) d :
  map (fun i => znth (a :: t) i d) (zrange2 1 (zlen (a :: t))) = t.
Proof.
  unfold zrange2, zrange, zlen. rewrite !map_map.
  replace (Z.to_nat (Z.of_nat (length (a :: t)) - 1)) with (length t) by (simpl length; lia).
  rewrite <- (map_znth_seq t d) at 2. apply map_ext. intros j. rewrite znth_cons_pos by lia. f_equal. lia.
Qed.

Lemma zlen_app (a b : list Z) : zlen (a ++ b) = zlen a + zlen b.
Proof. unfold zlen. rewrite app_length. lia. Qed.

Lemma zlen_nonneg (l : list Z) : 0 <= zlen l.
Proof. unfold zlen. lia. Qed.

(* one path: its vertices in order, and one edge per consecutive pair, offset by k *)
Lemma bp_path_vertices k l : fst (bp_path k l) = l.
Proof.
  unfold bp_path. cbn [fst]. destruct l as [|a t].
  - reflexivity.
  - assert (G1 : bp_first_guard (zlen (a :: t)) = true) by (unfold bp_first_guard, zlen; simpl length; lia).
    rewrite G1. change (znth (a :: t) bp_first_index 0) with a. simpl app. f_equal.
    destruct (bp_loop_guard (zlen (a :: t))) eqn:G2.
    + apply map_znth_tail.
    + unfold bp_loop_guard, zlen in G2. simpl length in G2. destruct t; [reflexivity | simpl length in G2; lia].
Qed.

Lemma bp_path_edges k l e : In e (snd (bp_path k l)) <-> exists i, 1 <= i < zlen l /\ e = bp_edge k i.
Proof.
  unfold bp_path. cbn [snd]. destruct (bp_loop_guard (zlen l)) eqn:G.
  - rewrite in_map_iff. unfold bp_range_lo. split.
    + intros [i [<- Hi]]. apply In_zrange2 in Hi. eauto.
    + intros [i [Hi ->]]. exists i. split; [reflexivity | apply In_zrange2; exact Hi].
  - simpl. split; [tauto|]. intros [i [Hi _]]. unfold bp_loop_guard in G. lia.
Qed.

Lemma build_path_from_spec : forall ps k,
  fst (build_path_from k ps) = concat ps /\
  forall e, In e (snd (build_path_from k ps)) <->
            exists pre p post i, ps = pre ++ p :: post /\ 1 <= i < zlen p /\ e = bp_edge (k + zlen (concat pre)) i.
Proof.
  induction ps as [|l t IH]; intros k.
  - split; [reflexivity|]. intros e. simpl. split; [tauto|]. intros [pre [p [post [i [H _]]]]]. destruct pre; discriminate.
  - destruct (IH (bp_advance k (zlen l))) as [IHv IHe]. cbn [build_path_from fst snd]. split.
    + rewrite bp_path_vertices, IHv. reflexivity.
    + intros e. rewrite in_app_iff, bp_path_edges, IHe. unfold bp_advance. split.
      * intros [[i [Hi ->]]|[pre [p [post [i [E [Hi ->]]]]]]].
        -- exists [], l, t, i. simpl concat. change (zlen []) with 0. rewrite Z.add_0_r. auto.
        -- exists (l :: pre), p, post, i. split; [rewrite E; reflexivity|]. split; [exact Hi|].
           simpl concat. rewrite zlen_app. f_equal. lia.
      * intros [pre [p [post [i [E [Hi ->]]]]]]. destruct pre as [|a pre].
        -- simpl in E. inversion E; subst. left. exists i. simpl concat. change (zlen []) with 0. rewrite Z.add_0_r. auto.
        -- simpl in E. inversion E; subst. right. exists pre, p, post, i. split; [reflexivity|]. split; [exact Hi|].
           simpl concat. rewrite zlen_app. f_equal. lia.
Qed.

Lemma znth_app_mid (A p B : list Z) j d : 0 <= j < zlen p -> znth (A ++ p ++ B) (zlen A + j) d = znth p j d.
Proof.
  intros H. unfold znth, zlen in *. destruct (Z.of_nat (length A) + j <? 0) eqn:E1; [lia|]. destruct (j <? 0) eqn:E2; [lia|].
  rewrite app_nth2 by lia. rewrite app_nth1 by lia. f_equal. lia.
Qed.

Lemma chain_consecutive (R : Z -> Z -> Prop) : forall p i, chainP R p -> 1 <= i < zlen p -> R (znth p (i - 1) 0) (znth p i 0).
Proof.
  induction p as [|a p IH]; intros i Hc Hi; [unfold zlen in Hi; simpl in Hi; lia|].
  destruct p as [|b t]; [unfold zlen in Hi; simpl in Hi; lia|].
  destruct Hc as [Hab Hc]. destruct (Z.eq_dec i 1) as [->|Ne].
  - exact Hab.
  - rewrite (znth_cons_pos a (b :: t) (i - 1)) by lia. rewrite (znth_cons_pos a (b :: t) i) by lia.
    apply IH; [exact Hc|]. unfold zlen in *. simpl length in *. lia.
Qed.

(* The exported polyline of a collection of returned paths (each empty - target not connected - or a valid edge path):
   its vertices copy the path vertices in order; its edges are exactly the consecutive pairs of each path (every such
   pair is an edge, and every edge is such a pair), so every polyline edge joins two vertices joined by a mesh edge. *)
Theorem export_polyline_correct m s (l : list (Z * list Z)) :
  (forall tp, In tp l -> snd tp = [] \/ valid_path m s (fst tp) (snd tp) = true) ->
  let ps := map snd l in
  let r := build_path ps in
  fst r = concat ps /\
  (forall pre p post i, ps = pre ++ p :: post -> 1 <= i < zlen p ->
      In (zlen (concat pre) + i - 1, zlen (concat pre) + i) (snd r)
      /\ znth (fst r) (zlen (concat pre) + i - 1) 0 = znth p (i - 1) 0
      /\ znth (fst r) (zlen (concat pre) + i) 0 = znth p i 0) /\
  (forall e, In e (snd r) -> snd e = fst e + 1 /\ medge m (znth (fst r) (fst e) 0) (znth (fst r) (snd e) 0) = true).
Proof.
  intros Hl ps r. destruct (build_path_from_spec ps bp_k0) as [Hv He]. fold (build_path ps) in Hv, He. fold r in Hv, He.
  assert (Mid : forall pre p post j, ps = pre ++ p :: post -> 0 <= j < zlen p ->
                 znth (fst r) (zlen (concat pre) + j) 0 = znth p j 0).
  { intros pre p post j E Hj. rewrite Hv, E, concat_app. simpl concat. apply znth_app_mid. exact Hj. }
  split; [exact Hv|]. split.
  - intros pre p post i E Hi. split; [|split].
    + apply He. exists pre, p, post, i. split; [exact E|]. split; [exact Hi|]. unfold bp_edge, bp_k0. f_equal; lia.
    + replace (zlen (concat pre) + i - 1) with (zlen (concat pre) + (i - 1)) by lia. apply (Mid pre p post); [exact E | lia].
    + apply (Mid pre p post); [exact E | lia].
  - intros e Hin. apply He in Hin. destruct Hin as [pre [p [post [i [E [Hi ->]]]]]]. unfold bp_edge, bp_k0. cbn [fst snd].
    split; [lia|].
    replace (0 + zlen (concat pre) + i - 1) with (zlen (concat pre) + (i - 1)) by lia.
    replace (0 + zlen (concat pre) + i) with (zlen (concat pre) + i) by lia.
    rewrite (Mid pre p post (i - 1) E) by lia. rewrite (Mid pre p post i E) by lia.
    assert (Hp : In p ps) by (rewrite E; apply in_or_app; right; left; reflexivity).
    unfold ps in Hp. apply in_map_iff in Hp. destruct Hp as [tp [<- Htp]].
    destruct (Hl tp Htp) as [Hn|Hval]; [rewrite Hn in Hi; unfold zlen in Hi; simpl in Hi; lia|].
    apply valid_path_spec in Hval. destruct Hval as [_ [_ [_ [_ Hc]]]].
    apply (chain_consecutive (fun a b => medge m a b = true) (snd tp) i Hc Hi).
Qed.

(* non-vacuity: two paths and an unconnected target *)
Example ex_build_path :
  build_path [[0; 1; 2; 3]; []; [0; 1; 2; 4]; [7]] = ([0; 1; 2; 3; 0; 1; 2; 4; 7], [(0, 1); (1, 2); (2, 3); (4, 5); (5, 6); (6, 7)]).
Proof. vm_compute. reflexivity. Qed.

(* what shortest_path returns can always be handed to build_path: every entry is an optimal (hence valid) path or empty *)
Lemma answers_exportable m ws start ts (l : list (Z * list Z)) :
  Forall2 (fun t tp => fst tp = t /\ target_answer m ws start t (snd tp)) ts l ->
  forall tp, In tp l -> snd tp = [] \/ valid_path m start (fst tp) (snd tp) = true.
Proof.
  induction 1 as [|t tp ts l [Hf Ha] _ IH]; intros x Hx; [destruct Hx|].
  destruct Hx as [<-|Hx]; [|apply IH; exact Hx].
  destruct Ha as [[Hv _]|[Hn _]]; [right; rewrite Hf; exact Hv | left; exact Hn].
Qed.

(* shortest_path(..., export_path_mesh=True) as executed: the dict of optimal paths AND a polyline that draws them *)
Theorem shortest_path_export_correct m ws start targets :
  mesh_ok m ws = true -> is_vertex m start = true -> forallb (is_vertex m) targets = true ->
  exists l, run_sp m ws start targets = Ok l
    /\ Forall2 (fun t tp => fst tp = t /\ target_answer m ws start t (snd tp)) (dedup targets) l
    /\ let r := build_path (map snd l) in
       fst r = concat (map snd l) /\
       (forall pre p post i, map snd l = pre ++ p :: post -> 1 <= i < zlen p ->
           In (zlen (concat pre) + i - 1, zlen (concat pre) + i) (snd r)) /\
       (forall e, In e (snd r) -> snd e = fst e + 1 /\ medge m (znth (fst r) (fst e) 0) (znth (fst r) (snd e) 0) = true).
Proof.
  intros H1 H2 H3.
  destruct (ProofsTop.run_sp_correct m ws start targets H1 H2 H3) as [l [Hr Hf]].
  exists l. split; [exact Hr|]. split; [exact Hf|].
  destruct (export_polyline_correct m start l (answers_exportable m ws start _ l Hf)) as [A [B C]].
  split; [exact A|]. split; [|exact C]. intros pre p post i E Hi. apply (B pre p post i E Hi).
Qed.
