(* C09 - shortest_path_to_vertex_set / shortest_path_to_border: the virtual sink joined to every target with weight 0
   yields a nearest member of the set and a shortest path to it; the one-element shortcut; start inside the set. *)
From Coq Require Import ZArith List Bool Arith Lia ZifyBool Permutation.
Import ListNotations.
Require Import MV.Lib.Base MV.C09.Gen MV.C09.Model MV.C09.ProofsDijkstra MV.C09.ProofsMesh.
Open Scope Z_scope.

Lemma back_set_back : forall fuel pr start v acc p,
  back fuel pr start v acc = Ok p -> p <> [] -> back_set fuel pr start v (v :: acc) = Ok p.
Proof.
  induction fuel as [|f IH]; intros pr start v acc p; [discriminate|]. simpl.
  destruct (Z.eqb_spec v start) as [->|Ne]; [auto|].
  destruct (zget pr v) as [u|]; [apply IH|]. intros H. inversion H. congruence.
Qed.

Lemma NoDup_app_notin (A B : list Z) x : NoDup (A ++ x :: B) -> ~ In x B.
Proof.
  induction A as [|a A IH]; simpl; intros H; inversion H as [|? ? Hn Hd]; subst; [exact Hn | apply IH; exact Hd].
Qed.

Lemma forallb_In {A} (f : A -> bool) l x : forallb f l = true -> In x l -> f x = true.
Proof. rewrite forallb_forall. auto. Qed.

Section SetLevel.
  Variable Q : Type.
  Variable qempty : Q.
  Variable qpush : Q -> Z -> Z -> Q.
  Variable qpop : Q -> option (Z * Z * Q).
  Variable content : Q -> list (Z * Z).
  Variable qinv : Q -> Prop.
  Hypothesis PQ : pq_contract Q qempty qpush qpop content qinv.

  Variable m : mesh.
  Variable ws : wspec.
  Hypothesis OK : mesh_ok m ws = true.
  Variable start : Z.
  Hypothesis Hstart : is_vertex m start = true.
  Variable T : list Z.
  Hypothesis HT : forallb (is_vertex m) T = true.

  Let EOK : edges_ok m = true := proj1 (mesh_ok_parts m ws OK).
  Let WOK : weights_ok m ws = true := proj2 (proj2 (mesh_ok_parts m ws OK)).
  Let verts' := sentinel :: zrange (nvert m).

  Lemma vertex_not_sentinel v : is_vertex m v = true -> v <> sentinel.
  Proof. unfold is_vertex. pose proof sentinel_neg. lia. Qed.

  Lemma verts'_spec v : In v verts' <-> v = sentinel \/ is_vertex m v = true.
  Proof. unfold verts'. simpl. rewrite is_vertex_spec. split; intros [H|H]; auto. Qed.

  Lemma verts'_nodup : NoDup verts'.
  Proof.
    constructor; [|apply NoDup_zrange]. intros C. apply is_vertex_spec in C.
    apply vertex_not_sentinel in C. congruence.
  Qed.

  Lemma set_nbrs_spec u v : In v (set_nbrs m T u) <->
    (u = sentinel /\ In v T) \/ (u <> sentinel /\ (medge m u v = true \/ (v = sentinel /\ In u T))).
  Proof.
    unfold set_nbrs. destruct (Z.eqb_spec u sentinel) as [->|Ne].
    - rewrite dedup_In. split; [auto|]. intros [[_ H]|[H _]]; [exact H | congruence].
    - rewrite dedup_In, in_app_iff, inc_nbrs_spec, medge_spec.
      destruct (mem u T) eqn:M.
      + apply mem_In in M. simpl. split.
        * intros [H|[<-|[]]]; right; auto.
        * intros [[H _]|[_ [H|[-> _]]]]; [congruence | auto | auto].
      + assert (NT : ~ In u T) by (intros C; apply mem_In in C; congruence). simpl. split.
        * intros [H|[]]. right. auto.
        * intros [[H0 _]|[_ [H0|[_ H0]]]]; [congruence | auto | contradiction].
  Qed.

  Lemma set_closed u v : In u verts' -> In v (set_nbrs m T u) -> In v verts'.
  Proof.
    intros _ Hv. apply verts'_spec. apply set_nbrs_spec in Hv.
    destruct Hv as [[_ H]|[_ [H|[-> _]]]].
    - right. apply (forallb_In _ _ _ HT H).
    - right. apply (medge_vertex m u v EOK H).
    - left. reflexivity.
  Qed.

  Lemma set_nonneg u v : In u verts' -> In v (set_nbrs m T u) -> 0 <= set_weight m ws u v.
  Proof.
    intros _ _. destruct (Z.eq_dec u sentinel) as [E|Nu]; [rewrite set_weight_sink by auto; lia|].
    destruct (Z.eq_dec v sentinel) as [E|Nv]; [rewrite set_weight_sink by auto; lia|].
    rewrite set_weight_eq by assumption. apply mweight_nonneg. exact WOK.
  Qed.

  Lemma start_in' : In start verts'.
  Proof. apply verts'_spec. right. exact Hstart. Qed.

  Definition set_final (st : state Q) (ord : list Z) : Prop :=
    final Q content qinv (set_nbrs m T) (set_weight m ws) start st ord.

  Lemma set_run_ok : exists st ord, set_run Q qempty qpush qpop m ws start T = Ok st /\ set_final st ord.
  Proof.
    unfold set_run. rewrite Hstart, HT. simpl orb. simpl negb. cbv iota.
    apply (dijkstra_terminates Q qempty qpush qpop content qinv PQ (set_nbrs m T) (set_weight m ws) relax_set relax_set_spec
             verts' verts'_nodup set_closed set_nonneg start start_in').
  Qed.

  (* a valid mesh path to a target, prolonged by the sink edge, is a walk to the sink of the same weight *)
  Lemma sink_walk t p : In t T -> valid_path m start t p = true ->
    walkc (set_nbrs m T) (set_weight m ws) start sentinel (path_weight (mweight m ws) p).
  Proof.
    intros Ht Hp. apply valid_path_spec in Hp. destruct Hp as [H1 [H2 [H3 [H4 H5]]]].
    assert (Ns : forall x, In x p -> x <> sentinel) by (intros x Hx; apply vertex_not_sentinel, H4, Hx).
    assert (Hc : chainP (fun a b => In b (set_nbrs m T a)) p).
    { eapply chainP_impl; [|exact H5]. intros a b Ha _ Hab. apply set_nbrs_spec. right. split; [apply Ns; exact Ha | auto]. }
    assert (Hc' : chainP (fun a b => In b (set_nbrs m T a)) (p ++ [sentinel])).
    { apply chainP_snoc; auto. rewrite H3. apply set_nbrs_spec. right.
      split; [apply vertex_not_sentinel, (forallb_In _ _ _ HT Ht) | right; auto]. }
    pose proof (chain_walkc (set_nbrs m T) (set_weight m ws) start (p ++ [sentinel])) as W.
    rewrite last_snoc, path_weight_snoc in W by exact H1.
    rewrite set_weight_sink in W by auto.
    rewrite (path_weight_ext (set_weight m ws) (mweight m ws) p) in W
      by (intros a b Ha Hb; apply set_weight_eq; apply Ns; assumption).
    rewrite Z.add_0_r in W. apply W; [destruct p; discriminate | destruct p; [congruence | exact H2] | exact Hc'].
  Qed.

  Definition nearest (ind : Z) (p : list Z) : Prop :=
    In ind T /\ valid_path m start ind p = true /\
    forall t' p', In t' T -> valid_path m start t' p' = true ->
                  path_weight (mweight m ws) p <= path_weight (mweight m ws) p'.

  (* the sink construction (the general branch) *)
  Lemma sink_branch st ord : set_final st ord ->
    (exists t0 p0, In t0 T /\ valid_path m start t0 p0 = true) ->
    exists p, back_set (S (S (Z.to_nat (nvert m)))) (pred st) start sentinel [] = Ok p /\ nearest (set_ind start p) p.
  Proof.
    intros F [t0 [p0 [Ht0 Hp0]]].
    pose proof (sink_walk t0 p0 Ht0 Hp0) as W0.
    destruct (final_reachable _ _ _ _ _ _ _ _ _ _ F W0) as [D HD].
    pose proof (final_all_visited _ _ _ _ _ _ _ _ _ _ F HD) as Sord.
    assert (Nss : sentinel <> start) by (intros E; apply (vertex_not_sentinel start Hstart); congruence).
    pose proof F as [I Eq].
    destruct (i_pred _ _ _ _ _ _ _ _ _ I sentinel D HD Nss) as [u [du [P1 [P2 [P3 [P4 [P5 P6]]]]]]].
    apply set_nbrs_spec in P4.
    assert (HuT : In u T /\ u <> sentinel).
    { destruct P4 as [[-> H]|[Nu [H|[_ H]]]].
      - exfalso. apply (vertex_not_sentinel sentinel (forallb_In _ _ _ HT H)). reflexivity.
      - exfalso. apply (medge_vertex m u sentinel EOK) in H. destruct H as [_ H].
        apply (vertex_not_sentinel _ H). reflexivity.
      - auto. }
    destruct HuT as [HuT Nu].
    destruct (P6 Sord) as [l1 [l2 [E1 E2]]].
    destruct (in_split _ _ E2) as [k1 [k2 Ek]].
    assert (Hord : ord = (l1 ++ sentinel :: k1) ++ u :: k2) by (rewrite E1, Ek, <- app_assoc; reflexivity).
    destruct (back_correct_suffix Q content qinv (set_nbrs m T) (set_weight m ws) verts' set_closed start start_in'
                st ord u _ k2 (S (Z.to_nat (nvert m))) F Hord) as [p [Hb [[G1 [G2 [G3 [G4 G5]]]] Hs]]].
    { unfold verts'. simpl. rewrite zrange_length. lia. }
    assert (ND : NoDup (l1 ++ sentinel :: (k1 ++ u :: k2))) by (rewrite <- Ek, <- E1; apply (i_nodup _ _ _ _ _ _ _ _ _ I)).
    assert (Nsp : forall x, In x p -> x <> sentinel).
    { intros x Hx ->. apply (NoDup_app_notin _ _ _ ND). apply in_or_app. right. apply Hs. exact Hx. }
    assert (Vp : forall x, In x p -> is_vertex m x = true).
    { intros x Hx. assert (Hin : In x ord) by (rewrite Hord; apply in_or_app; right; apply Hs; exact Hx).
      destruct (i_fin _ _ _ _ _ _ _ _ _ I x Hin) as [dx Hdx].
      pose proof (walkc_verts _ _ verts' set_closed start start_in' _ _ (i_real _ _ _ _ _ _ _ _ _ I x dx Hdx)) as Hv.
      apply verts'_spec in Hv. destruct Hv as [->|Hv]; [exfalso; apply (Nsp sentinel Hx); reflexivity | exact Hv]. }
    assert (Wp : path_weight (set_weight m ws) p = path_weight (mweight m ws) p)
      by (apply path_weight_ext; intros a b Ha Hbp; apply set_weight_eq; apply Nsp; assumption).
    exists p. split.
    - change (back_set (S (S (Z.to_nat (nvert m)))) (pred st) start sentinel [])
        with (if Z.eqb sentinel start then Ok []
              else match zget (pred st) sentinel with
                   | None => KeyError
                   | Some u0 => back_set (S (Z.to_nat (nvert m))) (pred st) start u0 [u0]
                   end).
      destruct (Z.eqb_spec sentinel start); [contradiction|]. rewrite P1. apply back_set_back; [exact Hb | exact G1].
    - assert (Hind : set_ind start p = u).
      { unfold set_ind. destruct p as [|a p']; [congruence|]. rewrite (last_indep (a :: p') start 0) by discriminate. exact G3. }
      rewrite Hind. split; [exact HuT|]. split.
      + apply valid_path_spec. repeat split; auto.
        eapply chainP_impl; [|exact G4]. intros a b Ha Hbp Hab. apply set_nbrs_spec in Hab.
        destruct Hab as [[E _]|[_ [H|[E _]]]]; [exfalso; apply (Nsp a Ha E) | exact H | exfalso; apply (Nsp b Hbp E)].
      + intros t' p' Ht' Hp'. pose proof (sink_walk t' p' Ht' Hp') as W'.
        destruct (final_dist_optimal _ _ _ _ _ _ _ _ _ _ F HD) as [_ Opt]. specialize (Opt _ W').
        rewrite <- Wp. rewrite G5 in P2. inversion P2; subst du.
        rewrite set_weight_sink in P3 by auto. lia.
  Qed.
End SetLevel.

Section SetTheorem.
  Variable Q : Type.
  Variable qempty : Q.
  Variable qpush : Q -> Z -> Z -> Q.
  Variable qpop : Q -> option (Z * Z * Q).
  Variable content : Q -> list (Z * Z).
  Variable qinv : Q -> Prop.
  Hypothesis PQ : pq_contract Q qempty qpush qpop content qinv.
  Variable m : mesh.
  Variable ws : wspec.
  Hypothesis OK : mesh_ok m ws = true.
  Variable start : Z.
  Hypothesis Hstart : is_vertex m start = true.

  (* shortest_path_to_vertex_set, all branches: a set of vertices at least one of which is connected to the start *)
  Theorem vertex_set_correct T :
    forallb (is_vertex m) T = true ->
    (exists t0 p0, In t0 T /\ valid_path m start t0 p0 = true) ->
    exists ind p, shortest_path_to_vertex_set Q qempty qpush qpop m ws start T = Ok (ind, p)
                  /\ nearest m ws start T ind p.
  Proof.
    intros HT Hreach. unfold shortest_path_to_vertex_set.
    destruct T as [|t [|t2 T']].
    - destruct Hreach as [t0 [_ [[] _]]].
    - (* one target: the shortcut through shortest_path *)
      change (no_target_test (Z.of_nat (length [t]))) with false.
      change (shortcut_test (Z.of_nat (length [t]))) with true. cbv iota.
      destruct (shortcut_plumbing start t) as [S1 [S2 [S3 S4]]]. rewrite S1, S3, S4.
      destruct Hreach as [t0 [p0 [[<-|[]] Hp0]]].
      destruct (shortest_path_correct Q qempty qpush qpop content qinv PQ m ws OK start Hstart (shortcut_targets start [t]))
        as [l [Hl Fl]].
      { apply forallb_forall. intros x Hx. apply dedup_In in Hx. rewrite S2 in Hx. destruct Hx as [<-|[]].
        apply (forallb_In _ _ _ HT). left. reflexivity. }
      rewrite Hl. cbn [rbind]. rewrite S2 in Fl.
      inversion Fl as [|? tp ? l' Hfo Fl' Ea Eb]; subst. inversion Fl'; subst.
      destruct Hfo as [Hf Ho].
      destruct tp as [t1 p]. simpl in Hf, Ho. subst t1. simpl find. rewrite Z.eqb_refl.
      exists t, p. split; [reflexivity|].
      destruct Ho as [Ho|[_ Hn]]; [|rewrite Hn in Hp0; discriminate]. destruct Ho as [Hv Hopt].
      split; [left; reflexivity|]. split; [exact Hv|].
      intros t' p' [<-|[]] Hp'. apply Hopt. exact Hp'.
    - (* two or more entries: the sink construction *)
      set (TT := t :: t2 :: T') in *.
      assert (N0 : no_target_test (Z.of_nat (length TT)) = false) by (unfold no_target_test, TT; simpl length; lia).
      assert (N1 : shortcut_test (Z.of_nat (length TT)) = false) by (unfold shortcut_test, TT; simpl length; lia).
      rewrite N0, N1.
      destruct (set_run_ok Q qempty qpush qpop content qinv PQ m ws OK start Hstart TT HT) as [st [ord [Hrun F]]].
      rewrite Hrun. cbn [rbind].
      destruct (sink_branch Q content qinv m ws OK start Hstart TT HT st ord F Hreach) as [p [Hb Hn]].
      rewrite Hb. cbn [rbind]. exists (set_ind start p), p. split; [reflexivity | exact Hn].
  Qed.

  (* shortest_path_to_border: the path component of the set query on mesh.boundary_vertices *)
  Theorem border_correct :
    border m <> [] -> forallb (is_vertex m) (border m) = true ->
    (exists t0 p0, In t0 (border m) /\ valid_path m start t0 p0 = true) ->
    exists p, shortest_path_to_border Q qempty qpush qpop m ws start = Ok p
              /\ nearest m ws start (border m) (last p start) p.
  Proof.
    intros Hne HT Hreach. unfold shortest_path_to_border.
    assert (N0 : no_border_test (Z.of_nat (length (border m))) = false).
    { unfold no_border_test. destruct (border m); [congruence|]. simpl length. lia. }
    rewrite N0. destruct (vertex_set_correct (border m) HT Hreach) as [ind [p [Hr Hn]]].
    rewrite Hr. cbn [rbind]. change (Nat.eqb border_result_index 1) with true. cbv iota.
    exists p. split; [reflexivity|].
    assert (ind = last p start).
    { destruct Hn as [_ [Hv _]]. apply valid_path_spec in Hv. destruct Hv as [H1 [_ [H3 _]]].
      rewrite (last_indep p start 0) by exact H1. congruence. }
    subst ind. exact Hn.
  Qed.
End SetTheorem.
